#!/usr/bin/env python3
"""Writes /verif/expect/panic_sites.json from the extractor's site list and the justification
rules below (written after reading the code at /repo HEAD). Every site must be matched by exactly
one rule; the committed JSON lists every site explicitly."""
import json, re, sys

meta = json.load(open(sys.argv[1]))
sites = meta["extra"]["sites"]

G = {}  # group id -> long justification


def g(key, text):
    G[key] = text
    return key


# ---- groups ---------------------------------------------------------------------------------
g("lr-runtime", "generated LR runtime of the front end (internal/parser/parser.gen.go, base.gen.go; instance of parserTemplate/baseTemplate): "
  "_Find offsets, _rules/_termCounts by production, stack Peek/Pop/PeekSlice by the production's term count. Lox.Props.C01.parse_no_panic proves the model "
  "of this code never returns a panic on tables that pass LR.check; that the CHECKED-IN tables of internal/parser pass the validator is evaluated by family `shipped` "
  "(C14) on every run; model = template is tied by family `lrgen`.")
g("lr-recovery", "error-recovery half of the generated LR runtime (_recover, _makeError, recoverLookahead, the `_lasym.(Error)` assertion): no no-panic theorem "
  "(C09 proves termination/structure of _recover for arbitrary tables, its remaining-work list names `No panic` as open). Invariant: _lasym holds an Error exactly when "
  "_la == ERROR (set only by _recover / _readToken), _qla is empty whenever _recover runs. Exercised on the real front end by every syntactically broken .lox file of "
  "family cli_fuzz and by families lrgen/analyze (ERROR bursts).")
g("lex-runtime", "generated lexer state machine of the front end (internal/parser/lexer.gen.go, instance of lexerTemplate): every index is a table offset. "
  "Lox.Props.C11.no_oob proves the model of PushRune stays in range for every well-formed mode table (WFModes) and every rune; wfModes is evaluated on the "
  "checked-in tables by family `shipped`, model = template is tied by family `lexrun`/`lexgen`.")
g("act-cast", "`_act` of the front end's generated parser: the only panic is the `default: panic(\"unreachable\")` of the switch over production numbers; "
  "`prod` comes from a reduce action of the validated table, every production 0..N-1 has a case (template ranges over grammar.Prods). _cast[T] uses comma-ok.")
g("token-switch", "switch over the token type of an action parameter; the production that calls the action fixes the possible token types "
  "(parser.lox: the alternatives of the rule), so the default arm is dead. Ties: LR tables of internal/parser validated against parser.lox by `shipped`; "
  "every alternative is produced by the generators of families analyze/lexgen/lrgen and by cli_fuzz.")
g("fronttext", "text-to-value helpers of internal/parser/parser.go; modelled in Lox/Dec/FrontText.lean and tied by family `fronttext` (real functions vs model, "
  "well- and ill-escaped inputs).")
g("assign", "internal/codegen/assign_actions.go is modelled by Lox.Dec.Assign; Lox.Props.C06.assign_no_panic: on well-formed input the model never reaches one of the "
  "Go panics (assert.True, index out of range, failed type assertion); tie: family `assign` (real AssignActions through go/types vs model).")
g("rang3", "internal/lexergen/rang3: modelled by Lox.Rang3.Model, tie family `rang3` (exhaustive small universe + boundaries).")
g("lalr", "LALR construction over the internal grammar: indices Prod/Dot/Lookahead of an Item are created only from g.Prods / prod.Terms / g.Terminals positions "
  "(Closure, Goto, the start item), so they are in range by construction. Not proved (the construction is validated per emitted table instead: LR.check); "
  "exercised by families lalr, lrgen, shipped and every accepted case of cli_fuzz/determinism.")
g("dfa", "subset construction / minimisation (internal/lexergen/dfa): group numbers come from partitions (0..Count-1) and newStates has Count entries; "
  "every state of d.States was Added to the partition in the first loop, so Get succeeds. Not proved (emitted tables are validated by Lex.bisim instead); "
  "exercised by families lexgen, lexrun, shipped and every accepted case of cli_fuzz/determinism.")
g("sortcmp", "comparator passed to sort.Slice: i, j are supplied by package sort within [0, len).")
g("const-after-len", "constant index guarded by an explicit length test in the same function.")

R = []  # (pkg, func regex, kind regex, text regex, status, why)


def rule(pkg, func, kind, text, status, why):
    R.append((pkg, re.compile(func + r"\Z"), re.compile(kind + r"\Z"), re.compile(text), status, why))


P = "internal/parser"
# ---- cmd/lox
rule("cmd/lox", "realMain", "panic", r"panic\(err\)", "guarded:cmd/lox/main.go:realMain `if *flagProf != \"\"`",
     "only after os.Create of the file named by the undocumented --cpu-prof flag fails; neither grammar text nor the Go package reaches it (C12 quantifies over those); "
     "cli_fuzz never passes the flag. `lox --cpu-prof /nonexistent/x dir` does panic: reported as an out-of-scope observation.")
# ---- internal/base/assert
rule("internal/base/assert", "True|False|Unreachable", "panic", "", "internal-invariant:callers",
     "the helper itself; every call site is listed separately as kind `assert` and carries its own status.")
# ---- internal/parser (generated)
rule(P, "_Find", "index", "", "proved:Lox.Props.C01.parse_no_panic", "lr-runtime")
rule(P, r"_Stack\.(Peek|Pop|PeekSlice)", "index|slice", "", "proved:Lox.Props.C01.parse_no_panic", "lr-runtime")
rule(P, r"parser\.parse", "index", r"_termCounts|_rules", "proved:Lox.Props.C01.parse_no_panic", "lr-runtime")
rule(P, r"parser\.parse", "index|slice", r"boundSlice", "guarded:internal/parser/parser.gen.go:parse `len(boundSlice) > 0 &&` / `if len(boundSlice) > 0`",
     "every use of boundSlice[0], boundSlice[len-1], boundSlice[1:], boundSlice[:len-1] sits behind a non-emptiness test of the same slice (short-circuit && in the loop conditions, the if).")
rule(P, r"parser\.parse", "typeassert", r"_lasym\.\(Error\)", "internal-invariant:_la == ERROR ⇒ _lasym is an Error", "lr-recovery")
rule(P, r"parser\._makeError", "index|typeassert", "", "internal-invariant:state on top of the stack indexes _actions; _lasym is a Token when _la != ERROR", "lr-recovery")
rule(P, r"parser\._recover", "index", "", "internal-invariant:prod of a reduce action indexes _rules", "lr-recovery")
rule(P, r"parser\.recoverLookahead", "panic", "", "internal-invariant:_qla is consumed by _readToken before the next _recover", "lr-recovery")
rule(P, r"parser\._act", "panic", "", "internal-invariant:every production has a case", "act-cast")
rule(P, r"_LexerStateMachine\.PushRune", "index", "", "proved:Lox.Props.C11.no_oob", "lex-runtime")
rule(P, r"_LexerStateMachine\.PushRune", "panic", "", "proved:Lox.Props.C11.no_oob",
     "lex-runtime")
# ---- internal/parser (hand written)
rule(P, r"lexer\.ReadToken", "panic", "", "guarded:internal/parser/lexer.go:ReadToken", "`state` is a local that only ever holds stateStart/stateExtend/stateNL (three assignments in the function); the switch has a case for each.")
rule(P, r"parser\.on_parser_term__token", "panic", "", "internal-invariant:parser.lox `parser_term = ID | LITERAL | '@error' | parser_list`", "token-switch")
rule(P, r"parser\.on_parser_card", "panic", "", "internal-invariant:parser.lox `parser_card = '*' | '*!' | '+' | '?'`", "token-switch")
rule(P, r"parser\.on_parser_qualif", "panic", "", "internal-invariant:parser.lox `parser_qualif = '@left' … | '@right' …`", "token-switch")
rule(P, r"parser\.on_parser_qualif", "strconv", "", "proved:Lox.Props.C12.qualif_total", "strconv.Atoi's error is turned into the diagnostic `precedence must be a positive integer` (D11 repaired); fronttext")
rule(P, r"parser\.on_lexer_card", "panic", "", "internal-invariant:parser.lox `lexer_card = '?' | '*' | '*?' | '+' | '+?'`", "token-switch")
rule(P, r"parser\.on_lexer_term__tok", "panic", "", "internal-invariant:parser.lox `lexer_term = LITERAL | ID | DOT | …` (production on_lexer_term__tok takes the three token alternatives)", "token-switch")
rule(P, r"parser\.on_char_class", "index", "", "guarded:internal/parser/parser.go:on_char_class `i < len(chars)` and `i+2 > len(chars)-1 ||`",
     "chars[i]: loop condition; chars[i+1] is read only when i+2 ≤ len-1 (short-circuit ||); chars[i+2] only in the else branch of the same test.")
rule(P, r"parser\.checkEscapes", "index", "", "guarded:internal/parser/parser.go:checkEscapes loop condition `i+1 < len(lit)`", "both lit[i] and lit[i+1] are below len(lit) by the loop condition.")
rule(P, r"parser\.checkEscapes", "slice", "", "proved:Lox.Props.C12.checkEscapes_total", "lit[i+2:i+2+n] after `\\u`/`\\U`: in range because the token is WellEscaped (4 resp. 8 hex digits follow); fronttext")
rule(P, "fixLiteral", "slice", "", "proved:Lox.Props.C12.fixLiteral_total", "LITERAL tokens start and end with a quote (length ≥ 2); fronttext")
rule(P, "unescape", "index|slice|panic", "", "proved:Lox.Props.C12.unescape_total", "fronttext")
rule(P, "hexToRune", "strconv|panic", "", "proved:Lox.Props.C12.hexToRune_total", "1–8 hex digits always parse with ParseUint(s,16,32); fronttext")
# ---- internal/ast
A = "internal/ast"
rule(A, r"CharClassBinaryExpr\.GetRanges", "panic", "", "internal-invariant:Op is CharClassBinaryExprSub at the only construction site (parser.go:on_char_class_expr__binary)",
     "exercised by every class difference of families lexgen/analyze/cli_fuzz.")
rule(A, r"Context\.CreateMode", "panic", "", "guarded:internal/ast/lexer_mode.go:Mode.RunPass `if !ctx.RegisterName(m.Name, m) { return }`",
     "a second mode of the same name fails RegisterName first; the default mode `$default` is created once per Spec and is not an ID. cli_fuzz: whole:mode-redefined, multi-file clashes.")
rule(A, r"LexerExpr\.NFACons", "assert", "", "internal-invariant:parser.lox `lexer_expr = @list(lexer_factor, '|')` yields ≥ 1 factor", "token-switch")
rule(A, r"LexerExpr\.NFACons", "index", "", "guarded:internal/ast/lexer_expr.go:NFACons `if len(e.Factors) == 1`", "const-after-len")
rule(A, r"LexerFactor\.NFACons", "assert", "", "internal-invariant:parser.lox `lexer_factor = lexer_term_card+` yields ≥ 1 term", "token-switch")
rule(A, r"LexerFactor\.NFACons", "index", "", "guarded:internal/ast/lexer_factor.go:NFACons", "termCons has len(f.Terms) ≥ 1 entries (assert above); loops run i < len, i < len-1.")
rule(A, r"LexerTermCard\.NFACons", "panic", "", "internal-invariant:Card ∈ {One (zero value), ZeroOrOne, ZeroOrMore, ZeroOrMoreNG, OneOrMore, OneOrMoreNG}",
     "set only by parser.go:on_lexer_card (five constants) or left at the zero value One when the cardinality is absent; all six have a case.")
rule(A, r"LexerTermLiteral\.NFACons", "slice", "", "guarded:utf8.DecodeRuneInString returns 1 ≤ size ≤ len(str) for non-empty str", "loop condition len(str) > 0.")
rule(A, r"ParserProd\.RunPass", "panic", "", "internal-invariant:Associativity ∈ {Left, Right}", "ProdQualifier is built only by parser.go:on_parser_qualif, which sets one of the two.")
rule(A, r"ParserProd\.RunPass", "index", "", "guarded:internal/ast/parser_prod.go:RunPass", "terms := make([]lr1.Term, len(p.Terms)); i ranges over p.Terms.")
rule(A, r"ParserTerm\.normalize", "assert", "", "internal-invariant:a helper rule built from checked children passes CreateNames/Check",
     "helper names contain `*`, `+`, `?` or `@list(`, which user names cannot (ID / token-name check), so RegisterName succeeds; reserved names and `__` are rejected for user rules "
     "before (D20, D23 repaired). Exercised by families desugar, lrgen, analyze, cli_fuzz (cardinalities over every kind of term).")
rule(A, r"ParserTerm\.normalize", "typeassert", "", "internal-invariant:names containing `*`, `+`, `?`, `@list(` are registered only by normalize itself, always with a *ParserRule", "see the assert in the same function.")
rule(A, r"TokenRule\.RunPass", "index", "", "guarded:internal/ast/lexer_token_rule.go:RunPass `len(r.Expr.Factors) == 1 && len(...Terms) == 1 &&`", "const-after-len")
rule(A, r"CharClass\.GetRanges", "index", "", "guarded:internal/ast/char_class.go:GetRanges", "ranges := make(len(t.CharClassItems)); i ranges over the same slice.")
# ---- internal/codegen
C = "internal/codegen"
rule(C, r"context\.AssignActions", "assert|index", "", "proved:Lox.Props.C06.assign_no_panic", "assign")
rule(C, r"context\.getReduceTypeForGeneratedRule", "assert|index|panic|typeassert", "", "proved:Lox.Props.C06.assign_no_panic", "assign")
rule(C, r"context\.getTermGoType", "panic", "", "proved:Lox.Props.C06.assign_no_panic", "assign")
rule(C, r"context\.matchMethod", "index", "", "guarded:internal/codegen/assign_actions.go:matchMethod `if len(method.Params) != len(prod.Terms) { return false }`", "assign")
rule(C, r"context\.(getActionMethods|checkOnBoundsSignature)", "typeassert", "", "guarded:go/types: the type of a *types.Func is always a *types.Signature", "")
rule(C, r"context\.getActionMethods", "index", "", "guarded:internal/codegen/assign_actions.go:getActionMethods", "method.Params = make(sig.Params().Len()); loop i < sig.Params().Len().")
rule(C, "ruleFromMethod", "slice", "", "guarded:internal/codegen/assign_actions.go:ruleFromMethod `strings.HasPrefix(method, prefix)` / `sepIdx != -1`", "")
rule(C, r"context\.EmitLexer", "typeassert", r"state\.Data", "internal-invariant:mode.Build stores pickAction's *mode.Actions (possibly a typed nil) in every state, including the start-state copy",
     "exercised by every accepted case of lexgen/cli_fuzz/determinism.")
rule(C, r"context\.EmitLexer", "typeassert", r"eventRaw", "internal-invariant:every non-ε NFA/DFA input is a rang3.Range (AddTransition callers: literals, classes, normalizeInputs)", "dfa")
rule(C, r"context\.EmitLexer", "assert", r"assert\.True\(ok\)", "guarded:the key was just enumerated from the same Transitions map", "")
rule(C, r"context\.EmitLexer", "assert", r"mode != nil", "guarded:internal/ast/action.go:ActionPushMode.RunPass (Check) `undefined mode` + ParseLox stops when Build reported errors",
     "c.LexerModes has an entry for every mode whose Build succeeded; a failed Build leaves an error and Generate stops before EmitLexer.")
rule(C, r"context\.EmitLexer", "assert", r"len\(row\)", "guarded:row always holds the flags word and the transition count", "")
rule(C, r"context\.EmitLexer", "panic", "", "internal-invariant:mode.Action.Type ∈ {PushMode, PopMode, Accept, Discard, Accum}", "actions are built only by ast GetAction() and TokenRule/FragRule.RunPass with these five constants.")
rule(C, r"context\.EmitParser", "panic", "", "internal-invariant:lr1.Action.Type ∈ {Shift, Reduce, Accept}", "actions are created only by ActionMap.AddShift/AddReduce/AddAccept.")
rule(C, r"context\.EmitParser", "index", r"action\.Prods\[0\]", "internal-invariant:AddReduce stores exactly one production", "lalr")
rule(C, r"context\.EmitParser", "index", r"lhs\[i\]|termCounts\[i\]", "guarded:make(len(c.ParserGrammar.Prods)) and i ranges over the same slice", "")
rule(C, r"table\.AddRow", "panic", "", "proved:Lox.Props.C10.build_total",
     "build ≠ none ⇔ the row indices are increasing; callers pass state.Index over ParserTable.States (Index = position, AddState) and state.ID over DFA.States "
     "(ID = position: transitiveClosure, optimize, splitStartState) in slice order. Tie: family `table`; callers exercised by every accepted case.")
rule(C, r"context\.ParseGo", "assert", "", "guarded:internal/codegen/pre_parser_go.go:PreParseGo sets GoPackageName from a parsed package clause (never empty) or returns false", "")
rule(C, r"context\.ParseGo", "panic", r"panic\(err\)", "guarded:filepath.Abs fails only when the working directory cannot be determined (OS state, not an input of C12)", "")
rule(C, r"context\.ParseGo", "panic", r"Error type", "internal-invariant:the placeholder parser.gen.go handed to go/packages as overlay declares `Error` and `lox`",
     "reached only after packages.Load reported no error for the package, which includes the overlay file; cli_fuzz Go variants (no file, ignored files, test-only, stale garbage).")
rule(C, r"context\.ParseGo", "index", "", "guarded:internal/codegen/parse_go.go:ParseGo `if len(pkgs) == 0` (D22 repaired)", "")
rule(C, r"context\.lookupParserType", "panic", "", "internal-invariant:the placeholder parser.gen.go declares `lox`", "see ParseGo.")
rule(C, r"context\.lookupParserType", "typeassert", "", "guarded:internal/codegen/parse_go.go:lookupParserType `namedType, ok := obj.Type().(*gotypes.Named)` on the same expression above", "")
rule(C, r"context\.logPackageError", "index|strconv", "", "guarded:internal/codegen/parse_go.go:logPackageError `len(pathParts) < 2`, `len(pathParts) == 3`; Atoi errors are handled", "")
rule(C, "renderTemplate", "panic", r"panic\(err\)", "internal-invariant:the three templates are constants that parse and execute (every run of every family renders them)",
     "Execute fails only if a template function panics (listed separately) or a variable is missing; cli_fuzz/determinism/shipped render all three on every accepted case.")
rule(C, "renderTemplate", "panic", r"failed to format", "internal-invariant:the template output is valid Go for every accepted specification",
     "user-controlled text that reaches the templates: the package name (a parsed Go identifier), token names (checked `^[A-Z][A-Z0-9_]*$`, hence never a Go keyword), "
     "the parser type name and action method names (Go identifiers), go/types type strings. Not proved; exercised by cli_fuzz (keywords, quotes, exotic types) and `shipped`.")
# ---- lexergen
D = "internal/lexergen/dfa"
rule(D, r"DFA\.Print", "index", "", "internal-invariant:a DFA has at least its start state (transitiveClosure(start))", "dfa")
rule(D, r"State\.Print|eClosure|transitiveClosure", "index", "", "guarded:package sort", "sortcmp")
rule(D, r"State\.sig", "slice", "", "guarded:sig := make(len(NFAStates)*4); i ranges over NFAStates", "")
rule(D, "optimize", "index", "", "internal-invariant:group numbers are < p.Count() = len(newStates)", "dfa")
rule(D, r"partitions\.(Remove|GetGroup|GetStateGroup)", "assert", "", "internal-invariant:every state of the DFA is in the partition; groups 0..Count-1 exist", "dfa")
rule(D, "subPartition", "assert", "", "internal-invariant:accepting and non-accepting states start in different groups and groups are only ever split", "dfa")
M = "internal/lexergen/mode"
rule(M, r"ModeBuilder\.pickAction", "assert", "", "internal-invariant:TokenRule/FragRule.RunPass always append at least one action (Accept, or Accum/Discard/Emit)", "")
rule(M, r"ModeBuilder\.pickAction", "index", "", "guarded:internal/lexergen/mode/mode.go:pickAction `if len(actionSet) == 0 { return nil }`; loop i < len", "")
rule(M, "splitStartState", "index", "", "internal-invariant:a DFA has at least its start state", "dfa")
rule(M, "mergeTransitions", "assert|typeassert", "", "internal-invariant:the ranges handed to Flatten are the keys of this state's transitions to `toState`",
     "Flatten's callback names two of its inputs (or an earlier merge result, which AddTransition just stored). Lox.Props.C15.merge_asserts_hold covers the callback protocol; exercised by lexgen/shipped.")
rule(M, "normalizeInputs", "assert", r"nfa\.Epsilon", "internal-invariant:NFA inputs are rang3.Range or nfa.Epsilon", "")
rule(M, "normalizeInputs", "assert", r"len\(states\)", "internal-invariant:Normalize's callback names a range that is a key of `graph`",
     "Lox.Props.C15.normalize_callbacks_split: every `o` passed to the callback is an input range or a piece introduced by an earlier callback (which the callback stores in graph).")
G3 = "internal/lexergen/rang3"
rule(G3, "Normalize", "panic", "", "proved:Lox.Props.C15.normalize_total", "rang3; premise b ≤ e: literals give B = E, classes with From > To are rejected in the Check pass (D7 repaired).")
rule(G3, "Subtract", "panic", "", "proved:Lox.Props.C12.subtract_cases_exhaustive", "the five arms are a complete case split on (ea.B > eb.E) and (ea.B < eb.B) × (ea.E ≤ eb.E).")
rule(G3, "Subtract", "index|slice", "", "guarded:internal/lexergen/rang3/range.go:Subtract `for len(b) > 0`, `if len(a) == 0 { break }`", "rang3")
rule(G3, "Flatten", "index", "", "guarded:package sort", "sortcmp")
rule(G3, r"rangeHeapInternal\.(Less|Swap)", "index", "", "guarded:container/heap passes indices in [0, Len())", "")
rule(G3, r"rangeHeapInternal\.Pop", "index|slice", "", "guarded:container/heap.Pop calls it only when Len() > 0 (rangeHeap.Pop is called after a Len()/Peek test in Normalize)", "rang3")
rule(G3, r"rangeHeapInternal\.Push", "typeassert", "", "guarded:the only caller is rangeHeap.Push(r Range)", "")
rule(G3, r"rangeHeap\.(Pop|Peek)", "index", "", "guarded:internal/lexergen/rang3/range.go:Normalize `for rh.Len() > 0` / `if rh.Len() == 0 { break }`", "proved side: Lox.Props.C15.normalize_total (the model's heap is a list; empty pops end the loop).")
# ---- lr1
L = "internal/parsergen/lr1"
rule(L, r"Action\.ToString", "panic", "", "internal-invariant:lr1.Action.Type ∈ {Shift, Reduce, Accept}", "")
rule(L, r"Action\.ToString|resolveConflicts", "index", r"Prods\[0\]", "internal-invariant:shift and reduce actions are created with one production (AddShift/AddReduce) and only ever grow", "lalr")
rule(L, r"ActionMap\.AddAccept", "panic", "", "internal-invariant:the accept item [S' → start ., EOF] occurs in one state", "lalr")
rule(L, r"ActionMap\.AddShift", "panic", "", "internal-invariant:TransitionMap is a function: one target state per (state, terminal)", "lalr")
rule(L, r"ParserTable\.AddState", "panic", "", "guarded:internal/parsergen/lr1/construct.go:ConstructLALR `existingTo := t.GetStateByKey(toKey); if existingTo != nil`", "")
rule(L, r"TransitionMap\.Get", "panic", "", "internal-invariant:createActions asks for the terminal after the dot of an item of the state, for which ConstructLALR added a transition (Next/Goto)", "lalr")
rule(L, "Closure|Goto|Next|createActions|Item\.ToString", "index|slice", "", "internal-invariant:Item fields index g.Prods / prod.Terms / g.Terminals", "lalr")
rule(L, r"ParserTable\.(GetStateByIndex|GetStateByKey)", "index", "", "internal-invariant:stateMap values are positions in States (AddState)", "lalr")
rule(L, r"Grammar\.LastProd", "index", "", "internal-invariant:NewGrammar adds the S' production, so Prods is never empty", "")
rule(L, r"Grammar\.SetStart", "index", "", "internal-invariant:NewGrammar adds the S' production at index 0", "")
rule(L, r"Grammar\.Print", "index|slice", "", "guarded:internal/parsergen/lr1/grammar.go:Print `if len(r.Prods) == 0 { …; continue }`", "")
rule(L, "SortItems", "index", "", "guarded:package sort", "sortcmp")
rule(L, "TermNames", "index", "", "guarded:names := make(len(ts)); i ranges over ts", "")
rule(L, "NewGrammar", "assert", "", "guarded:the first AddProd of a fresh grammar gets index 0", "")
rule(L, "first", "typeassert", "", "guarded:lr1.Term has two implementations (*Terminal, *Rule); the *Terminal case returns just above", "")
rule(L, "resolveConflicts", "assert", r"len\(reduce\.Prods\)", "internal-invariant:AddReduce creates a new action per production", "lalr")
rule(L, "resolveConflicts", "assert", r"actions\.Empty", "internal-invariant:an entry of the action map is created together with its first action; DeleteFunc removes one of two", "lalr")

out = []
bad = 0
for s in sites:
    hits = [r for r in R if r[0] == s["pkg"] and r[1].match(s["func"]) and r[2].match(s["kind"]) and r[3].search(s["text"])]
    if len(hits) != 1:
        print("site", s["id"], "matched by", len(hits), "rules", file=sys.stderr)
        bad += 1
        continue
    _, _, _, _, status, why = hits[0]
    e = {"id": s["id"], "kind": s["kind"], "status": status}
    if s.get("auto"):
        e["auto"] = s["auto"]
    if why in G:
        e["group"] = why
    else:
        parts = why.split("; ")
        if parts[-1] in G:
            e["group"] = parts[-1]
            why = "; ".join(parts[:-1])
        if why:
            e["why"] = why
    out.append(e)
if bad:
    sys.exit(1)
used = {e.get("group") for e in out}
doc = {
    "comment": "Expected panic-capable sites of the packages linked into cmd/lox (family facts_panics), with the reason each cannot fire on inputs of C12 "
               "(grammar text + Go package). status = proved:<Lean theorem> | guarded:<check in the code> | internal-invariant:<what keeps it true> | reachable:<input>. "
               "`auto` is the loop shape the extractor recognised mechanically (compared too). Written against /repo HEAD 456fbfa.",
    "groups": {k: v for k, v in G.items() if k in used},
    "sites": out,
}
json.dump(doc, open(sys.argv[2], "w"), indent=1, ensure_ascii=False)
print(len(out), "sites written")
