/-! Spike: LR runtime model + validator + completeness skeleton. -/

namespace LR

inductive Sym where
  | t (a : Nat)
  | n (A : Nat)
  deriving DecidableEq, Repr

structure Prod where
  lhs : Nat
  rhs : List Sym
  deriving DecidableEq, Repr

structure Grammar where
  prods : Array Prod

inductive Val where
  | tok (a : Nat)
  | node (p : Nat) (kids : List Val)

/-- Big-step leftmost derivation of a sentential form to a token string. -/
inductive Der (G : Grammar) : List Sym → List Nat → List Val → Prop where
  | nil : Der G [] [] []
  | term {a α w vs} : Der G α w vs → Der G (Sym.t a :: α) (a :: w) (Val.tok a :: vs)
  | nonterm {q pr α w1 w2 vs1 vs2} :
      G.prods[q]? = some pr → Der G pr.rhs w1 vs1 → Der G α w2 vs2 →
      Der G (Sym.n pr.lhs :: α) (w1 ++ w2) (Val.node q vs1 :: vs2)

structure Item where
  p : Nat
  d : Nat
  a : Nat
  deriving DecidableEq, Repr

inductive Act where
  | shift (s : Nat)
  | reduce (p : Nat)
  | accept
  deriving DecidableEq, Repr

structure Auto where
  action : Nat → Nat → Option Act
  goto : Nat → Nat → Option Nat
  items : Nat → List Item

def eof : Nat := 0

structure Entry where
  state : Nat
  val : Val

structure Config where
  stack : List Entry   -- top first, never empty in reachable configs
  input : List Nat     -- remaining tokens (EOF afterwards)

def la (inp : List Nat) : Nat := inp.headD eof

inductive Out where
  | cont (c : Config)
  | acc (v : Val)
  | fail

def topState (st : List Entry) : Nat := (st.head?.map (·.state)).getD 0

def step (G : Grammar) (A : Auto) (c : Config) : Out :=
  let s := topState c.stack
  match A.action s (la c.input) with
  | none => .fail
  | some .accept => match c.stack with
      | e :: _ => .acc e.val
      | [] => .fail
  | some (.shift s') => .cont ⟨⟨s', .tok (la c.input)⟩ :: c.stack, c.input.tail⟩
  | some (.reduce p) =>
      match G.prods[p]? with
      | none => .fail
      | some pr =>
        let k := pr.rhs.length
        let kids := ((c.stack.take k).map (·.val)).reverse
        let rest := c.stack.drop k
        match A.goto (topState rest) pr.lhs with
        | none => .fail
        | some s' => .cont ⟨⟨s', .node p kids⟩ :: rest, c.input⟩

inductive Reaches (G : Grammar) (A : Auto) : Config → Config → Prop where
  | refl c : Reaches G A c c
  | step {c c' c''} : step G A c = .cont c' → Reaches G A c' c'' → Reaches G A c c''

theorem Der.append {G : Grammar} {α w vs γ wγ vγ} (h1 : Der G α w vs) (h2 : Der G γ wγ vγ) :
    Der G (α ++ γ) (w ++ wγ) (vs ++ vγ) := by
  induction h1 with
  | nil => simpa using h2
  | term _ ih => exact .term ih
  | nonterm hq h1 _ _ ih2 =>
    have := Der.nonterm hq h1 ih2
    simpa [List.append_assoc] using this

theorem Reaches.trans {G A} {a b c : Config} (h1 : Reaches G A a b) (h2 : Reaches G A b c) :
    Reaches G A a c := by
  induction h1 with
  | refl => exact h2
  | step hs _ ih => exact .step hs (ih h2)

/-- Semantic FIRST oracle assumption packaged as a structure (validated separately). -/
structure FirstOK (G : Grammar) (first : List Sym → Nat → List Nat) : Prop where
  complete : ∀ {α w vs} (a : Nat) (u : List Nat), Der G α w vs →
    (w ++ a :: u).headD eof ∈ first α a

structure Valid (G : Grammar) (A : Auto) (first : List Sym → Nat → List Nat) : Prop where
  start : ⟨0, 0, eof⟩ ∈ A.items 0
  shift : ∀ s it pr x, it ∈ A.items s → G.prods[it.p]? = some pr → pr.rhs[it.d]? = some (.t x) →
    ∃ s', A.action s x = some (.shift s') ∧ ⟨it.p, it.d + 1, it.a⟩ ∈ A.items s'
  goto : ∀ s it pr B, it ∈ A.items s → G.prods[it.p]? = some pr → pr.rhs[it.d]? = some (.n B) →
    ∃ s', A.goto s B = some s' ∧ ⟨it.p, it.d + 1, it.a⟩ ∈ A.items s'
  closure : ∀ s it pr B q qr b, it ∈ A.items s → G.prods[it.p]? = some pr →
    pr.rhs[it.d]? = some (.n B) → G.prods[q]? = some qr → qr.lhs = B →
    b ∈ first (pr.rhs.drop (it.d + 1)) it.a → ⟨q, 0, b⟩ ∈ A.items s
  reduce : ∀ s it pr, it ∈ A.items s → G.prods[it.p]? = some pr → it.d = pr.rhs.length →
    it.p ≠ 0 → A.action s it.a = some (.reduce it.p)
  noStart : ∀ (p : Nat) (pr pr0 : Prod), G.prods[p]? = some pr → G.prods[0]? = some pr0 →
    Sym.n pr0.lhs ∉ pr.rhs

def pushVals (G : Grammar) : List Entry → List Entry → Prop := fun _ _ => True

/-- Main completeness lemma: a forest `α` is consumed from any stack whose top state
    holds an item with `α` right after the dot. -/
theorem run_forest {G : Grammar} {A : Auto} {first} (hv : Valid G A first) (hf : FirstOK G first)
    {α w vs} (hd : Der G α w vs) :
    ∀ (st : List Entry) (it : Item) (pr : Prod) (γ : List Sym) (wγ : List Nat) (vγ : List Val)
      (u : List Nat),
      it ∈ A.items (topState st) → G.prods[it.p]? = some pr →
      pr.rhs.drop it.d = α ++ γ → Der G γ wγ vγ →
      ∃ st', Reaches G A ⟨st, w ++ (wγ ++ it.a :: u)⟩ ⟨st' ++ st, wγ ++ it.a :: u⟩ ∧
        (st'.map (·.val)).reverse = vs ∧ st'.length = α.length ∧
        ⟨it.p, it.d + α.length, it.a⟩ ∈ A.items (topState (st' ++ st)) := by
  induction hd with
  | nil =>
    intro st it pr γ wγ vγ u hit hp hdrop hγ
    exact ⟨[], .refl _, rfl, rfl, by simpa using hit⟩
  | @term a α w vs hα ih =>
    intro st it pr γ wγ vγ u hit hp hdrop hγ
    have hnext : pr.rhs[it.d]? = some (.t a) := by
      have := congrArg List.head? hdrop
      simpa [List.head?_drop] using this
    obtain ⟨s', hact, hit'⟩ := hv.shift _ it pr a hit hp hnext
    have hdrop' : pr.rhs.drop (it.d + 1) = α ++ γ := by
      have := congrArg List.tail hdrop
      simpa [List.tail_drop] using this
    obtain ⟨st', hr, hvals, hlen, hfin⟩ :=
      ih (⟨s', .tok a⟩ :: st) ⟨it.p, it.d + 1, it.a⟩ pr γ wγ vγ u (by simpa [topState] using hit')
        hp hdrop' hγ
    refine ⟨st' ++ [⟨s', .tok a⟩], ?_, ?_, ?_, ?_⟩
    · refine .step (c' := ⟨⟨s', .tok a⟩ :: st, w ++ (wγ ++ it.a :: u)⟩) ?_ (by simpa using hr)
      simp [step, la, hact]
    · simp [hvals]
    · simp [hlen]
    · simpa [Nat.add_assoc, Nat.add_comm 1] using hfin
  | @nonterm q qr α w1 w2 vs1 vs2 hq h1 h2 ih1 ih2 =>
    intro st it pr γ wγ vγ u hit hp hdrop hγ
    have hnext : pr.rhs[it.d]? = some (.n qr.lhs) := by
      have := congrArg List.head? hdrop
      simpa [List.head?_drop] using this
    have hdrop' : pr.rhs.drop (it.d + 1) = α ++ γ := by
      have := congrArg List.tail hdrop
      simpa [List.tail_drop] using this
    -- lookahead after the subtree
    have happ := Der.append h2 hγ
    let rest := w2 ++ (wγ ++ it.a :: u)
    have hrest : rest = rest.headD eof :: rest.tail := by
      cases hr : rest with
      | nil => simp [rest] at hr
      | cons x xs => simp
    have hb : rest.headD eof ∈ first (pr.rhs.drop (it.d + 1)) it.a := by
      have := hf.complete it.a u happ
      simpa [hdrop', rest, List.append_assoc] using this
    have hclo := hv.closure _ it pr qr.lhs q qr _ hit hp hnext hq rfl hb
    obtain ⟨st1, hr1, hvals1, hlen1, hfin1⟩ :=
      ih1 st ⟨q, 0, rest.headD eof⟩ qr [] [] [] rest.tail hclo hq (by simp) .nil
    have hq0 : q ≠ 0 := by
      intro h0
      subst h0
      exact hv.noStart it.p pr qr hp hq (List.mem_of_getElem? hnext)
    have hred := hv.reduce _ _ qr hfin1 hq (by simp) hq0
    obtain ⟨s3, hgo, hit3⟩ := hv.goto _ it pr qr.lhs hit hp hnext
    obtain ⟨st2, hr2, hvals2, hlen2, hfin2⟩ :=
      ih2 (⟨s3, .node q vs1⟩ :: st) ⟨it.p, it.d + 1, it.a⟩ pr γ wγ vγ u
        (by simpa [topState] using hit3) hp hdrop' hγ
    refine ⟨st2 ++ [⟨s3, .node q vs1⟩], ?_, ?_, ?_, ?_⟩
    · have e1 : w1 ++ w2 ++ (wγ ++ it.a :: u) = w1 ++ ([] ++ rest.headD eof :: rest.tail) := by
        rw [List.nil_append, ← hrest]; simp [rest, List.append_assoc]
      rw [e1]
      refine Reaches.trans hr1 ?_
      refine .step (c' := ⟨⟨s3, .node q vs1⟩ :: st, rest⟩) ?_ ?_
      · have hred' : A.action (topState (st1 ++ st)) (rest.headD eof) = some (.reduce q) := by
          simpa using hred
        have htake : ((st1 ++ st).take qr.rhs.length) = st1 := by
          rw [← hlen1]; simp
        have hdropst : ((st1 ++ st).drop qr.rhs.length) = st := by
          rw [← hlen1]; simp
        simp only [List.nil_append, step, la, List.headD_cons, hred', hq, htake, hdropst, hgo,
          hvals1, List.tail_cons]
        rw [← hrest]
      · simpa [rest] using hr2
    · simp [hvals2]
    · simp [hlen2]
    · simpa [Nat.add_assoc, Nat.add_comm 1] using hfin2

end LR

