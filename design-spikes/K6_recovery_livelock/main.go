package main

import (
	"fmt"
	gotoken "go/token"
	"io"
	"os"

	"github.com/dcaiafa/loxlex/simplelexer"
)

type Token = simplelexer.Token

type P struct {
	lox
	n int
}

func (p *P) on_s(a Token, b any, c Token) any { return nil }
func (p *P) on_a(a Token) any                 { return nil }
func (p *P) on_a__err(e Error) any {
	p.n++
	fmt.Println("error action", p.n, _TokenToString(e.Token.Type))
	if p.n > 5 {
		fmt.Println("LOOPING")
		os.Exit(3)
	}
	return nil
}

func main() {
	input, _ := io.ReadAll(os.Stdin)
	fset := gotoken.NewFileSet()
	file := fset.AddFile("in", -1, len(input))
	lex := simplelexer.New(simplelexer.Config{StateMachine: new(_LexerStateMachine), File: file, Input: input})
	var p P
	fmt.Println(p.parse(lex))
}
