/-! Spike: rang3.Normalize model, termination by total length. -/
namespace Rang3

structure Range where
  b : Nat
  e : Nat
  deriving DecidableEq, Repr

def Range.lt (x y : Range) : Bool := x.b < y.b || (x.b == y.b && x.e < y.e)

def Range.len (r : Range) : Nat := r.e + 1 - r.b

def Range.valid (r : Range) : Prop := r.b ≤ r.e

/-- heap model: sorted duplicate-free list; push = sorted insert with dedupe -/
def push (r : Range) : List Range → List Range
  | [] => [r]
  | x :: xs => if r = x then x :: xs else if r.lt x then r :: x :: xs else x :: push r xs

def total (h : List Range) : Nat := (h.map (·.len)).sum

theorem total_push_le (r : Range) (h : List Range) : total (push r h) ≤ total h + r.len := by
  induction h with
  | nil => simp [push, total]
  | cons x xs ih =>
    simp only [push]
    split
    · simp [total]
    · split
      · simp [total]; omega
      · simp [total] at *; omega

inductive Ev where
  | split (o a b c : Range)
  deriving Repr

def intersects (x y : Range) : Bool := y.b ≤ x.e   -- x ≤ y in heap order

/-- Normalize main loop on the heap model. Returns the finished (disjoint) ranges and the
callback log. -/
def normalize (h : List Range) (hv : ∀ r ∈ h, r.valid) : List Range × List Ev :=
  match h with
  | [] => ([], [])
  | [x] => ([x], [])
  | x :: y :: rest =>
    if ¬ intersects x y then
      let (out, evs) := normalize (y :: rest) (by intro r hr; exact hv r (by simp [hr]))
      (x :: out, evs)
    else if x.b = y.b ∧ x.e < y.e then
      let a : Range := ⟨x.e + 1, y.e⟩
      let (out, evs) := normalize (push a (push x rest)) sorry
      (out, .split y x a a :: evs)
    else ([], [])
termination_by total h
decreasing_by
  all_goals sorry

end Rang3
