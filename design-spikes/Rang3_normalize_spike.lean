/-! Spike: rang3.Normalize model, termination by total length. -/
namespace Rang3

structure Range where
  b : Nat
  e : Nat
  deriving DecidableEq, Repr

def Range.lt (x y : Range) : Bool := x.b < y.b || (x.b == y.b && x.e < y.e)

def Range.len (r : Range) : Nat := r.e + 1 - r.b

def Range.valid (r : Range) : Prop := r.b ≤ r.e

/-- heap model: sorted duplicate-free list; push = sorted insert with dedupe -/
def push (r : Range) : List Range → List Range
  | [] => [r]
  | x :: xs => if r = x then x :: xs else if r.lt x then r :: x :: xs else x :: push r xs

def total (h : List Range) : Nat := (h.map (·.len)).sum

theorem total_push_le (r : Range) (h : List Range) : total (push r h) ≤ total h + r.len := by
  induction h with
  | nil => simp [push, total]
  | cons x xs ih =>
    simp only [push]
    split
    · simp [total]
    · split
      · simp [total]; omega
      · simp [total] at *; omega

/-
Plan for the loop itself (not part of this spike): `normalize` pops the least range `x`, peeks
the next `y`, and in each of the four geometric cases replaces ranges by strictly shorter pieces:
  x.b = y.b ∧ x.e < y.e :  y ↦ x, [x.e+1, y.e]                    total decreases by len x
  x.b < y.b ∧ x.e = y.e :  x ↦ [x.b, y.b-1], y                    total decreases by len y
  x.b < y.b ∧ x.e < y.e :  x,y ↦ [x.b,y.b-1],[y.b,x.e],[x.e+1,y.e] total decreases by overlap
  x.b < y.b ∧ x.e > y.e :  x ↦ [x.b,y.b-1], y, [y.e+1,x.e]        total decreases by len y
  disjoint               :  x leaves the heap                      total decreases by len x
so `total` (sum of lengths, bounded above via `total_push_le` for every push) is a termination
measure for all lists of valid ranges.
-/

end Rang3
