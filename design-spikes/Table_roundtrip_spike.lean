/-! Spike: row-compressed table (codegen/table.go) round trip. -/
namespace Table

/-- State of `table[E]` while rows are added. `index` maps row index to offset in `arr`
(association list, newest first); `rowMap` maps row content to offset. -/
structure Tbl where
  maxIndex : Int := -1
  rowMap : List (List Int × Nat) := []
  index : List (Nat × Nat) := []
  arr : List Int := []

def lookupRow (m : List (List Int × Nat)) (row : List Int) : Option Nat :=
  (m.find? (·.1 = row)).map (·.2)

def lookupIdx (m : List (Nat × Nat)) (i : Nat) : Option Nat :=
  (m.find? (·.1 = i)).map (·.2)

/-- `AddRow`; the Go code panics unless `index > maxIndex` – modelled as `none`. -/
def addRow (t : Tbl) (i : Nat) (row : List Int) : Option Tbl :=
  if (i : Int) ≤ t.maxIndex then none else
  match lookupRow t.rowMap row with
  | some off => some { t with maxIndex := i, index := (i, off) :: t.index }
  | none => some { maxIndex := i
                   rowMap := (row, t.arr.length) :: t.rowMap
                   index := (i, t.arr.length) :: t.index
                   arr := t.arr ++ (row.length : Int) :: row }

/-- `Array`: index vector (rebased offsets, -1 for holes) followed by the row store. -/
def array (t : Tbl) : List Int :=
  let n := (t.maxIndex + 1).toNat
  (List.range n).map (fun i => match lookupIdx t.index i with
    | some off => (off + n : Int)
    | none => -1) ++ t.arr

/-- Reading a row back the way `_Find`/`PushRune` do: `off := a[i]; count := a[off]`. -/
def rowAt (a : List Int) (i : Nat) : Option (List Int) := do
  let off ← a[i]?
  if off < 0 then none else
  let o := off.toNat
  let count ← a[o]?
  if count < 0 then none else
  some ((a.drop (o + 1)).take count.toNat)

/-- Invariant: every stored offset points at a length-prefixed copy of its row. -/
def StoredAt (arr : List Int) (off : Nat) (row : List Int) : Prop :=
  arr.drop off = ((row.length : Int) :: row) ++ arr.drop (off + 1 + row.length)

structure Inv (t : Tbl) (rows : List (Nat × List Int)) : Prop where
  maxI : ∀ i row, (i, row) ∈ rows → (i : Int) ≤ t.maxIndex
  neg : -1 ≤ t.maxIndex
  idx : ∀ i row, (i, row) ∈ rows → ∃ off, lookupIdx t.index i = some off ∧ StoredAt t.arr off row
  idxOnly : ∀ i off, lookupIdx t.index i = some off → ∃ row, (i, row) ∈ rows
  rmap : ∀ row off, lookupRow t.rowMap row = some off → StoredAt t.arr off row

theorem storedAt_append {arr off row} (extra : List Int) (h : StoredAt arr off row)
    (hlt : off + 1 + row.length ≤ arr.length) : StoredAt (arr ++ extra) off row := by
  unfold StoredAt at *
  have h1 : off ≤ arr.length := by omega
  rw [List.drop_append_of_le_length h1, h, List.drop_append_of_le_length hlt]
  simp

theorem storedAt_bound {arr off row} (h : StoredAt arr off row) :
    off + 1 + row.length ≤ arr.length := by
  unfold StoredAt at h
  have := congrArg List.length h
  simp at this
  omega

theorem inv_empty : Inv {} [] := by
  constructor <;> simp [lookupIdx, lookupRow]

theorem inv_addRow {t rows i row t'} (h : Inv t rows) (ha : addRow t i row = some t') :
    Inv t' ((i, row) :: rows) := by
  unfold addRow at ha
  split at ha
  · simp at ha
  rename_i hgt
  have hgt' : t.maxIndex < (i : Int) := by omega
  have hfresh : lookupIdx t.index i = none := by
    cases hl : lookupIdx t.index i with
    | none => rfl
    | some off =>
      obtain ⟨r, hr⟩ := h.idxOnly _ _ hl
      have := h.maxI _ _ hr
      omega
  split at ha
  · rename_i off hoff
    have hst := h.rmap _ _ hoff
    cases ha
    constructor
    · intro j r hj
      simp at hj
      rcases hj with ⟨rfl, rfl⟩ | hj
      · exact Int.le_refl _
      · have := h.maxI _ _ hj; simp; omega
    · show (-1 : Int) ≤ (i : Int); omega
    · intro j r hj
      simp at hj
      rcases hj with ⟨rfl, rfl⟩ | hj
      · exact ⟨off, by simp [lookupIdx], hst⟩
      · obtain ⟨o, ho, hs⟩ := h.idx _ _ hj
        have hne : j ≠ i := by
          intro e; subst e; rw [hfresh] at ho; cases ho
        refine ⟨o, ?_, hs⟩
        simp only [lookupIdx, List.find?_cons] at ho ⊢
        simp [Ne.symm hne, ho]
    · intro j o hj
      simp only [lookupIdx, List.find?_cons] at hj
      by_cases e : i = j
      · subst e; exact ⟨row, by simp⟩
      · simp [e] at hj
        obtain ⟨r, hr⟩ := h.idxOnly j o (by simpa [lookupIdx] using hj)
        exact ⟨r, by simp [hr]⟩
    · exact h.rmap
  · rename_i hnone
    cases ha
    have hnew : StoredAt (t.arr ++ (row.length : Int) :: row) t.arr.length row := by
      unfold StoredAt
      simp
      omega
    constructor
    · intro j r hj
      simp at hj
      rcases hj with ⟨rfl, rfl⟩ | hj
      · exact Int.le_refl _
      · have := h.maxI _ _ hj; simp; omega
    · show (-1 : Int) ≤ (i : Int); omega
    · intro j r hj
      simp at hj
      rcases hj with ⟨rfl, rfl⟩ | hj
      · exact ⟨t.arr.length, by simp [lookupIdx], hnew⟩
      · obtain ⟨o, ho, hs⟩ := h.idx _ _ hj
        have hne : j ≠ i := by
          intro e; subst e; rw [hfresh] at ho; cases ho
        refine ⟨o, ?_, storedAt_append _ hs (storedAt_bound hs)⟩
        simp only [lookupIdx, List.find?_cons] at ho ⊢
        simp [Ne.symm hne, ho]
    · intro j o hj
      simp only [lookupIdx, List.find?_cons] at hj
      by_cases e : i = j
      · subst e; exact ⟨row, by simp⟩
      · simp [e] at hj
        obtain ⟨r, hr⟩ := h.idxOnly j o (by simpa [lookupIdx] using hj)
        exact ⟨r, by simp [hr]⟩
    · intro r o hr
      simp only [lookupRow, List.find?_cons] at hr
      by_cases e : row = r
      · subst e; simp at hr; subst hr; exact hnew
      · simp [e] at hr
        have hs := h.rmap r o (by simpa [lookupRow] using hr)
        exact storedAt_append _ hs (storedAt_bound hs)

def idxVec (t : Tbl) (n : Nat) : List Int :=
  (List.range n).map (fun i => match lookupIdx t.index i with
    | some off => (off + n : Int)
    | none => -1)

theorem array_eq (t : Tbl) : array t = idxVec t (t.maxIndex + 1).toNat ++ t.arr := rfl

theorem idxVec_length (t : Tbl) (n : Nat) : (idxVec t n).length = n := by simp [idxVec]

theorem idxVec_get (t : Tbl) (n i off : Nat) (hi : i < n) (h : lookupIdx t.index i = some off) :
    (idxVec t n)[i]? = some ((off + n : Nat) : Int) := by
  simp [idxVec, hi, h]

/-- Read-back: every added row is recovered from the emitted array by the `_Find` addressing. -/
theorem rowAt_array {t rows i row} (h : Inv t rows) (hm : (i, row) ∈ rows) :
    rowAt (array t) i = some row := by
  obtain ⟨off, hoff, hst⟩ := h.idx _ _ hm
  have hi := h.maxI _ _ hm
  have hneg := h.neg
  have hb := storedAt_bound hst
  rw [array_eq]
  generalize hn : (t.maxIndex + 1).toNat = n
  have hin : i < n := by omega
  have hl := idxVec_length t n
  have e1 : (idxVec t n ++ t.arr)[i]? = some ((off + n : Nat) : Int) := by
    rw [List.getElem?_append_left (by omega)]
    exact idxVec_get t n i off hin hoff
  have hdrop : (idxVec t n ++ t.arr).drop (off + n) = t.arr.drop off := by
    rw [List.drop_append]
    have : List.drop (off + n) (idxVec t n) = [] := List.drop_eq_nil_of_le (by omega)
    rw [this, hl]
    simp
  have e2 : (idxVec t n ++ t.arr)[off + n]? = some (row.length : Int) := by
    have := congrArg List.head? hdrop
    rw [List.head?_drop] at this
    rw [this, hst]; simp
  have e3 : ((idxVec t n ++ t.arr).drop (off + n + 1)).take row.length = row := by
    have : (idxVec t n ++ t.arr).drop (off + n + 1) = ((idxVec t n ++ t.arr).drop (off + n)).drop 1 := by
      rw [List.drop_drop]
    rw [this, hdrop, hst]; simp
  unfold rowAt
  simp only [e1, bind, Option.bind]
  have h1 : ¬ (((off + n : Nat) : Int) < 0) := by omega
  simp only [h1, if_false, Int.toNat_natCast, e2]
  have h2 : ¬ ((row.length : Int) < 0) := by omega
  simp [h2, e3]

end Table
