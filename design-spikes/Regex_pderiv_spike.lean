/-! Spike: regex semantics, Antimirov partial derivatives, correctness. -/
namespace Re

abbrev Cls := List (Nat × Nat)

def inCls (cs : Cls) (c : Nat) : Bool := cs.any fun r => r.1 ≤ c && c ≤ r.2

inductive Re where
  | eps
  | cls (cs : Cls)
  | seq (r s : Re)
  | alt (r s : Re)
  | star (r : Re)
  deriving DecidableEq, Repr

open Re

inductive Matches : Re → List Nat → Prop where
  | eps : Matches .eps []
  | cls {cs c} : inCls cs c = true → Matches (.cls cs) [c]
  | seq {r s u v} : Matches r u → Matches s v → Matches (.seq r s) (u ++ v)
  | altl {r s u} : Matches r u → Matches (.alt r s) u
  | altr {r s u} : Matches s u → Matches (.alt r s) u
  | star_nil {r} : Matches (.star r) []
  | star_cons {r c u v} : Matches r (c :: u) → Matches (.star r) v → Matches (.star r) (c :: u ++ v)

def nullable : Re → Bool
  | .eps => true
  | .cls _ => false
  | .seq r s => nullable r && nullable s
  | .alt r s => nullable r || nullable s
  | .star _ => true

theorem nullable_iff (r : Re) : nullable r = true ↔ Matches r [] := by
  induction r with
  | eps => simp [nullable]; exact .eps
  | cls cs => simp [nullable]; intro h; cases h
  | seq r s ihr ihs =>
    simp [nullable, ihr, ihs]
    constructor
    · rintro ⟨h1, h2⟩; exact .seq (u := []) (v := []) h1 h2
    · intro h
      generalize hw : ([] : List Nat) = w at h
      cases h with
      | seq h1 h2 =>
        rename_i u v
        have : u = [] ∧ v = [] := by simpa using hw.symm
        obtain ⟨rfl, rfl⟩ := this
        exact ⟨h1, h2⟩
  | alt r s ihr ihs =>
    simp [nullable, ihr, ihs]
    constructor
    · rintro (h | h)
      · exact .altl h
      · exact .altr h
    · intro h
      cases h with
      | altl h => exact .inl h
      | altr h => exact .inr h
  | star r _ => simp [nullable]; exact .star_nil

/-- `seq` smart constructor used when appending a continuation: `eps · s = s`. -/
def mkSeq (r s : Re) : Re := match r with
  | .eps => s
  | r => .seq r s

theorem mkSeq_matches (r s : Re) (w : List Nat) : Matches (mkSeq r s) w ↔ Matches (.seq r s) w := by
  unfold mkSeq
  split
  · constructor
    · intro h; exact .seq (u := []) .eps h
    · intro h
      cases h with
      | seq h1 h2 => cases h1; simpa using h2
  · exact Iff.rfl

/-- Antimirov partial derivatives. -/
def pd (c : Nat) : Re → List Re
  | .eps => []
  | .cls cs => if inCls cs c then [.eps] else []
  | .seq r s => (pd c r).map (mkSeq · s) ++ (if nullable r then pd c s else [])
  | .alt r s => pd c r ++ pd c s
  | .star r => (pd c r).map (mkSeq · (.star r))

theorem pd_sound (c : Nat) (r : Re) : ∀ w, (∃ r' ∈ pd c r, Matches r' w) → Matches r (c :: w) := by
  induction r with
  | eps => intro w ⟨r', h, _⟩; simp [pd] at h
  | cls cs =>
    intro w ⟨r', h, hm⟩
    simp only [pd] at h
    split at h
    · simp at h; subst h; cases hm; exact .cls ‹_›
    · simp at h
  | seq r s ihr ihs =>
    intro w ⟨r', h, hm⟩
    simp only [pd, List.mem_append, List.mem_map] at h
    rcases h with ⟨r1, hr1, rfl⟩ | h
    · rw [mkSeq_matches] at hm
      cases hm with
      | seq h1 h2 =>
        have := ihr _ ⟨r1, hr1, h1⟩
        exact Matches.seq this h2
    · split at h
      · rename_i hn
        have h0 := (nullable_iff r).mp hn
        have := ihs _ ⟨r', h, hm⟩
        exact Matches.seq (u := []) h0 this
      · simp at h
  | alt r s ihr ihs =>
    intro w ⟨r', h, hm⟩
    simp only [pd, List.mem_append] at h
    rcases h with h | h
    · exact .altl (ihr _ ⟨r', h, hm⟩)
    · exact .altr (ihs _ ⟨r', h, hm⟩)
  | star r ih =>
    intro w ⟨r', h, hm⟩
    simp only [pd, List.mem_map] at h
    obtain ⟨r1, hr1, rfl⟩ := h
    rw [mkSeq_matches] at hm
    cases hm with
    | seq h1 h2 =>
      have := ih _ ⟨r1, hr1, h1⟩
      exact Matches.star_cons this h2

theorem pd_complete (c : Nat) : ∀ (r : Re) (w : List Nat), Matches r (c :: w) →
    ∃ r' ∈ pd c r, Matches r' w := by
  intro r w h
  generalize hx : c :: w = x at h
  induction h generalizing c w with
  | eps => simp at hx
  | @cls cs c' hin =>
    have : c = c' ∧ w = [] := by simpa using hx
    obtain ⟨rfl, rfl⟩ := this
    exact ⟨.eps, by simp [pd, hin], .eps⟩
  | @seq r s u v h1 h2 ih1 ih2 =>
    cases u with
    | nil =>
      simp at hx
      obtain ⟨r', hr', hm⟩ := ih2 c w hx
      refine ⟨r', ?_, hm⟩
      simp [pd, (nullable_iff r).mpr h1, hr']
    | cons c' u' =>
      have : c = c' ∧ w = u' ++ v := by simpa using hx
      obtain ⟨rfl, rfl⟩ := this
      obtain ⟨r', hr', hm⟩ := ih1 c u' rfl
      refine ⟨mkSeq r' s, ?_, ?_⟩
      · simp only [pd, List.mem_append, List.mem_map]; exact .inl ⟨r', hr', rfl⟩
      · rw [mkSeq_matches]; exact .seq hm h2
  | altl h ih =>
    obtain ⟨r', hr', hm⟩ := ih c w hx
    exact ⟨r', by simp [pd, hr'], hm⟩
  | altr h ih =>
    obtain ⟨r', hr', hm⟩ := ih c w hx
    exact ⟨r', by simp [pd, hr'], hm⟩
  | star_nil => simp at hx
  | @star_cons r c' u v h1 h2 ih1 ih2 =>
    have : c = c' ∧ w = u ++ v := by simpa using hx
    obtain ⟨rfl, rfl⟩ := this
    obtain ⟨r', hr', hm⟩ := ih1 c u rfl
    refine ⟨mkSeq r' (.star r), ?_, ?_⟩
    · simp only [pd, List.mem_map]; exact ⟨r', hr', rfl⟩
    · rw [mkSeq_matches]; exact .seq hm h2

end Re

