import Lspike.LR
/-! Spike: soundness of the LR runtime under checkable safety conditions. -/
namespace LR

def trans (A : Auto) (s : Nat) : Sym → Option Nat
  | .t x => match A.action s x with
    | some (.shift s') => some s'
    | _ => none
  | .n B => A.goto s B

/-- Stack invariant: entries (top first) follow automaton edges from state 0 and each entry's
value derives its symbol; `syms` (top first) and `w` (consumed input) are ghosts. -/
inductive StackInv (G : Grammar) (A : Auto) : List Entry → List Sym → List Nat → Prop where
  | base (v0 : Val) : StackInv G A [⟨0, v0⟩] [] []
  | push {e st syms w X s' u v} : StackInv G A (e :: st) syms w → trans A e.state X = some s' →
      Der G [X] u [v] → StackInv G A (⟨s', v⟩ :: e :: st) (X :: syms) (w ++ u)

structure Safe (G : Grammar) (A : Auto) : Prop where
  s0 : ∀ it ∈ A.items 0, it.d = 0
  back : ∀ s X s' it, trans A s X = some s' → it ∈ A.items s' → 0 < it.d →
      ∃ pr, G.prods[it.p]? = some pr ∧ pr.rhs[it.d - 1]? = some X ∧
        ∃ a', (⟨it.p, it.d - 1, a'⟩ : Item) ∈ A.items s
  red : ∀ s a p, A.action s a = some (.reduce p) → ∃ pr a', G.prods[p]? = some pr ∧
      (⟨p, pr.rhs.length, a'⟩ : Item) ∈ A.items s
  gotoDef : ∀ s it pr, it ∈ A.items s → it.d = 0 → G.prods[it.p]? = some pr →
      A.action s 0 ≠ none ∨ True → True  -- placeholder, goto definedness is checked by `step` itself

theorem StackInv.ne_nil {G A st syms w} (h : StackInv G A st syms w) : st ≠ [] := by
  cases h <;> simp

theorem StackInv.len {G A st syms w} (h : StackInv G A st syms w) : st.length = syms.length + 1 := by
  induction h with
  | base => rfl
  | push _ _ _ ih => simp [ih]

/-- Backward walk: an item with dot `d` in the top state means the top `d` stack symbols are the
first `d` symbols of its production, and the dot-0 item sits `d` entries down. -/
theorem walk {G : Grammar} {A : Auto} (hs : Safe G A) :
    ∀ (d : Nat) {st syms w} (_ : StackInv G A st syms w) (p a : Nat) (pr : Prod),
      (⟨p, d, a⟩ : Item) ∈ A.items (topState st) → G.prods[p]? = some pr →
      d ≤ syms.length ∧ (syms.take d).reverse = pr.rhs.take d ∧
        ∃ a', (⟨p, 0, a'⟩ : Item) ∈ A.items (topState (st.drop d)) := by
  intro d
  induction d with
  | zero =>
    intro st syms w _ p a pr hit _
    exact ⟨Nat.zero_le _, by simp, a, by simpa using hit⟩
  | succ d ih =>
    intro st syms w hinv p a pr hit hp
    cases hinv with
    | base v0 =>
      have := hs.s0 _ (by simpa [topState] using hit)
      simp at this
    | @push e st' syms' w' X s' u v hinv' htr hder =>
      have hit' : (⟨p, d + 1, a⟩ : Item) ∈ A.items s' := by simpa [topState] using hit
      obtain ⟨pr', hp', hX, a', hprev⟩ := hs.back _ _ _ _ htr hit' (by simp)
      simp at hX hprev hp'
      have hpr : pr' = pr := by rw [hp] at hp'; exact (Option.some.inj hp').symm
      subst hpr
      obtain ⟨hle, htake, a'', h0⟩ := ih hinv' p a' pr' (by simpa [topState] using hprev) hp
      refine ⟨by simp; omega, ?_, a'', by simpa using h0⟩
      have hlt : d < pr'.rhs.length := by
        rcases List.getElem?_eq_some_iff.mp hX with ⟨h, _⟩; exact h
      rw [List.take_succ_cons, List.reverse_cons, htake]
      rw [List.take_succ, hX]; simp

/-- Split the top `k` entries off: they derive the reversed top `k` symbols. -/
theorem split {G : Grammar} {A : Auto} :
    ∀ (k : Nat) {st syms w} (_ : StackInv G A st syms w), k ≤ syms.length →
      ∃ w1 w2, w = w1 ++ w2 ∧ StackInv G A (st.drop k) (syms.drop k) w1 ∧
        Der G (syms.take k).reverse w2 ((st.take k).map (·.val)).reverse := by
  intro k
  induction k with
  | zero =>
    intro st syms w h _
    exact ⟨w, [], by simp, by simpa using h, by simpa using Der.nil⟩
  | succ k ih =>
    intro st syms w h hk
    cases h with
    | base v0 => simp at hk
    | @push e st' syms' w' X s' u v hinv' htr hder =>
      obtain ⟨w1, w2, hw, hinv'', hd⟩ := ih hinv' (by simpa using hk)
      refine ⟨w1, w2 ++ u, by simp [hw], by simpa using hinv'', ?_⟩
      have := Der.append hd hder
      simpa using this

end LR
