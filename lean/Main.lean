import Lox.Drv.Common
import Lox.Rang3.Drv
import Lox.Table.Drv
import Lox.LR.Drv
import Lox.Lex.Drv
import Lox.Dec.Drv
/-! Line-protocol driver: one case per input line `area.op payload`, one answer per output line.
Core-only imports so that this links as a `lean_exe`. -/

def dispatch (line : String) : String :=
  let line := line.trimAsciiEnd.toString
  let (op, payload) := match line.splitOn " " with
    | [] => ("", "")
    | op :: rest => (op, " ".intercalate rest)
  let area := (op.splitOn ".").headD ""
  let r := match area with
    | "rang3" => Lox.Rang3.handle op payload
    | "table" => Lox.Table.handle op payload
    | "lr" => Lox.LR.handle op payload
    | "lex" => Lox.Lex.handle op payload
    | "dec" => Lox.Dec.handle op payload
    | _ => none
  r.getD "bad-op"

partial def loop (hin hout : IO.FS.Stream) : IO Unit := do
  let line ← hin.getLine
  if line.isEmpty then return ()
  if line.trimAscii.toString.isEmpty || line.startsWith "#" then
    hout.putStrLn line.trimAsciiEnd.toString
  else
    hout.putStrLn (dispatch line)
  loop hin hout

def main : IO Unit := do
  let hin ← IO.getStdin
  let hout ← IO.getStdout
  loop hin hout
  hout.flush
