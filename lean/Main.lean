import Lox.Drv.Common
import Lox.Rang3.Drv
import Lox.Table.Drv
import Lox.LR.Drv
import Lox.LR.DrvDesugar
import Lox.LR.DrvRecovery
import Lox.LR.DrvJustify
import Lox.LR.DrvGenModel
import Lox.LR.DrvConflict
import Lox.LR.DrvConstruct
import Lox.LR.DrvEmit
import Lox.Lex.Drv
import Lox.Lex.DrvRuntime
import Lox.Lex.DrvGen
import Lox.Lex.DrvEmit
import Lox.Lex.DrvGenSpec
import Lox.Dec.Drv
import Lox.Dec.DrvTerminals
import Lox.Dec.DrvAssign
import Lox.Dec.DrvAnalyze
import Lox.Dec.DrvFrontText
import Lox.Dec.DrvContainers
/-! Line-protocol driver: one case per input line `area.op payload`, one answer per output line.
Core-only imports so that this links as a `lean_exe`. -/

def dispatch (line : String) : String :=
  let line := line.trimAsciiEnd.toString
  let (op, payload) := match line.splitOn " " with
    | [] => ("", "")
    | op :: rest => (op, " ".intercalate rest)
  let area := (op.splitOn ".").headD ""
  let r := match area with
    | "rang3" => Lox.Rang3.handle op payload
    | "table" => Lox.Table.handle op payload
    | "lr" => (((((((Lox.LR.handle op payload).orElse fun _ => Lox.LR.handleDesugar op payload).orElse fun _ => Lox.LR.Rt.handleRecovery op payload).orElse fun _ => Lox.LR.handleJustify op payload).orElse fun _ => Lox.LR.Gen.handleGenModel op payload).orElse fun _ => Lox.LR.handleConflict op payload).orElse fun _ => Lox.LR.Cons.handleConstruct op payload).orElse fun _ => Lox.LR.Emit.handleEmit op payload
    | "lex" => ((((Lox.Lex.handle op payload).orElse fun _ => Lox.Lex.Rt.handleRuntime op payload).orElse fun _ => Lox.Lex.Gen.handleGen op payload).orElse fun _ => Lox.Lex.Gen.handleEmit op payload).orElse fun _ => Lox.Lex.GenSpec.handleGenSpec op payload
    | "dec" => (((((Lox.Dec.handle op payload).orElse fun _ => Lox.Dec.Terminals.handleTerminals op payload).orElse fun _ => Lox.Dec.Assign.handleAssign op payload).orElse fun _ => Lox.Dec.Analyze.handleAnalyze op payload).orElse fun _ => Lox.Dec.FrontText.handleFrontText op payload).orElse fun _ => Lox.Dec.Containers.handleContainers op payload
    | _ => none
  r.getD "bad-op"

/-- `@let NAME payload` lines bind `$NAME` for the following lines (answer: `let`), so that big
tables are sent once per grammar and not once per input. -/
partial def loop (hin hout : IO.FS.Stream) (env : List (String × String)) : IO Unit := do
  let line ← hin.getLine
  if line.isEmpty then return ()
  if line.trimAscii.toString.isEmpty || line.startsWith "#" then
    hout.putStrLn line.trimAsciiEnd.toString
    loop hin hout env
  else if line.startsWith "@let " then
    let rest := (line.drop 5).trimAsciiEnd.toString
    match rest.splitOn " " with
    | name :: payload =>
      hout.putStrLn "let"
      loop hin hout (("$" ++ name, " ".intercalate payload) :: env.filter (·.1 ≠ "$" ++ name))
    | [] =>
      hout.putStrLn "bad-op"
      loop hin hout env
  else
    let line := if line.contains '$' then env.foldl (fun l (k, v) => l.replace k v) line else line
    hout.putStrLn (dispatch line)
    loop hin hout env

def main : IO Unit := do
  let hin ← IO.getStdin
  let hout ← IO.getStdout
  loop hin hout []
  hout.flush
