-- Root of the `Lox` library: everything that must be kernel-checked is imported here.
import Lox.Drv.Common
import Lox.Rang3.Drv
import Lox.Table.Drv
import Lox.LR.Drv
import Lox.Lex.Drv
import Lox.Dec.Drv
import Lox.LR.Model
import Lox.LR.Sugar
import Lox.Lex.Model
import Lox.Props.C15
