import Lox.LR.Check
import Lox.LR.LALR
/-! The ⊆ half of "the emitted item sets are the LALR(1) item sets": a justification certificate.

`check` (`Lox/LR/Check.lean`) establishes that nothing is MISSING from the generator's item sets
(closed under goto and closure w.r.t. a closed FIRST table). `justify` establishes that nothing is
INVENTED: every (state, item) of the certificate has a derivation by the three rules that define
the LALR(1) item sets (`Lox/LR/LALR.lean`), every entry of the emitted tables is called for by an
item (reduce entries by the completed item with exactly that lookahead), and distinct states have distinct LR(0) kernels.

Structure: an UNTRUSTED search (`searchRanks`, `rankTabs`: a forward propagation from the start
item that records, for every item reached, a rank = order of discovery and a parent) and a TRUSTED,
simple check (`justifyWith`) of the result: every item names its parent, the parent is in the
certificate and has a strictly smaller rank; FIRST/nullable facts used by closure steps come from
a table of ranked entries, each justified by a production and entries of smaller rank. The
soundness proof (`Lox/LR/JustifySound.lean`, `justify_sound`) is an induction on the rank and
holds for ARBITRARY rank/parent functions, so nothing about the search has to be proved.

Core Lean only (linked into the driver). -/
namespace Lox.LR

/-! ### Ranked nullable / FIRST tables -/

/-- `null[B] = 0`: not (known to be) nullable, `r > 0`: nullable, justified at rank `r`;
`first[B][b]` likewise for `b ∈ FIRST(B)`. -/
structure RankTab where
  null : Array Nat
  first : Array (Array Nat)
  deriving Inhabited, Repr

def RankTab.nullR (R : RankTab) (B : Nat) : Nat := R.null[B]?.getD 0
def RankTab.firstR (R : RankTab) (B b : Nat) : Nat := (R.first[B]?.getD #[])[b]?.getD 0

/-- All symbols are nonterminals that are nullable at a rank `< r`. -/
def nullWit (R : RankTab) (r : Nat) : List Sym → Bool
  | [] => true
  | .t _ :: _ => false
  | .n C :: rest => decide (0 < R.nullR C) && decide (R.nullR C < r) && nullWit R r rest

/-- `b` begins the sequence: after nullable nonterminals comes the terminal `b` or a nonterminal
with `b` in its FIRST set at a rank `< r`. -/
def firstWit (R : RankTab) (r b : Nat) : List Sym → Bool
  | [] => false
  | .t x :: _ => x == b
  | .n C :: rest =>
    (decide (0 < R.firstR C b) && decide (R.firstR C b < r)) ||
    (decide (0 < R.nullR C) && firstWit R r b rest)

/-- Every entry of the table is justified by a production and entries of smaller rank. -/
def rankOKB (G : Grammar) (R : RankTab) : Bool :=
  ((List.range R.null.size).all fun B =>
    R.nullR B == 0 || G.prods.toList.any fun pr => pr.lhs == B && nullWit R (R.nullR B) pr.rhs) &&
  (List.range R.first.size).all fun B =>
    (List.range (R.first[B]?.getD #[]).size).all fun b =>
      R.firstR B b == 0 ||
      G.prods.toList.any fun pr => pr.lhs == B && firstWit R (R.firstR B b) b pr.rhs

/-- `b ∈ FIRST(α a)` according to the table. -/
def firstSeqB (R : RankTab) (a b : Nat) : List Sym → Bool
  | [] => b == a
  | .t x :: _ => x == b
  | .n C :: rest => decide (0 < R.firstR C b) || (decide (0 < R.nullR C) && firstSeqB R a b rest)

/-! ### Justification of the items -/

/-- How an item of a state is obtained. -/
inductive Just where
  /-- the start item `[S' → ·S, EOF]` of state 0 -/
  | start
  /-- from the item with the dot one position to the left in the predecessor state `s'` -/
  | goto (s' : Nat)
  /-- by closure from the item `(p, d, a)` of the same state -/
  | clos (p d a : Nat)
  deriving Inhabited, Repr, DecidableEq

/-- The trusted check of one item `it` of state `s`. -/
def justItemB (G : Grammar) (A : Auto) (R : RankTab) (rk : Nat → Item → Nat)
    (jf : Nat → Item → Just) (s : Nat) (it : Item) : Bool :=
  match jf s it with
  | .start => s == 0 && decide (it = ⟨0, 0, eof⟩)
  | .goto s' =>
    match it.d, G.prods[it.p]? with
    | d + 1, some pr =>
      (match pr.rhs[d]? with
        | some X => trans A s' X == some s
        | none => false) &&
      hasItem (A.items s') ⟨it.p, d, it.a⟩ && decide (rk s' ⟨it.p, d, it.a⟩ < rk s it)
    | _, _ => false
  | .clos p' d' a' =>
    it.d == 0 && hasItem (A.items s) ⟨p', d', a'⟩ && decide (rk s ⟨p', d', a'⟩ < rk s it) &&
    match G.prods[p']?, G.prods[it.p]? with
    | some pr', some pr =>
      pr'.rhs[d']? == some (.n pr.lhs) && firstSeqB R a' it.a (pr'.rhs.drop (d' + 1))
    | _, _ => false

/-- Every item of the states `< n` is justified. -/
def itemsJustB (G : Grammar) (A : Auto) (R : RankTab) (rk : Nat → Item → Nat)
    (jf : Nat → Item → Just) (n : Nat) : Bool :=
  (List.range n).all fun s => (A.items s).all fun it => justItemB G A R rk jf s it

/-! ### Edges of the emitted tables are called for by items -/

/-- Some item of the list has `X` after the dot. -/
def hasNext (G : Grammar) (items : List Item) (X : Sym) : Bool :=
  items.any fun it =>
    match G.prods[it.p]? with
    | some pr => pr.rhs[it.d]? == some X
    | none => false

/-- Every entry of the `_actions` row of state `s` is called for by an item of the certificate: a
shift on `x` by an item with `x` after the dot, a reduce of `p` on `a` by the completed item
`(p, |rhs p|, a)` (this very lookahead), accept by `(0, 1, EOF)` on EOF; every entry of the `_goto`
row by an item with that rule after the dot. -/
def edgesStateB (G : Grammar) (T : Tables) (cert : Array (List Item)) (s : Nat) : Bool :=
  let items := itemsOf cert s
  (match rowOf T.actions (s : Int) with
  | none => false
  | some row => row.all fun e =>
      decide (0 ≤ e.1) &&
      (if e.2 = acceptCode then e.1 == 0 && hasItem items ⟨0, 1, 0⟩
       else if 0 ≤ e.2 then hasNext G items (.t e.1.toNat)
       else
        match G.prods[(-e.2).toNat]? with
        | some pr => hasItem items ⟨(-e.2).toNat, pr.rhs.length, e.1.toNat⟩
        | none => false)) &&
  (match rowOf T.gotos (s : Int) with
  | none => false
  | some row => row.all fun e => hasNext G items (.n e.1.toNat))

def edgesB (G : Grammar) (T : Tables) (cert : Array (List Item)) : Bool :=
  (List.range cert.size).all fun s => edgesStateB G T cert s

/-! ### Distinct states have distinct LR(0) kernels -/

/-- `ItemSet.LR0Key` uses the kernel items (`Item.IsKernel`: production 0 or dot ≠ 0). -/
def isKernel (it : Item) : Bool := it.p == 0 || it.d != 0

def kernelCores (items : List Item) : List (Nat × Nat) :=
  (items.filter isKernel).map fun it => (it.p, it.d)

/-- Some kernel core of one list is not a kernel core of the other. -/
def coresDiffer (k k' : List (Nat × Nat)) : Bool :=
  k.any (fun c => !k'.contains c) || k'.any (fun c => !k.contains c)

def kernelsDistinctB (cert : Array (List Item)) : Bool :=
  let ks := cert.map kernelCores
  (List.range cert.size).all fun s => (List.range s).all fun s' =>
    coresDiffer (ks[s]?.getD []) (ks[s']?.getD [])

/-! ### The whole trusted check -/

/-- The trusted check, for given (arbitrary) tables, ranks and parents. -/
def justifyWith (G : Grammar) (T : Tables) (cert : Array (List Item)) (R : RankTab)
    (rk : Nat → Item → Nat) (jf : Nat → Item → Just) : Bool :=
  rankOKB G R && itemsJustB G (autoOf T cert) R rk jf cert.size && edgesB G T cert &&
  kernelsDistinctB cert

/-! ### Productive rules -/

/-- All symbols are terminals or nonterminals with a positive rank `< r`. -/
def prodWit (P : Array Nat) (r : Nat) : List Sym → Bool
  | [] => true
  | .t _ :: rest => prodWit P r rest
  | .n C :: rest => decide (0 < P[C]?.getD 0) && decide (P[C]?.getD 0 < r) && prodWit P r rest

/-- Every positive entry is justified by a production and entries of smaller rank. -/
def prodRankOKB (G : Grammar) (P : Array Nat) : Bool :=
  (List.range P.size).all fun B =>
    P[B]?.getD 0 == 0 || G.prods.toList.any fun pr => pr.lhs == B && prodWit P (P[B]?.getD 0) pr.rhs

/-- Every nonterminal occurring in the grammar has a positive entry. -/
def allProductiveB (G : Grammar) (P : Array Nat) : Bool :=
  G.prods.toList.all fun pr =>
    decide (0 < P[pr.lhs]?.getD 0) &&
    pr.rhs.all fun
      | .t _ => true
      | .n B => decide (0 < P[B]?.getD 0)

/-! ### Untrusted: computation of the ranked tables (Jacobi iteration, rank = round number) -/

/-- All symbols nullable (any rank). -/
def nullSeqR (R : RankTab) : List Sym → Bool
  | [] => true
  | .t _ :: _ => false
  | .n C :: rest => decide (0 < R.nullR C) && nullSeqR R rest

/-- The terminals of `FIRST(α)` according to the table (with repetitions). -/
def firstListR (R : RankTab) : List Sym → List Nat
  | [] => []
  | .t x :: _ => [x]
  | .n C :: rest =>
    let row := R.first[C]?.getD #[]
    ((List.range row.size).filter fun b => row[b]?.getD 0 != 0) ++
      (if 0 < R.nullR C then firstListR R rest else [])

/-- One round: entries that follow from the snapshot `R` and are not yet present get rank `k`. -/
def rankRound (G : Grammar) (R : RankTab) (k : Nat) : RankTab × Bool :=
  G.prods.foldl (init := (R, false)) fun (R', ch) pr =>
    let (R', ch) :=
      if R'.nullR pr.lhs == 0 && nullSeqR R pr.rhs then
        ({ R' with null := R'.null.setIfInBounds pr.lhs k }, true)
      else (R', ch)
    (firstListR R pr.rhs).foldl (init := (R', ch)) fun (R', ch) b =>
      if R'.firstR pr.lhs b == 0 && decide (pr.lhs < R'.first.size) &&
          decide (b < (R'.first[pr.lhs]?.getD #[]).size) then
        ({ R' with first := R'.first.modify pr.lhs fun row => row.setIfInBounds b k }, true)
      else (R', ch)

def rankIter (G : Grammar) : Nat → Nat → RankTab → RankTab
  | 0, _, R => R
  | n + 1, k, R =>
    let (R', ch) := rankRound G R k
    if ch then rankIter G n (k + 1) R' else R'

def rankTabs (G : Grammar) (nTerms nRules : Nat) : RankTab :=
  rankIter G (nRules * (nTerms + 2) + 2) 1
    { null := Array.replicate nRules 0, first := Array.replicate nRules (Array.replicate nTerms 0) }

def prodRound (G : Grammar) (P : Array Nat) (k : Nat) : Array Nat × Bool :=
  G.prods.foldl (init := (P, false)) fun (P', ch) pr =>
    if P'[pr.lhs]?.getD 0 == 0 && prodWit P k pr.rhs then (P'.setIfInBounds pr.lhs k, true)
    else (P', ch)

def prodIter (G : Grammar) : Nat → Nat → Array Nat → Array Nat
  | 0, _, P => P
  | n + 1, k, P =>
    let (P', ch) := prodRound G P k
    if ch then prodIter G n (k + 1) P' else P'

def prodRanks (G : Grammar) (nRules : Nat) : Array Nat :=
  prodIter G (nRules + 2) 1 (Array.replicate nRules 0)

/-! ### Untrusted: search for ranks and parents of the items -/
namespace Jst

structure Ctx where
  G : Grammar
  A : Auto
  /-- `ix[s][p][d]` = `(a, position in cert[s])` for the items `(p, d, a)` of state `s` -/
  ix : Array (Array (Array (List (Nat × Nat))))
  /-- productions by left-hand side -/
  prodsOf : Array (List Nat)
  /-- `beta[p][d]` = FIRST list and nullability of `rhs p` after position `d` -/
  beta : Array (Array (List Nat × Bool))

structure SearchSt where
  rkA : Array (Array Nat)     -- rank + 1, 0 = not reached
  jfA : Array (Array Just)
  cnt : Nat

def Ctx.posOf (c : Ctx) (s : Nat) (it : Item) : Option Nat :=
  ((((c.ix[s]?.getD #[])[it.p]?.getD #[])[it.d]?.getD []).lookup it.a)

def mkIndex (G : Grammar) (items : List Item) : Array (Array (List (Nat × Nat))) :=
  let empty : Array (Array (List (Nat × Nat))) :=
    G.prods.map fun pr => Array.replicate (pr.rhs.length + 1) []
  (items.foldl (init := (empty, 0)) fun (ix, pos) it =>
    (ix.modify it.p fun row => row.modify it.d fun l => (it.a, pos) :: l, pos + 1)).1

def mkProdsOf (G : Grammar) (nRules : Nat) : Array (List Nat) :=
  (List.range G.prods.size).foldr (init := Array.replicate nRules []) fun q acc =>
    match G.prods[q]? with
    | some pr => acc.modify pr.lhs (q :: ·)
    | none => acc

def mkBeta (G : Grammar) (R : RankTab) : Array (Array (List Nat × Bool)) :=
  G.prods.map fun pr =>
    Array.ofFn (n := pr.rhs.length + 1) fun d =>
      let β := pr.rhs.drop (d.val + 1)
      ((firstListR R β).eraseDups, nullSeqR R β)

def visit (c : Ctx) (s : Nat) (it : Item) (j : Just) (st : SearchSt × List (Nat × Item)) :
    SearchSt × List (Nat × Item) :=
  match c.posOf s it with
  | none => st
  | some pos =>
    if (st.1.rkA[s]?.getD #[])[pos]?.getD 0 != 0 then st
    else
      ({ rkA := st.1.rkA.modify s fun row => row.setIfInBounds pos (st.1.cnt + 1)
         jfA := st.1.jfA.modify s fun row => row.setIfInBounds pos j
         cnt := st.1.cnt + 1 }, (s, it) :: st.2)

/-- Propagate from one item: its goto successor and its closure children. -/
def expand (c : Ctx) (s : Nat) (it : Item) (st : SearchSt × List (Nat × Item)) :
    SearchSt × List (Nat × Item) :=
  match c.G.prods[it.p]? with
  | none => st
  | some pr =>
    match pr.rhs[it.d]? with
    | none => st
    | some X =>
      let st := match trans c.A s X with
        | some s' => visit c s' ⟨it.p, it.d + 1, it.a⟩ (.goto s) st
        | none => st
      match X with
      | .t _ => st
      | .n B =>
        let (fl, nl) := (c.beta[it.p]?.getD #[])[it.d]?.getD ([], false)
        let las := if nl && !fl.contains it.a then it.a :: fl else fl
        (c.prodsOf[B]?.getD []).foldl (init := st) fun st q =>
          las.foldl (init := st) fun st b => visit c s ⟨q, 0, b⟩ (.clos it.p it.d it.a) st

def searchLoop (c : Ctx) : Nat → SearchSt × List (Nat × Item) → SearchSt
  | 0, st => st.1
  | n + 1, (st, work) =>
    match work with
    | [] => st
    | (s, it) :: work => searchLoop c n (expand c s it (st, work))

/-- The rank and parent functions found by the search. -/
def searchRanks (G : Grammar) (nRules : Nat) (A : Auto) (cert : Array (List Item)) (R : RankTab) :
    (Nat → Item → Nat) × (Nat → Item → Just) :=
  let c : Ctx := { G := G, A := A, ix := cert.map (mkIndex G), prodsOf := mkProdsOf G nRules,
                   beta := mkBeta G R }
  let st0 : SearchSt := { rkA := cert.map fun l => Array.replicate l.length 0,
                          jfA := cert.map fun l => Array.replicate l.length .start, cnt := 0 }
  let total := cert.foldl (fun n l => n + l.length) 0
  let st := searchLoop c (total + 1) (visit c 0 ⟨0, 0, eof⟩ .start (st0, []))
  (fun s it => match c.posOf s it with
    | some pos => (st.rkA[s]?.getD #[])[pos]?.getD 0
    | none => 0,
   fun s it => match c.posOf s it with
    | some pos => (st.jfA[s]?.getD #[])[pos]?.getD .start
    | none => .start)

end Jst

/-! ### The validators -/

/-- Untrusted: name the first failing condition. -/
def diagnoseJustify (G : Grammar) (T : Tables) (cert : Array (List Item)) (R : RankTab)
    (rk : Nat → Item → Nat) (jf : Nat → Item → Just) : String :=
  if !rankOKB G R then "justify: ranked FIRST table"
  else
    let A := autoOf T cert
    match (List.range cert.size).find? fun s => !(A.items s).all fun it => justItemB G A R rk jf s it with
    | some s =>
      (match (A.items s).find? fun it => !justItemB G A R rk jf s it with
      | some it => "justify: state " ++ toString s ++ ": unjustified item " ++ toString it.p ++ " " ++
          toString it.d ++ " " ++ toString it.a
      | none => "justify: state " ++ toString s)
    | none =>
      match (List.range cert.size).find? fun s => !edgesStateB G T cert s with
      | some s => "justify: state " ++ toString s ++ ": table entry without an item"
      | none => "justify: two states with the same LR(0) kernel"

/-- The ⊆ check as a Boolean: untrusted search, then the trusted check of its result. -/
def justifyB (G : Grammar) (nTerms nRules : Nat) (T : Tables) (cert : Array (List Item)) : Bool :=
  let R := rankTabs G nTerms nRules
  let (rk, jf) := Jst.searchRanks G nRules (autoOf T cert) cert R
  justifyWith G T cert R rk jf

/-- The ⊆ validator (sound by `Lox.LR.justify_sound`). -/
def justify (G : Grammar) (nTerms nRules : Nat) (T : Tables) (cert : Array (List Item)) :
    Except String Unit :=
  if justifyB G nTerms nRules T cert then .ok ()
  else
    let R := rankTabs G nTerms nRules
    let (rk, jf) := Jst.searchRanks G nRules (autoOf T cert) cert R
    .error (diagnoseJustify G T cert R rk jf)

/-- `true` iff every nonterminal occurring in the grammar derives some token string (sound by
`Lox.LR.productiveB_sound`). -/
def productiveB (G : Grammar) (nRules : Nat) : Bool :=
  let P := prodRanks G nRules
  prodRankOKB G P && allProductiveB G P

/-- Untrusted: the first rule without a positive rank. -/
def firstUnproductive (G : Grammar) (nRules : Nat) : Option Nat :=
  let P := prodRanks G nRules
  (List.range nRules).find? fun B => P[B]?.getD 0 == 0

end Lox.LR
