import Lox.LR.GenModel
/-! Canonical order in the generator model: `sinsert` / `ssort` produce THE strictly increasing
list of a set, hence `sortItems` (`ItemSet.Items()`), `lr0Key` (`ItemSet.LR0Key`) and `next`
(`Next`) depend only on the set of items. Core Lean only. -/
namespace Lox.LR.Gen
open Lox.LR

/-- `lt` is a strict total order. -/
structure StrictOrder {α : Type} (lt : α → α → Bool) : Prop where
  irrefl : ∀ a, lt a a = false
  trans : ∀ a b c, lt a b = true → lt b c = true → lt a c = true
  total : ∀ a b, lt a b = false → lt b a = false → a = b

/-- Strictly increasing. -/
def SSorted {α : Type} (lt : α → α → Bool) (l : List α) : Prop :=
  List.Pairwise (fun a b => lt a b = true) l

variable {α : Type} {lt : α → α → Bool}

theorem mem_sinsert (ho : StrictOrder lt) {a x : α} {l : List α} :
    x ∈ sinsert lt a l ↔ x = a ∨ x ∈ l := by
  induction l with
  | nil => simp [sinsert]
  | cons b r ih =>
    simp only [sinsert]
    split
    · simp
    · split
      · simp only [List.mem_cons, ih]
        constructor
        · rintro (h | h | h)
          · exact Or.inr (Or.inl h)
          · exact Or.inl h
          · exact Or.inr (Or.inr h)
        · rintro (h | h | h)
          · exact Or.inr (Or.inl h)
          · exact Or.inl h
          · exact Or.inr (Or.inr h)
      · rename_i h1 h2
        have hab : a = b := ho.total a b (by simpa using h1) (by simpa using h2)
        subst hab
        simp

theorem sorted_sinsert (ho : StrictOrder lt) {a : α} {l : List α} (h : SSorted lt l) :
    SSorted lt (sinsert lt a l) := by
  induction l with
  | nil => simp [sinsert, SSorted]
  | cons b r ih =>
    unfold SSorted at h ih ⊢
    rw [List.pairwise_cons] at h
    simp only [sinsert]
    split
    · rename_i hab
      rw [List.pairwise_cons]
      refine ⟨?_, List.pairwise_cons.mpr h⟩
      intro x hx
      rcases List.mem_cons.mp hx with rfl | hx
      · exact hab
      · exact ho.trans _ _ _ hab (h.1 x hx)
    · split
      · rename_i hba
        rw [List.pairwise_cons]
        refine ⟨?_, ih h.2⟩
        intro x hx
        rcases (mem_sinsert ho).mp hx with rfl | hx
        · exact hba
        · exact h.1 x hx
      · exact List.pairwise_cons.mpr h

/-- Two strictly increasing lists with the same members are equal. -/
theorem sorted_ext (ho : StrictOrder lt) {l1 l2 : List α} (h1 : SSorted lt l1) (h2 : SSorted lt l2)
    (hm : ∀ x, x ∈ l1 ↔ x ∈ l2) : l1 = l2 := by
  induction l1 generalizing l2 with
  | nil =>
    cases l2 with
    | nil => rfl
    | cons b r => exact absurd ((hm b).mpr (by simp)) (by simp)
  | cons a r ih =>
    cases l2 with
    | nil => exact absurd ((hm a).mp (by simp)) (by simp)
    | cons b s =>
      unfold SSorted at h1 h2
      rw [List.pairwise_cons] at h1 h2
      have hab : a = b := by
        have ha : a ∈ b :: s := (hm a).mp (by simp)
        have hb : b ∈ a :: r := (hm b).mpr (by simp)
        rcases List.mem_cons.mp ha with h | h
        · exact h
        · rcases List.mem_cons.mp hb with h' | h'
          · exact h'.symm
          · have l1 := h2.1 a h
            have l2 := h1.1 b h'
            have := ho.trans _ _ _ l1 l2
            rw [ho.irrefl] at this
            cases this
      subst hab
      congr 1
      apply ih h1.2 h2.2
      intro x
      constructor
      · intro hx
        have hne : x ≠ a := by
          rintro rfl
          have := h1.1 x hx
          rw [ho.irrefl] at this
          cases this
        rcases List.mem_cons.mp ((hm x).mp (by simp [hx])) with h | h
        · exact absurd h hne
        · exact h
      · intro hx
        have hne : x ≠ a := by
          rintro rfl
          have := h2.1 x hx
          rw [ho.irrefl] at this
          cases this
        rcases List.mem_cons.mp ((hm x).mpr (by simp [hx])) with h | h
        · exact absurd h hne
        · exact h

theorem mem_ssort (ho : StrictOrder lt) {x : α} {l : List α} : x ∈ ssort lt l ↔ x ∈ l := by
  unfold ssort
  induction l with
  | nil => simp
  | cons a r ih => simp only [List.foldr_cons, mem_sinsert ho, ih, List.mem_cons]

theorem sorted_ssort (ho : StrictOrder lt) (l : List α) : SSorted lt (ssort lt l) := by
  unfold ssort
  induction l with
  | nil => simp [SSorted]
  | cons a r ih => exact sorted_sinsert ho ih

theorem nodup_of_sorted (ho : StrictOrder lt) {l : List α} (h : SSorted lt l) : l.Nodup := by
  unfold SSorted at h
  refine List.Pairwise.imp ?_ h
  intro a b hab heq
  subst heq
  rw [ho.irrefl] at hab
  cases hab

/-- `ssort` depends only on the set. -/
theorem ssort_ext (ho : StrictOrder lt) {l1 l2 : List α} (hm : ∀ x, x ∈ l1 ↔ x ∈ l2) :
    ssort lt l1 = ssort lt l2 :=
  sorted_ext ho (sorted_ssort ho l1) (sorted_ssort ho l2)
    (fun x => by rw [mem_ssort ho, mem_ssort ho, hm x])

/-! ## The three orders -/

theorem natLt_order : StrictOrder (fun x y : Nat => decide (x < y)) where
  irrefl := by intro a; simp
  trans := by intro a b c h1 h2; simp at h1 h2 ⊢; omega
  total := by intro a b h1 h2; simp at h1 h2; omega

theorem pairLt_order : StrictOrder pairLt where
  irrefl := by intro a; simp [pairLt]
  trans := by
    intro a b c h1 h2
    simp only [pairLt, Bool.or_eq_true, Bool.and_eq_true, decide_eq_true_eq, beq_iff_eq] at h1 h2 ⊢
    omega
  total := by
    intro a b h1 h2
    simp only [pairLt, Bool.or_eq_false_iff, Bool.and_eq_false_iff, decide_eq_false_iff_not,
      beq_eq_false_iff_ne, ne_eq] at h1 h2
    apply Prod.ext <;> omega

theorem itemLt_order : StrictOrder itemLt where
  irrefl := by intro a; simp [itemLt]
  trans := by
    intro a b c h1 h2
    simp only [itemLt, Bool.or_eq_true, Bool.and_eq_true, decide_eq_true_eq, beq_iff_eq] at h1 h2 ⊢
    omega
  total := by
    intro a b h1 h2
    simp only [itemLt, Bool.or_eq_false_iff, Bool.and_eq_false_iff, decide_eq_false_iff_not,
      beq_eq_false_iff_ne, ne_eq] at h1 h2
    cases a; cases b
    simp only [Item.mk.injEq] at *
    omega

theorem symLt_order : StrictOrder symLt where
  irrefl := by intro a; cases a <;> simp [symLt]
  trans := by
    intro a b c h1 h2
    cases a <;> cases b <;> cases c <;> simp [symLt] at h1 h2 ⊢ <;> omega
  total := by
    intro a b h1 h2
    cases a <;> cases b <;> simp [symLt] at h1 h2 ⊢ <;> omega

/-! ## `sortItems` -/

theorem mem_sortItems {x : Item} {I : List Item} : x ∈ sortItems I ↔ x ∈ I := mem_ssort itemLt_order

theorem nodup_sortItems (I : List Item) : (sortItems I).Nodup :=
  nodup_of_sorted itemLt_order (sorted_ssort itemLt_order I)

/-- `ItemSet.Items()` is a function of the set. -/
theorem sortItems_ext {I J : List Item} (h : ∀ x, x ∈ I ↔ x ∈ J) : sortItems I = sortItems J :=
  ssort_ext itemLt_order h

/-! ## `lr0Key` -/

theorem mem_lr0Key {I : List Item} {pd : Nat × Nat} :
    pd ∈ lr0Key I ↔ ∃ it ∈ I, isKernel it = true ∧ (it.p, it.d) = pd := by
  unfold lr0Key
  induction I with
  | nil => simp
  | cons it r ih =>
    simp only [List.foldr_cons]
    split
    · rename_i hk
      rw [mem_sinsert pairLt_order, ih]
      constructor
      · rintro (rfl | ⟨j, hj, hkj, rfl⟩)
        · exact ⟨it, by simp, hk, rfl⟩
        · exact ⟨j, by simp [hj], hkj, rfl⟩
      · rintro ⟨j, hj, hkj, rfl⟩
        rcases List.mem_cons.mp hj with rfl | hj
        · exact Or.inl rfl
        · exact Or.inr ⟨j, hj, hkj, rfl⟩
    · rename_i hk
      rw [ih]
      constructor
      · rintro ⟨j, hj, hkj, rfl⟩
        exact ⟨j, by simp [hj], hkj, rfl⟩
      · rintro ⟨j, hj, hkj, rfl⟩
        rcases List.mem_cons.mp hj with rfl | hj
        · exact absurd hkj hk
        · exact ⟨j, hj, hkj, rfl⟩

theorem sorted_lr0Key (I : List Item) : SSorted pairLt (lr0Key I) := by
  unfold lr0Key
  induction I with
  | nil => simp [SSorted]
  | cons it r ih =>
    simp only [List.foldr_cons]
    split
    · exact sorted_sinsert pairLt_order ih
    · exact ih

/-- Two item sets have the same key iff they have the same kernel (production, dot) pairs. -/
theorem lr0Key_eq_iff {I J : List Item} :
    lr0Key I = lr0Key J ↔
      ∀ pd : Nat × Nat, (∃ it ∈ I, isKernel it = true ∧ (it.p, it.d) = pd) ↔
        (∃ it ∈ J, isKernel it = true ∧ (it.p, it.d) = pd) := by
  constructor
  · intro h pd
    rw [← mem_lr0Key, ← mem_lr0Key, h]
  · intro h
    apply sorted_ext pairLt_order (sorted_lr0Key I) (sorted_lr0Key J)
    intro pd
    rw [mem_lr0Key, mem_lr0Key, h pd]

/-! ## `next` -/

theorem mem_next {G : Grammar} {I : List Item} {X : Sym} :
    X ∈ next G I ↔ ∃ it ∈ I, afterDot G it = some X := by
  unfold next
  induction I with
  | nil => simp
  | cons it r ih =>
    simp only [List.foldr_cons]
    cases ha : afterDot G it with
    | none =>
      simp only [ih, List.mem_cons]
      constructor
      · rintro ⟨j, hj, h⟩; exact ⟨j, Or.inr hj, h⟩
      · rintro ⟨j, rfl | hj, h⟩
        · rw [ha] at h; cases h
        · exact ⟨j, hj, h⟩
    | some Y =>
      simp only [mem_sinsert symLt_order, ih, List.mem_cons]
      constructor
      · rintro (rfl | ⟨j, hj, h⟩)
        · exact ⟨it, Or.inl rfl, ha⟩
        · exact ⟨j, Or.inr hj, h⟩
      · rintro ⟨j, rfl | hj, h⟩
        · rw [ha] at h; cases h; exact Or.inl rfl
        · exact Or.inr ⟨j, hj, h⟩

theorem sorted_next (G : Grammar) (I : List Item) : SSorted symLt (next G I) := by
  unfold next
  induction I with
  | nil => simp [SSorted]
  | cons it r ih =>
    simp only [List.foldr_cons]
    cases afterDot G it with
    | none => exact ih
    | some Y => exact sorted_sinsert symLt_order ih

end Lox.LR.Gen
