import Lox.LR.GenModel
import Lox.LR.Complete
/-! FIRST of the generator model (`Lox/LR/GenModel.lean`): specification and proofs.

Specification (read these): `Step`, `Derives` (derivations on sentential forms), `SFirst`, `SNull`
(semantic FIRST / nullability), `TermsBelow`, `Productive`.
Main results: `firstSeq_sound`, `firstSeq_complete` (any table reached by the loop is sound, a table
that a pass leaves unchanged is complete), `iter_converges` (the fuel of `firstSets` suffices),
`firstSets_exact`. Core Lean only. -/
namespace Lox.LR.Gen
open Lox.LR

/-! ## Specification -/

/-- One derivation step on sentential forms: a rule occurrence is replaced by one of its
right-hand sides. -/
inductive Step (G : Grammar) : List Sym → List Sym → Prop where
  | mk {q : Nat} {pr : Prod} (u v : List Sym) : G.prods[q]? = some pr →
      Step G (u ++ .n pr.lhs :: v) (u ++ pr.rhs ++ v)

/-- `α ⇒* β`. -/
inductive Derives (G : Grammar) : List Sym → List Sym → Prop where
  | refl (α : List Sym) : Derives G α α
  | step {α β γ : List Sym} : Step G α β → Derives G β γ → Derives G α γ

/-- Semantic FIRST (the textbook definition): `α ⇒* b β` for some sentential form `β`. -/
def SFirst (G : Grammar) (α : List Sym) (b : Nat) : Prop := ∃ β, Derives G α (.t b :: β)

/-- `α ⇒* ε`. -/
def SNull (G : Grammar) (α : List Sym) : Prop := Derives G α []

/-- Every terminal on a right-hand side is below `nT` (`len(g.Terminals)`). -/
def TermsBelow (G : Grammar) (nT : Nat) : Prop :=
  ∀ pr ∈ G.prods.toList, ∀ a, Sym.t a ∈ pr.rhs → a < nT

/-- The symbol derives some terminal string. -/
def Productive (G : Grammar) (s : Sym) : Prop := ∃ w ts, Der G [s] w ts

/-! ## Derivations -/

theorem Derives.trans {G : Grammar} {α β γ : List Sym} (h1 : Derives G α β) (h2 : Derives G β γ) :
    Derives G α γ := by
  induction h1 with
  | refl => exact h2
  | step hs _ ih => exact .step hs (ih h2)

theorem Step.append_right {G : Grammar} {α β : List Sym} (h : Step G α β) (γ : List Sym) :
    Step G (α ++ γ) (β ++ γ) := by
  cases h with
  | mk u v hq =>
    have := Step.mk (G := G) u (v ++ γ) hq
    simpa [List.append_assoc] using this

theorem Step.append_left {G : Grammar} {α β : List Sym} (h : Step G α β) (γ : List Sym) :
    Step G (γ ++ α) (γ ++ β) := by
  cases h with
  | mk u v hq =>
    have := Step.mk (G := G) (γ ++ u) v hq
    simpa [List.append_assoc] using this

theorem Derives.append_right {G : Grammar} {α β : List Sym} (h : Derives G α β) (γ : List Sym) :
    Derives G (α ++ γ) (β ++ γ) := by
  induction h with
  | refl => exact .refl _
  | step hs _ ih => exact .step (hs.append_right γ) ih

theorem Derives.append_left {G : Grammar} {α β : List Sym} (h : Derives G α β) (γ : List Sym) :
    Derives G (γ ++ α) (γ ++ β) := by
  induction h with
  | refl => exact .refl _
  | step hs _ ih => exact .step (hs.append_left γ) ih

theorem Derives.of_prod {G : Grammar} {q : Nat} {pr : Prod} (hq : G.prods[q]? = some pr) :
    Derives G [.n pr.lhs] pr.rhs := by
  have := Step.mk (G := G) [] [] hq
  simp at this
  exact .step this (.refl _)

/-- A complete derivation (with trees) is in particular a derivation of the sentential form made
of its terminals. -/
theorem Der.derives {G : Grammar} {α : List Sym} {w : List Nat} {ts : List Tree}
    (h : Der G α w ts) : Derives G α (w.map Sym.t) := by
  induction h with
  | nil => exact .refl _
  | @term a α w ts _ ih =>
    have := ih.append_left [Sym.t a]
    simpa using this
  | @nonterm q pr α w1 w2 ts1 ts2 hq _ _ ih1 ih2 =>
    have h1 : Derives G (Sym.n pr.lhs :: α) (pr.rhs ++ α) := by
      have := (Derives.of_prod hq).append_right α
      simpa using this
    have h2 : Derives G (pr.rhs ++ α) (w1.map Sym.t ++ α) := ih1.append_right α
    have h3 : Derives G (w1.map Sym.t ++ α) (w1.map Sym.t ++ w2.map Sym.t) := ih2.append_left _
    simpa using h1.trans (h2.trans h3)

/-! ## Sets as lists -/

theorem mem_addT {a x : Nat} {l : List Nat} : x ∈ addT a l ↔ x = a ∨ x ∈ l := by
  unfold addT
  split
  · constructor
    · exact Or.inr
    · rintro (rfl | h)
      · assumption
      · exact h
  · simp [or_comm]

theorem mem_union {x : Nat} {l r : List Nat} : x ∈ union l r ↔ x ∈ l ∨ x ∈ r := by
  induction r generalizing l with
  | nil => simp [union]
  | cons a r ih =>
    simp only [union, ih, mem_addT, List.mem_cons]
    constructor
    · rintro ((rfl | h) | h)
      · exact Or.inr (Or.inl rfl)
      · exact Or.inl h
      · exact Or.inr (Or.inr h)
    · rintro (h | rfl | h)
      · exact Or.inl (Or.inr h)
      · exact Or.inl (Or.inl rfl)
      · exact Or.inr h

theorem addT_prefix (a : Nat) (l : List Nat) : ∃ e, addT a l = l ++ e := by
  unfold addT
  split
  · exact ⟨[], by simp⟩
  · exact ⟨[a], rfl⟩

theorem union_prefix (l r : List Nat) : ∃ e, union l r = l ++ e := by
  induction r generalizing l with
  | nil => exact ⟨[], by simp [union]⟩
  | cons a r ih =>
    obtain ⟨e1, h1⟩ := addT_prefix a l
    obtain ⟨e2, h2⟩ := ih (addT a l)
    exact ⟨e1 ++ e2, by rw [union, h2, h1, List.append_assoc]⟩

theorem length_le_union (l r : List Nat) : l.length ≤ (union l r).length := by
  obtain ⟨e, h⟩ := union_prefix l r
  simp [h]

theorem length_lt_union {l r : List Nat} (h : union l r ≠ l) : l.length < (union l r).length := by
  obtain ⟨e, he⟩ := union_prefix l r
  rw [he] at h ⊢
  cases e with
  | nil => simp at h
  | cons => simp

theorem nodup_addT {a : Nat} {l : List Nat} (h : l.Nodup) : (addT a l).Nodup := by
  unfold addT
  split
  · exact h
  · rename_i hn
    rw [List.nodup_append]
    refine ⟨h, by simp, ?_⟩
    intro x hx y hy
    simp at hy
    subst hy
    intro hxy
    exact hn (hxy ▸ hx)

theorem nodup_union {l r : List Nat} (h : l.Nodup) : (union l r).Nodup := by
  induction r generalizing l with
  | nil => simpa [union] using h
  | cons a r ih => exact ih (nodup_addT h)

/-! ## `firstSeq` -/

theorem firstSeq_nil (F : Tab) : firstSeq F [] = ([], true) := rfl

theorem mem_firstSeq_cons {F : Tab} {s : Sym} {r : List Sym} {x : Nat} :
    x ∈ (firstSeq F (s :: r)).1 ↔
      x ∈ (firstSym F s).1 ∨ ((firstSym F s).2 = true ∧ x ∈ (firstSeq F r).1) := by
  simp only [firstSeq]
  split
  · rename_i h
    simp [mem_union, h]
  · rename_i h
    simp [h]

theorem eps_firstSeq_cons {F : Tab} {s : Sym} {r : List Sym} :
    (firstSeq F (s :: r)).2 = ((firstSym F s).2 && (firstSeq F r).2) := by
  simp only [firstSeq]
  split
  · rename_i h
    simp [h]
  · rename_i h
    simp [h]

theorem mem_firstSeq_append {F : Tab} {u v : List Sym} {x : Nat} :
    x ∈ (firstSeq F (u ++ v)).1 ↔
      x ∈ (firstSeq F u).1 ∨ ((firstSeq F u).2 = true ∧ x ∈ (firstSeq F v).1) := by
  induction u with
  | nil => simp [firstSeq_nil]
  | cons s r ih =>
    simp only [List.cons_append, mem_firstSeq_cons, eps_firstSeq_cons, ih, Bool.and_eq_true]
    constructor
    · rintro (h | ⟨h1, h2 | ⟨h2, h3⟩⟩)
      · exact Or.inl (Or.inl h)
      · exact Or.inl (Or.inr ⟨h1, h2⟩)
      · exact Or.inr ⟨⟨h1, h2⟩, h3⟩
    · rintro ((h | ⟨h1, h2⟩) | ⟨⟨h1, h2⟩, h3⟩)
      · exact Or.inl h
      · exact Or.inr ⟨h1, Or.inl h2⟩
      · exact Or.inr ⟨h1, Or.inr ⟨h2, h3⟩⟩

theorem eps_firstSeq_append {F : Tab} {u v : List Sym} :
    (firstSeq F (u ++ v)).2 = ((firstSeq F u).2 && (firstSeq F v).2) := by
  induction u with
  | nil => simp [firstSeq_nil]
  | cons s r ih => simp [eps_firstSeq_cons, ih, Bool.and_assoc]

theorem firstSeq_single_n (F : Tab) (B : Nat) :
    (∀ x, x ∈ (firstSeq F [.n B]).1 ↔ x ∈ (tget F B).1) ∧ (firstSeq F [.n B]).2 = (tget F B).2 := by
  constructor
  · intro x
    simp [mem_firstSeq_cons, firstSym, firstSeq_nil]
  · simp [eps_firstSeq_cons, firstSym, firstSeq_nil]

/-! ## Soundness: every fact in a table reached by the loop has a derivation

The argument is generic in what "has a derivation" means (`Sem`), so that it serves both the
sentential-form reading (`SFirst`, no side condition) and the reading through complete
derivations `Der` (side condition: the symbols to the right are productive). -/

structure Sem (G : Grammar) where
  first : List Sym → Nat → Prop
  null : List Sym → Prop
  ok : List Sym → Prop
  ok_tail : ∀ {s : Sym} {r : List Sym}, ok (s :: r) → ok r
  ok_prod : ∀ {q : Nat} {pr : Prod}, G.prods[q]? = some pr → ok pr.rhs
  first_t : ∀ a : Nat, first [.t a] a
  first_head : ∀ {s : Sym} {r : List Sym} {x : Nat}, first [s] x → ok r → first (s :: r) x
  first_skip : ∀ {s : Sym} {r : List Sym} {x : Nat}, null [s] → first r x → first (s :: r) x
  null_nil : null []
  null_cons : ∀ {s : Sym} {r : List Sym}, null [s] → null r → null (s :: r)
  first_prod : ∀ {q : Nat} {pr : Prod} {x : Nat}, G.prods[q]? = some pr → first pr.rhs x →
    first [.n pr.lhs] x
  null_prod : ∀ {q : Nat} {pr : Prod}, G.prods[q]? = some pr → null pr.rhs → null [.n pr.lhs]

/-- Every entry of the table is justified. -/
def SoundTab {G : Grammar} (S : Sem G) (F : Tab) : Prop :=
  ∀ B, (∀ x ∈ (tget F B).1, S.first [.n B] x) ∧ ((tget F B).2 = true → S.null [.n B])

theorem firstSym_sound {G : Grammar} {S : Sem G} {F : Tab} (hF : SoundTab S F) (s : Sym) :
    (∀ x ∈ (firstSym F s).1, S.first [s] x) ∧ ((firstSym F s).2 = true → S.null [s]) := by
  cases s with
  | t a =>
    constructor
    · intro x hx
      have hxa : x = a := by simpa [firstSym] using hx
      rw [hxa]
      exact S.first_t a
    · simp [firstSym]
  | n B => exact hF B

theorem firstSeq_sound {G : Grammar} {S : Sem G} {F : Tab} (hF : SoundTab S F) :
    ∀ α, S.ok α → (∀ x ∈ (firstSeq F α).1, S.first α x) ∧ ((firstSeq F α).2 = true → S.null α) := by
  intro α
  induction α with
  | nil => intro _; exact ⟨by simp [firstSeq_nil], fun _ => S.null_nil⟩
  | cons s r ih =>
    intro hok
    have ihr := ih (S.ok_tail hok)
    have hs := firstSym_sound hF s
    constructor
    · intro x hx
      rcases mem_firstSeq_cons.mp hx with h | ⟨h1, h2⟩
      · exact S.first_head (hs.1 x h) (S.ok_tail hok)
      · exact S.first_skip (hs.2 h1) (ihr.1 x h2)
    · intro he
      rw [eps_firstSeq_cons, Bool.and_eq_true] at he
      exact S.null_cons (hs.2 he.1) (ihr.2 he.2)

theorem tget_setIfInBounds (F : Tab) (i : Nat) (v : Entry) (B : Nat) (hi : i < F.size) :
    tget (F.setIfInBounds i v) B = if i = B then v else tget F B := by
  unfold tget
  rw [Array.getElem?_setIfInBounds]
  split
  · simp
  · rfl

theorem tget_of_lt {F : Tab} {i : Nat} (hi : i < F.size) : tget F i = F[i] := by
  simp [tget, hi]

theorem stepProd_sound {G : Grammar} {S : Sem G} {F : Tab} (hF : SoundTab S F) {q : Nat}
    {pr : Prod} (hq : G.prods[q]? = some pr) : SoundTab S (stepProd F pr).1 := by
  unfold stepProd
  split
  · rename_i hlt
    intro B
    simp only
    rw [tget_setIfInBounds _ _ _ _ hlt]
    split
    · rename_i hB
      subst hB
      have hseq := firstSeq_sound hF pr.rhs (S.ok_prod hq)
      constructor
      · intro x hx
        rcases mem_union.mp hx with h | h
        · exact (hF pr.lhs).1 x h
        · exact S.first_prod hq (hseq.1 x h)
      · intro he
        simp only [Bool.or_eq_true] at he
        rcases he with h | h
        · exact (hF pr.lhs).2 h
        · exact S.null_prod hq (hseq.2 h)
    · exact hF B
  · exact hF

theorem mem_prods_iff {G : Grammar} {pr : Prod} :
    pr ∈ G.prods.toList ↔ ∃ q : Nat, G.prods[q]? = some pr := by
  rw [List.mem_iff_getElem?]
  simp

theorem foldl_round_sound {G : Grammar} {S : Sem G} (L : List Prod)
    (hL : ∀ pr ∈ L, ∃ q : Nat, G.prods[q]? = some pr) (st : Tab × Bool) (hF : SoundTab S st.1) :
    SoundTab S (L.foldl (fun st pr => ((stepProd st.1 pr).1, st.2 || (stepProd st.1 pr).2)) st).1 := by
  induction L generalizing st with
  | nil => exact hF
  | cons pr L ih =>
    simp only [List.foldl_cons]
    obtain ⟨q, hq⟩ := hL pr (by simp)
    exact ih (fun p hp => hL p (by simp [hp])) _ (stepProd_sound hF hq)

theorem round_sound {G : Grammar} {S : Sem G} {F : Tab} (hF : SoundTab S F) :
    SoundTab S (round G F).1 :=
  foldl_round_sound _ (fun _ hp => mem_prods_iff.mp hp) _ hF

theorem iter_sound {G : Grammar} {S : Sem G} (n : Nat) {F : Tab} (hF : SoundTab S F) :
    SoundTab S (iter G n F).1 := by
  induction n generalizing F with
  | zero => exact hF
  | succ n ih =>
    simp only [iter]
    split
    · exact ih (round_sound hF)
    · exact round_sound hF

theorem tget_firstInit (G : Grammar) (B : Nat) : tget (firstInit G) B = ([], false) := by
  unfold tget firstInit
  rw [Array.getElem?_replicate]
  split <;> rfl

theorem firstInit_sound {G : Grammar} (S : Sem G) : SoundTab S (firstInit G) := by
  intro B
  simp [tget_firstInit]

theorem firstSets_sound {G : Grammar} (S : Sem G) (nT : Nat) : SoundTab S (firstSets G nT) :=
  iter_sound _ (firstInit_sound S)

/-- The sentential-form reading: no side condition. -/
def semS (G : Grammar) : Sem G where
  first := SFirst G
  null := SNull G
  ok := fun _ => True
  ok_tail := fun _ => trivial
  ok_prod := fun _ => trivial
  first_t := fun a => ⟨[], .refl _⟩
  first_head := by
    rintro s r x ⟨β, h⟩ -
    exact ⟨β ++ r, by simpa using h.append_right r⟩
  first_skip := by
    rintro s r x hn ⟨β, h⟩
    have h1 : Derives G (s :: r) r := by simpa using Derives.append_right hn r
    exact ⟨β, h1.trans h⟩
  null_nil := .refl _
  null_cons := by
    intro s r hs hr
    have h1 : Derives G (s :: r) r := by simpa using Derives.append_right hs r
    exact h1.trans hr
  first_prod := by
    rintro q pr x hq ⟨β, h⟩
    exact ⟨β, (Derives.of_prod hq).trans h⟩
  null_prod := by
    intro q pr hq h
    exact (Derives.of_prod hq).trans h

theorem productive_list {G : Grammar} {r : List Sym} (h : ∀ s ∈ r, Productive G s) :
    ∃ w ts, Der G r w ts := by
  induction r with
  | nil => exact ⟨[], [], .nil⟩
  | cons s r ih =>
    obtain ⟨w1, t1, h1⟩ := h s (by simp)
    obtain ⟨w2, t2, h2⟩ := ih (fun x hx => h x (by simp [hx]))
    exact ⟨w1 ++ w2, t1 ++ t2, by simpa using h1.append h2⟩

/-- The reading through complete derivations `Der`; needs every symbol of every right-hand side
to be productive (otherwise a sentential form `b β` with an unproductive `β` never becomes a
terminal string). -/
def semD (G : Grammar) (hp : ∀ pr ∈ G.prods.toList, ∀ s ∈ pr.rhs, Productive G s) : Sem G where
  first := fun α b => ∃ w ts, Der G α (b :: w) ts
  null := fun α => ∃ ts, Der G α [] ts
  ok := fun α => ∀ s ∈ α, Productive G s
  ok_tail := fun h x hx => h x (by simp [hx])
  ok_prod := fun hq => hp _ (mem_prods_iff.mpr ⟨_, hq⟩)
  first_t := fun a => ⟨[], [.leaf a], .term .nil⟩
  first_head := by
    rintro s r x ⟨w, ts, h⟩ hr
    obtain ⟨w2, t2, h2⟩ := productive_list hr
    exact ⟨w ++ w2, ts ++ t2, by simpa using h.append h2⟩
  first_skip := by
    rintro s r x ⟨t1, h1⟩ ⟨w, t2, h2⟩
    exact ⟨w, t1 ++ t2, by simpa using h1.append h2⟩
  null_nil := ⟨[], .nil⟩
  null_cons := by
    rintro s r ⟨t1, h1⟩ ⟨t2, h2⟩
    exact ⟨t1 ++ t2, by simpa using h1.append h2⟩
  first_prod := by
    rintro q pr x hq ⟨w, ts, h⟩
    exact ⟨w, [.node q ts], by simpa using Der.nonterm hq h .nil⟩
  null_prod := by
    rintro q pr hq ⟨ts, h⟩
    exact ⟨[.node q ts], by simpa using Der.nonterm hq h .nil⟩

/-! ## Completeness: a table that a pass leaves unchanged contains every derivable fact -/

/-- The table satisfies the FIRST inequations of every production. -/
def Closed (G : Grammar) (F : Tab) : Prop :=
  ∀ pr ∈ G.prods.toList, (∀ x ∈ (firstSeq F pr.rhs).1, x ∈ (tget F pr.lhs).1) ∧
    ((firstSeq F pr.rhs).2 = true → (tget F pr.lhs).2 = true)

theorem step_mono {G : Grammar} {F : Tab} (hc : Closed G F) {α β : List Sym} (h : Step G α β) :
    (∀ x ∈ (firstSeq F β).1, x ∈ (firstSeq F α).1) ∧
      ((firstSeq F β).2 = true → (firstSeq F α).2 = true) := by
  cases h with
  | @mk q pr u v hq =>
    have hpr := hc pr (mem_prods_iff.mpr ⟨q, hq⟩)
    have hn := firstSeq_single_n F pr.lhs
    have hcons : Sym.n pr.lhs :: v = [Sym.n pr.lhs] ++ v := rfl
    constructor
    · intro x hx
      rw [List.append_assoc, mem_firstSeq_append, mem_firstSeq_append] at hx
      rw [mem_firstSeq_append, hcons, mem_firstSeq_append, hn.2]
      rcases hx with h | ⟨h1, h2 | ⟨h2, h3⟩⟩
      · exact Or.inl h
      · exact Or.inr ⟨h1, Or.inl ((hn.1 x).mpr (hpr.1 x h2))⟩
      · exact Or.inr ⟨h1, Or.inr ⟨hpr.2 h2, h3⟩⟩
    · intro he
      rw [List.append_assoc, eps_firstSeq_append, eps_firstSeq_append, Bool.and_eq_true,
        Bool.and_eq_true] at he
      rw [eps_firstSeq_append, hcons, eps_firstSeq_append, hn.2, Bool.and_eq_true,
        Bool.and_eq_true]
      exact ⟨he.1, hpr.2 he.2.1, he.2.2⟩

theorem derives_mono {G : Grammar} {F : Tab} (hc : Closed G F) {α β : List Sym}
    (h : Derives G α β) :
    (∀ x ∈ (firstSeq F β).1, x ∈ (firstSeq F α).1) ∧
      ((firstSeq F β).2 = true → (firstSeq F α).2 = true) := by
  induction h with
  | refl => exact ⟨fun _ h => h, fun h => h⟩
  | step hs _ ih =>
    have h1 := step_mono hc hs
    exact ⟨fun x hx => h1.1 x (ih.1 x hx), fun he => h1.2 (ih.2 he)⟩

theorem firstSeq_complete {G : Grammar} {F : Tab} (hc : Closed G F) (α : List Sym) :
    (∀ b, SFirst G α b → b ∈ (firstSeq F α).1) ∧ (SNull G α → (firstSeq F α).2 = true) := by
  constructor
  · rintro b ⟨β, h⟩
    exact (derives_mono hc h).1 b (by simp [mem_firstSeq_cons, firstSym])
  · intro h
    exact (derives_mono hc h).2 rfl

/-! ## The loop: a pass without change means closed; the fuel suffices -/

theorem lt_numRules {G : Grammar} {pr : Prod} (h : pr ∈ G.prods.toList) : pr.lhs < numRules G := by
  unfold numRules
  have key : ∀ (L : List Prod) (m : Nat), (m ≤ L.foldl (fun m pr => max m (pr.lhs + 1)) m) ∧
      (pr ∈ L → pr.lhs < L.foldl (fun m pr => max m (pr.lhs + 1)) m) := by
    intro L
    induction L with
    | nil => intro m; simp
    | cons p L ih =>
      intro m
      simp only [List.foldl_cons, List.mem_cons]
      have h1 := (ih (max m (p.lhs + 1))).1
      refine ⟨by omega, ?_⟩
      rintro (rfl | hp)
      · omega
      · exact (ih _).2 hp
  exact (key _ 0).2 h

theorem size_stepProd (F : Tab) (pr : Prod) : (stepProd F pr).1.size = F.size := by
  unfold stepProd
  split <;> simp

theorem setIfInBounds_self (F : Tab) (i : Nat) (hi : i < F.size) :
    F.setIfInBounds i (tget F i) = F := by
  apply Array.ext_getElem?
  intro j
  rw [Array.getElem?_setIfInBounds]
  split
  · rename_i h
    subst h
    simp [tget, hi]
  · rfl

theorem stepProd_unchanged {F : Tab} {pr : Prod} (h : (stepProd F pr).2 = false) :
    (stepProd F pr).1 = F := by
  unfold stepProd at h ⊢
  split
  · rename_i hlt
    simp only [hlt, if_true] at h
    have heq : (union (tget F pr.lhs).1 (firstSeq F pr.rhs).1,
        (tget F pr.lhs).2 || (firstSeq F pr.rhs).2) = tget F pr.lhs := by
      simpa using h
    simp only [heq]
    exact setIfInBounds_self F pr.lhs hlt
  · rfl

theorem stepProd_closed_at {F : Tab} {pr : Prod} (hlt : pr.lhs < F.size)
    (h : (stepProd F pr).2 = false) :
    (∀ x ∈ (firstSeq F pr.rhs).1, x ∈ (tget F pr.lhs).1) ∧
      ((firstSeq F pr.rhs).2 = true → (tget F pr.lhs).2 = true) := by
  unfold stepProd at h
  simp only [hlt, if_true] at h
  have heq : (union (tget F pr.lhs).1 (firstSeq F pr.rhs).1,
      (tget F pr.lhs).2 || (firstSeq F pr.rhs).2) = tget F pr.lhs := by
    simpa using h
  have h1 := congrArg Prod.fst heq
  have h2 := congrArg Prod.snd heq
  simp only at h1 h2
  constructor
  · intro x hx
    rw [← h1]
    exact mem_union.mpr (Or.inr hx)
  · intro he
    rw [← h2, he]
    simp

theorem foldl_round_unchanged (L : List Prod) (F : Tab) (ch : Bool)
    (h : (L.foldl (fun st pr => ((stepProd st.1 pr).1, st.2 || (stepProd st.1 pr).2)) (F, ch)).2 = false) :
    ch = false ∧ (L.foldl (fun st pr => ((stepProd st.1 pr).1, st.2 || (stepProd st.1 pr).2)) (F, ch)).1 = F ∧
      ∀ pr ∈ L, (stepProd F pr).2 = false := by
  induction L generalizing F ch with
  | nil => exact ⟨h, rfl, by simp⟩
  | cons p L ih =>
    simp only [List.foldl_cons] at h ⊢
    obtain ⟨h1, h2, h3⟩ := ih _ _ h
    simp only [Bool.or_eq_false_iff] at h1
    have hF := stepProd_unchanged h1.2
    rw [hF] at h3
    refine ⟨h1.1, h2.trans hF, ?_⟩
    intro pr hpr
    rcases List.mem_cons.mp hpr with rfl | hpr
    · exact h1.2
    · exact h3 pr hpr

theorem round_unchanged {G : Grammar} {F : Tab} (h : (round G F).2 = false) :
    (round G F).1 = F := (foldl_round_unchanged _ F false h).2.1

theorem round_closed {G : Grammar} {F : Tab} (hs : F.size = numRules G)
    (h : (round G F).2 = false) : Closed G F := by
  intro pr hpr
  have := (foldl_round_unchanged _ F false h).2.2 pr hpr
  exact stepProd_closed_at (by rw [hs]; exact lt_numRules hpr) this

theorem size_round (G : Grammar) (F : Tab) : (round G F).1.size = F.size := by
  unfold round
  have key : ∀ (L : List Prod) (st : Tab × Bool),
      (L.foldl (fun st pr => ((stepProd st.1 pr).1, st.2 || (stepProd st.1 pr).2)) st).1.size = st.1.size := by
    intro L
    induction L with
    | nil => intro st; rfl
    | cons p L ih => intro st; simp only [List.foldl_cons]; rw [ih]; exact size_stepProd _ _
  exact key _ _

theorem size_iter (G : Grammar) (n : Nat) (F : Tab) : (iter G n F).1.size = F.size := by
  induction n generalizing F with
  | zero => rfl
  | succ n ih =>
    simp only [iter]
    split
    · rw [ih, size_round]
    · exact size_round G F

/-- If the loop exited by itself the table it returns is closed. -/
theorem iter_closed {G : Grammar} (n : Nat) {F : Tab} (hs : F.size = numRules G)
    (h : (iter G n F).2 = true) : Closed G (iter G n F).1 := by
  induction n generalizing F with
  | zero => simp [iter] at h
  | succ n ih =>
    simp only [iter] at h ⊢
    split
    · rename_i hch
      rw [if_pos hch] at h
      exact ih (by rw [size_round, hs]) h
    · rename_i hch
      have hch : (round G F).2 = false := by simpa using hch
      rw [round_unchanged hch]
      exact round_closed hs hch

/-! ### The measure -/

def esize (e : Entry) : Nat := e.1.length + (if e.2 then 1 else 0)

def tsize (F : Tab) : Nat := (F.toList.map esize).sum

/-- Entries are duplicate-free lists of terminals below `nT`. -/
def WFTab (nT : Nat) (F : Tab) : Prop := ∀ B, (tget F B).1.Nodup ∧ ∀ x ∈ (tget F B).1, x < nT

theorem esize_le {nT : Nat} {e : Entry} (hn : e.1.Nodup) (hb : ∀ x ∈ e.1, x < nT) :
    esize e ≤ nT + 1 := by
  have : e.1.length ≤ (List.range nT).length :=
    List.Nodup.length_le_of_subset hn (fun x hx => List.mem_range.mpr (hb x hx))
  simp at this
  unfold esize
  split <;> omega

theorem sum_map_le {α : Type} (f : α → Nat) (k : Nat) (l : List α) (h : ∀ x ∈ l, f x ≤ k) :
    (l.map f).sum ≤ l.length * k := by
  induction l with
  | nil => simp
  | cons a l ih =>
    simp only [List.map_cons, List.sum_cons, List.length_cons]
    have h1 := h a (by simp)
    have h2 := ih (fun x hx => h x (by simp [hx]))
    rw [Nat.add_mul]
    omega

theorem tsize_le {nT : Nat} {F : Tab} (hw : WFTab nT F) : tsize F ≤ F.size * (nT + 1) := by
  unfold tsize
  have := sum_map_le esize (nT + 1) F.toList (by
    intro e he
    obtain ⟨i, hi⟩ := List.mem_iff_getElem?.mp he
    rw [Array.getElem?_toList] at hi
    have hB := hw i
    have ht : tget F i = e := by simp [tget, hi]
    rw [ht] at hB
    exact esize_le hB.1 hB.2)
  simpa using this

theorem sum_map_set {α : Type} (f : α → Nat) (l : List α) (i : Nat) (v : α) (hi : i < l.length) :
    ((l.set i v).map f).sum + f l[i] = (l.map f).sum + f v := by
  induction l generalizing i with
  | nil => simp at hi
  | cons a l ih =>
    cases i with
    | zero => simp; omega
    | succ i =>
      simp only [List.set_cons_succ, List.map_cons, List.sum_cons, List.getElem_cons_succ]
      have := ih i (by simpa using hi)
      omega

theorem tsize_set (F : Tab) (i : Nat) (v : Entry) (hi : i < F.size) :
    tsize (F.setIfInBounds i v) + esize (tget F i) = tsize F + esize v := by
  unfold tsize
  rw [Array.toList_setIfInBounds, tget_of_lt hi]
  have := sum_map_set esize F.toList i v (by simpa using hi)
  simpa using this

theorem esize_new (cur e : Entry) :
    esize cur ≤ esize (union cur.1 e.1, cur.2 || e.2) ∧
      ((union cur.1 e.1, cur.2 || e.2) ≠ cur → esize cur < esize (union cur.1 e.1, cur.2 || e.2)) := by
  obtain ⟨l, b⟩ := cur
  have h1 := length_le_union l e.1
  unfold esize
  simp only
  constructor
  · cases b <;> cases e.2 <;> simp <;> omega
  · intro hne
    by_cases hu : union l e.1 = l
    · rw [hu] at hne ⊢
      cases b <;> cases h : e.2 <;> simp [h] at hne ⊢
    · have := length_lt_union hu
      cases b <;> cases e.2 <;> simp <;> omega

theorem tsize_stepProd (F : Tab) (pr : Prod) :
    tsize F ≤ tsize (stepProd F pr).1 ∧
      ((stepProd F pr).2 = true → tsize F < tsize (stepProd F pr).1) := by
  unfold stepProd
  split
  · rename_i hlt
    simp only
    have hset := tsize_set F pr.lhs
      (union (tget F pr.lhs).1 (firstSeq F pr.rhs).1, (tget F pr.lhs).2 || (firstSeq F pr.rhs).2) hlt
    have hn := esize_new (tget F pr.lhs) (firstSeq F pr.rhs)
    constructor
    · omega
    · intro hch
      have : (union (tget F pr.lhs).1 (firstSeq F pr.rhs).1,
          (tget F pr.lhs).2 || (firstSeq F pr.rhs).2) ≠ tget F pr.lhs := by
        simpa using hch
      have := hn.2 this
      omega
  · simp

theorem tsize_foldl (L : List Prod) (st : Tab × Bool) :
    let r := L.foldl (fun st pr => ((stepProd st.1 pr).1, st.2 || (stepProd st.1 pr).2)) st
    tsize st.1 ≤ tsize r.1 ∧ (r.2 = true → st.2 = true ∨ tsize st.1 < tsize r.1) := by
  induction L generalizing st with
  | nil => simp
  | cons p L ih =>
    simp only [List.foldl_cons]
    have h1 := tsize_stepProd st.1 p
    have h2 := ih ((stepProd st.1 p).1, st.2 || (stepProd st.1 p).2)
    simp only at h2
    constructor
    · omega
    · intro hr
      rcases h2.2 hr with h | h
      · simp only [Bool.or_eq_true] at h
        rcases h with h | h
        · exact Or.inl h
        · have := h1.2 h
          right; omega
      · right; omega

theorem tsize_round (G : Grammar) (F : Tab) :
    tsize F ≤ tsize (round G F).1 ∧ ((round G F).2 = true → tsize F < tsize (round G F).1) := by
  have := tsize_foldl G.prods.toList (F, false)
  simp only at this
  refine ⟨this.1, fun h => ?_⟩
  rcases this.2 h with h | h
  · simp at h
  · exact h

/-- Terminals produced by the walk are terminals of the string or of the table. -/
theorem firstSeq_below {nT : Nat} {F : Tab} (hw : WFTab nT F) {α : List Sym}
    (hα : ∀ a, Sym.t a ∈ α → a < nT) : ∀ x ∈ (firstSeq F α).1, x < nT := by
  induction α with
  | nil => simp [firstSeq_nil]
  | cons s r ih =>
    intro x hx
    rcases mem_firstSeq_cons.mp hx with h | ⟨_, h⟩
    · cases s with
      | t a =>
        simp [firstSym] at h
        subst h
        exact hα x (by simp)
      | n B => exact (hw B).2 x h
    · exact ih (fun a ha => hα a (by simp [ha])) x h

theorem stepProd_wf {nT : Nat} {F : Tab} (hw : WFTab nT F) {pr : Prod}
    (hpr : ∀ a, Sym.t a ∈ pr.rhs → a < nT) : WFTab nT (stepProd F pr).1 := by
  unfold stepProd
  split
  · rename_i hlt
    intro B
    simp only
    rw [tget_setIfInBounds _ _ _ _ hlt]
    split
    · simp only
      refine ⟨nodup_union (hw pr.lhs).1, ?_⟩
      intro x hx
      rcases mem_union.mp hx with h | h
      · exact (hw pr.lhs).2 x h
      · exact firstSeq_below hw hpr x h
    · exact hw B
  · exact hw

theorem round_wf {G : Grammar} {nT : Nat} (ht : TermsBelow G nT) {F : Tab} (hw : WFTab nT F) :
    WFTab nT (round G F).1 := by
  unfold round
  have key : ∀ (L : List Prod), (∀ pr ∈ L, pr ∈ G.prods.toList) → ∀ (st : Tab × Bool),
      WFTab nT st.1 →
      WFTab nT (L.foldl (fun st pr => ((stepProd st.1 pr).1, st.2 || (stepProd st.1 pr).2)) st).1 := by
    intro L
    induction L with
    | nil => intro _ st h; exact h
    | cons p L ih =>
      intro hL st h
      simp only [List.foldl_cons]
      exact ih (fun q hq => hL q (by simp [hq])) _ (stepProd_wf h (ht p (hL p (by simp))))
  exact key _ (fun _ h => h) _ hw

theorem firstInit_wf (G : Grammar) (nT : Nat) : WFTab nT (firstInit G) := by
  intro B
  simp [tget_firstInit]

/-- The loop exits by itself when the fuel exceeds the number of facts that can still be added. -/
theorem iter_converges_aux {G : Grammar} {nT : Nat} (ht : TermsBelow G nT) (n : Nat) {F : Tab}
    (hs : F.size = numRules G) (hw : WFTab nT F) (hf : numRules G * (nT + 1) < tsize F + n) :
    (iter G n F).2 = true := by
  induction n generalizing F with
  | zero =>
    have := tsize_le hw
    rw [hs] at this
    omega
  | succ n ih =>
    simp only [iter]
    split
    · rename_i hch
      have := (tsize_round G F).2 hch
      exact ih (by rw [size_round, hs]) (round_wf ht hw) (by omega)
    · rfl

theorem tsize_firstInit (G : Grammar) : tsize (firstInit G) = 0 := by
  unfold tsize firstInit
  simp [esize]

/-- **The fuel of `firstSets` suffices.** -/
theorem iter_converges {G : Grammar} {nT : Nat} (ht : TermsBelow G nT) :
    firstConverged G nT = true := by
  unfold firstConverged firstFuel
  apply iter_converges_aux ht
  · simp [firstInit]
  · exact firstInit_wf G nT
  · rw [tsize_firstInit]; omega

theorem firstSets_closed {G : Grammar} {nT : Nat} (ht : TermsBelow G nT) :
    Closed G (firstSets G nT) :=
  iter_closed _ (by simp [firstInit]) (iter_converges ht)

theorem firstSets_wf {G : Grammar} {nT : Nat} (ht : TermsBelow G nT) : WFTab nT (firstSets G nT) := by
  unfold firstSets
  generalize firstFuel G nT = n
  have key : ∀ (n : Nat) (F : Tab), WFTab nT F → WFTab nT (iter G n F).1 := by
    intro n
    induction n with
    | zero => intro F h; exact h
    | succ n ih =>
      intro F h
      simp only [iter]
      split
      · exact ih _ (round_wf ht h)
      · exact round_wf ht h
  exact key n _ (firstInit_wf G nT)

/-- More fuel does not change a run that exited by itself. -/
theorem iter_mono {G : Grammar} (n m : Nat) (F : Tab) (h : (iter G n F).2 = true) (hm : n ≤ m) :
    iter G m F = iter G n F := by
  induction n generalizing F m with
  | zero => simp [iter] at h
  | succ n ih =>
    cases m with
    | zero => omega
    | succ m =>
      simp only [iter] at h ⊢
      split
      · rename_i hch
        rw [if_pos hch] at h
        exact ih m _ h (by omega)
      · rfl

/-- `termsBelowB` decides `TermsBelow`. -/
theorem termsBelowB_iff {G : Grammar} {nT : Nat} : termsBelowB G nT = true ↔ TermsBelow G nT := by
  unfold termsBelowB TermsBelow
  simp only [List.all_eq_true]
  constructor
  · intro h pr hpr a ha
    have := h pr hpr (.t a) ha
    simpa using this
  · intro h pr hpr s hs
    cases s with
    | t a => simpa using h pr hpr a hs
    | n _ => rfl

theorem termBound_spec (G : Grammar) : TermsBelow G (termBound G) := by
  unfold termBound TermsBelow
  have inner : ∀ (r : List Sym) (m : Nat),
      m ≤ r.foldl (fun m s => match s with | .t a => max m (a + 1) | .n _ => m) m ∧
      ∀ a, Sym.t a ∈ r → a < r.foldl (fun m s => match s with | .t a => max m (a + 1) | .n _ => m) m := by
    intro r
    induction r with
    | nil => intro m; simp
    | cons s r ih =>
      intro m
      cases s with
      | t b =>
        simp only [List.foldl_cons, List.mem_cons]
        have h := ih (max m (b + 1))
        refine ⟨by have := h.1; omega, ?_⟩
        rintro a (ha | ha)
        · cases ha
          have := h.1; omega
        · exact h.2 a ha
      | n B =>
        simp only [List.foldl_cons, List.mem_cons]
        have h := ih m
        refine ⟨h.1, ?_⟩
        rintro a (ha | ha)
        · cases ha
        · exact h.2 a ha
  have outer : ∀ (L : List Prod) (m : Nat),
      m ≤ L.foldl (fun m pr => pr.rhs.foldl (fun m s => match s with | .t a => max m (a + 1) | .n _ => m) m) m ∧
      ∀ pr ∈ L, ∀ a, Sym.t a ∈ pr.rhs →
        a < L.foldl (fun m pr => pr.rhs.foldl (fun m s => match s with | .t a => max m (a + 1) | .n _ => m) m) m := by
    intro L
    induction L with
    | nil => intro m; simp
    | cons p L ih =>
      intro m
      simp only [List.foldl_cons, List.mem_cons]
      have hi := inner p.rhs m
      have h := ih (p.rhs.foldl (fun m s => match s with | .t a => max m (a + 1) | .n _ => m) m)
      refine ⟨by have := h.1; omega, ?_⟩
      rintro pr (rfl | hpr) a ha
      · have := hi.2 a ha
        have := h.1
        omega
      · exact h.2 pr hpr a ha
  exact (outer _ 0).2

/-! ## Exactness of the model's FIRST -/

/-- **The model's FIRST is the semantic FIRST**, for every grammar and every symbol string. -/
theorem firstSets_exact {G : Grammar} {nT : Nat} (ht : TermsBelow G nT) (α : List Sym) :
    (∀ b, b ∈ (firstOfSyms G nT α).1 ↔ SFirst G α b) ∧
      ((firstOfSyms G nT α).2 = true ↔ SNull G α) := by
  have hs := firstSeq_sound (firstSets_sound (semS G) nT) α trivial
  have hc := firstSeq_complete (firstSets_closed ht) α
  exact ⟨fun b => ⟨hs.1 b, hc.1 b⟩, ⟨hs.2, hc.2⟩⟩

/-- FIRST(β a) never contains ε. -/
theorem firstLA_no_eps (F : Tab) (β : List Sym) (a : Nat) :
    (firstSeq F (β ++ [.t a])).2 = false := by
  rw [eps_firstSeq_append]
  simp [eps_firstSeq_cons, firstSym]

theorem mem_firstLA {F : Tab} {β : List Sym} {a x : Nat} :
    x ∈ firstLA F β a ↔ x ∈ (firstSeq F β).1 ∨ ((firstSeq F β).2 = true ∧ x = a) := by
  unfold firstLA
  rw [mem_firstSeq_append]
  simp [mem_firstSeq_cons, firstSym, firstSeq_nil]

end Lox.LR.Gen
