import Lox.LR.LALR
import Lox.Dec.Resolve
/-! Specification of "a (state, lookahead) cell with more than one action left after the documented
precedence rule is applied" (C04), on top of the definition of the LALR(1) automaton
(`Lox/LR/LALR.lean`: `Cand`, `Conflict`). Read this file; nothing here is an algorithm.

The documented rule (docs/markdown/parser_reference.md, "Precedence and Associativity"; property
C04: "Precedence qualifiers settle only shift/reduce conflicts among productions of one rule that
all carry explicit qualifiers"): a cell is settled iff its candidate actions are exactly one shift
and one reduce, every production that contributes to the shift (has an item with the terminal after
the dot in this state) belongs to the rule of the reduced production, all of them carry one and the
same explicit precedence, and the reduced production carries an explicit precedence. -/
namespace Lox.LR
open Lox.Dec (ProdInfo Action)

/-- Production `q` contributes to the shift on `a` in state `s`: some item of `q` in `I s` has the
terminal `a` after its dot. -/
def Contrib (G : Grammar) (I : Nat → Item → Prop) (s a q : Nat) : Prop :=
  ∃ d b pr, I s ⟨q, d, b⟩ ∧ G.prods[q]? = some pr ∧ pr.rhs[d]? = some (.t a)

/-- The documented precedence rule settles the cell `(s, a)`. `info q` = rule, precedence (0 = no
qualifier) and associativity of production `q`. -/
def Settled (G : Grammar) (info : Nat → ProdInfo) (A : Auto) (I : Nat → Item → Prop) (s a : Nat) :
    Prop :=
  ∃ t rp, (∀ act, Cand G A I s a act ↔ (act = .shift t ∨ act = .reduce rp)) ∧
    (∀ q, Contrib G I s a q → (info q).rule = (info rp).rule ∧ 0 < (info q).prec) ∧
    (∀ q q', Contrib G I s a q → Contrib G I s a q' → (info q).prec = (info q').prec) ∧
    0 < (info rp).prec

/-- The cell `(s, a)` has more than one action left after the documented precedence rule: two
different candidate actions, and the rule does not settle them. -/
def Unsettled (G : Grammar) (info : Nat → ProdInfo) (A : Auto) (I : Nat → Item → Prop)
    (s a : Nat) : Prop :=
  Conflict G A I s a ∧ ¬ Settled G info A I s a

/-- The `Act` an `lr1.Action` stands for (a shift action also records its contributing
productions). -/
def actOf : Action → Act
  | .shift t _ => .shift t
  | .reduce p => .reduce p
  | .accept => .accept

/-- `cell` is a listing of the candidate actions of `(s, a)` w.r.t. the item sets `I`: every
candidate exactly once (in any order), the shift action carrying exactly the contributing
productions (in any order, with any multiplicity). This is the shape of the cells `createActions`
builds and `resolveConflicts` / `Lox.Dec.resolveOne` works on. -/
structure CellOf (G : Grammar) (A : Auto) (I : Nat → Item → Prop) (s a : Nat)
    (cell : List Action) : Prop where
  nodup : (cell.map actOf).Nodup
  cand : ∀ act, act ∈ cell.map actOf ↔ Cand G A I s a act
  prods : ∀ t ps, Action.shift t ps ∈ cell → ∀ q, q ∈ ps ↔ Contrib G I s a q

end Lox.LR
