import Lox.LR.CheckSound
import Lox.LR.Terminate
/-! `termB` (Check.lean) establishes `Abs.LocalTerm` for the automaton of validated tables. -/
namespace Lox.LR

theorem Abs.lrun_of_not_reduce {G : Grammar} {A : Auto} {a s : Nat} {L : List Nat} (n : Nat)
    (h : ∀ p, A.action s a ≠ some (.reduce p)) : Abs.lrun G A a (n + 1) (s :: L) = true := by
  unfold Abs.lrun
  split
  · rename_i p hact; exact absurd hact (h p)
  · rfl

section
variable {G : Grammar} {nTerms nRules : Nat} {T : Tables} {cert : Array (List Item)}

theorem mem_keysOfRow (hc : SafeOK G nTerms nRules T cert) {s a : Nat} {act : Act}
    (h : (autoOf T cert).action s a = some act) : a ∈ keysOfRow T.actions s := by
  obtain ⟨hs, v, hf, _⟩ := action_eq h
  obtain ⟨row, hrow, _, _⟩ := (hc.states s hs).arow
  have hm := find_hit_mem hrow hf
  simp only [keysOfRow, hrow, Option.getD_some, List.mem_map]
  exact ⟨_, hm, by simp⟩

theorem mem_targetsOf (hc : SafeOK G nTerms nRules T cert) {q : Nat} {X : Sym} {s : Nat}
    (htr : trans (autoOf T cert) q X = some s) : q < cert.size ∧ s ∈ targetsOf T q := by
  cases X with
  | t x =>
    simp only [trans] at htr
    cases hact : (autoOf T cert).action q x with
    | none => simp [hact] at htr
    | some act =>
      cases act with
      | shift s' =>
        simp only [hact, Option.some.injEq] at htr
        subst htr
        obtain ⟨hs, v, hf, hdec⟩ := action_eq hact
        obtain ⟨row, hrow, _, _⟩ := (hc.states q hs).arow
        have hm := find_hit_mem hrow hf
        obtain ⟨hna, hv, hto⟩ := decodeAct_shift.mp hdec
        refine ⟨hs, ?_⟩
        simp only [targetsOf, hrow, Option.getD_some, List.mem_append, List.mem_filterMap]
        exact Or.inl ⟨_, hm, by simp [hna, hv, hto]⟩
      | reduce p => simp [hact] at htr
      | accept => simp [hact] at htr
  | n B =>
    simp only [trans] at htr
    obtain ⟨hs, v, hf, hto⟩ := goto_eq htr
    obtain ⟨row, hrow, _, _⟩ := (hc.states q hs).grow
    have hm := find_hit_mem hrow hf
    refine ⟨hs, ?_⟩
    simp only [targetsOf, hrow, Option.getD_some, List.mem_append, List.mem_map]
    exact Or.inr ⟨_, hm, hto⟩

theorem termB_spec (hc : SafeOK G nTerms nRules T cert) (h : termB G T cert = true) :
    Abs.LocalTerm G (autoOf T cert) (termFuel G cert) := by
  simp only [termB, Bool.and_eq_true, List.all_eq_true, List.mem_range] at h
  obtain ⟨h0, hq⟩ := h
  have hF : termFuel G cert = (cert.size + G.prods.size + 15) + 1 := rfl
  constructor
  · intro a
    cases hact : (autoOf T cert).action 0 a with
    | none => rw [hF]; exact Abs.lrun_of_not_reduce _ (by simp [hact])
    | some act => exact h0 a (mem_keysOfRow hc hact)
  · intro q X s htr a
    obtain ⟨hqs, hmem⟩ := mem_targetsOf hc htr
    cases hact : (autoOf T cert).action s a with
    | none => rw [hF]; exact Abs.lrun_of_not_reduce _ (by simp [hact])
    | some act => exact hq q hqs s hmem a (mem_keysOfRow hc hact)

/-- **Termination for validated tables**: if `check` and `termB` pass, the table-driven machine
finishes (accepts or fails) on every token sequence. -/
theorem tables_terminate_safe (hc : checkSafe G nTerms nRules T cert = .ok ())
    (ht : termB G T cert = true) (w : List Nat) :
    ∃ n, Abs.run G (autoOf T cert) n (Abs.init w) ≠ .timeout :=
  have hc' := checkSafeB_spec (checkSafe_ok_iff.mp hc)
  Abs.terminates (safe_of_safeOK hc') (termB_spec hc' ht) w

theorem tables_terminate (hc : check G nTerms nRules T cert = .ok ())
    (ht : termB G T cert = true) (w : List Nat) :
    ∃ n, Abs.run G (autoOf T cert) n (Abs.init w) ≠ .timeout :=
  have hc' := (checkB_spec (check_ok_iff.mp hc)).toSafeOK
  Abs.terminates (safe_of_safeOK hc') (termB_spec hc' ht) w

end
end Lox.LR
