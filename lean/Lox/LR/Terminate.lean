import Lox.LR.Sound
/-! Termination of the abstract LR machine.

`Valid ∧ Safe` alone do NOT imply termination (see `Lox/LR/TermCounter.lean`: tables that pass
`check` and loop forever on a non-sentence). The extra, checkable hypothesis is `LocalTerm`: every
reduce-only run on a local stack `[s, q]` (`q → s` an edge) or `[0]` leaves the local stack within
`F` steps (`Abs.lrun`). Then the number of consecutive reductions from a stack of height `h` is at
most `F · h`, and every input is processed in finitely many steps. -/
namespace Lox.LR
namespace Abs

/-- Hypothesis established by `termB` (Check.lean). -/
structure LocalTerm (G : Grammar) (A : Auto) (F : Nat) : Prop where
  init : ∀ a, lrun G A a F [0] = true
  edge : ∀ q X s, trans A q X = some s → ∀ a, lrun G A a F [s, q] = true

/-- The run from `c` finishes (accepts or fails) with some fuel. -/
def Term (G : Grammar) (A : Auto) (c : Config) : Prop := ∃ n, run G A n c ≠ .timeout

theorem Term.of_fail {G A} {c : Config} (h : step G A c = .fail) : Term G A c :=
  ⟨1, by simp [run, h]⟩

theorem Term.of_acc {G A} {c : Config} {t} (h : step G A c = .acc t) : Term G A c :=
  ⟨1, by simp [run, h]⟩

theorem Term.of_cont {G A} {c c' : Config} (h : step G A c = .cont c') (ht : Term G A c') :
    Term G A c := by
  obtain ⟨n, hn⟩ := ht
  exact ⟨n + 1, by simpa [run, h] using hn⟩

/-- Reachable stacks. -/
def Inv (G : Grammar) (A : Auto) (c : Config) : Prop := ∃ syms w, StackInv G A c.stack syms w

theorem Inv.step {G A} (hs : Safe G A) {c c' : Config} (hi : Inv G A c)
    (h : step G A c = .cont c') : Inv G A c' := by
  obtain ⟨syms, w, hinv⟩ := hi
  obtain ⟨syms', u, hinv', _⟩ := step_inv hs h hinv
  exact ⟨syms', _, hinv'⟩

def sts (c : Config) : List Nat := c.stack.map (·.state)

/-- Local simulation: while the local run stays inside `L`, the machine does the same reductions;
when it leaves, either the machine stops reducing or the stack got shorter than `R.length + 2`. -/
theorem lsim {G : Grammar} {A : Auto} (hs : Safe G A) (m : Nat) (R : List Nat)
    (H1 : ∀ c, Inv G A c → c.input.length < m → Term G A c)
    (H2 : R ≠ [] → ∀ c, Inv G A c → c.input.length = m → c.stack.length ≤ R.length + 1 →
      Term G A c) :
    ∀ (n : Nat) (L : List Nat) (c : Config), Inv G A c → c.input.length = m → L ≠ [] →
      sts c = L ++ R → lrun G A (la c.input) n L = true → Term G A c := by
  intro n
  induction n with
  | zero => intro L c _ _ _ _ h; simp [lrun] at h
  | succ n ih =>
    intro L c hi hm hL hsts hl
    obtain ⟨stack, input, lg⟩ := c
    cases L with
    | nil => exact absurd rfl hL
    | cons s L' =>
      cases stack with
      | nil => simp [sts] at hsts
      | cons e st0 =>
        have hes : e.state = s := by
          simp [sts] at hsts; exact hsts.1
        simp only [lrun] at hl
        cases hact : A.action e.state (la input) with
        | none => exact Term.of_fail (by simp [step, hact])
        | some act =>
          cases act with
          | accept => exact Term.of_acc (t := e.val) (by simp [step, hact])
          | shift s2 =>
            have hstep : step G A ⟨e :: st0, input, lg⟩ =
                .cont ⟨⟨s2, .leaf (la input)⟩ :: e :: st0, input.tail, lg⟩ := by
              simp [step, hact]
            refine Term.of_cont hstep (H1 _ (hi.step hs hstep) ?_)
            cases input with
            | nil => exact absurd (by simpa [la] using hact) (hs.noShiftEof e.state s2)
            | cons x xs => simp at hm ⊢; omega
          | reduce p =>
            rw [← hes, hact] at hl
            simp only at hl
            cases hp : G.prods[p]? with
            | none => exact Term.of_fail (by simp [step, hact, hp])
            | some pr =>
              simp only [hp] at hl
              cases hd : (e :: st0).drop pr.rhs.length with
              | nil => exact Term.of_fail (by simp only [step, hact, hp, hd])
              | cons e' rest =>
                cases hgo : A.goto e'.state pr.lhs with
                | none => exact Term.of_fail (by simp only [step, hact, hp, hd, hgo])
                | some s'' =>
                  have hstep : step G A ⟨e :: st0, input, lg⟩ = .cont
                      ⟨⟨s'', .node p (((e :: st0).take pr.rhs.length).map (·.val)).reverse⟩ ::
                        e' :: rest, input,
                        lg ++ [(p, (((e :: st0).take pr.rhs.length).map (·.val)).reverse)]⟩ := by
                    simp only [step, hact, hp, hd, hgo]
                  have hi' := hi.step hs hstep
                  refine Term.of_cont hstep ?_
                  -- the states below the popped entries
                  have hdsts : (e'.state :: rest.map (·.state)) =
                      (e.state :: L').drop pr.rhs.length ++
                        R.drop (pr.rhs.length - (e.state :: L').length) := by
                    have := congrArg (List.map (·.state)) hd
                    rw [List.map_drop] at this
                    simp only [sts] at hsts
                    rw [hsts, List.drop_append, ← hes] at this
                    simpa using this.symm
                  cases hld : (e.state :: L').drop pr.rhs.length with
                  | nil =>
                    -- the local run leaves: the stack got short
                    rw [hld] at hdsts
                    have hklen : (e.state :: L').length ≤ pr.rhs.length := by
                      have := congrArg List.length hld
                      simp at this; simp; omega
                    have hRne : R ≠ [] := by
                      intro h0; rw [h0] at hdsts; simp at hdsts
                    refine H2 hRne _ hi' hm ?_
                    have := congrArg List.length hdsts
                    simp at this ⊢
                    omega
                  | cons s1 r =>
                    rw [hld] at hdsts hl
                    have hklt : pr.rhs.length < (e.state :: L').length := by
                      have := congrArg List.length hld
                      simp at this; simp; omega
                    have h0 : pr.rhs.length - (e.state :: L').length = 0 := by omega
                    rw [h0] at hdsts
                    simp at hdsts
                    have he1 : e'.state = s1 := hdsts.1
                    rw [← he1] at hl
                    simp only [hgo] at hl
                    refine ih (s'' :: e'.state :: r) _ hi' hm (by simp) ?_ hl
                    simp [sts, hdsts.2, he1]

/-- Every reachable configuration is processed in finitely many steps. -/
theorem term_of_inv {G : Grammar} {A : Auto} {F : Nat} (hs : Safe G A) (hl : LocalTerm G A F) :
    ∀ (m : Nat) (c : Config), Inv G A c → c.input.length = m → Term G A c := by
  intro m
  induction m using Nat.strongRecOn with
  | _ m ihm =>
    have H1 : ∀ c, Inv G A c → c.input.length < m → Term G A c :=
      fun c hi hlt => ihm _ hlt c hi rfl
    -- inner induction on the stack height
    have inner : ∀ (h : Nat) (c : Config), Inv G A c → c.input.length = m →
        c.stack.length ≤ h → Term G A c := by
      intro h
      induction h with
      | zero =>
        intro c hi _ hh
        obtain ⟨syms, w, hinv⟩ := hi
        have := hinv.ne_nil
        cases hc : c.stack with
        | nil => exact absurd hc this
        | cons e st => rw [hc] at hh; simp at hh
      | succ h ihh =>
        intro c hi hm hh
        obtain ⟨syms, w, hinv⟩ := hi
        obtain ⟨stack, input, lg⟩ := c
        simp only at hinv hh
        cases hinv with
        | base v0 =>
          exact lsim hs m [] H1 (fun h0 => absurd rfl h0) F [0] _ ⟨_, _, .base v0⟩ hm
            (by simp) (by simp [sts]) (hl.init _)
        | @push e st syms' w' X s' u v hinv' htr hder =>
          refine lsim hs m (st.map (·.state)) H1 ?_ F [s', e.state] _
            ⟨_, _, .push hinv' htr hder⟩ hm (by simp) (by simp [sts])
            (hl.edge _ _ _ htr _)
          intro _ c' hi' hm' hlen
          refine ihh c' hi' hm' ?_
          simp at hlen hh
          omega
    intro c hi hm
    exact inner c.stack.length c hi hm (Nat.le_refl _)

/-- **Termination**: under `Safe` and the local-run condition, the machine finishes on every input. -/
theorem terminates {G : Grammar} {A : Auto} {F : Nat} (hs : Safe G A) (hl : LocalTerm G A F)
    (w : List Nat) : ∃ n, run G A n (init w) ≠ .timeout :=
  term_of_inv hs hl w.length (init w) ⟨_, _, .base (.leaf 0)⟩ rfl

end Abs
end Lox.LR
