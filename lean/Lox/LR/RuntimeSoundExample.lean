import Lox.LR.CheckSound
import Lox.LR.RuntimeExample
import Lox.LR.RuntimeDefs
/-! Grammar and item-set certificate for the tables of `Lox/LR/RuntimeExample.lean`
(`@start S = stmt*; stmt = A B? SEMI | @error SEMI`; ERROR is the ordinary terminal 1 of `G`).
The certificate holds the LR(0) cores of the 12 states (computed from the grammar along the
transitions of the emitted tables; the lookahead component is irrelevant for `checkSafe`). -/
namespace Lox.LR.Rt.Example

def G : Grammar := ⟨#[⟨0, [.n 1]⟩, ⟨1, [.n 3]⟩, ⟨2, [.t 2, .n 5, .t 5]⟩, ⟨2, [.t 1, .t 5]⟩,
  ⟨3, [.n 4]⟩, ⟨3, []⟩, ⟨4, [.n 4, .n 2]⟩, ⟨4, [.n 2]⟩, ⟨5, [.t 3]⟩, ⟨5, []⟩]⟩

def cert : Array (List Item) :=
 #[[⟨0,0,0⟩, ⟨1,0,0⟩, ⟨2,0,0⟩, ⟨3,0,0⟩, ⟨4,0,0⟩, ⟨5,0,0⟩, ⟨6,0,0⟩, ⟨7,0,0⟩],
   [⟨2,1,0⟩, ⟨8,0,0⟩, ⟨9,0,0⟩],
   [⟨3,1,0⟩],
   [⟨0,1,0⟩],
   [⟨7,1,0⟩],
   [⟨1,1,0⟩],
   [⟨2,0,0⟩, ⟨3,0,0⟩, ⟨4,1,0⟩, ⟨6,1,0⟩],
   [⟨8,1,0⟩],
   [⟨2,2,0⟩],
   [⟨3,2,0⟩],
   [⟨6,2,0⟩],
   [⟨2,3,0⟩]]

theorem checkSafe_ok : checkSafe G 6 6 T cert = .ok () := checkSafe_ok_iff.mpr (by decide)

/-- The LALR(1) item sets (canonical LR(1) sets merged by core, laid out along the emitted tables):
the certificate for the full validator `check`. -/
def certL : Array (List Item) :=
 #[[⟨0,0,0⟩, ⟨1,0,0⟩, ⟨2,0,0⟩, ⟨2,0,1⟩, ⟨2,0,2⟩, ⟨3,0,0⟩, ⟨3,0,1⟩, ⟨3,0,2⟩, ⟨4,0,0⟩, ⟨5,0,0⟩,
    ⟨6,0,0⟩, ⟨6,0,1⟩, ⟨6,0,2⟩, ⟨7,0,0⟩, ⟨7,0,1⟩, ⟨7,0,2⟩],
   [⟨2,1,0⟩, ⟨2,1,1⟩, ⟨2,1,2⟩, ⟨8,0,5⟩, ⟨9,0,5⟩],
   [⟨3,1,0⟩, ⟨3,1,1⟩, ⟨3,1,2⟩],
   [⟨0,1,0⟩],
   [⟨7,1,0⟩, ⟨7,1,1⟩, ⟨7,1,2⟩],
   [⟨1,1,0⟩],
   [⟨2,0,0⟩, ⟨2,0,1⟩, ⟨2,0,2⟩, ⟨3,0,0⟩, ⟨3,0,1⟩, ⟨3,0,2⟩, ⟨4,1,0⟩, ⟨6,1,0⟩, ⟨6,1,1⟩, ⟨6,1,2⟩],
   [⟨8,1,5⟩],
   [⟨2,2,0⟩, ⟨2,2,1⟩, ⟨2,2,2⟩],
   [⟨3,2,0⟩, ⟨3,2,1⟩, ⟨3,2,2⟩],
   [⟨6,2,0⟩, ⟨6,2,1⟩, ⟨6,2,2⟩],
   [⟨2,3,0⟩, ⟨2,3,1⟩, ⟨2,3,2⟩]]

theorem check_ok : check G 6 6 T certL = .ok () := check_ok_iff.mpr (by decide +kernel)

theorem termB_okL : termB G T certL = true := by decide +kernel

theorem recoveryOKL : recoveryOKB T certL.size = true := by decide +kernel

theorem termB_ok : termB G T cert = true := by decide +kernel

theorem recoveryOK : recoveryOKB T cert.size = true := by decide +kernel

end Lox.LR.Rt.Example
