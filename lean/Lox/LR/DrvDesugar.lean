import Lox.Drv.Common
import Lox.LR.Desugar
/-! Driver op of the desugaring model (family `desugar`, harness/drv/ops_desugar.go).

`lr.desugar <token names> | <rule> ; <rule> ; …`
  rule = `<name> = <prod> / <prod> / …` (the first rule is `@start`; an empty prod is `@empty`),
  prod = terms separated by blanks,
  term = atom | `?`atom | `*`atom | `!`atom (x*!) | `+`atom | `L`atom`,`atom | `M`atom`,`atom (@list?),
  atom = `t<i>` | `r<i>` | `e`.
  answer: `nTerms nRules | <prods> | <kinds> | <rule names>` where prods are separated by ` ; `, each
  `lhs s1 s2 …` (terminal `k` written `k`, rule `A` written `-(A+1)`), exactly as `grammarLine` /
  `prodKinds` of harness/drv/genpkg.go print the real `lr1.Grammar`; or `rejected`
  (`SGrammar.accepted`). -/
namespace Lox.LR
open Lox.Drv

def parseAtomD (s : String) : Option Atom :=
  match s.toList with
  | ['e'] => some .err
  | 't' :: ds => (String.ofList ds).toNat?.map .tok
  | 'r' :: ds => (String.ofList ds).toNat?.map .rule
  | _ => none

def parseTermD (s : String) : Option STerm :=
  match s.toList with
  | '?' :: r => (parseAtomD (String.ofList r)).map .opt
  | '*' :: r => (parseAtomD (String.ofList r)).map .star
  | '!' :: r => (parseAtomD (String.ofList r)).map .starF
  | '+' :: r => (parseAtomD (String.ofList r)).map .plus
  | 'L' :: r =>
    match (String.ofList r).splitOn "," with
    | [a, b] => do some (.list (← parseAtomD a) (← parseAtomD b))
    | _ => none
  | 'M' :: r =>
    match (String.ofList r).splitOn "," with
    | [a, b] => do some (.listOpt (← parseAtomD a) (← parseAtomD b))
    | _ => none
  | _ => (parseAtomD s).map .atom

def parseRuleD (s : String) : Option SRule :=
  match s.splitOn "=" with
  | [name, body] => do
    let prods ← (body.splitOn "/").mapM fun p => ((fields p ' ').mapM parseTermD).map SProd.mk
    some ⟨name.trimAscii.toString, prods⟩
  | _ => none

def parseSGrammar (payload : String) : Option SGrammar :=
  match payload.splitOn "|" with
  | [toks, rules] => do
    let rs ← (rules.splitOn ";").mapM parseRuleD
    some ⟨fields toks ' ', rs⟩
  | _ => none

def showSym : Sym → Int
  | .t a => a
  | .n A => -((A : Int) + 1)

def showProd (p : Prod) : String := showInts ((p.lhs : Int) :: p.rhs.map showSym)

def desugarListing (SG : SGrammar) : String :=
  let (G, kinds, names) := desugar SG
  toString SG.nTerms ++ " " ++ toString SG.nRules ++ " | " ++
    " ; ".intercalate (G.prods.toList.map showProd) ++ " | " ++ showNats kinds.toList ++ " | " ++
    " ".intercalate names.toList

def handleDesugar (op payload : String) : Option String :=
  match op with
  | "lr.desugar" => do
    let SG ← parseSGrammar payload
    if SG.accepted then some (desugarListing SG) else some "rejected"
  | _ => none

end Lox.LR
