import Lox.LR.VerdictE2E
import Lox.LR.JustifySound
/-! The ⊆ half for the tables of the generator model: on a conflict-free run (`Emit.Run`) the
automaton read off the EMITTED arrays (`autoOf T st.cert`: `_Find` on `_actions` / `_goto`) has
exactly the edges `ConstructLALR` recorded (`skelOf st`) – `Run.trans_eq` –, hence everything the
per-artefact validator `justify` (`Lox/LR/Justify.lean`) establishes (`JustifyOK`: every item of
the certificate has a derivation inside the certificate = the lookaheads are exact; every table
entry is called for by an item; distinct kernels) holds for ALL conflict-free grammars without
running it: `Run.justifyOK`. Used by `Lox/Props/C09_e2e.lean` (correct-prefix property). -/
namespace Lox.LR.Emit
open Lox.LR Lox.LR.Gen Lox.LR.Cons Lox.LR.FixFirst
open Lox.Dec (Action ProdInfo)
open Lox.Table

/-- `Justd` only looks at the edges and the items of the automaton. -/
theorem Justd.congr {G : Grammar} {A A' : Auto} (hi : ∀ s, A.items s = A'.items s)
    (ht : ∀ s X, trans A s X = trans A' s X) {s : Nat} {it : Item} (h : Justd G A s it) :
    Justd G A' s it := by
  induction h with
  | start h0 => exact .start (hi 0 ▸ h0)
  | goto _ hp hX htr hmem ih => exact .goto ih hp hX (ht _ _ ▸ htr) (hi _ ▸ hmem)
  | closure _ hp hX hq hl hf hmem ih => exact .closure ih hp hX hq hl hf (hi _ ▸ hmem)

section
variable {G : Grammar} {nT nR : Nat} {ord : List Sym} {st : CState} {T : Tables}

/-- The hypotheses of the end-to-end theorems give a `Run`. -/
theorem run_of_construct (hw : GrammarWf G nT nR) (hO : OrdOK nT nR ord)
    (hst : construct G nT ord = some st) (hT : emitParserP noPrec G nT ord st = some T)
    (hfree : conflictFreeB G nT st = true) (hsmall : st.states.length ≤ 2147483647) :
    Run G nT nR ord st T :=
  { syms := hw.syms, ordOK := hO, noStart := hw.noStart, noEof := hw.noEof,
    p0 := prod0B_spec hw.prod0, built := built_of_wf hw hO hst,
    emitted := emitted_of_emitParserP hT, free := hfree, small := hsmall }

theorem states_of_mem {s : Nat} {it : Item} (h : it ∈ itemsOf st.cert s) :
    ∃ I, st.states[s]? = some I ∧ it ∈ I := by
  rw [itemsOf_cert] at h
  cases hs : st.states[s]? with
  | none => simp [hs] at h
  | some I => exact ⟨I, rfl, by simpa [hs] using h⟩

/-- Every recorded transition is an edge of the automaton of the emitted arrays. -/
theorem Run.trans_of_skel (hr : Run G nT nR ord st T) (hsk : SkelOK G nT nR st.transTab st.cert)
    {s t : Nat} {X : Sym} (h : lookupSym X (st.trans[s]?.getD []) = some t) :
    trans (autoOf T st.cert) s X = some t := by
  obtain ⟨it, hit, pr, hp, hX⟩ := (hsk.edges s X t (by rw [rowOfT_transTab]; exact h)).called
  obtain ⟨I, hs, hitI⟩ := states_of_mem hit
  have hlt : s < st.states.length := (List.getElem?_eq_some_iff.mp hs).1
  have hlt' : s < st.cert.size := by rw [size_cert]; exact hlt
  obtain ⟨_, J, _, hJ, _⟩ := hr.built.back h
  have htlt : t < st.states.length := (List.getElem?_eq_some_iff.mp hJ).1
  cases X with
  | t x =>
    have hc : CandOf G I x .shift := ⟨it, hitI, afterDot_eq.mpr ⟨pr, hp, hX⟩⟩
    obtain ⟨act, hk, hf, hsh⟩ := hr.find_cand hs hc
    obtain ⟨t', ps, rfl⟩ := kindOf_shift_inv hk
    have := hsh t' ps rfl
    rw [h] at this
    cases this
    have hdec : decodeAct (t : Int) = .shift t :=
      decodeAct_shift.mpr ⟨hr.lt_accept htlt, by omega, by simp⟩
    simp only [trans, autoOf, hlt', if_true, hf, actCode, hdec]
  | n B =>
    have hf := hr.find_goto hlt (hr.rule_lt hp hX) h
    simp only [trans, autoOf, hlt', if_true, hf, Int.toNat_natCast]

/-- Every edge of the automaton of the emitted arrays is a recorded transition. -/
theorem Run.skel_of_trans (hr : Run G nT nR ord st T) {s t : Nat} {X : Sym}
    (h : trans (autoOf T st.cert) s X = some t) : lookupSym X (st.trans[s]?.getD []) = some t := by
  cases X with
  | t x =>
    simp only [trans] at h
    cases hact : (autoOf T st.cert).action s x with
    | none => simp [hact] at h
    | some act =>
      cases act with
      | reduce p => simp [hact] at h
      | accept => simp [hact] at h
      | shift t' =>
        simp only [hact, Option.some.injEq] at h
        subst h
        obtain ⟨hs', v, hf, hdec⟩ := action_eq hact
        obtain ⟨hna, hv0, hvt⟩ := decodeAct_shift.mp hdec
        have hlt : s < st.states.length := by rw [size_cert] at hs'; exact hs'
        obtain ⟨I, hs⟩ : ∃ I, st.states[s]? = some I :=
          ⟨_, List.getElem?_eq_some_iff.mpr ⟨hlt, rfl⟩⟩
        obtain ⟨row, hrow, _, hfind⟩ := hr.emitted.arow s hlt
        unfold stateActionRow at hrow
        simp only [hs, Option.getD_some] at hrow
        obtain ⟨_, hmem⟩ := actionRow_spec (hr.stateOK hs) hrow
        rw [hfind, lookResult_hit] at hf
        obtain ⟨a, act, hka, _, hcell, hva⟩ := (hmem _ _).mp (firstMatch_mem hf)
        have hxa : x = a := by exact_mod_cast hka
        subst hxa
        obtain ⟨hcand, hsh⟩ := single_cand (hr.stateOK hs) hcell
        cases act with
        | accept => exact absurd hva hna
        | reduce p =>
          obtain ⟨hp0, _⟩ := hcand
          simp only [actCode] at hva
          omega
        | shift t'' ps =>
          simp only [actCode] at hva
          have : t'' = t' := by omega
          subst this
          rw [← trTerm_eq]
          exact hsh _ _ rfl
  | n B =>
    obtain ⟨hs', v, hf, hvt⟩ := goto_eq (T := T) (cert := st.cert) h
    have hlt : s < st.states.length := by rw [size_cert] at hs'; exact hs'
    obtain ⟨_, hfind⟩ := hr.emitted.grow s hlt
    obtain ⟨_, hmem⟩ := gotoRow_spec hr.ordOK.nodup (st.trans[s]?.getD [])
    rw [hfind, lookResult_hit] at hf
    unfold stateGotoRow at hf
    obtain ⟨B', t', hB, hv, _, hl⟩ := (hmem _ _).mp (firstMatch_mem hf)
    have hBB : B = B' := by exact_mod_cast hB
    subst hBB
    have : t' = t := by omega
    subst this
    exact hl

/-- **The automaton of the emitted arrays has exactly the recorded transitions.** -/
theorem Run.trans_eq (hr : Run G nT nR ord st T) (hsk : SkelOK G nT nR st.transTab st.cert)
    (s : Nat) (X : Sym) : trans (skelOf st) s X = trans (autoOf T st.cert) s X := by
  rw [trans_skelOf]
  cases h1 : lookupSym X (st.trans[s]?.getD []) with
  | some t => exact (hr.trans_of_skel hsk h1).symm
  | none =>
    cases h2 : trans (autoOf T st.cert) s X with
    | none => rfl
    | some t => rw [hr.skel_of_trans h2] at h1; cases h1

/-- **Everything `justify` establishes holds on the output of a conflict-free run.** -/
theorem Run.justifyOK (hr : Run G nT nR ord st T) (hok : ConflictOK G nT nR st.transTab st.cert) :
    JustifyOK G T st.cert := by
  have hteq := hr.trans_eq hok.skel
  have hedges : EdgesBacked G (autoOf T st.cert) := by
    intro s X s' htr
    rw [← hteq] at htr
    exact hok.skel.edgesBacked s X s' htr
  refine ⟨fun s it hit => Justd.congr (A := skelOf st) (A' := autoOf T st.cert) (fun _ => rfl) hteq
      (hok.justd s it hit), ?_,
    fun s B s' hg => hedges s (.n B) s' hg, hok.kernels⟩
  intro s a act hact
  obtain ⟨hs', v, hf, hdec⟩ := action_eq hact
  have hlt : s < st.states.length := by rw [size_cert] at hs'; exact hs'
  obtain ⟨I, hs⟩ : ∃ I, st.states[s]? = some I := ⟨_, List.getElem?_eq_some_iff.mpr ⟨hlt, rfl⟩⟩
  have hI : (autoOf T st.cert).items s = I := by
    show itemsOf st.cert s = I
    rw [itemsOf_cert, hs]; rfl
  obtain ⟨row, hrow, _, hfind⟩ := hr.emitted.arow s hlt
  unfold stateActionRow at hrow
  simp only [hs, Option.getD_some] at hrow
  obtain ⟨_, hmem⟩ := actionRow_spec (hr.stateOK hs) hrow
  rw [hfind, lookResult_hit] at hf
  obtain ⟨a', act', hka, _, hcell, hva⟩ := (hmem _ _).mp (firstMatch_mem hf)
  have haa : a = a' := by exact_mod_cast hka
  subst haa
  subst hva
  obtain ⟨hcand, hsh⟩ := single_cand (hr.stateOK hs) hcell
  cases act' with
  | accept =>
    have : act = .accept := by rw [← hdec]; exact decodeAct_accept.mpr rfl
    subst this
    obtain ⟨pr0, h0, hm⟩ := hcand
    obtain ⟨S', hS⟩ := hr.p0
    rw [hS] at h0
    cases h0
    have ha : a = 0 := hr.built.p0_la hr.noStart hs hm rfl
    subst ha
    exact .accept (by rw [hI]; exact hm) rfl
  | reduce p =>
    obtain ⟨hp0, pr, hpr, hm⟩ := hcand
    have : act = .reduce p := by
      rw [← hdec]
      exact decodeAct_reduce.mpr ⟨by unfold acceptCode; simp only [actCode]; omega,
        by simp only [actCode]; omega, by simp [actCode]⟩
    subst this
    exact .reduce (by rw [hI]; exact hm) hpr hp0
  | shift t ps =>
    obtain ⟨it, hit, had⟩ := hcand
    obtain ⟨pr, hp, hX⟩ := afterDot_eq.mp had
    have htr : lookupSym (.t a) (st.trans[s]?.getD []) = some t := by
      rw [← trTerm_eq]; exact hsh t ps rfl
    obtain ⟨_, J, _, hJ, _⟩ := hr.built.back htr
    have htlt : t < st.states.length := (List.getElem?_eq_some_iff.mp hJ).1
    have : act = .shift t := by
      rw [← hdec]
      exact decodeAct_shift.mpr ⟨hr.lt_accept htlt, by simp only [actCode]; omega, by simp [actCode]⟩
    subst this
    exact .shift (p := it.p) (d := it.d) (b := it.a) (by rw [hI]; exact hit) hp hX
      (hr.trans_of_skel hok.skel htr)

/-- … for the output of `generate` on a conflict-free grammar. -/
theorem justifyOK_of_generate {cert : Array (List Item)} (hw : GrammarWf G nT nR)
    (hO : OrdOK nT nR ord) (hgen : generate G nT ord = some (T, cert))
    (hfree : conflictFree G nT ord = true) (hsmall : cert.size ≤ 2147483647) :
    JustifyOK G T cert := by
  unfold generate generateP at hgen
  unfold conflictFree at hfree
  cases hst : construct G nT ord with
  | none => simp [hst] at hgen
  | some st =>
    simp only [hst] at hgen hfree
    cases hT : emitParserP noPrec G nT ord st with
    | none => simp [hT] at hgen
    | some T' =>
      simp only [hT, Option.some.injEq] at hgen
      obtain ⟨rfl, rfl⟩ := hgen
      exact (run_of_construct hw hO hst hT hfree (by simpa [CState.cert] using hsmall)).justifyOK
        (conflictOK_of_construct hw hO hst)

end

end Lox.LR.Emit
