import Lox.LR.RuntimeDefs
/-! Basic lemmas about the runtime model: `_readToken` in closed form, the lookahead invariant
`LaOK`, `_recover` in two halves, the inversion of one iteration of `parse` (`step_cont`,
`step_done`) and the anatomy of `_recover` (`recover_ok`, `recover_fail`). -/
namespace Lox.LR.Rt

/-! ## `_readToken` -/

theorem readToken_eq (T : Tables) (inp : Array Nat) (s : PState) : readToken T inp s =
    if s.qla ≠ -1 then .ok { s with la := s.qla, lasym := s.qlasym, qla := -1, qlasym := .nil }
    else if (lexRead inp s.pos).2 = tERROR then
      match makeError T (afterLex inp s) with
      | .error w => .error w
      | .ok e => .ok { afterLex inp s with lasym := e }
    else .ok (afterLex inp s) := by
  unfold readToken afterLex
  generalize lexRead inp s.pos = r
  obtain ⟨sym, ty⟩ := r
  dsimp only
  by_cases hq : s.qla ≠ -1
  · rw [if_pos hq, if_pos hq]
  · rw [if_neg hq, if_neg hq]
    by_cases ht : ty = tERROR
    · rw [if_pos ht, if_pos ht]
      simp only [bind, Except.bind]
      split <;> simp_all
    · rw [if_neg ht, if_neg ht]

/-! ## `LaOK` -/

theorem makeError_isLeaf {T : Tables} {s : PState} {v : Val} (h : makeError T s = .ok v) :
    v.isErr = true := by
  unfold makeError at h
  split at h
  · split at h
    · cases h
    · split at h
      · cases h
      · cases h; rfl
  · cases h

theorem isLeaf_of_isErr {v : Val} (h : v.isErr = true) : v.isLeaf = true := by
  cases v <;> simp_all [Val.isErr, Val.isLeaf]

theorem lexRead_isLeaf (inp : Array Nat) (pos : Nat) : (lexRead inp pos).1.isLeaf = true := by
  unfold lexRead; split <;> rfl

/-- `_readToken` establishes the lookahead invariant from its queued half. -/
theorem readToken_LaOK {T : Tables} {inp : Array Nat} {s s' : PState}
    (hq : s.qla ≠ -1 → s.qlasym.isLeaf = true) (h : readToken T inp s = .ok s') : LaOK s' := by
  rw [readToken_eq] at h
  split at h
  · cases h
    exact ⟨hq ‹_›, fun hc => absurd rfl hc⟩
  · rename_i hq'
    have hq'' : s.qla = -1 := Decidable.not_not.mp hq'
    split at h
    · split at h
      · cases h
      · rename_i e he
        cases h
        exact ⟨isLeaf_of_isErr (makeError_isLeaf he), fun hc => absurd hq'' hc⟩
    · cases h
      exact ⟨lexRead_isLeaf inp s.pos, fun hc => absurd hq'' hc⟩

theorem readToken_LaOK' {T : Tables} {inp : Array Nat} {s s' : PState}
    (hs : LaOK s) (h : readToken T inp s = .ok s') : LaOK s' := readToken_LaOK hs.2 h

theorem skipErrors_LaOK {T : Tables} {inp : Array Nat} :
    ∀ (n : Nat) {s s' : PState}, LaOK s → skipErrors T inp n s = .ok (some s') → LaOK s'
  | 0, _, _, _, h => by simp [skipErrors] at h
  | n + 1, s, s', hs, h => by
    unfold skipErrors at h
    split at h
    · simp only [bind, Except.bind] at h
      split at h
      · cases h
      · rename_i s1 h1
        exact skipErrors_LaOK n (readToken_LaOK' hs h1) h
    · cases h; exact hs

theorem recoverLoop_LaOK {T : Tables} {inp : Array Nat} {errSym : Val} {fuel : Nat}
    (he : errSym.isLeaf = true) :
    ∀ (n : Nat) {s s' : PState}, LaOK s → recoverLoop T inp errSym fuel n s = .ok s' → LaOK s'
  | 0, _, _, _, h => by simp [recoverLoop] at h
  | n + 1, s, s', hs, h => by
    unfold recoverLoop at h
    split at h
    · cases h
    · cases h
    · cases h; exact ⟨he, fun _ => hs.1⟩
    · split at h
      · cases h
      · split at h
        · cases h
        · rename_i s1 h1
          exact recoverLoop_LaOK he n (readToken_LaOK' hs h1) h

theorem errSymOf_isErr {T : Tables} {s : PState} {v : Val} (h : errSymOf T s = .ok v) :
    v.isErr = true := by
  unfold errSymOf at h
  split at h
  · cases h; rfl
  · exact makeError_isLeaf h

theorem recover_eq (T : Tables) (inp : Array Nat) (fuel : Nat) (s : PState) :
    recover T inp fuel s =
      match errSymOf T s with
      | .error w => .panic w
      | .ok errSym => recoverBody T inp fuel s errSym := by
  unfold recover errSymOf recoverBody
  rfl

/-- The state handed to the outer loop of `_recover`, after the ERROR skipping and the token drop. -/
theorem recoverBody_ok {T : Tables} {inp : Array Nat} {fuel : Nat} {s s' : PState} {errSym : Val}
    (h : recoverBody T inp fuel s errSym = .ok s') :
    ∃ s1, skipErrors T inp fuel s = .ok (some s1) ∧
      ((s1.recovering = false ∧ recoverLoop T inp errSym fuel fuel s1 = .ok s') ∨
       (s1.recovering = true ∧ s1.la ≠ tEOF ∧ ∃ s2 s3, readToken T inp s1 = .ok s2 ∧
          skipErrors T inp fuel s2 = .ok (some s3) ∧
          recoverLoop T inp errSym fuel fuel s3 = .ok s')) := by
  unfold recoverBody at h
  split at h
  · cases h
  · cases h
  · rename_i s1 h1
    refine ⟨s1, h1, ?_⟩
    cases hr : s1.recovering
    · left
      simp only [hr, Bool.false_eq_true, if_false] at h
      exact ⟨rfl, h⟩
    · right
      simp only [hr, if_true] at h
      by_cases hE : s1.la = tEOF
      · simp only [hE, if_true] at h; cases h
      · simp only [hE, if_false] at h
        refine ⟨rfl, hE, ?_⟩
        cases h2 : readToken T inp s1 with
        | error w => simp only [h2] at h; cases h
        | ok s2 =>
          simp only [h2] at h
          cases h3 : skipErrors T inp fuel s2 with
          | error w => simp only [h3] at h; cases h
          | ok o =>
            cases o with
            | none => simp only [h3] at h; cases h
            | some s3 =>
              simp only [h3] at h
              exact ⟨s2, s3, rfl, h3, h⟩

/-- `_recover` preserves the lookahead invariant. -/
theorem recover_LaOK {T : Tables} {inp : Array Nat} {fuel : Nat} {s s' : PState}
    (hs : LaOK s) (h : recover T inp fuel s = .ok s') : LaOK s' := by
  rw [recover_eq] at h
  split at h
  · cases h
  · rename_i errSym he
    have hle := isLeaf_of_isErr (errSymOf_isErr he)
    obtain ⟨s1, h1, h2⟩ := recoverBody_ok h
    have hs1 := skipErrors_LaOK fuel hs h1
    rcases h2 with ⟨_, h2⟩ | ⟨_, _, s2, s3, h2, h3, h4⟩
    · exact recoverLoop_LaOK hle fuel hs1 h2
    · exact recoverLoop_LaOK hle fuel (skipErrors_LaOK fuel (readToken_LaOK' hs1 h2) h3) h4

/-! ## Inversion of `step` -/

theorem step_cont {T : Tables} {inp : Array Nat} {wb : Bool} {fuel : Nat} {s s' : PState}
    (h : step T inp wb fuel s = .cont s') : Step T inp wb fuel s s' := by
  unfold step at h
  cases htop : topState s.stack with
  | none => simp only [htop] at h; cases h
  | some top =>
    simp only [htop] at h
    cases hf : find T.actions top s.la with
    | oob => simp only [hf] at h; cases h
    | miss =>
      simp only [hf] at h
      cases hr : recover T inp fuel s with
      | ok s1 => simp only [hr] at h; cases h; exact .recover htop hf hr
      | fail s1 => simp only [hr] at h; cases h
      | panic w => simp only [hr] at h; cases h
      | timeout => simp only [hr] at h; cases h
    | hit action =>
      simp only [hf] at h
      by_cases hacc : action = acceptCode
      · simp only [hacc, if_true] at h; cases h
      · simp only [hacc, if_false] at h
        by_cases hsh : action ≥ 0
        · simp only [hsh, if_true] at h
          cases hti : (if wb = true then symTokIdx s.lasym else some 0) with
          | none => simp only [hti] at h; cases h
          | some ti =>
            simp only [hti] at h
            cases hr : readToken T inp (shiftState s action ti) with
            | error w => simp only [shiftState] at hr; simp only [hr] at h; cases h
            | ok s2 =>
              have hr' := hr
              simp only [shiftState] at hr; simp only [hr] at h; cases h
              exact .shift htop hf hacc hsh hti hr'
        · simp only [hsh, if_false] at h
          cases htc : geti T.termCounts (-action) with
          | none => simp only [htc] at h; cases h
          | some tc =>
            cases hru : geti T.rules (-action) with
            | none => simp only [htc, hru] at h; cases h
            | some rule =>
              simp only [htc, hru] at h
              by_cases hp : tc < 0 ∨ s.stack.length < tc.toNat
              · simp only [hp, if_true] at h; cases h
              · simp only [hp, if_false] at h
                cases htop' : topState (s.stack.drop tc.toNat) with
                | none => simp only [htop'] at h; cases h
                | some top' =>
                  simp only [htop'] at h
                  have h0 : 0 ≤ tc := by omega
                  have hl : tc.toNat ≤ s.stack.length := by omega
                  cases hg : find T.gotos top' rule with
                  | oob => simp only [hg] at h; cases h
                  | miss =>
                    simp only [hg] at h; cases h
                    exact .reduce htop hf hacc (by omega) htc hru h0 hl htop' (.inr ⟨hg, rfl⟩)
                  | hit ns =>
                    simp only [hg] at h; cases h
                    exact .reduce htop hf hacc (by omega) htc hru h0 hl htop' (.inl hg)

/-- How an iteration can end the loop. -/
theorem step_done {T : Tables} {inp : Array Nat} {wb : Bool} {fuel : Nat} {s s' : PState}
    {o : Outcome} (h : step T inp wb fuel s = .done o s') :
    (o = .accept ∧ s' = s ∧ ∃ top, topState s.stack = some top ∧
        find T.actions top s.la = .hit acceptCode) ∨
    (o = .reject ∧ ∃ top, topState s.stack = some top ∧ find T.actions top s.la = .miss ∧
        recover T inp fuel s = .fail s') ∨
    (o = .timeout ∧ s' = s ∧ ∃ top, topState s.stack = some top ∧
        find T.actions top s.la = .miss ∧ recover T inp fuel s = .timeout) ∨
    (∃ w, o = .panic w ∧ (s' = s ∨ ∃ top a ti, topState s.stack = some top ∧
        (if wb = true then symTokIdx s.lasym else some 0) = some ti ∧ s' = shiftState s a ti)) := by
  unfold step at h
  cases htop : topState s.stack with
  | none => simp only [htop] at h; cases h; exact .inr (.inr (.inr ⟨_, rfl, .inl rfl⟩))
  | some top =>
    simp only [htop] at h
    cases hf : find T.actions top s.la with
    | oob => simp only [hf] at h; cases h; exact .inr (.inr (.inr ⟨_, rfl, .inl rfl⟩))
    | miss =>
      simp only [hf] at h
      cases hr : recover T inp fuel s with
      | ok s1 => simp only [hr] at h; cases h
      | fail s1 => simp only [hr] at h; cases h; exact .inr (.inl ⟨rfl, top, rfl, hf, rfl⟩)
      | panic w => simp only [hr] at h; cases h; exact .inr (.inr (.inr ⟨_, rfl, .inl rfl⟩))
      | timeout => simp only [hr] at h; cases h; exact .inr (.inr (.inl ⟨rfl, rfl, top, rfl, hf, rfl⟩))
    | hit action =>
      simp only [hf] at h
      by_cases hacc : action = acceptCode
      · simp only [hacc, if_true] at h; cases h
        exact .inl ⟨rfl, rfl, top, rfl, by rw [hf, hacc]⟩
      · simp only [hacc, if_false] at h
        by_cases hsh : action ≥ 0
        · simp only [hsh, if_true] at h
          cases hti : (if wb = true then symTokIdx s.lasym else some 0) with
          | none => simp only [hti] at h; cases h; exact .inr (.inr (.inr ⟨_, rfl, .inl rfl⟩))
          | some ti =>
            simp only [hti] at h
            cases hr : readToken T inp (shiftState s action ti) with
            | error w =>
              simp only [shiftState] at hr; simp only [hr] at h; cases h
              exact .inr (.inr (.inr ⟨_, rfl, .inr ⟨top, action, ti, rfl, rfl, rfl⟩⟩))
            | ok s2 => simp only [shiftState] at hr; simp only [hr] at h; cases h
        · simp only [hsh, if_false] at h
          cases htc : geti T.termCounts (-action) with
          | none => simp only [htc] at h; cases h; exact .inr (.inr (.inr ⟨_, rfl, .inl rfl⟩))
          | some tc =>
            cases hru : geti T.rules (-action) with
            | none => simp only [htc, hru] at h; cases h; exact .inr (.inr (.inr ⟨_, rfl, .inl rfl⟩))
            | some rule =>
              simp only [htc, hru] at h
              by_cases hp : tc < 0 ∨ s.stack.length < tc.toNat
              · simp only [hp, if_true] at h; cases h; exact .inr (.inr (.inr ⟨_, rfl, .inl rfl⟩))
              · simp only [hp, if_false] at h
                cases htop' : topState (s.stack.drop tc.toNat) with
                | none => simp only [htop'] at h; cases h; exact .inr (.inr (.inr ⟨_, rfl, .inl rfl⟩))
                | some top' =>
                  simp only [htop'] at h
                  cases hg : find T.gotos top' rule with
                  | oob => simp only [hg] at h; cases h; exact .inr (.inr (.inr ⟨_, rfl, .inl rfl⟩))
                  | miss => simp only [hg] at h; cases h
                  | hit ns => simp only [hg] at h; cases h

/-- One iteration of `parse` preserves the lookahead invariant. -/
theorem step_LaOK {T : Tables} {inp : Array Nat} {wb : Bool} {fuel : Nat} {s s' : PState}
    (hs : LaOK s) (h : step T inp wb fuel s = .cont s') : LaOK s' := by
  cases step_cont h with
  | recover _ _ hr => exact recover_LaOK hs hr
  | shift _ _ _ _ _ hr => exact readToken_LaOK (s := shiftState s _ _) hs.2 hr
  | reduce => exact hs

/-- The state `parse` enters its loop with satisfies the lookahead invariant. -/
theorem init_LaOK {T : Tables} {inp : Array Nat} {s1 : PState}
    (h : readToken T inp initState = .ok s1) : LaOK s1 :=
  readToken_LaOK (fun hc => absurd rfl hc) h

theorem parse_eq (T : Tables) (inp : Array Nat) (wb : Bool) (fuel : Nat) :
    parse T inp wb fuel =
      match readToken T inp initState with
      | .error w => (.panic w, initState)
      | .ok s1 => runLoop T inp wb fuel fuel s1 := rfl

/-! ## Reachability -/

theorem Reach.trans {T : Tables} {inp : Array Nat} {wb : Bool} {fuel : Nat} {a b c : PState}
    (h1 : Reach T inp wb fuel a b) (h2 : Reach T inp wb fuel b c) : Reach T inp wb fuel a c := by
  induction h1 with
  | refl => exact h2
  | step h _ ih => exact .step h (ih h2)

/-- A property preserved by every continuing iteration holds in every reachable state. -/
theorem Reach.inv {T : Tables} {inp : Array Nat} {wb : Bool} {fuel : Nat} {P : PState → Prop}
    (hstep : ∀ s s', P s → Lox.LR.step T inp wb fuel s = .cont s' → P s') {a b : PState}
    (h : Reach T inp wb fuel a b) (ha : P a) : P b := by
  induction h with
  | refl => exact ha
  | step h _ ih => exact ih (hstep _ _ ha h)

/-- The loop either runs out of fuel in a reachable state or ends from one. -/
theorem runLoop_spec {T : Tables} {inp : Array Nat} {wb : Bool} {fuel : Nat} :
    ∀ (n : Nat) (s : PState), ∃ sl, Reach T inp wb fuel s sl ∧
      (((runLoop T inp wb fuel n s).1 = .timeout ∧ (runLoop T inp wb fuel n s).2 = sl) ∨
       step T inp wb fuel sl = .done (runLoop T inp wb fuel n s).1 (runLoop T inp wb fuel n s).2)
  | 0, s => ⟨s, .refl s, .inl ⟨rfl, rfl⟩⟩
  | n + 1, s => by
    unfold runLoop
    cases h : step T inp wb fuel s with
    | cont s' =>
      obtain ⟨sl, hr, hsl⟩ := runLoop_spec (T := T) (inp := inp) (wb := wb) (fuel := fuel) n s'
      exact ⟨sl, .step h hr, hsl⟩
    | done o s' => exact ⟨s, .refl s, .inr h⟩

/-- An accepting run ends in a reachable state whose action is `accept`. -/
theorem parse_accept_state {T : Tables} {inp : Array Nat} {wb : Bool} {fuel : Nat}
    (h : (parse T inp wb fuel).1 = .accept) :
    ParseReach T inp wb fuel (parse T inp wb fuel).2 ∧
    ∃ top, topState (parse T inp wb fuel).2.stack = some top ∧
      find T.actions top (parse T inp wb fuel).2.la = .hit acceptCode := by
  rw [parse_eq] at h ⊢
  cases h1 : readToken T inp initState with
  | error w => rw [h1] at h; cases h
  | ok s1 =>
    rw [h1] at h
    simp only [] at h ⊢
    obtain ⟨sl, hr, hsl⟩ := runLoop_spec (T := T) (inp := inp) (wb := wb) (fuel := fuel) fuel s1
    rcases hsl with ⟨ht, -⟩ | hd
    · rw [ht] at h; cases h
    · rcases step_done hd with ⟨-, hs, hacc⟩ | ⟨ho, -⟩ | ⟨ho, -⟩ | ⟨w, ho, -⟩
      · rw [hs]; exact ⟨⟨s1, h1, hr⟩, hacc⟩
      · rw [ho] at h; cases h
      · rw [ho] at h; cases h
      · rw [ho] at h; cases h

/-! ## Anatomy of `_recover` -/

theorem Frame.rfl' (s : PState) : Frame s s := ⟨rfl, rfl, rfl⟩
theorem Frame.trans {a b c : PState} (h1 : Frame a b) (h2 : Frame b c) : Frame a c :=
  ⟨h2.stack.trans h1.stack, h2.log.trans h1.log, h2.recovering.trans h1.recovering⟩

theorem readToken_frame {T : Tables} {inp : Array Nat} {s s' : PState}
    (h : readToken T inp s = .ok s') : Frame s s' := by
  rw [readToken_eq] at h
  split at h
  · cases h; exact ⟨rfl, rfl, rfl⟩
  · split at h
    · split at h
      · cases h
      · cases h; exact ⟨rfl, rfl, rfl⟩
    · cases h; exact ⟨rfl, rfl, rfl⟩

theorem Reads.trans {T : Tables} {inp : Array Nat} {a b c : PState}
    (h1 : Reads T inp a b) (h2 : Reads T inp b c) : Reads T inp a c := by
  induction h1 with
  | refl => exact h2
  | step h _ ih => exact .step h (ih h2)

theorem Reads.single {T : Tables} {inp : Array Nat} {a b : PState}
    (h : readToken T inp a = .ok b) : Reads T inp a b := .step h (.refl b)

theorem Reads.frame {T : Tables} {inp : Array Nat} {a b : PState} (h : Reads T inp a b) :
    Frame a b := by
  induction h with
  | refl => exact Frame.rfl' _
  | step h _ ih => exact (readToken_frame h).trans ih

theorem Reads.LaOK {T : Tables} {inp : Array Nat} {a b : PState} (h : Reads T inp a b)
    (ha : LaOK a) : LaOK b := by
  induction h with
  | refl => exact ha
  | step h _ ih => exact ih (readToken_LaOK' ha h)

/-- `for p._la == ERROR { p._readToken() }` ends on a non-ERROR lookahead. -/
theorem skipErrors_ok {T : Tables} {inp : Array Nat} :
    ∀ (n : Nat) {s s' : PState}, skipErrors T inp n s = .ok (some s') →
      Reads T inp s s' ∧ s'.la ≠ tERROR
  | 0, _, _, h => by simp [skipErrors] at h
  | n + 1, s, s', h => by
    unfold skipErrors at h
    split at h
    · simp only [bind, Except.bind] at h
      split at h
      · cases h
      · rename_i s1 h1
        have := skipErrors_ok n h
        exact ⟨.step h1 this.1, this.2⟩
    · rename_i hne
      cases h; exact ⟨.refl _, hne⟩

theorem simulate_found {T : Tables} {la : Int} :
    ∀ (n : Nat) {st : Int}, simulate T la n st = .found → ∃ v, find T.actions st tERROR = .hit v
  | 0, _, h => by simp [simulate] at h
  | n + 1, st, h => by
    unfold simulate at h
    split at h
    · cases h
    · cases h
    · rename_i v hv; exact ⟨v, hv⟩

theorem searchStack_ok {T : Tables} {la : Int} {fuel : Nat} :
    ∀ {st st' : List Entry}, searchStack T la fuel st = .ok (some st') →
      st' <:+ st ∧ ∃ e rest, st' = e :: rest ∧ simulate T la fuel e.state = .found
  | [], _, h => by simp [searchStack] at h
  | e :: rest, st', h => by
    unfold searchStack at h
    split at h
    · rename_i hf
      cases h
      exact ⟨List.suffix_refl _, e, rest, rfl, hf⟩
    · have := searchStack_ok h
      exact ⟨this.1.trans (List.suffix_cons e rest), this.2⟩
    · cases h
    · cases h

/-- The outer loop of `_recover` succeeds after dropping zero or more tokens, at a stack suffix
whose top state has an action on ERROR. -/
theorem recoverLoop_ok {T : Tables} {inp : Array Nat} {errSym : Val} {fuel : Nat} :
    ∀ (n : Nat) {s s' : PState}, recoverLoop T inp errSym fuel n s = .ok s' →
      ∃ s1 st, Reads T inp s s1 ∧ searchStack T s1.la fuel s1.stack = .ok (some st) ∧
        s' = injectErr s1 st errSym
  | 0, _, _, h => by simp [recoverLoop] at h
  | n + 1, s, s', h => by
    unfold recoverLoop at h
    split at h
    · cases h
    · cases h
    · rename_i st hst
      cases h
      exact ⟨s, st, .refl _, hst, rfl⟩
    · split at h
      · cases h
      · split at h
        · cases h
        · rename_i s1 h1
          obtain ⟨s2, st, hr, hs, he⟩ := recoverLoop_ok n h
          exact ⟨s2, st, .step h1 hr, hs, he⟩

/-- Anatomy of a successful `_recover()`: `errSym` is fixed first; ERROR lookaheads are skipped;
when `_recovering` was set, a real lookahead is dropped on the way (reaching `s0`, whose lookahead
is not ERROR); then zero or more tokens are dropped until some stack suffix `st` can shift ERROR
(possibly after reductions on ERROR) and continue on the lookahead of `s1`. -/
theorem recover_ok {T : Tables} {inp : Array Nat} {fuel : Nat} {s s' : PState}
    (h : recover T inp fuel s = .ok s') :
    ∃ errSym s0 s1 st, errSymOf T s = .ok errSym ∧ Reads T inp s s0 ∧ s0.la ≠ tERROR ∧
      Reads T inp s0 s1 ∧ searchStack T s1.la fuel s1.stack = .ok (some st) ∧
      s' = injectErr s1 st errSym ∧
      (s.recovering = true → ∃ sa sb, Reads T inp s sa ∧ sa.la ≠ tERROR ∧ sa.la ≠ tEOF ∧
        readToken T inp sa = .ok sb ∧ Reads T inp sb s0) := by
  rw [recover_eq] at h
  split at h
  · cases h
  · rename_i errSym he
    obtain ⟨sa, h1, h2⟩ := recoverBody_ok h
    obtain ⟨hra, hla⟩ := skipErrors_ok fuel h1
    rcases h2 with ⟨hrec, h2⟩ | ⟨hrec, hE, sb, s0, h2, h3, h4⟩
    · obtain ⟨s1, st, hr1, hs, hs'⟩ := recoverLoop_ok fuel h2
      refine ⟨errSym, sa, s1, st, he, hra, hla, hr1, hs, hs', ?_⟩
      intro hr
      rw [← hra.frame.recovering, hrec] at hr
      cases hr
    · obtain ⟨hr0, hl0⟩ := skipErrors_ok fuel h3
      obtain ⟨s1, st, hr1, hs, hs'⟩ := recoverLoop_ok fuel h4
      exact ⟨errSym, s0, s1, st, he, hra.trans (.step h2 hr0), hl0, hr1, hs, hs',
        fun _ => ⟨sa, sb, hra, hla, hE, h2, hr0⟩⟩

theorem recoverLoop_fail {T : Tables} {inp : Array Nat} {errSym : Val} {fuel : Nat} :
    ∀ (n : Nat) {s s' : PState}, recoverLoop T inp errSym fuel n s = .fail s' →
      ∃ s1, Reads T inp s s1 ∧ s1.la = tEOF ∧ s' = { s1 with stack := [] }
  | 0, _, _, h => by simp [recoverLoop] at h
  | n + 1, s, s', h => by
    unfold recoverLoop at h
    split at h
    · cases h
    · cases h
    · cases h
    · split at h
      · rename_i hE
        cases h; exact ⟨s, .refl _, hE, rfl⟩
      · split at h
        · cases h
        · rename_i s1 h1
          obtain ⟨s2, hr, hE, he⟩ := recoverLoop_fail n h
          exact ⟨s2, .step h1 hr, hE, he⟩

/-- A failing `_recover()` has read up to an EOF lookahead. -/
theorem recover_fail {T : Tables} {inp : Array Nat} {fuel : Nat} {s s' : PState}
    (h : recover T inp fuel s = .fail s') :
    ∃ s1, Reads T inp s s1 ∧ s1.la = tEOF ∧ (s' = s1 ∨ s' = { s1 with stack := [] }) := by
  rw [recover_eq] at h
  split at h
  · cases h
  · rename_i errSym he
    unfold recoverBody at h
    split at h
    · cases h
    · cases h
    · rename_i sa h1
      obtain ⟨hra, hla⟩ := skipErrors_ok fuel h1
      cases hr : sa.recovering
      · simp only [hr, Bool.false_eq_true, if_false] at h
        obtain ⟨s1, h2, hE, h3⟩ := recoverLoop_fail fuel h
        exact ⟨s1, hra.trans h2, hE, .inr h3⟩
      · simp only [hr, if_true] at h
        by_cases hE : sa.la = tEOF
        · simp only [hE, if_true] at h
          cases h; exact ⟨_, hra, hE, .inl rfl⟩
        · simp only [hE, if_false] at h
          cases h2 : readToken T inp sa with
          | error w => simp only [h2] at h; cases h
          | ok sb =>
            simp only [h2] at h
            cases h3 : skipErrors T inp fuel sb with
            | error w => simp only [h3] at h; cases h
            | ok o =>
              cases o with
              | none => simp only [h3] at h; cases h
              | some s0 =>
                simp only [h3] at h
                obtain ⟨s1, h4, hE1, h5⟩ := recoverLoop_fail fuel h
                exact ⟨s1, (hra.trans (.step h2 (skipErrors_ok fuel h3).1)).trans h4, hE1, .inr h5⟩

end Lox.LR.Rt
