import Lox.LR.Abstract
/-! The DEFINITION of the LALR(1) item sets (specification level; read this file).

Textbook construction (Aho/Sethi/Ullman §4.7; DeRemer): an LR(1) item `[A → α·β, a]` is *valid for
the viable prefix γ* by the three rules `start`, `goto`, `closure` below; the LALR(1) item set of an
LR(0) state is the union of the LR(1) items valid for the viable prefixes that reach this LR(0)
state. Nothing here is an algorithm: FIRST is defined from derivations (`Derives`, sentential
forms; `First`), item validity is an inductive predicate over viable prefixes.

Two ways to name an LR(0) state are given and related in `Lox/Props/C04_exact.lean`:
* `LALRSet G γ`: by a viable prefix `γ`, up to equality of the LR(0) item sets (`LR0Item`): no
  automaton at all is mentioned;
* `LALRItem G A s`: by a state `s` of an automaton skeleton `A` (only its edges `trans A` are used):
  the union over all `γ` that lead from state 0 to `s`.

What the generator does (`/repo/internal/parsergen/lr1/construct.go`, `ConstructLALR`; `closure.go`,
`goto.go`, `first.go`): closure with FIRST(βa), goto, states merged by their LR(0) kernel
(`ItemSet.LR0Key`), lookaheads added to existing states, re-queued until nothing changes.

Core Lean only. -/
namespace Lox.LR

/-- `Derives G α β`: the sentential form `α` derives the sentential form `β` (`α ⇒* β`), replacing
one nonterminal occurrence by the right-hand side of one of its productions at each step. -/
inductive Derives (G : Grammar) : List Sym → List Sym → Prop where
  | refl (α : List Sym) : Derives G α α
  | step {α₁ α₂ β : List Sym} {q : Nat} {qr : Prod} : G.prods[q]? = some qr →
      Derives G (α₁ ++ qr.rhs ++ α₂) β → Derives G (α₁ ++ Sym.n qr.lhs :: α₂) β

/-- `b ∈ FIRST(α a)`: `α ⇒* b δ` for some `δ`, or `α ⇒* ε` and `b = a`
(Aho/Sethi/Ullman §4.4: "if `α ⇒* cγ` then `c` is in FIRST(α)"). -/
def First (G : Grammar) (α : List Sym) (a b : Nat) : Prop :=
  (∃ δ, Derives G α (Sym.t b :: δ)) ∨ (Derives G α [] ∧ b = a)

/-- `LR1Item G γ ⟨p, d, a⟩`: the LR(1) item "production `p`, dot before position `d`, lookahead `a`"
is valid for the viable prefix `γ`. -/
inductive LR1Item (G : Grammar) : List Sym → Item → Prop where
  /-- `[S' → ·S, EOF]` is valid for the empty prefix -/
  | start : LR1Item G [] ⟨0, 0, eof⟩
  /-- `[A → α·Xβ, a]` valid for `γ` ⇒ `[A → αX·β, a]` valid for `γX` -/
  | goto {γ : List Sym} {p d a : Nat} {pr : Prod} {X : Sym} : LR1Item G γ ⟨p, d, a⟩ →
      G.prods[p]? = some pr → pr.rhs[d]? = some X → LR1Item G (γ ++ [X]) ⟨p, d + 1, a⟩
  /-- `[A → α·Bβ, a]` valid for `γ`, `B → δ` a production, `b ∈ FIRST(βa)` ⇒ `[B → ·δ, b]` valid
  for `γ` -/
  | closure {γ : List Sym} {p d a : Nat} {pr : Prod} {B q : Nat} {qr : Prod} {b : Nat} :
      LR1Item G γ ⟨p, d, a⟩ → G.prods[p]? = some pr → pr.rhs[d]? = some (.n B) →
      G.prods[q]? = some qr → qr.lhs = B → First G (pr.rhs.drop (d + 1)) a b →
      LR1Item G γ ⟨q, 0, b⟩

/-- `LR0Item G γ p d`: the LR(0) item `(p, d)` is valid for the viable prefix `γ` (the same three
rules without lookaheads). `γ` is a viable prefix iff some LR(0) item is valid for it. -/
inductive LR0Item (G : Grammar) : List Sym → Nat → Nat → Prop where
  | start : LR0Item G [] 0 0
  | goto {γ : List Sym} {p d : Nat} {pr : Prod} {X : Sym} : LR0Item G γ p d →
      G.prods[p]? = some pr → pr.rhs[d]? = some X → LR0Item G (γ ++ [X]) p (d + 1)
  | closure {γ : List Sym} {p d : Nat} {pr : Prod} {B q : Nat} {qr : Prod} :
      LR0Item G γ p d → G.prods[p]? = some pr → pr.rhs[d]? = some (.n B) →
      G.prods[q]? = some qr → qr.lhs = B → LR0Item G γ q 0

/-- `γ` and `γ'` lead to the same LR(0) state: the same LR(0) items are valid for them. -/
def SameLR0 (G : Grammar) (γ γ' : List Sym) : Prop := ∀ p d, LR0Item G γ p d ↔ LR0Item G γ' p d

/-- The LALR(1) item set of the LR(0) state of the viable prefix `γ`: all LR(1) items valid for
some viable prefix with the same LR(0) state. -/
def LALRSet (G : Grammar) (γ : List Sym) (it : Item) : Prop :=
  ∃ γ', SameLR0 G γ' γ ∧ LR1Item G γ' it

/-- `Path A s γ s'`: reading `γ` along the edges of the automaton leads from `s` to `s'`. -/
inductive Path (A : Auto) : Nat → List Sym → Nat → Prop where
  | nil (s : Nat) : Path A s [] s
  | snoc {s s' s'' : Nat} {γ : List Sym} {X : Sym} : Path A s γ s' → trans A s' X = some s'' →
      Path A s (γ ++ [X]) s''

/-- The LALR(1) item set of state `s` of the automaton skeleton `A` (only `trans A` is used): all
LR(1) items valid for some `γ` that leads from state 0 to `s`. -/
def LALRItem (G : Grammar) (A : Auto) (s : Nat) (it : Item) : Prop :=
  ∃ γ, Path A 0 γ s ∧ LR1Item G γ it

/-- The LR(0) cores of an item list. -/
def HasCore (items : List Item) (p d : Nat) : Prop := ∃ a, (⟨p, d, a⟩ : Item) ∈ items

/-- Distinct states have distinct LR(0) item sets (the generator keys its states by the LR(0)
kernel, `ItemSet.LR0Key`). -/
def KernelsDistinct (A : Auto) (n : Nat) : Prop :=
  ∀ s s', s < n → s' < n → (∀ p d, HasCore (A.items s) p d ↔ HasCore (A.items s') p d) → s = s'

/-! ### The LALR(1) parsing actions (Aho/Sethi/Ullman, Algorithm 4.56 step 2, on the LALR sets) -/

/-- `Cand G A I s a act`: the item set `I s` of state `s` calls for action `act` on terminal `a`:
shift to the `a`-successor if some item has `a` after the dot; reduce `p ≠ 0` if `[p, |rhs p|, a]`
is in the set; accept on EOF if `[S' → S·, EOF]` is. A (state, terminal) cell is a conflict iff it
has two different candidates. -/
inductive Cand (G : Grammar) (A : Auto) (I : Nat → Item → Prop) (s a : Nat) : Act → Prop where
  | shift {p d b : Nat} {pr : Prod} {s' : Nat} : I s ⟨p, d, b⟩ → G.prods[p]? = some pr →
      pr.rhs[d]? = some (.t a) → trans A s (.t a) = some s' → Cand G A I s a (.shift s')
  | reduce {p : Nat} {pr : Prod} : I s ⟨p, pr.rhs.length, a⟩ → G.prods[p]? = some pr → p ≠ 0 →
      Cand G A I s a (.reduce p)
  | accept : I s ⟨0, 1, eof⟩ → a = eof → Cand G A I s a .accept

/-- The cell `(s, a)` is a conflict w.r.t. the item sets `I`. -/
def Conflict (G : Grammar) (A : Auto) (I : Nat → Item → Prop) (s a : Nat) : Prop :=
  ∃ x y, Cand G A I s a x ∧ Cand G A I s a y ∧ x ≠ y

/-! ### Productive grammars -/

/-- Every nonterminal that occurs in the grammar (as a left-hand side or on a right-hand side)
derives some token string. -/
def Productive (G : Grammar) : Prop :=
  ∀ (p : Nat) (pr : Prod), G.prods[p]? = some pr →
    (∃ w ts, Der G [.n pr.lhs] w ts) ∧ ∀ B, Sym.n B ∈ pr.rhs → ∃ w ts, Der G [.n B] w ts

end Lox.LR
