import Lox.LR.ConstructInv
/-! One step of the `ConstructLALR` worklist (`stepSym`): what it does (`StepSpec`), and that it
preserves the invariant `Inv` (`Inv.step`). -/
namespace Lox.LR.Cons
open Lox.LR Lox.LR.Gen

/-! ### The order on keys -/

theorem keyLt_order : StrictOrder keyLt where
  irrefl := by
    intro a
    induction a with
    | nil => rfl
    | cons x r ih => simp [keyLt, pairLt_order.irrefl, ih]
  trans := by
    intro a
    induction a with
    | nil =>
      intro b c h1 h2
      cases b with
      | nil => simp [keyLt] at h1
      | cons y r' =>
        cases c with
        | nil => simp [keyLt] at h2
        | cons z r'' => rfl
    | cons x r ih =>
      intro b c h1 h2
      cases b with
      | nil => simp [keyLt] at h1
      | cons y r' =>
        cases c with
        | nil => simp [keyLt] at h2
        | cons z r'' =>
          simp only [keyLt, Bool.or_eq_true, Bool.and_eq_true, beq_iff_eq] at h1 h2 ⊢
          rcases h1 with h1 | ⟨rfl, h1⟩
          · rcases h2 with h2 | ⟨rfl, h2⟩
            · exact .inl (pairLt_order.trans _ _ _ h1 h2)
            · exact .inl h1
          · rcases h2 with h2 | ⟨rfl, h2⟩
            · exact .inl h2
            · exact .inr ⟨rfl, ih _ _ h1 h2⟩
  total := by
    intro a
    induction a with
    | nil =>
      intro b h1 h2
      cases b with
      | nil => rfl
      | cons y r' => simp [keyLt] at h1
    | cons x r ih =>
      intro b h1 h2
      cases b with
      | nil => simp [keyLt] at h2
      | cons y r' =>
        simp only [keyLt, Bool.or_eq_false_iff, Bool.and_eq_false_iff, beq_eq_false_iff_ne] at h1 h2
        have hxy : x = y := pairLt_order.total _ _ h1.1 h2.1
        subst hxy
        have e1 : keyLt r r' = false := by
          rcases h1.2 with h | h
          · exact absurd rfl h
          · exact h
        have e2 : keyLt r' r = false := by
          rcases h2.2 with h | h
          · exact absurd rfl h
          · exact h
        rw [ih _ e1 e2]

/-! ### The invariant -/

/-- The loop invariant (see the field comments). -/
structure Inv (G : Grammar) (st : CState) : Prop where
  lenK : st.keys.length = st.states.length
  lenT : st.trans.length = st.states.length
  /-- the key a state was entered under is (still) its `LR0Key` -/
  key : ∀ (i : Nat) (I : List Item), st.states[i]? = some I → st.keys[i]? = some (lr0Key I)
  keysNodup : st.keys.Nodup
  /-- every state is closed under the closure rule (semantic FIRST) -/
  closed : ∀ (i : Nat) (I : List Item), st.states[i]? = some I → ClosedSet G I
  /-- a transition on `X` leads to the state whose kernel cores are those of `Goto(·, X)` -/
  tgt : ∀ (i : Nat) (X : Sym) (t : Nat), lookupSym X (st.trans[i]?.getD []) = some t →
    ∃ I J, st.states[i]? = some I ∧ st.states[t]? = some J ∧ ∀ pd, KC G I X pd ↔ KJ J pd
  /-- the start item is in state 0 -/
  start : ∃ I0, st.states[0]? = some I0 ∧ (⟨0, 0, 0⟩ : Item) ∈ I0
  /-- SOUNDNESS: every item of a state is an LALR(1) item of that state by definition -/
  sound : ∀ (i : Nat) (I : List Item) (it : Item), st.states[i]? = some I → it ∈ I →
    LALRItem G (skelOf st) i it

/-- The termination measure: the number of (state, item) pairs plus the number of states. -/
def mu (st : CState) : Nat := (st.states.map fun I => I.length + 1).sum

/-- What one `stepSym` does to the table. -/
structure StepSpec (G : Grammar) (st st' : CState) (i : Nat) (X : Sym) (I T : List Item) (j : Nat) :
    Prop where
  hI : st.states[i]? = some I
  spec : GotoSpec G I X T
  jle : j ≤ st.states.length
  len : st'.states.length = max st.states.length (j + 1)
  other : ∀ i', i' ≠ j → st'.states[i']? = st.states[i']?
  atJ : ∃ M, st'.states[j]? = some M ∧ (M.Nodup ∨ ¬ (st.states[j]?.getD []).Nodup) ∧
    (st.states[j]?.getD []).length ≤ M.length ∧
    (∀ x, x ∈ M ↔ x ∈ st.states[j]?.getD [] ∨ x ∈ T)
  keyJ : st'.keys[j]? = some (lr0Key T)
  keysOld : j < st.states.length → st'.keys = st.keys
  keysNew : j = st.states.length → st'.keys = st.keys ++ [lr0Key T] ∧ lr0Key T ∉ st.keys
  transI : ∀ Y, lookupSym Y (st'.trans[i]?.getD []) =
    if X = Y then some j else lookupSym Y (st.trans[i]?.getD [])
  transOther : ∀ i', i' ≠ i → st'.trans[i']?.getD [] = st.trans[i']?.getD []
  lenT : st'.trans.length = st'.states.length
  pendMono : ∀ k ∈ st.pending, k ∈ st'.pending
  pendOnly : ∀ k ∈ st'.pending, k ∈ st.pending ∨ k = lr0Key T
  pendChanged : (j < st.states.length ∧ st'.states[j]? = st.states[j]?) ∨
    (lr0Key T ∈ st'.pending ∧
      (st.states[j]?.getD []).length < (st'.states[j]?.getD []).length + (st'.states.length - st.states.length))
  pendSorted : SSorted keyLt st.pending → SSorted keyLt st'.pending
  /-- the measure never decreases, and increases whenever `pendingSet` changes -/
  muStep : mu st ≤ mu st' ∧ (st'.pending = st.pending ∨ mu st < mu st')

theorem stepSym_spec {G : Grammar} {nT : Nat} (ht : TermsBelow G nT) {st st' : CState} {i : Nat}
    {X : Sym} (hinv : Inv G st) (h : stepSym G nT i st X = some st') :
    ∃ I T j, StepSpec G st st' i X I T j := by
  unfold stepSym at h
  cases hI : st.states[i]? with
  | none => simp [hI] at h
  | some I =>
    simp only [hI] at h
    cases hT : gotoGo G nT I X with
    | none => simp [hT] at h
    | some T =>
      simp only [hT] at h
      have spec := goto_spec' ht (gotoGo_some hT)
      have hilt : i < st.states.length := (List.getElem?_eq_some_iff.mp hI).1
      have hiT : i < st.trans.length := by rw [hinv.lenT]; exact hilt
      have htransI : ∀ (j : Nat) (Y : Sym),
          lookupSym Y ((modAt st.trans i fun row => setTrans row X j)[i]?.getD []) =
            if X = Y then some j else lookupSym Y (st.trans[i]?.getD []) := by
        intro j Y
        rw [getElem?_modAt]
        simp only [if_true]
        obtain ⟨row, hrow⟩ : ∃ row, st.trans[i]? = some row :=
          ⟨_, (List.getElem?_eq_some_iff.mpr ⟨hiT, rfl⟩)⟩
        simp [hrow, lookupSym_setTrans]
      cases hf : findKey (lr0Key T) st.keys with
      | some j =>
        have hkj := findKey_some hf
        have hjlt : j < st.states.length := by
          rw [← hinv.lenK]; exact (List.getElem?_eq_some_iff.mp hkj).1
        obtain ⟨J, hJ⟩ : ∃ J, st.states[j]? = some J :=
          ⟨_, List.getElem?_eq_some_iff.mpr ⟨hjlt, rfl⟩⟩
        simp only [hf, hJ, Option.getD_some, Option.some.injEq] at h
        subst h
        obtain ⟨m1, m2, m3, m4, m5⟩ := mergeInto_spec J (sortItems T)
        refine ⟨I, T, j, ⟨hI, spec, Nat.le_of_lt hjlt, ?_, ?_, ?_, hkj, fun _ => rfl,
          fun e => absurd e (Nat.ne_of_lt hjlt), ?_, ?_, ?_, ?_, ?_, ?_, ?_, ?_⟩⟩
        · simp only [List.length_set]
          omega
        · intro i' hne
          simp only [List.getElem?_set]
          rw [if_neg (fun e => hne e.symm)]
        · refine ⟨(mergeInto J (sortItems T)).1, ?_, ?_, ?_, ?_⟩
          · simp [hjlt]
          · simp only [hJ, Option.getD_some]
            by_cases hn : J.Nodup
            · exact .inl (m4 hn)
            · exact .inr hn
          · simpa [hJ] using m5
          · intro x
            simp only [hJ, Option.getD_some]
            rw [m1 x, mem_sortItems]
        · intro Y
          exact htransI j Y
        · intro i' hne
          simp only [getElem?_modAt]
          rw [if_neg (fun e => hne e.symm)]
        · simp only [length_modAt, List.length_set]
          exact hinv.lenT
        · intro k hk
          simp only
          split
          · exact (mem_sinsert keyLt_order).mpr (.inr hk)
          · exact hk
        · intro k hk
          simp only at hk
          split at hk
          · rcases (mem_sinsert keyLt_order).mp hk with h | h
            · exact .inr h
            · exact .inl h
          · exact .inl hk
        · simp only [hJ, Option.getD_some, List.length_set]
          cases hm : (mergeInto J (sortItems T)).2 with
          | false =>
            left
            refine ⟨hjlt, ?_⟩
            simp [hjlt, m2 hm]
          | true =>
            right
            refine ⟨?_, ?_⟩
            · simp only [if_true]
              exact (mem_sinsert keyLt_order).mpr (.inl rfl)
            · have := m3 hm
              simp [hjlt]
              omega
        · intro hs
          simp only
          split
          · exact sorted_sinsert keyLt_order hs
          · exact hs
        · obtain ⟨_, hJe⟩ := List.getElem?_eq_some_iff.mp hJ
          have hsum := sum_map_set (fun I : List Item => I.length + 1) st.states j
            (mergeInto J (sortItems T)).1 hjlt
          rw [hJe] at hsum
          simp only [mu]
          cases hm : (mergeInto J (sortItems T)).2 with
          | false =>
            refine ⟨by omega, .inl ?_⟩
            simp
          | true =>
            have := m3 hm
            exact ⟨by omega, .inr (by omega)⟩
      | none =>
        simp only [hf, Option.some.injEq] at h
        subst h
        have hnot := findKey_none hf
        refine ⟨I, T, st.states.length, ⟨hI, spec, Nat.le_refl _, ?_, ?_, ?_, ?_, fun e => absurd e (Nat.lt_irrefl _),
          fun _ => ⟨rfl, hnot⟩, ?_, ?_, ?_, ?_, ?_, ?_, ?_, ?_⟩⟩
        · simp only [List.length_append, List.length_singleton]
          omega
        · intro i' hne
          rw [List.getElem?_append]
          split
          · rfl
          · next hge =>
            have hge' : st.states.length ≤ i' := Nat.le_of_not_lt hge
            rw [List.getElem?_eq_none hge']
            have : i' - st.states.length ≠ 0 := by omega
            cases hd : i' - st.states.length with
            | zero => exact absurd hd this
            | succ n => simp
        · refine ⟨T, by simp, ?_, ?_, ?_⟩
          · left
            exact goto_nodup (gotoGo_some hT)
          · simp
          · intro x
            simp
        · rw [← hinv.lenK]
          simp
        · intro Y
          have hi' : i < (modAt st.trans i fun row => setTrans row X st.states.length).length := by
            rw [length_modAt]; exact hiT
          rw [List.getElem?_append_left hi']
          exact htransI _ Y
        · intro i' hne
          rw [List.getElem?_append]
          simp only [length_modAt]
          split
          · simp only [getElem?_modAt]
            rw [if_neg (fun e => hne e.symm)]
          · next hge =>
            have hge' : st.trans.length ≤ i' := Nat.le_of_not_lt hge
            rw [List.getElem?_eq_none hge']
            cases hd : i' - st.trans.length with
            | zero => simp
            | succ n => simp
        · have := hinv.lenT
          simp only [List.length_append, length_modAt, List.length_singleton]
          omega
        · intro k hk
          exact (mem_sinsert keyLt_order).mpr (.inr hk)
        · intro k hk
          rcases (mem_sinsert keyLt_order).mp hk with h | h
          · exact .inr h
          · exact .inl h
        · right
          refine ⟨(mem_sinsert keyLt_order).mpr (.inl rfl), ?_⟩
          simp
        · intro hs
          exact sorted_sinsert keyLt_order hs
        · simp only [mu, List.map_append, List.sum_append, List.map_cons, List.map_nil,
            List.sum_cons, List.sum_nil]
          exact ⟨by omega, .inr (by omega)⟩

/-! ### A step preserves the invariant -/

section
variable {G : Grammar} {nT : Nat} {st st' : CState} {i : Nat} {X : Sym} {I T : List Item} {j : Nat}

theorem StepSpec.ilt (hs : StepSpec G st st' i X I T j) : i < st.states.length :=
  (List.getElem?_eq_some_iff.mp hs.hI).1

/-- The old content of the target state. -/
theorem StepSpec.oldJ (hs : StepSpec G st st' i X I T j) :
    (j < st.states.length ∧ ∃ J, st.states[j]? = some J ∧ st.states[j]?.getD [] = J) ∨
    (j = st.states.length ∧ st.states[j]?.getD [] = []) := by
  rcases Nat.lt_or_ge j st.states.length with h | h
  · left
    exact ⟨h, _, List.getElem?_eq_some_iff.mpr ⟨h, rfl⟩, by simp [h]⟩
  · right
    have := hs.jle
    exact ⟨by omega, by simp [List.getElem?_eq_none h]⟩

/-- States only grow, and keep their cores. -/
theorem StepSpec.statesRel (ht : TermsBelow G nT) (hinv : Inv G st)
    (hs : StepSpec G st st' i X I T j) (i' : Nat) (I' : List Item)
    (h : st.states[i']? = some I') :
    ∃ I'', st'.states[i']? = some I'' ∧ (∀ x ∈ I', x ∈ I'') ∧ CoresSub I'' I' := by
  by_cases hij : i' = j
  · subst hij
    obtain ⟨M, hM, _, _, hmem⟩ := hs.atJ
    simp only [h, Option.getD_some] at hmem
    refine ⟨M, hM, fun x hx => (hmem x).mpr (.inl hx), ?_⟩
    have hlt : i' < st.states.length := (List.getElem?_eq_some_iff.mp h).1
    have hk1 := hinv.key i' I' h
    have hk2 := hs.keyJ
    rw [hs.keysOld hlt, hk1] at hk2
    have hkeq : lr0Key I' = lr0Key T := Option.some.inj hk2
    have hTJ : CoresSub T I' :=
      hs.spec.coresSub ht (hinv.closed i' I' h) (fun pd hp => (KJ_of_lr0Key_eq hkeq pd).mpr hp)
    intro x hx
    rcases (hmem x).mp hx with hx | hx
    · exact ⟨x.a, hx⟩
    · exact hTJ x hx
  · exact ⟨I', by rw [hs.other i' hij]; exact h, fun x hx => hx, CoresSub.refl _⟩

/-- What a state of the new table is. -/
theorem StepSpec.statesInv (hs : StepSpec G st st' i X I T j) (i' : Nat) (I'' : List Item)
    (h : st'.states[i']? = some I'') :
    (i' ≠ j ∧ st.states[i']? = some I'') ∨
    (i' = j ∧ ∀ x, x ∈ I'' ↔ x ∈ st.states[j]?.getD [] ∨ x ∈ T) := by
  by_cases hij : i' = j
  · subst hij
    obtain ⟨M, hM, _, _, hmem⟩ := hs.atJ
    rw [h] at hM
    cases hM
    exact .inr ⟨rfl, hmem⟩
  · exact .inl ⟨hij, by rw [← hs.other i' hij]; exact h⟩

theorem StepSpec.keysPrefix (hs : StepSpec G st st' i X I T j) (i' : Nat) (k : Key)
    (h : st.keys[i']? = some k) : st'.keys[i']? = some k := by
  rcases Nat.lt_or_ge j st.states.length with hj | hj
  · rw [hs.keysOld hj]; exact h
  · have := hs.jle
    rw [(hs.keysNew (by omega)).1]
    rw [List.getElem?_append_left (List.getElem?_eq_some_iff.mp h).1]
    exact h

/-- The kernel cores of the (new) target state are those of `Goto(I, X)`. -/
theorem StepSpec.kjM (hinv : Inv G st) (hs : StepSpec G st st' i X I T j) {M : List Item}
    (hM : ∀ x, x ∈ M ↔ x ∈ st.states[j]?.getD [] ∨ x ∈ T) (pd : Nat × Nat) :
    KJ M pd ↔ KJ T pd := by
  constructor
  · rintro ⟨y, hy, hk, he⟩
    rcases (hM y).mp hy with hy | hy
    · rcases hs.oldJ with ⟨hlt, J, hJ, hJe⟩ | ⟨_, hnil⟩
      · rw [hJe] at hy
        have hk1 := hinv.key j J hJ
        have hk2 := hs.keyJ
        rw [hs.keysOld hlt, hk1] at hk2
        exact (KJ_of_lr0Key_eq (Option.some.inj hk2) pd).mp ⟨y, hy, hk, he⟩
      · rw [hnil] at hy
        cases hy
    · exact ⟨y, hy, hk, he⟩
  · rintro ⟨y, hy, hk, he⟩
    exact ⟨y, (hM y).mpr (.inr hy), hk, he⟩

/-- A transition that exists is not re-targeted. -/
theorem StepSpec.sameTarget (hinv : Inv G st) (hs : StepSpec G st st' i X I T j) {t : Nat}
    (h : lookupSym X (st.trans[i]?.getD []) = some t) : t = j := by
  obtain ⟨I0, J0, hI0, hJ0, hkc⟩ := hinv.tgt i X t h
  rw [hs.hI] at hI0
  cases hI0
  have hkeq : lr0Key J0 = lr0Key T :=
    lr0Key_eq_of_KJ fun pd => ((hkc pd).symm.trans (hs.spec.kc pd))
  have hkt := hinv.key t J0 hJ0
  rw [hkeq] at hkt
  rcases Nat.lt_or_ge j st.states.length with hj | hj
  · have hkj := hs.keyJ
    rw [hs.keysOld hj] at hkj
    exact findKey_unique hinv.keysNodup hkt hkj
  · have := hs.jle
    exact absurd (List.mem_of_getElem? hkt) (hs.keysNew (by omega)).2

theorem StepSpec.transSub (hinv : Inv G st) (hs : StepSpec G st st' i X I T j) :
    TransSub (skelOf st) (skelOf st') := by
  intro s Y t h
  rw [trans_skelOf] at h ⊢
  by_cases hsi : s = i
  · subst hsi
    rw [hs.transI Y]
    by_cases hXY : X = Y
    · subst hXY
      rw [if_pos rfl, hs.sameTarget hinv h]
    · rw [if_neg hXY]; exact h
  · rw [hs.transOther s hsi]; exact h

theorem StepSpec.inv (ht : TermsBelow G nT) (hinv : Inv G st)
    (hs : StepSpec G st st' i X I T j) : Inv G st' := by
  have hsub := hs.transSub hinv
  have hedge : trans (skelOf st') i X = some j := by
    rw [trans_skelOf, hs.transI X, if_pos rfl]
  obtain ⟨M, hM, _, _, hmemM⟩ := hs.atJ
  have hIsound : ∀ it ∈ I, LALRItem G (skelOf st') i it :=
    fun it hit => LALRItem.mono hsub (hinv.sound i I it hs.hI hit)
  -- the items of `Goto(I, X)` are LALR(1) items of the target state
  have hTsound : ∀ x, ClosureOf G (advance G I X) x → LALRItem G (skelOf st') j x := by
    intro x hx
    induction hx with
    | base hi =>
      obtain ⟨⟨p, d, a⟩, hit, had, rfl⟩ := mem_advance.mp hi
      obtain ⟨pr, hp, hX⟩ := afterDot_eq.mp had
      obtain ⟨γ, hpath, hl⟩ := hIsound _ hit
      exact ⟨γ ++ [X], .snoc hpath hedge, .goto hl hp hX⟩
    | @step it new _ hr ih =>
      obtain ⟨γ, hpath, hl⟩ := ih
      obtain ⟨pr, B, qr, hp, hX, hq, hlhs, hd, hf⟩ := hr
      obtain ⟨np, nd, na⟩ := new
      simp only at hq hd hf
      subst hd
      obtain ⟨p, d, a⟩ := it
      exact ⟨γ, hpath, .closure hl hp hX hq hlhs ((sfirst_iff_first ht _ _ _).mp hf)⟩
  constructor
  · -- lenK
    rcases Nat.lt_or_ge j st.states.length with hj | hj
    · rw [hs.keysOld hj, hs.len, hinv.lenK]; omega
    · have := hs.jle
      rw [(hs.keysNew (by omega)).1, hs.len, List.length_append, hinv.lenK]
      simp; omega
  · exact hs.lenT
  · -- key
    intro i' I'' h
    rcases hs.statesInv i' I'' h with ⟨_, hold⟩ | ⟨rfl, hmem⟩
    · exact hs.keysPrefix i' _ (hinv.key i' I'' hold)
    · rw [hs.keyJ, lr0Key_eq_of_KJ (hs.kjM hinv hmem)]
  · -- keysNodup
    rcases Nat.lt_or_ge j st.states.length with hj | hj
    · rw [hs.keysOld hj]; exact hinv.keysNodup
    · have := hs.jle
      obtain ⟨e, hnot⟩ := hs.keysNew (by omega)
      rw [e, List.nodup_append]
      refine ⟨hinv.keysNodup, by simp, fun a ha b hb => ?_⟩
      simp only [List.mem_singleton] at hb
      subst hb
      intro e; subst e; exact hnot ha
  · -- closed
    intro i' I'' h
    rcases hs.statesInv i' I'' h with ⟨_, hold⟩ | ⟨rfl, hmem⟩
    · exact hinv.closed i' I'' hold
    · refine closedSet_union (J := st.states[i']?.getD []) ?_ hs.spec.closed hmem
      rcases hs.oldJ with ⟨_, J, hJ, hJe⟩ | ⟨_, hnil⟩
      · rw [hJe]; exact hinv.closed i' J hJ
      · rw [hnil]; intro it hit; cases hit
  · -- tgt
    intro i' X' t h
    by_cases hcase : i' = i ∧ X = X'
    · obtain ⟨rfl, rfl⟩ := hcase
      rw [hs.transI X, if_pos rfl] at h
      cases h
      obtain ⟨I'', hI'', hsub1, hsub2⟩ := hs.statesRel ht hinv i' I hs.hI
      refine ⟨I'', M, hI'', hM, fun pd => ?_⟩
      rw [← KC_congr ht (CoresSub.of_subset hsub1) hsub2 X pd, hs.spec.kc pd, hs.kjM hinv hmemM pd]
    · have hold : lookupSym X' (st.trans[i']?.getD []) = some t := by
        by_cases hi : i' = i
        · subst hi
          rw [hs.transI X'] at h
          rw [if_neg (fun e => hcase ⟨rfl, e⟩)] at h
          exact h
        · rw [hs.transOther i' hi] at h; exact h
      obtain ⟨I0, J0, hI0, hJ0, hkc⟩ := hinv.tgt i' X' t hold
      obtain ⟨I0', hI0', a1, a2⟩ := hs.statesRel ht hinv i' I0 hI0
      obtain ⟨J0', hJ0', b1, b2⟩ := hs.statesRel ht hinv t J0 hJ0
      refine ⟨I0', J0', hI0', hJ0', fun pd => ?_⟩
      rw [← KC_congr ht (CoresSub.of_subset a1) a2 X' pd, hkc pd, KJ_congr b1 b2 pd]
  · -- start
    obtain ⟨I0, hI0, hmem⟩ := hinv.start
    obtain ⟨I0', hI0', hsub', _⟩ := hs.statesRel ht hinv 0 I0 hI0
    exact ⟨I0', hI0', hsub' _ hmem⟩
  · -- sound
    intro i' I'' it h hit
    rcases hs.statesInv i' I'' h with ⟨_, hold⟩ | ⟨rfl, hmem⟩
    · exact LALRItem.mono hsub (hinv.sound i' I'' it hold hit)
    · rcases (hmem it).mp hit with hit | hit
      · rcases hs.oldJ with ⟨_, J, hJ, hJe⟩ | ⟨_, hnil⟩
        · rw [hJe] at hit
          exact LALRItem.mono hsub (hinv.sound i' J it hJ hit)
        · rw [hnil] at hit; cases hit
      · exact hTsound it ((hs.spec.mem it).mp hit)

/-- `stepSym` preserves the invariant. -/
theorem Inv.step (ht : TermsBelow G nT) (hinv : Inv G st) (h : stepSym G nT i st X = some st') :
    Inv G st' := by
  obtain ⟨I, T, j, hs⟩ := stepSym_spec ht hinv h
  exact hs.inv ht hinv

end

end Lox.LR.Cons
