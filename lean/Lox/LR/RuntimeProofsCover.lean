import Lox.LR.RuntimeProofsErrors
/-! C09: the coverage invariant `Cov` – the symbols consumed by `parse` (leaves of the stack,
bottom to top) followed by the pending lookaheads are the input tokens in order, with stretches
replaced by `Error`s. Runtime-only; the only table-level hypothesis is `NoShiftEOF`. -/
namespace Lox.LR.Rt

/-! ## Leaves -/

theorem leavesL_append : ∀ (a b : List Val), leavesL (a ++ b) = leavesL a ++ leavesL b
  | [], _ => rfl
  | v :: a, b => by simp only [List.cons_append, leavesL, leavesL_append a b, List.append_assoc]

theorem leaves_of_isLeaf {v : Val} (h : v.isLeaf = true) : leaves v = [v] := by
  cases v <;> simp_all [Val.isLeaf, leaves]

theorem stackLeaves_cons (e : Entry) (st : List Entry) :
    stackLeaves (e :: st) = stackLeaves st ++ leaves e.sym := by
  simp only [stackLeaves, List.reverse_cons, List.map_append, leavesL_append, List.map_cons,
    List.map_nil, leavesL, List.append_nil]

theorem stackLeaves_append (a b : List Entry) :
    stackLeaves (a ++ b) = stackLeaves b ++ stackLeaves a := by
  simp only [stackLeaves, List.reverse_append, List.map_append, leavesL_append]

/-- A reduction does not change the consumed symbols. -/
theorem stackLeaves_reduce (st : List Entry) (n : Nat) (ns : Int) (p : Nat) (b : Bounds) :
    stackLeaves ({ state := ns, sym := .node p ((st.take n).reverse.map (·.sym)), bounds := b } ::
      st.drop n) = stackLeaves st := by
  rw [stackLeaves_cons]
  conv => rhs; rw [← List.take_append_drop n st, stackLeaves_append]
  rfl

theorem stackLeaves_suffix {st st' : List Entry} (h : st' <:+ st) :
    ∃ rest, stackLeaves st = stackLeaves st' ++ rest := by
  obtain ⟨pre, rfl⟩ := h
  exact ⟨stackLeaves pre, stackLeaves_append pre st'⟩

/-! ## Chains -/

theorem chain_cons {x : Val} {l : List Val} :
    Chain (x :: l) ↔ (∀ y, l.head? = some y → LinkR x y) ∧ Chain l := by
  cases l with
  | nil => simp [Chain]
  | cons y r => simp [Chain]

theorem chain_append {a b : List Val} :
    Chain (a ++ b) ↔ Chain a ∧ Chain b ∧
      ∀ x y, a.getLast? = some x → b.head? = some y → LinkR x y := by
  induction a with
  | nil => simp [Chain]
  | cons x a ih =>
    rw [List.cons_append, chain_cons, chain_cons, ih]
    cases a with
    | nil =>
      simp only [List.nil_append, List.head?_nil, List.getLast?_singleton, Option.some.injEq]
      constructor
      · rintro ⟨h1, -, h2, -⟩
        exact ⟨⟨fun _ hc => (by cases hc), trivial⟩, h2, fun x' y hx hy => hx ▸ h1 y hy⟩
      · rintro ⟨-, h2, h3⟩
        exact ⟨fun y hy => h3 x y rfl hy, trivial, h2, fun _ _ hc => (by cases hc)⟩
    | cons z r =>
      simp only [List.cons_append, List.head?_cons, Option.some.injEq, List.getLast?_cons_cons]
      constructor
      · rintro ⟨h1, h2, h3, h4⟩
        exact ⟨⟨h1, h2⟩, h3, h4⟩
      · rintro ⟨⟨h1, h2⟩, h3, h4⟩
        exact ⟨h1, h2, h3, h4⟩

theorem LinkR.le {x y : Val} (h : LinkR x y) : lidx x ≤ lidx y := h.1

/-- Everything in a chain is at or before its last element, strictly for `Token`s. -/
theorem chain_le_last : ∀ {l : List Val} {z : Val}, Chain (l ++ [z]) →
    ∀ x ∈ l, lidx x ≤ lidx z ∧ (x.isErr = false → lidx x < lidx z)
  | [], _, _, _, hx => by cases hx
  | a :: l, z, h, x, hx => by
    rw [List.cons_append, chain_cons] at h
    have hrest := chain_le_last h.2
    cases l with
    | nil =>
      have hl := h.1 z rfl
      rcases List.mem_cons.mp hx with rfl | hx
      · exact ⟨hl.1, hl.2.1⟩
      · cases hx
    | cons b r =>
      have hab := h.1 b rfl
      have hb := hrest b List.mem_cons_self
      rcases List.mem_cons.mp hx with rfl | hx
      · exact ⟨Nat.le_trans hab.1 hb.1, fun hne => Nat.lt_of_lt_of_le (hab.2.1 hne) hb.1⟩
      · exact hrest x hx

/-! ## The lookahead part -/

theorem PInv.congr {inp : Array Nat} {s t : PState} (h : PInv inp s) (h1 : t.la = s.la)
    (h2 : t.lasym = s.lasym) (h3 : t.qla = s.qla) (h4 : t.qlasym = s.qlasym) (h5 : t.pos = s.pos) :
    PInv inp t := by
  obtain ⟨a1, a2, a3, a4, a5, a6⟩ := h
  refine ⟨?_, ?_, ?_, ?_, ?_, ?_⟩
  · unfold LaOK; rw [h2, h3, h4]; exact a1
  · rw [h1, h2]; exact a2
  · rw [h1, h2, h3, h4]; exact a3
  · rw [h2]; exact a4
  · rw [h3, h4]; exact a5
  · unfold PosOK lastRead; rw [h2, h3, h4, h5]; exact a6

theorem lexRead_fst (inp : Array Nat) (pos : Nat) :
    (lexRead inp pos).1 = .tok (if pos < inp.size then pos else inp.size) ((lexRead inp pos).2.toNat) ∧
    TokOK inp (lexRead inp pos).1 ∧ (lexRead inp pos).2 = leafTy (lexRead inp pos).1 := by
  unfold lexRead
  cases hi : inp[pos]? with
  | none =>
    have : ¬ pos < inp.size := by
      intro hlt
      rw [Array.getElem?_eq_getElem hlt] at hi; cases hi
    simp only [this, if_false]
    exact ⟨rfl, .inr ⟨rfl, rfl⟩, rfl⟩
  | some ty =>
    have hlt : pos < inp.size := (Array.getElem?_eq_some_iff.mp hi).1
    simp only [hlt, if_true]
    exact ⟨by simp, .inl hi, rfl⟩

/-- `_readToken` on the lookahead part: the invariant is kept, the queue is empty afterwards, and
the new lookahead is the queued one or the lexer's next symbol. -/
theorem readToken_PInv {T : Tables} {inp : Array Nat} {s s' : PState} (hs : PInv inp s)
    (h : readToken T inp s = .ok s') :
    PInv inp s' ∧ s'.qla = -1 ∧
    ((s.qla ≠ -1 ∧ s'.lasym = s.qlasym) ∨ (s.qla = -1 ∧ AdvR inp s.lasym s'.lasym)) := by
  have hlaok := readToken_LaOK' hs.laok h
  rw [readToken_eq] at h
  split at h
  · rename_i hq
    cases h
    obtain ⟨q1, q2, q3, q4⟩ := hs.qty hq
    refine ⟨⟨hlaok, q1, fun hc => absurd rfl hc, hs.tokQ hq, fun hc => absurd rfl hc, ?_⟩, rfl,
      .inl ⟨hq, rfl⟩⟩
    have := hs.pos
    simp only [PosOK, lastRead, hq, ne_eq, not_false_eq_true, if_true] at this
    simpa [PosOK, lastRead] using this
  · rename_i hq
    have hq' : s.qla = -1 := Decidable.not_not.mp hq
    obtain ⟨hfst, htok, hty⟩ := lexRead_fst inp s.pos
    have hpos := hs.pos
    simp only [PosOK, lastRead, hq', ne_eq, not_true_eq_false, if_false] at hpos
    -- facts about the symbol the lexer returns
    have hidx : lidx (lexRead inp s.pos).1 = if s.pos < inp.size then s.pos else inp.size := by
      rw [hfst]; rfl
    have hadv : AdvR inp s.lasym (lexRead inp s.pos).1 := by
      unfold AdvR; rw [hidx]
      split <;> omega
    have hpos' : PosOK inp (afterLex inp s) := by
      simp only [PosOK, lastRead, afterLex, hq', ne_eq, not_true_eq_false, if_false, hidx]
      split <;> omega
    split at h
    · rename_i hE
      split at h
      · cases h
      · rename_i e he
        cases h
        obtain ⟨i, ty, ks, hl, rfl⟩ := makeError_spec he
        have hl' : (lexRead inp s.pos).1 = .tok i ty := hl
        have hie : lidx (Val.err i ty ks) = lidx (lexRead inp s.pos).1 := by rw [hl']; rfl
        refine ⟨⟨hlaok, ?_, fun hc => absurd hq' hc, ?_, fun hc => absurd hq' hc, ?_⟩, hq', .inr ⟨hq', ?_⟩⟩
        · exact hE
        · rw [hl'] at htok; exact htok
        · simpa [PosOK, lastRead, afterLex, hq', hie] using hpos'
        · unfold AdvR; rw [hie]; exact hadv
    · cases h
      exact ⟨⟨hlaok, hty, fun hc => absurd hq' hc, htok, fun hc => absurd hq' hc, hpos'⟩, hq',
        .inr ⟨hq', hadv⟩⟩

theorem AdvR.le {inp : Array Nat} {x y : Val} (h : AdvR inp x y) : lidx x ≤ lidx y := by
  unfold AdvR at h; omega

theorem readToken_lidx_le {T : Tables} {inp : Array Nat} {s s' : PState} (hs : PInv inp s)
    (h : readToken T inp s = .ok s') : lidx s.lasym ≤ lidx s'.lasym := by
  rcases (readToken_PInv hs h).2.2 with ⟨hq, hl⟩ | ⟨-, hadv⟩
  · rw [hl]; exact (hs.qty hq).2.2.2
  · exact hadv.le

theorem Reads.PInv {T : Tables} {inp : Array Nat} {a b : PState} (h : Reads T inp a b)
    (ha : PInv inp a) : PInv inp b ∧ lidx a.lasym ≤ lidx b.lasym ∧ (a.qla = -1 → b.qla = -1) := by
  induction h with
  | refl => exact ⟨ha, Nat.le_refl _, id⟩
  | step h _ ih =>
    have h1 := readToken_PInv ha h
    have h2 := readToken_lidx_le ha h
    obtain ⟨i1, i2, i3⟩ := ih h1.1
    exact ⟨i1, Nat.le_trans h2 i2, fun _ => i3 h1.2.1⟩

/-! ## The coverage invariant -/

theorem pending_noq {s : PState} (h : s.qla = -1) : pending s = [s.lasym] := by
  simp [pending, h]

theorem pending_q {s : PState} (h : s.qla ≠ -1) : pending s = [s.lasym, s.qlasym] := by
  simp [pending, h]

/-- The state `parse` enters its loop with. -/
theorem init_Cov {T : Tables} {inp : Array Nat} {s1 : PState}
    (h : readToken T inp initState = .ok s1) : Cov inp s1 := by
  have hlaok := init_LaOK h
  have hst := (readToken_frame h).stack
  rw [readToken_eq] at h
  have hq0 : initState.qla = -1 := rfl
  simp only [hq0, ne_eq, not_true_eq_false, if_false] at h
  obtain ⟨hfst, htok, hty⟩ := lexRead_fst inp 0
  have hidx : lidx (lexRead inp initState.pos).1 = 0 := by
    show lidx (lexRead inp 0).1 = 0
    rw [hfst]
    show (if 0 < inp.size then 0 else inp.size) = 0
    split <;> omega
  have posOK_of : ∀ s' : PState, s'.qla = -1 → lidx s'.lasym = 0 →
      s'.pos = (if 0 < inp.size then 0 + 1 else 0) → PosOK inp s' := by
    intro s' hq hi hp
    simp only [PosOK, lastRead, hq, ne_eq, not_true_eq_false, if_false, hi, hp]
    split <;> omega
  have mk : ∀ s1 : PState, s1.stack = initState.stack → s1.qla = -1 → PInv inp s1 →
      lidx s1.lasym = 0 → Cov inp s1 := by
    intro s1 hstk hq hp hi
    have hsl : stackLeaves s1.stack = [] := by rw [hstk]; rfl
    refine ⟨hp, ?_, ?_, ?_⟩
    · rw [hsl, pending_noq hq]; trivial
    · rw [hsl, pending_noq hq]
      intro x hx _
      cases hx; exact hi
    · rw [hsl]; intro x hx; cases hx
  split at h
  · rename_i hE
    split at h
    · cases h
    · rename_i e he
      cases h
      obtain ⟨i, ty, ks, hl, rfl⟩ := makeError_spec he
      have hl' : (lexRead inp 0).1 = .tok i ty := hl
      have hie : lidx (Val.err i ty ks) = lidx (lexRead inp 0).1 := by rw [hl']; rfl
      refine mk _ rfl rfl ⟨hlaok, hE, fun hc => absurd rfl hc, ?_, fun hc => absurd rfl hc, ?_⟩ ?_
      · rw [hl'] at htok; exact htok
      · exact posOK_of _ rfl (by rw [hie]; exact hidx) rfl
      · rw [hie]; exact hidx
  · cases h
    exact mk _ rfl rfl ⟨hlaok, hty, fun hc => absurd rfl hc, htok, fun hc => absurd rfl hc,
      posOK_of _ rfl hidx rfl⟩ hidx

theorem reduce_Cov {inp : Array Nat} {s : PState} (hs : Cov inp s) (wb : Bool) (prod : Int) (n : Nat)
    (ns : Int) : Cov inp (reduceState s wb prod n ns) := by
  have hsl : stackLeaves (reduceState s wb prod n ns).stack = stackLeaves s.stack :=
    stackLeaves_reduce s.stack n ns prod.toNat _
  have hp : pending (reduceState s wb prod n ns) = pending s := rfl
  refine ⟨hs.pinv.congr rfl rfl rfl rfl rfl, ?_, ?_, ?_⟩
  · rw [hsl, hp]; exact hs.chain
  · rw [hsl, hp]; exact hs.head
  · rw [hsl]; exact hs.tok

theorem leafTy_ne_neg_one {v : Val} (h : v.isLeaf = true) : leafTy v ≠ -1 := by
  cases v with
  | nil => cases h
  | node => cases h
  | tok i ty => simp only [leafTy]; omega
  | err i ty ex => simp only [leafTy, tERROR]; omega

/-- A `Token` lookahead standing at `|inp|` is the EOF token. -/
theorem la_eof_of_idx_size {inp : Array Nat} {s : PState} (hp : PInv inp s)
    (he : s.lasym.isErr = false) (hi : lidx s.lasym = inp.size) : s.la = tEOF := by
  have hleaf := hp.laok.1
  have hty := hp.laty
  have htok := hp.tokLa
  cases hl : s.lasym with
  | nil => rw [hl] at hleaf; cases hleaf
  | node => rw [hl] at hleaf; cases hleaf
  | err => rw [hl] at he; cases he
  | tok i ty =>
    rw [hl] at hi htok hty
    have hi' : i = inp.size := hi
    rcases htok with h1 | ⟨-, h2⟩
    · rw [hi', Array.getElem?_eq_none (Nat.le_refl _)] at h1; cases h1
    · rw [hty, h2]; rfl

/-- Shift (of a lookahead that is not EOF) followed by `_readToken`. -/
theorem shift_Cov {T : Tables} {inp : Array Nat} {s s' : PState} (hs : Cov inp s) (a : Int) (ti : Nat)
    (hE : s.la ≠ tEOF) (hr : readToken T inp (shiftState s a ti) = .ok s') : Cov inp s' := by
  have hpt : PInv inp (shiftState s a ti) := hs.pinv.congr rfl rfl rfl rfl rfl
  obtain ⟨hp', hq', hcase⟩ := readToken_PInv hpt hr
  have hst : s'.stack = { state := a, sym := s.lasym, bounds := { b := ti, e := ti } } :: s.stack :=
    (readToken_frame hr).stack
  have hsl : stackLeaves s'.stack = stackLeaves s.stack ++ [s.lasym] := by
    rw [hst, stackLeaves_cons, leaves_of_isLeaf hs.pinv.laok.1]
  have htok : ∀ x ∈ stackLeaves s.stack ++ [s.lasym], TokOK inp x := by
    intro x hx
    rcases List.mem_append.mp hx with hx | hx
    · exact hs.tok x hx
    · rw [List.mem_singleton.mp hx]; exact hs.pinv.tokLa
  refine ⟨hp', ?_, ?_, ?_⟩
  · rw [hsl, pending_noq hq']
    rcases hcase with ⟨hq, hl⟩ | ⟨hq, hadv⟩
    · have hq2 : s.qla ≠ -1 := hq
      have hl2 : s'.lasym = s.qlasym := hl
      have := hs.chain
      rw [pending_q hq2] at this
      rw [hl2, List.append_assoc]; exact this
    · have hq2 : s.qla = -1 := hq
      have hadv2 : AdvR inp s.lasym s'.lasym := hadv
      have hc := hs.chain
      rw [pending_noq hq2] at hc
      rw [chain_append]
      refine ⟨hc, trivial, ?_⟩
      intro x y hx hy
      rw [List.getLast?_concat] at hx
      cases hx; cases hy
      rcases hadv2 with h1 | ⟨h1, h2⟩
      · exact ⟨by omega, fun _ => by omega, fun _ _ => by omega⟩
      · cases he : s.lasym.isErr with
        | true =>
          exact ⟨by omega, fun hc => (by rw [he] at hc; cases hc),
            fun hc => (by rw [he] at hc; cases hc)⟩
        | false => exact absurd (la_eof_of_idx_size hs.pinv he h1) hE
  · rw [hsl, pending_noq hq']
    intro x hx hne
    apply hs.head x _ hne
    cases hC : stackLeaves s.stack with
    | nil => rw [hC] at hx; simpa [pending] using hx
    | cons c r => rw [hC] at hx; simpa using hx
  · rw [hsl]; exact htok

theorem errSym_facts {T : Tables} {inp : Array Nat} {s : PState} {e : Val} (hp : PInv inp s)
    (he : errSymOf T s = .ok e) : e.isErr = true ∧ lidx e = lidx s.lasym ∧ TokOK inp e := by
  obtain ⟨i, ty, ex, rfl, hl | ⟨hl, -⟩⟩ := errSymOf_spec he
  · have := hp.tokLa; rw [hl] at this
    exact ⟨rfl, by rw [hl], this⟩
  · have := hp.tokLa; rw [hl] at this
    exact ⟨rfl, by rw [hl]; rfl, this⟩

/-- A successful `_recover()`. -/
theorem recover_Cov {T : Tables} {inp : Array Nat} {fuel : Nat} {s s' : PState} (hs : Cov inp s)
    (h : recover T inp fuel s = .ok s') : Cov inp s' := by
  obtain ⟨e, s0, s1, st, he, h0, hl0, h1, hst, rfl, -⟩ := recover_ok h
  obtain ⟨heErr, heIdx, heTok⟩ := errSym_facts hs.pinv he
  obtain ⟨hp0, hle0, -⟩ := h0.PInv hs.pinv
  have hq0 : s0.qla = -1 := by
    by_cases hq : s0.qla = -1
    · exact hq
    · exact absurd (hp0.qty hq).2.1 hl0
  obtain ⟨hp1, hle1, hq1⟩ := h1.PInv hp0
  have hq1 := hq1 hq0
  have hfr := (h0.trans h1).frame
  have hsuf : st <:+ s.stack := by rw [← hfr.stack]; exact (searchStack_ok hst).1
  obtain ⟨rest, hrest⟩ := stackLeaves_suffix hsuf
  have hla1 : s1.la ≠ -1 := by rw [hp1.laty]; exact leafTy_ne_neg_one hp1.laok.1
  -- the old chain bounds everything on the stack by the old lookahead
  have hcl : Chain (stackLeaves s.stack ++ [s.lasym]) := by
    have := hs.chain
    unfold pending at this
    rw [show s.lasym :: (if s.qla ≠ -1 then [s.qlasym] else []) =
      [s.lasym] ++ (if s.qla ≠ -1 then [s.qlasym] else []) from rfl, ← List.append_assoc] at this
    exact (chain_append.mp this).1
  have hbound := chain_le_last hcl
  have hC' : Chain (stackLeaves st) := by
    have := (chain_append.mp hcl).1
    rw [hrest] at this
    exact (chain_append.mp this).1
  have hpend : pending (injectErr s1 st e) = [e, s1.lasym] := by
    have : (injectErr s1 st e).qla ≠ -1 := hla1
    rw [pending_q this]; rfl
  refine ⟨⟨⟨isLeaf_of_isErr heErr, fun _ => hp1.laok.1⟩, ?_, ?_, heTok, fun _ => hp1.tokLa, ?_⟩,
    ?_, ?_, ?_⟩
  · show tERROR = leafTy e
    cases e <;> simp_all [Val.isErr, leafTy]
  · intro _
    exact ⟨hp1.laty, rfl, heErr, by show lidx e ≤ lidx s1.lasym; omega⟩
  · have := hp1.pos
    simp only [PosOK, lastRead, hq1, ne_eq, not_true_eq_false, if_false] at this
    have hq' : (injectErr s1 st e).qla ≠ -1 := hla1
    simp only [PosOK, lastRead, hq', ne_eq, not_false_eq_true, if_true]
    exact this
  · show Chain (stackLeaves st ++ pending (injectErr s1 st e))
    rw [hpend, chain_append]
    refine ⟨hC', ⟨⟨by omega, fun hc => ?_, fun hc => ?_⟩, trivial⟩, ?_⟩
    · rw [heErr] at hc; cases hc
    · rw [heErr] at hc; cases hc
    · intro x y hx hy
      cases hy
      have hxm : x ∈ stackLeaves s.stack := by
        rw [hrest]; exact List.mem_append_left _ (List.mem_of_getLast? hx)
      obtain ⟨b1, b2⟩ := hbound x hxm
      exact ⟨by omega, fun hne => by have := b2 hne; omega, fun _ hc => by rw [heErr] at hc; cases hc⟩
  · show ∀ x, (stackLeaves st ++ pending (injectErr s1 st e)).head? = some x → _
    rw [hpend]
    intro x hx hne
    cases hC : stackLeaves st with
    | nil =>
      rw [hC] at hx
      cases hx
      rw [heErr] at hne; cases hne
    | cons c r =>
      rw [hC] at hx
      apply hs.head x _ hne
      rw [hrest, hC]
      simpa using hx
  · intro x hx
    exact hs.tok x (by rw [hrest]; exact List.mem_append_left _ hx)

/-- Coverage is preserved by one iteration, provided the iteration does not shift EOF. -/
theorem step_Cov' {T : Tables} {inp : Array Nat} {wb : Bool} {fuel : Nat} {s s' : PState}
    (hE : ∀ top a, topState s.stack = some top → find T.actions top tEOF = .hit a →
      a = acceptCode ∨ a < 0)
    (hs : Cov inp s) (h : step T inp wb fuel s = .cont s') : Cov inp s' := by
  cases step_cont h with
  | recover _ _ hr => exact recover_Cov hs hr
  | @shift top action ti _ htop hf hacc hsh _ hr =>
    refine shift_Cov hs action ti ?_ hr
    intro hla
    rw [hla] at hf
    rcases hE _ _ htop hf with h1 | h1
    · exact hacc h1
    · omega
  | reduce => exact reduce_Cov hs wb _ _ _

/-- **Coverage is an invariant of the loop of `parse`** (EOF never shifted). -/
theorem step_Cov {T : Tables} (hT : NoShiftEOF T) {inp : Array Nat} {wb : Bool} {fuel : Nat}
    {s s' : PState} (hs : Cov inp s) (h : step T inp wb fuel s = .cont s') : Cov inp s' :=
  step_Cov' (fun _ _ _ hf => hT _ _ hf) hs h

theorem parseReach_Cov {T : Tables} (hT : NoShiftEOF T) {inp : Array Nat} {wb : Bool} {fuel : Nat}
    {s : PState} (h : ParseReach T inp wb fuel s) : Cov inp s := by
  obtain ⟨s1, h1, hr⟩ := h
  exact hr.inv (fun _ _ hp hs => step_Cov hT hp hs) (init_Cov h1)

/-! ## Reading the invariant -/

mutual
theorem leaves_isLeaf : ∀ (v : Val), ∀ x ∈ leaves v, x.isLeaf = true
  | .nil, x, hx => by cases hx
  | .tok _ _, x, hx => by rw [leaves, List.mem_singleton] at hx; rw [hx]; rfl
  | .err _ _ _, x, hx => by rw [leaves, List.mem_singleton] at hx; rw [hx]; rfl
  | .node _ kids, x, hx => by rw [leaves] at hx; exact leavesL_isLeaf kids x hx
theorem leavesL_isLeaf : ∀ (l : List Val), ∀ x ∈ leavesL l, x.isLeaf = true
  | [], x, hx => by cases hx
  | v :: vs, x, hx => by
    rw [leavesL] at hx
    rcases List.mem_append.mp hx with hx | hx
    · exact leaves_isLeaf v x hx
    · exact leavesL_isLeaf vs x hx
end

/-- A chain of `Token`s (no `Error`) starting at index `k` is contiguous. -/
theorem chain_tok_range : ∀ (L : List Val) (k : Nat), Chain L → (∀ x ∈ L, x.isErr = false) →
    (∀ x, L.head? = some x → lidx x = k) → L.map lidx = List.range' k L.length
  | [], _, _, _, _ => rfl
  | x :: r, k, hc, hne, hh => by
    rw [chain_cons] at hc
    have hx : lidx x = k := hh x rfl
    have ih := chain_tok_range r (k + 1) hc.2 (fun y hy => hne y (List.mem_cons_of_mem _ hy))
      (fun y hy => by
        have := (hc.1 y hy).2.2 (hne x List.mem_cons_self)
          (hne y (List.mem_cons_of_mem _ (List.mem_of_mem_head? hy)))
        omega)
    simp only [List.map_cons, List.length_cons, List.range'_succ, hx, ih]

/-- **No `Error` consumed ⇒ the consumed symbols are exactly the input.** In a state whose
lookahead is the EOF token at `|inp|` with nothing queued, if no `Error` is among the consumed
symbols then they are `tok 0 inp[0], …, tok (n-1) inp[n-1]`. -/
theorem Cov.consumed_eq_input {inp : Array Nat} {s : PState} (hs : Cov inp s)
    (hq : s.qla = -1) (hla : s.lasym.isErr = false) (hidx : lidx s.lasym = inp.size)
    (hne : ∀ x ∈ stackLeaves s.stack, x.isErr = false) :
    (stackLeaves s.stack).length = inp.size ∧
    ∀ (i : Nat) (h : i < inp.size), (stackLeaves s.stack)[i]? = some (.tok i inp[i]) := by
  have hc := hs.chain
  have hh := hs.head
  rw [pending_noq hq] at hc hh
  have hall : ∀ x ∈ stackLeaves s.stack ++ [s.lasym], x.isErr = false := by
    intro x hx
    rcases List.mem_append.mp hx with hx | hx
    · exact hne x hx
    · rw [List.mem_singleton.mp hx]; exact hla
  have hr := chain_tok_range _ 0 hc hall (fun x hx => hh x hx (hall x (List.mem_of_mem_head? hx)))
  simp only [List.map_append, List.map_cons, List.map_nil, List.length_append, List.length_cons,
    List.length_nil, Nat.zero_add] at hr
  rw [List.range'_1_concat] at hr
  obtain ⟨hmap, hlast⟩ := List.append_inj' hr rfl
  have hlen : (stackLeaves s.stack).length = inp.size := by
    simp only [List.cons.injEq, and_true] at hlast
    omega
  refine ⟨hlen, ?_⟩
  intro i hi
  have hi' : i < (stackLeaves s.stack).length := by omega
  have hx : (stackLeaves s.stack)[i] ∈ stackLeaves s.stack := List.getElem_mem hi'
  have hidx' : lidx (stackLeaves s.stack)[i] = i := by
    have := congrArg (fun l => l[i]?) hmap
    simp only [List.getElem?_map, List.getElem?_eq_getElem hi', Option.map_some,
      List.getElem?_range' hi'] at this
    have := Option.some.inj this
    omega
  have hleaf := leavesL_isLeaf _ _ hx
  have hnerr := hne _ hx
  have htok := hs.tok _ hx
  rw [List.getElem?_eq_getElem hi']
  cases hv : (stackLeaves s.stack)[i] with
  | nil => rw [hv] at hleaf; cases hleaf
  | node => rw [hv] at hleaf; cases hleaf
  | err => rw [hv] at hnerr; cases hnerr
  | tok j ty =>
    rw [hv] at hidx' htok
    have hj : j = i := hidx'
    subst hj
    rcases htok with h1 | ⟨h1, -⟩
    · rw [Array.getElem?_eq_getElem hi] at h1
      cases h1; rfl
    · omega

end Lox.LR.Rt
