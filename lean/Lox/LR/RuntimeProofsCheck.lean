import Lox.LR.RuntimeDefs
/-! Soundness of the small table checkers `noShiftEOFB` / `acceptOnlyEOFB` behind the
table-level hypotheses of the C09 theorems. -/
namespace Lox.LR.Rt

theorem rowAll_sound {tbl : Array Int} {P : Int → Int → Bool} {x v : Int} :
    ∀ (n : Nat) (i stop : Int), findScan tbl x n i stop = .hit v →
      rowAll tbl P n i stop = true → P x v = true
  | 0, _, _, h, _ => by simp [findScan] at h
  | n + 1, i, stop, h, ha => by
    unfold findScan at h
    unfold rowAll at ha
    by_cases hlt : i < stop
    · simp only [hlt, if_true] at h ha
      cases hk : geti tbl i with
      | none => simp only [hk] at h; cases h
      | some k =>
        simp only [hk, Bool.and_eq_true] at h ha
        by_cases hkx : k = x
        · simp only [hkx, if_true] at h
          cases hv : geti tbl (i + 1) with
          | none => simp only [hv] at h; cases h
          | some w =>
            simp only [hv] at h ha
            cases h
            rw [← hkx]; exact ha.1
        · simp only [hkx, if_false] at h
          exact rowAll_sound n (i + 2) stop h ha.2
    · simp only [hlt, if_false] at h; cases h

theorem findAll_sound {tbl : Array Int} {P : Int → Int → Bool} {y x v : Int}
    (h : find tbl y x = .hit v) (ha : findAll tbl P y = true) : P x v = true := by
  unfold find at h
  unfold findAll at ha
  cases hy : geti tbl y with
  | none => simp only [hy] at h; cases h
  | some i =>
    simp only [hy] at h ha
    cases hc : geti tbl i with
    | none => simp only [hc] at h; cases h
    | some count =>
      simp only [hc] at h ha
      exact rowAll_sound _ _ _ h ha

theorem find_hit_in_range {tbl : Array Int} {y x v : Int} (h : find tbl y x = .hit v) :
    0 ≤ y ∧ y.toNat < tbl.size := by
  unfold find at h
  cases hy : geti tbl y with
  | none => simp only [hy] at h; cases h
  | some i =>
    unfold geti at hy
    split at hy
    · cases hy
    · have := Array.getElem?_eq_some_iff.mp hy
      obtain ⟨hlt, -⟩ := this
      exact ⟨by omega, hlt⟩

theorem allStates_sound {tbl : Array Int} {P : Int → Int → Bool}
    (hall : ((List.range tbl.size).all fun k => findAll tbl P (k : Int)) = true)
    {y x v : Int} (h : find tbl y x = .hit v) : P x v = true := by
  obtain ⟨h0, hlt⟩ := find_hit_in_range h
  have := List.all_eq_true.mp hall y.toNat (List.mem_range.mpr hlt)
  have hy : ((y.toNat : Nat) : Int) = y := by omega
  rw [hy] at this
  exact findAll_sound h this

theorem noShiftEOFB_sound {T : Tables} (h : noShiftEOFB T = true) : NoShiftEOF T := by
  intro st v hf
  have := allStates_sound (P := fun key v => key != tEOF || v == acceptCode || decide (v < 0)) h hf
  simp only [bne_self_eq_false, Bool.false_or, Bool.or_eq_true, beq_iff_eq, decide_eq_true_eq] at this
  exact this

theorem acceptOnlyEOFB_sound {T : Tables} (h : acceptOnlyEOFB T = true) : AcceptOnlyEOF T := by
  intro st la hf
  have := allStates_sound (P := fun key v => v != acceptCode || key == tEOF) h hf
  simpa using this

end Lox.LR.Rt
