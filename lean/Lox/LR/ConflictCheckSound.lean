import Lox.LR.ConflictCheck
import Lox.LR.LALRExact
/-! Soundness of the table-free validator `conflictCheckB` (`Lox/LR/ConflictCheck.lean`):
`conflict_check_sound` – on a certificate and transitions that pass, the item set of every state
is its LALR(1) item set BY DEFINITION (`LALRItem` over the skeleton `skelAuto tr cert`), the
skeleton is deterministic and total on viable prefixes, and it satisfies `Closed`, `Safe`,
`EdgesBacked`, `KernelsDistinct` (so all lemmas of `LALRExact.lean` apply). -/
namespace Lox.LR

/-! ### The skeleton -/

theorem lookupSym_mem {X : Sym} {s : Nat} : ∀ {row : List (Sym × Nat)},
    lookupSym X row = some s → (X, s) ∈ row
  | [], h => by simp [lookupSym] at h
  | (Y, t) :: r, h => by
    simp only [lookupSym] at h
    split at h
    · next e => cases h; subst e; simp
    · exact List.mem_cons_of_mem _ (lookupSym_mem h)

theorem trans_skel (tr : TransTab) (cert : Array (List Item)) (s : Nat) (X : Sym) :
    trans (skelAuto tr cert) s X = lookupSym X (rowOfT tr s) := by
  cases X with
  | t a =>
    simp only [trans, skelAuto]
    cases lookupSym (.t a) (rowOfT tr s) <;> rfl
  | n B => rfl

theorem mem_rowOfT {tr : TransTab} {s : Nat} {e : Sym × Nat} (h : e ∈ rowOfT tr s) :
    s < tr.size := by
  simp only [rowOfT] at h
  by_cases hs : s < tr.size
  · exact hs
  · simp [Array.getElem?_eq_none (Nat.le_of_not_lt hs)] at h

@[simp] theorem items_skel (tr : TransTab) (cert : Array (List Item)) (s : Nat) :
    (skelAuto tr cert).items s = itemsOf cert s := rfl

/-! ### Unpacking the per-item check -/

theorem gotoCB_spec {tr : TransTab} {cert : Array (List Item)} {s : Nat} {it : Item} {X : Sym}
    (h : gotoCB tr cert s it X = true) :
    ∃ s', lookupSym X (rowOfT tr s) = some s' ∧
      (⟨it.p, it.d + 1, it.a⟩ : Item) ∈ itemsOf cert s' := by
  unfold gotoCB at h
  cases hl : lookupSym X (rowOfT tr s) with
  | none => simp [hl] at h
  | some s' =>
    simp only [hl] at h
    exact ⟨s', rfl, hasItem_iff.mp h⟩

theorem closureCB_spec {G : Grammar} {F : FirstTab} {d0 : Array (List Nat)} {pr : Prod} {it : Item}
    {B : Nat} (h : closureCB G F d0 pr it B = true) {q : Nat} {qr : Prod} {b : Nat}
    (hq : G.prods[q]? = some qr) (hl : qr.lhs = B)
    (hb : b ∈ firstOf F (pr.rhs.drop (it.d + 1)) it.a) : b ∈ d0[q]?.getD [] := by
  simp only [closureCB, List.all_eq_true, List.mem_range] at h
  have hqlt : q < G.prods.size := by
    rcases Array.getElem?_eq_some_iff.mp hq with ⟨hlt, _⟩; exact hlt
  have := h q hqlt
  simp only [hq, Bool.or_eq_true, bne_iff_ne, ne_eq, List.all_eq_true, decide_eq_true_eq] at this
  rcases this with this | this
  · exact absurd hl this
  · exact this b hb

structure ShapeOK (tr : TransTab) (s : Nat) (it : Item) (pr : Prod) : Prop where
  gotoDef : it.d = 0 → it.p ≠ 0 → ∃ s', lookupSym (.n pr.lhs) (rowOfT tr s) = some s'
  startOnly : it.p = 0 → it.d = 0 → s = 0
  s0 : s = 0 → it.d = 0
  p0 : it.p = 0 → it.a = 0

theorem shapeCB_spec {tr : TransTab} {s : Nat} {it : Item} {pr : Prod}
    (h : shapeCB tr s it pr = true) : ShapeOK tr s it pr := by
  simp only [shapeCB, Bool.and_eq_true, Bool.or_eq_true, bne_iff_ne, ne_eq, beq_iff_eq,
    Bool.not_eq_true', Bool.and_eq_false_iff, beq_eq_false_iff_ne] at h
  obtain ⟨⟨⟨h1, h2⟩, h3⟩, h4⟩ := h
  refine ⟨fun hd hp => ?_, fun hp hd => ?_, fun hs => ?_, fun hp => ?_⟩
  · rcases h1 with (h1 | h1) | h1
    · exact absurd hd h1
    · exact absurd h1 hp
    · exact Option.isSome_iff_exists.mp h1
  · rcases h2 with (h2 | h2) | h2
    · exact absurd hp h2
    · exact absurd hd h2
    · exact h2
  · rcases h3 with h3 | h3
    · exact absurd hs h3
    · exact h3
  · rcases h4 with h4 | h4
    · exact absurd hp h4
    · exact h4

/-- What `itemCB` establishes for one item. -/
structure ItemCOK (G : Grammar) (nTerms : Nat) (F : FirstTab) (tr : TransTab)
    (cert : Array (List Item)) (s : Nat) (it : Item) (pr : Prod) : Prop where
  la : it.a < nTerms
  step : ∀ X, pr.rhs[it.d]? = some X → ∃ s', lookupSym X (rowOfT tr s) = some s' ∧
    (⟨it.p, it.d + 1, it.a⟩ : Item) ∈ itemsOf cert s'
  closure : ∀ (B q : Nat) (qr : Prod) (b : Nat), pr.rhs[it.d]? = some (.n B) →
    G.prods[q]? = some qr → qr.lhs = B →
    b ∈ firstOf F (pr.rhs.drop (it.d + 1)) it.a → (⟨q, 0, b⟩ : Item) ∈ itemsOf cert s
  dot : it.d ≤ pr.rhs.length
  shape : ShapeOK tr s it pr

theorem itemCB_spec {G : Grammar} {nTerms : Nat} {F : FirstTab} {tr : TransTab}
    {cert : Array (List Item)} {s : Nat} {it : Item}
    (h : itemCB G nTerms F tr cert s (dot0Of (itemsOf cert s) G.prods.size) it = true) :
    ∃ pr, G.prods[it.p]? = some pr ∧ ItemCOK G nTerms F tr cert s it pr := by
  unfold itemCB at h
  simp only [Bool.and_eq_true, decide_eq_true_eq] at h
  obtain ⟨hla, h⟩ := h
  cases hp : G.prods[it.p]? with
  | none => simp [hp] at h
  | some pr =>
    refine ⟨pr, rfl, ?_⟩
    simp only [hp, Bool.and_eq_true] at h
    obtain ⟨h1, hsh⟩ := h
    have hshape := shapeCB_spec hsh
    cases hx : pr.rhs[it.d]? with
    | none =>
      simp only [hx, beq_iff_eq] at h1
      exact ⟨hla, (by intro X h; rw [hx] at h; cases h), (by intro B q qr b h; rw [hx] at h; cases h),
        (by omega), hshape⟩
    | some X =>
      have hd : it.d ≤ pr.rhs.length := by
        rcases List.getElem?_eq_some_iff.mp hx with ⟨hlt, _⟩; omega
      cases X with
      | t x =>
        simp only [hx] at h1
        refine ⟨hla, ?_, (by intro B q qr b h; rw [hx] at h; cases h), hd, hshape⟩
        intro X hX
        rw [hx] at hX; cases hX
        exact gotoCB_spec h1
      | n B =>
        simp only [hx, Bool.and_eq_true] at h1
        refine ⟨hla, ?_, ?_, hd, hshape⟩
        · intro X hX
          rw [hx] at hX; cases hX
          exact gotoCB_spec h1.1
        · intro B' q qr b hB' hq hl hb
          rw [hx] at hB'; cases hB'
          exact dot0Of_mem (closureCB_spec h1.2 hq hl hb)

/-! ### Unpacking the per-edge check -/

structure EdgeOK (G : Grammar) (cert : Array (List Item)) (s : Nat) (X : Sym) (s' : Nat) : Prop where
  noEof : X ≠ .t 0
  back : backB G cert s X s' = true
  called : ∃ it ∈ itemsOf cert s, ∃ pr, G.prods[it.p]? = some pr ∧ pr.rhs[it.d]? = some X

theorem edgeCB_spec {G : Grammar} {cert : Array (List Item)} {s : Nat} {X : Sym} {s' : Nat}
    (h : edgeCB G cert s X s' = true) : EdgeOK G cert s X s' := by
  simp only [edgeCB, Bool.and_eq_true, bne_iff_ne, ne_eq] at h
  exact ⟨h.1.1, h.1.2, hasNext_spec h.2⟩

/-! ### `closedSkelB` -/

/-- What `closedSkelB` establishes. -/
structure SkelOK (G : Grammar) (nTerms nRules : Nat) (tr : TransTab) (cert : Array (List Item)) :
    Prop where
  prod0 : prod0B G = true
  closedF : closedB G (firstFix G nTerms nRules) = true
  size : tr.size = cert.size
  start : (⟨0, 0, 0⟩ : Item) ∈ itemsOf cert 0
  items : ∀ s it, it ∈ itemsOf cert s →
    ∃ pr, G.prods[it.p]? = some pr ∧ ItemCOK G nTerms (firstFix G nTerms nRules) tr cert s it pr
  edges : ∀ s X s', lookupSym X (rowOfT tr s) = some s' → EdgeOK G cert s X s'

theorem closedSkelB_spec {G : Grammar} {nTerms nRules : Nat} {tr : TransTab}
    {cert : Array (List Item)} (h : closedSkelB G nTerms nRules tr cert = true) :
    SkelOK G nTerms nRules tr cert := by
  simp only [closedSkelB, Bool.and_eq_true, beq_iff_eq, List.all_eq_true, List.mem_range] at h
  obtain ⟨⟨⟨⟨h1, h2⟩, h3⟩, h4⟩, h5⟩ := h
  refine ⟨h1, h2, h3, hasItem_iff.mp h4, ?_, ?_⟩
  · intro s it hit
    have hs := h5 s (mem_itemsOf hit)
    simp only [skelStateB, Bool.and_eq_true, List.all_eq_true] at hs
    exact itemCB_spec (hs.1 it hit)
  · intro s X s' hl
    have hmem := lookupSym_mem hl
    have hslt : s < cert.size := h3 ▸ mem_rowOfT hmem
    have hs := h5 s hslt
    simp only [skelStateB, Bool.and_eq_true, List.all_eq_true] at hs
    exact edgeCB_spec (hs.2 _ hmem)

section
variable {G : Grammar} {nTerms nRules : Nat} {tr : TransTab} {cert : Array (List Item)}

theorem SkelOK.closed (h : SkelOK G nTerms nRules tr cert) : Closed G (skelAuto tr cert) where
  start := h.start
  step := by
    intro s it pr X hit hp hX
    obtain ⟨pr', hp', hok⟩ := h.items s it hit
    rw [hp] at hp'; cases hp'
    obtain ⟨s', hl, hmem⟩ := hok.step X hX
    exact ⟨s', by rw [trans_skel]; exact hl, hmem⟩
  closure := by
    intro s it pr B q qr b hit hp hX hq hl hf
    obtain ⟨pr', hp', hok⟩ := h.items s it hit
    rw [hp] at hp'; cases hp'
    exact hok.closure B q qr b hX hq hl (first_complete h.closedF hf)

theorem SkelOK.edgesBacked (h : SkelOK G nTerms nRules tr cert) :
    EdgesBacked G (skelAuto tr cert) := by
  intro s X s' htr
  rw [trans_skel] at htr
  exact (h.edges s X s' htr).called

theorem SkelOK.safe (h : SkelOK G nTerms nRules tr cert) : Safe G (skelAuto tr cert) where
  prod0 := prod0B_spec h.prod0
  s0 := by
    intro it hit
    obtain ⟨pr, _, hok⟩ := h.items 0 it hit
    exact hok.shape.s0 rfl
  noIn := by
    intro s X htr
    rw [trans_skel] at htr
    exact (backB_spec (h.edges s X 0 htr).back).1 rfl
  back := by
    intro s X s' it htr hit hd
    rw [trans_skel] at htr
    exact (backB_spec (h.edges s X s' htr).back).2.2 it hit hd
  red := by
    intro s a p hact
    simp only [skelAuto] at hact
    cases hl : lookupSym (.t a) (rowOfT tr s) <;> simp [hl] at hact
  acc := by
    intro s a hact
    simp only [skelAuto] at hact
    cases hl : lookupSym (.t a) (rowOfT tr s) <;> simp [hl] at hact
  startOnly := by
    intro s a hit
    obtain ⟨pr, _, hok⟩ := h.items s _ hit
    exact hok.shape.startOnly rfl rfl
  noShiftEof := by
    intro s s' hact
    simp only [skelAuto, eof] at hact
    cases hl : lookupSym (.t 0) (rowOfT tr s) with
    | none => simp [hl] at hact
    | some s'' => exact (h.edges s _ s'' hl).noEof rfl
  gotoDef := by
    intro s it pr hit hd hp0 hp
    obtain ⟨pr', hp', hok⟩ := h.items s it hit
    rw [hp] at hp'; cases hp'
    exact hok.shape.gotoDef hd hp0

end

/-! ### `justSkelWith` -/

/-- What the validator establishes. -/
structure ConflictOK (G : Grammar) (nTerms nRules : Nat) (tr : TransTab)
    (cert : Array (List Item)) : Prop where
  skel : SkelOK G nTerms nRules tr cert
  justd : ∀ s it, it ∈ itemsOf cert s → Justd G (skelAuto tr cert) s it
  kernels : KernelsDistinct (skelAuto tr cert) cert.size

theorem justSkelWith_spec {G : Grammar} {tr : TransTab} {cert : Array (List Item)} {R : RankTab}
    {rk : Nat → Item → Nat} {jf : Nat → Item → Just} (h : justSkelWith G tr cert R rk jf = true) :
    (∀ s it, it ∈ itemsOf cert s → Justd G (skelAuto tr cert) s it) ∧
      KernelsDistinct (skelAuto tr cert) cert.size := by
  simp only [justSkelWith, Bool.and_eq_true] at h
  obtain ⟨⟨h1, h2⟩, h3⟩ := h
  refine ⟨itemsJustB_sound h1 (fun s it hit => mem_itemsOf hit) h2, ?_⟩
  exact kernelsDistinctB_sound (T := default) h3

theorem conflictCheckB_spec {G : Grammar} {nTerms nRules : Nat} {tr : TransTab}
    {cert : Array (List Item)} (h : conflictCheckB G nTerms nRules tr cert = true) :
    ConflictOK G nTerms nRules tr cert := by
  simp only [conflictCheckB, Bool.and_eq_true] at h
  obtain ⟨h1, h2⟩ := h
  unfold justSkelB at h2
  obtain ⟨hj, hk⟩ := justSkelWith_spec h2
  exact ⟨closedSkelB_spec h1, hj, hk⟩

section
variable {G : Grammar} {nTerms nRules : Nat} {tr : TransTab} {cert : Array (List Item)}

/-- **Soundness of the table-free validator.** For every state `s`, the generator's item set is
the LALR(1) item set of `s` by definition. -/
theorem ConflictOK.items_exact (h : ConflictOK G nTerms nRules tr cert) (s : Nat) (it : Item) :
    it ∈ itemsOf cert s ↔ LALRItem G (skelAuto tr cert) s it :=
  ⟨fun hit => (h.justd s it hit).lalr, LALRItem.mem h.skel.closed⟩

/-- Every viable prefix (a prefix some LR(1) item is valid for) reaches exactly one state, and the
item is in that state's set. -/
theorem ConflictOK.prefix_state (h : ConflictOK G nTerms nRules tr cert) {γ : List Sym} {it : Item}
    (hit : LR1Item G γ it) :
    ∃ s, Path (skelAuto tr cert) 0 γ s ∧ (∀ s', Path (skelAuto tr cert) 0 γ s' → s' = s) ∧
      s < cert.size ∧ it ∈ itemsOf cert s := by
  obtain ⟨s, hpath, hmem⟩ := hit.in_state h.skel.closed
  exact ⟨s, hpath, fun s' hp' => hp'.det hpath, mem_itemsOf hmem, hmem⟩

end

end Lox.LR
