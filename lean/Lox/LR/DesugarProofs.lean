import Lox.LR.SugarSpec
import Lox.LR.Complete
/-! Helper lemmas for `Lox.Props.C01.sugar_lang` and `Lox.Props.C03.sugar_values`:
what the helper list computed by `SGrammar.helpers` contains, which productions the desugared
grammar has, and the two inclusions between `SDer` and `Der (desugar SG).1`. -/
namespace Lox.LR

/-! ### Generic grammar lemmas -/

theorem Der.single {G : Grammar} {q : Nat} {pr : Prod} {w ts} (hq : G.prods[q]? = some pr)
    (h : Der G pr.rhs w ts) : Der G [.n pr.lhs] w [.node q ts] := by
  have := Der.nonterm hq h Der.nil
  simpa using this

theorem Der.of_mem {G : Grammar} {P : Nat} {rhs : List Sym} {w ts}
    (hm : (⟨P, rhs⟩ : Prod) ∈ G.prods.toList) (h : Der G rhs w ts) : ∃ t, Der G [.n P] w [t] := by
  obtain ⟨q, hq⟩ := List.getElem?_of_mem hm
  rw [Array.getElem?_toList] at hq
  exact ⟨_, Der.single (pr := ⟨P, rhs⟩) hq h⟩

/-- Left-recursive repetition `P → P X | X` derives every non-empty sequence of `X`s. -/
theorem der_plus_chain {G : Grammar} {P : Nat} {X : Sym}
    (h1 : (⟨P, [.n P, X]⟩ : Prod) ∈ G.prods.toList) (h2 : (⟨P, [X]⟩ : Prod) ∈ G.prods.toList)
    (ws : List (List Nat)) (hne : ws ≠ []) (hall : ∀ v ∈ ws, ∃ ts, Der G [X] v ts) :
    ∃ t, Der G [.n P] ws.flatten [t] := by
  have aux : ∀ (ws : List (List Nat)) (w0 : List Nat) (t0 : Tree), Der G [.n P] w0 [t0] →
      (∀ v ∈ ws, ∃ ts, Der G [X] v ts) → ∃ t, Der G [.n P] (w0 ++ ws.flatten) [t] := by
    intro ws
    induction ws with
    | nil => intro w0 t0 h0 _; exact ⟨t0, by simpa using h0⟩
    | cons v ws ih =>
      intro w0 t0 h0 hall
      obtain ⟨ts, hv⟩ := hall v (by simp)
      obtain ⟨t1, h1'⟩ := Der.of_mem h1 (h0.append hv)
      obtain ⟨t, ht⟩ := ih (w0 ++ v) t1 h1' (fun u hu => hall u (by simp [hu]))
      exact ⟨t, by simpa [List.append_assoc] using ht⟩
  match ws, hne, hall with
  | v :: ws, _, hall =>
    obtain ⟨ts, hv⟩ := hall v (by simp)
    obtain ⟨t0, h0⟩ := Der.of_mem h2 hv
    obtain ⟨t, ht⟩ := aux ws v t0 h0 (fun u hu => hall u (by simp [hu]))
    exact ⟨t, by simpa using ht⟩

/-- Left-recursive separated list `P → P S X | X` derives `X (S X)*`. -/
theorem der_list_chain {G : Grammar} {P : Nat} {X S : Sym}
    (h1 : (⟨P, [.n P, S, X]⟩ : Prod) ∈ G.prods.toList) (h2 : (⟨P, [X]⟩ : Prod) ∈ G.prods.toList)
    (v : List Nat) (ws : List (List Nat × List Nat)) (hv : ∃ ts, Der G [X] v ts)
    (hs : ∀ p ∈ ws, ∃ ts, Der G [S] p.1 ts) (hx : ∀ p ∈ ws, ∃ ts, Der G [X] p.2 ts) :
    ∃ t, Der G [.n P] (v ++ (ws.map fun p => p.1 ++ p.2).flatten) [t] := by
  have aux : ∀ (ws : List (List Nat × List Nat)) (w0 : List Nat) (t0 : Tree), Der G [.n P] w0 [t0] →
      (∀ p ∈ ws, ∃ ts, Der G [S] p.1 ts) → (∀ p ∈ ws, ∃ ts, Der G [X] p.2 ts) →
      ∃ t, Der G [.n P] (w0 ++ (ws.map fun p => p.1 ++ p.2).flatten) [t] := by
    intro ws
    induction ws with
    | nil => intro w0 t0 h0 _ _; exact ⟨t0, by simpa using h0⟩
    | cons p ws ih =>
      intro w0 t0 h0 hs hx
      obtain ⟨ts1, hp1⟩ := hs p (by simp)
      obtain ⟨ts2, hp2⟩ := hx p (by simp)
      obtain ⟨t1, h1'⟩ := Der.of_mem h1 (h0.append (hp1.append hp2))
      obtain ⟨t, ht⟩ := ih (w0 ++ (p.1 ++ p.2)) t1 h1' (fun u hu => hs u (by simp [hu]))
        (fun u hu => hx u (by simp [hu]))
      exact ⟨t, by simpa [List.append_assoc] using ht⟩
  obtain ⟨ts, hv⟩ := hv
  obtain ⟨t0, h0⟩ := Der.of_mem h2 hv
  exact aux ws v t0 h0 hs hx

/-! ### Names identify atoms and helper keys -/

theorem nodup_getElem?_inj {α} {l : List α} (hn : l.Nodup) {i j : Nat} {a : α}
    (hi : l[i]? = some a) (hj : l[j]? = some a) : i = j := by
  induction l generalizing i j with
  | nil => simp at hi
  | cons b l ih =>
    rw [List.nodup_cons] at hn
    cases i with
    | zero =>
      cases j with
      | zero => rfl
      | succ j =>
        simp at hi hj
        subst hi
        exact absurd (List.mem_of_getElem? hj) hn.1
    | succ i =>
      cases j with
      | zero =>
        simp at hi hj
        subst hj
        exact absurd (List.mem_of_getElem? hi) hn.1
      | succ j =>
        simp at hi hj
        rw [ih hn.2 hi hj]

/-- Position of an atom's name in `allNames`. -/
def SGrammar.atomIdx (SG : SGrammar) : Atom → Nat
  | .tok a => a
  | .rule A => SG.tokens.length + A
  | .err => SG.tokens.length + SG.rules.length

theorem SGrammar.allNames_atomIdx (SG : SGrammar) {x : Atom} (hx : x.inRange SG = true) :
    SG.allNames[SG.atomIdx x]? = some (SG.atomName x) := by
  cases x with
  | tok a =>
    simp [Atom.inRange] at hx
    simp [SGrammar.allNames, SGrammar.atomIdx, SGrammar.atomName, List.getElem?_append_left hx,
      List.getElem?_eq_getElem hx]
  | rule A =>
    simp [Atom.inRange] at hx
    simp [SGrammar.allNames, SGrammar.atomIdx, SGrammar.atomName, List.getElem?_append_right,
      List.getElem?_append_left, hx]
  | err =>
    simp [SGrammar.allNames, SGrammar.atomIdx, SGrammar.atomName]

theorem SGrammar.atomName_inj (SG : SGrammar) (hn : SG.allNames.Nodup) {x y : Atom}
    (hx : x.inRange SG = true) (hy : y.inRange SG = true) (h : SG.atomName x = SG.atomName y) :
    x = y := by
  have h1 := SG.allNames_atomIdx hx
  have h2 := SG.allNames_atomIdx hy
  rw [h] at h1
  have := nodup_getElem?_inj hn h1 h2
  cases x <;> cases y <;> simp [SGrammar.atomIdx, Atom.inRange] at this hx hy ⊢ <;> omega

/-- Both atoms of the key are defined. -/
def HKey.ok (SG : SGrammar) (k : HKey) : Prop := k.x.inRange SG = true ∧ k.sep.inRange SG = true

theorem HKey.nm_inj {SG : SGrammar} (hn : SG.allNames.Nodup) {h k : HKey} (hh : h.ok SG)
    (hk : k.ok SG) (e : h.nm SG = k.nm SG) : h = k := by
  have e1 : h.kind = k.kind := congrArg Prod.fst e
  have e2 : SG.atomName h.x = SG.atomName k.x := congrArg (fun p => p.2.1) e
  have e3 : SG.atomName h.sep = SG.atomName k.sep := congrArg (fun p => p.2.2) e
  have f2 := SG.atomName_inj hn hh.1 hk.1 e2
  have f3 := SG.atomName_inj hn hh.2 hk.2 e3
  cases h; cases k
  simp_all

theorem HKey.dep_ok {SG : SGrammar} {k d : HKey} (hk : k.ok SG) (hd : k.dep = some d) : d.ok SG := by
  cases k with | mk kind x sep =>
  cases kind <;> simp [HKey.dep] at hd <;> subst hd <;> simp_all [HKey.ok]

/-! ### `lookupH` -/

theorem lookupH_isSome {SG : SGrammar} {k : HKey} {H : List HKey} :
    (lookupH SG k H).isSome = true ↔ ∃ h ∈ H, h.nm SG = k.nm SG := by
  induction H with
  | nil => simp [lookupH]
  | cons h H ih =>
    simp only [lookupH]
    split
    · simp_all
    · simp_all

theorem lookupH_some {SG : SGrammar} {k : HKey} {H : List HKey} {i : Nat}
    (h : lookupH SG k H = some i) : ∃ h', H[i]? = some h' ∧ h'.nm SG = k.nm SG := by
  induction H generalizing i with
  | nil => simp [lookupH] at h
  | cons h0 H ih =>
    simp only [lookupH] at h
    split at h
    · simp at h; subst h; exact ⟨h0, by simp, by assumption⟩
    · simp at h
      obtain ⟨j, hj, rfl⟩ := h
      obtain ⟨h', e1, e2⟩ := ih hj
      exact ⟨h', by simpa using e1, e2⟩

/-- In a list with pairwise different names, looking an entry up finds its own position. -/
theorem lookupH_self {SG : SGrammar} {H : List HKey}
    (hp : H.Pairwise (fun a b => a.nm SG ≠ b.nm SG)) {i : Nat} {h : HKey} (hi : H[i]? = some h) :
    lookupH SG h H = some i := by
  induction H generalizing i with
  | nil => simp at hi
  | cons h0 H ih =>
    rw [List.pairwise_cons] at hp
    cases i with
    | zero => simp at hi; subst hi; simp [lookupH]
    | succ i =>
      simp at hi
      have hm := List.mem_of_getElem? hi
      have := hp.1 h hm
      simp [lookupH, this, ih hp.2 hi]

/-! ### The helper list: invariants of `visit` -/

structure HInv (SG : SGrammar) (H : List HKey) : Prop where
  ok : ∀ h ∈ H, h.ok SG
  nodup : H.Pairwise (fun a b => a.nm SG ≠ b.nm SG)
  closed : ∀ h ∈ H, ∀ d, h.dep = some d → ∃ h' ∈ H, h'.nm SG = d.nm SG

theorem pairwise_snoc {α} {R : α → α → Prop} {l : List α} {a : α} (hl : l.Pairwise R)
    (ha : ∀ b ∈ l, R b a) : (l ++ [a]).Pairwise R := by
  rw [List.pairwise_append]
  exact ⟨hl, by simp, fun b hb c hc => by simp at hc; subst hc; exact ha b hb⟩

theorem dep_dep {k d : HKey} (h : k.dep = some d) : d.dep = none := by
  cases k with | mk kind x sep =>
  cases kind <;> simp [HKey.dep] at h <;> subst h <;> simp [HKey.dep]

theorem visit_sub {SG : SGrammar} {H : List HKey} {k h : HKey} (hm : h ∈ H) : h ∈ visit SG H k := by
  unfold visit
  split
  · exact hm
  · dsimp only
    split
    · simp [hm]
    · split <;> simp [hm]

theorem visit_has {SG : SGrammar} (H : List HKey) (k : HKey) :
    ∃ h ∈ visit SG H k, h.nm SG = k.nm SG := by
  unfold visit
  split
  · rename_i hs
    exact lookupH_isSome.1 hs
  · dsimp only
    split
    · exact ⟨k, by simp, rfl⟩
    · split <;> exact ⟨k, by simp, rfl⟩

theorem visit_inv {SG : SGrammar} {H : List HKey} {k : HKey} (hi : HInv SG H) (hk : k.ok SG) :
    HInv SG (visit SG H k) := by
  unfold visit
  split
  · exact hi
  · rename_i hs
    have hnone : ∀ b ∈ H, b.nm SG ≠ k.nm SG := by
      intro b hb e
      exact hs (lookupH_isSome.2 ⟨b, hb, e⟩)
    have ok1 : ∀ h ∈ H ++ [k], h.ok SG := by
      intro h hm
      simp at hm
      rcases hm with hm | rfl
      · exact hi.ok h hm
      · exact hk
    have nd1 : (H ++ [k]).Pairwise (fun a b => a.nm SG ≠ b.nm SG) := pairwise_snoc hi.nodup hnone
    dsimp only
    split
    · rename_i hd
      refine ⟨ok1, nd1, ?_⟩
      intro h hm d hdd
      simp at hm
      rcases hm with hm | rfl
      · obtain ⟨h', hm', e⟩ := hi.closed h hm d hdd
        exact ⟨h', by simp [hm'], e⟩
      · simp [hd] at hdd
    · rename_i d hd
      split
      · rename_i hs2
        refine ⟨ok1, nd1, ?_⟩
        intro h hm d' hdd
        simp at hm
        rcases hm with hm | rfl
        · obtain ⟨h', hm', e⟩ := hi.closed h hm d' hdd
          exact ⟨h', by simp [hm'], e⟩
        · rw [hd] at hdd
          cases hdd
          exact lookupH_isSome.1 hs2
      · rename_i hs2
        have hnone2 : ∀ b ∈ H ++ [k], b.nm SG ≠ d.nm SG := by
          intro b hb e
          exact hs2 (lookupH_isSome.2 ⟨b, hb, e⟩)
        refine ⟨?_, pairwise_snoc nd1 hnone2, ?_⟩
        · intro h hm
          simp only [List.mem_append, List.mem_singleton] at hm
          rcases hm with hm | rfl
          · exact ok1 h (by simpa using hm)
          · exact HKey.dep_ok hk hd
        · intro h hm d' hdd
          simp only [List.mem_append, List.mem_singleton] at hm
          rcases hm with (hm | rfl) | rfl
          · obtain ⟨h', hm', e⟩ := hi.closed h hm d' hdd
            exact ⟨h', by simp [hm'], e⟩
          · rw [hd] at hdd
            cases hdd
            exact ⟨_, List.mem_append_right _ (List.mem_singleton_self _), rfl⟩
          · rw [dep_dep hd] at hdd
            cases hdd

theorem STerm.key_ok {SG : SGrammar} {t : STerm} {k : HKey}
    (ht : t.atoms.all (Atom.inRange SG) = true) (hk : t.key = some k) : k.ok SG := by
  cases t <;> simp [STerm.key] at hk <;> subst hk <;> simp_all [STerm.atoms, HKey.ok]

theorem fold_inv {SG : SGrammar} (l : List STerm) (H : List HKey) (hi : HInv SG H)
    (hl : ∀ t ∈ l, t.atoms.all (Atom.inRange SG) = true) :
    HInv SG (l.foldl (visitTerm SG) H) := by
  induction l generalizing H with
  | nil => exact hi
  | cons t l ih =>
    simp only [List.foldl_cons]
    apply ih
    · unfold visitTerm
      split
      · exact hi
      · rename_i k hk
        exact visit_inv hi (STerm.key_ok (hl t (by simp)) hk)
    · intro t' ht'
      exact hl t' (by simp [ht'])

theorem fold_sub {SG : SGrammar} (l : List STerm) (H : List HKey) {h : HKey} (hm : h ∈ H) :
    h ∈ l.foldl (visitTerm SG) H := by
  induction l generalizing H with
  | nil => exact hm
  | cons t l ih =>
    simp only [List.foldl_cons]
    apply ih
    unfold visitTerm
    split
    · exact hm
    · exact visit_sub hm

theorem fold_has {SG : SGrammar} (l : List STerm) (H : List HKey) {t : STerm} {k : HKey}
    (ht : t ∈ l) (hk : t.key = some k) : ∃ h ∈ l.foldl (visitTerm SG) H, h.nm SG = k.nm SG := by
  induction l generalizing H with
  | nil => simp at ht
  | cons t' l ih =>
    simp only [List.foldl_cons]
    simp only [List.mem_cons] at ht
    rcases ht with rfl | ht
    · obtain ⟨h, hm, e⟩ := visit_has (SG := SG) H k
      refine ⟨h, fold_sub l _ ?_, e⟩
      simp [visitTerm, hk, hm]
    · exact ih _ ht

/-! ### The helper list of a well-formed grammar -/

structure SGrammar.WF (SG : SGrammar) : Prop where
  ne : SG.rules ≠ []
  inr : ∀ t ∈ SG.allTerms, t.atoms.all (Atom.inRange SG) = true
  names : SG.allNames.Nodup

theorem SGrammar.wf_iff (SG : SGrammar) : SG.wf = true ↔ SG.WF := by
  simp only [SGrammar.wf, Bool.and_eq_true, Bool.not_eq_true', List.isEmpty_eq_false_iff,
    List.all_eq_true, decide_eq_true_eq]
  constructor
  · rintro ⟨⟨h1, h2⟩, h3⟩
    exact ⟨h1, fun t ht => by simpa using h2 t ht, h3⟩
  · rintro ⟨h1, h2, h3⟩
    exact ⟨⟨h1, fun t ht => by simpa using h2 t ht⟩, h3⟩

namespace SGrammar
variable {SG : SGrammar}

theorem helpers_inv (hw : SG.WF) : HInv SG SG.helpers :=
  fold_inv _ _ ⟨by simp, by simp, by simp⟩ hw.inr

/-- Every sugar term of the grammar has its helper. -/
theorem key_mem (hw : SG.WF) {t : STerm} {k : HKey} (ht : t ∈ SG.allTerms) (hk : t.key = some k) :
    k ∈ SG.helpers := by
  obtain ⟨h, hm, e⟩ := fold_has (SG := SG) SG.allTerms [] ht hk
  have := HKey.nm_inj hw.names ((helpers_inv hw).ok h hm) (STerm.key_ok (hw.inr t ht) hk) e
  exact this ▸ hm

/-- The helper a helper refers to exists. -/
theorem dep_mem (hw : SG.WF) {h d : HKey} (hm : h ∈ SG.helpers) (hd : h.dep = some d) :
    d ∈ SG.helpers := by
  obtain ⟨h', hm', e⟩ := (helpers_inv hw).closed h hm d hd
  have := HKey.nm_inj hw.names ((helpers_inv hw).ok h' hm')
    (HKey.dep_ok ((helpers_inv hw).ok h hm) hd) e
  exact this ▸ hm'

/-- The rule index of the i-th helper is `nUser + 1 + i`. -/
theorem ruleIdx_of_get (hw : SG.WF) {i : Nat} {k : HKey} (hi : SG.helpers[i]? = some k) :
    SG.ruleIdx k = SG.nUser + 1 + i := by
  simp [ruleIdx, lookupH_self (helpers_inv hw).nodup hi]

theorem ruleIdx_of_mem (hw : SG.WF) {k : HKey} (hm : k ∈ SG.helpers) :
    ∃ i, SG.helpers[i]? = some k ∧ SG.ruleIdx k = SG.nUser + 1 + i := by
  obtain ⟨i, hi⟩ := List.getElem?_of_mem hm
  exact ⟨i, hi, ruleIdx_of_get hw hi⟩

/-! ### The productions of the desugared grammar -/

theorem mem_userProdsFrom {pr : Prod} {i : Nat} {rs : List SRule} :
    pr ∈ SG.userProdsFrom i rs ↔
      ∃ j r p, rs[j]? = some r ∧ p ∈ r.prods ∧ pr = ⟨i + j + 1, p.terms.map SG.symOf⟩ := by
  induction rs generalizing i with
  | nil => simp [userProdsFrom]
  | cons r rs ih =>
    simp only [userProdsFrom, List.mem_append, List.mem_map, ih]
    constructor
    · rintro (⟨p, hp, rfl⟩ | ⟨j, r', p, hj, hp, rfl⟩)
      · exact ⟨0, r, p, by simp, hp, rfl⟩
      · exact ⟨j + 1, r', p, by simpa using hj, hp, by simp; omega⟩
    · rintro ⟨j, r', p, hj, hp, rfl⟩
      cases j with
      | zero => simp at hj; subst hj; exact .inl ⟨p, hp, rfl⟩
      | succ j => exact .inr ⟨j, r', p, by simpa using hj, hp, by simp; omega⟩

theorem mem_helperProdsFrom {pr : Prod} {i : Nat} {ks : List HKey} :
    pr ∈ SG.helperProdsFrom i ks ↔ ∃ j k, ks[j]? = some k ∧ pr ∈ SG.helperBody (i + j) k := by
  induction ks generalizing i with
  | nil => simp [helperProdsFrom]
  | cons k ks ih =>
    simp only [helperProdsFrom, List.mem_append, ih]
    constructor
    · rintro (h | ⟨j, k', hj, h⟩)
      · exact ⟨0, k, by simp, h⟩
      · exact ⟨j + 1, k', by simpa using hj, by rwa [show i + (j + 1) = i + 1 + j by omega]⟩
    · rintro ⟨j, k', hj, h⟩
      cases j with
      | zero => simp at hj; subst hj; exact .inl h
      | succ j =>
        exact .inr ⟨j, k', by simpa using hj, by rwa [show i + 1 + j = i + (j + 1) by omega]⟩

theorem mem_prodList {pr : Prod} : pr ∈ SG.prodList ↔
    pr = ⟨0, [.n 1]⟩ ∨
    (∃ A r p, SG.rules[A]? = some r ∧ p ∈ r.prods ∧ pr = ⟨A + 1, p.terms.map SG.symOf⟩) ∨
    (∃ i k, SG.helpers[i]? = some k ∧ pr ∈ SG.helperBody (SG.nUser + 1 + i) k) := by
  simp only [prodList, List.mem_cons, List.mem_append, userProds, helperProds, mem_userProdsFrom,
    mem_helperProdsFrom, Nat.zero_add]

theorem desugar_prods (SG : SGrammar) : (desugar SG).1.prods.toList = SG.prodList := by
  simp [desugar]

theorem term_mem_allTerms {A : Nat} {r : SRule} {p : SProd} {t : STerm}
    (hr : SG.rules[A]? = some r) (hp : p ∈ r.prods) (ht : t ∈ p.terms) : t ∈ SG.allTerms := by
  simp only [allTerms, List.mem_flatMap]
  exact ⟨r, List.mem_of_getElem? hr, p, hp, ht⟩

theorem user_prod_mem {A : Nat} {r : SRule} {p : SProd} (hr : SG.rules[A]? = some r)
    (hp : p ∈ r.prods) :
    (⟨A + 1, p.terms.map SG.symOf⟩ : Prod) ∈ (desugar SG).1.prods.toList := by
  rw [desugar_prods, mem_prodList]
  exact .inr (.inl ⟨A, r, p, hr, hp, rfl⟩)

theorem body_mem (hw : SG.WF) {k : HKey} (hm : k ∈ SG.helpers) {pr : Prod}
    (hb : pr ∈ SG.helperBody (SG.ruleIdx k) k) : pr ∈ (desugar SG).1.prods.toList := by
  obtain ⟨i, hi, e⟩ := ruleIdx_of_mem hw hm
  rw [desugar_prods, mem_prodList]
  exact .inr (.inr ⟨i, k, hi, e ▸ hb⟩)

/-! ### Documented language ⊆ language of the desugared grammar -/

/-- The helper of the term (if it is a sugar term) exists. -/
def Occ (SG : SGrammar) (t : STerm) : Prop := ∀ k, t.key = some k → k ∈ SG.helpers

theorem sder_to_der (hw : SG.WF) {ts : List STerm} {w : List Nat} (h : SDer SG ts w) :
    (∀ t ∈ ts, Occ SG t) → ∃ trees, Der (desugar SG).1 (ts.map SG.symOf) w trees := by
  induction h with
  | nil => intro _; exact ⟨[], Der.nil⟩
  | cons _ _ ih1 ih2 =>
    intro hocc
    obtain ⟨t1, h1⟩ := ih1 (fun t ht => hocc t (by simp at ht; simp [ht]))
    obtain ⟨t2, h2⟩ := ih2 (fun t ht => hocc t (by simp at ht ⊢; rcases ht with h | h <;> simp [h]))
    exact ⟨t1 ++ t2, by simpa using h1.append h2⟩
  | tok a => intro _; exact ⟨_, Der.term Der.nil⟩
  | err => intro _; exact ⟨_, Der.term Der.nil⟩
  | rule hr hp _ ih =>
    intro _
    obtain ⟨trees, hd⟩ := ih (fun t ht k hk => key_mem hw (term_mem_allTerms hr hp ht) hk)
    obtain ⟨t, ht⟩ := Der.of_mem (user_prod_mem hr hp) hd
    exact ⟨[t], ht⟩
  | optNone x =>
    intro hocc
    have hm := hocc (.opt x) (by simp) _ rfl
    obtain ⟨t, ht⟩ := Der.of_mem (body_mem hw hm (pr := ⟨SG.ruleIdx ⟨.opt, x, x⟩, []⟩) (by simp [helperBody])) Der.nil
    exact ⟨[t], ht⟩
  | @optSome x w _ ih =>
    intro hocc
    have hm := hocc (.opt x) (by simp) _ rfl
    obtain ⟨trees, hd⟩ := ih (fun t ht k hk => by simp at ht; subst ht; simp [STerm.key] at hk)
    obtain ⟨t, ht⟩ := Der.of_mem (body_mem hw hm (pr := ⟨SG.ruleIdx ⟨.opt, x, x⟩, [symOfAtom x]⟩) (by simp [helperBody])) hd
    exact ⟨[t], ht⟩
  | @star x ws _ ih =>
    intro hocc
    have hm := hocc (.star x) (by simp) _ rfl
    have hall : ∀ v ∈ ws, ∃ ts, Der (desugar SG).1 [symOfAtom x] v ts := fun v hv =>
      ih v hv (fun t ht k hk => by simp at ht; subst ht; simp [STerm.key] at hk)
    by_cases hne : ws = []
    · subst hne
      obtain ⟨t, ht⟩ := Der.of_mem (body_mem hw hm (pr := ⟨SG.ruleIdx ⟨.star, x, x⟩, []⟩) (by simp [helperBody])) Der.nil
      exact ⟨[t], ht⟩
    · have hd := dep_mem hw hm (d := ⟨.plus, x, x⟩) (by simp [HKey.dep])
      obtain ⟨t1, h1⟩ := der_plus_chain
        (body_mem hw hd (pr := ⟨SG.ruleIdx ⟨.plus, x, x⟩, [.n (SG.ruleIdx ⟨.plus, x, x⟩), symOfAtom x]⟩) (by simp [helperBody]))
        (body_mem hw hd (pr := ⟨SG.ruleIdx ⟨.plus, x, x⟩, [symOfAtom x]⟩) (by simp [helperBody])) ws hne hall
      obtain ⟨t, ht⟩ := Der.of_mem
        (body_mem hw hm (pr := ⟨SG.ruleIdx ⟨.star, x, x⟩, [.n (SG.ruleIdx ⟨.plus, x, x⟩)]⟩) (by simp [helperBody])) h1
      exact ⟨[t], ht⟩
  | @starF x ws _ ih =>
    intro hocc
    have hm := hocc (.starF x) (by simp) _ rfl
    have hall : ∀ v ∈ ws, ∃ ts, Der (desugar SG).1 [symOfAtom x] v ts := fun v hv =>
      ih v hv (fun t ht k hk => by simp at ht; subst ht; simp [STerm.key] at hk)
    by_cases hne : ws = []
    · subst hne
      obtain ⟨t, ht⟩ := Der.of_mem (body_mem hw hm (pr := ⟨SG.ruleIdx ⟨.starF, x, x⟩, []⟩) (by simp [helperBody])) Der.nil
      exact ⟨[t], ht⟩
    · have hd := dep_mem hw hm (d := ⟨.plusF, x, x⟩) (by simp [HKey.dep])
      obtain ⟨t1, h1⟩ := der_plus_chain
        (body_mem hw hd (pr := ⟨SG.ruleIdx ⟨.plusF, x, x⟩, [.n (SG.ruleIdx ⟨.plusF, x, x⟩), symOfAtom x]⟩) (by simp [helperBody]))
        (body_mem hw hd (pr := ⟨SG.ruleIdx ⟨.plusF, x, x⟩, [symOfAtom x]⟩) (by simp [helperBody])) ws hne hall
      obtain ⟨t, ht⟩ := Der.of_mem
        (body_mem hw hm (pr := ⟨SG.ruleIdx ⟨.starF, x, x⟩, [.n (SG.ruleIdx ⟨.plusF, x, x⟩)]⟩) (by simp [helperBody])) h1
      exact ⟨[t], ht⟩
  | @plus x ws hne _ ih =>
    intro hocc
    have hm := hocc (.plus x) (by simp) _ rfl
    have hall : ∀ v ∈ ws, ∃ ts, Der (desugar SG).1 [symOfAtom x] v ts := fun v hv =>
      ih v hv (fun t ht k hk => by simp at ht; subst ht; simp [STerm.key] at hk)
    obtain ⟨t1, h1⟩ := der_plus_chain
      (body_mem hw hm (pr := ⟨SG.ruleIdx ⟨.plus, x, x⟩, [.n (SG.ruleIdx ⟨.plus, x, x⟩), symOfAtom x]⟩) (by simp [helperBody]))
      (body_mem hw hm (pr := ⟨SG.ruleIdx ⟨.plus, x, x⟩, [symOfAtom x]⟩) (by simp [helperBody])) ws hne hall
    exact ⟨[t1], h1⟩
  | @list x s v ws _ _ _ ihv ihs ihx =>
    intro hocc
    have hm := hocc (.list x s) (by simp) _ rfl
    have noocc : ∀ (y : Atom), ∀ t ∈ [STerm.atom y], Occ SG t :=
      fun y t ht k hk => by simp at ht; subst ht; simp [STerm.key] at hk
    obtain ⟨t1, h1⟩ := der_list_chain
      (body_mem hw hm (pr := ⟨SG.ruleIdx ⟨.list, x, s⟩, [.n (SG.ruleIdx ⟨.list, x, s⟩), symOfAtom s, symOfAtom x]⟩) (by simp [helperBody]))
      (body_mem hw hm (pr := ⟨SG.ruleIdx ⟨.list, x, s⟩, [symOfAtom x]⟩) (by simp [helperBody])) v ws (ihv (noocc x))
      (fun p hp => ihs p hp (noocc s)) (fun p hp => ihx p hp (noocc x))
    exact ⟨[t1], h1⟩
  | listOptNone x s =>
    intro hocc
    have hm := hocc (.listOpt x s) (by simp) _ rfl
    obtain ⟨t, ht⟩ := Der.of_mem (body_mem hw hm (pr := ⟨SG.ruleIdx ⟨.listOpt, x, s⟩, []⟩) (by simp [helperBody])) Der.nil
    exact ⟨[t], ht⟩
  | @listOptSome x s w _ ih =>
    intro hocc
    have hm := hocc (.listOpt x s) (by simp) _ rfl
    have hd := dep_mem hw hm (d := ⟨.list, x, s⟩) (by simp [HKey.dep])
    obtain ⟨trees, h1⟩ := ih (fun t ht k hk => by
      simp at ht; subst ht; simp [STerm.key] at hk; subst hk; exact hd)
    obtain ⟨t, ht⟩ := Der.of_mem
      (body_mem hw hm (pr := ⟨SG.ruleIdx ⟨.listOpt, x, s⟩, [.n (SG.ruleIdx ⟨.list, x, s⟩)]⟩) (by simp [helperBody])) h1
    exact ⟨[t], ht⟩

/-! ### Language of the desugared grammar ⊆ documented language -/

theorem _root_.Lox.LR.SDer.nil_inv {w : List Nat} (h : SDer SG [] w) : w = [] := by
  cases h; rfl

theorem _root_.Lox.LR.SDer.cons' {t : STerm} {ts : List STerm} {w1 w2 : List Nat}
    (h1 : SDer SG [t] w1) (h2 : SDer SG ts w2) : SDer SG (t :: ts) (w1 ++ w2) := by
  cases ts with
  | nil => rw [h2.nil_inv]; simpa using h1
  | cons t' ts => exact .cons h1 h2

theorem _root_.Lox.LR.SDer.cons_inv {t t' : STerm} {ts : List STerm} {w : List Nat}
    (h : SDer SG (t :: t' :: ts) w) : ∃ w1 w2, w = w1 ++ w2 ∧ SDer SG [t] w1 ∧ SDer SG (t' :: ts) w2 := by
  cases h with
  | cons h1 h2 => exact ⟨_, _, rfl, h1, h2⟩

theorem _root_.Lox.LR.SDer.tok_inv {a : Nat} {w : List Nat} (h : SDer SG [.atom (.tok a)] w) :
    w = [a + 2] := by
  cases h; rfl

theorem _root_.Lox.LR.SDer.err_inv {w : List Nat} (h : SDer SG [.atom .err] w) : w = [1] := by
  cases h; rfl

theorem _root_.Lox.LR.SDer.rule_inv {A : Nat} {w : List Nat} (h : SDer SG [.atom (.rule A)] w) :
    ∃ r p, SG.rules[A]? = some r ∧ p ∈ r.prods ∧ SDer SG p.terms w := by
  cases h with
  | rule hr hp hd => exact ⟨_, _, hr, hp, hd⟩

theorem _root_.Lox.LR.SDer.opt_inv {x : Atom} {w : List Nat} (h : SDer SG [.opt x] w) :
    w = [] ∨ SDer SG [.atom x] w := by
  cases h with
  | optNone => exact .inl rfl
  | optSome h => exact .inr h

theorem plus_one {x : Atom} {w : List Nat} (h : SDer SG [.atom x] w) : SDer SG [.plus x] w := by
  have := SDer.plus (SG := SG) (x := x) [w] (by simp) (by simpa using h)
  simpa using this

theorem plus_snoc {x : Atom} {wa wb : List Nat} (h1 : SDer SG [.plus x] wa)
    (h2 : SDer SG [.atom x] wb) : SDer SG [.plus x] (wa ++ wb) := by
  cases h1 with
  | plus ws hne hall =>
    have := SDer.plus (SG := SG) (x := x) (ws ++ [wb]) (by simp) (by
      intro v hv
      simp at hv
      rcases hv with hv | rfl
      · exact hall v hv
      · exact h2)
    simpa using this

theorem star_of_plus {x : Atom} {w : List Nat} (h : SDer SG [.plus x] w) : SDer SG [.star x] w := by
  cases h with
  | plus ws _ hall => exact .star ws hall

theorem starF_of_plus {x : Atom} {w : List Nat} (h : SDer SG [.plus x] w) : SDer SG [.starF x] w := by
  cases h with
  | plus ws _ hall => exact .starF ws hall

theorem list_one {x s : Atom} {w : List Nat} (h : SDer SG [.atom x] w) : SDer SG [.list x s] w := by
  have := SDer.list (SG := SG) (x := x) (s := s) w [] h (by simp) (by simp)
  simpa using this

theorem list_snoc {x s : Atom} {wa wb wc : List Nat} (h1 : SDer SG [.list x s] wa)
    (h2 : SDer SG [.atom s] wb) (h3 : SDer SG [.atom x] wc) :
    SDer SG [.list x s] (wa ++ (wb ++ wc)) := by
  cases h1 with
  | list v ws hv hs hx =>
    have := SDer.list (SG := SG) (x := x) (s := s) v (ws ++ [(wb, wc)]) hv (by
      intro p hp
      simp at hp
      rcases hp with hp | rfl
      · exact hs p hp
      · exact h2) (by
      intro p hp
      simp at hp
      rcases hp with hp | rfl
      · exact hx p hp
      · exact h3)
    simpa [List.append_assoc] using this

/-- The sugar term a helper rule stands for (`x+!` has the language of `x+`). -/
def _root_.Lox.LR.HKey.term (k : HKey) : STerm :=
  match k.kind with
  | .opt => .opt k.x
  | .star => .star k.x
  | .starF => .starF k.x
  | .plus => .plus k.x
  | .plusF => .plus k.x
  | .list => .list k.x k.sep
  | .listOpt => .listOpt k.x k.sep

/-- The sugar-level meaning of rule `B` of the desugared grammar. -/
def nontermTerm (SG : SGrammar) (B : Nat) : Option STerm :=
  if B = 0 then some (.atom (.rule 0))
  else if B ≤ SG.nUser then some (.atom (.rule (B - 1)))
  else (SG.helpers[B - SG.nUser - 1]?).map HKey.term

def SymLang (SG : SGrammar) : Sym → List Nat → Prop
  | .t a, w => w = [a]
  | .n B, w => ∃ t, nontermTerm SG B = some t ∧ SDer SG [t] w

def SeqLang (SG : SGrammar) : List Sym → List Nat → Prop
  | [], w => w = []
  | X :: α, w => ∃ w1 w2, w = w1 ++ w2 ∧ SymLang SG X w1 ∧ SeqLang SG α w2

theorem seqLang_one {X : Sym} {w : List Nat} : SeqLang SG [X] w ↔ SymLang SG X w := by
  simp only [SeqLang]
  constructor
  · rintro ⟨w1, w2, rfl, h, rfl⟩; simpa using h
  · intro h; exact ⟨w, [], by simp, h, rfl⟩

theorem nontermTerm_user {A : Nat} (hA : A < SG.rules.length) :
    nontermTerm SG (A + 1) = some (.atom (.rule A)) := by
  have h2 : A + 1 ≤ SG.nUser := hA
  simp [nontermTerm, h2]

theorem nontermTerm_helper {i : Nat} :
    nontermTerm SG (SG.nUser + 1 + i) = (SG.helpers[i]?).map HKey.term := by
  have h2 : ¬ (SG.nUser + 1 + i ≤ SG.nUser) := by omega
  have h3 : SG.nUser + 1 + i - SG.nUser - 1 = i := by omega
  simp [nontermTerm, h2, h3]

theorem symLang_atom {x : Atom} (hx : x.inRange SG = true) {w : List Nat}
    (h : SymLang SG (symOfAtom x) w) : SDer SG [.atom x] w := by
  cases x with
  | tok a => simp only [symOfAtom, SymLang] at h; subst h; exact .tok a
  | err => simp only [symOfAtom, SymLang] at h; subst h; exact .err
  | rule A =>
    simp [Atom.inRange] at hx
    simp only [symOfAtom, SymLang, nontermTerm_user hx] at h
    obtain ⟨t, e, hd⟩ := h
    cases e
    exact hd

theorem symLang_helper (hw : SG.WF) {k : HKey} (hm : k ∈ SG.helpers) {w : List Nat}
    (h : SymLang SG (.n (SG.ruleIdx k)) w) : SDer SG [k.term] w := by
  obtain ⟨i, hi, e⟩ := ruleIdx_of_mem hw hm
  simp only [SymLang, e, nontermTerm_helper, hi, Option.map_some] at h
  obtain ⟨t, e', hd⟩ := h
  cases e'
  exact hd

theorem of_symLang_helper (hw : SG.WF) {k : HKey} (hm : k ∈ SG.helpers) {w : List Nat}
    (h : SDer SG [k.term] w) : SymLang SG (.n (SG.ruleIdx k)) w := by
  obtain ⟨i, hi, e⟩ := ruleIdx_of_mem hw hm
  simp only [SymLang, e, nontermTerm_helper, hi, Option.map_some]
  exact ⟨_, rfl, h⟩

theorem symLang_symOf (hw : SG.WF) {t : STerm} (ht : t ∈ SG.allTerms) {w : List Nat}
    (h : SymLang SG (SG.symOf t) w) : SDer SG [t] w := by
  have hin := hw.inr t ht
  cases t with
  | atom x => exact symLang_atom (by simpa [STerm.atoms] using hin) h
  | opt x => exact symLang_helper hw (key_mem hw ht rfl) h
  | star x => exact symLang_helper hw (key_mem hw ht rfl) h
  | starF x => exact symLang_helper hw (key_mem hw ht rfl) h
  | plus x => exact symLang_helper hw (key_mem hw ht rfl) h
  | list x s => exact symLang_helper hw (key_mem hw ht rfl) h
  | listOpt x s => exact symLang_helper hw (key_mem hw ht rfl) h

theorem seqLang_terms (hw : SG.WF) {ts : List STerm} (hts : ∀ t ∈ ts, t ∈ SG.allTerms)
    {w : List Nat} (h : SeqLang SG (ts.map SG.symOf) w) : SDer SG ts w := by
  induction ts generalizing w with
  | nil => simp only [List.map_nil, SeqLang] at h; subst h; exact .nil
  | cons t ts ih =>
    simp only [List.map_cons, SeqLang] at h
    obtain ⟨w1, w2, rfl, h1, h2⟩ := h
    exact SDer.cons' (symLang_symOf hw (hts t (by simp)) h1)
      (ih (fun t' ht' => hts t' (by simp [ht'])) h2)

/-- Every production of the desugared grammar is sound for the documented reading. -/
theorem prod_sound (hw : SG.WF) {pr : Prod} (hm : pr ∈ SG.prodList) {w : List Nat}
    (h : SeqLang SG pr.rhs w) : SymLang SG (.n pr.lhs) w := by
  have hpos : 0 < SG.rules.length := List.length_pos_iff.2 hw.ne
  rw [mem_prodList] at hm
  rcases hm with rfl | ⟨A, r, p, hr, hp, rfl⟩ | ⟨i, k, hi, hb⟩
  · rw [seqLang_one] at h
    simp only [SymLang, nontermTerm_user hpos] at h
    obtain ⟨t, e, hd⟩ := h
    cases e
    exact ⟨_, by simp [nontermTerm], hd⟩
  · have hA : A < SG.rules.length := (List.getElem?_eq_some_iff.1 hr).1
    have := seqLang_terms hw (fun t ht => term_mem_allTerms hr hp ht) h
    exact ⟨_, nontermTerm_user hA, .rule hr hp this⟩
  · have hm : k ∈ SG.helpers := List.mem_of_getElem? hi
    have hok := (helpers_inv hw).ok k hm
    rw [← ruleIdx_of_get hw hi] at hb
    suffices hs : SDer SG [k.term] w by
      have hl : pr.lhs = SG.ruleIdx k := by
        cases k with | mk kind x sep =>
        cases kind <;> simp [helperBody] at hb <;> rcases hb with rfl | rfl <;> rfl
      rw [hl]
      exact of_symLang_helper hw hm hs
    cases k with | mk kind x sep =>
    simp only [HKey.ok] at hok
    cases kind <;> simp only [helperBody, List.mem_cons, List.not_mem_nil, or_false] at hb <;>
      rcases hb with rfl | rfl
    -- opt
    · rw [seqLang_one] at h; exact .optSome (symLang_atom hok.1 h)
    · simp only [SeqLang] at h; subst h; exact .optNone x
    -- star
    · rw [seqLang_one] at h
      exact star_of_plus (symLang_helper hw (dep_mem hw hm (d := ⟨.plus, x, x⟩) rfl) h)
    · simp only [SeqLang] at h; subst h; exact .star [] (by simp)
    -- starF
    · rw [seqLang_one] at h
      exact starF_of_plus (symLang_helper hw (dep_mem hw hm (d := ⟨.plusF, x, x⟩) rfl) h)
    · simp only [SeqLang] at h; subst h; exact .starF [] (by simp)
    -- plus
    · simp only [SeqLang] at h
      obtain ⟨w1, w2, rfl, h1, w3, w4, rfl, h3, rfl⟩ := h
      simpa [HKey.term] using plus_snoc (symLang_helper hw hm h1) (symLang_atom hok.1 h3)
    · rw [seqLang_one] at h; exact plus_one (symLang_atom hok.1 h)
    -- plusF
    · simp only [SeqLang] at h
      obtain ⟨w1, w2, rfl, h1, w3, w4, rfl, h3, rfl⟩ := h
      simpa [HKey.term] using plus_snoc (symLang_helper hw hm h1) (symLang_atom hok.1 h3)
    · rw [seqLang_one] at h; exact plus_one (symLang_atom hok.1 h)
    -- list
    · simp only [SeqLang] at h
      obtain ⟨w1, w2, rfl, h1, w3, w4, rfl, h3, w5, w6, rfl, h5, rfl⟩ := h
      simpa [HKey.term] using list_snoc (symLang_helper hw hm h1) (symLang_atom hok.2 h3) (symLang_atom hok.1 h5)
    · rw [seqLang_one] at h; exact list_one (symLang_atom hok.1 h)
    -- listOpt
    · rw [seqLang_one] at h
      exact .listOptSome (symLang_helper hw (dep_mem hw hm (d := ⟨.list, x, sep⟩) rfl) h)
    · simp only [SeqLang] at h; subst h; exact .listOptNone x sep

theorem der_to_seqLang (hw : SG.WF) {α : List Sym} {w : List Nat} {ts : List Tree}
    (h : Der (desugar SG).1 α w ts) : SeqLang SG α w := by
  induction h with
  | nil => rfl
  | term _ ih => exact ⟨_, _, by simp, rfl, ih⟩
  | nonterm hq _ _ ih1 ih2 =>
    refine ⟨_, _, rfl, prod_sound hw ?_ ih1, ih2⟩
    rw [← desugar_prods]
    rw [← Array.getElem?_toList] at hq
    exact List.mem_of_getElem? hq

end SGrammar

end Lox.LR
