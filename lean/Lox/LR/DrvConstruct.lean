import Lox.Drv.Common
import Lox.LR.DrvGenModel
import Lox.LR.ConstructModel
/-! Driver op of the model of the `ConstructLALR` worklist (`Lox/LR/ConstructModel.lean`); Go side:
`/verif/harness/drv/ops_construct.go`, family `construct`.

`lr.construct <nTerms> <nRules> | <prods> | <ord>`
* grammar as in `lr.validate`;
* `ord`: all symbols (encoded like grammar symbols) in the order of their NAMES (`TermName()`), the
  order `Next` and `TransitionMap.Inputs` sort by.

Answer: `<cert> | <transitions>`: the item sets of the states in creation order (`p d a …` in
`SortItems` order, states separated by `;`) and the transitions as triples `s X t` separated by
`;`, states increasing, symbols in `ord` order – exactly what `certLine`/`transLine` print for the
real `ParserTable`; `panic` where the Go code panics or the fuel runs out; `bad-grammar` if a
terminal of the grammar is not below `nTerms`. -/
namespace Lox.LR.Cons
open Lox.Drv Lox.LR Lox.LR.Gen

def showState (I : List Item) : String := showNats ((sortItems I).flatMap fun it => [it.p, it.d, it.a])

def showTrans (ord : List Sym) (trans : List (List (Sym × Nat))) : String :=
  let rows := (List.range trans.length).flatMap fun s =>
    let row := trans[s]?.getD []
    ord.filterMap fun X => match lookupSym X row with
      | some t => some (toString s ++ " " ++ showSym X ++ " " ++ toString t)
      | none => none
  " ; ".intercalate rows

def handleConstruct (op payload : String) : Option String :=
  match op with
  | "lr.construct" => do
    match payload.splitOn "|" with
    | [hd, prods, ord] =>
      let (G, nT) ← parseGrammar hd prods
      let ord := (← parseInts ord).map parseSym
      if !termsBelowB G nT then some "bad-grammar"
      else match construct G nT ord with
        | none => some "panic"
        | some st =>
          some (" ; ".intercalate (st.states.map showState) ++ " | " ++ showTrans ord st.trans)
    | _ => none
  | _ => none

end Lox.LR.Cons
