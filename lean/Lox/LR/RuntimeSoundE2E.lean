import Lox.LR.PrefixSound
import Lox.LR.RuntimeSoundTerm
import Lox.LR.RuntimeProofsRecover
/-! Versions of the C09 runtime lemmas whose table-level side conditions (`NoShiftEOF`,
`AcceptOnlyEOF`: quantified over EVERY index of the `_actions` array, also indices that are not
states) are replaced by the validated-table invariant `SInv` – so that they apply to every table
that passes `checkSafe`, in particular to everything the generator model emits
(`Lox/Props/C09_e2e.lean`) – and the correct-prefix theorem from the PROP-level justification
`JustifyOK` instead of the Boolean validator `justify`. -/
namespace Lox.LR.Rt

section
variable {G : Grammar} {nTerms nRules : Nat} {T : Tables} {cert : Array (List Item)}

/-- On validated tables no STATE shifts EOF. -/
theorem noShiftEOF_inR (hc : SafeOK G nTerms nRules T cert) {st v : Int} (h : InR cert st)
    (hf : find T.actions st tEOF = .hit v) : v = acceptCode ∨ v < 0 := by
  have ok := act_entry hc h hf
  by_cases ha : v = acceptCode
  · exact .inl ha
  · by_cases hv : 0 ≤ v
    · exact absurd rfl (ok.shift ha hv).1
    · exact .inr (by omega)

/-- On validated tables a STATE holds the accept code only under EOF. -/
theorem acceptOnlyEOF_inR (hc : SafeOK G nTerms nRules T cert) {st la : Int} (h : InR cert st)
    (hf : find T.actions st la = .hit acceptCode) : la = tEOF :=
  ((act_entry hc h hf).acc rfl).1

/-- The potential argument under the invariant (no table-level hypothesis). -/
theorem step_potential_inv (hc : SafeOK G nTerms nRules T cert) {inp : Array Nat} {wb : Bool}
    {fuel : Nat} {s s' : PState} (hs : SInv G (autoOf T cert) inp s)
    (h : step T inp wb fuel s = .cont s') :
    potential inp s' + (if isRecoverStep T s then 1 else 0) ≤ potential inp s := by
  obtain ⟨hcov, syms, hci⟩ := hs
  exact step_potential' (fun top a htop hf hacc hsh =>
    (hci.shift hc hcov.pinv htop hf hacc hsh 0).2) h

theorem runLoopG_bound_inv (hc : SafeOK G nTerms nRules T cert) (inp : Array Nat) (wb : Bool)
    (fuel : Nat) : ∀ (n : Nat) (s : PState), SInv G (autoOf T cert) inp s →
      (runLoopG T inp wb fuel n s).2.2 ≤ potential inp s
  | 0, _, _ => Nat.zero_le _
  | n + 1, s, hs => by
    unfold runLoopG
    cases h : step T inp wb fuel s with
    | cont s' =>
      have := runLoopG_bound_inv hc inp wb fuel n s' (step_SInv hc hs h)
      have := step_potential_inv hc hs h
      show (runLoopG T inp wb fuel n s').2.2 + _ ≤ _
      omega
    | done o s' => exact Nat.zero_le _

/-- **recoveries_bounded on validated tables**: `_recover()` returns `true` at most
`2 * |input| + 1` times along any run of `parse`, whatever the fuel. -/
theorem parseG_bound_safe (hc : SafeOK G nTerms nRules T cert) (inp : Array Nat) (wb : Bool)
    (fuel : Nat) : (parseG T inp wb fuel).2.2 ≤ 2 * inp.size + 1 := by
  unfold parseG
  cases h : readToken T inp initState with
  | error w => exact Nat.zero_le _
  | ok s1 =>
    have h1 := runLoopG_bound_inv hc inp wb fuel fuel s1 (init_SInv h)
    have h2 := (readToken_remaining h).1
    have h4 : remaining inp initState = inp.size := by
      simp [remaining, initState, realQ, realLa, tEOF]
    have h5 : potential inp s1 ≤ 2 * inp.size + 1 := by
      simp only [potential]
      split <;> omega
    show (runLoopG T inp wb fuel fuel s1).2.2 ≤ _
    omega

/-- **first_error_token from the Prop-level justification.** As `Lox.Props.C09.first_error_token`
with the hypothesis `justify … = .ok ()` (a Boolean validator run) replaced by what it establishes
(`JustifyOK`), and `productiveB` by `Productive`. -/
theorem first_error_token_of_justified (hc : check G nTerms nRules T cert = .ok ())
    (hjo : JustifyOK G T cert) (hprod : Productive G)
    {inp : Array Nat} {wb : Bool} {fuel : Nat} {s1 s s' : PState}
    (hinp1 : ∀ i : Nat, inp[i]? ≠ some 1)
    (h1 : readToken T inp initState = .ok s1) (hreach : PlainReach T inp wb fuel s1 s)
    (hrec : isRecoverStep T s = true) (hstep : step T inp wb fuel s = .cont s') :
    (∃ i ty ex, s'.lasym = .err i ty ex ∧ s'.la = tERROR ∧ s.lasym = .tok i ty ∧
      lidx s.lasym = i ∧ (stackLeaves s.stack).map leafNat = inp.toList.take i) ∧
    (∃ v t, Der G [.n (startSym G)] (inp.toList.take (lidx s.lasym) ++ v) [t]) ∧
    (∀ (w : List Nat) (t : Tree), Der G [.n (startSym G)] w [t] →
      ¬ ∀ i, i ≤ lidx s.lasym → inp[i]? = w.toArray[i]?) := by
  have hck := checkB_spec (check_ok_iff.mp hc)
  obtain ⟨⟨i, ty, ex, hsym, hla, hidx⟩, herr⟩ := first_error_runtime h1 hreach hrec hstep
  have hcons := plain_consumed hck.toSafeOK hinp1 h1 hreach
  have hvia : ∃ v t, Der G [.n (startSym G)] (inp.toList.take (lidx s.lasym) ++ v) [t] := by
    rw [← hcons]
    exact consumed_viable hck hjo hprod ⟨s1, h1, hreach.reach⟩
  -- the lookahead of `s` is a `Token` (no lexer ERROR in the input)
  have hp' := (parseReach_SInv hck.toSafeOK ⟨s1, h1, hreach.reach⟩).cov.pinv
  have hm : ∀ i, lexErrAt inp i = true → (fun _ : Nat => false) i = true := by
    intro i hi
    simp only [lexErrAt, beq_iff_eq] at hi
    exact absurd hi (hinp1 i)
  have hnerr : s.lasym.isErr = false :=
    isErr_false_of_errsIn hp'.laok.1 (errsIn_mono hm _ herr.1)
  have hshape : ∃ ty', s.lasym = .tok i ty' := by
    have hleaf := hp'.laok.1
    cases hl : s.lasym with
    | nil => rw [hl] at hleaf; cases hleaf
    | node => rw [hl] at hleaf; cases hleaf
    | err => rw [hl] at hnerr; cases hnerr
    | tok i' ty' =>
      rw [hl] at hidx
      simp only [symTokIdx, Option.some.injEq] at hidx
      exact ⟨ty', by rw [hidx]⟩
  obtain ⟨ty', hl⟩ := hshape
  -- `_makeError` copies the token
  have hty : ty' = ty := by
    cases step_cont hstep with
    | recover _ _ hr =>
      obtain ⟨-, ⟨i2, ty2, ex2, hsym2, -, hcase⟩, -⟩ := recover_result hr
      rw [hsym] at hsym2
      cases hsym2
      rcases hcase with h | ⟨h, -⟩
      · rw [hl] at h; cases h
      · rw [hl] at h; cases h; rfl
    | shift htop hf => rw [isRecoverStep_hit htop hf] at hrec; cases hrec
    | reduce htop hf => rw [isRecoverStep_hit htop hf] at hrec; cases hrec
  subst hty
  have hlidx : lidx s.lasym = i := by rw [hl]; rfl
  refine ⟨⟨i, ty', ex, hsym, hla, hl, hlidx, by rw [← hlidx]; exact hcons⟩, hvia, fun w t hd => ?_⟩
  exact first_error_not_prefix (check_sound hc).1 (check_sound hc).2.2 hck.toSafeOK h1 hreach hrec hd

end

end Lox.LR.Rt
