import Lox.Drv.Common
import Lox.LR.RuntimeDefs
/-! Driver op for the recovery checker (core Lean only; dispatched from `Main.lean`).

`lr.recovery_ok <nStates> | _rules | _termCounts | _actions | _goto`
  answer: `ok` if `Lox.LR.Rt.recoveryOKB T nStates` holds – the reduce simulation inside
  `_recover` (`state, _ = _Find(_goto, state, rule)` WITHOUT popping, `0` when the goto entry is
  missing) cannot loop from any of the `nStates` states: the canonical ranking `simChain` strictly
  decreases along every edge `simNext` – else `fail simulate-cycle state <k>` with the first state
  `k` whose edge does not decrease the ranking.
  Sound by `Lox.LR.Rt.parse_terminates_checked` (`Lox/LR/RuntimeSoundTerm.lean`): together with
  `check`/`checkSafe` and `termB` it gives termination of `parse` on every input. -/
namespace Lox.LR.Rt
open Lox.Drv

def parseArrI (s : String) : Option (Array Int) := (parseInts s).map List.toArray

/-- First state whose `simNext` edge does not decrease the canonical ranking. -/
def firstSimCycle (T : Tables) (nStates : Nat) : Option Nat :=
  (List.range nStates).find? fun k =>
    match simNext T (k : Int) with
    | some st' => !decide (simChain T (nStates + 1) st' < simChain T (nStates + 1) (k : Int))
    | none => false

def handleRecovery (op payload : String) : Option String :=
  match op with
  | "lr.recovery_ok" => do
    match payload.splitOn "|" with
    | [hd, rules, tcs, acts, gotos] =>
      let n ← match ← parseNats hd with
        | [n] => some n
        | _ => none
      let T : Tables := { rules := ← parseArrI rules, termCounts := ← parseArrI tcs,
                          actions := ← parseArrI acts, gotos := ← parseArrI gotos }
      if recoveryOKB T n then some "ok"
      else
        match firstSimCycle T n with
        | some k => some ("fail simulate-cycle state " ++ toString k)
        | none => some "fail simulate-cycle"
    | _ => none
  | _ => none

end Lox.LR.Rt
