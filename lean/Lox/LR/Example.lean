import Lox.LR.CheckSound
/-! A concrete validated instance (non-vacuity witness for the C01/C03 theorems): the tables lox
emits for `@start S = A S | B` (terminals EOF=0 ERROR=1 A=2 B=3; rules S'=0 S=1), with the item
sets of `lr1.ConstructLALR` as certificate. Produced with the real generator. -/
namespace Lox.LR.Example

def G : Grammar := ⟨#[⟨0, [.n 1]⟩, ⟨1, [.t 2, .n 1]⟩, ⟨1, [.t 3]⟩]⟩

def T : Tables :=
  { rules := #[0, 1, 1], termCounts := #[1, 2, 1],
    actions := #[5, 5, 10, 13, 16, 4, 2, 1, 3, 2, 2, 0, -2, 2, 0, 2147483647, 2, 0, -1],
    gotos := #[5, 8, 11, 11, 11, 2, 1, 3, 2, 1, 4, 0] }

def cert : Array (List Item) :=
  #[[⟨0,0,0⟩, ⟨1,0,0⟩, ⟨2,0,0⟩], [⟨1,0,0⟩, ⟨1,1,0⟩, ⟨2,0,0⟩], [⟨2,1,0⟩], [⟨0,1,0⟩], [⟨1,2,0⟩]]

theorem checkB_ok : checkB G 4 2 T cert = true := by decide

theorem check_ok : check G 4 2 T cert = .ok () := check_ok_iff.mpr checkB_ok

/-- `a a b` derives from `S` with the right-nested tree. -/
def tree : Tree := .node 1 [.leaf 2, .node 1 [.leaf 2, .node 2 [.leaf 3]]]

theorem der_aab : Der G [.n (startSym G)] [2, 2, 3] [tree] := by
  have hb : Der G [.n 1] [3] [.node 2 [.leaf 3]] :=
    Der.nonterm (G := G) (q := 2) (pr := ⟨1, [.t 3]⟩) (w1 := [3]) (w2 := []) rfl (.term .nil) .nil
  have hab : Der G [.n 1] [2, 3] [.node 1 [.leaf 2, .node 2 [.leaf 3]]] :=
    Der.nonterm (G := G) (q := 1) (pr := ⟨1, [.t 2, .n 1]⟩) (w1 := [2, 3]) (w2 := []) rfl
      (.term hb) .nil
  exact Der.nonterm (G := G) (q := 1) (pr := ⟨1, [.t 2, .n 1]⟩) (w1 := [2, 2, 3]) (w2 := []) rfl
    (.term hab) .nil

/-- The abstract machine on the emitted tables accepts `a a b` with that tree and logs its
post-order. -/
example : Abs.run G (autoOf T cert) 10 (Abs.init [2, 2, 3]) = .acc tree tree.post := by rfl

/-- … and rejects `a a`. -/
example : Abs.run G (autoOf T cert) 10 (Abs.init [2, 2]) = .fail := by rfl

end Lox.LR.Example

/-! A precedence-resolved instance: `@start E = E '+' E @left(1) | NUM` (terminals EOF=0 ERROR=1
PLUS=2 NUM=3). The generator deleted the shift on `+` in state 4, so `check` fails (the grammar is
ambiguous) while the soundness half `checkSafe` and the termination check pass. Produced with the
real generator. -/
namespace Lox.LR.ExamplePrec

def G : Grammar := ⟨#[⟨0, [.n 1]⟩, ⟨1, [.n 1, .t 2, .n 1]⟩, ⟨1, [.t 3]⟩]⟩

def T : Tables :=
  { rules := #[0, 1, 1], termCounts := #[1, 3, 1],
    actions := #[5, 8, 13, 5, 18, 2, 3, 2, 4, 0, 2147483647, 2, 3, 4, 0, -2, 2, -2, 4, 0, -1, 2, -1],
    gotos := #[5, 8, 8, 9, 8, 2, 1, 1, 0, 2, 1, 4] }

def cert : Array (List Item) :=
  #[[⟨0,0,0⟩, ⟨1,0,0⟩, ⟨1,0,2⟩, ⟨2,0,0⟩, ⟨2,0,2⟩], [⟨0,1,0⟩, ⟨1,1,0⟩, ⟨1,1,2⟩], [⟨2,1,0⟩, ⟨2,1,2⟩],
    [⟨1,0,0⟩, ⟨1,0,2⟩, ⟨1,2,0⟩, ⟨1,2,2⟩, ⟨2,0,0⟩, ⟨2,0,2⟩], [⟨1,1,0⟩, ⟨1,1,2⟩, ⟨1,3,0⟩, ⟨1,3,2⟩]]

theorem checkB_fails : checkB G 4 2 T cert = false := by decide

theorem checkSafe_ok : checkSafe G 4 2 T cert = .ok () := checkSafe_ok_iff.mpr (by decide)

theorem termB_ok : termB G T cert = true := by decide

/-- `n + n + n` is grouped to the left, as `@left` asks. -/
example : Abs.run G (autoOf T cert) 20 (Abs.init [3, 2, 3, 2, 3]) =
    .acc (.node 1 [.node 1 [.node 2 [.leaf 3], .leaf 2, .node 2 [.leaf 3]], .leaf 2,
      .node 2 [.leaf 3]])
      [(2, [.leaf 3]), (2, [.leaf 3]),
       (1, [.node 2 [.leaf 3], .leaf 2, .node 2 [.leaf 3]]), (2, [.leaf 3]),
       (1, [.node 1 [.node 2 [.leaf 3], .leaf 2, .node 2 [.leaf 3]], .leaf 2,
            .node 2 [.leaf 3]])] := by rfl

end Lox.LR.ExamplePrec
