import Lox.LR.EmitModel
import Lox.LR.Check
import Lox.Table.Proofs
/-! Table-level facts about the model of `EmitParser` (`Lox/LR/EmitModel.lean`), for ALL grammars:
what `_Find` (`Lox.LR.find`) and the row reader of the validator (`Lox.LR.rowOf`) see in the emitted
`_actions` / `_goto` arrays is exactly the row the model built for that state
(`stateActionRow`, `stateGotoRow`). Pure table-codec + row-building facts: `Lox/Table/Proofs.lean`
(`AddRow`/`Array` invariant) composed with the definition of `emitParserP`. -/
namespace Lox.LR.Emit
open Lox.LR Lox.LR.Gen Lox.LR.Cons
open Lox.Dec (Action ProdInfo resolveCell)
open Lox.Table

/-! ### `mapM` into `Option` -/

theorem mapM_some_get {α β : Type} (f : α → Option β) :
    ∀ (l : List α) (r : List β), l.mapM f = some r →
      r.length = l.length ∧ ∀ (i : Nat) (x : α), l[i]? = some x → ∃ y, f x = some y ∧ r[i]? = some y := by
  intro l
  induction l with
  | nil =>
    intro r h
    simp at h
    subst h
    simp
  | cons a l ih =>
    intro r h
    rw [List.mapM_cons] at h
    cases ha : f a with
    | none => simp [ha] at h
    | some b =>
      cases hl : l.mapM f with
      | none => simp [ha, hl] at h
      | some r' =>
        simp [ha, hl] at h
        subst h
        obtain ⟨h1, h2⟩ := ih r' hl
        refine ⟨by simp [h1], ?_⟩
        intro i x hi
        cases i with
        | zero => simp at hi; subst hi; exact ⟨b, ha, by simp⟩
        | succ i => simp at hi; simpa using h2 i x hi

theorem mapM_some_mem {α β : Type} (f : α → Option β) {l : List α} {r : List β}
    (h : l.mapM f = some r) {y : β} (hy : y ∈ r) : ∃ x ∈ l, f x = some y := by
  induction l generalizing r with
  | nil => simp at h; subst h; cases hy
  | cons a l ih =>
    rw [List.mapM_cons] at h
    cases ha : f a with
    | none => simp [ha] at h
    | some b =>
      cases hl : l.mapM f with
      | none => simp [ha, hl] at h
      | some r' =>
        simp [ha, hl] at h
        subst h
        rcases List.mem_cons.mp hy with rfl | hy
        · exact ⟨a, by simp, ha⟩
        · obtain ⟨x, hx, hfx⟩ := ih hl hy
          exact ⟨x, List.mem_cons_of_mem _ hx, hfx⟩

theorem mapM_some_of_mem {α β : Type} (f : α → Option β) {l : List α} {r : List β}
    (h : l.mapM f = some r) {x : α} (hx : x ∈ l) : ∃ y ∈ r, f x = some y := by
  obtain ⟨i, hi⟩ := List.getElem?_of_mem hx
  obtain ⟨y, hy, hr⟩ := (mapM_some_get f l r h).2 i x hi
  exact ⟨y, List.mem_of_getElem? hr, hy⟩

/-- The keys of a `mapM` result when `f` keeps a key. -/
theorem mapM_some_map {α β γ : Type} (f : α → Option β) (k : β → γ) (k' : α → γ)
    (hk : ∀ x y, f x = some y → k y = k' x) :
    ∀ {l : List α} {r : List β}, l.mapM f = some r → r.map k = l.map k' := by
  intro l
  induction l with
  | nil => intro r h; simp at h; subst h; rfl
  | cons a l ih =>
    intro r h
    rw [List.mapM_cons] at h
    cases ha : f a with
    | none => simp [ha] at h
    | some b =>
      cases hl : l.mapM f with
      | none => simp [ha, hl] at h
      | some r' =>
        simp [ha, hl] at h
        subst h
        simp [hk a b ha, ih hl]

/-! ### The validator's row reader on a stored row -/

theorem lookupI_eq_firstMatch (x : Int) : ∀ ps : List (Int × Int), lookupI x ps = firstMatch ps x
  | [] => rfl
  | (k, v) :: ps => by
    simp only [lookupI, firstMatch]
    split
    · rfl
    · exact lookupI_eq_firstMatch x ps

/-- `rowScan` over a stretch of the array that holds the pairs `ps`. -/
theorem rowScan_pairs (a : List Int) (ps : List (Int × Int)) :
    ∀ (p fuel : Nat) (rest : List Int), a.drop p = flattenPairs ps ++ rest → ps.length + 1 ≤ fuel →
      rowScan a.toArray fuel (p : Int) ((p + 2 * ps.length : Nat) : Int) = some ps := by
  induction ps with
  | nil =>
    intro p fuel rest _ hf
    obtain ⟨n, rfl⟩ : ∃ n, fuel = n + 1 := ⟨fuel - 1, by omega⟩
    simp [rowScan]
  | cons kv ps ih =>
    intro p fuel rest hd hf
    obtain ⟨k, v⟩ := kv
    obtain ⟨n, rfl⟩ : ∃ n, fuel = n + 1 := ⟨fuel - 1, by simp at hf; omega⟩
    simp only [flattenPairs, List.cons_append] at hd
    obtain ⟨hk, hd1⟩ := drop_cons_get hd
    obtain ⟨hv, hd2⟩ := drop_cons_get hd1
    have hlt : (p : Int) < ((p + 2 * ((k, v) :: ps).length : Nat) : Int) := by
      simp only [List.length_cons]; omega
    have e1 : (p : Int) + 1 = ((p + 1 : Nat) : Int) := by omega
    have e2 : (p : Int) + 2 = ((p + 1 + 1 : Nat) : Int) := by omega
    have e3 : p + 2 * ((k, v) :: ps).length = (p + 1 + 1) + 2 * ps.length := by
      simp only [List.length_cons]; omega
    unfold rowScan
    rw [if_pos hlt, geti_toArray, hk, e1, geti_toArray, hv]
    simp only
    rw [e2, e3, ih (p + 1 + 1) n rest hd2 (by simp at hf; omega)]
    rfl

/-- `rowOf` on an array in which index `i` leads to the key/value row `ps`. -/
theorem rowOf_of_view {a : List Int} {i off : Nat} {ps : List (Int × Int)}
    (hget : a[i]? = some (off : Int))
    (hdrop : a.drop off = (((flattenPairs ps).length : Int) :: flattenPairs ps)
      ++ a.drop (off + 1 + (flattenPairs ps).length)) :
    rowOf a.toArray (i : Int) = some ps := by
  obtain ⟨hc, hd1⟩ := drop_cons_get hdrop
  unfold rowOf
  rw [geti_toArray, hget]
  simp only
  rw [geti_toArray, hc]
  simp only
  rw [flattenPairs_length]
  have e1 : (off : Int) + 1 = ((off + 1 : Nat) : Int) := by omega
  have e2 : ((off + 1 : Nat) : Int) + ((2 * ps.length : Nat) : Int)
      = ((off + 1 + 2 * ps.length : Nat) : Int) := by
    omega
  rw [e1, e2, Int.toNat_natCast]
  exact rowScan_pairs a ps (off + 1) (2 * ps.length + 1) _ hd1 (by omega)

/-- What both readers see for an index that was added with the key/value row `ps`. -/
theorem readers_of_build {rows : List (Nat × List Int)} {a : List Int} (hb : build rows = some a)
    {i : Nat} {ps : List (Int × Int)} (hm : (i, flattenPairs ps) ∈ rows) :
    rowOf a.toArray (i : Int) = some ps ∧
      ∀ x, find a.toArray (i : Int) x = lookResult (firstMatch ps x) := by
  obtain ⟨t, hinv, rfl, _⟩ := build_inv hb
  obtain ⟨off, hget, hdrop⟩ := view_of_inv hinv hm
  exact ⟨rowOf_of_view hget hdrop, fun x => find_of_view x hget hdrop⟩

/-! ### The rows of the emitted arrays -/

/-- Everything the later proofs need to know about the four arrays `emitParserP` returns. -/
structure Emitted (info : Nat → ProdInfo) (G : Grammar) (nT : Nat) (ord : List Sym) (st : CState)
    (T : Tables) : Prop where
  rules : T.rules = rulesArr G
  termCounts : T.termCounts = termCountsArr G
  /-- the `_actions` row of every state was built (no panic) and is what the readers see -/
  arow : ∀ i, i < st.states.length → ∃ row, stateActionRow info G nT ord st i = some row ∧
    rowOf T.actions (i : Int) = some row ∧
    ∀ x, find T.actions (i : Int) x = lookResult (firstMatch row x)
  /-- the `_goto` row of every state is what the readers see -/
  grow : ∀ i, i < st.states.length →
    rowOf T.gotos (i : Int) = some (stateGotoRow ord st i) ∧
    ∀ x, find T.gotos (i : Int) x = lookResult (firstMatch (stateGotoRow ord st i) x)

theorem emitted_of_emitParserP {info : Nat → ProdInfo} {G : Grammar} {nT : Nat} {ord : List Sym}
    {st : CState} {T : Tables} (h : emitParserP info G nT ord st = some T) :
    Emitted info G nT ord st T := by
  unfold emitParserP at h
  cases har : actionRows info G nT ord st with
  | none => simp [har] at h
  | some arows =>
    simp only [har] at h
    cases hba : build arows with
    | none => simp [hba] at h
    | some a =>
      cases hbg : build (gotoRows ord st) with
      | none => simp [hba, hbg] at h
      | some g =>
        simp only [hba, hbg, Option.some.injEq] at h
        subst h
        refine ⟨rfl, rfl, ?_, ?_⟩
        · intro i hi
          unfold actionRows at har
          have hget : (List.range st.states.length)[i]? = some i := by simp [hi]
          obtain ⟨y, hy, hr⟩ := (mapM_some_get _ _ _ har).2 i i hget
          cases hrow : stateActionRow info G nT ord st i with
          | none => simp [hrow] at hy
          | some row =>
            simp only [hrow, Option.map_some, Option.some.injEq] at hy
            subst hy
            have hm : (i, flattenPairs row) ∈ arows := List.mem_of_getElem? hr
            obtain ⟨h1, h2⟩ := readers_of_build hba hm
            exact ⟨row, rfl, h1, h2⟩
        · intro i hi
          have hm : (i, flattenPairs (stateGotoRow ord st i)) ∈ gotoRows ord st := by
            unfold gotoRows
            exact List.mem_map.mpr ⟨i, List.mem_range.mpr hi, rfl⟩
          exact readers_of_build hbg hm

/-- `lookResult` of a first-match lookup, as the two cases `_Find` distinguishes. -/
theorem lookResult_hit {o : Option Int} {v : Int} : lookResult o = .hit v ↔ o = some v := by
  cases o <;> simp [lookResult]

theorem lookResult_miss {o : Option Int} : lookResult o = .miss ↔ o = none := by
  cases o <;> simp [lookResult]

theorem lookResult_ne_oob (o : Option Int) : lookResult o ≠ .oob := by
  cases o <;> simp [lookResult]

end Lox.LR.Emit
