import Lox.LR.VerdictE2E
/-! The BOOLEAN validator `conflictCheckB` (`Lox/LR/ConflictCheck.lean`) on the output of the
generator model: the ⊇ half with the shape conditions (`closedSkelB`) and the kernel check
(`kernelsDistinctB`) evaluate to `true` for ALL well-formed grammars
(`closedSkelB_of_construct`, `kernelsDistinctB_of_construct`); what is left of `conflictCheckB` is
the result of the untrusted rank search (`conflictCheckB_eq_search`). Needs one more loop invariant
of `Cons.construct`: the rows of the transition table have pairwise different keys (`RowsNodup`;
`TransitionMap` is a Go map). -/
namespace Lox.LR.Cons
open Lox.LR Lox.LR.Gen

/-- Every row of the transition table lists a symbol at most once. -/
def RowsNodup (st : CState) : Prop := ∀ row ∈ st.trans, (row.map (·.1)).Nodup

theorem nodup_setTrans {row : List (Sym × Nat)} (h : (row.map (·.1)).Nodup) (X : Sym) (j : Nat) :
    ((setTrans row X j).map (·.1)).Nodup := by
  unfold setTrans
  rw [List.map_cons, List.nodup_cons]
  constructor
  · intro hm
    obtain ⟨e, he, hx⟩ := List.mem_map.mp hm
    have := (List.mem_filter.mp he).2
    simp only [bne_iff_ne, ne_eq] at this
    exact this hx
  · exact h.sublist ((List.filter_sublist).map _)

theorem mem_modAt {α : Type} {l : List α} {i : Nat} {f : α → α} {y : α} (h : y ∈ modAt l i f) :
    y ∈ l ∨ ∃ x ∈ l, y = f x := by
  unfold modAt at h
  cases hx : l[i]? with
  | none => simp only [hx] at h; exact .inl h
  | some x =>
    simp only [hx] at h
    rcases List.mem_or_eq_of_mem_set h with h | h
    · exact .inl h
    · exact .inr ⟨x, List.mem_of_getElem? hx, h⟩

section
variable {G : Grammar} {nT : Nat}

theorem RowsNodup.step {st st' : CState} {i : Nat} {X : Sym} (h : RowsNodup st)
    (hs : stepSym G nT i st X = some st') : RowsNodup st' := by
  unfold stepSym at hs
  cases hI : st.states[i]? with
  | none => simp [hI] at hs
  | some I =>
    simp only [hI] at hs
    cases hT : gotoGo G nT I X with
    | none => simp [hT] at hs
    | some T =>
      simp only [hT] at hs
      have hmod : ∀ j, ∀ row ∈ modAt st.trans i (fun row => setTrans row X j),
          (row.map (·.1)).Nodup := by
        intro j row hrow
        rcases mem_modAt hrow with hm | ⟨x, hx, rfl⟩
        · exact h row hm
        · exact nodup_setTrans (h x hx) X j
      cases hf : findKey (lr0Key T) st.keys with
      | some j =>
        simp only [hf, Option.some.injEq] at hs
        subst hs
        exact hmod j
      | none =>
        simp only [hf, Option.some.injEq] at hs
        subst hs
        intro row hrow
        simp only [List.mem_append, List.mem_singleton] at hrow
        rcases hrow with hrow | rfl
        · exact hmod _ row hrow
        · simp

theorem RowsNodup.procKey {ord : List Sym} {k : Key} {st st' : CState} (h : RowsNodup st)
    (hs : procKey G nT ord st k = some st') : RowsNodup st' := by
  unfold Cons.procKey at hs
  cases hf : findKey k st.keys with
  | none => simp [hf] at hs
  | some i0 =>
    simp only [hf] at hs
    cases hI0 : st.states[i0]? with
    | none => simp [hI0] at hs
    | some I0 =>
      simp only [hI0] at hs
      exact foldlM_inv (stepSym G nT i0) (fun _ s => RowsNodup s)
        (fun _ _ _ _ hq hs => hq.step hs) _ _ _ h hs

theorem RowsNodup.procRound {ord : List Sym} {st st' : CState} (h : RowsNodup st)
    (hs : procRound G nT ord st = some st') : RowsNodup st' := by
  unfold Cons.procRound at hs
  have hstart : RowsNodup { st with pending := [] } := h
  exact foldlM_inv (Cons.procKey G nT ord) (fun _ s => RowsNodup s)
    (fun _ _ _ _ hq hs => hq.procKey hs) _ _ _ hstart hs

theorem RowsNodup.loop {ord : List Sym} :
    ∀ (n : Nat) {st st' : CState}, RowsNodup st → loop G nT ord n st = some st' → RowsNodup st'
  | 0, _, _, _, h => by simp [Cons.loop] at h
  | n + 1, st, st', hr, h => by
    simp only [Cons.loop] at h
    split at h
    · cases h; exact hr
    · cases hp : Cons.procRound G nT ord st with
      | none => simp [hp] at h
      | some st1 =>
        simp only [hp] at h
        exact RowsNodup.loop n (hr.procRound hp) h

theorem construct_rowsNodup {ord : List Sym} {fuel : Nat} {st : CState}
    (h : constructWith G nT ord fuel = some st) : RowsNodup st := by
  unfold constructWith at h
  cases hi : initState G nT with
  | none => simp [hi] at h
  | some st0 =>
    simp only [hi] at h
    refine RowsNodup.loop fuel ?_ h
    unfold initState at hi
    cases hc : closureGo G nT [⟨0, 0, 0⟩] with
    | none => simp [hc] at hi
    | some I0 =>
      simp only [hc, Option.some.injEq] at hi
      subst hi
      intro row hrow
      simp only [List.mem_singleton] at hrow
      subst hrow
      simp

end

end Lox.LR.Cons

namespace Lox.LR
open Lox.LR.Emit (mem_dot0Of)

theorem lookupSym_of_mem {X : Sym} {t : Nat} : ∀ {row : List (Sym × Nat)},
    (row.map (·.1)).Nodup → (X, t) ∈ row → lookupSym X row = some t
  | [], _, h => by cases h
  | (Y, u) :: r, hn, h => by
    simp only [List.map_cons, List.nodup_cons] at hn
    simp only [lookupSym]
    rcases List.mem_cons.mp h with e | h
    · cases e; simp
    · have hne : Y ≠ X := by
        rintro rfl
        exact hn.1 (List.mem_map.mpr ⟨(Y, t), h, rfl⟩)
      rw [if_neg hne]
      exact lookupSym_of_mem hn.2 h

theorem hasNext_of {G : Grammar} {items : List Item} {X : Sym}
    (h : ∃ it ∈ items, ∃ pr, G.prods[it.p]? = some pr ∧ pr.rhs[it.d]? = some X) :
    hasNext G items X = true := by
  obtain ⟨it, hit, pr, hp, hX⟩ := h
  simp only [hasNext, List.any_eq_true]
  exact ⟨it, hit, by simp [hp, hX]⟩

section
variable {G : Grammar} {nT nR : Nat} {tr : TransTab} {cert : Array (List Item)}

theorem gotoCB_of {s : Nat} {it : Item} {X : Sym}
    (h : ∃ s', lookupSym X (rowOfT tr s) = some s' ∧
      (⟨it.p, it.d + 1, it.a⟩ : Item) ∈ itemsOf cert s') : gotoCB tr cert s it X = true := by
  obtain ⟨s', hl, hm⟩ := h
  unfold gotoCB
  simp only [hl]
  exact hasItem_iff.mpr hm

theorem shapeCB_of {s : Nat} {it : Item} {pr : Prod} (h : ShapeOK tr s it pr) :
    shapeCB tr s it pr = true := by
  unfold shapeCB
  rw [Bool.and_eq_true, Bool.and_eq_true, Bool.and_eq_true]
  refine ⟨⟨⟨?_, ?_⟩, ?_⟩, ?_⟩
  · by_cases hd : it.d = 0
    · by_cases hp : it.p = 0
      · simp [hp]
      · obtain ⟨s', hs'⟩ := h.gotoDef hd hp
        simp [hs']
    · simp [hd]
  · by_cases h0 : it.p = 0 ∧ it.d = 0
    · have := h.startOnly h0.1 h0.2
      simp [this]
    · have : (it.p == 0 && it.d == 0) = false := by
        simp only [Bool.and_eq_false_iff, beq_eq_false_iff_ne, ne_eq]
        by_cases hp0 : it.p = 0
        · exact .inr fun hd => h0 ⟨hp0, hd⟩
        · exact .inl hp0
      simp [this]
  · by_cases hs0 : s = 0
    · have := h.s0 hs0
      simp [this]
    · simp [hs0]
  · by_cases hp0 : it.p = 0
    · have := h.p0 hp0
      simp [this]
    · simp [hp0]

theorem itemCB_of {F : FirstTab} {s : Nat} {it : Item} {pr : Prod}
    (hp : G.prods[it.p]? = some pr) (h : ItemCOK G nT F tr cert s it pr) :
    itemCB G nT F tr cert s (dot0Of (itemsOf cert s) G.prods.size) it = true := by
  unfold itemCB
  simp only [hp]
  rw [Bool.and_eq_true, Bool.and_eq_true]
  refine ⟨by simpa using h.la, ?_, shapeCB_of h.shape⟩
  cases hX : pr.rhs[it.d]? with
  | none =>
    have := List.getElem?_eq_none_iff.mp hX
    have := h.dot
    simp only [beq_iff_eq]
    omega
  | some X =>
    cases X with
    | t x => exact gotoCB_of (h.step _ hX)
    | n B =>
      simp only [Bool.and_eq_true]
      refine ⟨gotoCB_of (h.step _ hX), ?_⟩
      unfold closureCB
      simp only [List.all_eq_true, List.mem_range]
      intro q hq
      cases hqr : G.prods[q]? with
      | none => rfl
      | some qr =>
        simp only [Bool.or_eq_true, bne_iff_ne, ne_eq, List.all_eq_true, decide_eq_true_eq]
        by_cases hl : qr.lhs = B
        · right
          intro b hb
          exact mem_dot0Of hq (h.closure B q qr b hX hqr hl hb)
        · exact .inl hl

/-- **The ⊇ half and the shape conditions as a Boolean**: `SkelOK` (with distinct keys in every
transition row) makes `closedSkelB` evaluate to `true`. -/
theorem closedSkelB_of_skelOK (h : SkelOK G nT nR tr cert)
    (hrows : ∀ s, ((rowOfT tr s).map (·.1)).Nodup) : closedSkelB G nT nR tr cert = true := by
  unfold closedSkelB
  simp only [Bool.and_eq_true, beq_iff_eq, List.all_eq_true, List.mem_range]
  refine ⟨⟨⟨⟨h.prod0, h.closedF⟩, h.size⟩, hasItem_iff.mpr h.start⟩, fun s _ => ?_⟩
  unfold skelStateB
  simp only [Bool.and_eq_true, List.all_eq_true]
  constructor
  · intro it hit
    obtain ⟨pr, hp, hok⟩ := h.items s it hit
    exact itemCB_of hp hok
  · rintro ⟨X, t⟩ he
    have hl := lookupSym_of_mem (hrows s) he
    have hok := h.edges s X t hl
    unfold edgeCB
    simp only [Bool.and_eq_true, bne_iff_ne, ne_eq]
    exact ⟨⟨hok.noEof, hok.back⟩, hasNext_of hok.called⟩

theorem mem_kernelCores_KJ {J : List Item} {pd : Nat × Nat} :
    pd ∈ kernelCores J ↔ Cons.KJ J pd := by
  unfold kernelCores Cons.KJ
  simp only [List.mem_map, List.mem_filter]
  constructor
  · rintro ⟨y, ⟨hy, hk⟩, he⟩
    exact ⟨y, hy, hk, he⟩
  · rintro ⟨y, hy, hk, he⟩
    exact ⟨y, ⟨hy, hk⟩, he⟩

theorem coresDiffer_false {k k' : List (Nat × Nat)} (h : coresDiffer k k' = false) :
    ∀ pd, pd ∈ k ↔ pd ∈ k' := by
  simp only [coresDiffer, Bool.or_eq_false_iff, List.any_eq_false, Bool.not_eq_true',
    List.contains_eq_mem, decide_eq_false_iff_not, Decidable.not_not] at h
  exact fun pd => ⟨h.1 pd, h.2 pd⟩

end

end Lox.LR

namespace Lox.LR.Emit
open Lox.LR Lox.LR.Gen Lox.LR.Cons

section
variable {G : Grammar} {nT nR : Nat} {ord : List Sym} {st : CState}

/-- `closedSkelB` is `true` on the table the model returns. -/
theorem closedSkelB_of_construct (hw : GrammarWf G nT nR) (hO : OrdOK nT nR ord)
    (hst : construct G nT ord = some st) : closedSkelB G nT nR st.transTab st.cert = true := by
  apply closedSkelB_of_skelOK (skelOK_of_construct hw hO hst)
  intro s
  rw [rowOfT_transTab]
  have hr : RowsNodup st := construct_rowsNodup hst
  cases hrow : st.trans[s]? with
  | none => simp
  | some row =>
    simp only [Option.getD_some]
    exact hr row (List.mem_of_getElem? hrow)

/-- `kernelsDistinctB` is `true` on the table the model returns (states are keyed by `LR0Key`). -/
theorem kernelsDistinctB_of_inv (hinv : Inv G st) : kernelsDistinctB st.cert = true := by
  unfold kernelsDistinctB
  simp only [List.all_eq_true, List.mem_range]
  intro s hs s' hs'
  rw [size_cert] at hs
  have hs'' : s' < st.states.length := by omega
  have e1 : ((st.cert.map kernelCores)[s]?.getD []) = kernelCores st.states[s] := by
    simp [CState.cert, hs]
  have e2 : ((st.cert.map kernelCores)[s']?.getD []) = kernelCores st.states[s'] := by
    simp [CState.cert, hs'']
  rw [e1, e2]
  cases hc : coresDiffer (kernelCores st.states[s]) (kernelCores st.states[s']) with
  | true => rfl
  | false =>
    exfalso
    have hiff := coresDiffer_false hc
    have hk : lr0Key st.states[s] = lr0Key st.states[s'] :=
      lr0Key_eq_of_KJ fun pd => by
        rw [← mem_kernelCores_KJ, ← mem_kernelCores_KJ]
        exact hiff pd
    have h1 := hinv.key s _ (List.getElem?_eq_some_iff.mpr ⟨hs, rfl⟩)
    have h2 := hinv.key s' _ (List.getElem?_eq_some_iff.mpr ⟨hs'', rfl⟩)
    rw [hk] at h1
    have := findKey_unique hinv.keysNodup h1 h2
    omega

/-- **What is left of the Boolean validator on the model's own output**: `conflictCheckB` equals
the outcome of the check of the UNTRUSTED rank search (ranked FIRST table `rankTabs`, ranks and
parents `Jst.searchRanks`); the ⊇ half, the shape conditions and the kernel check always pass. -/
theorem conflictCheckB_eq_search (hw : GrammarWf G nT nR) (hO : OrdOK nT nR ord)
    (hst : construct G nT ord = some st) :
    conflictCheckB G nT nR st.transTab st.cert =
      (rankOKB G (rankTabs G nT nR) &&
        itemsJustB G (skelAuto st.transTab st.cert) (rankTabs G nT nR)
          (Jst.searchRanks G nR (skelAuto st.transTab st.cert) st.cert (rankTabs G nT nR)).1
          (Jst.searchRanks G nR (skelAuto st.transTab st.cert) st.cert (rankTabs G nT nR)).2
          st.cert.size) := by
  have hb := built_of_wf hw hO hst
  unfold conflictCheckB justSkelB
  rw [closedSkelB_of_construct hw hO hst, Bool.true_and]
  simp only [justSkelWith, kernelsDistinctB_of_inv hb.inv, Bool.and_true]

end

end Lox.LR.Emit
