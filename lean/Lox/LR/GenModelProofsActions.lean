import Lox.LR.GenModelProofsKey
/-! `createActions` of the generator model: the action cell of (item set, terminal) holds exactly
the textbook candidate actions. Specification: `Cand`, `CandOf`. Core Lean only. -/
namespace Lox.LR.Gen
open Lox.LR
open Lox.Dec (Action Call Panic buildCell applyCall addShift addReduce addAccept)

/-! ## Specification -/

/-- The kinds of candidate actions of a state on one terminal. -/
inductive Cand where
  | accept
  | reduce (p : Nat)
  | shift
  deriving DecidableEq, Repr

def kindOf : Action → Cand
  | .accept => .accept
  | .reduce p => .reduce p
  | .shift _ _ => .shift

/-- The textbook definition: accept on the lookahead of `S' → S·`, reduce `p` on the lookahead of
a completed item of `p ≠ 0`, shift on the terminal after a dot. -/
def CandOf (G : Grammar) (I : List Item) (a : Nat) : Cand → Prop
  | .accept => ∃ pr0 : Prod, G.prods[0]? = some pr0 ∧ (⟨0, pr0.rhs.length, a⟩ : Item) ∈ I
  | .reduce p => p ≠ 0 ∧ ∃ pr : Prod, G.prods[p]? = some pr ∧ (⟨p, pr.rhs.length, a⟩ : Item) ∈ I
  | .shift => ∃ it ∈ I, afterDot G it = some (.t a)

/-! ## Cells -/

def isShift : Action → Bool
  | .shift _ _ => true
  | .reduce _ => false
  | .accept => false

@[simp] theorem isShift_shift (t : Nat) (ps : List Nat) : isShift (.shift t ps) = true := rfl
@[simp] theorem isShift_reduce (p : Nat) : isShift (.reduce p) = false := rfl
@[simp] theorem isShift_accept : isShift .accept = false := rfl

def callAction : Call → Option Action
  | .reduce p => some (.reduce p)
  | .accept => some .accept
  | .shift _ _ => none

def callProd : Call → Option Nat
  | .shift _ p => some p
  | .reduce _ => none
  | .accept => none

@[simp] theorem callAction_reduce (p : Nat) : callAction (.reduce p) = some (.reduce p) := rfl
@[simp] theorem callAction_accept : callAction .accept = some .accept := rfl
@[simp] theorem callAction_shift (t p : Nat) : callAction (.shift t p) = none := rfl
@[simp] theorem callProd_reduce (p : Nat) : callProd (.reduce p) = none := rfl
@[simp] theorem callProd_accept : callProd .accept = none := rfl
@[simp] theorem callProd_shift (t p : Nat) : callProd (.shift t p) = some p := rfl
@[simp] theorem kindOf_reduce (p : Nat) : kindOf (.reduce p) = .reduce p := rfl
@[simp] theorem kindOf_accept : kindOf .accept = .accept := rfl
@[simp] theorem kindOf_shift (t : Nat) (ps : List Nat) : kindOf (.shift t ps) = .shift := rfl

/-- The shift actions of a cell whose shift calls brought the productions `Q`. -/
def shiftList (s0 : Nat) (Q : List Nat) : List Action := if Q = [] then [] else [.shift s0 Q]

theorem addShift_spec (s0 p : Nat) (cell : List Action) :
    (cell.filter isShift = [] →
      ∃ cell', addShift s0 p cell = .ok cell' ∧
        cell'.filter (fun a => !isShift a) = cell.filter (fun a => !isShift a) ∧
        cell'.filter isShift = [.shift s0 [p]]) ∧
    (∀ Q, cell.filter isShift = [.shift s0 Q] →
      ∃ cell', addShift s0 p cell = .ok cell' ∧
        cell'.filter (fun a => !isShift a) = cell.filter (fun a => !isShift a) ∧
        cell'.filter isShift = [.shift s0 (Q ++ [p])]) := by
  induction cell with
  | nil =>
    constructor
    · intro _
      exact ⟨[.shift s0 [p]], rfl, rfl, rfl⟩
    · intro Q h
      simp at h
  | cons x cell ih =>
    cases x with
    | shift t ps =>
      constructor
      · intro h
        simp at h
      · intro Q h
        simp only [List.filter_cons, isShift_shift, if_true] at h
        injection h with h1 h2
        injection h1 with ht hps
        subst ht hps
        refine ⟨.shift t (ps ++ [p]) :: cell, by simp [addShift], ?_, ?_⟩
        · simp
        · rw [List.filter_cons, isShift_shift, if_pos rfl, h2]
    | reduce q =>
      constructor
      · intro h
        have h' : cell.filter isShift = [] := by simpa using h
        obtain ⟨c', h1, h2, h3⟩ := ih.1 h'
        refine ⟨.reduce q :: c', by simp [addShift, h1, Except.map], ?_, ?_⟩
        · simp [h2]
        · simpa using h3
      · intro Q h
        have h' : cell.filter isShift = [.shift s0 Q] := by simpa using h
        obtain ⟨c', h1, h2, h3⟩ := ih.2 Q h'
        refine ⟨.reduce q :: c', by simp [addShift, h1, Except.map], ?_, ?_⟩
        · simp [h2]
        · simpa using h3
    | accept =>
      constructor
      · intro h
        have h' : cell.filter isShift = [] := by simpa using h
        obtain ⟨c', h1, h2, h3⟩ := ih.1 h'
        refine ⟨.accept :: c', by simp [addShift, h1, Except.map], ?_, ?_⟩
        · simp [h2]
        · simpa using h3
      · intro Q h
        have h' : cell.filter isShift = [.shift s0 Q] := by simpa using h
        obtain ⟨c', h1, h2, h3⟩ := ih.2 Q h'
        refine ⟨.accept :: c', by simp [addShift, h1, Except.map], ?_, ?_⟩
        · simp [h2]
        · simpa using h3

theorem foldlM_applyCall (s0 : Nat) (L : List Call) (cell : List Action) (Q : List Nat)
    (hL : ∀ t p, Call.shift t p ∈ L → t = s0)
    (hs : cell.filter isShift = shiftList s0 Q)
    (hn : (cell.filter (fun a => !isShift a) ++ L.filterMap callAction).Nodup) :
    ∃ cell', L.foldlM applyCall cell = .ok cell' ∧
      cell'.filter (fun a => !isShift a) =
        cell.filter (fun a => !isShift a) ++ L.filterMap callAction ∧
      cell'.filter isShift = shiftList s0 (Q ++ L.filterMap callProd) := by
  induction L generalizing cell Q with
  | nil => exact ⟨cell, rfl, by simp, by simpa using hs⟩
  | cons c L ih =>
    have hL' : ∀ t p, Call.shift t p ∈ L → t = s0 := fun t p h => hL t p (by simp [h])
    cases c with
    | reduce p =>
      have hstep : applyCall cell (.reduce p) = .ok (cell ++ [.reduce p]) := rfl
      obtain ⟨c', h1, h2, h3⟩ := ih (cell ++ [.reduce p]) Q hL'
        (by simpa using hs)
        (by simpa [List.append_assoc] using hn)
      refine ⟨c', ?_, ?_, ?_⟩
      · rw [List.foldlM_cons, hstep]; exact h1
      · rw [h2]; simp
      · exact h3
    | accept =>
      have hnot : Action.accept ∉ cell := by
        intro hmem
        have hin : Action.accept ∈ cell.filter (fun a => !isShift a) := by
          simp [List.mem_filter, hmem]
        rw [List.nodup_append] at hn
        exact hn.2.2 _ hin _ (by simp [callAction]) rfl
      have hstep : applyCall cell .accept = .ok (cell ++ [.accept]) := by
        simp only [applyCall, addAccept]
        rw [if_neg]
        simp only [List.any_eq_true, beq_iff_eq, not_exists, not_and]
        intro x hx hxa
        exact hnot (hxa ▸ hx)
      obtain ⟨c', h1, h2, h3⟩ := ih (cell ++ [.accept]) Q hL'
        (by simpa using hs)
        (by simpa [List.append_assoc] using hn)
      refine ⟨c', ?_, ?_, ?_⟩
      · rw [List.foldlM_cons, hstep]; exact h1
      · rw [h2]; simp
      · exact h3
    | shift t p =>
      have ht : t = s0 := hL t p (by simp)
      subst ht
      have hn' : (cell.filter (fun a => !isShift a) ++ L.filterMap callAction).Nodup := hn
      by_cases hQ : Q = []
      · subst hQ
        have hs0 : cell.filter isShift = [] := by simpa [shiftList] using hs
        obtain ⟨c1, e1, e2, e3⟩ := (addShift_spec t p cell).1 hs0
        obtain ⟨c', h1, h2, h3⟩ := ih c1 [p] hL' (by simp [shiftList, e3]) (by rw [e2]; exact hn')
        refine ⟨c', ?_, ?_, ?_⟩
        · rw [List.foldlM_cons]
          have : applyCall cell (.shift t p) = .ok c1 := e1
          rw [this]; exact h1
        · rw [h2, e2]; rfl
        · exact h3
      · have hs0 : cell.filter isShift = [.shift t Q] := by simpa [shiftList, hQ] using hs
        obtain ⟨c1, e1, e2, e3⟩ := (addShift_spec t p cell).2 Q hs0
        obtain ⟨c', h1, h2, h3⟩ := ih c1 (Q ++ [p]) hL' (by simp [shiftList, e3])
          (by rw [e2]; exact hn')
        refine ⟨c', ?_, ?_, ?_⟩
        · rw [List.foldlM_cons]
          have : applyCall cell (.shift t p) = .ok c1 := e1
          rw [this]; exact h1
        · rw [h2, e2]; rfl
        · rw [h3]; simp [List.append_assoc]

/-- `buildCell` on a call list with one shift target and duplicate-free non-shift calls. -/
theorem buildCell_spec (s0 : Nat) (L : List Call) (hL : ∀ t p, Call.shift t p ∈ L → t = s0)
    (hn : (L.filterMap callAction).Nodup) :
    ∃ cell, buildCell L = .ok cell ∧
      cell.filter (fun a => !isShift a) = L.filterMap callAction ∧
      cell.filter isShift = shiftList s0 (L.filterMap callProd) := by
  have := foldlM_applyCall s0 L [] [] hL (by simp [shiftList]) (by simpa using hn)
  simpa [buildCell] using this

/-! ## What an item asks for -/

theorem want_accept {G : Grammar} {nT : Nat} {tr : Nat → Option Nat} {it : Item} {b : Nat} :
    want G nT tr it = .call b .accept ↔
      ∃ pr : Prod, G.prods[it.p]? = some pr ∧ it.d = pr.rhs.length ∧ it.a < nT ∧ it.p = 0 ∧ b = it.a := by
  unfold want
  cases hp : G.prods[it.p]? with
  | none => simp
  | some pr =>
    simp only [Option.some.injEq]
    by_cases hd : it.d = pr.rhs.length
    · rw [if_pos hd]
      by_cases ha : nT ≤ it.a
      · rw [if_pos ha]
        constructor
        · intro h; cases h
        · rintro ⟨_, _, _, h, _⟩; omega
      · rw [if_neg ha]
        by_cases h0 : it.p = 0
        · rw [if_pos h0]
          constructor
          · intro h
            injection h with h1 h2
            exact ⟨pr, rfl, hd, by omega, h0, h1.symm⟩
          · rintro ⟨_, _, _, _, _, rfl⟩; rfl
        · rw [if_neg h0]
          constructor
          · intro h
            injection h with h1 h2
            cases h2
          · rintro ⟨_, _, _, _, h, _⟩; exact absurd h h0
    · rw [if_neg hd]
      constructor
      · intro h
        split at h
        · cases h
        · cases h
        · split at h <;> cases h
      · rintro ⟨pr', rfl, hd', _⟩; exact absurd hd' hd

theorem want_reduce {G : Grammar} {nT : Nat} {tr : Nat → Option Nat} {it : Item} {b p : Nat} :
    want G nT tr it = .call b (.reduce p) ↔
      ∃ pr : Prod, G.prods[it.p]? = some pr ∧ it.d = pr.rhs.length ∧ it.a < nT ∧ it.p ≠ 0 ∧
        p = it.p ∧ b = it.a := by
  unfold want
  cases hp : G.prods[it.p]? with
  | none => simp
  | some pr =>
    simp only [Option.some.injEq]
    by_cases hd : it.d = pr.rhs.length
    · rw [if_pos hd]
      by_cases ha : nT ≤ it.a
      · rw [if_pos ha]
        constructor
        · intro h; cases h
        · rintro ⟨_, _, _, h, _⟩; omega
      · rw [if_neg ha]
        by_cases h0 : it.p = 0
        · rw [if_pos h0]
          constructor
          · intro h
            injection h with h1 h2
            cases h2
          · rintro ⟨_, _, _, _, h, _⟩; exact absurd h0 h
        · rw [if_neg h0]
          constructor
          · intro h
            injection h with h1 h2
            injection h2 with h2
            exact ⟨pr, rfl, hd, by omega, h0, h2.symm, h1.symm⟩
          · rintro ⟨_, _, _, _, _, rfl, rfl⟩; rfl
    · rw [if_neg hd]
      constructor
      · intro h
        split at h
        · cases h
        · cases h
        · split at h <;> cases h
      · rintro ⟨pr', rfl, hd', _⟩; exact absurd hd' hd

theorem want_shift {G : Grammar} {nT : Nat} {tr : Nat → Option Nat} {it : Item} {b s p : Nat} :
    want G nT tr it = .call b (.shift s p) ↔
      afterDot G it = some (.t b) ∧ tr b = some s ∧ p = it.p := by
  unfold want afterDot
  cases hp : G.prods[it.p]? with
  | none => simp
  | some pr =>
    simp only
    by_cases hd : it.d = pr.rhs.length
    · rw [if_pos hd]
      have hnone : pr.rhs[it.d]? = none := by rw [hd]; simp
      constructor
      · intro h
        split at h
        · cases h
        · split at h <;> cases h
      · rintro ⟨h, _⟩
        rw [hnone] at h
        cases h
    · rw [if_neg hd]
      cases hs : pr.rhs[it.d]? with
      | none =>
        constructor
        · intro h; cases h
        · rintro ⟨h, _⟩; cases h
      | some sy =>
        cases sy with
        | n B =>
          constructor
          · intro h; cases h
          · rintro ⟨h, _⟩; cases h
        | t x =>
          simp only
          cases htr : tr x with
          | none =>
            constructor
            · intro h; cases h
            · rintro ⟨h1, h2, _⟩
              injection h1 with h1
              injection h1 with h1
              subst h1
              rw [htr] at h2
              cases h2
          | some s' =>
            constructor
            · intro h
              injection h with h1 h2
              injection h2 with h2 h3
              subst h1 h2 h3
              exact ⟨rfl, htr, rfl⟩
            · rintro ⟨h1, h2, h3⟩
              injection h1 with h1
              injection h1 with h1
              subst h1 h3
              rw [htr] at h2
              injection h2 with h2
              subst h2
              rfl

/-! ## The cell of a state on a terminal -/

/-- The per-item function behind `callsOn`. -/
def callFor (G : Grammar) (nT : Nat) (tr : Nat → Option Nat) (a : Nat) (it : Item) : Option Call :=
  match want G nT tr it with
  | .call b c => if b = a then some c else none
  | _ => none

theorem callsOn_eq (G : Grammar) (nT : Nat) (tr : Nat → Option Nat) (I : List Item) (a : Nat) :
    callsOn G nT tr I a = (sortItems I).filterMap (callFor G nT tr a) := rfl

theorem callFor_eq_some {G : Grammar} {nT : Nat} {tr : Nat → Option Nat} {a : Nat} {it : Item}
    {c : Call} : callFor G nT tr a it = some c ↔ want G nT tr it = .call a c := by
  unfold callFor
  cases h : want G nT tr it with
  | nothing => simp
  | panic => simp
  | call b c' =>
    by_cases hb : b = a
    · subst hb; simp
    · simp [hb]

theorem mem_callsOn {G : Grammar} {nT : Nat} {tr : Nat → Option Nat} {I : List Item} {a : Nat}
    {c : Call} : c ∈ callsOn G nT tr I a ↔ ∃ it ∈ I, want G nT tr it = .call a c := by
  rw [callsOn_eq, List.mem_filterMap]
  constructor
  · rintro ⟨it, hit, h⟩
    exact ⟨it, mem_sortItems.mp hit, callFor_eq_some.mp h⟩
  · rintro ⟨it, hit, h⟩
    exact ⟨it, mem_sortItems.mpr hit, callFor_eq_some.mpr h⟩

/-- The non-shift calls on a cell come from different items, hence are different. -/
theorem nodup_nonshift_calls (G : Grammar) (nT : Nat) (tr : Nat → Option Nat) (I : List Item)
    (a : Nat) : ((callsOn G nT tr I a).filterMap callAction).Nodup := by
  rw [callsOn_eq, List.filterMap_filterMap]
  refine List.Pairwise.filterMap _ ?_ (nodup_sortItems I)
  intro it it' hne act h1 act' h2 heq
  subst heq
  apply hne
  cases hc : callFor G nT tr a it with
  | none => simp [hc] at h1
  | some c =>
    cases hc' : callFor G nT tr a it' with
    | none => simp [hc'] at h2
    | some c' =>
      simp only [hc, hc', Option.bind_some] at h1 h2
      have w := callFor_eq_some.mp hc
      have w' := callFor_eq_some.mp hc'
      cases c with
      | shift t p => simp [callAction] at h1
      | accept =>
        cases c' with
        | shift t p => simp [callAction] at h2
        | reduce p => simp [callAction] at h1 h2; rw [← h1] at h2; cases h2
        | accept =>
          obtain ⟨pr, e1, e2, _, e4, e5⟩ := want_accept.mp w
          obtain ⟨pr', e1', e2', _, e4', e5'⟩ := want_accept.mp w'
          cases it; cases it'
          simp only at e1 e2 e4 e5 e1' e2' e4' e5'
          subst e4 e4' e5 e5'
          rw [e1] at e1'
          cases e1'
          simp [e2, e2']
      | reduce p =>
        cases c' with
        | shift t p' => simp [callAction] at h2
        | accept => simp [callAction] at h1 h2; rw [← h1] at h2; cases h2
        | reduce p' =>
          have hpp : p = p' := by
            simp [callAction] at h1 h2
            rw [← h1] at h2
            injection h2 with h2
            exact h2.symm
          subst hpp
          obtain ⟨pr, e1, e2, _, _, e5, e6⟩ := want_reduce.mp w
          obtain ⟨pr', e1', e2', _, _, e5', e6'⟩ := want_reduce.mp w'
          cases it; cases it'
          simp only at e1 e2 e5 e6 e1' e2' e5' e6'
          subst e5 e6
          subst e5'
          rw [e1] at e1'
          cases e1'
          simp [e2, e2', e6']

theorem pairwise_of_filter {α : Type} {R : α → α → Prop} (p : α → Bool) (l : List α)
    (h1 : List.Pairwise R (l.filter p)) (h2 : List.Pairwise R (l.filter (fun a => !p a)))
    (hx : ∀ x y, p x ≠ p y → R x y) : List.Pairwise R l := by
  induction l with
  | nil => exact .nil
  | cons x l ih =>
    rw [List.pairwise_cons]
    by_cases hp : p x = true
    · simp only [List.filter_cons, hp, if_true, Bool.not_true, Bool.false_eq_true, if_false] at h1 h2
      rw [List.pairwise_cons] at h1
      refine ⟨?_, ih h1.2 h2⟩
      intro y hy
      by_cases hpy : p y = true
      · exact h1.1 y (List.mem_filter.mpr ⟨hy, hpy⟩)
      · exact hx x y (by simp [hp, hpy])
    · have hp' : p x = false := by simpa using hp
      simp only [List.filter_cons, hp', Bool.false_eq_true, if_false, Bool.not_false, if_true] at h1 h2
      rw [List.pairwise_cons] at h2
      refine ⟨?_, ih h1 h2.2⟩
      intro y hy
      by_cases hpy : p y = true
      · exact hx x y (by simp [hp', hpy])
      · have hpy' : p y = false := by simpa using hpy
        exact h2.1 y (List.mem_filter.mpr ⟨hy, by simp [hpy']⟩)

theorem length_gt_one_iff {α : Type} {l : List α} (h : l.Nodup) :
    1 < l.length ↔ ∃ x y, x ∈ l ∧ y ∈ l ∧ x ≠ y := by
  constructor
  · intro hl
    match l, h, hl with
    | x :: y :: r, h, _ =>
      rw [List.nodup_cons] at h
      exact ⟨x, y, by simp, by simp, fun e => h.1 (by simp [e])⟩
  · rintro ⟨x, y, hx, hy, hne⟩
    match l, hx, hy with
    | [a], hx, hy =>
      simp at hx hy
      exact absurd (hx.trans hy.symm) hne
    | _ :: _ :: _, _, _ => simp

/-- **The cell of (item set, terminal)**: the real cell (`cellOn`) is built without panic, every
kind of action occurs at most once in it, and the kinds that occur are exactly the textbook
candidates. Hypotheses = the Go code does not panic: lookaheads are terminals, every terminal after
a dot has a transition. -/
theorem cellOn_spec {G : Grammar} {nT : Nat} {tr : Nat → Option Nat} {I : List Item}
    (hI : ∀ it ∈ I, it.a < nT)
    (htr : ∀ it ∈ I, ∀ x, afterDot G it = some (.t x) → tr x ≠ none) (a : Nat) :
    ∃ cell, cellOn G nT tr I a = .ok cell ∧ (cell.map kindOf).Nodup ∧
      (∀ c, c ∈ cell.map kindOf ↔ CandOf G I a c) ∧
      (∀ s ps, Action.shift s ps ∈ cell → tr a = some s ∧
        ps = (callsOn G nT tr I a).filterMap callProd) := by
  have hL : ∀ t p, Call.shift t p ∈ callsOn G nT tr I a → t = (tr a).getD 0 := by
    intro t p h
    obtain ⟨it, _, hw⟩ := mem_callsOn.mp h
    have := (want_shift.mp hw).2.1
    simp [this]
  obtain ⟨cell, hb, hns, hsh⟩ := buildCell_spec _ _ hL (nodup_nonshift_calls G nT tr I a)
  refine ⟨cell, hb, ?_, ?_, ?_⟩
  · -- every kind at most once
    rw [List.Nodup, List.pairwise_map]
    apply pairwise_of_filter isShift
    · rw [hsh]
      unfold shiftList
      split <;> simp
    · rw [hns]
      have hnd := nodup_nonshift_calls G nT tr I a
      refine List.Pairwise.imp_of_mem ?_ hnd
      intro x y hx hy hne
      obtain ⟨c, _, hc⟩ := List.mem_filterMap.mp hx
      obtain ⟨c', _, hc'⟩ := List.mem_filterMap.mp hy
      cases c <;> cases c' <;> simp [callAction] at hc hc' <;> subst hc hc' <;>
        simp [kindOf] at hne ⊢ <;> exact hne
    · intro x y hxy
      cases x <;> cases y <;> simp [kindOf] at hxy ⊢
  · -- the kinds are the candidates
    intro c
    have hmem : ∀ act, act ∈ cell ↔
        (act ∈ cell.filter isShift ∨ act ∈ cell.filter (fun a => !isShift a)) := by
      intro act
      simp only [List.mem_filter]
      cases h : isShift act <;> simp
    rw [List.mem_map]
    cases c with
    | accept =>
      constructor
      · rintro ⟨act, hact, hk⟩
        cases act <;> simp [kindOf] at hk
        rcases (hmem _).mp hact with h | h
        · simp [List.mem_filter] at h
        · rw [hns] at h
          obtain ⟨cl, hcl, hca⟩ := List.mem_filterMap.mp h
          cases cl <;> simp [callAction] at hca
          obtain ⟨it, hit, hw⟩ := mem_callsOn.mp hcl
          obtain ⟨pr, e1, e2, _, e4, e5⟩ := want_accept.mp hw
          cases it
          simp only at e1 e2 e4 e5
          subst e4 e5 e2
          exact ⟨pr, e1, hit⟩
      · rintro ⟨pr0, h0, hit⟩
        refine ⟨.accept, ?_, rfl⟩
        apply (hmem _).mpr
        right
        rw [hns]
        refine List.mem_filterMap.mpr ⟨.accept, mem_callsOn.mpr ⟨_, hit, ?_⟩, rfl⟩
        exact want_accept.mpr ⟨pr0, h0, rfl, hI _ hit, rfl, rfl⟩
    | reduce p =>
      constructor
      · rintro ⟨act, hact, hk⟩
        cases act <;> simp [kindOf] at hk
        subst hk
        rcases (hmem _).mp hact with h | h
        · simp [List.mem_filter] at h
        · rw [hns] at h
          obtain ⟨cl, hcl, hca⟩ := List.mem_filterMap.mp h
          cases cl <;> simp [callAction] at hca
          subst hca
          obtain ⟨it, hit, hw⟩ := mem_callsOn.mp hcl
          obtain ⟨pr, e1, e2, _, e4, e5, e6⟩ := want_reduce.mp hw
          cases it
          simp only at e1 e2 e4 e5 e6
          subst e5 e6 e2
          exact ⟨e4, pr, e1, hit⟩
      · rintro ⟨hp0, pr, hpr, hit⟩
        refine ⟨.reduce p, ?_, rfl⟩
        apply (hmem _).mpr
        right
        rw [hns]
        refine List.mem_filterMap.mpr ⟨.reduce p, mem_callsOn.mpr ⟨_, hit, ?_⟩, rfl⟩
        exact want_reduce.mpr ⟨pr, hpr, rfl, hI _ hit, hp0, rfl, rfl⟩
    | shift =>
      constructor
      · rintro ⟨act, hact, hk⟩
        cases act <;> simp [kindOf] at hk
        rename_i s ps
        rcases (hmem _).mp hact with h | h
        · rw [hsh] at h
          unfold shiftList at h
          split at h
          · simp at h
          · rename_i hne
            cases hq : (callsOn G nT tr I a).filterMap callProd with
            | nil => exact absurd hq hne
            | cons q r =>
              have : q ∈ (callsOn G nT tr I a).filterMap callProd := by simp [hq]
              obtain ⟨cl, hcl, hcp⟩ := List.mem_filterMap.mp this
              cases cl <;> simp [callProd] at hcp
              obtain ⟨it, hit, hw⟩ := mem_callsOn.mp hcl
              exact ⟨it, hit, (want_shift.mp hw).1⟩
        · simp [List.mem_filter] at h
      · rintro ⟨it, hit, ha⟩
        have hne := htr it hit a ha
        cases hs : tr a with
        | none => exact absurd hs hne
        | some s =>
          have hcall : Call.shift s it.p ∈ callsOn G nT tr I a :=
            mem_callsOn.mpr ⟨it, hit, want_shift.mpr ⟨ha, hs, rfl⟩⟩
          have hq : (callsOn G nT tr I a).filterMap callProd ≠ [] := by
            intro he
            have : it.p ∈ (callsOn G nT tr I a).filterMap callProd :=
              List.mem_filterMap.mpr ⟨_, hcall, rfl⟩
            rw [he] at this
            cases this
          refine ⟨.shift ((tr a).getD 0) ((callsOn G nT tr I a).filterMap callProd), ?_, rfl⟩
          apply (hmem _).mpr
          left
          rw [hsh]
          simp [shiftList, hq]
  · intro s ps hmem
    have h : Action.shift s ps ∈ cell.filter isShift := by
      simp [List.mem_filter, hmem]
    rw [hsh] at h
    unfold shiftList at h
    split at h
    · simp at h
    · rename_i hne
      simp only [List.mem_singleton, Action.shift.injEq] at h
      obtain ⟨h1, h2⟩ := h
      refine ⟨?_, h2⟩
      cases hq : (callsOn G nT tr I a).filterMap callProd with
      | nil => exact absurd hq hne
      | cons q r =>
        have : q ∈ (callsOn G nT tr I a).filterMap callProd := by simp [hq]
        obtain ⟨cl, hcl, hcp⟩ := List.mem_filterMap.mp this
        cases cl <;> simp [callProd] at hcp
        obtain ⟨it, hit, hw⟩ := mem_callsOn.mp hcl
        have := (want_shift.mp hw).2.1
        rw [h1, this]
        simp

end Lox.LR.Gen
