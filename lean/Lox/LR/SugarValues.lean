import Lox.LR.DesugarProofs
import Lox.LR.Refine
/-! Shapes of the value trees of helper rules and what the synthesised actions (`interp`, Sugar.lean)
compute on them; helper lemmas and definitions for `Lox.Props.C03.sugar_values`.

Specification level (read these): `RepChain`, `ListChain`, `Shape`, `docValue`. -/
namespace Lox.LR

/-- Kind of production `p` as the `_act` template sees it. -/
def kindAt (kinds : Array Nat) (p : Nat) : Kind := Kind.ofCode (kinds[p]?.getD 0)

theorem interpList_eq_map (kinds : Array Nat) (rules : Array Int) (vs : List Val) :
    interpList kinds rules vs = vs.map (interp kinds rules) := by
  induction vs with
  | nil => rfl
  | cons v vs ih => simp [interpList, ih]

theorem interp_node (kinds : Array Nat) (rules : Array Int) (p : Nat) (kids : List Val) :
    interp kinds rules (.node p kids) =
      combine (kindAt kinds p) (rules[p]?.getD (-1)) (kids.map (interp kinds rules)) := by
  rw [interp, interpList_eq_map, kindAt]

theorem interp_tok (kinds : Array Nat) (rules : Array Int) (i ty : Nat) :
    interp kinds rules (.tok i ty) = .tok i ty := by
  rw [interp]

/-- `v` is a left-recursive repetition tree (`x+ = x+ x | x`, kinds `k1` for the one-element
production and `km` for the recursive one) over the element values `es`, in input order. -/
inductive RepChain (kinds : Array Nat) (k1 km : Kind) : Val → List Val → Prop where
  | one {p e} : kindAt kinds p = k1 → RepChain kinds k1 km (.node p [e]) [e]
  | more {p l e es} : kindAt kinds p = km → RepChain kinds k1 km l es →
      RepChain kinds k1 km (.node p [l, e]) (es ++ [e])

/-- `v` is a `@list` tree (`L = L s x | x`) with first element `e0` and then the
(separator, element) pairs `ps`, in input order. -/
inductive ListChain (kinds : Array Nat) : Val → Val → List (Val × Val) → Prop where
  | one {p e} : kindAt kinds p = .listOne → ListChain kinds (.node p [e]) e []
  | more {p l s e e0 ps} : kindAt kinds p = .listMore → ListChain kinds l e0 ps →
      ListChain kinds (.node p [l, s, e]) e0 (ps ++ [(s, e)])

/-- `v` is a value tree of a helper rule of kind `hk` whose elements are `es` (left to right);
separators of `@list` are not elements. -/
inductive Shape (kinds : Array Nat) : HK → Val → List Val → Prop where
  | optSome {p e} : kindAt kinds p = .optSome → Shape kinds .opt (.node p [e]) [e]
  | optNone {p} : kindAt kinds p = .optNone → Shape kinds .opt (.node p []) []
  | starSome {p l es} : kindAt kinds p = .starSome → RepChain kinds .plusOne .plusMore l es →
      Shape kinds .star (.node p [l]) es
  | starNone {p} : kindAt kinds p = .starNone → Shape kinds .star (.node p []) []
  | starFSome {p l es} : kindAt kinds p = .starSome → RepChain kinds .plusFOne .plusFMore l es →
      Shape kinds .starF (.node p [l]) es
  | starFNone {p} : kindAt kinds p = .starNone → Shape kinds .starF (.node p []) []
  | plus {v es} : RepChain kinds .plusOne .plusMore v es → Shape kinds .plus v es
  | plusF {v es} : RepChain kinds .plusFOne .plusFMore v es → Shape kinds .plusF v es
  | list {v e0 ps} : ListChain kinds v e0 ps → Shape kinds .list v (e0 :: ps.map (·.2))
  | listOptSome {p l e0 ps} : kindAt kinds p = .optSome → ListChain kinds l e0 ps →
      Shape kinds .listOpt (.node p [l]) (e0 :: ps.map (·.2))
  | listOptNone {p} : kindAt kinds p = .optNoneList → Shape kinds .listOpt (.node p []) []

/-- The documented value of a sugar term given the values of its elements in input order:
`x?` → the element's value, or the zero value; `x*`, `x+`, `@list`, `@list?` → the list of all element
values (empty for none; separators are not part of it); `x*!` (and its helper `x+!`) → the elements
whose `Discard()` is false. -/
def docValue : HK → List SVal → SVal
  | .opt, xs => xs.head?.getD .zero
  | .star, xs | .plus, xs | .list, xs | .listOpt, xs => .list xs
  | .starF, xs | .plusF, xs => .list (xs.filter fun x => !x.discard)

/-! ### What `interp` computes on the shapes -/

theorem plus_value {kinds : Array Nat} (rules : Array Int) {v : Val} {es : List Val}
    (h : RepChain kinds .plusOne .plusMore v es) :
    interp kinds rules v = .list (es.map (interp kinds rules)) := by
  induction h with
  | one hp => simp [interp_node, hp, combine]
  | more hp _ ih => simp [interp_node, hp, combine, ih, SVal.elems]

theorem plusF_value {kinds : Array Nat} (rules : Array Int) {v : Val} {es : List Val}
    (h : RepChain kinds .plusFOne .plusFMore v es) :
    interp kinds rules v = .list ((es.map (interp kinds rules)).filter fun x => !x.discard) := by
  induction h with
  | @one p e hp =>
    cases hd : (interp kinds rules e).discard <;> simp [interp_node, hp, combine, hd]
  | @more p l e es hp _ ih =>
    cases hd : (interp kinds rules e).discard <;>
      simp [interp_node, hp, combine, ih, SVal.elems, hd, List.filter_append]

theorem list_value {kinds : Array Nat} (rules : Array Int) {v e0 : Val} {ps : List (Val × Val)}
    (h : ListChain kinds v e0 ps) :
    interp kinds rules v = .list ((e0 :: ps.map (·.2)).map (interp kinds rules)) := by
  induction h with
  | one hp => simp [interp_node, hp, combine]
  | more hp _ ih => simp [interp_node, hp, combine, ih, SVal.elems]

theorem shape_value {kinds : Array Nat} (rules : Array Int) {hk : HK} {v : Val} {es : List Val}
    (h : Shape kinds hk v es) :
    interp kinds rules v = docValue hk (es.map (interp kinds rules)) := by
  cases h with
  | optSome hp => simp [interp_node, hp, combine, docValue]
  | optNone hp => simp [interp_node, hp, combine, docValue]
  | starSome hp hc => simp [interp_node, hp, combine, docValue, plus_value rules hc]
  | starNone hp => simp [interp_node, hp, combine, docValue]
  | starFSome hp hc => simp [interp_node, hp, combine, docValue, plusF_value rules hc]
  | starFNone hp => simp [interp_node, hp, combine, docValue]
  | plus hc => simp [docValue, plus_value rules hc]
  | plusF hc => simp [docValue, plusF_value rules hc]
  | list hc => simpa [docValue] using list_value rules hc
  | listOptSome hp hc => simpa [interp_node, hp, combine, docValue] using list_value rules hc
  | listOptNone hp => simp [interp_node, hp, combine, docValue]

/-! ### Derivation trees: inversion -/

theorem Der.yield_eq {G : Grammar} {α w ts} (h : Der G α w ts) : yieldList ts = w := by
  induction h with
  | nil => rfl
  | term _ ih => simp [yieldList, Tree.yield, ih]
  | nonterm _ _ _ ih1 ih2 => simp [yieldList, Tree.yield, ih1, ih2]

theorem Der.nil_inv {G : Grammar} {w ts} (h : Der G [] w ts) : w = [] ∧ ts = [] := by
  cases h; exact ⟨rfl, rfl⟩

theorem Der.cons_inv {G : Grammar} {X : Sym} {β : List Sym} {w : List Nat} {ts : List Tree}
    (h : Der G (X :: β) w ts) :
    ∃ t ts' w1 w2, ts = t :: ts' ∧ w = w1 ++ w2 ∧ Der G [X] w1 [t] ∧ Der G β w2 ts' := by
  cases h with
  | term h => exact ⟨_, _, [_], _, rfl, rfl, Der.term Der.nil, h⟩
  | nonterm hq h1 h2 => exact ⟨_, _, _, _, rfl, rfl, Der.single hq h1, h2⟩

theorem Der.nonterm_inv {G : Grammar} {B : Nat} {w : List Nat} {t : Tree}
    (h : Der G [.n B] w [t]) :
    ∃ q pr ts, t = .node q ts ∧ G.prods[q]? = some pr ∧ pr.lhs = B ∧ Der G pr.rhs w ts := by
  cases h with
  | nonterm hq h1 h2 =>
    obtain ⟨rfl, _⟩ := h2.nil_inv
    exact ⟨_, _, _, rfl, hq, rfl, by simpa using h1⟩

theorem toTree_node_inv {v : Val} {q : Nat} {ts : List Tree} (h : v.toTree = .node q ts) :
    ∃ kids, v = .node q kids ∧ kids.map Val.toTree = ts := by
  cases v with
  | node p kids =>
    simp only [Val.toTree, Tree.node.injEq] at h
    exact ⟨kids, by rw [h.1], by rw [← toTreeList_eq_map]; exact h.2⟩
  | nil => simp [Val.toTree] at h
  | tok => simp [Val.toTree] at h
  | err => simp [Val.toTree] at h

/-- A value whose tree is derived from a non-terminal is a node of one of its productions, and its
children's trees are derived from the right-hand side. -/
theorem Der.val_inv {G : Grammar} {B : Nat} {w : List Nat} {v : Val}
    (h : Der G [.n B] w [v.toTree]) :
    ∃ q pr kids, v = .node q kids ∧ G.prods[q]? = some pr ∧ pr.lhs = B ∧
      Der G pr.rhs w (kids.map Val.toTree) := by
  obtain ⟨q, pr, ts, ht, hq, hl, hd⟩ := h.nonterm_inv
  obtain ⟨kids, rfl, rfl⟩ := toTree_node_inv ht
  exact ⟨q, pr, kids, rfl, hq, hl, hd⟩

theorem Der.vals1 {G : Grammar} {X : Sym} {w : List Nat} {kids : List Val}
    (h : Der G [X] w (kids.map Val.toTree)) : ∃ e, kids = [e] ∧ Der G [X] w [e.toTree] := by
  have hl := h.length_eq
  match kids, hl with
  | [e], _ => exact ⟨e, rfl, h⟩

theorem Der.vals2 {G : Grammar} {X Y : Sym} {w : List Nat} {kids : List Val}
    (h : Der G [X, Y] w (kids.map Val.toTree)) :
    ∃ a b w1 w2, kids = [a, b] ∧ w = w1 ++ w2 ∧ Der G [X] w1 [a.toTree] ∧ Der G [Y] w2 [b.toTree] := by
  have hl := h.length_eq
  match kids, hl with
  | [a, b], _ =>
    obtain ⟨t, ts', w1, w2, e, rfl, h1, h2⟩ := h.cons_inv
    simp at e
    obtain ⟨rfl, rfl⟩ := e
    exact ⟨a, b, w1, w2, rfl, rfl, h1, h2⟩

theorem Der.vals3 {G : Grammar} {X Y Z : Sym} {w : List Nat} {kids : List Val}
    (h : Der G [X, Y, Z] w (kids.map Val.toTree)) :
    ∃ a b c w1 w2 w3, kids = [a, b, c] ∧ w = w1 ++ (w2 ++ w3) ∧ Der G [X] w1 [a.toTree] ∧
      Der G [Y] w2 [b.toTree] ∧ Der G [Z] w3 [c.toTree] := by
  have hl := h.length_eq
  match kids, hl with
  | [a, b, c], _ =>
    obtain ⟨t, ts', w1, w23, e, rfl, h1, h2⟩ := h.cons_inv
    simp at e
    obtain ⟨rfl, rfl⟩ := e
    obtain ⟨t, ts', w2, w3, e, rfl, h2, h3⟩ := h2.cons_inv
    simp at e
    obtain ⟨rfl, rfl⟩ := e
    exact ⟨a, b, c, w1, w2, w3, rfl, rfl, h1, h2, h3⟩

/-! ### Productions of the desugared grammar together with their kinds -/

namespace SGrammar
variable {SG : SGrammar}

def helperPKFrom (SG : SGrammar) : Nat → List HKey → List (Prod × Nat)
  | _, [] => []
  | i, k :: ks => (SG.helperBody i k).zip (helperKinds k) ++ helperPKFrom SG (i + 1) ks

/-- Productions paired with their kind codes, in production order. -/
def pkList (SG : SGrammar) : List (Prod × Nat) :=
  (⟨0, [.n 1]⟩, 11) ::
    (SG.userProds.map (fun p => (p, 0)) ++ SG.helperPKFrom (SG.nUser + 1) SG.helpers)

theorem zip_body_fst (i : Nat) (k : HKey) :
    ((SG.helperBody i k).zip (helperKinds k)).map Prod.fst = SG.helperBody i k := by
  cases k with | mk kind x sep =>
  cases kind <;> simp [helperBody, helperKinds]

theorem zip_body_snd (i : Nat) (k : HKey) :
    ((SG.helperBody i k).zip (helperKinds k)).map Prod.snd = helperKinds k := by
  cases k with | mk kind x sep =>
  cases kind <;> simp [helperBody, helperKinds]

theorem helperPK_fst (i : Nat) (ks : List HKey) :
    (SG.helperPKFrom i ks).map Prod.fst = SG.helperProdsFrom i ks := by
  induction ks generalizing i with
  | nil => rfl
  | cons k ks ih => simp [helperPKFrom, helperProdsFrom, zip_body_fst, ih]

theorem helperPK_snd (i : Nat) (ks : List HKey) :
    (SG.helperPKFrom i ks).map Prod.snd = ks.flatMap helperKinds := by
  induction ks generalizing i with
  | nil => rfl
  | cons k ks ih => simp [helperPKFrom, zip_body_snd, ih]

theorem pkList_fst : SG.pkList.map Prod.fst = SG.prodList := by
  simp [pkList, prodList, helperPK_fst, helperProds, Function.comp_def]

theorem pkList_snd : SG.pkList.map Prod.snd = SG.kindList := by
  simp [pkList, kindList, helperPK_snd, Function.comp_def]

theorem mem_helperPKFrom {x : Prod × Nat} {i : Nat} {ks : List HKey} :
    x ∈ SG.helperPKFrom i ks ↔
      ∃ j k, ks[j]? = some k ∧ x ∈ (SG.helperBody (i + j) k).zip (helperKinds k) := by
  induction ks generalizing i with
  | nil => simp [helperPKFrom]
  | cons k ks ih =>
    simp only [helperPKFrom, List.mem_append, ih]
    constructor
    · rintro (h | ⟨j, k', hj, h⟩)
      · exact ⟨0, k, by simp, h⟩
      · exact ⟨j + 1, k', by simpa using hj, by rwa [show i + (j + 1) = i + 1 + j by omega]⟩
    · rintro ⟨j, k', hj, h⟩
      cases j with
      | zero => simp at hj; subst hj; exact .inl h
      | succ j =>
        exact .inr ⟨j, k', by simpa using hj, by rwa [show i + 1 + j = i + (j + 1) by omega]⟩

/-- Production `q` of the desugared grammar and its kind code come from one entry of `pkList`. -/
theorem prod_kind {q : Nat} {pr : Prod} (h : (desugar SG).1.prods[q]? = some pr) :
    ∃ c, (desugar SG).2.1[q]? = some c ∧ (pr, c) ∈ SG.pkList := by
  have h1 : (SG.pkList.map Prod.fst)[q]? = some pr := by
    rw [pkList_fst]; simpa [desugar] using h
  rw [List.getElem?_map] at h1
  cases hx : SG.pkList[q]? with
  | none => simp [hx] at h1
  | some x =>
    simp [hx] at h1
    refine ⟨x.2, ?_, ?_⟩
    · have : (SG.pkList.map Prod.snd)[q]? = some x.2 := by simp [List.getElem?_map, hx]
      rw [pkList_snd] at this
      simpa [desugar] using this
    · have := List.mem_of_getElem? hx
      rw [← h1]
      exact this

theorem body_lhs {i : Nat} {k : HKey} {pr : Prod} (h : pr ∈ SG.helperBody i k) : pr.lhs = i := by
  cases k with | mk kind x sep =>
  cases kind <;> simp [helperBody] at h <;> rcases h with rfl | rfl <;> rfl

/-- The productions whose left-hand side is the i-th helper rule are the two of its body, with
their kinds. -/
theorem helper_prod_cases {q : Nat} {pr : Prod} {i : Nat} {k : HKey}
    (hq : (desugar SG).1.prods[q]? = some pr) (hl : pr.lhs = SG.nUser + 1 + i)
    (hi : SG.helpers[i]? = some k) :
    ∃ c, kindAt (desugar SG).2.1 q = Kind.ofCode c ∧
      (pr, c) ∈ (SG.helperBody (SG.nUser + 1 + i) k).zip (helperKinds k) := by
  obtain ⟨c, hc, hm⟩ := prod_kind hq
  refine ⟨c, by simp [kindAt, hc], ?_⟩
  simp only [pkList, List.mem_cons, List.mem_append, List.mem_map, mem_helperPKFrom] at hm
  rcases hm with h | ⟨p, hp, h⟩ | ⟨j, k', hj, h⟩
  · cases h
    simp at hl
    omega
  · cases h
    simp only [userProds, mem_userProdsFrom] at hp
    obtain ⟨j, r, p', hr, _, rfl⟩ := hp
    have : j < SG.rules.length := (List.getElem?_eq_some_iff.1 hr).1
    simp [nUser] at hl
    omega
  · have := body_lhs (List.of_mem_zip h).1
    have e : j = i := by omega
    subst e
    rw [hi] at hj
    cases hj
    exact h

/-! ### Trees of helper rules are chains -/

/-- Trees of a rule with the two productions `P → P X (kind km) | X (kind k1)`. -/
theorem rep_tree {i : Nat} {k : HKey} (hi : SG.helpers[i]? = some k)
    {cm c1 : Nat}
    (hz : (SG.helperBody (SG.nUser + 1 + i) k).zip (helperKinds k) =
      [(⟨SG.nUser + 1 + i, [.n (SG.nUser + 1 + i), symOfAtom k.x]⟩, cm),
       (⟨SG.nUser + 1 + i, [symOfAtom k.x]⟩, c1)]) :
    ∀ (n : Nat) (v : Val) (w : List Nat), sizeOf v ≤ n →
      Der (desugar SG).1 [.n (SG.nUser + 1 + i)] w [v.toTree] →
      ∃ es, RepChain (desugar SG).2.1 (Kind.ofCode c1) (Kind.ofCode cm) v es ∧
        (∀ e ∈ es, ∃ w', Der (desugar SG).1 [symOfAtom k.x] w' [e.toTree]) ∧
        w = (es.map fun e => e.toTree.yield).flatten := by
  intro n
  induction n with
  | zero =>
    intro v w hs hd
    obtain ⟨q, pr, kids, rfl, _⟩ := Der.val_inv hd
    simp at hs
  | succ n ih =>
    intro v w hs hd
    obtain ⟨q, pr, kids, rfl, hq, hl, hd⟩ := Der.val_inv hd
    obtain ⟨c, hc, hm⟩ := helper_prod_cases hq hl hi
    rw [hz] at hm
    simp only [List.mem_cons, List.not_mem_nil, or_false] at hm
    rcases hm with ⟨rfl, rfl⟩ | ⟨rfl, rfl⟩
    · obtain ⟨l, e, w1, w2, rfl, rfl, h1, h2⟩ := Der.vals2 hd
      have hsl : sizeOf l ≤ n := by simp at hs; omega
      obtain ⟨es, hch, hel, rfl⟩ := ih l w1 hsl h1
      refine ⟨es ++ [e], .more hc hch, ?_, ?_⟩
      · intro e' he'
        simp at he'
        rcases he' with he' | rfl
        · exact hel e' he'
        · exact ⟨w2, h2⟩
      · have := h2.yield_eq
        simp [yieldList] at this
        simp [this]
    · obtain ⟨e, rfl, h1⟩ := Der.vals1 hd
      refine ⟨[e], .one hc, ?_, ?_⟩
      · intro e' he'
        simp at he'
        subst he'
        exact ⟨w, h1⟩
      · have := h1.yield_eq
        simp [yieldList] at this
        simp [this]

/-- Trees of a rule with the two productions `P → P S X (listMore) | X (listOne)`. -/
theorem list_tree {i : Nat} {k : HKey} (hi : SG.helpers[i]? = some k)
    (hk : k.kind = .list) :
    ∀ (n : Nat) (v : Val) (w : List Nat), sizeOf v ≤ n →
      Der (desugar SG).1 [.n (SG.nUser + 1 + i)] w [v.toTree] →
      ∃ e0 ps, ListChain (desugar SG).2.1 v e0 ps ∧
        (∀ e ∈ e0 :: ps.map (·.2), ∃ w', Der (desugar SG).1 [symOfAtom k.x] w' [e.toTree]) ∧
        (∀ s ∈ ps.map (·.1), ∃ w', Der (desugar SG).1 [symOfAtom k.sep] w' [s.toTree]) ∧
        w = e0.toTree.yield ++ (ps.map fun p => p.1.toTree.yield ++ p.2.toTree.yield).flatten := by
  have hz : (SG.helperBody (SG.nUser + 1 + i) k).zip (helperKinds k) =
      [(⟨SG.nUser + 1 + i, [.n (SG.nUser + 1 + i), symOfAtom k.sep, symOfAtom k.x]⟩, 6),
       (⟨SG.nUser + 1 + i, [symOfAtom k.x]⟩, 5)] := by
    cases k with | mk kind x sep =>
    simp only at hk
    subst hk
    simp [helperBody, helperKinds]
  intro n
  induction n with
  | zero =>
    intro v w hs hd
    obtain ⟨q, pr, kids, rfl, _⟩ := Der.val_inv hd
    simp at hs
  | succ n ih =>
    intro v w hs hd
    obtain ⟨q, pr, kids, rfl, hq, hl, hd⟩ := Der.val_inv hd
    obtain ⟨c, hc, hm⟩ := helper_prod_cases hq hl hi
    rw [hz] at hm
    simp only [List.mem_cons, List.not_mem_nil, or_false] at hm
    rcases hm with ⟨rfl, rfl⟩ | ⟨rfl, rfl⟩
    · obtain ⟨l, s, e, w1, w2, w3, rfl, rfl, h1, h2, h3⟩ := Der.vals3 hd
      have hsl : sizeOf l ≤ n := by simp at hs; omega
      obtain ⟨e0, ps, hch, hel, hse, rfl⟩ := ih l w1 hsl h1
      refine ⟨e0, ps ++ [(s, e)], .more hc hch, ?_, ?_, ?_⟩
      · intro e' he'
        simp only [List.map_append, List.map_cons, List.map_nil, List.mem_cons, List.mem_append,
          List.not_mem_nil, or_false] at he'
        rcases he' with rfl | he' | rfl
        · exact hel e' (by simp)
        · exact hel e' (by simp [he'])
        · exact ⟨w3, h3⟩
      · intro s' hs'
        simp only [List.map_append, List.map_cons, List.map_nil, List.mem_append, List.mem_cons,
          List.not_mem_nil, or_false] at hs'
        rcases hs' with hs' | rfl
        · exact hse s' hs'
        · exact ⟨w2, h2⟩
      · have e2 := h2.yield_eq
        have e3 := h3.yield_eq
        simp [yieldList] at e2 e3
        simp [e2, e3]
    · obtain ⟨e, rfl, h1⟩ := Der.vals1 hd
      refine ⟨e, [], .one hc, ?_, by simp, ?_⟩
      · intro e' he'
        simp at he'
        subst he'
        exact ⟨w, h1⟩
      · have := h1.yield_eq
        simp [yieldList] at this
        simp [this]

/-- **Every tree of a helper rule has the shape of its kind**, over element subtrees that are
derived from the element symbol; except for `@list`/`@list?` (see `list_tree` for the separators)
the input is the concatenation of the elements' yields in that order. -/
theorem helper_shape (hw : SG.WF) {i : Nat} {k : HKey} (hi : SG.helpers[i]? = some k)
    {v : Val} {w : List Nat} (hd : Der (desugar SG).1 [.n (SG.nUser + 1 + i)] w [v.toTree]) :
    ∃ es, Shape (desugar SG).2.1 k.kind v es ∧
      (∀ e ∈ es, ∃ w', Der (desugar SG).1 [symOfAtom k.x] w' [e.toTree]) ∧
      (k.kind ≠ .list → k.kind ≠ .listOpt → w = (es.map fun e => e.toTree.yield).flatten) := by
  have hm : k ∈ SG.helpers := List.mem_of_getElem? hi
  cases k with | mk kind x sep =>
  cases kind
  -- opt
  · obtain ⟨q, pr, kids, rfl, hq, hl, hd⟩ := Der.val_inv hd
    obtain ⟨c, hc, hmem⟩ := helper_prod_cases hq hl hi
    simp only [helperBody, helperKinds, List.zip_cons_cons, List.zip_nil_right, List.mem_cons,
      List.not_mem_nil, or_false] at hmem
    rcases hmem with ⟨rfl, rfl⟩ | ⟨rfl, rfl⟩
    · obtain ⟨e, rfl, h1⟩ := Der.vals1 hd
      have hy := h1.yield_eq
      simp [yieldList] at hy
      exact ⟨[e], .optSome hc, by simpa using ⟨w, h1⟩, by simp [hy]⟩
    · obtain ⟨rfl, hk⟩ := hd.nil_inv
      simp at hk
      subst hk
      exact ⟨[], .optNone hc, by simp, by simp⟩
  -- star
  · obtain ⟨q, pr, kids, rfl, hq, hl, hd⟩ := Der.val_inv hd
    obtain ⟨c, hc, hmem⟩ := helper_prod_cases hq hl hi
    simp only [helperBody, helperKinds, List.zip_cons_cons, List.zip_nil_right, List.mem_cons,
      List.not_mem_nil, or_false] at hmem
    rcases hmem with ⟨rfl, rfl⟩ | ⟨rfl, rfl⟩
    · obtain ⟨l, rfl, h1⟩ := Der.vals1 hd
      obtain ⟨j, hj, ej⟩ := ruleIdx_of_mem hw (dep_mem hw hm (d := ⟨.plus, x, x⟩) rfl)
      rw [ej] at h1
      obtain ⟨es, hch, hel, hw'⟩ := rep_tree hj (cm := 2) (c1 := 1) (by simp [helperBody, helperKinds])
        _ l w (Nat.le_refl _) h1
      exact ⟨es, .starSome hc hch, hel, fun _ _ => hw'⟩
    · obtain ⟨rfl, hk⟩ := hd.nil_inv
      simp at hk
      subst hk
      exact ⟨[], .starNone hc, by simp, by simp⟩
  -- starF
  · obtain ⟨q, pr, kids, rfl, hq, hl, hd⟩ := Der.val_inv hd
    obtain ⟨c, hc, hmem⟩ := helper_prod_cases hq hl hi
    simp only [helperBody, helperKinds, List.zip_cons_cons, List.zip_nil_right, List.mem_cons,
      List.not_mem_nil, or_false] at hmem
    rcases hmem with ⟨rfl, rfl⟩ | ⟨rfl, rfl⟩
    · obtain ⟨l, rfl, h1⟩ := Der.vals1 hd
      obtain ⟨j, hj, ej⟩ := ruleIdx_of_mem hw (dep_mem hw hm (d := ⟨.plusF, x, x⟩) rfl)
      rw [ej] at h1
      obtain ⟨es, hch, hel, hw'⟩ := rep_tree hj (cm := 4) (c1 := 3) (by simp [helperBody, helperKinds])
        _ l w (Nat.le_refl _) h1
      exact ⟨es, .starFSome hc hch, hel, fun _ _ => hw'⟩
    · obtain ⟨rfl, hk⟩ := hd.nil_inv
      simp at hk
      subst hk
      exact ⟨[], .starFNone hc, by simp, by simp⟩
  -- plus
  · obtain ⟨es, hch, hel, hw'⟩ := rep_tree hi (cm := 2) (c1 := 1) (by simp [helperBody, helperKinds])
      _ v w (Nat.le_refl _) hd
    exact ⟨es, .plus hch, hel, fun _ _ => hw'⟩
  -- plusF
  · obtain ⟨es, hch, hel, hw'⟩ := rep_tree hi (cm := 4) (c1 := 3) (by simp [helperBody, helperKinds])
      _ v w (Nat.le_refl _) hd
    exact ⟨es, .plusF hch, hel, fun _ _ => hw'⟩
  -- list
  · obtain ⟨e0, ps, hch, hel, _, _⟩ := list_tree hi rfl _ v w (Nat.le_refl _) hd
    exact ⟨_, .list hch, hel, by simp⟩
  -- listOpt
  · obtain ⟨q, pr, kids, rfl, hq, hl, hd⟩ := Der.val_inv hd
    obtain ⟨c, hc, hmem⟩ := helper_prod_cases hq hl hi
    simp only [helperBody, helperKinds, List.zip_cons_cons, List.zip_nil_right, List.mem_cons,
      List.not_mem_nil, or_false] at hmem
    rcases hmem with ⟨rfl, rfl⟩ | ⟨rfl, rfl⟩
    · obtain ⟨l, rfl, h1⟩ := Der.vals1 hd
      obtain ⟨j, hj, ej⟩ := ruleIdx_of_mem hw (dep_mem hw hm (d := ⟨.list, x, sep⟩) rfl)
      rw [ej] at h1
      obtain ⟨e0, ps, hch, hel, _, _⟩ := list_tree hj rfl _ l w (Nat.le_refl _) h1
      exact ⟨_, .listOptSome hc hch, hel, by simp⟩
    · obtain ⟨rfl, hk⟩ := hd.nil_inv
      simp at hk
      subst hk
      exact ⟨[], .listOptNone hc, by simp, by simp⟩

end SGrammar

end Lox.LR
