import Lox.LR.RuntimeDefs
/-! Concrete tables for the non-vacuity examples of C16/C09, produced by the real generator
(`cmd/lox` on the pinned tree with the `_recovering` fix) for

```
@lexer   A = 'a'  B = 'b'  C = 'c'  SEMI = ';'
@parser  @start S = stmt*
         stmt = A B? SEMI | @error SEMI
```

Terminals: EOF=0 ERROR=1 A=2 B=3 C=4 SEMI=5. Productions: 0 `S' → S`, 1 `S → stmt*`,
2 `stmt → A B? SEMI`, 3 `stmt → @error SEMI`, 4 `stmt* → stmt+`, 5 `stmt* → ε`,
6 `stmt+ → stmt+ stmt`, 7 `stmt+ → stmt`, 8 `B? → B`, 9 `B? → ε` (4–9 are generated helpers). -/
namespace Lox.LR.Rt.Example

def T : Tables :=
  { rules := #[0, 1, 2, 2, 3, 3, 4, 4, 5, 5],
    termCounts := #[1, 1, 3, 2, 1, 0, 2, 1, 1, 0],
    actions := #[12, 19, 24, 27, 30, 37, 40, 47, 50, 53, 60, 67, 6, 2,
      1, 0, -5, 1, 2, 4, 3, 7, 5, -9, 2, 5, 9, 2,
      0, 2147483647, 6, 2, -7, 0, -7, 1, -7, 2, 0, -1, 6, 2,
      1, 0, -4, 1, 2, 2, 5, -8, 2, 5, 11, 6, 2, -3,
      0, -3, 1, -3, 6, 2, -6, 0, -6, 1, -6, 6, 2, -2,
      0, -2, 1, -2],
    gotos := #[12, 21, 24, 24, 24, 24, 25, 24, 24, 24, 24, 24, 8, 1,
      3, 2, 4, 3, 5, 4, 6, 2, 5, 8, 0, 2, 2, 10] }

end Lox.LR.Rt.Example
