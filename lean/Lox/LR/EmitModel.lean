import Lox.LR.ConstructModel
import Lox.Table.Model
/-! Executable model of `EmitParser` (`/repo/internal/codegen/emit_parser.go`, the closures
`actions`, `goto`, `lhs`, `term_counts`) on top of the models of `ConstructLALR`
(`Lox/LR/ConstructModel.lean`), `createActions` / `resolveConflicts` (`Lox/LR/GenModel.lean`,
`Lox/Dec/Resolve.lean`) and of the row-compressed table (`Lox/Table/Model.lean`).

| Go                                                              | model                      |
|-----------------------------------------------------------------|----------------------------|
| `actions.Terminals()` (keys of the action map, sorted by `Name`)| `cellTerms`                |
| `actions.Get(terminal).Get(0)` + the `switch action.Type`       | `firstCode`, `actCode`     |
| the body of `for _, state := range States` in `actions`         | `actionRow`                |
| `transitions.Inputs()` (sorted by `TermName()`), rules only     | `gotoRow`                  |
| `table.AddRow(state.Index, row)` … `table.Array()`              | `Lox.Table.build`          |
| `lhs`, `term_counts`                                            | `rulesArr`, `termCountsArr`|
| `EmitParser`'s four arrays                                      | `emitParserP`, `emitParser`|
| `ConstructLALR` + `EmitParser`                                  | `generateP`, `generate`    |

Names are not part of `Lox.LR.Grammar`: as in `ConstructModel.lean` the list `ord` of all symbols in
NAME order is a parameter (`ActionMap.Terminals` sorts by `Terminal.Name`, `TransitionMap.Inputs`
by `TermName()`, which is the same string). `int32(...)` conversions are not modelled: indices are
assumed to fit (tables are far shorter than 2^31), as in `Lox/Table/Model.lean`.

Precedence: `ConstructLALR` runs `resolveConflicts` before `EmitParser` sees the table, so the
action emitted for a cell is the first action of the cell AFTER resolution. `emitParserP` takes
the production info (`Lox.Dec.ProdInfo`: rule, precedence, associativity) and applies
`Lox.Dec.resolveCell` to every cell; `emitParser` is the instance without any precedence
(`noPrec`: every precedence 0, so `resolveCell` changes nothing — `resolveCell_noPrec` in `EmitProofsCells.lean`).

`none`: a Go panic (`createActions`: index out of range / `TransitionMap.Get`; `Get(0)` on an empty
cell; `AddRow` with a non-increasing index) or a model failure (fuel). Core Lean only. -/
namespace Lox.LR.Emit
open Lox.LR Lox.LR.Gen Lox.LR.Cons
open Lox.Dec (Action ProdInfo resolveCell)
open Lox.Table (build flattenPairs)

/-- The `switch action.Type` of the closure `actions`: shift = target state index, reduce =
`-prod.Index`, accept = `math.MaxInt32`. -/
def actCode : Action → Int
  | .shift t _ => (t : Int)
  | .reduce p => -(p : Int)
  | .accept => acceptCode

/-- The terminals of `ord`, in name order. -/
def termsOf (ord : List Sym) : List Nat :=
  ord.filterMap fun X => match X with
    | .t a => some a
    | .n _ => none

/-- The rules of `ord`, in name order. -/
def rulesOf (ord : List Sym) : List Nat :=
  ord.filterMap fun X => match X with
    | .n B => some B
    | .t _ => none

/-- No production carries a precedence. -/
def noPrec : Nat → ProdInfo := fun _ => ⟨0, 0, false⟩

/-- The action cells of a state after `createActions` and `resolveConflicts`
(`none` = `createActions` panics). -/
def cellsOf (info : Nat → ProdInfo) (G : Grammar) (nT : Nat) (tr : Nat → Option Nat)
    (I : List Item) : Option (List (Nat × List Action)) :=
  (actionsOf G nT tr I).map fun cells => cells.map fun c => (c.1, (resolveCell info c.2).1)

/-- `ActionMap.Get(terminal)` on the cells of a state (`none`: the terminal has no cell). -/
def lookupCell (a : Nat) : List (Nat × List Action) → Option (List Action)
  | [] => none
  | (b, c) :: r => if b = a then some c else lookupCell a r

/-- `actions.Terminals()`: the terminals that have a cell, in name order. -/
def cellTerms (ord : List Sym) (cells : List (Nat × List Action)) : List Nat :=
  (termsOf ord).filter fun a => (lookupCell a cells).isSome

/-- `row = append(row, int32(terminal.Index), <code of actions.Get(terminal).Get(0)>)`;
`Get(0)` on an empty array panics. -/
def firstCode (cells : List (Nat × List Action)) (a : Nat) : Option (Int × Int) :=
  match lookupCell a cells with
  | some (act :: _) => some ((a : Int), actCode act)
  | _ => none

/-- The `_actions` row of a state with items `I` and terminal transitions `tr`. -/
def actionRow (info : Nat → ProdInfo) (G : Grammar) (nT : Nat) (ord : List Sym)
    (tr : Nat → Option Nat) (I : List Item) : Option (List (Int × Int)) :=
  match cellsOf info G nT tr I with
  | none => none
  | some cells => (cellTerms ord cells).mapM (firstCode cells)

/-- The `_goto` row of a state with transitions `row`: `(rule.Index, to.Index)` for the
rule-labelled transitions, in name order. -/
def gotoRow (ord : List Sym) (row : List (Sym × Nat)) : List (Int × Int) :=
  (rulesOf ord).filterMap fun (B : Nat) =>
    (lookupSym (.n B) row).map fun (t : Nat) => ((B : Int), (t : Int))

/-- `lhs`: `_rules[i] = prod.Rule.Index`. -/
def rulesArr (G : Grammar) : Array Int := G.prods.map fun pr => (pr.lhs : Int)

/-- `term_counts`: `_termCounts[i] = len(prod.Terms)`. -/
def termCountsArr (G : Grammar) : Array Int := G.prods.map fun pr => (pr.rhs.length : Int)

/-- The `_actions` row of state `i` of the table `st`. -/
def stateActionRow (info : Nat → ProdInfo) (G : Grammar) (nT : Nat) (ord : List Sym) (st : CState)
    (i : Nat) : Option (List (Int × Int)) :=
  actionRow info G nT ord (trTerm st.transTab i) (st.states[i]?.getD [])

/-- The `_goto` row of state `i` of the table `st`. -/
def stateGotoRow (ord : List Sym) (st : CState) (i : Nat) : List (Int × Int) :=
  gotoRow ord (st.trans[i]?.getD [])

/-- The argument list of the `AddRow` calls of the closure `actions`, states in index order. -/
def actionRows (info : Nat → ProdInfo) (G : Grammar) (nT : Nat) (ord : List Sym) (st : CState) :
    Option (List (Nat × List Int)) :=
  (List.range st.states.length).mapM fun i =>
    (stateActionRow info G nT ord st i).map fun r => (i, flattenPairs r)

/-- The argument list of the `AddRow` calls of the closure `goto`. -/
def gotoRows (ord : List Sym) (st : CState) : List (Nat × List Int) :=
  (List.range st.states.length).map fun i => (i, flattenPairs (stateGotoRow ord st i))

/-- `EmitParser`'s four arrays for the parser table `st` (states, transitions), with the
precedences `info`. -/
def emitParserP (info : Nat → ProdInfo) (G : Grammar) (nT : Nat) (ord : List Sym) (st : CState) :
    Option Tables :=
  match actionRows info G nT ord st with
  | none => none
  | some arows =>
    match build arows, build (gotoRows ord st) with
    | some a, some g =>
      some { rules := rulesArr G, termCounts := termCountsArr G, actions := a.toArray,
             gotos := g.toArray }
    | _, _ => none

/-- `EmitParser` for a grammar without precedence qualifiers. -/
def emitParser (G : Grammar) (nT : Nat) (ord : List Sym) (st : CState) : Option Tables :=
  emitParserP noPrec G nT ord st

/-- `ConstructLALR` then `EmitParser`; the second component is the certificate (the item lists of
the states). -/
def generateP (info : Nat → ProdInfo) (G : Grammar) (nT : Nat) (ord : List Sym) :
    Option (Tables × Array (List Item)) :=
  match construct G nT ord with
  | none => none
  | some st =>
    match emitParserP info G nT ord st with
    | none => none
    | some T => some (T, st.cert)

def generate (G : Grammar) (nT : Nat) (ord : List Sym) : Option (Tables × Array (List Item)) :=
  generateP noPrec G nT ord

/-- The model's verdict "no conflict, and no precedence was needed": `createActions` does not
panic and every cell it builds holds exactly one action (`actions.Len() == 1` for every cell in
`resolveConflicts`, so `resolveConflict` is never called and `HasConflicts` stays false). -/
def conflictFreeB (G : Grammar) (nT : Nat) (st : CState) : Bool :=
  (List.range st.states.length).all fun i =>
    match actionsOf G nT (trTerm st.transTab i) (st.states[i]?.getD []) with
    | none => false
    | some cells => cells.all fun c => c.2.length == 1

/-- `conflictFreeB` of the table `construct` returns (`false` when the model panics). -/
def conflictFree (G : Grammar) (nT : Nat) (ord : List Sym) : Bool :=
  match construct G nT ord with
  | some st => conflictFreeB G nT st
  | none => false

/-- `ParserTable.HasConflicts` after `resolveConflicts` with the precedences `info`
(= `Lox.LR.verdictB` on the table of the model). -/
def hasConflictsP (info : Nat → ProdInfo) (G : Grammar) (nT : Nat) (st : CState) : Bool :=
  verdictB G nT info st.transTab st.cert

end Lox.LR.Emit
