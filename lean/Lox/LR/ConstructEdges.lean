import Lox.LR.ConstructLoop
/-! One more loop invariant of the model of `ConstructLALR` (`Lox/LR/ConstructModel.lean`):
`EdgesCalled` – every recorded transition `i --X--> t` is called for by an item of state `i` that
has `X` after its dot. (`ConstructLALR` only records transitions for the symbols `Next` returns,
and states only grow.) It is what the validator of `Lox/LR/ConflictCheck.lean` checks with
`hasNext` (`EdgeOK.called`), here for ALL grammars. -/
namespace Lox.LR.Cons
open Lox.LR Lox.LR.Gen

/-- Every recorded transition is called for by an item of its source state. -/
def EdgesCalled (G : Grammar) (st : CState) : Prop :=
  ∀ (i : Nat) (X : Sym) (t : Nat), lookupSym X (st.trans[i]?.getD []) = some t →
    ∃ I, st.states[i]? = some I ∧ ∃ it ∈ I, afterDot G it = some X

section
variable {G : Grammar} {nT : Nat}

theorem StepSpec.edgesCalled (ht : TermsBelow G nT) {st st' : CState} {i : Nat} {X : Sym}
    {I T : List Item} {j : Nat} (hinv : Inv G st) (hs : StepSpec G st st' i X I T j)
    (hec : EdgesCalled G st) (hX : ∃ it ∈ I, afterDot G it = some X) : EdgesCalled G st' := by
  intro i' Y t hl
  have old : ∀ Y', lookupSym Y' (st.trans[i']?.getD []) = some t →
      ∃ I, st'.states[i']? = some I ∧ ∃ it ∈ I, afterDot G it = some Y' := by
    intro Y' hl'
    obtain ⟨I1, hI1, it, hit, had⟩ := hec i' Y' t hl'
    obtain ⟨I1', hI1', hsub, _⟩ := hs.statesRel ht hinv i' I1 hI1
    exact ⟨I1', hI1', it, hsub it hit, had⟩
  by_cases hi : i' = i
  · subst hi
    rw [hs.transI Y] at hl
    by_cases hXY : X = Y
    · subst hXY
      obtain ⟨I', hI', hsub, _⟩ := hs.statesRel ht hinv i' I hs.hI
      obtain ⟨it, hit, had⟩ := hX
      exact ⟨I', hI', it, hsub it hit, had⟩
    · rw [if_neg hXY] at hl
      exact old Y hl
  · rw [hs.transOther i' hi] at hl
    exact old Y hl

/-- The invariant while the symbols of state `i0` (read as `I0` when `Next` was taken) are being
processed. -/
structure MidE (G : Grammar) (st : CState) (i0 : Nat) (I0 : List Item) (todo : List Sym) : Prop where
  inv : Inv G st
  ec : EdgesCalled G st
  grown : ∃ I, st.states[i0]? = some I ∧ ∀ x ∈ I0, x ∈ I
  next : ∀ Y ∈ todo, Y ∈ next G I0

theorem MidE.step (ht : TermsBelow G nT) {st st' : CState} {i0 : Nat} {I0 : List Item} {X : Sym}
    {todo : List Sym} (hm : MidE G st i0 I0 (X :: todo)) (h : stepSym G nT i0 st X = some st') :
    MidE G st' i0 I0 todo := by
  obtain ⟨I, T, j, hs⟩ := stepSym_spec ht hm.inv h
  obtain ⟨I', hI', hsub⟩ := hm.grown
  have hII : I' = I := by
    have := hs.hI
    rw [hI'] at this
    exact Option.some.inj this
  subst hII
  obtain ⟨it, hit, had⟩ := mem_next.mp (hm.next X (by simp))
  obtain ⟨I'', hI'', hsub', _⟩ := hs.statesRel ht hm.inv i0 I' hI'
  exact ⟨hs.inv ht hm.inv, hs.edgesCalled ht hm.inv hm.ec ⟨it, hsub it hit, had⟩,
    ⟨I'', hI'', fun x hx => hsub' x (hsub x hx)⟩, fun Y hY => hm.next Y (List.mem_cons_of_mem _ hY)⟩

theorem EdgesCalled.procKey (ht : TermsBelow G nT) {ord : List Sym} {k : Key} {st st' : CState}
    (hinv : Inv G st) (hec : EdgesCalled G st) (h : procKey G nT ord st k = some st') :
    EdgesCalled G st' := by
  unfold Cons.procKey at h
  cases hf : findKey k st.keys with
  | none => simp [hf] at h
  | some i0 =>
    simp only [hf] at h
    cases hI0 : st.states[i0]? with
    | none => simp [hI0] at h
    | some I0 =>
      simp only [hI0] at h
      have hstart : MidE G st i0 I0 (nextOrd G ord I0) := by
        refine ⟨hinv, hec, ⟨I0, hI0, fun x hx => hx⟩, fun Y hY => ?_⟩
        simp only [nextOrd, List.mem_filter, decide_eq_true_eq] at hY
        exact hY.2
      exact (foldlM_inv (stepSym G nT i0) (fun todo s => MidE G s i0 I0 todo)
        (fun a todo s s' hq hs => MidE.step ht hq hs) _ _ _ hstart h).ec

theorem EdgesCalled.procRound (ht : TermsBelow G nT) {ord : List Sym} {st st' : CState}
    (hinv : Inv G st) (hec : EdgesCalled G st) (h : procRound G nT ord st = some st') :
    EdgesCalled G st' := by
  unfold Cons.procRound at h
  have hstart : Inv G { st with pending := [] } ∧ EdgesCalled G { st with pending := [] } :=
    ⟨⟨hinv.lenK, hinv.lenT, hinv.key, hinv.keysNodup, hinv.closed, hinv.tgt, hinv.start,
      hinv.sound⟩, hec⟩
  exact (foldlM_inv (Cons.procKey G nT ord) (fun _ s => Inv G s ∧ EdgesCalled G s)
    (fun _ _ _ _ hq hs => ⟨hq.1.procKey ht hs, EdgesCalled.procKey ht hq.1 hq.2 hs⟩)
    _ _ _ hstart h).2

theorem EdgesCalled.loop (ht : TermsBelow G nT) {ord : List Sym} :
    ∀ (n : Nat) {st st' : CState}, Inv G st → EdgesCalled G st → loop G nT ord n st = some st' →
      EdgesCalled G st'
  | 0, _, _, _, _, h => by simp [Cons.loop] at h
  | n + 1, st, st', hinv, hec, h => by
    simp only [Cons.loop] at h
    split at h
    · cases h; exact hec
    · cases hr : Cons.procRound G nT ord st with
      | none => simp [hr] at h
      | some st1 =>
        simp only [hr] at h
        exact EdgesCalled.loop ht n (hinv.procRound ht hr) (hec.procRound ht hinv hr) h

/-- Every transition of the table `constructWith` returns is called for by an item of its source
state (any name order, any fuel). -/
theorem construct_edgesCalled (ht : TermsBelow G nT) {ord : List Sym} {fuel : Nat} {st : CState}
    (h : constructWith G nT ord fuel = some st) : EdgesCalled G st := by
  unfold constructWith at h
  cases hi : initState G nT with
  | none => simp [hi] at h
  | some st0 =>
    simp only [hi] at h
    refine EdgesCalled.loop ht fuel (initState_inv ht hi).1 ?_ h
    unfold initState at hi
    cases hc : closureGo G nT [⟨0, 0, 0⟩] with
    | none => simp [hc] at hi
    | some I0 =>
      simp only [hc, Option.some.injEq] at hi
      subst hi
      intro i X t hl
      exfalso
      cases i with
      | zero => simp [lookupSym] at hl
      | succ n => simp [lookupSym] at hl

end

end Lox.LR.Cons
