import Lox.LR.DesugarProofs
import Lox.LR.EmitProofsCheck
/-! The grammar `desugar SG` of a well-formed sugar grammar satisfies what the generator model
demands of its input (`prod0B`, `noStartB`, `symsInRangeB`, `noEofB`; assembled into
`Lox.Props.C01.desugar_wf` in `Lox/Props/C01_sugar_e2e.lean`). Helper lemmas only. -/
namespace Lox.LR
open Lox.LR.Emit

namespace SGrammar
variable {SG : SGrammar}

/-- A symbol of the desugared grammar that may stand on a right-hand side: a terminal other than
EOF, or a rule other than `S'`, in range. -/
def SymOK (SG : SGrammar) : Sym → Prop
  | .t a => 1 ≤ a ∧ a < SG.nTerms
  | .n B => 1 ≤ B ∧ B < SG.nRules

theorem symOfAtom_ok {x : Atom} (hx : x.inRange SG = true) : SG.SymOK (symOfAtom x) := by
  cases x with
  | tok a =>
    simp only [Atom.inRange, decide_eq_true_eq] at hx
    simp only [symOfAtom, SymOK, nTerms]
    omega
  | rule A =>
    simp only [Atom.inRange, decide_eq_true_eq] at hx
    simp only [symOfAtom, SymOK, nRules, nUser]
    omega
  | err =>
    simp only [symOfAtom, SymOK, nTerms]
    omega

theorem ruleIdx_ok (hw : SG.WF) {k : HKey} (hm : k ∈ SG.helpers) :
    SG.SymOK (.n (SG.ruleIdx k)) := by
  obtain ⟨i, hi, e⟩ := ruleIdx_of_mem hw hm
  have : i < SG.helpers.length := (List.getElem?_eq_some_iff.1 hi).1
  simp only [SymOK, e, nRules]
  omega

theorem symOf_ok (hw : SG.WF) {t : STerm} (ht : t ∈ SG.allTerms) : SG.SymOK (SG.symOf t) := by
  have hin := hw.inr t ht
  cases t with
  | atom x =>
    simp only [STerm.atoms, List.all_cons, List.all_nil, Bool.and_true] at hin
    exact symOfAtom_ok hin
  | opt x => exact ruleIdx_ok hw (key_mem hw ht rfl)
  | star x => exact ruleIdx_ok hw (key_mem hw ht rfl)
  | starF x => exact ruleIdx_ok hw (key_mem hw ht rfl)
  | plus x => exact ruleIdx_ok hw (key_mem hw ht rfl)
  | list x s => exact ruleIdx_ok hw (key_mem hw ht rfl)
  | listOpt x s => exact ruleIdx_ok hw (key_mem hw ht rfl)

theorem helperBody_ok (hw : SG.WF) {i : Nat} {k : HKey} (hi : SG.helpers[i]? = some k) {pr : Prod}
    (hb : pr ∈ SG.helperBody (SG.nUser + 1 + i) k) :
    pr.lhs = SG.nUser + 1 + i ∧ ∀ X ∈ pr.rhs, SG.SymOK X := by
  have hm : k ∈ SG.helpers := List.mem_of_getElem? hi
  have hok := (helpers_inv hw).ok k hm
  have hx := symOfAtom_ok hok.1
  have hs := symOfAtom_ok hok.2
  have hself : SG.SymOK (.n (SG.nUser + 1 + i)) := by
    rw [← ruleIdx_of_get hw hi]; exact ruleIdx_ok hw hm
  have hdep : ∀ d, k.dep = some d → SG.SymOK (.n (SG.ruleIdx d)) :=
    fun d hd => ruleIdx_ok hw (dep_mem hw hm hd)
  obtain ⟨kind, x, sep⟩ := k
  cases kind <;> simp only [helperBody, List.mem_cons, List.not_mem_nil, or_false] at hb <;>
    rcases hb with rfl | rfl <;> refine ⟨rfl, ?_⟩ <;> intro X hX <;>
    simp only [List.mem_cons, List.not_mem_nil, or_false] at hX <;>
    rcases hX with rfl | rfl | rfl <;>
    first | exact hx | exact hs | exact hself | exact hdep _ rfl

/-- Every production of the desugared grammar: left-hand side in range; right-hand side without
EOF, without `S'`, in range. -/
theorem prod_ok (hw : SG.WF) {pr : Prod} (hm : pr ∈ SG.prodList) :
    pr.lhs < SG.nRules ∧ ∀ X ∈ pr.rhs, SG.SymOK X := by
  have hpos : 0 < SG.rules.length := List.length_pos_iff.2 hw.ne
  rcases mem_prodList.1 hm with rfl | ⟨A, r, p, hr, hp, rfl⟩ | ⟨i, k, hi, hb⟩
  · refine ⟨by simp only [nRules, nUser]; omega, fun X hX => ?_⟩
    simp only [List.mem_cons, List.not_mem_nil, or_false] at hX
    subst hX
    simp only [SymOK, nRules, nUser]
    omega
  · have hA : A < SG.rules.length := (List.getElem?_eq_some_iff.1 hr).1
    refine ⟨by simp only [nRules, nUser]; omega, fun X hX => ?_⟩
    obtain ⟨t, ht, rfl⟩ := List.mem_map.1 hX
    exact symOf_ok hw (term_mem_allTerms hr hp ht)
  · obtain ⟨h1, h2⟩ := helperBody_ok hw hi hb
    have : i < SG.helpers.length := (List.getElem?_eq_some_iff.1 hi).1
    exact ⟨by rw [h1]; simp only [nRules]; omega, h2⟩

theorem desugar_prod0 (SG : SGrammar) : (desugar SG).1.prods[0]? = some ⟨0, [.n 1]⟩ := by
  simp [desugar, prodList]

theorem desugar_prod0B (SG : SGrammar) : prod0B (desugar SG).1 = true := by
  simp [prod0B, desugar_prod0]

theorem desugar_noStartB (hw : SG.WF) : noStartB (desugar SG).1 = true := by
  simp only [noStartB, desugar_prod0, List.all_eq_true, Bool.not_eq_true', List.contains_eq_mem,
    decide_eq_false_iff_not, desugar_prods]
  intro pr hm h0
  have := (prod_ok hw hm).2 _ h0
  simp [SymOK] at this

theorem desugar_noEofB (hw : SG.WF) : noEofB (desugar SG).1 = true := by
  simp only [noEofB, List.all_eq_true, Bool.not_eq_true', List.contains_eq_mem,
    decide_eq_false_iff_not, desugar_prods]
  intro pr hm h0
  have := (prod_ok hw hm).2 _ h0
  simp [SymOK] at this

theorem desugar_symsInRangeB (hw : SG.WF) :
    symsInRangeB (desugar SG).1 SG.nTerms SG.nRules = true := by
  simp only [symsInRangeB, List.all_eq_true, Bool.and_eq_true, decide_eq_true_eq, desugar_prods]
  intro pr hm
  obtain ⟨h1, h2⟩ := prod_ok hw hm
  refine ⟨h1, fun X hX => ?_⟩
  have := h2 X hX
  cases X with
  | t a => simpa using this.2
  | n B => simpa using this.2

end SGrammar
end Lox.LR
