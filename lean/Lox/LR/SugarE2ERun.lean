import Lox.LR.RuntimeSound
import Lox.LR.RuntimeSoundFirst
import Lox.LR.RuntimeProofsErrors
import Lox.LR.RuntimeProofsBounds
import Lox.LR.RuntimeProofsErase
import Lox.LR.SugarValues
/-! Run-level lemmas for the end-to-end sugar theorems (`Lox/Props/C01_sugar_e2e.lean`,
`C03_e2e.lean`, `C16_e2e.lean`): clean runs (`parseG` with ghost counter 0) of the model of the
generated `parse`.

Specification level (read these): `Val.post` / `postVL` (post-order listing of the production
nodes of a VALUE tree, children before parent, left to right, each with its children values),
`actCalls` (the `_act` calls of an event log with their argument values), `tokAt` (the `i`-th token
the lexer returned). Everything else is helper lemmas. -/
namespace Lox.LR.Rt
open Lox.LR.Abs (StackInv)

/-! ## Specification-level definitions -/

mutual
/-- Post-order listing of the production nodes of a value tree: children before the parent, left
to right; each entry is the production with the children VALUES (= the arguments of `_act`). The
value-level analogue of `Lox.LR.Tree.post`. -/
def _root_.Lox.LR.Val.post : Val → List (Nat × List Val)
  | .node p kids => postVL kids ++ [(p, kids)]
  | .nil => []
  | .tok _ _ => []
  | .err _ _ _ => []
def postVL : List Val → List (Nat × List Val)
  | [] => []
  | v :: vs => v.post ++ postVL vs
end

/-- The `_act` calls of an event log (newest first, like the log) with their argument values. -/
def actCalls : List Event → List (Nat × List Val)
  | [] => []
  | .act p kids :: r => (p, kids) :: actCalls r
  | .bounds _ _ _ _ :: r => actCalls r

/-- The `i`-th token the lexer returned for the input `w`: index and type. -/
def tokAt (w : List Nat) (i : Nat) : Val := .tok i (w.getD i 0)

/-! ## The ghost counter on sentences and non-sentences -/

section Counter
variable {T : Tables} {inp : Array Nat} {wb : Bool} {fuel : Nat}

theorem runLoopG_counter_zero :
    ∀ (n : Nat) (s : PState), (∀ s', Reach T inp wb fuel s s' → isRecoverStep T s' = false) →
      (runLoopG T inp wb fuel n s).2.2 = 0
  | 0, _, _ => rfl
  | n + 1, s, h => by
    unfold runLoopG
    cases hs : step T inp wb fuel s with
    | cont s' =>
      have h1 := runLoopG_counter_zero n s' (fun s'' hr => h s'' (.step hs hr))
      have h2 := h s (.refl s)
      simp [h1, h2]
    | done o s' => rfl

theorem runLoopG_recover_state :
    ∀ (n : Nat) (s : PState),
      ((runLoopG T inp wb fuel n s).1 = .reject ∨ 0 < (runLoopG T inp wb fuel n s).2.2) →
      ∃ s', Reach T inp wb fuel s s' ∧ isRecoverStep T s' = true
  | 0, s, h => by
    rcases h with h | h
    · cases h
    · exact absurd h (Nat.lt_irrefl 0)
  | n + 1, s, h => by
    unfold runLoopG at h
    cases hs : step T inp wb fuel s with
    | cont s' =>
      simp only [hs] at h
      cases hr : isRecoverStep T s with
      | true => exact ⟨s, .refl s, hr⟩
      | false =>
        simp only [hr, Bool.false_eq_true, if_false, Nat.add_zero] at h
        obtain ⟨s'', h1, h2⟩ := runLoopG_recover_state n s' h
        exact ⟨s'', .step hs h1, h2⟩
    | done o s' =>
      simp only [hs] at h
      rcases h with h | h
      · rcases step_done hs with ⟨ho, -⟩ | ⟨-, top, htop, hf, -⟩ | ⟨ho, -⟩ | ⟨w, ho, -⟩
        · rw [ho] at h; cases h
        · exact ⟨s, .refl s, isRecoverStep_miss htop hf⟩
        · rw [ho] at h; cases h
        · rw [ho] at h; cases h
      · exact absurd h (Nat.lt_irrefl 0)

end Counter

section Sentence
variable {G : Grammar} {nTerms nRules : Nat} {T : Tables} {cert : Array (List Item)}

/-- On a sentence the ghost counter stays 0 and the outcome is not `reject`, whatever the fuel. -/
theorem parseG_sentence_clean (hc : SafeOK G nTerms nRules T cert) {w : List Nat} {n : Nat}
    {t : Tree} {lg} (hrun : Abs.run G (autoOf T cert) n (Abs.init w) = .acc t lg) (wb : Bool)
    (fuel : Nat) :
    (parseG T w.toArray wb fuel).2.2 = 0 ∧ (parseG T w.toArray wb fuel).1 ≠ .reject := by
  unfold parseG
  cases h1 : readToken T w.toArray initState with
  | error e => exact ⟨rfl, by simp⟩
  | ok s1 =>
    have hall : ∀ s', Reach T w.toArray wb fuel s1 s' → isRecoverStep T s' = false :=
      fun s' hr => sentence_run_plain hc hrun ⟨s1, h1, hr⟩
    refine ⟨runLoopG_counter_zero fuel s1 hall, fun hrej => ?_⟩
    obtain ⟨s', hr, hrec⟩ := runLoopG_recover_state fuel s1 (.inl hrej)
    rw [hall s' hr] at hrec
    cases hrec

end Sentence

/-! ## Value-level post-order: the log of a plain run -/

theorem postVL_append (xs ys : List Val) : postVL (xs ++ ys) = postVL xs ++ postVL ys := by
  induction xs with
  | nil => rfl
  | cons x xs ih => simp [postVL, ih]

theorem post_of_isLeaf {v : Val} (h : v.isLeaf = true) : v.post = [] := by
  cases v with
  | nil => rfl
  | tok => rfl
  | err => rfl
  | node => cases h

theorem actCalls_reduce_log (wb : Bool) (lg : List Event) (p : Nat) (kids : List Val) (res : Val)
    (b : Bounds) :
    actCalls (if wb ∧ ¬ b.empty then Event.bounds p res b.b b.e :: Event.act p kids :: lg
              else Event.act p kids :: lg) = (p, kids) :: actCalls lg := by
  split <;> simp [actCalls]

/-- The `_act` calls so far, oldest first, are the post-order of the values on the stack. -/
def ValLog (s : PState) : Prop :=
  (actCalls s.log).reverse = postVL (s.stack.reverse.map (·.sym))

theorem init_ValLog {T : Tables} {inp : Array Nat} {s1 : PState}
    (h : readToken T inp initState = .ok s1) : ValLog s1 := by
  have hf := readToken_frame h
  simp [ValLog, hf.stack, hf.log, initState, actCalls, postVL, Val.post]

theorem plain_step_ValLog {T : Tables} {inp : Array Nat} {wb : Bool} {fuel : Nat} {s s' : PState}
    (hv : ValLog s) (hl : LaOK s) (hp : isRecoverStep T s = false)
    (h : step T inp wb fuel s = .cont s') : ValLog s' := by
  rcases plain_step hp h with ⟨a, ti, -, hr⟩ | ⟨prod, n, ns, hn, rfl⟩
  · have hf := readToken_frame hr
    simp only [ValLog, hf.stack, hf.log, shiftState, List.reverse_cons, List.map_append,
      List.map_cons, List.map_nil, postVL_append, postVL, post_of_isLeaf hl.1, List.append_nil]
    exact hv
  · simp only [ValLog, reduceState, actCalls_reduce_log, List.reverse_cons, List.map_append,
      List.map_cons, List.map_nil, postVL_append, postVL, Val.post, List.append_nil]
    rw [hv]
    have hsplit : s.stack.reverse = (s.stack.drop n).reverse ++ (s.stack.take n).reverse := by
      rw [← List.reverse_append, List.take_append_drop]
    rw [hsplit, List.map_append, postVL_append, List.append_assoc]

theorem plainReach_ValLog {T : Tables} {inp : Array Nat} {wb : Bool} {fuel : Nat} {a b : PState}
    (h : PlainReach T inp wb fuel a b) (hv : ValLog a) (hl : LaOK a) : ValLog b := by
  have : ValLog b ∧ LaOK b :=
    PlainReach.inv (P := fun s => ValLog s ∧ LaOK s)
      (fun s s' hs hp hst => ⟨plain_step_ValLog hs.1 hs.2 hp hst, step_LaOK hs.2 hst⟩) h ⟨hv, hl⟩
  exact this.1

/-- In the accepting state of a clean run (ghost counter 0) the `_act` calls, oldest first, are
the post-order of the values on the stack. -/
theorem parseG_clean_ValLog {T : Tables} {inp : Array Nat} {wb : Bool} {fuel : Nat}
    (hacc : (parseG T inp wb fuel).1 = .accept) (h0 : (parseG T inp wb fuel).2.2 = 0) :
    ValLog (parseG T inp wb fuel).2.1 := by
  cases h1 : readToken T inp initState with
  | error e =>
    unfold parseG at hacc
    rw [h1] at hacc
    cases hacc
  | ok s1 =>
    have key : ∃ sl, PlainReach T inp wb fuel s1 sl ∧
        (((parseG T inp wb fuel).1 = .timeout ∧ (parseG T inp wb fuel).2.1 = sl) ∨
         step T inp wb fuel sl = .done (parseG T inp wb fuel).1 (parseG T inp wb fuel).2.1) := by
      unfold parseG at h0 ⊢
      simp only [h1] at h0 ⊢
      exact runLoopG_zero fuel s1 h0
    obtain ⟨sl, hreach, hend⟩ := key
    have hvl := plainReach_ValLog hreach (init_ValLog h1) (init_LaOK h1)
    rcases hend with ⟨ht, -⟩ | hd
    · rw [hacc] at ht; cases ht
    · rcases step_done hd with ⟨-, hs, -⟩ | ⟨ho, -⟩ | ⟨ho, -⟩ | ⟨w, ho, -⟩
      · rw [hs]; exact hvl
      · rw [hacc] at ho; cases ho
      · rw [hacc] at ho; cases ho
      · rw [hacc] at ho; cases ho

/-! ## What a clean accept leaves: the derivation tree over exactly the input tokens -/

section Clean
variable {G : Grammar} {nTerms nRules : Nat} {T : Tables} {cert : Array (List Item)}

/-- **Clean accept.** On validated tables, when `parse` accepts, `_recover()` never returned
`true` and the input holds neither ERROR (1) nor EOF (0) token types: the stack is
`[⟨_, v⟩, bottom]`, `v` is a derivation tree of the input, the leaves of `v` are exactly the tokens
`tok 0 w[0], …, tok (n-1) w[n-1]`, and the `_act` calls performed, oldest first, are the
value-level post-order of `v`. -/
theorem clean_accept (hc : SafeOK G nTerms nRules T cert) {w : List Nat} {wb : Bool}
    {fuel : Nat} (hw1 : ∀ x ∈ w, x ≠ 1) (hw0 : ∀ x ∈ w, x ≠ 0)
    (hacc : (parseG T w.toArray wb fuel).1 = .accept)
    (h0 : (parseG T w.toArray wb fuel).2.2 = 0) :
    ∃ st0 v b bot, (parse T w.toArray wb fuel).2.stack = [{ state := st0, sym := v, bounds := b }, bot] ∧
      Der G [.n (startSym G)] w [v.toTree] ∧
      leaves v = (List.range w.length).map (tokAt w) ∧
      (actCalls (parse T w.toArray wb fuel).2.log).reverse = v.post := by
  have hinp1 : ∀ i : Nat, w.toArray[i]? ≠ some 1 := by
    intro i hi
    have : (1 : Nat) ∈ w := by
      have := List.mem_of_getElem? (l := w) (by simpa using hi)
      exact this
    exact hw1 1 this rfl
  have hinp0 : ∀ i : Nat, w.toArray[i]? ≠ some 0 := by
    intro i hi
    have : (0 : Nat) ∈ w := by
      have := List.mem_of_getElem? (l := w) (by simpa using hi)
      exact this
    exact hw0 0 this rfl
  have hacc' : (parse T w.toArray wb fuel).1 = .accept := by rw [← parseG_fst]; exact hacc
  obtain ⟨hla, st0, v, b, bot, hst, hnil, hsl, hder, hcov⟩ := accepted_sentence hc hacc'
  have hm : ∀ i, lexErrAt w.toArray i = true → (fun _ : Nat => false) i = true := by
    intro i hi
    simp only [lexErrAt, beq_iff_eq] at hi
    exact absurd hi (hinp1 i)
  obtain ⟨-, -, a3, -⟩ := parseG_zero_ErrsInv h0
  rw [parseG_snd] at a3
  have hv : errsIn (fun _ => false) v = true := by
    have := a3 _ (by rw [hst]; exact List.mem_cons_self)
    exact errsIn_mono hm _ this
  have hne : ∀ x ∈ stackLeaves (parse T w.toArray wb fuel).2.stack, x.isErr = false := by
    rw [hsl]; exact leaves_no_err v hv
  have hp := hcov.pinv
  have hq : (parse T w.toArray wb fuel).2.qla = -1 := by
    by_cases hq : (parse T w.toArray wb fuel).2.qla = -1
    · exact hq
    · have := (hp.qty hq).2.1
      rw [hla] at this; cases this
  have hlty : leafTy (parse T w.toArray wb fuel).2.lasym = 0 := by rw [← hp.laty, hla]; rfl
  have hlerr : (parse T w.toArray wb fuel).2.lasym.isErr = false := by
    cases hl : (parse T w.toArray wb fuel).2.lasym <;> simp_all [leafTy, Val.isErr, tERROR]
  have hlidx : lidx (parse T w.toArray wb fuel).2.lasym = w.toArray.size := by
    have htok := hp.tokLa
    have hleaf := hp.laok.1
    cases hl : (parse T w.toArray wb fuel).2.lasym with
    | nil => rw [hl] at hleaf; cases hleaf
    | node => rw [hl] at hleaf; cases hleaf
    | err => rw [hl] at hlerr; cases hlerr
    | tok i ty =>
      rw [hl] at htok hlty
      have hty : ty = 0 := by simp only [leafTy] at hlty; omega
      rcases htok with h1 | ⟨h1, -⟩
      · rw [hty] at h1; exact absurd h1 (hinp0 i)
      · exact h1
  obtain ⟨hlen, hget⟩ := hcov.consumed_eq_input hq hlerr hlidx hne
  rw [hsl] at hlen hget
  have hleaves : leaves v = (List.range w.length).map (tokAt w) := by
    apply List.ext_getElem?
    intro i
    by_cases hi : i < w.length
    · have hi' : i < w.toArray.size := by simpa using hi
      rw [hget i hi']
      simp [List.getElem?_map, List.getElem?_range hi, tokAt, List.getD, List.getElem?_eq_getElem hi]
    · rw [List.getElem?_eq_none (by rw [hlen]; simp; omega),
        List.getElem?_eq_none (by simp; omega)]
  have hword : wordOf v = w := by
    rw [wordOf, hleaves]
    apply List.ext_getElem?
    intro i
    by_cases hi : i < w.length
    · simp [List.getElem?_map, List.getElem?_range hi, tokAt, leafNat, leafTy, List.getD,
        List.getElem?_eq_getElem hi]
    · rw [List.getElem?_eq_none (by simp; omega), List.getElem?_eq_none (by omega)]
  refine ⟨st0, v, b, bot, hst, hword ▸ hder, hleaves, ?_⟩
  have hvl := parseG_clean_ValLog hacc h0
  rw [parseG_snd] at hvl
  simpa [ValLog, hst, hnil, postVL, Val.post] using hvl

end Clean

/-! ## Sub-values: derivations and token spans -/

mutual
theorem post_toTree : ∀ (v : Val),
    v.toTree.post = v.post.map (fun c => (c.1, c.2.map Val.toTree))
  | .nil => rfl
  | .tok _ _ => rfl
  | .err _ _ _ => rfl
  | .node p kids => by
    simp only [Val.toTree, Tree.post, Val.post, List.map_append, List.map_cons, List.map_nil]
    rw [postVL_toTree kids, toTreeList_eq_map]
theorem postVL_toTree : ∀ (vs : List Val),
    postList (toTreeList vs) = (postVL vs).map (fun c => (c.1, c.2.map Val.toTree))
  | [] => rfl
  | v :: vs => by
    simp only [toTreeList, postList, postVL, List.map_append, post_toTree v, postVL_toTree vs]
end

/-- Every node of a derivation forest is an instance of its production: its children derive from
the right-hand side. -/
theorem der_post {G : Grammar} {α : List Sym} {w : List Nat} {ts : List Tree} (h : Der G α w ts) :
    ∀ {p : Nat} {kids : List Tree}, (p, kids) ∈ postList ts →
      ∃ pr w', G.prods[p]? = some pr ∧ Der G pr.rhs w' kids := by
  induction h with
  | nil => intro p kids hm; simp [postList] at hm
  | term _ ih =>
    intro p kids hm
    simp only [postList, Tree.post, List.nil_append] at hm
    exact ih hm
  | nonterm hq h1 _ ih1 ih2 =>
    intro p kids hm
    simp only [postList, Tree.post, List.mem_append, List.mem_singleton] at hm
    rcases hm with (hm | ⟨rfl, rfl⟩) | hm
    · exact ih1 hm
    · exact ⟨_, _, hq, h1⟩
    · exact ih2 hm

/-- A call `(p, kids)` in the post-order of a value whose tree is a derivation tree: production
`p` exists and the argument values' trees derive from its right-hand side. -/
theorem der_call {G : Grammar} {X : Sym} {w : List Nat} {v : Val} (h : Der G [X] w [v.toTree])
    {p : Nat} {kids : List Val} (hm : (p, kids) ∈ v.post) :
    ∃ pr w', G.prods[p]? = some pr ∧ Der G pr.rhs w' (kids.map Val.toTree) := by
  apply der_post h
  simp only [postList, List.append_nil, post_toTree, List.mem_map]
  exact ⟨(p, kids), hm, rfl⟩

/-- The arguments of a call, one by one: the `i`-th argument's tree derives from the `i`-th symbol
of the right-hand side. -/
theorem der_args {G : Grammar} : ∀ {α : List Sym} {w : List Nat} {vs : List Val},
    Der G α w (vs.map Val.toTree) → vs.length = α.length ∧
      ∀ (i : Nat) (X : Sym) (v : Val), α[i]? = some X → vs[i]? = some v →
        ∃ wi, Der G [X] wi [v.toTree]
  | [], w, vs, h => by
    obtain ⟨-, hts⟩ := h.nil_inv
    have : vs = [] := by simpa using hts
    subst this
    exact ⟨rfl, fun i X v hX => by simp at hX⟩
  | X :: β, w, vs, h => by
    obtain ⟨t, ts', w1, w2, e, -, h1, h2⟩ := h.cons_inv
    cases vs with
    | nil => simp at e
    | cons v vs =>
      simp only [List.map_cons, List.cons.injEq] at e
      obtain ⟨rfl, rfl⟩ := e
      obtain ⟨hl, hrest⟩ := der_args h2
      refine ⟨by simp [hl], fun i Y u hY hu => ?_⟩
      cases i with
      | zero =>
        simp only [List.getElem?_cons_zero, Option.some.injEq] at hY hu
        subst hY; subst hu
        exact ⟨w1, h1⟩
      | succ i =>
        simp only [List.getElem?_cons_succ] at hY hu
        exact hrest i Y u hY hu

theorem leavesL_append' (xs ys : List Val) : leavesL (xs ++ ys) = leavesL xs ++ leavesL ys := by
  induction xs with
  | nil => rfl
  | cons x xs ih => simp [leavesL, ih]

mutual
/-- The leaves of a sub-value are a contiguous stretch of the leaves of the value. -/
theorem post_leaves : ∀ (v : Val) {p : Nat} {kids : List Val}, (p, kids) ∈ v.post →
    ∃ pre suf, leaves v = pre ++ leavesL kids ++ suf
  | .nil, _, _, h => by simp [Val.post] at h
  | .tok _ _, _, _, h => by simp [Val.post] at h
  | .err _ _ _, _, _, h => by simp [Val.post] at h
  | .node q ks, p, kids, h => by
    simp only [Val.post, List.mem_append, List.mem_singleton] at h
    rcases h with h | ⟨rfl, rfl⟩
    · obtain ⟨pre, suf, e⟩ := postVL_leaves ks h
      exact ⟨pre, suf, by rw [leaves, e]⟩
    · exact ⟨[], [], by simp [leaves]⟩
theorem postVL_leaves : ∀ (vs : List Val) {p : Nat} {kids : List Val}, (p, kids) ∈ postVL vs →
    ∃ pre suf, leavesL vs = pre ++ leavesL kids ++ suf
  | [], _, _, h => by simp [postVL] at h
  | v :: vs, p, kids, h => by
    simp only [postVL, List.mem_append] at h
    rcases h with h | h
    · obtain ⟨pre, suf, e⟩ := post_leaves v h
      exact ⟨pre, suf ++ leavesL vs, by rw [leavesL, e]; simp [List.append_assoc]⟩
    · obtain ⟨pre, suf, e⟩ := postVL_leaves vs h
      exact ⟨leaves v ++ pre, suf, by rw [leavesL, e]; simp [List.append_assoc]⟩
end

/-- A stretch of `[f 0, …, f (n-1)]` is `[f b, …, f (b+len-1)]`. -/
theorem infix_range_map {α} (f : Nat → α) {n : Nat} {pre mid suf : List α}
    (h : (List.range n).map f = pre ++ mid ++ suf) :
    mid = (List.range' pre.length mid.length).map f ∧ pre.length + mid.length ≤ n := by
  have hlen : n = pre.length + mid.length + suf.length := by
    have := congrArg List.length h
    simp at this
    omega
  refine ⟨?_, by omega⟩
  apply List.ext_getElem?
  intro j
  by_cases hj : j < mid.length
  · have h1 : ((List.range n).map f)[pre.length + j]? = mid[j]? := by
      rw [h, List.append_assoc, List.getElem?_append_right (by omega),
        List.getElem?_append_left (by omega)]
      congr 1
      omega
    rw [← h1]
    simp [List.getElem?_range (show pre.length + j < n by omega), hj]
  · rw [List.getElem?_eq_none (by omega), List.getElem?_eq_none (by simp; omega)]

mutual
theorem yieldIdx_eq_leaves : ∀ (v : Val), yieldIdx v = (leaves v).map lidx
  | .nil => rfl
  | .tok _ _ => rfl
  | .err _ _ _ => rfl
  | .node _ kids => by rw [yieldIdx, leaves, yieldIdxs_eq_leaves kids]
theorem yieldIdxs_eq_leaves : ∀ (vs : List Val), yieldIdxs vs = (leavesL vs).map lidx
  | [] => rfl
  | v :: vs => by rw [yieldIdxs, leavesL, List.map_append, yieldIdx_eq_leaves v,
      yieldIdxs_eq_leaves vs]
end

/-- **Token span of a call.** If the leaves of `v` are exactly the tokens of the input `w`, then
every call `(p, kids)` in the post-order of `v` spans a contiguous stretch `b, …, b+n-1` of the
input: the leaves of the result `node p kids` are exactly these tokens. -/
theorem call_span {w : List Nat} {v : Val} (hl : leaves v = (List.range w.length).map (tokAt w))
    {p : Nat} {kids : List Val} (hm : (p, kids) ∈ v.post) :
    ∃ b n, b + n ≤ w.length ∧ leaves (.node p kids) = (List.range' b n).map (tokAt w) := by
  obtain ⟨pre, suf, e⟩ := post_leaves v hm
  rw [hl] at e
  obtain ⟨h1, h2⟩ := infix_range_map (tokAt w) e
  exact ⟨pre.length, (leavesL kids).length, h2, by rw [leaves]; exact h1⟩

theorem yieldIdx_of_span {w : List Nat} {u : Val} {b n : Nat}
    (h : leaves u = (List.range' b n).map (tokAt w)) : yieldIdx u = List.range' b n := by
  rw [yieldIdx_eq_leaves, h, List.map_map]
  have : (lidx ∘ tokAt w) = id := by funext i; simp [tokAt, lidx]
  rw [this, List.map_id]

theorem wordOf_of_span {w : List Nat} {u : Val} {b n : Nat} (hb : b + n ≤ w.length)
    (h : leaves u = (List.range' b n).map (tokAt w)) : wordOf u = (w.drop b).take n := by
  rw [wordOf, h, List.map_map]
  apply List.ext_getElem?
  intro j
  by_cases hj : j < n
  · have h1 : b + j < w.length := by omega
    simp [hj, tokAt, leafNat, leafTy, List.getD, List.getElem?_drop,
      List.getElem?_eq_getElem h1]
  · rw [List.getElem?_eq_none (by simp; omega), List.getElem?_eq_none (by simp; omega)]


/-! ## Small facts about `actCalls` -/

theorem actsOf_eq_actCalls (l : List Event) :
    actsOf l = (actCalls l).map (fun c => (c.1, c.2.map Val.toTree)) := by
  induction l with
  | nil => rfl
  | cons ev l ih => cases ev <;> simp [actsOf, actCalls, ih]

theorem mem_actCalls {l : List Event} {p : Nat} {kids : List Val} :
    (p, kids) ∈ actCalls l ↔ Event.act p kids ∈ l := by
  induction l with
  | nil => simp [actCalls]
  | cons ev l ih =>
    cases ev with
    | act q ks => simp [actCalls, ih]
    | bounds q v b e => simp [actCalls, ih]

/-! ## The ghost counter does not depend on `_onBounds` -/

theorem isRecoverStep_eraseB_congr {T : Tables} {s1 s2 : PState} (h : eraseB s1 = eraseB s2) :
    isRecoverStep T s1 = isRecoverStep T s2 := by
  have h1 : (eraseB s1).stack = (eraseB s2).stack := congrArg _ h
  have h2 : (eraseB s1).la = (eraseB s2).la := congrArg _ h
  change s1.stack.map Entry.eraseB = s2.stack.map Entry.eraseB at h1
  change s1.la = s2.la at h2
  have h3 : topState s1.stack = topState s2.stack := by
    rw [← topState_map_eraseB s1.stack, ← topState_map_eraseB s2.stack, h1]
  unfold isRecoverStep
  rw [h3, h2]

theorem runLoopG_counter_eraseB (T : Tables) (inp : Array Nat) (wb wb' : Bool) (fuel : Nat) :
    ∀ (n : Nat) {s1 s2 : PState}, eraseB s1 = eraseB s2 → LaOK s1 →
      (runLoopG T inp wb fuel n s1).2.2 = (runLoopG T inp wb' fuel n s2).2.2
  | 0, _, _, _, _ => rfl
  | n + 1, s1, s2, h, hs => by
    have hc := step_congr_eraseB T inp wb wb' fuel h hs.1
    have hr := isRecoverStep_eraseB_congr (T := T) h
    unfold runLoopG
    cases h1 : step T inp wb fuel s1 with
    | cont a =>
      cases h2 : step T inp wb' fuel s2 with
      | cont b =>
        rw [h1, h2] at hc
        simp only [StepR.mapS, StepR.cont.injEq] at hc
        have := runLoopG_counter_eraseB T inp wb wb' fuel n hc (step_LaOK hs h1)
        simp only [this, hr]
      | done o b => rw [h1, h2] at hc; cases hc
    | done o a =>
      cases h2 : step T inp wb' fuel s2 with
      | cont b => rw [h1, h2] at hc; cases hc
      | done o' b => rfl

/-- The number of successful recoveries is the same with and without `_onBounds`. -/
theorem parseG_counter_eraseB (T : Tables) (inp : Array Nat) (fuel : Nat) :
    (parseG T inp true fuel).2.2 = (parseG T inp false fuel).2.2 := by
  unfold parseG
  cases h : readToken T inp initState with
  | error w => rfl
  | ok s1 => exact runLoopG_counter_eraseB T inp true false fuel fuel rfl (init_LaOK h)

theorem head?_range'_pos {b n : Nat} (h : 0 < n) : (List.range' b n).head? = some b := by
  rw [List.head?_range', if_neg (by omega)]

theorem getLast?_range'_pos {b n : Nat} (h : 0 < n) :
    (List.range' b n).getLast? = some (b + n - 1) := by
  rw [List.getLast?_range', if_neg (by omega)]

end Lox.LR.Rt
