import Lox.LR.Complete
/-! Soundness of the abstract LR machine under `Safe` (helper lemmas for C01/C03). -/
namespace Lox.LR
namespace Abs

/-- Stack invariant: entries (top first) follow automaton edges from state 0 and each entry's
value derives its symbol; `syms` (top first) and `w` (consumed input) are ghosts. -/
inductive StackInv (G : Grammar) (A : Auto) : List Entry → List Sym → List Nat → Prop where
  | base (v0 : Tree) : StackInv G A [⟨0, v0⟩] [] []
  | push {e st syms w X s' u v} : StackInv G A (e :: st) syms w → trans A e.state X = some s' →
      Der G [X] u [v] → StackInv G A (⟨s', v⟩ :: e :: st) (X :: syms) (w ++ u)

theorem StackInv.ne_nil {G A st syms w} (h : StackInv G A st syms w) : st ≠ [] := by
  cases h <;> simp

theorem StackInv.len {G A st syms w} (h : StackInv G A st syms w) :
    st.length = syms.length + 1 := by
  induction h with
  | base => rfl
  | push _ _ _ ih => simp [ih]

/-- State 0 occurs only at the bottom of the stack (no edge leads into it). -/
theorem StackInv.bottom_of_zero {G A} (hs : Safe G A) {e st syms w}
    (h : StackInv G A (e :: st) syms w) (h0 : e.state = 0) : st = [] ∧ syms = [] ∧ w = [] := by
  cases h with
  | base v0 => exact ⟨rfl, rfl, rfl⟩
  | push hinv htr _ =>
    simp at h0
    rw [h0] at htr
    exact absurd htr (hs.noIn _ _)

/-- Backward walk: an item with dot `d` in the top state means the top `d` stack symbols are the
first `d` symbols of its production, and the dot-0 item sits `d` entries down. -/
theorem walk {G : Grammar} {A : Auto} (hs : Safe G A) :
    ∀ (d : Nat) {st syms w} (_ : StackInv G A st syms w) (p a : Nat) (pr : Prod),
      (⟨p, d, a⟩ : Item) ∈ A.items (topState st) → G.prods[p]? = some pr →
      d ≤ syms.length ∧ d ≤ pr.rhs.length ∧ (syms.take d).reverse = pr.rhs.take d ∧
        ∃ a', (⟨p, 0, a'⟩ : Item) ∈ A.items (topState (st.drop d)) := by
  intro d
  induction d with
  | zero =>
    intro st syms w _ p a pr hit _
    exact ⟨Nat.zero_le _, Nat.zero_le _, by simp, a, by simpa using hit⟩
  | succ d ih =>
    intro st syms w hinv p a pr hit hp
    cases hinv with
    | base v0 =>
      have := hs.s0 _ (by simpa [topState] using hit)
      simp at this
    | @push e st' syms' w' X s' u v hinv' htr hder =>
      have hit' : (⟨p, d + 1, a⟩ : Item) ∈ A.items s' := by simpa [topState] using hit
      obtain ⟨pr', hp', hX, a', hprev⟩ := hs.back _ _ _ _ htr hit' (by simp)
      simp at hX hprev hp'
      have hpr : pr' = pr := by rw [hp] at hp'; exact (Option.some.inj hp').symm
      subst hpr
      obtain ⟨hle, hle', htake, a'', h0⟩ := ih hinv' p a' pr' (by simpa [topState] using hprev) hp
      have hlt : d < pr'.rhs.length := by
        rcases List.getElem?_eq_some_iff.mp hX with ⟨h, _⟩; exact h
      refine ⟨by simp; omega, hlt, ?_, a'', by simpa using h0⟩
      rw [List.take_succ_cons, List.reverse_cons, htake]
      rw [List.take_add_one, hX]; simp

/-- Split the top `k` entries off: they derive the reversed top `k` symbols. -/
theorem split {G : Grammar} {A : Auto} :
    ∀ (k : Nat) {st syms w} (_ : StackInv G A st syms w), k ≤ syms.length →
      ∃ w1 w2, w = w1 ++ w2 ∧ StackInv G A (st.drop k) (syms.drop k) w1 ∧
        Der G (syms.take k).reverse w2 ((st.take k).map (·.val)).reverse := by
  intro k
  induction k with
  | zero =>
    intro st syms w h _
    exact ⟨w, [], by simp, by simpa using h, by simpa using Der.nil⟩
  | succ k ih =>
    intro st syms w h hk
    cases h with
    | base v0 => simp at hk
    | @push e st' syms' w' X s' u v hinv' htr hder =>
      obtain ⟨w1, w2, hw, hinv'', hd⟩ := ih hinv' (by simpa using hk)
      refine ⟨w1, w2 ++ u, by simp [hw], by simpa using hinv'', ?_⟩
      have := Der.append hd hder
      simpa using this

/-- One step preserves the stack invariant; the consumed input grows by what the step read. -/
theorem step_inv {G : Grammar} {A : Auto} (hs : Safe G A) {c c' : Config}
    (h : step G A c = .cont c') {syms w} (hinv : StackInv G A c.stack syms w) :
    ∃ syms' u, StackInv G A c'.stack syms' (w ++ u) ∧ c.input = u ++ c'.input := by
  obtain ⟨stack, input, log⟩ := c
  cases stack with
  | nil => simp [step] at h
  | cons e st0 =>
    simp only [step] at h
    cases hact : A.action e.state (la input) with
    | none => simp [hact] at h
    | some act =>
      cases act with
      | accept => simp [hact] at h
      | shift s' =>
        simp only [hact, Out.cont.injEq] at h
        subst h
        cases input with
        | nil =>
          exact absurd (by simpa [la] using hact) (hs.noShiftEof e.state s')
        | cons a rest =>
          have htr : trans A e.state (.t a) = some s' := by
            have : A.action e.state a = some (.shift s') := by simpa [la] using hact
            simp [trans, this]
          exact ⟨_, [a], .push hinv htr (.term .nil), by simp⟩
      | reduce p =>
        simp only [hact] at h
        obtain ⟨pr, a', hp, hitem⟩ := hs.red _ _ _ hact
        simp only [hp] at h
        cases hdrop : (e :: st0).drop pr.rhs.length with
        | nil => simp [hdrop] at h
        | cons e' rest =>
          simp only [hdrop] at h
          cases hgo : A.goto e'.state pr.lhs with
          | none => simp [hgo] at h
          | some s'' =>
            simp only [hgo, Out.cont.injEq] at h
            subst h
            obtain ⟨hle, _, htake, _⟩ :=
              walk hs pr.rhs.length hinv p a' pr (by simpa using hitem) hp
            obtain ⟨w1, w2, hw, hinv', hder⟩ := split pr.rhs.length hinv hle
            rw [htake, List.take_length] at hder
            have hnode := Der.nonterm (α := []) hp hder .nil
            rw [hdrop] at hinv'
            have htr : trans A e'.state (.n pr.lhs) = some s'' := by simp [trans, hgo]
            have := StackInv.push hinv' htr hnode
            exact ⟨.n pr.lhs :: syms.drop pr.rhs.length, [], by simpa [hw] using this, by simp⟩

/-- An accepting step happens on EOF and returns a derivation tree of the consumed input. -/
theorem acc_inv {G : Grammar} {A : Auto} (hs : Safe G A) {c : Config} {t}
    (h : step G A c = .acc t) {syms w} (hinv : StackInv G A c.stack syms w) :
    Der G [.n (startSym G)] w [t] ∧ la c.input = eof := by
  obtain ⟨stack, input, log⟩ := c
  cases stack with
  | nil => simp [step] at h
  | cons e st0 =>
    simp only [step] at h
    cases hact : A.action e.state (la input) with
    | none => simp [hact] at h
    | some act =>
      cases act with
      | shift s' => simp [hact] at h
      | reduce p =>
        simp only [hact] at h
        split at h
        · simp at h
        · split at h
          · simp at h
          · split at h <;> simp at h
      | accept =>
        simp only [hact, Out.acc.injEq] at h
        obtain ⟨hla, a', hitem⟩ := hs.acc _ _ hact
        refine ⟨?_, hla⟩
        obtain ⟨S', hp0⟩ := hs.prod0
        obtain ⟨hle, _, htake, a'', h0⟩ := walk hs 1 hinv 0 a' _ (by simpa using hitem) hp0
        cases hinv with
        | base v0 => simp at hle
        | @push e1 st1 syms1 w1 X s' u v hinv' htr hder =>
          have hz : e1.state = 0 := hs.startOnly _ _ (by simpa using h0)
          obtain ⟨_, hsy, hw⟩ := StackInv.bottom_of_zero hs hinv' hz
          subst hsy hw
          have hX : X = .n (startSym G) := by simpa using htake
          subst hX
          simp at h
          subst h
          simpa using hder

theorem reaches_inv {G : Grammar} {A : Auto} (hs : Safe G A) {c c' : Config}
    (h : Reaches G A c c') : ∀ {syms w}, StackInv G A c.stack syms w →
    ∃ syms' u, StackInv G A c'.stack syms' (w ++ u) ∧ c.input = u ++ c'.input := by
  induction h with
  | refl c => intro syms w hinv; exact ⟨syms, [], by simpa using hinv, by simp⟩
  | step hst _ ih =>
    intro syms w hinv
    obtain ⟨syms1, u1, hinv1, hin1⟩ := step_inv hs hst hinv
    obtain ⟨syms2, u2, hinv2, hin2⟩ := ih hinv1
    exact ⟨syms2, u1 ++ u2, by simpa [List.append_assoc] using hinv2,
      by rw [hin1, hin2, List.append_assoc]⟩

/-- A terminating run is a `Reaches` path followed by one final step. -/
theorem reaches_of_run_acc {G A} : ∀ (n : Nat) (c : Config) {t lg}, run G A n c = .acc t lg →
    ∃ c', Reaches G A c c' ∧ step G A c' = .acc t ∧ c'.log = lg := by
  intro n
  induction n with
  | zero => intro c t lg h; simp [run] at h
  | succ n ih =>
    intro c t lg h
    simp only [run] at h
    cases hs : step G A c with
    | cont c1 =>
      rw [hs] at h
      obtain ⟨c', hr, hst, hl⟩ := ih c1 h
      exact ⟨c', .step hs hr, hst, hl⟩
    | acc t' =>
      rw [hs] at h
      simp at h
      exact ⟨c, .refl _, by rw [hs, h.1], h.2⟩
    | fail => rw [hs] at h; simp at h

theorem reaches_of_run_fail {G A} : ∀ (n : Nat) (c : Config), run G A n c = .fail →
    ∃ c', Reaches G A c c' ∧ step G A c' = .fail := by
  intro n
  induction n with
  | zero => intro c h; simp [run] at h
  | succ n ih =>
    intro c h
    simp only [run] at h
    cases hs : step G A c with
    | cont c1 =>
      rw [hs] at h
      obtain ⟨c', hr, hst⟩ := ih c1 h
      exact ⟨c', .step hs hr, hst⟩
    | acc t' => rw [hs] at h; simp at h
    | fail => exact ⟨c, .refl _, hs⟩

/-- Soundness: an accepted input (without EOF tokens inside) derives from the start symbol with
exactly the returned tree. -/
theorem sound_run {G : Grammar} {A : Auto} (hs : Safe G A) {w : List Nat} (hw : eof ∉ w)
    {n t lg} (h : run G A n (init w) = .acc t lg) : Der G [.n (startSym G)] w [t] := by
  obtain ⟨c', hr, hst, _⟩ := reaches_of_run_acc n _ h
  obtain ⟨syms', u, hinv, hin⟩ := reaches_inv hs hr (StackInv.base (G := G) (A := A) (.leaf 0))
  obtain ⟨hder, hla⟩ := acc_inv hs hst hinv
  have hin' : w = u ++ c'.input := by simpa [init] using hin
  have hrem : c'.input = [] := by
    cases hc : c'.input with
    | nil => rfl
    | cons x xs =>
      rw [hc] at hla hin'
      have : x = eof := by simpa [la] using hla
      subst this
      exact absurd (by rw [hin']; simp) hw
  rw [hrem] at hin'
  simpa [hin'] using hder

end Abs
end Lox.LR
