import Lox.LR.SugarValues
/-! The productions of kind 0 (`user`) of the desugared grammar are exactly the productions the
user wrote (helper lemma for `Lox/Props/C03_e2e.lean`). -/
namespace Lox.LR
namespace SGrammar
variable {SG : SGrammar}

theorem helperKinds_ne_zero {k : HKey} {c : Nat} (h : c ∈ helperKinds k) : c ≠ 0 := by
  obtain ⟨kind, x, sep⟩ := k
  cases kind <;> simp [helperKinds] at h <;> omega

/-- A production of the desugared grammar whose kind code is 0 was written by the user: it is
production `sp` of the user rule `A` (rule index `A + 1`), its right-hand side the symbols of the
terms of `sp`. -/
theorem user_prod_of_kind {q : Nat} {pr : Prod} (hq : (desugar SG).1.prods[q]? = some pr)
    (hk : kindOf SG q = 0) :
    ∃ A r sp, SG.rules[A]? = some r ∧ sp ∈ r.prods ∧ pr = ⟨A + 1, sp.terms.map SG.symOf⟩ := by
  obtain ⟨c, hc, hm⟩ := prod_kind hq
  have hc0 : c = 0 := by simpa [kindOf, hc] using hk
  subst hc0
  simp only [pkList, List.mem_cons, List.mem_append, List.mem_map, mem_helperPKFrom] at hm
  rcases hm with h | ⟨p, hp, h⟩ | ⟨j, k', hj, h⟩
  · cases h
  · cases h
    simp only [userProds, mem_userProdsFrom] at hp
    obtain ⟨j, r, p', hr, hp', rfl⟩ := hp
    exact ⟨j, r, p', hr, hp', by simp⟩
  · exact absurd rfl (helperKinds_ne_zero (List.of_mem_zip h).2)

/-- Conversely, the user productions have kind code 0. -/
theorem kind_of_user_prod {q : Nat} {pr : Prod} (hq : (desugar SG).1.prods[q]? = some pr)
    (h1 : 1 ≤ q) (h2 : q ≤ SG.userProds.length) : kindOf SG q = 0 := by
  have : (desugar SG).2.1[q]? = some 0 := by
    simp only [desugar, kindList, List.getElem?_toArray]
    cases q with
    | zero => omega
    | succ q =>
      rw [List.getElem?_cons_succ, List.getElem?_append_left (by simp; omega)]
      simp [List.getElem?_map, List.getElem?_eq_getElem (show q < SG.userProds.length by omega)]
  simp [kindOf, this]

/-- The symbol of a sugar term is its helper rule. -/
theorem symOf_key {t : STerm} {k : HKey} (hk : t.key = some k) :
    SG.symOf t = .n (SG.ruleIdx k) := by
  cases t <;> simp only [STerm.key, Option.some.injEq, reduceCtorEq] at hk <;> subst hk <;> rfl

/-- The symbol of a plain term is the terminal / user rule itself. -/
theorem symOf_atom (x : Atom) : SG.symOf (.atom x) = symOfAtom x := rfl

end SGrammar
end Lox.LR
