import Lox.LR.RuntimeSoundTerm
/-! C09 `first_error_token`: the first `Error` the parser makes up carries the lookahead of the
first configuration without an action, and (on `check`-validated tables) no sentence agrees with
the input up to and including that token: the input has stopped being a prefix of any sentence
there. -/
namespace Lox.LR.Rt
open Lox.LR.Abs (StackInv)

theorem EqIn.symm {l l' : List Nat} (h : EqIn l l') : EqIn l' l := fun k => (h k).symm
theorem EqIn.trans {a b c : List Nat} (h1 : EqIn a b) (h2 : EqIn b c) : EqIn a c :=
  fun k => (h1 k).trans (h2 k)
theorem CEq.symm {c c' : Abs.Config} (h : CEq c c') : CEq c' c := ⟨h.1.symm, h.2.symm⟩
theorem CEq.trans {a b c : Abs.Config} (h1 : CEq a b) (h2 : CEq b c) : CEq a c :=
  ⟨h1.1.trans h2.1, h1.2.trans h2.2⟩

section
variable {G : Grammar} {nTerms nRules : Nat} {T : Tables} {cert : Array (List Item)}

/-! ## On a sentence the concrete run is shadowed by the accepting abstract run -/

/-- An accepting abstract run starts from (a configuration equivalent to) the image of `s`. -/
def Shadow (G : Grammar) (A : Auto) (inp : Array Nat) (s : PState) : Prop :=
  ∃ n d t lg, CEq d (absConfig inp s) ∧ Abs.run G A n d = .acc t lg

/-- A missing action is a failing abstract step. -/
theorem abs_fail_of_miss {inp : Array Nat} {s : PState}
    (hs : SInv G (autoOf T cert) inp s) (hr : isRecoverStep T s = true) :
    Abs.step G (autoOf T cert) (absConfig inp s) = .fail := by
  obtain ⟨hcov, syms, hci⟩ := hs
  unfold isRecoverStep at hr
  cases htop : topState s.stack with
  | none => rw [htop] at hr; cases hr
  | some top =>
    rw [htop] at hr
    dsimp only at hr
    cases hf : find T.actions top s.la with
    | hit v => rw [hf] at hr; cases hr
    | oob => rw [hf] at hr; cases hr
    | miss =>
      cases hst : s.stack with
      | nil => rw [hst] at htop; cases htop
      | cons e st =>
        rw [hst] at htop hci
        have htop' : top = e.state := by simpa [topState] using htop.symm
        have h0 := hci.nonneg e List.mem_cons_self
        have hla : ((leafNat s.lasym : Nat) : Int) = s.la := by
          rw [hcov.pinv.laty]; unfold leafNat
          have := leafTy_nonneg hcov.pinv.laok.1
          omega
        have he : ((e.state.toNat : Nat) : Int) = e.state := by omega
        have hact : (autoOf T cert).action e.state.toNat (leafNat s.lasym) = none := by
          simp only [autoOf]
          split
          · rw [he, hla, ← htop', hf]
          · rfl
        simp [Abs.step, absConfig, hst, absStack, absInput, Abs.la, hact]

theorem shadow_not_recover {inp : Array Nat} {s : PState}
    (hs : SInv G (autoOf T cert) inp s) (hsh : Shadow G (autoOf T cert) inp s) :
    isRecoverStep T s = false := by
  cases hr : isRecoverStep T s with
  | false => rfl
  | true =>
    obtain ⟨n, d, t, lg, hceq, hrun⟩ := hsh
    have hfail := abs_fail_of_miss hs hr
    have hstep := step_ceq (G := G) (A := autoOf T cert) hceq
    rw [hfail] at hstep
    cases n with
    | zero => simp [Abs.run] at hrun
    | succ n =>
      unfold Abs.run at hrun
      cases hd : Abs.step G (autoOf T cert) d with
      | cont d' => rw [hd] at hstep; exact hstep.elim
      | acc t' => rw [hd] at hstep; exact hstep.elim
      | fail => rw [hd] at hrun; cases hrun

theorem shadow_step (hc : SafeOK G nTerms nRules T cert) {inp : Array Nat} {wb : Bool} {fuel : Nat}
    {s s' : PState} (hs : SInv G (autoOf T cert) inp s) (hsh : Shadow G (autoOf T cert) inp s)
    (h : step T inp wb fuel s = .cont s') : Shadow G (autoOf T cert) inp s' := by
  have hr := shadow_not_recover hs hsh
  obtain ⟨d', hd', hceq'⟩ := plain_sim hc hs hr h
  obtain ⟨n, d, t, lg, hceq, hrun⟩ := hsh
  have hstep := step_ceq (G := G) (A := autoOf T cert) hceq
  rw [hd'] at hstep
  cases n with
  | zero => simp [Abs.run] at hrun
  | succ n =>
    unfold Abs.run at hrun
    cases hd : Abs.step G (autoOf T cert) d with
    | cont d'' =>
      rw [hd] at hstep hrun
      exact ⟨n, d'', t, lg, hstep.trans hceq', hrun⟩
    | acc t' => rw [hd] at hstep; exact hstep.elim
    | fail => rw [hd] at hstep; exact hstep.elim

theorem toList_toArray_drop_zero (w : List Nat) : w.toArray.toList.drop 0 = w := by simp

/-- The state `parse` enters its loop with, on a sentence. -/
theorem shadow_init {w : List Nat} {s1 : PState} {n : Nat} {t : Tree} {lg}
    (h1 : readToken T w.toArray initState = .ok s1)
    (hrun : Abs.run G (autoOf T cert) n (Abs.init w) = .acc t lg) :
    Shadow G (autoOf T cert) w.toArray s1 := by
  refine ⟨n, Abs.init w, t, lg, ⟨?_, ?_⟩, hrun⟩
  · show (Abs.init w).stack = absStack s1.stack
    rw [(readToken_frame h1).stack]
    rfl
  · have := readToken_absInput h1
    have h0 : (absInput w.toArray initState).tail = w := by
      simp [absInput, initState]
    rw [h0] at this
    exact this

/-- **On a sentence `_recover()` is never called** (tables that pass `check`). -/
theorem sentence_run_plain (hc : SafeOK G nTerms nRules T cert) {w : List Nat} {n : Nat} {t : Tree}
    {lg} (hrun : Abs.run G (autoOf T cert) n (Abs.init w) = .acc t lg) {wb : Bool} {fuel : Nat}
    {s : PState} (h : ParseReach T w.toArray wb fuel s) : isRecoverStep T s = false := by
  obtain ⟨s1, h1, hr⟩ := h
  have key : SInv G (autoOf T cert) w.toArray s ∧ Shadow G (autoOf T cert) w.toArray s := by
    refine hr.inv (P := fun s => SInv G (autoOf T cert) w.toArray s ∧
      Shadow G (autoOf T cert) w.toArray s) ?_ ⟨init_SInv h1, shadow_init h1 hrun⟩
    intro a b hab hstep
    exact ⟨step_SInv hc hab.1 hstep, shadow_step hc hab.1 hab.2 hstep⟩
  exact shadow_not_recover key.1 key.2

/-! ## Two inputs that agree on a prefix -/

/-- `inp` and `inp'` return the same tokens at the positions `≤ j`. -/
def AgreeTo (j : Nat) (inp inp' : Array Nat) : Prop := ∀ i, i ≤ j → inp[i]? = inp'[i]?

theorem AgreeTo.mono {j k : Nat} {inp inp' : Array Nat} (h : AgreeTo j inp inp') (hk : k ≤ j) :
    AgreeTo k inp inp' := fun i hi => h i (Nat.le_trans hi hk)

theorem AgreeTo.size {p : Nat} {inp inp' : Array Nat} (h : AgreeTo p inp inp') :
    (p < inp.size ↔ p < inp'.size) ∧ (p = inp.size → inp'.size = inp.size) := by
  have hp' := h p (Nat.le_refl _)
  constructor
  · constructor
    · intro hlt
      rw [Array.getElem?_eq_getElem hlt] at hp'
      exact (Array.getElem?_eq_some_iff.mp hp'.symm).1
    · intro hlt
      rw [Array.getElem?_eq_getElem hlt] at hp'
      exact (Array.getElem?_eq_some_iff.mp hp').1
  · intro he
    have hn : inp'[p]? = none := by rw [← hp', he]; exact Array.getElem?_eq_none (Nat.le_refl _)
    have h1 : inp'.size ≤ p := by
      by_cases hlt : p < inp'.size
      · rw [Array.getElem?_eq_getElem hlt] at hn; cases hn
      · omega
    by_cases h0 : inp'.size = inp.size
    · exact h0
    · have hlt : inp'.size < inp.size := by omega
      have := h inp'.size (by omega)
      rw [Array.getElem?_eq_getElem hlt, Array.getElem?_eq_none (Nat.le_refl _)] at this
      cases this

theorem lexRead_agree {p : Nat} {inp inp' : Array Nat} (h : AgreeTo p inp inp') (hp : p ≤ inp.size) :
    lexRead inp p = lexRead inp' p := by
  unfold lexRead
  rw [← h p (Nat.le_refl _)]
  cases hi : inp[p]? with
  | some ty => rfl
  | none =>
    have : p = inp.size := by
      by_cases hlt : p < inp.size
      · rw [Array.getElem?_eq_getElem hlt] at hi; cases hi
      · omega
    rw [h.size.2 this]

theorem readToken_agree {T : Tables} {inp inp' : Array Nat} {s : PState}
    (h : AgreeTo s.pos inp inp') (hp : s.pos ≤ inp.size) :
    readToken T inp s = readToken T inp' s := by
  rw [readToken_eq, readToken_eq]
  have hl := lexRead_agree h hp
  have ha : afterLex inp s = afterLex inp' s := by
    unfold afterLex
    rw [hl]
    have := h.size.1
    by_cases hlt : s.pos < inp.size
    · simp [hlt, this.mp hlt]
    · have : ¬ s.pos < inp'.size := fun h' => hlt (this.mpr h')
      simp [hlt, this]
  rw [hl, ha]

/-- A plain iteration only depends on the input through the `_readToken()` of a shift. -/
theorem step_agree {T : Tables} {inp inp' : Array Nat} {wb : Bool} {fuel : Nat} {u : PState}
    (hp : isRecoverStep T u = false)
    (hag : ∀ top a, topState u.stack = some top → find T.actions top u.la = .hit a →
      a ≠ acceptCode → a ≥ 0 → ∀ ti, readToken T inp (shiftState u a ti) =
        readToken T inp' (shiftState u a ti)) :
    step T inp wb fuel u = step T inp' wb fuel u := by
  unfold step
  cases htop : topState u.stack with
  | none => rfl
  | some top =>
    dsimp only
    cases hf : find T.actions top u.la with
    | oob => rfl
    | miss => rw [isRecoverStep_miss htop hf] at hp; cases hp
    | hit action =>
      dsimp only
      by_cases hacc : action = acceptCode
      · simp only [hacc, if_true]
      · simp only [hacc, if_false]
        by_cases hsh : action ≥ 0
        · simp only [hsh, if_true]
          cases hti : (if wb = true then symTokIdx u.lasym else some 0) with
          | none => rfl
          | some ti =>
            dsimp only
            have := hag top action htop hf hacc hsh ti
            simp only [shiftState] at this
            rw [this]
        · simp only [hsh, if_false]

/-- The symbol the lexer returns at position `p ≤ |inp|` has index `p`. -/
theorem readToken_lexer_idx {T : Tables} {inp : Array Nat} {s s' : PState} (hq : s.qla = -1)
    (hp : s.pos ≤ inp.size) (h : readToken T inp s = .ok s') : lidx s'.lasym = s.pos := by
  rw [readToken_eq] at h
  simp only [hq, ne_eq, not_true_eq_false, if_false] at h
  obtain ⟨hfst, -, -⟩ := lexRead_fst inp s.pos
  have hidx : lidx (lexRead inp s.pos).1 = s.pos := by
    rw [hfst]
    show (if s.pos < inp.size then s.pos else inp.size) = s.pos
    split <;> omega
  split at h
  · split at h
    · cases h
    · rename_i e he
      cases h
      obtain ⟨i, ty, ks, hl, rfl⟩ := makeError_spec he
      have hl' : (lexRead inp s.pos).1 = .tok i ty := hl
      rw [hl'] at hidx
      exact hidx
  · cases h; exact hidx

theorem PInv.pos_le {inp : Array Nat} {s : PState} (h : PInv inp s) : s.pos ≤ inp.size := by
  have := h.pos
  unfold PosOK at this
  omega

/-- Plain iterations keep the lookahead invariant and never move the lookahead backwards. -/
theorem plain_step_PInv {T : Tables} {inp : Array Nat} {wb : Bool} {fuel : Nat} {s s' : PState}
    (hs : PInv inp s) (hp : isRecoverStep T s = false) (h : step T inp wb fuel s = .cont s') :
    PInv inp s' ∧ lidx s.lasym ≤ lidx s'.lasym := by
  rcases plain_step hp h with ⟨a, ti, -, hr⟩ | ⟨prod, n, ns, -, rfl⟩
  · have hpt : PInv inp (shiftState s a ti) := hs.congr rfl rfl rfl rfl rfl
    exact ⟨(readToken_PInv hpt hr).1, readToken_lidx_le (s := shiftState s a ti) hpt hr⟩
  · exact ⟨hs.congr rfl rfl rfl rfl rfl, Nat.le_refl _⟩

theorem PlainReach.lidx_le {T : Tables} {inp : Array Nat} {wb : Bool} {fuel : Nat} {a b : PState}
    (h : PlainReach T inp wb fuel a b) (ha : PInv inp a) : lidx a.lasym ≤ lidx b.lasym := by
  induction h with
  | refl => exact Nat.le_refl _
  | step hp hs _ ih =>
    obtain ⟨h1, h2⟩ := plain_step_PInv ha hp hs
    exact Nat.le_trans h2 (ih h1)

/-- A plain run up to a state whose lookahead is token `j` only depends on the tokens `≤ j`. -/
theorem PlainReach.agree {T : Tables} {inp inp' : Array Nat} {wb : Bool} {fuel : Nat} {a b : PState}
    (h : PlainReach T inp wb fuel a b) (ha : PInv inp a)
    (hag : AgreeTo (lidx b.lasym) inp inp') : PlainReach T inp' wb fuel a b := by
  induction h with
  | refl => exact .refl _
  | @step s s1 s2 hp hs hrest ih =>
    obtain ⟨h1, -⟩ := plain_step_PInv ha hp hs
    have hle := hrest.lidx_le h1
    refine .step hp ?_ (ih h1 hag)
    rw [← step_agree hp ?_]
    · exact hs
    · intro top act htop hf hacc hsh ti
      -- the shift of this iteration: which token does its `_readToken()` read?
      have hst := hs
      have hpt : PInv inp (shiftState s act ti) := ha.congr rfl rfl rfl rfl rfl
      by_cases hq : s.qla = -1
      · -- it reads position `s.pos`, and the new lookahead has that index
        cases step_cont hs with
        | recover htop' hf' _ => rw [isRecoverStep_miss htop' hf'] at hp; cases hp
        | @shift top2 a2 ti2 _ htop2 hf2 _ _ _ hr2 =>
          have hidx := readToken_lexer_idx (s := shiftState s a2 ti2) hq ha.pos_le hr2
          have hpos : (shiftState s act ti).pos ≤ lidx s2.lasym := by
            show s.pos ≤ _
            have : s.pos = lidx s1.lasym := hidx.symm
            omega
          exact readToken_agree (hag.mono hpos) ha.pos_le
        | reduce htop2 hf2 hacc2 hneg2 =>
          rw [htop] at htop2; cases htop2
          rw [hf] at hf2; cases hf2
          omega
      · rw [readToken_eq, readToken_eq]
        have : (shiftState s act ti).qla ≠ -1 := hq
        rw [if_pos this, if_pos this]

/-! ## The first error -/

/-- **first_error_token (runtime part).** If the run is plain up to `s` and the iteration from `s`
is a successful `_recover()`, the `Error` it injects carries the token that is the lookahead of
`s` – the first configuration without an action – and every `Error` value that existed before
wraps a lexer ERROR token. -/
theorem first_error_runtime {T : Tables} {inp : Array Nat} {wb : Bool} {fuel : Nat}
    {s1 s s' : PState} (h1 : readToken T inp initState = .ok s1)
    (hreach : PlainReach T inp wb fuel s1 s) (hrec : isRecoverStep T s = true)
    (hstep : step T inp wb fuel s = .cont s') :
    (∃ i ty ex, s'.lasym = .err i ty ex ∧ s'.la = tERROR ∧ symTokIdx s.lasym = some i) ∧
    ErrsInv (lexErrAt inp) s := by
  constructor
  · cases step_cont hstep with
    | recover _ _ hr =>
      obtain ⟨hla, ⟨i, ty, ex, hsym, hidx, -⟩, -⟩ := recover_result hr
      exact ⟨i, ty, ex, hsym, hla, hidx⟩
    | shift htop hf => rw [isRecoverStep_hit htop hf] at hrec; cases hrec
    | reduce htop hf => rw [isRecoverStep_hit htop hf] at hrec; cases hrec
  · exact hreach.inv (fun _ _ hs hpl hst => plain_step_ErrsInv hs hpl hst)
      (readToken_ErrsInv (initState_ErrsInv _) h1)

/-- **first_error_token (grammar part).** On tables that pass `check`: if the run on `inp` is plain
up to `s` and `s` has no action for its lookahead (token `j = lidx s.lasym`, possibly EOF at
`j = |inp|`), then no sentence `w` (free of ERROR tokens) returns the same tokens as `inp` at the
positions `0..j`: at token `j` the input has stopped being a prefix of any sentence. -/
theorem first_error_not_prefix (hv : Valid G (autoOf T cert) (firstOf (firstFix G nTerms nRules)))
    (hf : FirstOK G (firstOf (firstFix G nTerms nRules))) (hc : SafeOK G nTerms nRules T cert)
    {inp : Array Nat} {wb : Bool} {fuel : Nat} {s1 s : PState}
    (h1 : readToken T inp initState = .ok s1) (hreach : PlainReach T inp wb fuel s1 s)
    (hrec : isRecoverStep T s = true) {w : List Nat} {t : Tree}
    (hd : Der G [.n (startSym G)] w [t]) :
    ¬ AgreeTo (lidx s.lasym) inp w.toArray := by
  intro hag
  obtain ⟨n, hrun⟩ := Abs.complete_run hv hf hd
  have hp1 : PInv inp s1 := (init_Cov h1).pinv
  have hle := hreach.lidx_le hp1
  -- the first `_readToken()` reads position 0
  have h1' : readToken T w.toArray initState = .ok s1 := by
    rw [← readToken_agree (s := initState) (hag.mono (Nat.zero_le _)) (Nat.zero_le _)]
    exact h1
  have hreach' : PlainReach T w.toArray wb fuel s1 s := hreach.agree hp1 hag
  have := sentence_run_plain hc hrun (wb := wb) (fuel := fuel) ⟨s1, h1', hreach'.reach⟩
  rw [hrec] at this
  cases this

end

end Lox.LR.Rt
