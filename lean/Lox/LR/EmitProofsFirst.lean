import Lox.LR.Check
import Lox.LR.LALRBasics
/-! The validator's own nullable / FIRST computation (`Lox.LR.firstFix`, `Lox/LR/Check.lean`) for ALL
grammars whose symbols are in range:

* `firstFix_closed`: the fixpoint iteration stabilises within its fuel `nRules·(nTerms+2)+2`, i.e.
  the table it returns passes `closedB` (every round that reports a change adds a nullable flag or
  a terminal to a FIRST list; there are at most `nRules·(nTerms+1)` of those);
* `firstFix_sound`: every entry of every table the iteration passes through is justified by a
  derivation, so `firstOf (firstFix …) α a` is contained in the semantic `First G α a` of the
  definition of the LALR(1) automaton (`Lox/LR/LALR.lean`).

`check` treats `firstFix` as untrusted and re-checks `closedB`; these two facts are what is needed
to show that the generator's tables always pass that part of `check`. -/
namespace Lox.LR.FixFirst
open Lox.LR

/-! ### The round, step by step -/

/-- The nullable half of the body of the fold in `firstRound`. -/
def nullStep (F : FirstTab) (pr : Prod) : FirstTab × Bool :=
  if nullSeq F pr.rhs && !F.nullB pr.lhs then
    ({ F with nullable := F.nullable.setIfInBounds pr.lhs true }, true)
  else (F, false)

/-- What the FIRST half adds to `first[lhs]`. -/
def addOf (F : FirstTab) (pr : Prod) : List Nat :=
  ((firstSeq F pr.rhs).filter fun x => !(F.firstNT pr.lhs).contains x).eraseDups

/-- The FIRST half of the body of the fold in `firstRound`. -/
def firstStep (F : FirstTab) (pr : Prod) : FirstTab × Bool :=
  if (addOf F pr).isEmpty then (F, false)
  else ({ F with first := F.first.modify pr.lhs (· ++ addOf F pr) }, true)

def stepF (Fc : FirstTab × Bool) (pr : Prod) : FirstTab × Bool :=
  ((firstStep (nullStep Fc.1 pr).1 pr).1,
    Fc.2 || (nullStep Fc.1 pr).2 || (firstStep (nullStep Fc.1 pr).1 pr).2)

theorem firstRound_eq (G : Grammar) (F : FirstTab) :
    firstRound G F = G.prods.toList.foldl stepF (F, false) := by
  unfold firstRound
  rw [Array.foldl_toList]
  congr 1
  funext Fc pr
  obtain ⟨F, ch⟩ := Fc
  simp only [stepF, nullStep, firstStep, addOf]
  by_cases h1 : (nullSeq F pr.rhs && !F.nullB pr.lhs) = true
  · simp only [h1, if_true]
    split <;> simp
  · simp only [h1, Bool.false_eq_true, if_false]
    split <;> simp

/-! ### Reading the modified tables -/

theorem nullB_set (F : FirstTab) (i B : Nat) :
    FirstTab.nullB { F with nullable := F.nullable.setIfInBounds i true } B =
      if i = B ∧ i < F.nullable.size then true else F.nullB B := by
  simp only [FirstTab.nullB, Array.getElem?_setIfInBounds]
  by_cases h : i = B
  · subst h
    by_cases h2 : i < F.nullable.size
    · simp [h2]
    · simp [h2]
  · simp [h]

theorem firstNT_set (F : FirstTab) (v : Array Bool) (B : Nat) :
    FirstTab.firstNT { F with nullable := v } B = F.firstNT B := rfl

theorem nullB_modify (F : FirstTab) (v : Array (List Nat)) (B : Nat) :
    FirstTab.nullB { F with first := v } B = F.nullB B := rfl

theorem firstNT_modify (F : FirstTab) (i : Nat) (add : List Nat) (B : Nat) :
    FirstTab.firstNT { F with first := F.first.modify i (· ++ add) } B =
      if i = B ∧ i < F.first.size then F.firstNT B ++ add else F.firstNT B := by
  simp only [FirstTab.firstNT, Array.getElem?_modify]
  by_cases h : i = B
  · subst h
    by_cases h2 : i < F.first.size
    · simp [h2]
    · simp [h2]
  · simp [h]

/-! ### Soundness -/

/-- Every entry of the table is justified by a derivation. -/
def SoundF (G : Grammar) (F : FirstTab) : Prop :=
  (∀ B, F.nullB B = true → Derives G [.n B] []) ∧
  ∀ B x, x ∈ F.firstNT B → ∃ δ, Derives G [.n B] (.t x :: δ)

section
variable {G : Grammar}

theorem nullSeq_sound {F : FirstTab} (hF : SoundF G F) :
    ∀ α, nullSeq F α = true → Derives G α []
  | [], _ => .refl _
  | .t _ :: _, h => by simp [nullSeq] at h
  | .n B :: r, h => by
    simp only [nullSeq, Bool.and_eq_true] at h
    have h1 := hF.1 B h.1
    have h2 := nullSeq_sound hF r h.2
    have := Derives.append h1 h2
    simpa using this

theorem firstSeq_sound {F : FirstTab} (hF : SoundF G F) :
    ∀ α x, x ∈ firstSeq F α → ∃ δ, Derives G α (.t x :: δ)
  | [], x, h => by simp [firstSeq] at h
  | .t y :: r, x, h => by
    simp only [firstSeq, List.mem_singleton] at h
    subst h
    exact ⟨r, .refl _⟩
  | .n B :: r, x, h => by
    simp only [firstSeq, List.mem_append] at h
    rcases h with h | h
    · obtain ⟨δ, hd⟩ := hF.2 B x h
      refine ⟨δ ++ r, ?_⟩
      have := Derives.append_right r hd
      simpa using this
    · split at h
      · next hn =>
        obtain ⟨δ, hd⟩ := firstSeq_sound hF r x h
        refine ⟨δ, ?_⟩
        have := Derives.append (hF.1 B hn) hd
        simpa using this
      · cases h

theorem derives_lhs {q : Nat} {pr : Prod} (hq : G.prods[q]? = some pr) {β : List Sym}
    (h : Derives G pr.rhs β) : Derives G [.n pr.lhs] β := by
  have := Derives.step (α₁ := []) (α₂ := []) hq (by simpa using h)
  simpa using this

theorem nullStep_sound {F : FirstTab} (hF : SoundF G F) {q : Nat} {pr : Prod}
    (hq : G.prods[q]? = some pr) : SoundF G (nullStep F pr).1 := by
  unfold nullStep
  split
  · next h =>
    simp only [Bool.and_eq_true] at h
    refine ⟨fun B hB => ?_, fun B x hx => hF.2 B x hx⟩
    rw [nullB_set] at hB
    split at hB
    · next hc =>
      rw [← hc.1]
      exact derives_lhs hq (nullSeq_sound hF _ h.1)
    · exact hF.1 B hB
  · exact hF

theorem mem_addOf {F : FirstTab} {pr : Prod} {x : Nat} :
    x ∈ addOf F pr ↔ x ∈ firstSeq F pr.rhs ∧ x ∉ F.firstNT pr.lhs := by
  unfold addOf
  rw [List.mem_eraseDups, List.mem_filter]
  simp

theorem firstStep_sound {F : FirstTab} (hF : SoundF G F) {q : Nat} {pr : Prod}
    (hq : G.prods[q]? = some pr) : SoundF G (firstStep F pr).1 := by
  unfold firstStep
  split
  · exact hF
  · refine ⟨fun B hB => hF.1 B hB, fun B x hx => ?_⟩
    rw [firstNT_modify] at hx
    split at hx
    · next hc =>
      rcases List.mem_append.mp hx with h | h
      · exact hF.2 B x h
      · obtain ⟨δ, hd⟩ := firstSeq_sound hF _ x (mem_addOf.mp h).1
        rw [← hc.1]
        exact ⟨δ, derives_lhs hq hd⟩
    · exact hF.2 B x hx

theorem stepF_sound {Fc : FirstTab × Bool} (hF : SoundF G Fc.1) {q : Nat} {pr : Prod}
    (hq : G.prods[q]? = some pr) : SoundF G (stepF Fc pr).1 :=
  firstStep_sound (nullStep_sound hF hq) hq

theorem foldl_stepF_sound : ∀ (L : List Prod) (Fc : FirstTab × Bool),
    (∀ pr ∈ L, ∃ q : Nat, G.prods[q]? = some pr) → SoundF G Fc.1 → SoundF G (L.foldl stepF Fc).1
  | [], _, _, h => h
  | pr :: L, Fc, hL, h => by
    obtain ⟨q, hq⟩ := hL pr (by simp)
    exact foldl_stepF_sound L _ (fun p hp => hL p (List.mem_cons_of_mem _ hp)) (stepF_sound h hq)

theorem mem_prods {pr : Prod} (h : pr ∈ G.prods.toList) : ∃ q : Nat, G.prods[q]? = some pr := by
  rw [Array.mem_toList_iff] at h
  obtain ⟨q, hq, rfl⟩ := Array.getElem_of_mem h
  exact ⟨q, by simp [hq]⟩

theorem firstRound_sound {F : FirstTab} (hF : SoundF G F) : SoundF G (firstRound G F).1 := by
  rw [firstRound_eq]
  exact foldl_stepF_sound _ _ (fun _ h => mem_prods h) hF

theorem firstIter_sound : ∀ (n : Nat) {F : FirstTab}, SoundF G F → SoundF G (firstIter G n F)
  | 0, _, h => h
  | n + 1, F, h => by
    simp only [firstIter]
    split
    · exact firstIter_sound n (firstRound_sound h)
    · exact firstRound_sound h

theorem firstFix_soundF (G : Grammar) (nTerms nRules : Nat) : SoundF G (firstFix G nTerms nRules) := by
  unfold firstFix
  apply firstIter_sound
  constructor
  · intro B hB
    simp only [FirstTab.nullB, Array.getElem?_replicate] at hB
    split at hB <;> simp at hB
  · intro B x hx
    simp only [FirstTab.firstNT, Array.getElem?_replicate] at hx
    split at hx <;> simp at hx

/-- **`firstOf` of a sound table is contained in the semantic FIRST.** -/
theorem firstOf_sound {F : FirstTab} (hF : SoundF G F) {α : List Sym} {a b : Nat}
    (h : b ∈ firstOf F α a) : First G α a b := by
  unfold firstOf at h
  rcases List.mem_append.mp h with h | h
  · exact .inl (firstSeq_sound hF α b h)
  · split at h
    · next hn =>
      simp only [List.mem_singleton] at h
      exact .inr ⟨nullSeq_sound hF α hn, h⟩
    · cases h

theorem firstFix_sound (G : Grammar) (nTerms nRules : Nat) {α : List Sym} {a b : Nat}
    (h : b ∈ firstOf (firstFix G nTerms nRules) α a) : First G α a b :=
  firstOf_sound (firstFix_soundF G nTerms nRules) h

end

/-! ### Convergence -/

/-- `f 0 + … + f (n-1)`. -/
def msum (f : Nat → Nat) : Nat → Nat
  | 0 => 0
  | n + 1 => msum f n + f n

theorem msum_le {f g : Nat → Nat} : ∀ {n : Nat}, (∀ B, B < n → f B ≤ g B) → msum f n ≤ msum g n
  | 0, _ => Nat.le_refl _
  | n + 1, h => by
    have := msum_le (n := n) (fun B hB => h B (by omega))
    have := h n (by omega)
    simp only [msum]; omega

theorem msum_lt {f g : Nat → Nat} : ∀ {n : Nat}, (∀ B, B < n → f B ≤ g B) → ∀ i, i < n → f i < g i →
    msum f n < msum g n
  | 0, _, _, hi, _ => by omega
  | n + 1, h, i, hi, hlt => by
    have h1 := msum_le (n := n) (fun B hB => h B (by omega))
    have h2 := h n (by omega)
    simp only [msum]
    by_cases e : i = n
    · subst e; omega
    · have := msum_lt (n := n) (fun B hB => h B (by omega)) i (by omega) hlt
      omega

theorem msum_bound {f : Nat → Nat} {k : Nat} : ∀ {n : Nat}, (∀ B, B < n → f B ≤ k) → msum f n ≤ n * k
  | 0, _ => by simp [msum]
  | n + 1, h => by
    have := msum_bound (n := n) (fun B hB => h B (by omega))
    have := h n (by omega)
    simp only [msum, Nat.succ_mul]; omega

/-- Size of the entry of rule `B`. -/
def esz (F : FirstTab) (B : Nat) : Nat := (F.firstNT B).length + (F.nullB B).toNat

def mu (F : FirstTab) (nR : Nat) : Nat := msum (esz F) nR

structure WfF (nT nR : Nat) (F : FirstTab) : Prop where
  szN : F.nullable.size = nR
  szF : F.first.size = nR
  nodup : ∀ B, (F.firstNT B).Nodup
  below : ∀ B, ∀ x ∈ F.firstNT B, x < nT

theorem nodup_eraseDups : ∀ (n : Nat) (l : List Nat), l.length ≤ n → l.eraseDups.Nodup
  | 0, l, h => by
    have : l = [] := List.eq_nil_of_length_eq_zero (by omega)
    subst this; simp
  | n + 1, [], _ => by simp
  | n + 1, a :: l, h => by
    rw [List.eraseDups_cons, List.nodup_cons]
    constructor
    · intro hm
      rw [List.mem_eraseDups, List.mem_filter] at hm
      simp at hm
    · apply nodup_eraseDups n
      have := List.length_filter_le (fun b => !b == a) l
      simp only [List.length_cons] at h
      omega

theorem length_filter_split (p : Nat → Bool) : ∀ (l : List Nat),
    l.length = (l.filter p).length + (l.filter fun x => !p x).length
  | [] => rfl
  | a :: r => by
    have := length_filter_split p r
    cases h : p a <;> simp [h] <;> omega

theorem length_le_of_nodup_below : ∀ (nT : Nat) (l : List Nat), l.Nodup → (∀ x ∈ l, x < nT) →
    l.length ≤ nT
  | 0, l, _, hb => by
    cases l with
    | nil => simp
    | cons a r => exact absurd (hb a (by simp)) (by omega)
  | nT + 1, l, hn, hb => by
    -- remove `nT` from the list
    have h1 : (l.filter fun x => !decide (x = nT)).length ≤ nT := by
      apply length_le_of_nodup_below nT
      · exact hn.filter _
      · intro x hx
        rw [List.mem_filter] at hx
        have := hb x hx.1
        have h2 := hx.2
        simp at h2
        omega
    have h2 : (l.filter fun x => decide (x = nT)).length ≤ 1 := by
      have hnd : (l.filter fun x => decide (x = nT)).Nodup := hn.filter _
      match hl : l.filter (fun x => decide (x = nT)), hnd with
      | [], _ => simp
      | [_], _ => simp
      | x :: y :: r, hnd =>
        exfalso
        have hx : x ∈ l.filter (fun x => decide (x = nT)) := by rw [hl]; simp
        have hy : y ∈ l.filter (fun x => decide (x = nT)) := by rw [hl]; simp
        rw [List.mem_filter] at hx hy
        have hx2 := hx.2
        have hy2 := hy.2
        simp at hx2 hy2
        rw [List.nodup_cons] at hnd
        exact hnd.1 (by rw [hx2, hy2]; simp)
    have h3 := length_filter_split (fun x => decide (x = nT)) l
    omega

theorem esz_le {nT nR : Nat} {F : FirstTab} (hw : WfF nT nR F) (B : Nat) : esz F B ≤ nT + 1 := by
  unfold esz
  have := length_le_of_nodup_below nT _ (hw.nodup B) (hw.below B)
  have := Bool.toNat_le (F.nullB B)
  omega

theorem mu_le {nT nR : Nat} {F : FirstTab} (hw : WfF nT nR F) : mu F nR ≤ nR * (nT + 1) :=
  msum_bound fun B _ => esz_le hw B

/-- Symbols in range: what `prodsB` demands of the grammar. -/
def SymsInRange (G : Grammar) (nT nR : Nat) : Prop :=
  ∀ pr ∈ G.prods.toList, pr.lhs < nR ∧ ∀ s ∈ pr.rhs, match s with
    | .t x => x < nT
    | .n B => B < nR

theorem firstSeq_below {nT nR : Nat} {F : FirstTab} (hw : WfF nT nR F) :
    ∀ (α : List Sym), (∀ s ∈ α, match s with | Sym.t x => x < nT | Sym.n _ => True) →
      ∀ x ∈ firstSeq F α, x < nT
  | [], _, x, h => by simp [firstSeq] at h
  | .t y :: r, hα, x, h => by
    simp only [firstSeq, List.mem_singleton] at h
    subst h
    exact hα (.t x) (by simp)
  | .n B :: r, hα, x, h => by
    simp only [firstSeq, List.mem_append] at h
    rcases h with h | h
    · exact hw.below B x h
    · split at h
      · exact firstSeq_below hw r (fun s hs => hα s (List.mem_cons_of_mem _ hs)) x h
      · cases h

section
variable {nT nR : Nat}

theorem nullStep_spec {F : FirstTab} (hw : WfF nT nR F) {pr : Prod} (hl : pr.lhs < nR) :
    WfF nT nR (nullStep F pr).1 ∧ (∀ B, esz F B ≤ esz (nullStep F pr).1 B) ∧
    ((nullStep F pr).2 = true → esz F pr.lhs < esz (nullStep F pr).1 pr.lhs) ∧
    ((nullStep F pr).2 = false → (nullStep F pr).1 = F ∧
      (nullSeq F pr.rhs = true → F.nullB pr.lhs = true)) := by
  unfold nullStep
  split
  · next h =>
    simp only [Bool.and_eq_true, Bool.not_eq_true'] at h
    refine ⟨⟨by simp [hw.szN], hw.szF, hw.nodup, hw.below⟩, ?_, ?_, by simp⟩
    · intro B
      dsimp only
      simp only [esz, nullB_set, firstNT_set]
      have := Bool.toNat_le (F.nullB B)
      split
      · simp only [Bool.toNat_true]; omega
      · exact Nat.le_refl _
    · intro _
      dsimp only
      simp only [esz, nullB_set, firstNT_set, h.2, hw.szN, hl]
      simp
  · next h =>
    refine ⟨hw, fun _ => Nat.le_refl _, by simp, fun _ => ⟨rfl, fun hn => ?_⟩⟩
    simp only [Bool.and_eq_true, Bool.not_eq_true', not_and, Bool.not_eq_false] at h
    exact h hn

theorem firstStep_spec {F : FirstTab} (hw : WfF nT nR F) {pr : Prod} (hl : pr.lhs < nR)
    (hr : ∀ s ∈ pr.rhs, match s with | Sym.t x => x < nT | Sym.n _ => True) :
    WfF nT nR (firstStep F pr).1 ∧ (∀ B, esz F B ≤ esz (firstStep F pr).1 B) ∧
    ((firstStep F pr).2 = true → esz F pr.lhs < esz (firstStep F pr).1 pr.lhs) ∧
    ((firstStep F pr).2 = false → (firstStep F pr).1 = F ∧
      ∀ x ∈ firstSeq F pr.rhs, x ∈ F.firstNT pr.lhs) := by
  unfold firstStep
  split
  · next h =>
    refine ⟨hw, fun _ => Nat.le_refl _, by simp, fun _ => ⟨rfl, fun x hx => ?_⟩⟩
    by_cases hm : x ∈ F.firstNT pr.lhs
    · exact hm
    · have : x ∈ addOf F pr := mem_addOf.mpr ⟨hx, hm⟩
      rw [List.isEmpty_iff] at h
      rw [h] at this
      cases this
  · next h =>
    have hne : addOf F pr ≠ [] := by
      intro e; rw [e] at h; simp at h
    refine ⟨⟨hw.szN, by simp [hw.szF], ?_, ?_⟩, ?_, ?_, by simp⟩
    · intro B
      rw [firstNT_modify]
      split
      · next hc =>
        rw [List.nodup_append]
        refine ⟨hw.nodup B, nodup_eraseDups _ _ (Nat.le_refl _), ?_⟩
        intro x hx y hy e
        subst e
        rw [← hc.1] at hx
        exact (mem_addOf.mp hy).2 hx
      · exact hw.nodup B
    · intro B x hx
      rw [firstNT_modify] at hx
      split at hx
      · rcases List.mem_append.mp hx with h1 | h1
        · exact hw.below B x h1
        · exact firstSeq_below hw _ hr x (mem_addOf.mp h1).1
      · exact hw.below B x hx
    · intro B
      dsimp only
      simp only [esz, firstNT_modify, nullB_modify]
      split
      · simp only [List.length_append]; omega
      · exact Nat.le_refl _
    · intro _
      dsimp only
      simp only [esz, firstNT_modify, nullB_modify, hw.szF, hl, and_self, if_true,
        List.length_append]
      have : 0 < (addOf F pr).length := List.length_pos_iff.mpr hne
      omega

theorem stepF_spec {Fc : FirstTab × Bool} (hw : WfF nT nR Fc.1) {pr : Prod} (hl : pr.lhs < nR)
    (hr : ∀ s ∈ pr.rhs, match s with | Sym.t x => x < nT | Sym.n _ => True) :
    WfF nT nR (stepF Fc pr).1 ∧ mu Fc.1 nR ≤ mu (stepF Fc pr).1 nR ∧
    ((stepF Fc pr).2 = true → Fc.2 = true ∨ mu Fc.1 nR < mu (stepF Fc pr).1 nR) ∧
    ((stepF Fc pr).2 = false → (stepF Fc pr).1 = Fc.1 ∧ Fc.2 = false ∧
      (nullSeq Fc.1 pr.rhs = true → Fc.1.nullB pr.lhs = true) ∧
      ∀ x ∈ firstSeq Fc.1 pr.rhs, x ∈ Fc.1.firstNT pr.lhs) := by
  obtain ⟨w1, m1, s1, u1⟩ := nullStep_spec hw hl
  obtain ⟨w2, m2, s2, u2⟩ := firstStep_spec w1 hl hr
  have hle : ∀ B, esz Fc.1 B ≤ esz (stepF Fc pr).1 B := fun B => Nat.le_trans (m1 B) (m2 B)
  refine ⟨w2, msum_le fun B _ => hle B, ?_, ?_⟩
  · intro h
    simp only [stepF, Bool.or_eq_true] at h
    rcases h with (h | h) | h
    · exact .inl h
    · right
      exact msum_lt (fun B _ => hle B) pr.lhs hl (Nat.lt_of_lt_of_le (s1 h) (m2 _))
    · right
      exact msum_lt (fun B _ => hle B) pr.lhs hl (Nat.lt_of_le_of_lt (m1 _) (s2 h))
  · intro h
    simp only [stepF, Bool.or_eq_false_iff] at h
    obtain ⟨⟨h0, h1⟩, h2⟩ := h
    obtain ⟨e1, n1⟩ := u1 h1
    obtain ⟨e2, f2⟩ := u2 h2
    refine ⟨?_, h0, n1, ?_⟩
    · show (firstStep (nullStep Fc.1 pr).1 pr).1 = Fc.1
      rw [e2, e1]
    · rw [e1] at f2
      exact f2

theorem foldl_stepF_spec {G : Grammar} (hG : SymsInRange G nT nR) :
    ∀ (L : List Prod) (Fc : FirstTab × Bool), (∀ pr ∈ L, pr ∈ G.prods.toList) → WfF nT nR Fc.1 →
      WfF nT nR (L.foldl stepF Fc).1 ∧ mu Fc.1 nR ≤ mu (L.foldl stepF Fc).1 nR ∧
      ((L.foldl stepF Fc).2 = true → Fc.2 = true ∨ mu Fc.1 nR < mu (L.foldl stepF Fc).1 nR) ∧
      ((L.foldl stepF Fc).2 = false → (L.foldl stepF Fc).1 = Fc.1 ∧ Fc.2 = false ∧
        ∀ pr ∈ L, (nullSeq Fc.1 pr.rhs = true → Fc.1.nullB pr.lhs = true) ∧
          ∀ x ∈ firstSeq Fc.1 pr.rhs, x ∈ Fc.1.firstNT pr.lhs)
  | [], Fc, _, hw => ⟨hw, Nat.le_refl _, fun h => .inl h, fun h => ⟨rfl, h, by simp⟩⟩
  | pr :: L, Fc, hL, hw => by
    have hpr := hG pr (hL pr (by simp))
    have hr : ∀ s ∈ pr.rhs, match s with | Sym.t x => x < nT | Sym.n _ => True := by
      intro s hs
      have := hpr.2 s hs
      cases s <;> simp_all
    obtain ⟨w1, m1, s1, u1⟩ := stepF_spec hw hpr.1 hr
    obtain ⟨w2, m2, s2, u2⟩ := foldl_stepF_spec hG L (stepF Fc pr)
      (fun p hp => hL p (List.mem_cons_of_mem _ hp)) w1
    simp only [List.foldl_cons]
    refine ⟨w2, Nat.le_trans m1 m2, ?_, ?_⟩
    · intro h
      rcases s2 h with h' | h'
      · rcases s1 h' with h'' | h''
        · exact .inl h''
        · exact .inr (Nat.lt_of_lt_of_le h'' m2)
      · exact .inr (Nat.lt_of_le_of_lt m1 h')
    · intro h
      obtain ⟨e2, c2, all2⟩ := u2 h
      obtain ⟨e1, c1, n1, f1⟩ := u1 c2
      refine ⟨by rw [e2, e1], c1, ?_⟩
      intro p hp
      rcases List.mem_cons.mp hp with rfl | hp
      · exact ⟨n1, f1⟩
      · have := all2 p hp
        rw [e1] at this
        exact this

theorem firstRound_spec {G : Grammar} (hG : SymsInRange G nT nR) {F : FirstTab}
    (hw : WfF nT nR F) :
    WfF nT nR (firstRound G F).1 ∧
    ((firstRound G F).2 = true → mu F nR < mu (firstRound G F).1 nR) ∧
    ((firstRound G F).2 = false → (firstRound G F).1 = F ∧ closedB G F = true) := by
  rw [firstRound_eq]
  obtain ⟨w, _, s, u⟩ := foldl_stepF_spec hG G.prods.toList (F, false) (fun _ h => h) hw
  refine ⟨w, fun h => ?_, fun h => ?_⟩
  · rcases s h with h' | h'
    · cases h'
    · exact h'
  · obtain ⟨e, _, all⟩ := u h
    refine ⟨e, ?_⟩
    unfold closedB
    rw [List.all_eq_true]
    intro pr hpr
    obtain ⟨n1, f1⟩ := all pr hpr
    simp only [Bool.and_eq_true, Bool.or_eq_true, Bool.not_eq_true', List.all_eq_true,
      decide_eq_true_eq]
    refine ⟨?_, f1⟩
    cases hn : nullSeq F pr.rhs with
    | false => exact .inl rfl
    | true => exact .inr (n1 hn)

theorem firstIter_closed {G : Grammar} (hG : SymsInRange G nT nR) :
    ∀ (n : Nat) {F : FirstTab}, WfF nT nR F → nR * (nT + 1) < mu F nR + n →
      closedB G (firstIter G n F) = true
  | 0, F, hw, hn => by
    have := mu_le hw
    omega
  | n + 1, F, hw, hn => by
    obtain ⟨w, s, u⟩ := firstRound_spec hG hw
    simp only [firstIter]
    split
    · next hc =>
      exact firstIter_closed hG n w (by have := s hc; omega)
    · next hc =>
      have hc' : (firstRound G F).2 = false := by simpa using hc
      obtain ⟨e, hcl⟩ := u hc'
      rw [e]; exact hcl

/-- **The validator's FIRST iteration stabilises within its fuel.** -/
theorem firstFix_closed {G : Grammar} (hG : SymsInRange G nT nR) :
    closedB G (firstFix G nT nR) = true := by
  unfold firstFix
  apply firstIter_closed hG
  · refine ⟨by simp, by simp, fun B => ?_, fun B x hx => ?_⟩
    · simp only [FirstTab.firstNT, Array.getElem?_replicate]
      split <;> simp
    · simp only [FirstTab.firstNT, Array.getElem?_replicate] at hx
      split at hx <;> simp at hx
  · have : mu { nullable := Array.replicate nR false, first := Array.replicate nR [] } nR ≥ 0 :=
      Nat.zero_le _
    have e : nR * (nT + 2) = nR * (nT + 1) + nR := by
      rw [show nT + 2 = (nT + 1) + 1 from rfl, Nat.mul_succ]
    omega

end

end Lox.LR.FixFirst
