import Lox.Drv.Common
import Lox.LR.GenModel
import Lox.LR.DrvValidate
/-! Driver ops of the generator model (`Lox/LR/GenModel.lean`); Go side:
`/verif/harness/drv/ops_genmodel.go`, family `genmodel`.

Every payload starts with the grammar `<nTerms> <nRules> | <prods>` (encoding of `lr.validate`:
productions separated by `;`, each `lhs s1 s2 …`, terminal `k` written `k`, rule `A` written
`-(A+1)`), followed by `|`-separated sections:

* `lr.first G | <symbols>` – `First(g, syms)`: terminal numbers increasing, then `e` if ε is a
  member; `-` for the empty set.
* `lr.closure G | <items>` – `Closure`: items `p d a …` in `SortItems` order; `panic` where the Go
  code panics (index out of range).
* `lr.goto G | <items> | <symbol>` – `Goto`.
* `lr.next G | <items>` – `Next` as a set: terminals increasing, then rules increasing.
* `lr.lr0key G | <items>` – `LR0Key` as the list of its (production, dot) pairs `p d p d …`.
* `lr.actions G | <items> | <terminal target …>` – the cells `createActions` builds for a state
  with these items and these terminal transitions: `a : <action> , <action> ; b : …`, terminals
  increasing, actions in stored order (`s <target> <prods…>`, `r <prod>`, `a`); `panic`.

`bad-grammar` if a terminal of the grammar is not below `nTerms`. -/
namespace Lox.LR.Gen
open Lox.Drv Lox.LR

def parseGrammar (hd prods : String) : Option (Grammar × Nat) := do
  let nT ← match ← parseNats hd with
    | [a, _] => some a
    | _ => none
  let prods ← (← parseSections prods ';').mapM parseProd
  some (⟨prods.toArray⟩, nT)

def showItems (I : List Item) : String :=
  let s := showNats ((sortItems I).flatMap fun it => [it.p, it.d, it.a])
  if s.isEmpty then "-" else s

def showEntry (e : Entry) : String :=
  let ts := (ssort (fun x y : Nat => decide (x < y)) e.1).map toString
  let all := if e.2 then ts ++ ["e"] else ts
  if all.isEmpty then "-" else " ".intercalate all

def showSym : Sym → String
  | .t a => toString a
  | .n A => "-" ++ toString (A + 1)

def showAct : Lox.Dec.Action → String
  | .shift t ps => "s " ++ showNats (t :: ps)
  | .reduce p => "r " ++ toString p
  | .accept => "a"

def parseTr : List Nat → Option (List (Nat × Nat))
  | [] => some []
  | a :: s :: r => (parseTr r).map ((a, s) :: ·)
  | _ => none

def lookupTr (tr : List (Nat × Nat)) (a : Nat) : Option Nat :=
  match tr with
  | [] => none
  | (b, s) :: r => if a = b then some s else lookupTr r a

def handleGenModel (op payload : String) : Option String := do
  match payload.splitOn "|" with
  | hd :: prods :: rest =>
    let (G, nT) ← parseGrammar hd prods
    if !termsBelowB G nT then some "bad-grammar"
    else match op, rest with
    | "lr.first", [syms] =>
      let α := (← parseInts syms).map parseSym
      if !firstConverged G nT then some "no-fixpoint"
      else some (showEntry (firstOfSyms G nT α))
    | "lr.closure", [items] =>
      let I ← parseItems (← parseInts items)
      match closureGo G nT I with
      | some C => some (showItems C)
      | none => some "panic"
    | "lr.goto", [items, sym] =>
      let I ← parseItems (← parseInts items)
      let X ← match ← parseInts sym with
        | [k] => some (parseSym k)
        | _ => none
      match gotoGo G nT I X with
      | some C => some (showItems C)
      | none => some "panic"
    | "lr.next", [items] =>
      let I ← parseItems (← parseInts items)
      match nextGo G I with
      | none => some "panic"
      | some syms =>
        let s := " ".intercalate (syms.map showSym)
        some (if s.isEmpty then "-" else s)
    | "lr.lr0key", [items] =>
      let I ← parseItems (← parseInts items)
      let s := showNats ((lr0Key I).flatMap fun pd => [pd.1, pd.2])
      some (if s.isEmpty then "-" else s)
    | "lr.actions", [items, tr] =>
      let I ← parseItems (← parseInts items)
      let tr ← parseTr (← parseNats tr)
      match actionsOf G nT (lookupTr tr) I with
      | none => some "panic"
      | some cells =>
        let s := " ; ".intercalate (cells.map fun (a, c) =>
          toString a ++ " : " ++ " , ".intercalate (c.map showAct))
        some (if s.isEmpty then "-" else s)
    | _, _ => none
  | _ => none

end Lox.LR.Gen
