import Lox.LR.CheckSound
/-! Refinement: on validated tables the CONCRETE runtime model `Lox.LR.step` / `Lox.LR.parse`
(`Model.lean`, the transcription of the generated `parse`) follows the abstract machine
`Lox.LR.Abs.step` step by step, as long as no action is missing (= as long as the generated parser
does not enter `_recover`). Inputs: token types without ERROR (1). -/
namespace Lox.LR

mutual
/-- The derivation tree a runtime value stands for (token → leaf of its type). -/
def Val.toTree : Val → Tree
  | .nil => .leaf 0
  | .tok _ ty => .leaf ty
  | .err _ _ _ => .leaf 1
  | .node p kids => .node p (toTreeList kids)
def toTreeList : List Val → List Tree
  | [] => []
  | v :: vs => v.toTree :: toTreeList vs
end

theorem toTreeList_eq_map (vs : List Val) : toTreeList vs = vs.map Val.toTree := by
  induction vs with
  | nil => rfl
  | cons v vs ih => simp [toTreeList, ih]

/-- The `_act` calls of an event log (newest first), as (production, children trees). -/
def actsOf : List Event → List (Nat × List Tree)
  | [] => []
  | .act p kids :: r => (p, kids.map Val.toTree) :: actsOf r
  | .bounds _ _ _ _ :: r => actsOf r

/-! ### The three non-recovery branches of the concrete `step`, isolated -/

theorem step_accept {T : Tables} {inp : Array Nat} {wb : Bool} {fuel : Nat} {s : PState} {top : Int}
    (htop : topState s.stack = some top) (hf : find T.actions top s.la = .hit acceptCode) :
    step T inp wb fuel s = .done .accept s := by
  simp [step, htop, hf]

theorem step_miss {T : Tables} {inp : Array Nat} {wb : Bool} {fuel : Nat} {s : PState} {top : Int}
    (htop : topState s.stack = some top) (hf : find T.actions top s.la = .miss) :
    (∀ s', recover T inp fuel s = .ok s' → step T inp wb fuel s = .cont s') ∧
    (∀ s', recover T inp fuel s = .fail s' → step T inp wb fuel s = .done .reject s') ∧
    (∀ w, recover T inp fuel s = .panic w → step T inp wb fuel s = .done (.panic w) s) ∧
    (recover T inp fuel s = .timeout → step T inp wb fuel s = .done .timeout s) := by
  refine ⟨?_, ?_, ?_, ?_⟩ <;> intros <;> simp [step, *]

/-- State after shifting to `v` and reading the next token (no pending `_qla`, next token not
ERROR). -/
def shifted (inp : Array Nat) (wb : Bool) (s : PState) (v : Int) (i : Nat) : PState :=
  { s with stack := { state := v, sym := s.lasym,
                      bounds := { b := if wb then i else 0, e := if wb then i else 0 } } :: s.stack,
           recovering := if s.la ≠ tERROR then false else s.recovering,
           lasym := (lexRead inp s.pos).1, la := (lexRead inp s.pos).2,
           pos := if s.pos < inp.size then s.pos + 1 else s.pos,
           reads := s.reads + 1 }

theorem step_shift {T : Tables} {inp : Array Nat} {wb : Bool} {fuel : Nat} {s : PState}
    {top v : Int} {i ty : Nat}
    (htop : topState s.stack = some top) (hf : find T.actions top s.la = .hit v)
    (hna : v ≠ acceptCode) (hv : 0 ≤ v) (hsym : s.lasym = .tok i ty) (hq : s.qla = -1)
    (hne : (lexRead inp s.pos).2 ≠ tERROR) :
    step T inp wb fuel s = .cont (shifted inp wb s v i) := by
  have hge : v ≥ 0 := hv
  cases wb <;>
    simp [step, htop, hf, hna, hge, hsym, symTokIdx, readToken, hq, hne, shifted]

/-- State after reducing production `p` (with `n` right-hand side symbols) and going to `ns`. -/
def reduced (wb : Bool) (s : PState) (p n : Nat) (ns : Int) : PState :=
  let popped := (s.stack.take n).reverse
  let kids := popped.map (·.sym)
  let res := Val.node p kids
  let bnds := combineBounds (popped.map (·.bounds))
  let log := Event.act p kids :: s.log
  let log := if wb ∧ ¬ bnds.empty then Event.bounds p res bnds.b bnds.e :: log else log
  { s with stack := { state := ns, sym := res, bounds := bnds } :: s.stack.drop n, log := log }

theorem step_reduce {T : Tables} {inp : Array Nat} {wb : Bool} {fuel : Nat} {s : PState}
    {top v tc rule top' ns : Int}
    (htop : topState s.stack = some top) (hf : find T.actions top s.la = .hit v)
    (hna : v ≠ acceptCode) (hv : v < 0)
    (htc : geti T.termCounts (-v) = some tc) (hr : geti T.rules (-v) = some rule)
    (htc0 : 0 ≤ tc) (hlen : tc.toNat ≤ s.stack.length)
    (htop' : topState (s.stack.drop tc.toNat) = some top')
    (hg : find T.gotos top' rule = .hit ns) :
    step T inp wb fuel s = .cont (reduced wb s (-v).toNat tc.toNat ns) := by
  have h1 : ¬ v ≥ 0 := by omega
  have h2 : ¬ (tc < 0 ∨ s.stack.length < tc.toNat) := by omega
  simp only [step, htop, hf, hna, h1, if_false, htc, hr, h2, htop', hg, reduced]

end Lox.LR

namespace Lox.LR
open Abs (StackInv)

/-! ### Abstract progress: a reduction never gets stuck -/

/-- Under `Safe`, on a reachable stack, a reduce action always completes: the production exists,
the stack is long enough and the goto entry exists. -/
theorem Abs.reduce_progress {G : Grammar} {A : Auto} (hs : Safe G A) {st : List Abs.Entry}
    {syms w} (hinv : StackInv G A st syms w) {a p : Nat}
    (hact : A.action (Abs.topState st) a = some (.reduce p)) (hp0 : p ≠ 0) :
    ∃ pr e' rest s', G.prods[p]? = some pr ∧ st.drop pr.rhs.length = e' :: rest ∧
      pr.rhs.length < st.length ∧ A.goto e'.state pr.lhs = some s' := by
  obtain ⟨pr, a', hp, hitem⟩ := hs.red _ _ _ hact
  obtain ⟨hle, _, _, a'', h0⟩ := Abs.walk hs pr.rhs.length hinv p a' pr hitem hp
  have hlen := hinv.len
  have hlt : pr.rhs.length < st.length := by omega
  cases hd : st.drop pr.rhs.length with
  | nil =>
    have := congrArg List.length hd
    simp at this; omega
  | cons e' rest =>
    rw [hd] at h0
    obtain ⟨s', hgo⟩ := hs.gotoDef e'.state ⟨p, 0, a''⟩ pr (by simpa using h0) rfl hp0 hp
    exact ⟨pr, e', rest, s', hp, hd, hlt, hgo⟩

/-- Under `Safe`, on a reachable stack, the abstract step fails only when the action is missing. -/
theorem Abs.step_fail {G : Grammar} {A : Auto} (hs : Safe G A) (hred0 : ∀ s a, A.action s a ≠
    some (.reduce 0)) {c : Abs.Config} {syms w} (hinv : StackInv G A c.stack syms w)
    (h : Abs.step G A c = .fail) : A.action (Abs.topState c.stack) (Abs.la c.input) = none := by
  obtain ⟨stack, input, log⟩ := c
  cases stack with
  | nil => exact absurd rfl hinv.ne_nil
  | cons e st0 =>
    simp only [Abs.step] at h
    cases hact : A.action e.state (Abs.la input) with
    | none => simpa using hact
    | some act =>
      cases act with
      | accept => simp [hact] at h
      | shift s' => simp [hact] at h
      | reduce p =>
        have hp0 : p ≠ 0 := fun h0 => hred0 _ _ (h0 ▸ hact)
        obtain ⟨pr, e', rest, s', hp, hd, _, hgo⟩ :=
          Abs.reduce_progress hs hinv (a := Abs.la input) (by simpa using hact) hp0
        simp at hd
        simp [hact, hp, hd, hgo] at h

end Lox.LR

namespace Lox.LR
open Abs (StackInv)

section
variable {G : Grammar} {nTerms nRules : Nat} {T : Tables} {cert : Array (List Item)}

theorem autoOf_no_reduce0 (s a : Nat) : (autoOf T cert).action s a ≠ some (.reduce 0) := by
  intro h
  obtain ⟨_, v, _, hdec⟩ := action_eq h
  obtain ⟨_, hv, hto⟩ := decodeAct_reduce.mp hdec
  omega

theorem trans_lt (h : SafeOK G nTerms nRules T cert) {s : Nat} {X : Sym} {s' : Nat}
    (htr : trans (autoOf T cert) s X = some s') : s' < cert.size := by
  cases X with
  | t x =>
    simp only [trans] at htr
    cases hact : (autoOf T cert).action s x with
    | none => simp [hact] at htr
    | some act =>
      cases act with
      | shift s'' =>
        simp only [hact, Option.some.injEq] at htr
        subst htr
        obtain ⟨hs, v, hf, hdec⟩ := action_eq hact
        obtain ⟨row, hrow, _, hall⟩ := (h.states s hs).arow
        have ok := actEntryB_spec (hall _ (find_hit_mem hrow hf))
        obtain ⟨hna, hv, hto⟩ := decodeAct_shift.mp hdec
        have := (backB_spec (ok.shift hna hv).2).2.1
        rwa [hto] at this
      | reduce p => simp [hact] at htr
      | accept => simp [hact] at htr
  | n B =>
    simp only [trans] at htr
    obtain ⟨hs, v, hf, hto⟩ := goto_eq htr
    obtain ⟨row, hrow, _, hall⟩ := (h.states s hs).grow
    have ok := gotoEntryB_spec (hall _ (find_hit_mem hrow hf))
    have := (backB_spec ok.2.2.2).2.1
    rwa [hto] at this

theorem stackInv_states_lt (h : SafeOK G nTerms nRules T cert) {st : List Abs.Entry} {syms w}
    (hinv : StackInv G (autoOf T cert) st syms w) : ∀ e ∈ st, e.state < cert.size := by
  induction hinv with
  | base v0 =>
    intro e he
    simp at he; subst he
    exact h.nonempty
  | push _ htr _ ih =>
    intro e he
    simp only [List.mem_cons] at he
    rcases he with he | he
    · subst he; exact trans_lt h htr
    · exact ih e (by simpa using he)

theorem find_actions_cases (h : SafeOK G nTerms nRules T cert) {s : Nat} (hs : s < cert.size)
    (a : Int) : (∃ v, find T.actions (s : Int) a = .hit v) ∨ find T.actions (s : Int) a = .miss := by
  obtain ⟨row, hrow, _, _⟩ := (h.states s hs).arow
  rw [find_eq hrow]
  simp only [lookRow]
  cases lookupI a row with
  | none => exact Or.inr rfl
  | some v => exact Or.inl ⟨v, rfl⟩

theorem prodsB_spec (h : prodsB G nTerms nRules T = true) {p : Nat} {pr : Prod}
    (hp : G.prods[p]? = some pr) :
    T.rules[p]? = some (pr.lhs : Int) ∧ T.termCounts[p]? = some (pr.rhs.length : Int) := by
  simp only [prodsB, Bool.and_eq_true, List.all_eq_true, List.mem_range] at h
  have hlt : p < G.prods.size := by
    rcases Array.getElem?_eq_some_iff.mp hp with ⟨hlt, _⟩; exact hlt
  have := h.2 p hlt
  simp only [hp, Bool.and_eq_true, beq_iff_eq] at this
  exact ⟨this.1.1.1, this.1.1.2⟩

theorem geti_natCast (tbl : Array Int) (p : Nat) : geti tbl (p : Int) = tbl[p]? := by
  have : ¬ ((p : Int) < 0) := by omega
  simp [geti, this]

end
end Lox.LR

namespace Lox.LR
open Abs (StackInv)

/-- The refinement relation between an abstract configuration and a state of the generated parser
(over the token-type array `inp`). -/
structure Rel (inp : Array Nat) (c : Abs.Config) (s : PState) : Prop where
  states : s.stack.map (·.state) = c.stack.map (fun e => (e.state : Int))
  vals : s.stack.map (fun e => e.sym.toTree) = c.stack.map (·.val)
  input : ∃ k, k ≤ inp.size ∧ c.input = inp.toList.drop k ∧ s.pos = min (k + 1) inp.size ∧
    s.lasym = .tok k (Abs.la c.input)
  la : s.la = ((Abs.la c.input : Nat) : Int)
  qla : s.qla = -1
  recov : s.recovering = false
  log : (actsOf s.log).reverse = c.log

theorem lexRead_spec (inp : Array Nat) {k : Nat} (hk : k ≤ inp.size) :
    lexRead inp k = (.tok k (Abs.la (inp.toList.drop k)), ((Abs.la (inp.toList.drop k) : Nat) : Int)) := by
  unfold lexRead
  cases h : inp[k]? with
  | some ty =>
    have hlt : k < inp.size := by
      rcases Array.getElem?_eq_some_iff.mp h with ⟨hlt, _⟩; exact hlt
    have hget : inp[k] = ty := by
      rcases Array.getElem?_eq_some_iff.mp h with ⟨_, hg⟩; exact hg
    have : inp.toList.drop k = ty :: inp.toList.drop (k + 1) := by
      rw [List.drop_eq_getElem_cons (by simpa using hlt)]
      simp [hget]
    simp [this, Abs.la]
  | none =>
    have hge : inp.size ≤ k := by simpa using h
    have hk' : k = inp.size := by omega
    subst hk'
    simp [Abs.la, eof]

theorem lexRead_ne_error {inp : Array Nat} (hinp : ∀ x ∈ inp.toList, x ≠ 1) (pos : Nat) :
    (lexRead inp pos).2 ≠ tERROR := by
  unfold lexRead
  cases h : inp[pos]? with
  | some ty =>
    have hm : ty ∈ inp.toList := by
      rw [Array.mem_toList_iff]; exact Array.mem_of_getElem? h
    have := hinp ty hm
    simp only [tERROR]; omega
  | none => simp [tERROR]

theorem actsOf_reduced_log (wb : Bool) (lg : List Event) (p : Nat) (kids : List Val) (res : Val)
    (b : Bounds) :
    actsOf (if wb ∧ ¬ b.empty then Event.bounds p res b.b b.e :: Event.act p kids :: lg
            else Event.act p kids :: lg) = (p, kids.map Val.toTree) :: actsOf lg := by
  split <;> simp [actsOf]

end Lox.LR

namespace Lox.LR
open Abs (StackInv)

section
variable {G : Grammar} {nTerms nRules : Nat} {T : Tables} {cert : Array (List Item)}

theorem rel_top {inp : Array Nat} {e : Abs.Entry} {st0 : List Abs.Entry} {input lg} {s : PState}
    (hrel : Rel inp ⟨e :: st0, input, lg⟩ s) : topState s.stack = some (e.state : Int) := by
  have := hrel.states
  cases hs : s.stack with
  | nil => simp [hs] at this
  | cons e1 st1 =>
    simp [hs] at this
    simp [topState, this.1]

/-- Simulation of an abstract step that continues. -/
theorem sim_cont (hc : SafeOK G nTerms nRules T cert) {inp : Array Nat}
    (hinp : ∀ x ∈ inp.toList, x ≠ 1) (wb : Bool) (fuel : Nat) {c c' : Abs.Config} {s : PState}
    (hrel : Rel inp c s) {syms w} (hinv : StackInv G (autoOf T cert) c.stack syms w)
    (hstep : Abs.step G (autoOf T cert) c = .cont c') :
    ∃ s', step T inp wb fuel s = .cont s' ∧ Rel inp c' s' := by
  have hsafe := safe_of_safeOK hc
  obtain ⟨stack, input, lg⟩ := c
  cases stack with
  | nil => exact absurd rfl hinv.ne_nil
  | cons e st0 =>
    have htop := rel_top hrel
    have hla := hrel.la
    simp only at hla
    simp only [Abs.step] at hstep
    cases hact : (autoOf T cert).action e.state (Abs.la input) with
    | none => simp [hact] at hstep
    | some act =>
      obtain ⟨hes, v, hf, hdec⟩ := action_eq hact
      rw [← hla] at hf
      cases act with
      | accept => simp [hact] at hstep
      | shift s' =>
        simp only [hact, Abs.Out.cont.injEq] at hstep
        subst hstep
        obtain ⟨hna, hv, hto⟩ := decodeAct_shift.mp hdec
        obtain ⟨k, hk, hin, hpos, hsym⟩ := hrel.input
        simp only at hin hsym
        have hklt : k < inp.size := by
          rcases Nat.lt_or_ge k inp.size with h | h
          · exact h
          · have : input = [] := by rw [hin]; simp; omega
            subst this
            exact absurd hact (hsafe.noShiftEof e.state s')
        have hpos' : s.pos = k + 1 := by omega
        refine ⟨_, step_shift htop hf hna hv hsym hrel.qla (lexRead_ne_error hinp _), ?_⟩
        have hlr := lexRead_spec inp (k := k + 1) (by omega)
        have htail : input.tail = inp.toList.drop (k + 1) := by rw [hin]; simp
        have hv' : v = (s' : Int) := by omega
        constructor
        · simp [shifted, hrel.states, hv']
        · have := hrel.vals
          simp only at this
          simp [shifted, this, hsym, Val.toTree]
        · refine ⟨k + 1, by omega, htail, ?_, ?_⟩
          · simp only [shifted, hpos']; split <;> omega
          · simp only [shifted, hpos', hlr, htail]
        · simp only [shifted, hpos', hlr, htail]
        · simp [shifted, hrel.qla]
        · simp [shifted, hrel.recov]
        · simpa [shifted] using hrel.log
      | reduce p =>
        obtain ⟨hna, hv, hto⟩ := decodeAct_reduce.mp hdec
        have hp0 : p ≠ 0 := by omega
        obtain ⟨pr, e', rest, s'', hp, hd, hlt, hgo⟩ :=
          Abs.reduce_progress hsafe hinv (a := Abs.la input) (by simpa using hact) hp0
        simp only at hd hlt
        simp only [hact, hp, hd, hgo, Abs.Out.cont.injEq] at hstep
        subst hstep
        have hnv : -v = (p : Int) := by omega
        obtain ⟨hru, htc⟩ := prodsB_spec hc.prods hp
        have hlen : s.stack.length = (e :: st0).length := by
          have := congrArg List.length hrel.states
          simpa using this
        have hstates := hrel.states
        simp only at hstates
        have hdropst : (s.stack.drop pr.rhs.length).map (·.state) =
            ((e' :: rest).map fun e => (e.state : Int)) := by
          rw [← hd, List.map_drop, List.map_drop, hstates]
        have htop' : topState (s.stack.drop pr.rhs.length) = some (e'.state : Int) := by
          cases hs : s.stack.drop pr.rhs.length with
          | nil => simp [hs] at hdropst
          | cons e1 st1 =>
            simp [hs] at hdropst
            simp [topState, hdropst.1]
        obtain ⟨hes', v', hf', hto'⟩ := goto_eq hgo
        obtain ⟨row, hrow, _, hall⟩ := (hc.states e'.state hes').grow
        have hv'0 := (gotoEntryB_spec (hall _ (find_hit_mem hrow hf'))).2.2.1
        have hv' : v' = (s'' : Int) := by omega
        have hstepc := step_reduce (T := T) (inp := inp) (wb := wb) (fuel := fuel) (s := s)
          (tc := (pr.rhs.length : Int)) (rule := (pr.lhs : Int)) htop hf hna hv
          (by rw [hnv, geti_natCast]; exact htc) (by rw [hnv, geti_natCast]; exact hru)
          (by omega) (by rw [Int.toNat_natCast, hlen]; exact Nat.le_of_lt hlt)
          (by simpa using htop') hf'
        simp only [Int.toNat_natCast, hnv] at hstepc
        refine ⟨_, hstepc, ?_⟩
        have hvals := hrel.vals
        simp only at hvals
        have hkids : (((s.stack.take pr.rhs.length).reverse.map (·.sym)).map Val.toTree) =
            (((e :: st0).take pr.rhs.length).map (·.val)).reverse := by
          have h2 := congrArg (List.take pr.rhs.length) hvals
          simp only [← List.map_take] at h2
          rw [← h2]
          simp [List.map_reverse, List.map_map, Function.comp_def]
        constructor
        · simp only [reduced, List.map_cons, hdropst, hv']
        · have : (s.stack.drop pr.rhs.length).map (fun e => e.sym.toTree) =
              (e' :: rest).map (·.val) := by
            rw [← hd, List.map_drop, List.map_drop, hvals]
          simp only [reduced, List.map_cons, this, Val.toTree, toTreeList_eq_map, hkids]
        · simpa [reduced] using hrel.input
        · simpa [reduced] using hrel.la
        · simpa [reduced] using hrel.qla
        · simpa [reduced] using hrel.recov
        · have hlog := hrel.log
          simp only at hlog
          simp only [reduced]
          rw [actsOf_reduced_log, List.reverse_cons, hlog, hkids]

end
end Lox.LR

namespace Lox.LR
open Abs (StackInv)

section
variable {G : Grammar} {nTerms nRules : Nat} {T : Tables} {cert : Array (List Item)}

/-- Simulation of an accepting abstract step. -/
theorem sim_acc {inp : Array Nat} (wb : Bool) (fuel : Nat) {c : Abs.Config} {s : PState} {t : Tree}
    (hrel : Rel inp c s) (hstep : Abs.step G (autoOf T cert) c = .acc t) :
    step T inp wb fuel s = .done .accept s ∧ (actsOf s.log).reverse = c.log ∧
      s.stack.head?.map (fun e => e.sym.toTree) = some t := by
  obtain ⟨stack, input, lg⟩ := c
  cases stack with
  | nil => simp [Abs.step] at hstep
  | cons e st0 =>
    have htop := rel_top hrel
    have hla := hrel.la
    simp only at hla
    simp only [Abs.step] at hstep
    cases hact : (autoOf T cert).action e.state (Abs.la input) with
    | none => simp [hact] at hstep
    | some act =>
      obtain ⟨hes, v, hf, hdec⟩ := action_eq hact
      rw [← hla] at hf
      cases act with
      | shift s' => simp [hact] at hstep
      | reduce p =>
        simp only [hact] at hstep
        split at hstep
        · simp at hstep
        · split at hstep
          · simp at hstep
          · split at hstep <;> simp at hstep
      | accept =>
        simp only [hact, Abs.Out.acc.injEq] at hstep
        rw [decodeAct_accept.mp hdec] at hf
        refine ⟨step_accept htop hf, hrel.log, ?_⟩
        have := hrel.vals
        cases hs : s.stack with
        | nil => simp [hs] at this
        | cons e1 st1 =>
          simp [hs] at this
          simp [this.1, hstep]

/-- When the abstract step fails on a reachable configuration, the generated parser finds no
action for the lookahead (and would enter `_recover`). -/
theorem sim_fail (hc : SafeOK G nTerms nRules T cert) {inp : Array Nat} {c : Abs.Config}
    {s : PState} (hrel : Rel inp c s) {syms w}
    (hinv : StackInv G (autoOf T cert) c.stack syms w)
    (hstep : Abs.step G (autoOf T cert) c = .fail) :
    ∃ top, topState s.stack = some top ∧ find T.actions top s.la = .miss := by
  have hsafe := safe_of_safeOK hc
  have hnone := Abs.step_fail hsafe autoOf_no_reduce0 hinv hstep
  obtain ⟨stack, input, lg⟩ := c
  cases stack with
  | nil => exact absurd rfl hinv.ne_nil
  | cons e st0 =>
    have htop := rel_top hrel
    have hla := hrel.la
    simp only at hla
    have hes := stackInv_states_lt hc hinv e (by simp)
    refine ⟨_, htop, ?_⟩
    rcases find_actions_cases hc hes s.la with ⟨v, hv⟩ | hm
    · rw [hla] at hv
      have := action_of_find (cert := cert) hes hv
      simp at hnone
      rw [this] at hnone
      simp at hnone
    · exact hm

/-- Accepting abstract runs are followed by the concrete loop (fuel for fuel). -/
theorem runLoop_accept (hc : SafeOK G nTerms nRules T cert) {inp : Array Nat}
    (hinp : ∀ x ∈ inp.toList, x ≠ 1) (wb : Bool) (fuel : Nat) :
    ∀ (n : Nat) {c : Abs.Config} {s : PState} {syms w} {t lg}, Rel inp c s →
      StackInv G (autoOf T cert) c.stack syms w →
      Abs.run G (autoOf T cert) n c = .acc t lg →
      ∃ sf, runLoop T inp wb fuel n s = (.accept, sf) ∧ (actsOf sf.log).reverse = lg ∧
        sf.stack.head?.map (fun e => e.sym.toTree) = some t := by
  intro n
  induction n with
  | zero => intro c s syms w t lg _ _ h; simp [Abs.run] at h
  | succ n ih =>
    intro c s syms w t lg hrel hinv h
    simp only [Abs.run] at h
    cases hst : Abs.step G (autoOf T cert) c with
    | cont c' =>
      rw [hst] at h
      obtain ⟨s', hs', hrel'⟩ := sim_cont hc hinp wb fuel hrel hinv hst
      obtain ⟨syms', u, hinv', _⟩ := Abs.step_inv (safe_of_safeOK hc) hst hinv
      obtain ⟨sf, h1, h2⟩ := ih hrel' hinv' h
      exact ⟨sf, by simp [runLoop, hs', h1], h2⟩
    | acc t' =>
      rw [hst] at h
      simp at h
      obtain ⟨h1, h2, h3⟩ := sim_acc (T := T) wb fuel hrel hst
      exact ⟨s, by simp [runLoop, h1], by rw [h2, h.2], by rw [h3, h.1]⟩
    | fail => rw [hst] at h; simp at h

/-- The state in which `parse` enters its loop is related to the abstract initial configuration. -/
theorem parse_init {inp : Array Nat} (hinp : ∀ x ∈ inp.toList, x ≠ 1) :
    ∃ s1, readToken T inp { stack := [{ state := 0, sym := .nil }] } = .ok s1 ∧
      Rel inp (Abs.init inp.toList) s1 := by
  have hne := lexRead_ne_error hinp 0
  have hlr := lexRead_spec inp (k := 0) (by omega)
  simp only [List.drop_zero] at hlr
  refine ⟨_, by simp [readToken, hne]; rfl, ?_⟩
  constructor
  · simp [Abs.init]
  · simp [Abs.init, Val.toTree]
  · refine ⟨0, by omega, by simp [Abs.init], ?_, ?_⟩
    · simp only; split <;> omega
    · simp [Abs.init, hlr]
  · simp [Abs.init, hlr]
  · simp
  · simp
  · simp [Abs.init, actsOf]

/-- **Concrete completeness.** On validated tables, whenever the abstract machine accepts `inp`
within `n` steps, the model of the generated `parse` accepts it for every fuel `≥ n`, the `_act`
calls it logs are the abstract log, and the value on top of the stack is the tree. -/
theorem parse_accept (hc : SafeOK G nTerms nRules T cert) {inp : Array Nat}
    (hinp : ∀ x ∈ inp.toList, x ≠ 1) (wb : Bool) {n : Nat} {t lg}
    (h : Abs.run G (autoOf T cert) n (Abs.init inp.toList) = .acc t lg) {fuel : Nat}
    (hfuel : n ≤ fuel) :
    (parse T inp wb fuel).1 = .accept ∧ (actsOf (parse T inp wb fuel).2.log).reverse = lg ∧
      (parse T inp wb fuel).2.stack.head?.map (fun e => e.sym.toTree) = some t := by
  obtain ⟨s1, hs1, hrel⟩ := parse_init (T := T) hinp
  have h' : Abs.run G (autoOf T cert) fuel (Abs.init inp.toList) = .acc t lg := by
    have := Abs.run_mono n (fuel - n) _ _ h (by simp)
    rwa [Nat.add_sub_cancel' hfuel] at this
  obtain ⟨sf, h1, h2, h3⟩ := runLoop_accept hc hinp wb fuel fuel hrel
    (Abs.StackInv.base (G := G) (A := autoOf T cert) (.leaf 0)) h'
  have hp : parse T inp wb fuel = (.accept, sf) := by simp only [parse, hs1, h1]
  rw [hp]
  exact ⟨rfl, h2, h3⟩

end
end Lox.LR

namespace Lox.LR
open Abs (StackInv)

/-! ### Missing action on tables without ERROR entries: `_recover` gives up -/

theorem noErrorB_spec {T : Tables} {n : Nat} (h : noErrorB T n = true) : NoErrorActions T n := by
  intro s hs
  simp only [noErrorB, List.all_eq_true, List.mem_range, beq_iff_eq] at h
  exact h s hs

theorem rowKeysScan_of_rowScan (tbl : Array Int) :
    ∀ (n : Nat) (i stop : Int) (row : List (Int × Int)), rowScan tbl n i stop = some row →
      rowKeysScan tbl n i stop = some (row.map (·.1)) := by
  intro n
  induction n with
  | zero => intro i stop row h; simp [rowScan] at h; subst h; rfl
  | succ n ih =>
    intro i stop row h
    simp only [rowScan] at h
    simp only [rowKeysScan]
    by_cases hlt : i < stop
    · simp only [hlt, if_true] at h ⊢
      cases hk : geti tbl i with
      | none => simp [hk] at h
      | some k =>
        cases hv : geti tbl (i + 1) with
        | none => simp [hk, hv] at h
        | some v =>
          simp only [hk, hv, Option.map_eq_some_iff] at h
          obtain ⟨r, hr, hrow⟩ := h
          subst hrow
          simp [ih (i + 2) stop r hr]
    · simp only [hlt, if_false] at h ⊢
      simp at h; subst h; rfl

theorem rowKeys_of_rowOf {tbl : Array Int} {y : Int} {row} (h : rowOf tbl y = some row) :
    rowKeys tbl y = some (row.map (·.1)) := by
  simp only [rowOf] at h
  simp only [rowKeys]
  cases hy : geti tbl y with
  | none => simp [hy] at h
  | some i =>
    simp only [hy] at h ⊢
    cases hc : geti tbl i with
    | none => simp [hc] at h
    | some count =>
      simp only [hc] at h ⊢
      exact rowKeysScan_of_rowScan tbl _ _ _ row h

/-- All states on a concrete stack exist. -/
def StackInRange (n : Nat) (st : List Entry) : Prop := ∀ e ∈ st, ∃ k : Nat, k < n ∧ e.state = (k : Int)

theorem searchStack_noerr {T : Tables} {n : Nat} (hne : NoErrorActions T n) (la : Int)
    (fuel : Nat) : ∀ (st : List Entry), StackInRange n st →
      searchStack T la fuel st = .ok none ∨ searchStack T la fuel st = .error "TIMEOUT" := by
  intro st
  induction st with
  | nil => intro _; exact Or.inl rfl
  | cons e rest ih =>
    intro hr
    obtain ⟨k, hk, hek⟩ := hr e (by simp)
    simp only [searchStack]
    cases fuel with
    | zero => simp [simulate]
    | succ f =>
      have : simulate T la (f + 1) e.state = .notFound := by
        simp [simulate, hek, hne k hk]
      simp only [this]
      exact ih (fun e' he' => hr e' (by simp [he']))

theorem recoverLoop_noerr {T : Tables} {n : Nat} (hne : NoErrorActions T n) {inp : Array Nat}
    (hinp : ∀ x ∈ inp.toList, x ≠ 1) (errSym : Val) (fuel : Nat) :
    ∀ (m : Nat) (s : PState), s.qla = -1 → StackInRange n s.stack →
      recoverLoop T inp errSym fuel m s = .timeout ∨
        ∃ s', recoverLoop T inp errSym fuel m s = .fail s' := by
  intro m
  induction m with
  | zero => intro s _ _; exact Or.inl rfl
  | succ m ih =>
    intro s hq hr
    simp only [recoverLoop]
    rcases searchStack_noerr hne s.la fuel s.stack hr with h | h
    · simp only [h]
      by_cases hla : s.la = tEOF
      · simp [hla]
      · simp only [hla, if_false]
        have hrd : ∃ s', readToken T inp s = .ok s' ∧ s'.qla = -1 ∧ s'.stack = s.stack := by
          simp [readToken, hq, lexRead_ne_error hinp s.pos]
        obtain ⟨s', hrd, hq', hst'⟩ := hrd
        simp only [hrd]
        exact ih _ hq' (hst' ▸ hr)
    · rw [h]; exact Or.inl rfl

end Lox.LR

namespace Lox.LR
open Abs (StackInv)

section
variable {G : Grammar} {nTerms nRules : Nat} {T : Tables} {cert : Array (List Item)}

theorem recover_noerr (hc : SafeOK G nTerms nRules T cert)
    (hne : NoErrorActions T cert.size) {inp : Array Nat} (hinp : ∀ x ∈ inp.toList, x ≠ 1)
    (fuel : Nat) {s : PState} {i ty : Nat} (hsym : s.lasym = .tok i ty) (hla : s.la ≠ tERROR)
    (hrec : s.recovering = false) (hq : s.qla = -1) (hr : StackInRange cert.size s.stack)
    (hst : s.stack ≠ []) :
    recover T inp fuel s = .timeout ∨ ∃ s', recover T inp fuel s = .fail s' := by
  cases hstack : s.stack with
  | nil => exact absurd hstack hst
  | cons e rest =>
    obtain ⟨k, hk, hek⟩ := hr e (by simp [hstack])
    obtain ⟨row, hrow, _, _⟩ := (hc.states k hk).arow
    have hkeys := rowKeys_of_rowOf hrow
    have hme : makeError T s = .ok (.err i ty (row.map (·.1))) := by
      simp [makeError, hsym, topState, hstack, hek, hkeys]
    unfold recover
    simp only [hsym, hme]
    cases fuel with
    | zero => simp [skipErrors]
    | succ f =>
      have hsk : skipErrors T inp (f + 1) s = .ok (some s) := by simp [skipErrors, hla]
      simp only [hsk, hrec]
      exact recoverLoop_noerr hne hinp _ (f + 1) (f + 1) s hq hr

end
end Lox.LR

namespace Lox.LR
open Abs (StackInv)

section
variable {G : Grammar} {nTerms nRules : Nat} {T : Tables} {cert : Array (List Item)}

theorem rel_stackInRange (hc : SafeOK G nTerms nRules T cert) {inp : Array Nat}
    {c : Abs.Config} {s : PState} (hrel : Rel inp c s) {syms w}
    (hinv : StackInv G (autoOf T cert) c.stack syms w) : StackInRange cert.size s.stack := by
  intro e he
  have hst := hrel.states
  have hm : e.state ∈ s.stack.map (·.state) := List.mem_map.mpr ⟨e, he, rfl⟩
  rw [hst] at hm
  obtain ⟨a, ha, hae⟩ := List.mem_map.mp hm
  exact ⟨a.state, stackInv_states_lt hc hinv a ha, hae.symm⟩

theorem rel_la_ne_error {inp : Array Nat} (hinp : ∀ x ∈ inp.toList, x ≠ 1) {c : Abs.Config}
    {s : PState} (hrel : Rel inp c s) : s.la ≠ tERROR := by
  obtain ⟨k, _, hin, _, _⟩ := hrel.input
  rw [hrel.la]
  have : Abs.la c.input ≠ 1 := by
    cases hc : c.input with
    | nil => simp [Abs.la, eof]
    | cons x xs =>
      have hx : x ∈ inp.toList := by
        have : x ∈ c.input := by simp [hc]
        rw [hin] at this
        exact List.mem_of_mem_drop this
      simpa [Abs.la] using hinp x hx
  simp only [tERROR]; omega

/-- A failing abstract run: the generated parser rejects (or the fuel runs out inside `_recover`),
on tables without ERROR actions. -/
theorem runLoop_fail (hc : SafeOK G nTerms nRules T cert) (hne : NoErrorActions T cert.size)
    {inp : Array Nat} (hinp : ∀ x ∈ inp.toList, x ≠ 1) (wb : Bool) (fuel : Nat) :
    ∀ (n : Nat) {c : Abs.Config} {s : PState} {syms w}, Rel inp c s →
      StackInv G (autoOf T cert) c.stack syms w →
      Abs.run G (autoOf T cert) n c = .fail →
      (runLoop T inp wb fuel n s).1 = .reject ∨ (runLoop T inp wb fuel n s).1 = .timeout := by
  intro n
  induction n with
  | zero => intro c s syms w _ _ h; simp [Abs.run] at h
  | succ n ih =>
    intro c s syms w hrel hinv h
    simp only [Abs.run] at h
    cases hst : Abs.step G (autoOf T cert) c with
    | cont c' =>
      rw [hst] at h
      obtain ⟨s', hs', hrel'⟩ := sim_cont hc hinp wb fuel hrel hinv hst
      obtain ⟨syms', u, hinv', _⟩ := Abs.step_inv (safe_of_safeOK hc) hst hinv
      have := ih hrel' hinv' h
      simpa [runLoop, hs'] using this
    | acc t' => rw [hst] at h; simp at h
    | fail =>
      obtain ⟨top, htop, hmiss⟩ := sim_fail hc hrel hinv hst
      obtain ⟨k, _, _, _, hsym⟩ := hrel.input
      have hne' : s.stack ≠ [] := by
        intro h0; simp [topState, h0] at htop
      obtain ⟨_, hfail, _, htime⟩ := step_miss (inp := inp) (wb := wb) (fuel := fuel) htop hmiss
      rcases recover_noerr hc hne hinp fuel hsym (rel_la_ne_error hinp hrel) hrel.recov hrel.qla
        (rel_stackInRange hc hrel hinv) hne' with hr | ⟨s', hr⟩
      · right; simp [runLoop, htime hr]
      · left; simp [runLoop, hfail s' hr]

/-- An abstract run that is out of fuel: so is the concrete one. -/
theorem runLoop_timeout (hc : SafeOK G nTerms nRules T cert) {inp : Array Nat}
    (hinp : ∀ x ∈ inp.toList, x ≠ 1) (wb : Bool) (fuel : Nat) :
    ∀ (n : Nat) {c : Abs.Config} {s : PState} {syms w}, Rel inp c s →
      StackInv G (autoOf T cert) c.stack syms w →
      Abs.run G (autoOf T cert) n c = .timeout →
      (runLoop T inp wb fuel n s).1 = .timeout := by
  intro n
  induction n with
  | zero => intro c s syms w _ _ _; rfl
  | succ n ih =>
    intro c s syms w hrel hinv h
    simp only [Abs.run] at h
    cases hst : Abs.step G (autoOf T cert) c with
    | cont c' =>
      rw [hst] at h
      obtain ⟨s', hs', hrel'⟩ := sim_cont hc hinp wb fuel hrel hinv hst
      obtain ⟨syms', u, hinv', _⟩ := Abs.step_inv (safe_of_safeOK hc) hst hinv
      have := ih hrel' hinv' h
      simpa [runLoop, hs'] using this
    | acc t' => rw [hst] at h; simp at h
    | fail => rw [hst] at h; simp at h

/-- **The generated `parse` versus the abstract machine, fuel for fuel** (validated tables without
ERROR actions, input without ERROR tokens). -/
theorem parse_outcome (hc : SafeOK G nTerms nRules T cert) (hne : NoErrorActions T cert.size)
    {inp : Array Nat} (hinp : ∀ x ∈ inp.toList, x ≠ 1) (wb : Bool) (fuel : Nat) :
    match Abs.run G (autoOf T cert) fuel (Abs.init inp.toList) with
    | .acc t lg => (parse T inp wb fuel).1 = .accept ∧
        (actsOf (parse T inp wb fuel).2.log).reverse = lg ∧
        (parse T inp wb fuel).2.stack.head?.map (fun e => e.sym.toTree) = some t
    | .fail => (parse T inp wb fuel).1 = .reject ∨ (parse T inp wb fuel).1 = .timeout
    | .timeout => (parse T inp wb fuel).1 = .timeout := by
  obtain ⟨s1, hs1, hrel⟩ := parse_init (T := T) hinp
  have hbase := Abs.StackInv.base (G := G) (A := autoOf T cert) (.leaf 0)
  have hp : parse T inp wb fuel = runLoop T inp wb fuel fuel s1 := by simp only [parse, hs1]
  cases h : Abs.run G (autoOf T cert) fuel (Abs.init inp.toList) with
  | acc t lg => exact parse_accept hc hinp wb h (Nat.le_refl _)
  | fail => simp only; rw [hp]; exact runLoop_fail hc hne hinp wb fuel fuel hrel hbase h
  | timeout => simp only; rw [hp]; exact runLoop_timeout hc hinp wb fuel fuel hrel hbase h

end
end Lox.LR

namespace Lox.LR
open Abs (StackInv)

/-! ### With enough fuel `_recover` gives up (tables without ERROR actions) -/

theorem searchStack_noerr' {T : Tables} {n : Nat} (hne : NoErrorActions T n) (la : Int)
    (fuel : Nat) : ∀ (st : List Entry), StackInRange n st →
      searchStack T la (fuel + 1) st = .ok none := by
  intro st
  induction st with
  | nil => intro _; rfl
  | cons e rest ih =>
    intro hr
    obtain ⟨k, hk, hek⟩ := hr e (by simp)
    have : simulate T la (fuel + 1) e.state = .notFound := by
      simp [simulate, hek, hne k hk]
    simp only [searchStack, this]
    exact ih (fun e' he' => hr e' (by simp [he']))

theorem recoverLoop_noerr_fail {T : Tables} {n : Nat} (hne : NoErrorActions T n)
    {inp : Array Nat} (hinp : ∀ x ∈ inp.toList, x ≠ 1) (errSym : Val) (fuel : Nat) :
    ∀ (m : Nat) (s : PState), s.qla = -1 → StackInRange n s.stack →
      (s.la = tEOF ∧ 1 ≤ m) ∨ inp.size - s.pos + 2 ≤ m →
      ∃ s', recoverLoop T inp errSym (fuel + 1) m s = .fail s' := by
  intro m
  induction m with
  | zero => intro s _ _ h; omega
  | succ m ih =>
    intro s hq hr h
    simp only [recoverLoop, searchStack_noerr' hne s.la fuel s.stack hr]
    by_cases hla : s.la = tEOF
    · simp [hla]
    · simp only [hla, if_false]
      have hm : inp.size - s.pos + 2 ≤ m + 1 := by
        rcases h with h | h
        · exact absurd h.1 hla
        · exact h
      have hrd : ∃ s', readToken T inp s = .ok s' ∧ s'.qla = -1 ∧ s'.stack = s.stack ∧
          s'.pos = (if s.pos < inp.size then s.pos + 1 else s.pos) ∧
          s'.la = (lexRead inp s.pos).2 := by
        simp [readToken, hq, lexRead_ne_error hinp s.pos]
      obtain ⟨s', hrd, hq', hst', hpos', hla'⟩ := hrd
      simp only [hrd]
      refine ih s' hq' (hst' ▸ hr) ?_
      by_cases hp : s.pos < inp.size
      · right; rw [hpos']; simp only [hp, if_true]; omega
      · left
        refine ⟨?_, by omega⟩
        rw [hla']
        have : inp[s.pos]? = none := by simp; omega
        simp [lexRead, this, tEOF]

section
variable {G : Grammar} {nTerms nRules : Nat} {T : Tables} {cert : Array (List Item)}

theorem recover_noerr_fail (hc : SafeOK G nTerms nRules T cert)
    (hne : NoErrorActions T cert.size) {inp : Array Nat} (hinp : ∀ x ∈ inp.toList, x ≠ 1)
    {fuel : Nat} (hfuel : inp.size + 2 ≤ fuel) {s : PState} {i ty : Nat}
    (hsym : s.lasym = .tok i ty) (hla : s.la ≠ tERROR)
    (hrec : s.recovering = false) (hq : s.qla = -1) (hr : StackInRange cert.size s.stack)
    (hst : s.stack ≠ []) : ∃ s', recover T inp fuel s = .fail s' := by
  cases hstack : s.stack with
  | nil => exact absurd hstack hst
  | cons e rest =>
    obtain ⟨k, hk, hek⟩ := hr e (by simp [hstack])
    obtain ⟨row, hrow, _, _⟩ := (hc.states k hk).arow
    have hkeys := rowKeys_of_rowOf hrow
    have hme : makeError T s = .ok (.err i ty (row.map (·.1))) := by
      simp [makeError, hsym, topState, hstack, hek, hkeys]
    unfold recover
    simp only [hsym, hme]
    cases fuel with
    | zero => omega
    | succ f =>
      have hsk : skipErrors T inp (f + 1) s = .ok (some s) := by simp [skipErrors, hla]
      simp only [hsk, hrec]
      exact recoverLoop_noerr_fail hne hinp _ f (f + 1) s hq hr (Or.inr (by omega))

/-- A failing abstract run with enough fuel for `_recover`: the generated parser rejects. -/
theorem runLoop_reject (hc : SafeOK G nTerms nRules T cert) (hne : NoErrorActions T cert.size)
    {inp : Array Nat} (hinp : ∀ x ∈ inp.toList, x ≠ 1) (wb : Bool) {fuel : Nat}
    (hfuel : inp.size + 2 ≤ fuel) :
    ∀ (n : Nat) {c : Abs.Config} {s : PState} {syms w}, Rel inp c s →
      StackInv G (autoOf T cert) c.stack syms w →
      Abs.run G (autoOf T cert) n c = .fail → (runLoop T inp wb fuel n s).1 = .reject := by
  intro n
  induction n with
  | zero => intro c s syms w _ _ h; simp [Abs.run] at h
  | succ n ih =>
    intro c s syms w hrel hinv h
    simp only [Abs.run] at h
    cases hst : Abs.step G (autoOf T cert) c with
    | cont c' =>
      rw [hst] at h
      obtain ⟨s', hs', hrel'⟩ := sim_cont hc hinp wb fuel hrel hinv hst
      obtain ⟨syms', u, hinv', _⟩ := Abs.step_inv (safe_of_safeOK hc) hst hinv
      have := ih hrel' hinv' h
      simpa [runLoop, hs'] using this
    | acc t' => rw [hst] at h; simp at h
    | fail =>
      obtain ⟨top, htop, hmiss⟩ := sim_fail hc hrel hinv hst
      obtain ⟨k, _, _, _, hsym⟩ := hrel.input
      have hne' : s.stack ≠ [] := by
        intro h0; simp [topState, h0] at htop
      obtain ⟨_, hfail, _, _⟩ := step_miss (inp := inp) (wb := wb) (fuel := fuel) htop hmiss
      obtain ⟨s', hr⟩ := recover_noerr_fail hc hne hinp hfuel hsym (rel_la_ne_error hinp hrel)
        hrel.recov hrel.qla (rel_stackInRange hc hrel hinv) hne'
      simp [runLoop, hfail s' hr]

/-- `parse` rejects when the abstract machine fails within `n ≤ fuel` steps and the fuel also covers
`_recover`'s scan to the end of the input. -/
theorem parse_reject_of_fail (hc : SafeOK G nTerms nRules T cert)
    (hne : NoErrorActions T cert.size) {inp : Array Nat} (hinp : ∀ x ∈ inp.toList, x ≠ 1)
    (wb : Bool) {n : Nat} (h : Abs.run G (autoOf T cert) n (Abs.init inp.toList) = .fail)
    {fuel : Nat} (hn : n ≤ fuel) (hfuel : inp.size + 2 ≤ fuel) :
    (parse T inp wb fuel).1 = .reject := by
  obtain ⟨s1, hs1, hrel⟩ := parse_init (T := T) hinp
  have h' : Abs.run G (autoOf T cert) fuel (Abs.init inp.toList) = .fail := by
    have := Abs.run_mono n (fuel - n) _ _ h (by simp)
    rwa [Nat.add_sub_cancel' hn] at this
  have hp : parse T inp wb fuel = runLoop T inp wb fuel fuel s1 := by simp only [parse, hs1]
  rw [hp]
  exact runLoop_reject hc hne hinp wb hfuel fuel hrel
    (Abs.StackInv.base (G := G) (A := autoOf T cert) (.leaf 0)) h'

end
end Lox.LR
