import Lox.LR.RuntimeSoundPanic
import Lox.LR.RuntimeProofsRecover
import Lox.LR.RuntimeProofsTerm
import Lox.LR.TermSound
/-! Termination of the CONCRETE `parse`, error recovery included, on validated tables whose
reduce chains are bounded (`termB`) and whose `_recover` simulation graph is ranked
(`simRankOK`): there is a fuel from which `parse` never returns `timeout`.

Structure: a plain (shift/reduce) segment of the concrete run is a run of the abstract LR machine
(`Abs.step`) on the abstract image of the state, which terminates by `Abs.term_of_inv`; a segment
ends in `accept`, in a failing `_recover()`, or in a successful `_recover()`, and the latter
strictly decreases the potential of `RuntimeProofsRecover` (at most `2·|inp|+1` times). -/
namespace Lox.LR.Rt
open Lox.LR.Abs (StackInv)

/-! ## Abstract inputs up to trailing EOFs -/

/-- Two abstract inputs denote the same token stream (EOF = 0 forever after the end). -/
def EqIn (l l' : List Nat) : Prop := ∀ k, (l.drop k).headD 0 = (l'.drop k).headD 0

theorem EqIn.rfl' (l : List Nat) : EqIn l l := fun _ => rfl

theorem EqIn.la {l l' : List Nat} (h : EqIn l l') : Abs.la l = Abs.la l' := by
  have := h 0
  simpa [Abs.la, eof] using this

theorem EqIn.tail {l l' : List Nat} (h : EqIn l l') : EqIn l.tail l'.tail := by
  intro k
  have := h (k + 1)
  simpa [List.drop_tail] using this

/-- Same stack, same token stream. -/
def CEq (c c' : Abs.Config) : Prop := c.stack = c'.stack ∧ EqIn c.input c'.input

/-- The abstract step does not distinguish equivalent configurations. -/
theorem step_ceq {G : Grammar} {A : Auto} {c c' : Abs.Config} (h : CEq c c') :
    match Abs.step G A c, Abs.step G A c' with
    | .cont d, .cont d' => CEq d d'
    | .acc _, .acc _ => True
    | .fail, .fail => True
    | _, _ => False := by
  obtain ⟨stack, input, lg⟩ := c
  obtain ⟨stack', input', lg'⟩ := c'
  obtain ⟨hst, hin⟩ := h
  simp only at hst hin
  subst hst
  have hla := hin.la
  cases stack with
  | nil => simp [Abs.step]
  | cons e st0 =>
    simp only [Abs.step, hla]
    cases hact : A.action e.state (Abs.la input') with
    | none => trivial
    | some act =>
      cases act with
      | accept => trivial
      | shift s' =>
        dsimp only
        exact ⟨rfl, hin.tail⟩
      | reduce p =>
        dsimp only
        cases hp : G.prods[p]? with
        | none => trivial
        | some pr =>
          dsimp only
          cases hd : (e :: st0).drop pr.rhs.length with
          | nil => trivial
          | cons e' rest =>
            dsimp only
            cases hg : A.goto e'.state pr.lhs with
            | none => trivial
            | some s'' => exact ⟨rfl, hin⟩

theorem run_ceq {G : Grammar} {A : Auto} : ∀ (n : Nat) {c c' : Abs.Config}, CEq c c' →
    Abs.run G A n c ≠ .timeout → Abs.run G A n c' ≠ .timeout
  | 0, _, _, _, h => by simp [Abs.run] at h
  | n + 1, c, c', hc, h => by
    have hs := step_ceq (G := G) (A := A) hc
    unfold Abs.run at h ⊢
    cases h1 : Abs.step G A c with
    | cont d =>
      cases h2 : Abs.step G A c' with
      | cont d' =>
        rw [h1, h2] at hs
        rw [h1] at h
        exact run_ceq n hs h
      | acc t => rw [h1, h2] at hs; exact hs.elim
      | fail => rw [h1, h2] at hs; exact hs.elim
    | acc t =>
      cases h2 : Abs.step G A c' with
      | cont d' => rw [h1, h2] at hs; exact hs.elim
      | acc t' => intro hc'; cases hc'
      | fail => intro hc'; cases hc'
    | fail =>
      cases h2 : Abs.step G A c' with
      | cont d' => rw [h1, h2] at hs; exact hs.elim
      | acc t' => intro hc'; cases hc'
      | fail => intro hc'; cases hc'

/-! ## The abstract image of a concrete state -/

/-- The terminals the parser will see from this state on: lookahead, queued lookahead, rest of the
input (`Error`s as terminal 1). -/
def absInput (inp : Array Nat) (s : PState) : List Nat :=
  leafNat s.lasym :: ((if s.qla ≠ -1 then [leafNat s.qlasym] else []) ++ inp.toList.drop s.pos)

def absConfig (inp : Array Nat) (s : PState) : Abs.Config :=
  ⟨absStack s.stack, absInput inp s, []⟩

theorem eqIn_nil_zero : EqIn [] [0] := by
  intro k
  cases k <;> simp

/-- After `_readToken()` the abstract input has lost its head. -/
theorem readToken_absInput {T : Tables} {inp : Array Nat} {s s' : PState}
    (h : readToken T inp s = .ok s') : EqIn (absInput inp s).tail (absInput inp s') := by
  rw [readToken_eq] at h
  split at h
  · rename_i hq
    cases h
    have : absInput inp { s with la := s.qla, lasym := s.qlasym, qla := -1, qlasym := .nil } =
        (absInput inp s).tail := by
      simp [absInput, hq]
    rw [this]; exact EqIn.rfl' _
  · rename_i hq
    have hq' : s.qla = -1 := Decidable.not_not.mp hq
    obtain ⟨hfst, -, -⟩ := lexRead_fst inp s.pos
    have key : ∀ v : Val, leafNat v = (lexRead inp s.pos).2.toNat →
        EqIn (absInput inp s).tail (absInput inp { afterLex inp s with lasym := v }) := by
      intro v hv
      have htail : (absInput inp s).tail = inp.toList.drop s.pos := by simp [absInput, hq']
      have hnew : absInput inp { afterLex inp s with lasym := v } =
          (lexRead inp s.pos).2.toNat ::
            inp.toList.drop (if s.pos < inp.size then s.pos + 1 else s.pos) := by
        simp [absInput, afterLex, hq', hv]
      rw [htail, hnew]
      by_cases hp : s.pos < inp.size
      · have hl : (lexRead inp s.pos).2.toNat = inp[s.pos] := by
          unfold lexRead
          rw [Array.getElem?_eq_getElem hp]
          simp
        simp only [hp, if_true, hl]
        have : inp.toList.drop s.pos = inp[s.pos] :: inp.toList.drop (s.pos + 1) := by
          rw [List.drop_eq_getElem_cons (by simpa using hp)]
          simp
        rw [this]; exact EqIn.rfl' _
      · have hl : (lexRead inp s.pos).2.toNat = 0 := by
          rw [lexRead_eof hp]; rfl
        simp only [hp, if_false, hl]
        rw [List.drop_eq_nil_of_le (by simp; omega)]
        exact eqIn_nil_zero
    split at h
    · rename_i hE
      split at h
      · cases h
      · rename_i e he
        cases h
        obtain ⟨i, ty, ks, hl, rfl⟩ := makeError_spec he
        apply key
        rw [hE]; rfl
    · cases h
      have := key (lexRead inp s.pos).1 (by
        rw [hfst]
        show ((((lexRead inp s.pos).2.toNat : Nat) : Int)).toNat = _
        omega)
      simpa [afterLex] using this

/-! ## A plain concrete iteration is an abstract step -/

section
variable {G : Grammar} {nTerms nRules : Nat} {T : Tables} {cert : Array (List Item)}

theorem absStack_take_vals (st : List Entry) (k : Nat) :
    (((absStack st).take k).map (·.val)).reverse =
      toTreeList ((st.take k).reverse.map (·.sym)) := by
  simp [absStack, toTreeList_eq_map, List.map_take, List.map_reverse, Function.comp_def]

theorem plain_sim (hc : SafeOK G nTerms nRules T cert) {inp : Array Nat} {wb : Bool} {fuel : Nat}
    {s s' : PState} (hs : SInv G (autoOf T cert) inp s) (hp : isRecoverStep T s = false)
    (h : step T inp wb fuel s = .cont s') :
    ∃ d, Abs.step G (autoOf T cert) (absConfig inp s) = .cont d ∧ CEq d (absConfig inp s') := by
  have hs' := safe_of_safeOK hc
  obtain ⟨hcov, syms, hci⟩ := hs
  cases step_cont h with
  | recover htop hf _ => rw [isRecoverStep_miss htop hf] at hp; cases hp
  | @shift top action ti _ htop hf hacc hsh _ hr =>
    obtain ⟨e, st, hst, -, hlt, hact⟩ := action_of_top hc hci hcov.pinv htop hf
    have hdec : decodeAct action = .shift action.toNat := decodeAct_shift.mpr ⟨hacc, hsh, rfl⟩
    rw [hdec] at hact
    refine ⟨⟨⟨action.toNat, .leaf (leafNat s.lasym)⟩ :: absStack s.stack, (absInput inp s).tail, []⟩,
      ?_, ?_, ?_⟩
    · simp [Abs.step, absConfig, hst, absStack, absInput, Abs.la, hact]
    · show _ = absStack s'.stack
      rw [(readToken_frame hr).stack]
      simp [shiftState, absStack, toTree_of_leaf hcov.pinv.laok.1]
    · exact readToken_absInput (s := shiftState s action ti) hr
  | @reduce top action tc rule top' ns htop hf hacc hneg htc hru h0 hlen htop' hgo =>
    obtain ⟨e, st, hst, -, hlt, hact⟩ := action_of_top hc hci hcov.pinv htop hf
    have hdec : decodeAct action = .reduce (-action).toNat :=
      decodeAct_reduce.mpr ⟨hacc, hneg, rfl⟩
    rw [hdec] at hact
    have hp0 : (-action).toNat ≠ 0 := fun h0 => autoOf_no_reduce0 _ _ (h0 ▸ hact)
    obtain ⟨w0, hw0⟩ := hci.toStackInv
    have hact' : (autoOf T cert).action (Abs.topState (absStack s.stack)) (leafNat s.lasym) =
        some (.reduce (-action).toNat) := by
      rw [hst]; simpa [absStack, Abs.topState] using hact
    obtain ⟨pr, e', rest, s'', hpr, hdrop, hlen', hgoto⟩ :=
      Abs.reduce_progress hs' hw0 hact' hp0
    obtain ⟨hrule, hcount⟩ := prodsB_spec hc.prods hpr
    have hpi : (-action) = (((-action).toNat : Nat) : Int) := by omega
    rw [hpi, geti_natCast] at htc hru
    have htc' : tc = (pr.rhs.length : Int) := by rw [hcount] at htc; exact (Option.some.inj htc).symm
    have hru' : rule = (pr.lhs : Int) := by rw [hrule] at hru; exact (Option.some.inj hru).symm
    have hk : tc.toNat = pr.rhs.length := by omega
    rw [hk] at htop' ⊢
    -- the concrete entry below the popped ones
    have hdrop' : (absStack s.stack).drop pr.rhs.length = absStack (s.stack.drop pr.rhs.length) := by
      simp [absStack, List.map_drop]
    cases hd : s.stack.drop pr.rhs.length with
    | nil => rw [hd] at htop'; cases htop'
    | cons ec rc =>
      rw [hdrop', hd] at hdrop
      have he' : e' = ⟨ec.state.toNat, ec.sym.toTree⟩ := ((List.cons.inj hdrop).1).symm
      have hrest : rest = absStack rc := ((List.cons.inj hdrop).2).symm
      rw [hd] at htop'
      have ht' : top' = ec.state := by simpa [topState] using htop'.symm
      have hinc := hci.states_lt hc ec (List.mem_of_mem_drop (by rw [hd]; exact List.mem_cons_self))
      rw [he'] at hgoto
      obtain ⟨-, v, hfv, hv⟩ := goto_eq hgoto
      have hcast : ((ec.state.toNat : Nat) : Int) = ec.state := by have := hinc.1; omega
      rw [hcast, ← ht', ← hru'] at hfv
      have hns : ns = v := by
        rcases hgo with h1 | ⟨h1, -⟩
        · rw [hfv] at h1; cases h1; rfl
        · rw [hfv] at h1; cases h1
      subst hns
      refine ⟨⟨⟨s'', .node (-action).toNat
          (((absStack s.stack).take pr.rhs.length).map (·.val)).reverse⟩ :: e' :: rest,
          absInput inp s, [] ++ [((-action).toNat,
            (((absStack s.stack).take pr.rhs.length).map (·.val)).reverse)]⟩, ?_, ?_, ?_⟩
      · have hdropA : (absStack s.stack).drop pr.rhs.length = e' :: rest := by
          rw [hdrop', hd, he', hrest]; rfl
        have hstackA : absStack s.stack = ⟨e.state.toNat, e.sym.toTree⟩ :: absStack st := by
          rw [hst]; rfl
        simp only [Abs.step, absConfig]
        rw [hstackA]
        simp only [absInput, Abs.la, List.headD_cons, hact, hpr]
        rw [← hstackA, hdropA]
        simp only [he', hgoto]
      · show _ = absStack (reduceState s wb (-action) pr.rhs.length ns).stack
        simp only [reduceState, absStack, List.map_cons, hd, Val.toTree, he', hrest, hv]
        rw [← absStack_take_vals]
        rfl
      · exact EqIn.rfl' _

/-! ## Termination -/

theorem SInv.absInv {inp : Array Nat} {s : PState} (hs : SInv G (autoOf T cert) inp s) :
    Abs.Inv G (autoOf T cert) (absConfig inp s) := by
  obtain ⟨-, syms, hci⟩ := hs
  obtain ⟨w, hw⟩ := hci.toStackInv
  exact ⟨syms, w, hw⟩

/-- An iteration that ends the loop without `_recover()` timing out does not end it by timeout. -/
theorem step_done_ne_timeout {inp : Array Nat} {wb : Bool} {fuel : Nat} {s s' : PState} {o : Outcome}
    (hrec : recover T inp fuel s ≠ .timeout) (h : step T inp wb fuel s = .done o s') :
    o ≠ .timeout := by
  rcases step_done h with ⟨ho, -⟩ | ⟨ho, -⟩ | ⟨-, -, top, -, -, hr⟩ | ⟨w, ho, -⟩
  · rw [ho]; intro hc; cases hc
  · rw [ho]; intro hc; cases hc
  · exact absurd hr hrec
  · rw [ho]; intro hc; cases hc

theorem runLoop_succ_cont {inp : Array Nat} {wb : Bool} {fuel : Nat} {s s' : PState} {N : Nat}
    (h : step T inp wb fuel s = .cont s')
    (hN : ∀ n, N ≤ n → (runLoop T inp wb fuel n s').1 ≠ .timeout) :
    ∀ n, N + 1 ≤ n → (runLoop T inp wb fuel n s).1 ≠ .timeout := by
  intro n hn
  obtain ⟨n', rfl⟩ : ∃ n', n = n' + 1 := ⟨n - 1, by omega⟩
  unfold runLoop
  rw [h]
  exact hN n' (by omega)

theorem simChain_le (T : Tables) : ∀ (n : Nat) (st : Int), simChain T n st ≤ n
  | 0, _ => Nat.le_refl 0
  | n + 1, st => by
    unfold simChain
    split
    · have := simChain_le T n ‹_›; omega
    · omega

theorem simRankOK_lt {rank : Int → Nat} {n : Nat} (h : simRankOK T rank n = true) {k : Nat}
    (hk : k < n) {st' : Int} (hs : simNext T (k : Int) = some st') : rank st' < rank (k : Int) := by
  have := List.all_eq_true.mp h k (List.mem_range.mpr hk)
  rw [hs] at this
  exact of_decide_eq_true this

/-- The reduce simulation of `_recover` stays among the states of the automaton. -/
theorem simNext_inR (hc : SafeOK G nTerms nRules T cert) {st st' : Int} (h : InR cert st)
    (hs : simNext T st = some st') : InR cert st' := by
  unfold simNext at hs
  cases hf : find T.actions st tERROR with
  | oob => rw [hf] at hs; cases hs
  | miss => rw [hf] at hs; cases hs
  | hit action =>
    rw [hf] at hs
    dsimp only at hs
    by_cases hneg : action < 0
    · simp only [hneg, if_true] at hs
      cases hg : geti T.rules (-action) with
      | none => rw [hg] at hs; cases hs
      | some rule =>
        rw [hg] at hs
        dsimp only at hs
        cases hgo : find T.gotos st rule with
        | oob => rw [hgo] at hs; cases hs
        | miss => rw [hgo] at hs; cases hs
        | hit v => rw [hgo] at hs; cases hs; exact goto_entry hc h hgo
    · simp only [hneg, if_false] at hs; cases hs

/-- With a checked ranking over the states of the automaton, the reduce simulation started from a
state of the automaton terminates within `rank + 1` iterations. -/
theorem simulate_rank_inR (hc : SafeOK G nTerms nRules T cert) {rank : Int → Nat}
    (hOK : simRankOK T rank cert.size = true) (la : Int) :
    ∀ (n : Nat) (st : Int), InR cert st → rank st < n → simulate T la n st ≠ .timeout
  | 0, st, _, h => by omega
  | n + 1, st, hin, h => by
    have hdec : ∀ st', simNext T st = some st' → rank st' < rank st ∧ InR cert st' := by
      intro st' hs
      refine ⟨?_, simNext_inR hc hin hs⟩
      have := simRankOK_lt hOK hin.2 (st' := st') (by rw [hin.cast]; exact hs)
      rwa [hin.cast] at this
    unfold simulate
    cases hf : find T.actions st tERROR with
    | oob => intro hc'; cases hc'
    | miss => intro hc'; cases hc'
    | hit action =>
      dsimp only
      by_cases hneg : action < 0
      · simp only [hneg, if_true]
        cases hg : geti T.rules (-action) with
        | none => intro hc'; cases hc'
        | some rule =>
          dsimp only
          cases hgo : find T.gotos st rule with
          | oob => intro hc'; cases hc'
          | miss => intro hc'; cases hc'
          | hit st' =>
            have : simNext T st = some st' := by simp [simNext, hf, hneg, hg, hgo]
            obtain ⟨h1, h2⟩ := hdec _ this
            exact simulate_rank_inR hc hOK la n st' h2 (by omega)
      · simp only [hneg, if_false]
        split <;> (intro hc'; cases hc')

/-- On validated tables with a checked ranking bounded by `B`, `_recover()` never runs out of
fuel from a state satisfying the invariant once `fuel ≥ max (B + 1) (rest of input + 3)`. -/
theorem recover_terminates_inv (hc : SafeOK G nTerms nRules T cert) {rank : Int → Nat} {B : Nat}
    (hB : ∀ st, rank st ≤ B) (hOK : simRankOK T rank cert.size = true) {inp : Array Nat}
    {fuel : Nat} {s : PState} (hs : SInv G (autoOf T cert) inp s)
    (hf1 : B + 1 ≤ fuel) (hf2 : inp.size - s.pos + 3 ≤ fuel) :
    recover T inp fuel s ≠ .timeout :=
  recover_terminates' (fun la e he =>
    simulate_rank_inR hc hOK la fuel e.state ((hs.stackR hc).2 e he) (by have := hB e.state; omega)) hf2

/-- From every state satisfying the invariant the loop of `parse` ends within some number of
iterations (for a fixed `_recover` fuel under which `_recover` never times out). -/
theorem runLoop_terminates (hc : SafeOK G nTerms nRules T cert) (ht : termB G T cert = true)
    {inp : Array Nat} {wb : Bool} {F0 : Nat}
    (hrec : ∀ s, SInv G (autoOf T cert) inp s → recover T inp F0 s ≠ .timeout) :
    ∀ (k : Nat) (s : PState), SInv G (autoOf T cert) inp s → potential inp s ≤ k →
      ∃ N, ∀ n, N ≤ n → (runLoop T inp wb F0 n s).1 ≠ .timeout := by
  have hs' := safe_of_safeOK hc
  have hlt := termB_spec hc ht
  -- the potential argument: an iteration that shifts does not shift EOF
  have hpot : ∀ {s s' : PState}, SInv G (autoOf T cert) inp s → step T inp wb F0 s = .cont s' →
      potential inp s' + (if isRecoverStep T s then 1 else 0) ≤ potential inp s := by
    intro s s' hs h
    obtain ⟨hcov, syms, hci⟩ := hs
    exact step_potential' (fun top a htop hf hacc hsh =>
      (hci.shift hc hcov.pinv htop hf hacc hsh 0).2) h
  -- inner induction on the fuel of the abstract run of the current plain segment
  have inner : ∀ (K : Nat),
      (∀ s', SInv G (autoOf T cert) inp s' → potential inp s' + 1 ≤ K →
        ∃ N, ∀ n, N ≤ n → (runLoop T inp wb F0 n s').1 ≠ .timeout) →
      ∀ (m : Nat) (s : PState), SInv G (autoOf T cert) inp s → potential inp s ≤ K →
        Abs.run G (autoOf T cert) m (absConfig inp s) ≠ .timeout →
        ∃ N, ∀ n, N ≤ n → (runLoop T inp wb F0 n s).1 ≠ .timeout := by
    intro K hK m
    induction m with
    | zero => intro s _ _ h; simp [Abs.run] at h
    | succ m ih =>
      intro s hs hk hrun
      cases hstep : step T inp wb F0 s with
      | done o sf =>
        refine ⟨1, fun n hn => ?_⟩
        obtain ⟨n', rfl⟩ : ∃ n', n = n' + 1 := ⟨n - 1, by omega⟩
        unfold runLoop
        rw [hstep]
        exact step_done_ne_timeout (hrec s hs) hstep
      | cont s' =>
        have hs1 := step_SInv hc hs hstep
        have hp := hpot hs hstep
        cases hr : isRecoverStep T s with
        | true =>
          rw [hr] at hp
          simp only [if_true] at hp
          obtain ⟨N, hN⟩ := hK s' hs1 (by omega)
          exact ⟨N + 1, runLoop_succ_cont hstep hN⟩
        | false =>
          rw [hr] at hp
          simp only [Bool.false_eq_true, if_false, Nat.add_zero] at hp
          obtain ⟨d, hd, hceq⟩ := plain_sim hc hs hr hstep
          have hrun' : Abs.run G (autoOf T cert) m d ≠ .timeout := by
            unfold Abs.run at hrun
            rw [hd] at hrun
            exact hrun
          obtain ⟨N, hN⟩ := ih s' hs1 (by omega) (run_ceq m hceq hrun')
          exact ⟨N + 1, runLoop_succ_cont hstep hN⟩
  intro k
  induction k with
  | zero =>
    intro s hs hk
    obtain ⟨m, hm⟩ := Abs.term_of_inv hs' hlt _ _ hs.absInv rfl
    exact inner 0 (fun s' _ h => by omega) m s hs hk hm
  | succ k ih =>
    intro s hs hk
    obtain ⟨m, hm⟩ := Abs.term_of_inv hs' hlt _ _ hs.absInv rfl
    exact inner (k + 1) (fun s' hs1 h => ih s' hs1 (by omega)) m s hs hk hm

/-- **parse_terminates.** On validated tables (`SafeOK`) whose reduce chains are bounded (`termB`)
and whose `_recover` simulation graph over the states of the automaton has a checked ranking
bounded by `B`: for every input – lexer ERROR tokens included – there is a fuel from which `parse`
never returns `timeout`, i.e. the generated `parse()` terminates. -/
theorem parse_terminates (hc : SafeOK G nTerms nRules T cert) (ht : termB G T cert = true)
    (rank : Int → Nat) (B : Nat) (hB : ∀ st, rank st ≤ B)
    (hOK : simRankOK T rank cert.size = true) (inp : Array Nat) (wb : Bool) :
    ∃ N, ∀ fuel, N ≤ fuel → (parse T inp wb fuel).1 ≠ .timeout := by
  let F0 := max (B + 1) (inp.size + 3)
  have hrec : ∀ s, SInv G (autoOf T cert) inp s → recover T inp F0 s ≠ .timeout := fun s hs =>
    recover_terminates_inv hc hB hOK hs (Nat.le_max_left _ _)
      (Nat.le_trans (by omega) (Nat.le_max_right _ _))
  cases h1 : readToken T inp initState with
  | error w =>
    refine ⟨0, fun fuel _ => ?_⟩
    rw [parse_eq, h1]; intro hc'; cases hc'
  | ok s1 =>
    have hs1 : SInv G (autoOf T cert) inp s1 := init_SInv h1
    have hpot : potential inp s1 ≤ 2 * inp.size + 1 := by
      have h2 := (readToken_remaining h1).1
      have h4 : remaining inp initState = inp.size := by
        simp [remaining, initState, realQ, realLa, tEOF]
      simp only [potential]
      split <;> omega
    obtain ⟨N, hN⟩ := runLoop_terminates hc ht (wb := wb) hrec _ s1 hs1 hpot
    refine ⟨max F0 N, fun fuel hf => ?_⟩
    rw [parse_eq, h1]
    dsimp only
    rw [runLoop_mono_inv (SInv G (autoOf T cert) inp) (fun s s' hs h => step_SInv hc hs h) hrec
      (Nat.le_trans (Nat.le_max_left _ _) hf) fuel s1 hs1]
    exact hN fuel (Nat.le_trans (Nat.le_max_right _ _) hf)

/-- The same with the canonical ranking computed by the checker `recoveryOKB`. -/
theorem parse_terminates_checked (hc : SafeOK G nTerms nRules T cert) (ht : termB G T cert = true)
    (hr : recoveryOKB T cert.size = true) (inp : Array Nat) (wb : Bool) :
    ∃ N, ∀ fuel, N ≤ fuel → (parse T inp wb fuel).1 ≠ .timeout :=
  parse_terminates hc ht (simChain T (cert.size + 1)) (cert.size + 1)
    (fun st => simChain_le T _ st) hr inp wb

end

end Lox.LR.Rt
