import Lox.LR.ConstructStep
/-! The loop of the model of `ConstructLALR`: the invariant `Inv` holds initially and throughout
(`construct_inv`), and the worklist discipline (`WL`: every state is done or queued) makes the
item sets CLOSED when the loop ends with an empty `pendingSet` (`construct_closed`). -/
namespace Lox.LR.Cons
open Lox.LR Lox.LR.Gen

/-! ### Folding in `Option` -/

theorem foldlM_inv {σ α : Type} (f : σ → α → Option σ) (Q : List α → σ → Prop)
    (hf : ∀ a rem s s', Q (a :: rem) s → f s a = some s' → Q rem s') :
    ∀ (l : List α) (s s' : σ), Q l s → l.foldlM f s = some s' → Q [] s'
  | [], s, s', hq, h => by
    simp only [List.foldlM_nil] at h
    cases h
    exact hq
  | a :: l, s, s', hq, h => by
    simp only [List.foldlM_cons] at h
    cases hfa : f s a with
    | none => simp [hfa] at h
    | some s1 =>
      simp only [hfa] at h
      exact foldlM_inv f Q hf l s1 s' (hf a l s s1 hq hfa) h

/-! ### The invariant holds initially -/

section
variable {G : Grammar} {nT : Nat}

theorem lalr_closure_step (ht : TermsBelow G nT) {A : Auto} {s : Nat} {it new : Item}
    (h : LALRItem G A s it) (hr : ClosureRule G it new) : LALRItem G A s new := by
  obtain ⟨γ, hpath, hl⟩ := h
  obtain ⟨pr, B, qr, hp, hX, hq, hlhs, hd, hf⟩ := hr
  obtain ⟨np, nd, na⟩ := new
  simp only at hq hd hf
  subst hd
  obtain ⟨p, d, a⟩ := it
  exact ⟨γ, hpath, .closure hl hp hX hq hlhs ((sfirst_iff_first ht _ _ _).mp hf)⟩

theorem initState_inv (ht : TermsBelow G nT) {st : CState} (h : initState G nT = some st) :
    Inv G st ∧ st.pending = st.keys ∧ st.states.length = 1 := by
  unfold initState at h
  cases hc : closureGo G nT [⟨0, 0, 0⟩] with
  | none => simp [hc] at h
  | some I0 =>
    simp only [hc, Option.some.injEq] at h
    subst h
    have hcl := closureGo_some hc
    have spec := closureLoop_spec (exactTab_firstSets ht) _
      (loopInv_init G (firstSets G nT) [⟨0, 0, 0⟩]) hcl
    have hclosed : ClosedSet G I0 :=
      fun it hit new hr => (spec new).mpr (.step ((spec it).mp hit) hr)
    have hone : ∀ {i : Nat} {I : List Item}, [I0][i]? = some I → i = 0 ∧ I = I0 := by
      intro i I hi
      cases i with
      | zero => simp at hi; exact ⟨rfl, hi.symm⟩
      | succ n => simp at hi
    refine ⟨⟨rfl, rfl, ?_, by simp, ?_, ?_, ?_, ?_⟩, rfl, rfl⟩
    · intro i I hi
      obtain ⟨rfl, rfl⟩ := hone hi
      rfl
    · intro i I hi
      obtain ⟨rfl, rfl⟩ := hone hi
      exact hclosed
    · intro i X t hl
      exfalso
      cases i with
      | zero => simp [lookupSym] at hl
      | succ n => simp [lookupSym] at hl
    · exact ⟨I0, rfl, (spec _).mpr (.base (by simp))⟩
    · intro i I it hi hit
      obtain ⟨rfl, rfl⟩ := hone hi
      have hx := (spec it).mp hit
      induction hx with
      | base hb =>
        simp only [List.mem_singleton] at hb
        subst hb
        exact ⟨[], .nil 0, .start⟩
      | step hprev hr ih => exact lalr_closure_step ht (ih ((spec _).mpr hprev)) hr

end

/-! ### The worklist discipline -/

section
variable {G : Grammar} {nT : Nat}

/-- The transition of state `i` on `X` exists and its target holds the advanced items. -/
def EdgeDone (G : Grammar) (st : CState) (i : Nat) (X : Sym) : Prop :=
  ∃ I j J, st.states[i]? = some I ∧ lookupSym X (st.trans[i]?.getD []) = some j ∧
    st.states[j]? = some J ∧ ∀ x ∈ advance G I X, x ∈ J

/-- Every symbol after a dot of state `i` has its transition, with the advanced items in the
target. -/
def Done (G : Grammar) (st : CState) (i : Nat) : Prop :=
  ∀ I X, st.states[i]? = some I → (∃ it ∈ I, afterDot G it = some X) → EdgeDone G st i X

/-- The key of state `i` is in `pendingSet` or among the keys still to be processed in this
round. -/
def Queued (st : CState) (i : Nat) (rem : List Key) : Prop :=
  ∃ k, st.keys[i]? = some k ∧ (k ∈ st.pending ∨ k ∈ rem)

/-- Every state is done or queued. -/
def WL (G : Grammar) (st : CState) (rem : List Key) : Prop :=
  ∀ i, i < st.states.length → Done G st i ∨ Queued st i rem

variable {st st' : CState} {i : Nat} {X : Sym} {I T : List Item} {j : Nat}

theorem StepSpec.queued_mono (hs : StepSpec G st st' i X I T j) {i' : Nat} {rem : List Key}
    (h : Queued st i' rem) : Queued st' i' rem := by
  obtain ⟨k, hk, hq⟩ := h
  refine ⟨k, hs.keysPrefix i' k hk, ?_⟩
  rcases hq with hq | hq
  · exact .inl (hs.pendMono k hq)
  · exact .inr hq

/-- A state is left unchanged by a step, or it is queued. -/
theorem StepSpec.unchanged_or_queued (hs : StepSpec G st st' i X I T j) (i' : Nat)
    (rem : List Key) : st'.states[i']? = st.states[i']? ∨ Queued st' i' rem := by
  by_cases hij : i' = j
  · subst hij
    rcases hs.pendChanged with ⟨_, h⟩ | ⟨h, _⟩
    · exact .inl h
    · exact .inr ⟨_, hs.keyJ, .inl h⟩
  · exact .inl (hs.other i' hij)

theorem StepSpec.edgeDone_keep (ht : TermsBelow G nT) (hinv : Inv G st)
    (hs : StepSpec G st st' i X I T j) {i' : Nat} {Y : Sym}
    (hun : st'.states[i']? = st.states[i']?) (h : EdgeDone G st i' Y) : EdgeDone G st' i' Y := by
  obtain ⟨I1, j1, J1, hI1, hl, hJ1, hadv⟩ := h
  obtain ⟨J1', hJ1', hsub, _⟩ := hs.statesRel ht hinv j1 J1 hJ1
  have hl' : lookupSym Y (st'.trans[i']?.getD []) = some j1 := by
    have := hs.transSub hinv i' Y j1 (by rw [trans_skelOf]; exact hl)
    rw [trans_skelOf] at this
    exact this
  exact ⟨I1, j1, J1', by rw [hun]; exact hI1, hl', hJ1', fun x hx => hsub x (hadv x hx)⟩

theorem StepSpec.edgeDone_new (hs : StepSpec G st st' i X I T j)
    (hun : st'.states[i]? = st.states[i]?) : EdgeDone G st' i X := by
  obtain ⟨M, hM, _, _, hmem⟩ := hs.atJ
  refine ⟨I, j, M, by rw [hun]; exact hs.hI, by rw [hs.transI X, if_pos rfl], hM, fun x hx => ?_⟩
  exact (hmem x).mpr (.inr ((hs.spec.mem x).mpr (.base hx)))

theorem StepSpec.done_keep (ht : TermsBelow G nT) (hinv : Inv G st)
    (hs : StepSpec G st st' i X I T j) {i' : Nat} (rem : List Key) (h : Done G st i') :
    Done G st' i' ∨ Queued st' i' rem := by
  rcases hs.unchanged_or_queued i' rem with hun | hq
  · left
    intro I1 Y hI1 hit
    rw [hun] at hI1
    exact hs.edgeDone_keep ht hinv hun (h I1 Y hI1 hit)
  · exact .inr hq

/-- The state of the invariant while the symbols of state `i0` are being processed: `todo` are
the symbols still to come, `all` the ones `Next` returned. -/
structure Mid (G : Grammar) (st : CState) (rem : List Key) (i0 : Nat) (I0 : List Item)
    (all todo : List Sym) : Prop where
  inv : Inv G st
  others : ∀ i', i' < st.states.length → i' ≠ i0 → Done G st i' ∨ Queued st i' rem
  self : Queued st i0 rem ∨
    (st.states[i0]? = some I0 ∧ ∀ Y ∈ all, Y ∉ todo → EdgeDone G st i0 Y)
  sorted : SSorted keyLt st.pending

theorem Mid.step (ht : TermsBelow G nT) {rem : List Key} {i0 : Nat} {I0 : List Item}
    {all todo : List Sym} (hm : Mid G st rem i0 I0 all (X :: todo))
    (h : stepSym G nT i0 st X = some st') : Mid G st' rem i0 I0 all todo := by
  obtain ⟨I, T, j, hs⟩ := stepSym_spec ht hm.inv h
  refine ⟨hs.inv ht hm.inv, ?_, ?_, hs.pendSorted hm.sorted⟩
  · intro i' hlt hne
    by_cases hold : i' < st.states.length
    · rcases hm.others i' hold hne with hd | hq
      · exact hs.done_keep ht hm.inv rem hd
      · exact .inr (hs.queued_mono hq)
    · -- the state is new
      have hlen := hs.len
      have hjle := hs.jle
      have hij : i' = j := by omega
      subst hij
      rcases hs.pendChanged with ⟨hlt', _⟩ | ⟨hp, _⟩
      · exact absurd hlt' hold
      · exact .inr ⟨_, hs.keyJ, .inl hp⟩
  · rcases hm.self with hq | ⟨hI0, hdone⟩
    · exact .inl (hs.queued_mono hq)
    · rcases hs.unchanged_or_queued i0 rem with hun | hq
      · right
        refine ⟨by rw [hun]; exact hI0, fun Y hY hnot => ?_⟩
        by_cases hXY : Y = X
        · subst hXY
          exact hs.edgeDone_new hun
        · exact hs.edgeDone_keep ht hm.inv hun (hdone Y hY (by simp [hXY, hnot]))
      · exact .inl hq

/-! ### The invariant alone (no assumption on `ord`) -/

theorem Inv.procKey (ht : TermsBelow G nT) {ord : List Sym} {k : Key} (hinv : Inv G st)
    (h : procKey G nT ord st k = some st') : Inv G st' := by
  unfold Cons.procKey at h
  cases hf : findKey k st.keys with
  | none => simp [hf] at h
  | some i0 =>
    simp only [hf] at h
    cases hI0 : st.states[i0]? with
    | none => simp [hI0] at h
    | some I0 =>
      simp only [hI0] at h
      exact foldlM_inv (stepSym G nT i0) (fun _ s => Inv G s)
        (fun _ _ _ _ hq hs => hq.step ht hs) _ _ _ hinv h

theorem Inv.procRound (ht : TermsBelow G nT) {ord : List Sym} (hinv : Inv G st)
    (h : procRound G nT ord st = some st') : Inv G st' := by
  unfold Cons.procRound at h
  have hstart : Inv G { st with pending := [] } :=
    ⟨hinv.lenK, hinv.lenT, hinv.key, hinv.keysNodup, hinv.closed, hinv.tgt, hinv.start, hinv.sound⟩
  exact foldlM_inv (Cons.procKey G nT ord) (fun _ s => Inv G s)
    (fun _ _ _ _ hq hs => hq.procKey ht hs) _ _ _ hstart h

theorem Inv.loop (ht : TermsBelow G nT) {ord : List Sym} :
    ∀ (n : Nat) {st st' : CState}, Inv G st → loop G nT ord n st = some st' → Inv G st'
  | 0, _, _, _, h => by simp [Cons.loop] at h
  | n + 1, st, st', hinv, h => by
    simp only [Cons.loop] at h
    split at h
    · cases h; exact hinv
    · cases hr : Cons.procRound G nT ord st with
      | none => simp [hr] at h
      | some st1 =>
        simp only [hr] at h
        exact Inv.loop ht n (hinv.procRound ht hr) h

/-- The invariant holds of whatever `constructWith` returns, for every name order and fuel. -/
theorem construct_inv (ht : TermsBelow G nT) {ord : List Sym} {fuel : Nat} {st : CState}
    (h : constructWith G nT ord fuel = some st) : Inv G st := by
  unfold constructWith at h
  cases hi : initState G nT with
  | none => simp [hi] at h
  | some st0 =>
    simp only [hi] at h
    exact Inv.loop ht fuel (initState_inv ht hi).1 h

/-- Every symbol that occurs after a dot is listed in `ord` (the harness lists all symbols). -/
def OrdCovers (G : Grammar) (ord : List Sym) : Prop :=
  ∀ (p : Nat) (pr : Prod) (d : Nat) (X : Sym), G.prods[p]? = some pr → pr.rhs[d]? = some X → X ∈ ord

/-- Decision procedure for `OrdCovers`. -/
def ordCoversB (G : Grammar) (ord : List Sym) : Bool :=
  G.prods.toList.all fun pr => pr.rhs.all fun X => decide (X ∈ ord)

theorem ordCoversB_sound {G : Grammar} {ord : List Sym} (h : ordCoversB G ord = true) :
    OrdCovers G ord := by
  intro p pr d X hp hX
  simp only [ordCoversB, List.all_eq_true, decide_eq_true_eq] at h
  exact h pr (by rw [Array.mem_toList_iff]; exact Array.mem_of_getElem? hp) X
    (List.mem_of_getElem? hX)

/-- The invariant between two keys of a round. -/
structure Between (G : Grammar) (st : CState) (rem : List Key) : Prop where
  inv : Inv G st
  wl : WL G st rem
  sorted : SSorted keyLt st.pending

theorem Between.procKey (ht : TermsBelow G nT) {ord : List Sym} (hord : OrdCovers G ord)
    {k : Key} {rem : List Key} (hb : Between G st (k :: rem))
    (h : procKey G nT ord st k = some st') : Between G st' rem := by
  unfold Cons.procKey at h
  cases hf : findKey k st.keys with
  | none => simp [hf] at h
  | some i0 =>
    simp only [hf] at h
    cases hI0 : st.states[i0]? with
    | none => simp [hI0] at h
    | some I0 =>
      simp only [hI0] at h
      have hk0 := findKey_some hf
      have hstart : Mid G st rem i0 I0 (nextOrd G ord I0) (nextOrd G ord I0) := by
        refine ⟨hb.inv, ?_, .inr ⟨hI0, fun Y hY hnot => absurd hY hnot⟩, hb.sorted⟩
        intro i' hlt hne
        rcases hb.wl i' hlt with hd | ⟨k', hk', hq⟩
        · exact .inl hd
        · right
          refine ⟨k', hk', ?_⟩
          rcases hq with hq | hq
          · exact .inl hq
          · rcases List.mem_cons.mp hq with rfl | hq
            · exact absurd (findKey_unique hb.inv.keysNodup hk' hk0) hne
            · exact .inr hq
      have hend := foldlM_inv (stepSym G nT i0)
        (fun todo s => Mid G s rem i0 I0 (nextOrd G ord I0) todo)
        (fun a todo s s' hq hs => Mid.step ht hq hs) _ _ _ hstart h
      refine ⟨hend.inv, ?_, hend.sorted⟩
      intro i' hlt
      by_cases hne : i' = i0
      · subst hne
        rcases hend.self with hq | ⟨hI, hdone⟩
        · exact .inr hq
        · left
          intro I1 Y hI1 ⟨it, hit, had⟩
          rw [hI] at hI1
          cases hI1
          apply hdone Y _ (by simp)
          obtain ⟨pr, hp, hX⟩ := afterDot_eq.mp had
          simp only [nextOrd, List.mem_filter, decide_eq_true_eq]
          exact ⟨hord _ _ _ _ hp hX, mem_next.mpr ⟨it, hit, had⟩⟩
      · exact hend.others i' hlt hne

theorem Between.procRound (ht : TermsBelow G nT) {ord : List Sym} (hord : OrdCovers G ord)
    (hb : Between G st []) (h : procRound G nT ord st = some st') : Between G st' [] := by
  unfold Cons.procRound at h
  have hstart : Between G { st with pending := [] } st.pending := by
    refine ⟨⟨hb.inv.lenK, hb.inv.lenT, hb.inv.key, hb.inv.keysNodup, hb.inv.closed, hb.inv.tgt,
      hb.inv.start, hb.inv.sound⟩, ?_, by simp [SSorted]⟩
    intro i hlt
    rcases hb.wl i hlt with hd | ⟨k, hk, hq⟩
    · exact .inl hd
    · rcases hq with hq | hq
      · exact .inr ⟨k, hk, .inr hq⟩
      · cases hq
  exact foldlM_inv (Cons.procKey G nT ord) (fun rem s => Between G s rem)
    (fun k rem s s' hq hs => Between.procKey ht hord hq hs) _ _ _ hstart h

theorem Between.loop (ht : TermsBelow G nT) {ord : List Sym} (hord : OrdCovers G ord) :
    ∀ (n : Nat) {st st' : CState}, Between G st [] → loop G nT ord n st = some st' →
      Between G st' [] ∧ st'.pending = []
  | 0, _, _, _, h => by simp [Cons.loop] at h
  | n + 1, st, st', hb, h => by
    simp only [Cons.loop] at h
    split at h
    · next he =>
      cases h
      exact ⟨hb, by simpa using he⟩
    · cases hr : Cons.procRound G nT ord st with
      | none => simp [hr] at h
      | some st1 =>
        simp only [hr] at h
        exact Between.loop ht hord n (hb.procRound ht hord hr) h

/-- What holds of the table `constructWith` returns. -/
theorem construct_between (ht : TermsBelow G nT) {ord : List Sym} (hord : OrdCovers G ord)
    {fuel : Nat} {st : CState} (h : constructWith G nT ord fuel = some st) :
    Between G st [] ∧ st.pending = [] := by
  unfold constructWith at h
  cases hi : initState G nT with
  | none => simp [hi] at h
  | some st0 =>
    simp only [hi] at h
    obtain ⟨hinv, hp, hlen⟩ := initState_inv ht hi
    refine Between.loop ht hord fuel ⟨hinv, ?_, ?_⟩ h
    · intro i hlt
      have hik : i < st0.keys.length := by rw [hinv.lenK]; exact hlt
      exact .inr ⟨st0.keys[i], List.getElem?_eq_some_iff.mpr ⟨hik, rfl⟩,
        .inl (by rw [hp]; exact List.getElem_mem hik)⟩
    · rw [hp]
      have : st0.keys.length = 1 := by rw [hinv.lenK]; exact hlen
      match hk : st0.keys, this with
      | [k], _ => simp [SSorted]

/-- At the fixpoint the item sets are closed: start item, goto along the recorded transitions,
closure w.r.t. the semantic FIRST. -/
theorem closed_of_between (ht : TermsBelow G nT) {st : CState} (hb : Between G st [])
    (hp : st.pending = []) : Closed G (skelOf st) where
  start := by
    obtain ⟨I0, hI0, hmem⟩ := hb.inv.start
    rw [items_skelOf, hI0]
    exact hmem
  step := by
    intro s it pr X hit hpr hX
    rw [items_skelOf] at hit
    cases hs : st.states[s]? with
    | none => simp [hs] at hit
    | some Is =>
      simp only [hs, Option.getD_some] at hit
      have hlt : s < st.states.length := (List.getElem?_eq_some_iff.mp hs).1
      have had : afterDot G it = some X := afterDot_eq.mpr ⟨pr, hpr, hX⟩
      rcases hb.wl s hlt with hd | ⟨k, _, hq⟩
      · obtain ⟨I1, j, J, hI1, hl, hJ, hadv⟩ := hd Is X hs ⟨it, hit, had⟩
        rw [hs] at hI1
        cases hI1
        refine ⟨j, by rw [trans_skelOf]; exact hl, ?_⟩
        rw [items_skelOf, hJ]
        exact hadv _ (mem_advance.mpr ⟨it, hit, had, rfl⟩)
      · rw [hp] at hq
        rcases hq with hq | hq <;> cases hq
  closure := by
    intro s it pr B q qr b hit hpr hX hq hl hf
    rw [items_skelOf] at hit ⊢
    cases hs : st.states[s]? with
    | none => simp [hs] at hit
    | some Is =>
      simp only [hs, Option.getD_some] at hit ⊢
      exact hb.inv.closed s Is hs it hit ⟨q, 0, b⟩
        ⟨pr, B, qr, hpr, hX, hq, hl, rfl, (sfirst_iff_first ht _ _ _).mpr hf⟩

/-- Distinct states have distinct LR(0) item sets. -/
theorem kernelsDistinct_of_inv {st : CState} (hinv : Inv G st) :
    KernelsDistinct (skelOf st) st.states.length := by
  intro s s' hs hs' hsame
  obtain ⟨I1, hI1⟩ : ∃ I1, st.states[s]? = some I1 := ⟨_, List.getElem?_eq_some_iff.mpr ⟨hs, rfl⟩⟩
  obtain ⟨I2, hI2⟩ : ∃ I2, st.states[s']? = some I2 :=
    ⟨_, List.getElem?_eq_some_iff.mpr ⟨hs', rfl⟩⟩
  simp only [items_skelOf, hI1, hI2, Option.getD_some] at hsame
  have hk : lr0Key I1 = lr0Key I2 := by
    apply lr0Key_eq_of_KJ
    intro pd
    constructor
    · rintro ⟨⟨p, d, a⟩, hy, hker, he⟩
      obtain ⟨a', ha'⟩ := (hsame p d).mp ⟨a, hy⟩
      exact ⟨⟨p, d, a'⟩, ha', hker, he⟩
    · rintro ⟨⟨p, d, a⟩, hy, hker, he⟩
      obtain ⟨a', ha'⟩ := (hsame p d).mpr ⟨a, hy⟩
      exact ⟨⟨p, d, a'⟩, ha', hker, he⟩
  have h1 := hinv.key s I1 hI1
  have h2 := hinv.key s' I2 hI2
  rw [hk] at h1
  exact findKey_unique hinv.keysNodup h1 h2

end

end Lox.LR.Cons
