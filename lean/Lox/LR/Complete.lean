import Lox.LR.Abstract
/-! Completeness of the abstract LR machine under `Valid` (helper lemmas for C01/C03). -/
namespace Lox.LR

theorem Der.append {G : Grammar} {α w ts γ wγ tγ} (h1 : Der G α w ts) (h2 : Der G γ wγ tγ) :
    Der G (α ++ γ) (w ++ wγ) (ts ++ tγ) := by
  induction h1 with
  | nil => simpa using h2
  | term _ ih => exact .term ih
  | nonterm hq h1 _ _ ih2 =>
    have := Der.nonterm hq h1 ih2
    simpa [List.append_assoc] using this

theorem Der.length_eq {G : Grammar} {α w ts} (h : Der G α w ts) : ts.length = α.length := by
  induction h with
  | nil => rfl
  | term _ ih => simp [ih]
  | nonterm _ _ _ _ ih2 => simp [ih2]

theorem postList_append (xs ys : List Tree) : postList (xs ++ ys) = postList xs ++ postList ys := by
  induction xs with
  | nil => simp [postList]
  | cons x xs ih => simp [postList, ih, List.append_assoc]

theorem yieldList_append (xs ys : List Tree) :
    yieldList (xs ++ ys) = yieldList xs ++ yieldList ys := by
  induction xs with
  | nil => simp [yieldList]
  | cons x xs ih => simp [yieldList, ih, List.append_assoc]

namespace Abs

theorem Reaches.trans {G A} {a b c : Config} (h1 : Reaches G A a b) (h2 : Reaches G A b c) :
    Reaches G A a c := by
  induction h1 with
  | refl => exact h2
  | step hs _ ih => exact .step hs (ih h2)

theorem la_append (x r : List Nat) : la (x ++ r) = x.headD (la r) := by
  cases x <;> simp [la]

theorem la_cons_tail (r : List Nat) (h : r ≠ []) : r = la r :: r.tail := by
  cases r with
  | nil => exact absurd rfl h
  | cons x xs => simp [la]

@[simp] theorem topState_cons (e : Entry) (st : List Entry) : topState (e :: st) = e.state := rfl

/-- Main completeness lemma: a forest `α` is consumed from any stack whose top state holds an item
with `α` right after the dot; the values pushed are exactly the forest, the reductions logged are
its post-order, and the advanced item is in the new top state. -/
theorem run_forest {G : Grammar} {A : Auto} {first} (hv : Valid G A first) (hf : FirstOK G first)
    {α w ts} (hd : Der G α w ts) :
    ∀ (st : List Entry) (it : Item) (pr : Prod) (γ : List Sym) (wγ : List Nat) (tγ : List Tree)
      (r : List Nat) (lg : List (Nat × List Tree)),
      st ≠ [] → it ∈ A.items (topState st) → G.prods[it.p]? = some pr →
      pr.rhs.drop it.d = α ++ γ → Der G γ wγ tγ → la r = it.a →
      ∃ st', Reaches G A ⟨st, w ++ (wγ ++ r), lg⟩ ⟨st' ++ st, wγ ++ r, lg ++ postList ts⟩ ∧
        (st'.map (·.val)).reverse = ts ∧ st'.length = α.length ∧
        ⟨it.p, it.d + α.length, it.a⟩ ∈ A.items (topState (st' ++ st)) := by
  induction hd with
  | nil =>
    intro st it pr γ wγ tγ r lg _ hit hp hdrop hγ hr
    exact ⟨[], by simpa [postList] using Reaches.refl _, rfl, rfl, by simpa using hit⟩
  | @term a α w ts hα ih =>
    intro st it pr γ wγ tγ r lg hne hit hp hdrop hγ hr
    have hnext : pr.rhs[it.d]? = some (.t a) := by
      have := congrArg List.head? hdrop
      simpa [List.head?_drop] using this
    obtain ⟨s', hact, hit'⟩ := hv.shift _ it pr a hit hp hnext
    have hdrop' : pr.rhs.drop (it.d + 1) = α ++ γ := by
      have := congrArg List.tail hdrop
      simpa [List.tail_drop] using this
    obtain ⟨st', hr', hvals, hlen, hfin⟩ :=
      ih (⟨s', .leaf a⟩ :: st) ⟨it.p, it.d + 1, it.a⟩ pr γ wγ tγ r lg (by simp)
        (by simpa using hit') hp hdrop' hγ hr
    refine ⟨st' ++ [⟨s', .leaf a⟩], ?_, ?_, ?_, ?_⟩
    · refine .step (c' := ⟨⟨s', .leaf a⟩ :: st, w ++ (wγ ++ r), lg⟩) ?_ ?_
      · cases st with
        | nil => exact absurd rfl hne
        | cons e st0 =>
          have hact' : A.action e.state a = some (.shift s') := by simpa using hact
          simp [step, la, hact']
      · simpa [postList, Tree.post] using hr'
    · simp [hvals]
    · simp [hlen]
    · simpa [Nat.add_assoc, Nat.add_comm 1] using hfin
  | @nonterm q qr α w1 w2 ts1 ts2 hq h1 h2 ih1 ih2 =>
    intro st it pr γ wγ tγ r lg hne hit hp hdrop hγ hr
    have hnext : pr.rhs[it.d]? = some (.n qr.lhs) := by
      have := congrArg List.head? hdrop
      simpa [List.head?_drop] using this
    have hdrop' : pr.rhs.drop (it.d + 1) = α ++ γ := by
      have := congrArg List.tail hdrop
      simpa [List.tail_drop] using this
    -- lookahead after the subtree
    have happ := Der.append h2 hγ
    let rest := w2 ++ (wγ ++ r)
    have hla : la rest = (w2 ++ wγ).headD it.a := by
      rw [← hr, ← la_append]; simp [rest, List.append_assoc]
    have hb : la rest ∈ first (pr.rhs.drop (it.d + 1)) it.a := by
      rw [hla, hdrop']; exact hf.complete it.a happ
    have hclo := hv.closure _ it pr qr.lhs q qr _ hit hp hnext hq rfl hb
    obtain ⟨st1, hr1, hvals1, hlen1, hfin1⟩ :=
      ih1 st ⟨q, 0, la rest⟩ qr [] [] [] rest lg hne hclo hq (by simp) .nil rfl
    have hq0 : q ≠ 0 := by
      intro h0
      subst h0
      exact hv.noStart it.p pr qr hp hq (List.mem_of_getElem? hnext)
    have hred := hv.reduce _ _ qr hfin1 hq (by simp) hq0
    obtain ⟨s3, hgo, hit3⟩ := hv.goto _ it pr qr.lhs hit hp hnext
    obtain ⟨st2, hr2, hvals2, hlen2, hfin2⟩ :=
      ih2 (⟨s3, .node q ts1⟩ :: st) ⟨it.p, it.d + 1, it.a⟩ pr γ wγ tγ r
        (lg ++ postList ts1 ++ [(q, ts1)]) (by simp)
        (by simpa using hit3) hp hdrop' hγ hr
    refine ⟨st2 ++ [⟨s3, .node q ts1⟩], ?_, ?_, ?_, ?_⟩
    · have e1 : w1 ++ w2 ++ (wγ ++ r) = w1 ++ ([] ++ rest) := by
        simp [rest, List.append_assoc]
      rw [e1]
      refine Reaches.trans hr1 ?_
      refine .step (c' := ⟨⟨s3, .node q ts1⟩ :: st, rest, lg ++ postList ts1 ++ [(q, ts1)]⟩) ?_ ?_
      · cases st with
        | nil => exact absurd rfl hne
        | cons e st0 =>
          cases hst1 : st1 ++ e :: st0 with
          | nil => simp at hst1
          | cons e1 st10 =>
            have hred' : A.action e1.state (la rest) = some (.reduce q) := by
              simpa [hst1] using hred
            have htake : ((e1 :: st10).take qr.rhs.length) = st1 := by
              rw [← hst1, ← hlen1]; simp
            have hdropst : ((e1 :: st10).drop qr.rhs.length) = e :: st0 := by
              rw [← hst1, ← hlen1]; simp
            have hgo' : A.goto e.state qr.lhs = some s3 := by simpa using hgo
            simp only [List.nil_append, step, hred', hq, htake, hdropst, hgo', hvals1]
      · simpa [rest, postList, Tree.post, List.append_assoc] using hr2
    · simp [hvals2]
    · simp [hlen2]
    · simpa [Nat.add_assoc, Nat.add_comm 1] using hfin2

/-! ### `run` versus `Reaches` -/

theorem run_of_reaches {G A} {c c' : Config} (h : Reaches G A c c') :
    ∀ n r, run G A n c' = r → r ≠ .timeout → ∃ m, run G A m c = r := by
  induction h with
  | refl => intro n r hr _; exact ⟨n, hr⟩
  | step hs _ ih =>
    intro n r hr hne
    obtain ⟨m, hm⟩ := ih n r hr hne
    exact ⟨m + 1, by simp [run, hs, hm]⟩

theorem run_mono {G A} : ∀ (n k : Nat) (c : Config) (r : Res), run G A n c = r → r ≠ .timeout →
    run G A (n + k) c = r := by
  intro n
  induction n with
  | zero => intro k c r h hne; simp [run] at h; exact absurd h.symm hne
  | succ n ih =>
    intro k c r h hne
    have e : n + 1 + k = (n + k) + 1 := by omega
    rw [e]
    simp only [run] at h ⊢
    cases hs : step G A c with
    | cont c' => rw [hs] at h; simpa using ih k c' r h hne
    | acc t => rw [hs] at h; simpa using h
    | fail => rw [hs] at h; simpa using h

/-- The run is deterministic: two non-timeout results agree, whatever the fuel. -/
theorem run_det {G A} {n m : Nat} {c : Config} {r r' : Res} (h : run G A n c = r)
    (h' : run G A m c = r') (hne : r ≠ .timeout) (hne' : r' ≠ .timeout) : r = r' := by
  have a := run_mono n m c r h hne
  have b := run_mono m n c r' h' hne'
  rw [Nat.add_comm] at b
  rw [← a, ← b]

/-- Completeness: every derivation tree of `w` from the start symbol is what the machine returns,
and the reductions it performs are the tree's post-order. -/
theorem complete_run {G : Grammar} {A : Auto} {first} (hv : Valid G A first)
    (hf : FirstOK G first) {w t} (hd : Der G [.n (startSym G)] w [t]) :
    ∃ n, run G A n (init w) = .acc t t.post := by
  obtain ⟨S', hp0⟩ := hv.prod0
  obtain ⟨st', hr, hvals, hlen, hfin⟩ :=
    run_forest hv hf hd [⟨0, .leaf 0⟩] ⟨0, 0, eof⟩ _ [] [] [] [] [] (by simp)
      (by simpa using hv.start) hp0 (by simp) .nil rfl
  -- st' is a single entry holding t
  match st', hlen, hvals with
  | [e], _, hvals =>
    have hval : e.val = t := by simpa using hvals
    have hacc := hv.accept e.state (by simpa using hfin)
    have hstep : step G A ⟨[e] ++ [⟨0, .leaf 0⟩], [] ++ [], [] ++ postList [t]⟩ = .acc t := by
      simp [step, la, hacc, hval]
    have hrun : run G A 1 ⟨[e] ++ [⟨0, .leaf 0⟩], [] ++ [], [] ++ postList [t]⟩ =
        .acc t t.post := by
      simp only [run, hstep]; simp [postList]
    have := run_of_reaches hr 1 _ hrun (by simp)
    simpa [init] using this

end Abs
end Lox.LR
