import Lox.LR.GenModel
import Lox.LR.ConflictCheck
/-! Executable model of the main loop of `ConstructLALR`
(`/repo/internal/parsergen/lr1/construct.go`) on top of the models of `Closure`, `Goto`, `Next`,
`LR0Key` (`Lox/LR/GenModel.lean`).

| Go                                                        | model                         |
|-----------------------------------------------------------|-------------------------------|
| `ParserTable.States`, `stateMap` (key → index)            | `CState.states`, `CState.keys`, `findKey` |
| `ParserTable.transitions[state]` (`TransitionMap`)        | `CState.trans`, `setTrans`, `lookupSym` |
| `pendingSet` (`set.Set[string]`)                          | `CState.pending` (kept sorted) |
| `slices.Sort(pending)` on the key strings                 | `keyLt` (see there)           |
| `Next(g, *from)` (sorted by `TermName()`)                 | `nextOrd` with the name order `ord` as a parameter |
| the body of `for _, sym := range Next(g, *from)`          | `stepSym`                     |
| the body of `for _, fromKey := range pending`             | `procKey`                     |
| one iteration of `for !pendingSet.Empty()`                | `procRound`                   |
| the loop                                                  | `loop` (with fuel), `construct` |

Names are not part of `Lox.LR.Grammar`; the order in which `Next` lists the symbols (by NAME) only
decides in which order states are created, i.e. their numbering. The model takes the list `ord` of
all symbols in name order as a parameter (the harness supplies it in the case line).

Go panics (`Goto`/`Closure` index errors, a `nil` state for a pending key) and exhausted fuel are
the `none` answers. States are item SETS in Go; here duplicate-free lists. Core Lean only. -/
namespace Lox.LR.Cons
open Lox.LR Lox.LR.Gen

/-- The value of `ItemSet.LR0Key()`: the kernel (production, dot) pairs in `SortItems` order (the Go
string is this list written as big-endian `uint32` pairs). -/
abbrev Key := List (Nat × Nat)

/-- `slices.Sort` on the key strings: bytewise lexicographic order of the big-endian encoding =
lexicographic order of the pair lists, a proper prefix first (numbers below 2^32). -/
def keyLt : Key → Key → Bool
  | [], [] => false
  | [], _ :: _ => true
  | _ :: _, [] => false
  | a :: r, b :: r' => pairLt a b || (a == b && keyLt r r')

structure CState where
  /-- `t.States`, in creation order -/
  states : List (List Item)
  /-- the key under which each state was entered into `stateMap` -/
  keys : List Key
  /-- `t.transitions`, one row per state -/
  trans : List (List (Sym × Nat))
  /-- `pendingSet`, strictly increasing w.r.t. `keyLt` -/
  pending : List Key
  deriving Repr, Inhabited

/-- `stateMap[key]`: the index of the state entered under `key`. -/
def findKey (k : Key) : List Key → Option Nat
  | [] => none
  | k' :: r => if k' = k then some 0 else (findKey k r).map (· + 1)

/-- `l[i] = f l[i]` when `i` is in range. -/
def modAt {α : Type} (l : List α) (i : Nat) (f : α → α) : List α :=
  match l[i]? with
  | some x => l.set i (f x)
  | none => l

/-- `TransitionMap.Add(symbol, to)`: `m.transitions[symbol] = to`. -/
def setTrans (row : List (Sym × Nat)) (X : Sym) (j : Nat) : List (Sym × Nat) :=
  (X, j) :: row.filter fun e => e.1 != X

/-- `for _, item := range to.Items() { changed = existingTo.Add(item) || changed }`. -/
def mergeInto (old add : List Item) : List Item × Bool :=
  add.foldl (fun acc x => if x ∈ acc.1 then acc else (acc.1 ++ [x], true)) (old, false)

/-- `Next(g, *from)`: the symbols after a dot, in name order. -/
def nextOrd (G : Grammar) (ord : List Sym) (I : List Item) : List Sym :=
  ord.filter fun X => decide (X ∈ next G I)

/-- The body of `for _, sym := range Next(g, *from)` for the state with index `i`. -/
def stepSym (G : Grammar) (nT : Nat) (i : Nat) (st : CState) (X : Sym) : Option CState :=
  match st.states[i]? with
  | none => none
  | some I =>
    match gotoGo G nT I X with
    | none => none
    | some T =>
      let k := lr0Key T
      match findKey k st.keys with
      | some j =>
        let m := mergeInto (st.states[j]?.getD []) (sortItems T)
        some { states := st.states.set j m.1
               keys := st.keys
               trans := modAt st.trans i fun row => setTrans row X j
               pending := if m.2 then sinsert keyLt k st.pending else st.pending }
      | none =>
        let j := st.states.length
        some { states := st.states ++ [T]
               keys := st.keys ++ [k]
               trans := modAt st.trans i (fun row => setTrans row X j) ++ [[]]
               pending := sinsert keyLt k st.pending }

/-- The body of `for _, fromKey := range pending`: `Next` is taken once, before the inner loop;
the state itself is read afresh for every symbol (`from` is a pointer). -/
def procKey (G : Grammar) (nT : Nat) (ord : List Sym) (st : CState) (k : Key) : Option CState :=
  match findKey k st.keys with
  | none => none
  | some i =>
    match st.states[i]? with
    | none => none
    | some I => (nextOrd G ord I).foldlM (stepSym G nT i) st

/-- One iteration of `for !pendingSet.Empty()`. -/
def procRound (G : Grammar) (nT : Nat) (ord : List Sym) (st : CState) : Option CState :=
  st.pending.foldlM (procKey G nT ord) { st with pending := [] }

def loop (G : Grammar) (nT : Nat) (ord : List Sym) : Nat → CState → Option CState
  | 0, _ => none
  | n + 1, st =>
    if st.pending.isEmpty then some st
    else match procRound G nT ord st with
      | none => none
      | some st' => loop G nT ord n st'

/-- The table after `start = Closure({[S' → ·S, EOF]}); t.AddState(startKey, start)`. -/
def initState (G : Grammar) (nT : Nat) : Option CState :=
  match closureGo G nT [⟨0, 0, 0⟩] with
  | none => none
  | some I => some { states := [I], keys := [lr0Key I], trans := [[]], pending := [lr0Key I] }

def constructWith (G : Grammar) (nT : Nat) (ord : List Sym) (fuel : Nat) : Option CState :=
  match initState G nT with
  | none => none
  | some st => loop G nT ord fuel st

/-- The number of LR(0) cores `(p, d)` with `d ≤ |rhs p|`. -/
def numCores (G : Grammar) : Nat := (G.prods.toList.map fun pr => pr.rhs.length + 1).sum

/-- Enough rounds for every grammar (`Lox.Props.C04.construct_terminates`): every round but the
last adds an item to a state or a state; there are at most `2 ^ numCores` states (distinct kernels)
of at most `numCores * nT` items each. -/
def constructFuel (G : Grammar) (nT : Nat) : Nat := 2 ^ numCores G * (numCores G * nT + 1) + 2

/-- `ConstructLALR` up to (not including) `createActions`. -/
def construct (G : Grammar) (nT : Nat) (ord : List Sym) : Option CState :=
  constructWith G nT ord (constructFuel G nT)

/-- The output as the validator of `ConflictCheck.lean` takes it. -/
def CState.cert (st : CState) : Array (List Item) := st.states.toArray
def CState.transTab (st : CState) : TransTab := st.trans.toArray

end Lox.LR.Cons
