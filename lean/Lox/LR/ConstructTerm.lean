import Lox.LR.ConstructLoop
import Lox.Props.C01_gen
/-! Termination of the model of `ConstructLALR`: no step panics on well-formed tables (`Wf`), the
measure `mu` (number of (state, item) pairs + number of states) increases in every round that
leaves `pendingSet` non-empty, and it is bounded by `2 ^ numCores * (numCores * nT + 1)` (distinct
sorted kernels; duplicate-free item lists over a finite universe). Hence `constructFuel`
suffices: `construct_isSome`. -/
namespace Lox.LR.Cons
open Lox.LR Lox.LR.Gen

/-! ### Well-formed items, no panics -/

/-- An item the Go code can index with: production in range, dot within the right-hand side,
lookahead a terminal. -/
def WfItem (G : Grammar) (nT : Nat) (x : Item) : Prop :=
  ∃ pr, G.prods[x.p]? = some pr ∧ x.d ≤ pr.rhs.length ∧ x.a < nT

structure Wf (G : Grammar) (nT : Nat) (st : CState) : Prop where
  items : ∀ (i : Nat) (I : List Item), st.states[i]? = some I → I.Nodup ∧ ∀ x ∈ I, WfItem G nT x
  pend : ∀ k ∈ st.pending, k ∈ st.keys

section
variable {G : Grammar} {nT : Nat}

theorem wf_advance {I : List Item} (hI : ∀ x ∈ I, WfItem G nT x) (X : Sym) :
    ∀ x ∈ advance G I X, WfItem G nT x := by
  intro x hx
  obtain ⟨it, hit, had, rfl⟩ := mem_advance.mp hx
  obtain ⟨pr, hp, hX⟩ := afterDot_eq.mp had
  obtain ⟨pr', hp', _, ha⟩ := hI it hit
  rw [hp] at hp'; cases hp'
  have : it.d < pr.rhs.length := by
    rcases List.getElem?_eq_some_iff.mp hX with ⟨hlt, _⟩; exact hlt
  exact ⟨pr, hp, by simp only; omega, ha⟩

theorem wf_closureOf (ht : TermsBelow G nT) {K : List Item} (hK : ∀ x ∈ K, WfItem G nT x)
    {x : Item} (hx : ClosureOf G K x) : WfItem G nT x := by
  induction hx with
  | base hi => exact hK _ hi
  | @step it new _ hr ih =>
    obtain ⟨_, _, _, ha⟩ := ih
    have hnew : new ∈ expand G (firstSets G nT) it := (mem_expand (exactTab_firstSets ht)).mpr hr
    have hm := mem_newItems.mp (expand_in_newItems ht (firstSets_wf ht) ha hnew)
    obtain ⟨hp, hd, hla⟩ := hm
    obtain ⟨qr, hq⟩ : ∃ qr, G.prods[new.p]? = some qr :=
      ⟨_, Array.getElem?_eq_getElem hp⟩
    exact ⟨qr, hq, by omega, hla⟩

theorem gotoGo_isSome (ht : TermsBelow G nT) {I : List Item} (hI : ∀ x ∈ I, WfItem G nT x)
    (X : Sym) : ∃ T, gotoGo G nT I X = some T := by
  unfold gotoGo
  have h1 : I.any (gotoItemPanics G) = false := by
    rw [List.any_eq_false]
    intro x hx
    obtain ⟨pr, hp, hd, _⟩ := hI x hx
    simp only [gotoItemPanics, hp, decide_eq_true_eq]
    omega
  rw [h1]
  simp only [Bool.false_eq_true, if_false]
  unfold closureGo
  have hadv := wf_advance hI X
  have h2 : (advance G I X).any (itemPanics G nT) = false := by
    rw [List.any_eq_false]
    intro x hx
    obtain ⟨pr, hp, hd, ha⟩ := hadv x hx
    simp only [itemPanics, hp]
    split
    · simp
    · next hne =>
      have hlt : x.d < pr.rhs.length := by omega
      have : pr.rhs[x.d]? = some pr.rhs[x.d] := List.getElem?_eq_getElem hlt
      rw [this]
      cases pr.rhs[x.d] with
      | t a => simp
      | n B => simp only [decide_eq_true_eq]; omega
  rw [h2]
  simp only [Bool.false_eq_true, if_false]
  exact Lox.Props.C01.closure_terminates ht (fun it hit => by obtain ⟨_, _, _, ha⟩ := hadv it hit; exact ha)

theorem closureGo_isSome (ht : TermsBelow G nT) {I : List Item} (hI : ∀ x ∈ I, WfItem G nT x)
    (hnp : ∀ x ∈ I, itemPanics G nT x = false) : ∃ T, closureGo G nT I = some T := by
  unfold closureGo
  have : I.any (itemPanics G nT) = false := by
    rw [List.any_eq_false]
    intro x hx
    simp [hnp x hx]
  rw [this]
  simp only [Bool.false_eq_true, if_false]
  exact Lox.Props.C01.closure_terminates ht (fun it hit => by obtain ⟨_, _, _, ha⟩ := hI it hit; exact ha)

variable {st st' : CState} {i : Nat} {X : Sym} {I T : List Item} {j : Nat}

theorem StepSpec.keysMem (hs : StepSpec G st st' i X I T j) {k : Key} (h : k ∈ st.keys) :
    k ∈ st'.keys := by
  obtain ⟨n, hn⟩ := List.mem_iff_getElem?.mp h
  exact List.mem_of_getElem? (hs.keysPrefix n k hn)

theorem StepSpec.wf (ht : TermsBelow G nT) (hw : Wf G nT st) (hs : StepSpec G st st' i X I T j) :
    Wf G nT st' := by
  have hIw := (hw.items i I hs.hI).2
  have hTw : ∀ x ∈ T, WfItem G nT x :=
    fun x hx => wf_closureOf ht (wf_advance hIw X) ((hs.spec.mem x).mp hx)
  constructor
  · intro i' I'' h
    rcases hs.statesInv i' I'' h with ⟨_, hold⟩ | ⟨rfl, hmem⟩
    · exact hw.items i' I'' hold
    · obtain ⟨M, hM, hnd, _, _⟩ := hs.atJ
      rw [h] at hM
      cases hM
      rcases hs.oldJ with ⟨_, J, hJ, hJe⟩ | ⟨_, hnil⟩
      · rw [hJe] at hnd hmem
        obtain ⟨hJn, hJw⟩ := hw.items i' J hJ
        refine ⟨hnd.resolve_right (fun h => h hJn), fun x hx => ?_⟩
        rcases (hmem x).mp hx with hx | hx
        · exact hJw x hx
        · exact hTw x hx
      · rw [hnil] at hnd hmem
        refine ⟨hnd.resolve_right (fun h => h (by simp)), fun x hx => ?_⟩
        rcases (hmem x).mp hx with hx | hx
        · cases hx
        · exact hTw x hx
  · intro k hk
    rcases hs.pendOnly k hk with h | rfl
    · exact hs.keysMem (hw.pend k h)
    · exact List.mem_of_getElem? hs.keyJ

theorem stepSym_isSome (ht : TermsBelow G nT) (hw : Wf G nT st) (hI : st.states[i]? = some I)
    (X : Sym) : ∃ st', stepSym G nT i st X = some st' := by
  obtain ⟨T, hT⟩ := gotoGo_isSome ht (hw.items i I hI).2 X
  unfold stepSym
  simp only [hI, hT]
  cases findKey (lr0Key T) st.keys <;> exact ⟨_, rfl⟩

end

/-! ### Counting sorted sublists -/

section
variable {α : Type} {lt : α → α → Bool}

theorem sublist_of_sorted (ho : StrictOrder lt) : ∀ (u l : List α), SSorted lt l → SSorted lt u →
    (∀ x ∈ l, x ∈ u) → l.Sublist u
  | [], l, _, _, hm => by
    cases l with
    | nil => exact .slnil
    | cons a r => exact absurd (hm a (by simp)) (by simp)
  | b :: u', l, hl, hu, hm => by
    cases l with
    | nil => exact List.nil_sublist _
    | cons a l' =>
      have hl' := List.pairwise_cons.mp hl
      have hu' := List.pairwise_cons.mp hu
      by_cases hab : a = b
      · subst hab
        refine .cons_cons _ (sublist_of_sorted ho u' l' hl'.2 hu'.2 fun x hx => ?_)
        rcases List.mem_cons.mp (hm x (List.mem_cons_of_mem _ hx)) with rfl | h
        · have := hl'.1 x hx
          rw [ho.irrefl] at this
          cases this
        · exact h
      · have hau : a ∈ u' := by
          rcases List.mem_cons.mp (hm a (by simp)) with h | h
          · exact absurd h hab
          · exact h
        have hba : lt b a = true := hu'.1 a hau
        refine .cons _ (sublist_of_sorted ho u' (a :: l') hl hu'.2 fun x hx => ?_)
        rcases List.mem_cons.mp hx with rfl | hx'
        · exact hau
        · rcases List.mem_cons.mp (hm x hx) with rfl | h
          · have h1 := hl'.1 x hx'
            have := ho.trans _ _ _ h1 hba
            rw [ho.irrefl] at this
            cases this
          · exact h

theorem length_le_one_of_all_eq {β : Type} {L : List β} {c : β} (hn : L.Nodup)
    (h : ∀ l ∈ L, l = c) : L.length ≤ 1 := by
  match L, hn, h with
  | [], _, _ => simp
  | [_], _, _ => simp
  | a :: b :: r, hn, h =>
    have ha := h a (by simp)
    have hb := h b (by simp)
    subst ha hb
    simp at hn

theorem length_filter_add {β : Type} (p : β → Bool) (L : List β) :
    (L.filter p).length + (L.filter fun x => !p x).length = L.length := by
  induction L with
  | nil => rfl
  | cons a r ih =>
    simp only [List.filter_cons]
    cases p a <;> simp <;> omega

/-- A duplicate-free list of sublists of `u` has at most `2 ^ |u|` elements. -/
theorem count_sublists [DecidableEq α] : ∀ (u : List α) (L : List (List α)), L.Nodup →
    (∀ l ∈ L, l.Sublist u) → L.length ≤ 2 ^ u.length
  | [], L, hn, h => by
    have := length_le_one_of_all_eq hn (c := []) (fun l hl => List.sublist_nil.mp (h l hl))
    simpa using this
  | b :: u', L, hn, h => by
    let p : List α → Bool := fun l => decide (l.head? = some b)
    have hsplit := length_filter_add p L
    -- the lists that do not start with `b` are sublists of `u'`
    have h2 : (L.filter fun x => !p x).length ≤ 2 ^ u'.length := by
      apply count_sublists u' _ (hn.filter _)
      intro l hl
      obtain ⟨hlL, hp⟩ := List.mem_filter.mp hl
      have hsub := h l hlL
      cases hsub with
      | cons _ hs => exact hs
      | cons_cons _ hs => simp [p] at hp
    -- those that start with `b`: their tails are distinct sublists of `u'`
    have h1 : (L.filter p).length ≤ 2 ^ u'.length := by
      have hlen : ((L.filter p).map List.tail).length = (L.filter p).length := by simp
      rw [← hlen]
      apply count_sublists u'
      · rw [List.Nodup, List.pairwise_map]
        refine List.Pairwise.imp_of_mem ?_ (hn.filter p)
        intro x y hx hy hne
        have hpx := (List.mem_filter.mp hx).2
        have hpy := (List.mem_filter.mp hy).2
        simp only [p, decide_eq_true_eq] at hpx hpy
        intro ht
        apply hne
        cases x with
        | nil => simp at hpx
        | cons x0 xr =>
          cases y with
          | nil => simp at hpy
          | cons y0 yr =>
            simp only [List.head?_cons, Option.some.injEq] at hpx hpy
            simp only [List.tail_cons] at ht
            rw [hpx, hpy, ht]
      · intro t ht
        obtain ⟨l, hl, rfl⟩ := List.mem_map.mp ht
        obtain ⟨hlL, hp⟩ := List.mem_filter.mp hl
        simp only [p, decide_eq_true_eq] at hp
        cases l with
        | nil => simp at hp
        | cons l0 lr =>
          simp only [List.head?_cons, Option.some.injEq] at hp
          subst hp
          have hsub := h _ hlL
          cases hsub with
          | cons _ hs => exact (List.sublist_cons_self _ _).trans hs
          | cons_cons _ hs => exact hs
    simp only [List.length_cons, Nat.pow_succ]
    omega

end

/-! ### The universes of cores and items -/

/-- The cores `(p, d)`, `d ≤ |rhs p|`, of the productions `l` numbered from `p0`, in `pairLt`
order. -/
def coresFrom : Nat → List Prod → List (Nat × Nat)
  | _, [] => []
  | p0, pr :: r => (List.range (pr.rhs.length + 1)).map (fun d => (p0, d)) ++ coresFrom (p0 + 1) r

theorem length_coresFrom (p0 : Nat) (l : List Prod) :
    (coresFrom p0 l).length = (l.map fun pr => pr.rhs.length + 1).sum := by
  induction l generalizing p0 with
  | nil => rfl
  | cons pr r ih => simp [coresFrom, ih]

theorem mem_coresFrom {p0 : Nat} {l : List Prod} {pd : Nat × Nat} :
    pd ∈ coresFrom p0 l ↔ p0 ≤ pd.1 ∧ ∃ pr, l[pd.1 - p0]? = some pr ∧ pd.2 ≤ pr.rhs.length := by
  induction l generalizing p0 with
  | nil => simp [coresFrom]
  | cons pr r ih =>
    simp only [coresFrom, List.mem_append, List.mem_map, List.mem_range, ih]
    constructor
    · rintro (⟨d, hd, rfl⟩ | ⟨hle, pr', hpr', hd⟩)
      · exact ⟨Nat.le_refl _, pr, by simp, by simp only; omega⟩
      · refine ⟨by omega, pr', ?_, hd⟩
        have : pd.1 - p0 = (pd.1 - (p0 + 1)) + 1 := by omega
        rw [this]
        simpa using hpr'
    · rintro ⟨hle, pr', hpr', hd⟩
      by_cases he : pd.1 = p0
      · left
        have : pd.1 - p0 = 0 := by omega
        rw [this] at hpr'
        simp only [List.getElem?_cons_zero, Option.some.injEq] at hpr'
        subst hpr'
        exact ⟨pd.2, by omega, by rw [← he]⟩
      · right
        refine ⟨by omega, pr', ?_, hd⟩
        have : pd.1 - p0 = (pd.1 - (p0 + 1)) + 1 := by omega
        rw [this] at hpr'
        simpa using hpr'

theorem sorted_coresFrom (p0 : Nat) (l : List Prod) : SSorted pairLt (coresFrom p0 l) := by
  induction l generalizing p0 with
  | nil => simp [coresFrom, SSorted]
  | cons pr r ih =>
    simp only [coresFrom, SSorted]
    rw [List.pairwise_append]
    refine ⟨?_, ih (p0 + 1), ?_⟩
    · rw [List.pairwise_map]
      refine List.Pairwise.imp ?_ (List.pairwise_lt_range)
      intro a b hab
      simp [pairLt, hab]
    · intro x hx y hy
      obtain ⟨d, _, rfl⟩ := List.mem_map.mp hx
      have := (mem_coresFrom.mp hy).1
      simp only [pairLt, Bool.or_eq_true, decide_eq_true_eq]
      left; omega

/-- All cores of the grammar. -/
def allCores (G : Grammar) : List (Nat × Nat) := coresFrom 0 G.prods.toList

theorem length_allCores (G : Grammar) : (allCores G).length = numCores G :=
  length_coresFrom 0 _

theorem mem_allCores {G : Grammar} {pd : Nat × Nat} :
    pd ∈ allCores G ↔ ∃ pr, G.prods[pd.1]? = some pr ∧ pd.2 ≤ pr.rhs.length := by
  unfold allCores
  rw [mem_coresFrom]
  simp

/-- All well-formed items. -/
def allItems (G : Grammar) (nT : Nat) : List Item :=
  (allCores G).flatMap fun pd => (List.range nT).map fun a => ⟨pd.1, pd.2, a⟩

theorem length_allItems (G : Grammar) (nT : Nat) : (allItems G nT).length = numCores G * nT := by
  unfold allItems
  rw [← length_allCores]
  induction allCores G with
  | nil => simp
  | cons c r ih => simp [List.flatMap_cons, ih, Nat.succ_mul, Nat.add_comm]

theorem mem_allItems {G : Grammar} {nT : Nat} {x : Item} : x ∈ allItems G nT ↔ WfItem G nT x := by
  unfold allItems WfItem
  simp only [List.mem_flatMap, List.mem_map, List.mem_range]
  constructor
  · rintro ⟨pd, hpd, a, ha, rfl⟩
    obtain ⟨pr, hp, hd⟩ := mem_allCores.mp hpd
    exact ⟨pr, hp, hd, ha⟩
  · rintro ⟨pr, hp, hd, ha⟩
    exact ⟨(x.p, x.d), mem_allCores.mpr ⟨pr, hp, hd⟩, x.a, ha, rfl⟩

/-! ### The bound on the measure -/

section
variable {G : Grammar} {nT : Nat} {st : CState}

theorem Wf.state_le (hw : Wf G nT st) {i : Nat} {I : List Item} (h : st.states[i]? = some I) :
    I.length ≤ numCores G * nT := by
  obtain ⟨hn, hwf⟩ := hw.items i I h
  have := List.Nodup.length_le_of_subset hn (l₂ := allItems G nT)
    (fun x hx => mem_allItems.mpr (hwf x hx))
  rwa [length_allItems] at this

theorem states_le (hinv : Inv G st) (hw : Wf G nT st) : st.states.length ≤ 2 ^ numCores G := by
  rw [← hinv.lenK, ← length_allCores]
  apply count_sublists _ _ hinv.keysNodup
  intro k hk
  obtain ⟨n, hn⟩ := List.mem_iff_getElem?.mp hk
  have hlt : n < st.states.length := by
    rw [← hinv.lenK]; exact (List.getElem?_eq_some_iff.mp hn).1
  obtain ⟨I, hI⟩ : ∃ I, st.states[n]? = some I := ⟨_, List.getElem?_eq_some_iff.mpr ⟨hlt, rfl⟩⟩
  have hkI := hinv.key n I hI
  rw [hn] at hkI
  cases hkI
  apply sublist_of_sorted pairLt_order _ _ (sorted_lr0Key I) (sorted_coresFrom 0 _)
  intro pd hpd
  obtain ⟨it, hit, _, rfl⟩ := mem_lr0Key.mp hpd
  obtain ⟨pr, hp, hd, _⟩ := (hw.items n I hI).2 it hit
  exact mem_allCores.mpr ⟨pr, hp, hd⟩

theorem mu_le (hinv : Inv G st) (hw : Wf G nT st) :
    mu st ≤ 2 ^ numCores G * (numCores G * nT + 1) := by
  have h1 := sum_map_le (fun I : List Item => I.length + 1) (numCores G * nT + 1) st.states (by
    intro I hI
    obtain ⟨n, hn⟩ := List.mem_iff_getElem?.mp hI
    have := hw.state_le hn
    omega)
  have h2 := states_le hinv hw
  calc mu st ≤ st.states.length * (numCores G * nT + 1) := h1
    _ ≤ 2 ^ numCores G * (numCores G * nT + 1) := Nat.mul_le_mul_right _ h2

end

/-! ### The loop does not run out of fuel -/

section
variable {G : Grammar} {nT : Nat} {ord : List Sym}

/-- Invariant of the rounds for termination. -/
structure TInv (G : Grammar) (nT : Nat) (st : CState) : Prop where
  inv : Inv G st
  wf : Wf G nT st

theorem foldlM_isSome {σ α : Type} (f : σ → α → Option σ) (P : σ → Prop)
    (hf : ∀ s a, P s → ∃ s', f s a = some s' ∧ P s') :
    ∀ (l : List α) (s : σ), P s → ∃ s', l.foldlM f s = some s' ∧ P s'
  | [], s, hp => ⟨s, rfl, hp⟩
  | a :: l, s, hp => by
    obtain ⟨s1, h1, hp1⟩ := hf s a hp
    obtain ⟨s2, h2, hp2⟩ := foldlM_isSome f P hf l s1 hp1
    exact ⟨s2, by simp [List.foldlM_cons, h1, h2], hp2⟩

/-- The invariant of a round w.r.t. the measure at its start. -/
structure RInv (G : Grammar) (nT : Nat) (m0 : Nat) (st : CState) : Prop where
  t : TInv G nT st
  le : m0 ≤ mu st
  lt : st.pending = [] ∨ m0 < mu st

theorem RInv.stepSym (ht : TermsBelow G nT) {m0 : Nat} {st : CState} {i : Nat} {I : List Item}
    (hr : RInv G nT m0 st) (hI : st.states[i]? = some I) (X : Sym) :
    ∃ st', stepSym G nT i st X = some st' ∧ RInv G nT m0 st' ∧ ∃ I', st'.states[i]? = some I' := by
  obtain ⟨st', hst'⟩ := stepSym_isSome ht hr.t.wf hI X
  obtain ⟨I1, T, j, hs⟩ := stepSym_spec ht hr.t.inv hst'
  obtain ⟨I', hI', _, _⟩ := hs.statesRel ht hr.t.inv i I hI
  refine ⟨st', hst', ⟨⟨hs.inv ht hr.t.inv, hs.wf ht hr.t.wf⟩, Nat.le_trans hr.le hs.muStep.1, ?_⟩,
    I', hI'⟩
  rcases hs.muStep.2 with he | hlt
  · rcases hr.lt with h | h
    · exact .inl (by rw [he]; exact h)
    · exact .inr (Nat.lt_of_lt_of_le h hs.muStep.1)
  · exact .inr (Nat.lt_of_le_of_lt hr.le hlt)

theorem RInv.procKey (ht : TermsBelow G nT) {m0 : Nat} {st : CState} {k : Key}
    (hr : RInv G nT m0 st) (hk : k ∈ st.keys) :
    ∃ st', procKey G nT ord st k = some st' ∧ RInv G nT m0 st' := by
  obtain ⟨i, hi⟩ := findKey_isSome_of_mem hk
  have hilt : i < st.states.length := by
    rw [← hr.t.inv.lenK]; exact (List.getElem?_eq_some_iff.mp (findKey_some hi)).1
  obtain ⟨I, hI⟩ : ∃ I, st.states[i]? = some I := ⟨_, List.getElem?_eq_some_iff.mpr ⟨hilt, rfl⟩⟩
  unfold Cons.procKey
  simp only [hi, hI]
  obtain ⟨st', h, hp, _⟩ := foldlM_isSome (Cons.stepSym G nT i)
    (fun s => RInv G nT m0 s ∧ ∃ I', s.states[i]? = some I')
    (fun s X ⟨hs, I', hI'⟩ => hs.stepSym ht hI' X) (nextOrd G ord I) st ⟨hr, I, hI⟩
  exact ⟨st', h, hp⟩

/-- Keys are never removed. -/
theorem stepSym_keys (ht : TermsBelow G nT) {st st' : CState} {i : Nat} {X : Sym}
    (hinv : Inv G st) (h : stepSym G nT i st X = some st') : ∀ k ∈ st.keys, k ∈ st'.keys := by
  obtain ⟨I, T, j, hs⟩ := stepSym_spec ht hinv h
  exact fun k hk => hs.keysMem hk

theorem RInv.procRound (ht : TermsBelow G nT) {st : CState} (ht0 : TInv G nT st) :
    ∃ st', procRound G nT ord st = some st' ∧ TInv G nT st' ∧ mu st ≤ mu st' ∧
      (st'.pending = [] ∨ mu st < mu st') := by
  unfold Cons.procRound
  have hstart : RInv G nT (mu st) { st with pending := [] } :=
    ⟨⟨⟨ht0.inv.lenK, ht0.inv.lenT, ht0.inv.key, ht0.inv.keysNodup, ht0.inv.closed, ht0.inv.tgt,
      ht0.inv.start, ht0.inv.sound⟩, ⟨ht0.wf.items, by simp⟩⟩, Nat.le_refl _, .inl rfl⟩
  -- every key of the round stays a key
  suffices h : ∀ (l : List Key) (s : CState), RInv G nT (mu st) s → (∀ k ∈ l, k ∈ s.keys) →
      ∃ s', l.foldlM (Cons.procKey G nT ord) s = some s' ∧ RInv G nT (mu st) s' by
    obtain ⟨s', h1, h2⟩ := h st.pending _ hstart ht0.wf.pend
    exact ⟨s', h1, h2.t, h2.le, h2.lt⟩
  intro l
  induction l with
  | nil => intro s hs _; exact ⟨s, rfl, hs⟩
  | cons k r ih =>
    intro s hs hk
    obtain ⟨s1, h1, hs1⟩ := hs.procKey (ord := ord) ht (hk k (by simp))
    have hkeys : ∀ k' ∈ s.keys, k' ∈ s1.keys := by
      -- `procKey` is a fold of steps, each of which keeps the keys
      unfold Cons.procKey at h1
      cases hf : findKey k s.keys with
      | none => simp [hf] at h1
      | some i =>
        simp only [hf] at h1
        cases hI : s.states[i]? with
        | none => simp [hI] at h1
        | some I =>
          simp only [hI] at h1
          have := foldlM_inv (Cons.stepSym G nT i)
            (fun _ s' => Inv G s' ∧ ∀ k' ∈ s.keys, k' ∈ s'.keys)
            (fun a _ s' s'' ⟨hi, hk⟩ hstep =>
              ⟨hi.step ht hstep, fun k' hk' => stepSym_keys ht hi hstep k' (hk k' hk')⟩)
            _ _ _ ⟨hs.t.inv, fun _ h => h⟩ h1
          exact this.2
    obtain ⟨s2, h2, hs2⟩ := ih s1 hs1 (fun k' hk' => hkeys k' (hk k' (List.mem_cons_of_mem _ hk')))
    exact ⟨s2, by simp [List.foldlM_cons, h1, h2], hs2⟩

theorem loop_isSome (ht : TermsBelow G nT) :
    ∀ (n : Nat) (st : CState), TInv G nT st →
      2 ^ numCores G * (numCores G * nT + 1) + 2 ≤ mu st + n →
      ∃ st', loop G nT ord n st = some st'
  | 0, st, ht0, hn => by
    have := mu_le ht0.inv ht0.wf
    omega
  | n + 1, st, ht0, hn => by
    simp only [Cons.loop]
    split
    · exact ⟨st, rfl⟩
    · obtain ⟨st1, h1, ht1, hle, hlt⟩ := RInv.procRound (ord := ord) ht ht0
      simp only [h1]
      rcases hlt with he | hlt
      · -- nothing is pending: the next iteration returns
        have := mu_le ht0.inv ht0.wf
        cases n with
        | zero => omega
        | succ m =>
          refine ⟨st1, ?_⟩
          simp [Cons.loop, he]
      · exact loop_isSome ht n st1 ht1 (by omega)

/-- **The fuel of `construct` suffices**, for every grammar with a production 0 and at least the
terminal EOF, and every name order. -/
theorem construct_isSome (ht : TermsBelow G nT) (hp0 : ∃ pr, G.prods[0]? = some pr) (hnT : 0 < nT) :
    ∃ st, construct G nT ord = some st := by
  unfold construct constructWith
  obtain ⟨pr0, hpr0⟩ := hp0
  have hwf0 : ∀ x ∈ [(⟨0, 0, 0⟩ : Item)], WfItem G nT x := by
    intro x hx
    simp only [List.mem_singleton] at hx
    subst hx
    exact ⟨pr0, hpr0, Nat.zero_le _, hnT⟩
  have hnp : ∀ x ∈ [(⟨0, 0, 0⟩ : Item)], itemPanics G nT x = false := by
    intro x hx
    simp only [List.mem_singleton] at hx
    subst hx
    simp only [itemPanics, hpr0]
    split
    · rfl
    · next hne =>
      have hlt : 0 < pr0.rhs.length := by omega
      have : pr0.rhs[0]? = some pr0.rhs[0] := List.getElem?_eq_getElem hlt
      rw [this]
      cases pr0.rhs[0] with
      | t a => rfl
      | n B => simp only [decide_eq_false_iff_not]; omega
  obtain ⟨I0, hI0⟩ := closureGo_isSome ht hwf0 hnp
  have hinit : initState G nT = some
      { states := [I0], keys := [lr0Key I0], trans := [[]], pending := [lr0Key I0] } := by
    simp [initState, hI0]
  rw [hinit]
  obtain ⟨hinv, _, _⟩ := initState_inv ht hinit
  have hcl := closureGo_some hI0
  have spec := closureLoop_spec (exactTab_firstSets ht) _
    (loopInv_init G (firstSets G nT) [⟨0, 0, 0⟩]) hcl
  have hw : Wf G nT { states := [I0], keys := [lr0Key I0], trans := [[]], pending := [lr0Key I0] } := by
    constructor
    · intro i I hi
      cases i with
      | zero =>
        simp only [List.getElem?_cons_zero, Option.some.injEq] at hi
        subst hi
        exact ⟨closure_nodup hcl, fun x hx => wf_closureOf ht hwf0 ((spec x).mp hx)⟩
      | succ n => simp at hi
    · intro k hk; exact hk
  exact loop_isSome ht _ _ ⟨hinv, hw⟩ (by unfold constructFuel; omega)

end

end Lox.LR.Cons
