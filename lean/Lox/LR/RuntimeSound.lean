import Lox.LR.Refine
import Lox.LR.RuntimeProofsCover
/-! Soundness of the CONCRETE `parse` for runs WITH error recovery, on validated tables
(`SafeOK` = what `checkSafe`/`check` establish): the LR stack invariant (`CInv`: the stack states
follow automaton edges from state 0 and every entry's value derives its symbol) is preserved by
shift, reduce and by `_recover` (which only cuts the stack back to a suffix and makes ERROR, an
ordinary terminal of `G`, the lookahead). Consequence: when `parse` accepts, the consumed symbols
(leaves of the result, `Error`s read as terminal 1) derive from the start symbol. -/
namespace Lox.LR.Rt
open Lox.LR.Abs (StackInv)

/-- The terminal a leaf stands for: the token type, or 1 (ERROR) for an `Error`. -/
def leafNat (v : Val) : Nat := (leafTy v).toNat

/-- The terminal word at the leaves of a value (`Error`s read as terminal 1). -/
def wordOf (v : Val) : List Nat := (leaves v).map leafNat

/-- Concrete LR stack invariant (top first; `syms` = ghost accessing symbols, top first). -/
inductive CInv (G : Grammar) (A : Auto) : List Entry → List Sym → Prop where
  | base {e : Entry} : e.state = 0 → e.sym = .nil → CInv G A [e] []
  | push {e : Entry} {st : List Entry} {syms : List Sym} {X : Sym} {s' : Int} {v : Val} {b : Bounds} :
      CInv G A (e :: st) syms → 0 ≤ s' → trans A e.state.toNat X = some s'.toNat →
      Der G [X] (wordOf v) [v.toTree] →
      CInv G A ({ state := s', sym := v, bounds := b } :: e :: st) (X :: syms)

/-- The abstract image of a concrete stack. -/
def absStack (st : List Entry) : List Abs.Entry := st.map fun e => ⟨e.state.toNat, e.sym.toTree⟩

section
variable {G : Grammar} {A : Auto}

theorem CInv.toStackInv {st : List Entry} {syms : List Sym} (h : CInv G A st syms) :
    ∃ w, StackInv G A (absStack st) syms w := by
  induction h with
  | @base e h0 _ =>
    refine ⟨[], ?_⟩
    have : absStack [e] = [⟨0, e.sym.toTree⟩] := by simp [absStack, h0]
    rw [this]; exact .base _
  | push _ _ htr hder ih =>
    obtain ⟨w, hw⟩ := ih
    exact ⟨_, .push hw htr hder⟩

theorem CInv.ne_nil {st : List Entry} {syms : List Sym} (h : CInv G A st syms) : st ≠ [] := by
  cases h <;> simp

theorem CInv.len {st : List Entry} {syms : List Sym} (h : CInv G A st syms) :
    st.length = syms.length + 1 := by
  induction h with
  | base => rfl
  | push _ _ _ _ ih => simp [ih]

theorem CInv.nonneg {st : List Entry} {syms : List Sym} (h : CInv G A st syms) :
    ∀ e ∈ st, 0 ≤ e.state := by
  induction h with
  | @base e h0 _ => intro x hx; rw [List.mem_singleton.mp hx, h0]; exact Int.le_refl 0
  | push _ h0 _ _ ih =>
    intro x hx
    rcases List.mem_cons.mp hx with rfl | hx
    · exact h0
    · exact ih x hx

/-- The bottom entry is `parse`'s initial `_item{}`. -/
theorem CInv.bottom {st : List Entry} {syms : List Sym} (h : CInv G A st syms) :
    ∃ e, st.getLast? = some e ∧ e.state = 0 ∧ e.sym = .nil := by
  induction h with
  | @base e h0 h1 => exact ⟨e, rfl, h0, h1⟩
  | push _ _ _ _ ih =>
    obtain ⟨e, he, h0, h1⟩ := ih
    exact ⟨e, by rw [List.getLast?_cons_cons]; exact he, h0, h1⟩

/-- Split the top `k` entries off: what remains satisfies the invariant, what is cut off derives
the reversed top `k` symbols with the leaves of its values as the word. -/
theorem CInv.split : ∀ (k : Nat) {st : List Entry} {syms : List Sym}, CInv G A st syms →
    k ≤ syms.length →
    CInv G A (st.drop k) (syms.drop k) ∧
    Der G (syms.take k).reverse ((leavesL ((st.take k).reverse.map (·.sym))).map leafNat)
      (((st.take k).reverse.map (·.sym)).map Val.toTree)
  | 0, st, syms, h, _ => ⟨by simpa using h, by simpa [leavesL] using Der.nil⟩
  | k + 1, st, syms, h, hk => by
    cases h with
    | base => simp at hk
    | @push e st' syms' X s' v b hinv h0 htr hder =>
      obtain ⟨hi, hd⟩ := CInv.split k hinv (by simpa using hk)
      refine ⟨by simpa using hi, ?_⟩
      have := Der.append hd hder
      simp only [List.take_succ_cons, List.reverse_cons, List.map_append, List.map_cons,
        List.map_nil, leavesL_append, leavesL, List.append_nil]
      simpa [wordOf] using this

/-- A non-empty suffix of a valid stack is a valid stack. -/
theorem CInv.suffix {st st' : List Entry} {syms : List Sym} (h : CInv G A st syms)
    (hs : st' <:+ st) (hne : st' ≠ []) : ∃ syms', CInv G A st' syms' := by
  obtain ⟨pre, rfl⟩ := hs
  have hlen := h.len
  have hk : pre.length ≤ syms.length := by
    have : 0 < st'.length := List.length_pos_iff.mpr hne
    simp only [List.length_append] at hlen
    omega
  have := (CInv.split pre.length h hk).1
  rw [List.drop_left] at this
  exact ⟨_, this⟩

end

/-! ## The three kinds of iteration on validated tables -/

section
variable {G : Grammar} {nTerms nRules : Nat} {T : Tables} {cert : Array (List Item)}

theorem CInv.top_lt (hc : SafeOK G nTerms nRules T cert) {e : Entry} {st : List Entry}
    {syms : List Sym} (h : CInv G (autoOf T cert) (e :: st) syms) : e.state.toNat < cert.size := by
  obtain ⟨w, hw⟩ := h.toStackInv
  exact stackInv_states_lt hc hw ⟨e.state.toNat, e.sym.toTree⟩ (by simp [absStack])

theorem CInv.states_lt (hc : SafeOK G nTerms nRules T cert) {st : List Entry}
    {syms : List Sym} (h : CInv G (autoOf T cert) st syms) :
    ∀ e ∈ st, 0 ≤ e.state ∧ e.state.toNat < cert.size := by
  obtain ⟨w, hw⟩ := h.toStackInv
  intro e he
  refine ⟨h.nonneg e he, ?_⟩
  exact stackInv_states_lt hc hw ⟨e.state.toNat, e.sym.toTree⟩
    (List.mem_map.mpr ⟨e, he, rfl⟩)

theorem leafTy_nonneg {v : Val} (h : v.isLeaf = true) : 0 ≤ leafTy v := by
  cases v with
  | nil => cases h
  | node => cases h
  | tok i ty => simp only [leafTy]; omega
  | err i ty ex => simp only [leafTy, tERROR]; omega

theorem toTree_of_leaf {v : Val} (h : v.isLeaf = true) : v.toTree = .leaf (leafNat v) := by
  cases v with
  | nil => cases h
  | node => cases h
  | tok i ty => simp [Val.toTree, leafNat, leafTy]
  | err i ty ex => simp [Val.toTree, leafNat, leafTy, tERROR]

/-- The action found for the top state and the lookahead, as an action of the automaton. -/
theorem action_of_top (hc : SafeOK G nTerms nRules T cert) {inp : Array Nat} {s : PState}
    {syms : List Sym} (hci : CInv G (autoOf T cert) s.stack syms) (hp : PInv inp s)
    {top v : Int} (htop : topState s.stack = some top) (hf : find T.actions top s.la = .hit v) :
    ∃ e st, s.stack = e :: st ∧ top = e.state ∧ e.state.toNat < cert.size ∧
      (autoOf T cert).action e.state.toNat (leafNat s.lasym) = some (decodeAct v) := by
  cases hst : s.stack with
  | nil => rw [hst] at htop; cases htop
  | cons e st =>
    rw [hst] at htop hci
    have htop' : top = e.state := by simpa [topState] using htop.symm
    have hlt := hci.top_lt hc
    have h0 := hci.nonneg e List.mem_cons_self
    refine ⟨e, st, rfl, htop', hlt, ?_⟩
    have hla : ((leafNat s.lasym : Nat) : Int) = s.la := by
      rw [hp.laty]; unfold leafNat
      have := leafTy_nonneg hp.laok.1
      omega
    have he : ((e.state.toNat : Nat) : Int) = e.state := by omega
    apply action_of_find hlt
    rw [he, hla, ← htop']; exact hf

/-- Shift. -/
theorem CInv.shift (hc : SafeOK G nTerms nRules T cert) {inp : Array Nat} {s : PState}
    {syms : List Sym} (hci : CInv G (autoOf T cert) s.stack syms) (hp : PInv inp s)
    {top a : Int} (htop : topState s.stack = some top) (hf : find T.actions top s.la = .hit a)
    (hacc : a ≠ acceptCode) (hsh : a ≥ 0) (ti : Nat) :
    CInv G (autoOf T cert) (shiftState s a ti).stack (.t (leafNat s.lasym) :: syms) ∧
      s.la ≠ tEOF := by
  obtain ⟨e, st, hst, -, hlt, hact⟩ := action_of_top hc hci hp htop hf
  have hdec : decodeAct a = .shift a.toNat := decodeAct_shift.mpr ⟨hacc, hsh, rfl⟩
  rw [hdec] at hact
  have htr : trans (autoOf T cert) e.state.toNat (.t (leafNat s.lasym)) = some a.toNat := by
    simp [trans, hact]
  have hder : Der G [.t (leafNat s.lasym)] (wordOf s.lasym) [s.lasym.toTree] := by
    rw [toTree_of_leaf hp.laok.1, wordOf, leaves_of_isLeaf hp.laok.1]
    exact .term .nil
  refine ⟨?_, ?_⟩
  · show CInv G _ ({ state := a, sym := s.lasym, bounds := _ } :: s.stack) _
    rw [hst] at hci ⊢
    exact .push hci hsh htr hder
  · intro hE
    have hs := safe_of_safeOK hc
    have : leafNat s.lasym = eof := by
      unfold leafNat; rw [← hp.laty, hE]; rfl
    rw [this] at hact
    exact hs.noShiftEof _ _ hact

/-- Reduce: the goto entry exists (never the `0` of a failed `_Find`) and the new stack is valid. -/
theorem CInv.reduce (hc : SafeOK G nTerms nRules T cert) {inp : Array Nat} {s : PState}
    {syms : List Sym} (hci : CInv G (autoOf T cert) s.stack syms) (hp : PInv inp s)
    {top action tc rule top' ns : Int} (htop : topState s.stack = some top)
    (hf : find T.actions top s.la = .hit action) (hacc : action ≠ acceptCode) (hneg : action < 0)
    (htc : geti T.termCounts (-action) = some tc) (hru : geti T.rules (-action) = some rule)
    (htop' : topState (s.stack.drop tc.toNat) = some top')
    (hgo : find T.gotos top' rule = .hit ns ∨ (find T.gotos top' rule = .miss ∧ ns = 0))
    (wb : Bool) :
    (∃ syms', CInv G (autoOf T cert) (reduceState s wb (-action) tc.toNat ns).stack syms') ∧
    find T.gotos top' rule = .hit ns ∧ tc.toNat < s.stack.length := by
  have hs := safe_of_safeOK hc
  obtain ⟨e, st, hst, -, hlt, hact⟩ := action_of_top hc hci hp htop hf
  have hdec : decodeAct action = .reduce (-action).toNat := decodeAct_reduce.mpr ⟨hacc, hneg, rfl⟩
  rw [hdec] at hact
  generalize hpdef : (-action).toNat = p at hact
  have hpi : (-action) = (p : Int) := by omega
  have hp0 : p ≠ 0 := fun h0 => autoOf_no_reduce0 _ _ (h0 ▸ hact)
  obtain ⟨pr, a', hpr, hitem⟩ := hs.red _ _ _ hact
  obtain ⟨hrule, hcount⟩ := prodsB_spec hc.prods hpr
  rw [hpi, geti_natCast] at htc hru
  have htc' : tc = (pr.rhs.length : Int) := by rw [hcount] at htc; exact (Option.some.inj htc).symm
  have hru' : rule = (pr.lhs : Int) := by rw [hrule] at hru; exact (Option.some.inj hru).symm
  have hk : tc.toNat = pr.rhs.length := by omega
  obtain ⟨w, hw⟩ := hci.toStackInv
  have hitem' : (⟨p, pr.rhs.length, a'⟩ : Item) ∈ (autoOf T cert).items (Abs.topState (absStack s.stack)) := by
    rw [hst]; simpa [absStack, Abs.topState] using hitem
  obtain ⟨hle, _, htake, a'', h0⟩ := Abs.walk hs pr.rhs.length hw p a' pr hitem' hpr
  rw [List.take_length] at htake
  obtain ⟨hi, hd⟩ := CInv.split pr.rhs.length hci hle
  rw [htake] at hd
  rw [hk] at htop' ⊢
  have hlen := hci.len
  cases hdrop : s.stack.drop pr.rhs.length with
  | nil => rw [hdrop] at htop'; cases htop'
  | cons e' rest =>
    rw [hdrop] at htop' hi
    have ht' : top' = e'.state := by simpa [topState] using htop'.symm
    have h0e := hi.nonneg e' List.mem_cons_self
    have h0' : (⟨p, 0, a''⟩ : Item) ∈ (autoOf T cert).items e'.state.toNat := by
      have : (absStack s.stack).drop pr.rhs.length = absStack (s.stack.drop pr.rhs.length) := by
        simp [absStack, List.map_drop]
      rw [this, hdrop] at h0
      simpa [absStack, Abs.topState] using h0
    obtain ⟨s'', hgoto⟩ := hs.gotoDef e'.state.toNat ⟨p, 0, a''⟩ pr h0' rfl hp0 hpr
    obtain ⟨hlt', v, hfv, hv⟩ := goto_eq hgoto
    have hcast : ((e'.state.toNat : Nat) : Int) = e'.state := by omega
    rw [hcast, ← ht', ← hru'] at hfv
    have hns : find T.gotos top' rule = .hit ns ∧ ns = v := by
      rcases hgo with h1 | ⟨h1, -⟩
      · rw [hfv] at h1; cases h1; exact ⟨hfv, rfl⟩
      · rw [hfv] at h1; cases h1
    obtain ⟨hfns, rfl⟩ := hns
    -- the goto target is a non-negative state
    have hv0 : 0 ≤ ns := by
      obtain ⟨row, hrow, _, hall⟩ := (hc.states _ hlt').grow
      have hfv' : find T.gotos ((e'.state.toNat : Nat) : Int) ((pr.lhs : Nat) : Int) = .hit ns := by
        rw [hcast, ← ht', ← hru']; exact hfns
      exact (gotoEntryB_spec (hall _ (find_hit_mem hrow hfv'))).2.2.1
    have htr : trans (autoOf T cert) e'.state.toNat (.n pr.lhs) = some ns.toNat := by
      simp [trans, hgoto, hv]
    have hnode := Der.nonterm (G := G) (q := p) (pr := pr) (α := []) hpr hd .nil
    refine ⟨⟨.n pr.lhs :: syms.drop pr.rhs.length, ?_⟩, hfns, by omega⟩
    show CInv G _ ({ state := ns, sym := .node (-action).toNat _, bounds := _ } ::
      s.stack.drop pr.rhs.length) _
    rw [hdrop]
    refine .push hi hv0 htr ?_
    rw [hpdef]
    simpa [wordOf, leaves, Val.toTree, toTreeList_eq_map] using hnode

/-- The invariant of `parse` on validated tables: coverage + LR stack invariant. -/
structure SInv (G : Grammar) (A : Auto) (inp : Array Nat) (s : PState) : Prop where
  cov : Cov inp s
  cinv : ∃ syms, CInv G A s.stack syms

theorem init_SInv {inp : Array Nat} {s1 : PState} (h : readToken T inp initState = .ok s1) :
    SInv G (autoOf T cert) inp s1 := by
  refine ⟨init_Cov h, [], ?_⟩
  rw [(readToken_frame h).stack]
  exact .base rfl rfl

/-- One iteration of `parse` (shift, reduce or successful `_recover()`) preserves the invariant. -/
theorem step_SInv (hc : SafeOK G nTerms nRules T cert) {inp : Array Nat} {wb : Bool} {fuel : Nat}
    {s s' : PState} (hs : SInv G (autoOf T cert) inp s) (h : step T inp wb fuel s = .cont s') :
    SInv G (autoOf T cert) inp s' := by
  obtain ⟨hcov, syms, hci⟩ := hs
  cases step_cont h with
  | recover _ _ hr =>
    refine ⟨recover_Cov hcov hr, ?_⟩
    obtain ⟨e, s0, s1, st, -, h0, -, h1, hst, rfl, -⟩ := recover_ok hr
    obtain ⟨hsuf, e', rest, hst', -⟩ := searchStack_ok hst
    rw [(h0.trans h1).frame.stack] at hsuf
    exact hci.suffix (st' := st) hsuf (by rw [hst']; exact List.cons_ne_nil _ _)
  | @shift top action ti _ htop hf hacc hsh _ hr =>
    obtain ⟨hci', hE⟩ := hci.shift hc hcov.pinv htop hf hacc hsh ti
    refine ⟨shift_Cov hcov action ti hE hr, .t (leafNat s.lasym) :: syms, ?_⟩
    rw [(readToken_frame hr).stack]; exact hci'
  | @reduce top action tc rule top' ns htop hf hacc hneg htc hru _ _ htop' hgo =>
    exact ⟨reduce_Cov hcov wb _ _ _,
      (hci.reduce hc hcov.pinv htop hf hacc hneg htc hru htop' hgo wb).1⟩

theorem parseReach_SInv (hc : SafeOK G nTerms nRules T cert) {inp : Array Nat} {wb : Bool}
    {fuel : Nat} {s : PState} (h : ParseReach T inp wb fuel s) : SInv G (autoOf T cert) inp s := by
  obtain ⟨s1, h1, hr⟩ := h
  exact hr.inv (fun _ _ hp hs => step_SInv hc hp hs) (init_SInv h1)

/-- The accepting configuration: EOF lookahead, stack = [start-symbol entry, bottom], and the
value on top derives from the start symbol with its leaves as the word. -/
theorem CInv.accept (hc : SafeOK G nTerms nRules T cert) {inp : Array Nat} {s : PState}
    {syms : List Sym} (hci : CInv G (autoOf T cert) s.stack syms) (hp : PInv inp s)
    {top : Int} (htop : topState s.stack = some top)
    (hf : find T.actions top s.la = .hit acceptCode) :
    s.la = tEOF ∧ ∃ st0 v b bot, s.stack = [{ state := st0, sym := v, bounds := b }, bot] ∧
      bot.sym = .nil ∧ Der G [.n (startSym G)] (wordOf v) [v.toTree] := by
  have hs := safe_of_safeOK hc
  obtain ⟨e, st, hst, -, hlt, hact⟩ := action_of_top hc hci hp htop hf
  have hdec : decodeAct acceptCode = .accept := decodeAct_accept.mpr rfl
  rw [hdec] at hact
  obtain ⟨hla, a', hitem⟩ := hs.acc _ _ hact
  have hlaE : s.la = tEOF := by
    have h0 := leafTy_nonneg hp.laok.1
    have : (leafTy s.lasym).toNat = 0 := hla
    rw [hp.laty]; show leafTy s.lasym = 0; omega
  refine ⟨hlaE, ?_⟩
  obtain ⟨S', hp0⟩ := hs.prod0
  obtain ⟨w, hw⟩ := hci.toStackInv
  have hitem' : (⟨0, 1, a'⟩ : Item) ∈ (autoOf T cert).items (Abs.topState (absStack s.stack)) := by
    rw [hst]; simpa [absStack, Abs.topState] using hitem
  obtain ⟨hle, _, htake, a'', h0⟩ := Abs.walk hs 1 hw 0 a' _ hitem' hp0
  rw [hst] at hci hw h0
  cases hci with
  | base => simp at hle
  | @push e1 st1 syms1 X s' v b hinv h0s htr hder =>
    have hz : e1.state.toNat = 0 := hs.startOnly _ _ (by simpa [absStack, Abs.topState] using h0)
    obtain ⟨w1, hw1⟩ := hinv.toStackInv
    have hw1' : StackInv G (autoOf T cert)
        ((⟨e1.state.toNat, e1.sym.toTree⟩ : Abs.Entry) :: absStack st1) syms1 w1 := by
      simpa [absStack] using hw1
    obtain ⟨hnil, -, -⟩ := Abs.StackInv.bottom_of_zero hs hw1' hz
    have hst1 : st1 = [] := by simpa [absStack] using hnil
    subst hst1
    have hX : X = .n (startSym G) := by simpa using htake
    subst hX
    obtain ⟨eb, heb, -, hnilsym⟩ := hinv.bottom
    have : eb = e1 := by simpa using heb.symm
    subst this
    exact ⟨s', v, b, eb, hst ▸ rfl, hnilsym, hder⟩

/-- **accepted_edit_is_sentence.** On validated tables, when `parse` accepts: the lookahead is
EOF, the stack is `[⟨_, v⟩, bottom]`, the symbols consumed (= leaves of `v`, `Error`s read as the
terminal 1) derive from the start symbol with `v` as derivation tree, and (coverage invariant)
these leaves followed by the EOF lookahead are the input tokens in order with stretches replaced
by `Error`s. -/
theorem accepted_sentence (hc : SafeOK G nTerms nRules T cert) {inp : Array Nat} {wb : Bool}
    {fuel : Nat} (h : (parse T inp wb fuel).1 = .accept) :
    (parse T inp wb fuel).2.la = tEOF ∧
    ∃ st0 v b bot, (parse T inp wb fuel).2.stack = [{ state := st0, sym := v, bounds := b }, bot] ∧
      bot.sym = .nil ∧ stackLeaves (parse T inp wb fuel).2.stack = leaves v ∧
      Der G [.n (startSym G)] (wordOf v) [v.toTree] ∧ Cov inp (parse T inp wb fuel).2 := by
  obtain ⟨hreach, top, htop, hf⟩ := parse_accept_state h
  obtain ⟨hcov, syms, hci⟩ := parseReach_SInv hc hreach
  obtain ⟨hla, st0, v, b, bot, hst, hnil, hder⟩ := hci.accept hc hcov.pinv htop hf
  refine ⟨hla, st0, v, b, bot, hst, hnil, ?_, hder, hcov⟩
  rw [hst, stackLeaves_cons, stackLeaves_cons, hnil]
  rfl

theorem der_head_nonterm {G : Grammar} {α : List Sym} {w : List Nat} {ts : List Tree}
    (h : Der G α w ts) {B : Nat} {α' : List Sym} (hα : α = .n B :: α') :
    ∃ q ts1 ts2, ts = .node q ts1 :: ts2 := by
  cases h with
  | nil => cases hα
  | term _ => cases hα
  | nonterm _ _ _ => exact ⟨_, _, _, rfl⟩

theorem toTree_node_not_err {v : Val} {p : Nat} {ts : List Tree} (h : v.toTree = .node p ts) :
    v.isErr = false := by
  cases v <;> simp_all [Val.toTree, Val.isErr]

/-- On validated tables no `Error` value is left on the accepting stack. -/
theorem accept_stack_no_err (hc : SafeOK G nTerms nRules T cert) {inp : Array Nat} {wb : Bool}
    {fuel : Nat} (h : (parse T inp wb fuel).1 = .accept) :
    ∀ e ∈ (parse T inp wb fuel).2.stack, e.sym.isErr = false := by
  obtain ⟨-, st0, v, b, bot, hst, hnil, -, hder, -⟩ := accepted_sentence hc h
  rw [hst]
  intro e he
  simp only [List.mem_cons, List.not_mem_nil, or_false] at he
  rcases he with rfl | rfl
  · obtain ⟨q, ts1, ts2, hts⟩ := der_head_nonterm hder rfl
    exact toTree_node_not_err (p := q) (ts := ts1) (List.head_eq_of_cons_eq hts)
  · rw [hnil]; rfl

theorem parseG_fst (T : Tables) (inp : Array Nat) (wb : Bool) (fuel : Nat) :
    (parseG T inp wb fuel).1 = (parse T inp wb fuel).1 := congrArg Prod.fst (parseG_erase T inp wb fuel)

theorem parseG_snd (T : Tables) (inp : Array Nat) (wb : Bool) (fuel : Nat) :
    (parseG T inp wb fuel).2.1 = (parse T inp wb fuel).2 := congrArg Prod.snd (parseG_erase T inp wb fuel)

/-- **error_delivered.** On validated tables: if `parse` accepts and `_recover()` returned `true`
at least once, some action was called with an `Error` argument. -/
theorem error_delivered (hc : SafeOK G nTerms nRules T cert) {inp : Array Nat} {wb : Bool}
    {fuel : Nat} (hacc : (parseG T inp wb fuel).1 = .accept)
    (hrec : 0 < (parseG T inp wb fuel).2.2) : Delivered (parseG T inp wb fuel).2.1.log := by
  have hacc' : (parse T inp wb fuel).1 = .accept := by rw [← parseG_fst]; exact hacc
  have ht := parseG_ErrTrack hacc hrec
  rw [parseG_snd] at ht ⊢
  rcases ht with ⟨hla, -⟩ | ⟨e, he, hsym⟩ | hd
  · rw [(accepted_sentence hc hacc').1] at hla; cases hla
  · rw [accept_stack_no_err hc hacc' e he] at hsym; cases hsym
  · exact hd

/-- **no_silent_accept.** On validated tables: if `parse` accepts, `_recover()` never returned
`true`, and the input holds neither ERROR (1) nor EOF (0) tokens, then the input derives from the
start symbol, with the value on top of the accepting stack as derivation tree. -/
theorem no_silent_accept (hc : SafeOK G nTerms nRules T cert) {inp : Array Nat} {wb : Bool}
    {fuel : Nat} (hinp1 : ∀ i : Nat, inp[i]? ≠ some 1) (hinp0 : ∀ i : Nat, inp[i]? ≠ some 0)
    (hacc : (parseG T inp wb fuel).1 = .accept) (h0 : (parseG T inp wb fuel).2.2 = 0) :
    ∃ st0 v b bot, (parse T inp wb fuel).2.stack = [{ state := st0, sym := v, bounds := b }, bot] ∧
      Der G [.n (startSym G)] inp.toList [v.toTree] := by
  have hacc' : (parse T inp wb fuel).1 = .accept := by rw [← parseG_fst]; exact hacc
  obtain ⟨hla, st0, v, b, bot, hst, hnil, hsl, hder, hcov⟩ := accepted_sentence hc hacc'
  refine ⟨st0, v, b, bot, hst, ?_⟩
  -- no `Error` value anywhere
  have hm : ∀ i, lexErrAt inp i = true → (fun _ : Nat => false) i = true := by
    intro i hi
    simp only [lexErrAt, beq_iff_eq] at hi
    exact absurd hi (hinp1 i)
  obtain ⟨-, -, a3, -⟩ := parseG_zero_ErrsInv h0
  rw [parseG_snd] at a3
  have hv : errsIn (fun _ => false) v = true := by
    have := a3 _ (by rw [hst]; exact List.mem_cons_self)
    exact errsIn_mono hm _ this
  have hne : ∀ x ∈ stackLeaves (parse T inp wb fuel).2.stack, x.isErr = false := by
    rw [hsl]; exact leaves_no_err v hv
  -- the lookahead is the EOF token at `|inp|`, nothing is queued
  have hp := hcov.pinv
  have hq : (parse T inp wb fuel).2.qla = -1 := by
    by_cases hq : (parse T inp wb fuel).2.qla = -1
    · exact hq
    · have := (hp.qty hq).2.1
      rw [hla] at this; cases this
  have hlty : leafTy (parse T inp wb fuel).2.lasym = 0 := by rw [← hp.laty, hla]; rfl
  have hlerr : (parse T inp wb fuel).2.lasym.isErr = false := by
    cases hl : (parse T inp wb fuel).2.lasym <;> simp_all [leafTy, Val.isErr, tERROR]
  have hlidx : lidx (parse T inp wb fuel).2.lasym = inp.size := by
    have htok := hp.tokLa
    have hleaf := hp.laok.1
    cases hl : (parse T inp wb fuel).2.lasym with
    | nil => rw [hl] at hleaf; cases hleaf
    | node => rw [hl] at hleaf; cases hleaf
    | err => rw [hl] at hlerr; cases hlerr
    | tok i ty =>
      rw [hl] at htok hlty
      have hty : ty = 0 := by simp only [leafTy] at hlty; omega
      rcases htok with h1 | ⟨h1, -⟩
      · rw [hty] at h1; exact absurd h1 (hinp0 i)
      · exact h1
  obtain ⟨hlen, hget⟩ := hcov.consumed_eq_input hq hlerr hlidx hne
  rw [hsl] at hlen hget
  have hw : wordOf v = inp.toList := by
    apply List.ext_getElem?
    intro i
    by_cases hi : i < inp.size
    · simp only [wordOf, List.getElem?_map, hget i hi, Option.map_some, Array.getElem?_toList,
        Array.getElem?_eq_getElem hi]
      simp [leafNat, leafTy]
    · rw [List.getElem?_eq_none (by simp [wordOf]; omega), List.getElem?_eq_none (by simp; omega)]
  rw [← hw]; exact hder

end

end Lox.LR.Rt
