import Lox.LR.EmitProofsCells
/-! `EmitParser` does not panic on a conflict-free table: every cell holds an action (`Get(0)`),
`createActions` did not panic (part of `conflictFreeB`), and `AddRow` is called with the state
indices `0, 1, 2, …` (strictly increasing). Also: `conflictFreeB` implies that the model's
`HasConflicts` is false. -/
namespace Lox.LR.Emit
open Lox.LR Lox.LR.Gen Lox.LR.Cons
open Lox.Dec (Action ProdInfo)
open Lox.Table

theorem mapM_isSome {α β : Type} (f : α → Option β) :
    ∀ (l : List α), (∀ x ∈ l, ∃ y, f x = some y) → ∃ r, l.mapM f = some r
  | [], _ => ⟨[], by simp⟩
  | a :: l, h => by
    obtain ⟨b, hb⟩ := h a (by simp)
    obtain ⟨r, hr⟩ := mapM_isSome f l (fun x hx => h x (List.mem_cons_of_mem _ hx))
    exact ⟨b :: r, by rw [List.mapM_cons]; simp [hb, hr]⟩

theorem build_range_isSome {rows : List (Nat × List Int)} {n : Nat}
    (h : rows.map (·.1) = List.range n) : ∃ a, build rows = some a := by
  have : (addRows {} rows).isSome := by
    rw [addRows_isSome, h]
    exact ⟨fun i _ => by show (-1 : Int) < (i : Int); omega, List.pairwise_lt_range⟩
  unfold build
  cases ha : addRows {} rows with
  | none => rw [ha] at this; cases this
  | some t => exact ⟨array t, rfl⟩

section
variable {G : Grammar} {nT : Nat} {ord : List Sym} {st : CState}

/-- What `conflictFreeB` says about one state. -/
theorem conflictFreeB_state (h : conflictFreeB G nT st = true) {s : Nat}
    (hs : s < st.states.length) :
    ∃ cells, actionsOf G nT (trTerm st.transTab s) (st.states[s]?.getD []) = some cells ∧
      ∀ e ∈ cells, e.2.length = 1 := by
  simp only [conflictFreeB, List.all_eq_true, List.mem_range] at h
  have h := h s hs
  cases hc : actionsOf G nT (trTerm st.transTab s) (st.states[s]?.getD []) with
  | none => simp [hc] at h
  | some cells =>
    simp only [hc, List.all_eq_true, beq_iff_eq] at h
    exact ⟨cells, rfl, h⟩

theorem stateActionRow_isSome (h : conflictFreeB G nT st = true) {s : Nat}
    (hs : s < st.states.length) : ∃ row, stateActionRow noPrec G nT ord st s = some row := by
  obtain ⟨cells, hc, hsingle⟩ := conflictFreeB_state h hs
  unfold stateActionRow actionRow
  rw [cellsOf_noPrec, hc]
  simp only
  apply mapM_isSome
  intro a ha
  unfold cellTerms at ha
  rw [List.mem_filter] at ha
  cases hl : lookupCell a cells with
  | none => simp [hl] at ha
  | some c =>
    have hlen := hsingle (a, c) (lookupCell_mem hl)
    match c, hlen with
    | [act], _ => exact ⟨((a : Int), actCode act), by simp [firstCode, hl]⟩

/-- **`EmitParser` does not panic on a conflict-free table.** -/
theorem emitParser_isSome (h : conflictFreeB G nT st = true) :
    ∃ T, emitParser G nT ord st = some T := by
  unfold emitParser emitParserP
  obtain ⟨arows, har⟩ : ∃ arows, actionRows noPrec G nT ord st = some arows := by
    unfold actionRows
    apply mapM_isSome
    intro i hi
    obtain ⟨row, hrow⟩ := stateActionRow_isSome (ord := ord) h (List.mem_range.mp hi)
    exact ⟨(i, flattenPairs row), by simp [hrow]⟩
  have hk : arows.map (·.1) = List.range st.states.length := by
    unfold actionRows at har
    have := mapM_some_map _ (fun y : Nat × List Int => y.1) id (fun i y hy => by
      cases hr : stateActionRow noPrec G nT ord st i with
      | none => simp [hr] at hy
      | some r => simp only [hr, Option.map_some, Option.some.injEq] at hy; subst hy; rfl) har
    simpa using this
  obtain ⟨a, ha⟩ := build_range_isSome hk
  obtain ⟨g, hg⟩ : ∃ g, build (gotoRows ord st) = some g := by
    apply build_range_isSome (n := st.states.length)
    unfold gotoRows
    simp [List.map_map, Function.comp_def]
  simp only [har, ha, hg]
  exact ⟨_, rfl⟩

/-- A conflict-free table has `HasConflicts = false` in the model of `resolveConflicts`, whatever
the precedences. -/
theorem conflictFreeB_verdict (info : Nat → ProdInfo) (h : conflictFreeB G nT st = true) :
    hasConflictsP info G nT st = false := by
  unfold hasConflictsP verdictB Lox.Dec.hasConflicts
  rw [List.any_eq_false]
  intro cell hcell
  unfold tableCells at hcell
  rw [List.mem_flatMap] at hcell
  obtain ⟨s, hs, hcell⟩ := hcell
  have hs' : s < st.states.length := by simpa [CState.cert] using List.mem_range.mp hs
  obtain ⟨cells, hc, hsingle⟩ := conflictFreeB_state h hs'
  unfold stateCells at hcell
  rw [List.mem_filterMap] at hcell
  obtain ⟨a, ha, hca⟩ := hcell
  rw [itemsOf_cert] at ha hca
  cases hco : cellOn G nT (trTerm st.transTab s) (st.states[s]?.getD []) a with
  | error e => simp [hco] at hca
  | ok c =>
    simp only [hco, Option.some.injEq] at hca
    subst hca
    have hl := (lookupCell_actionsOf hc a c).mpr ⟨ha, hco⟩
    have := hsingle (a, c) (lookupCell_mem hl)
    simp only at this
    simp [this]

end

end Lox.LR.Emit
