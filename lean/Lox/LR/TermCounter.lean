import Lox.LR.CheckSound
/-! Why termination needs its own check: tables that pass `check` (so `Valid`, `Safe`, `FirstOK`
hold and accept ⟺ sentence) but on which the machine reduces forever on a non-sentence.

Grammar: `S' → S`, `S → a`, `Y → ε` (terminals EOF=0 ERROR=1 a=2 b=3; rules S'=0 S=1 Y=2).
State 0 carries the unjustified item `[Y → ·, b]`, state 3 = `{[Y → ·, b]}` with `goto(3, Y) = 3`.
On input `b` the machine pushes `Y` forever. The real generator never emits such tables; the
validator cannot know that, hence `termB`. -/
namespace Lox.LR.TermCounter

def G : Grammar := ⟨#[⟨0, [.n 1]⟩, ⟨1, [.t 2]⟩, ⟨2, []⟩]⟩

def T : Tables :=
  { rules := #[0, 1, 2], termCounts := #[1, 1, 0],
    actions := #[4, 9, 12, 15, 4, 2, 1, 3, -2, 2, 0, -1, 2, 0, 2147483647, 2, 3, -2],
    gotos := #[4, 9, 9, 10, 4, 1, 2, 2, 3, 0, 2, 2, 3] }

def cert : Array (List Item) :=
  #[[⟨0,0,0⟩, ⟨1,0,0⟩, ⟨2,0,3⟩], [⟨1,1,0⟩], [⟨0,1,0⟩], [⟨2,0,3⟩]]

theorem check_ok : check G 4 3 T cert = .ok () := check_ok_iff.mpr (by decide)

/-- The termination check rejects these tables. -/
theorem termB_false : termB G T cert = false := by decide

theorem loops : ∀ (n : Nat) (e : Abs.Entry) (st : List Abs.Entry) (lg : List (Nat × List Tree)),
    e.state = 0 ∨ e.state = 3 → Abs.run G (autoOf T cert) n ⟨e :: st, [3], lg⟩ = .timeout := by
  intro n
  induction n with
  | zero => intros; rfl
  | succ n ih =>
    intro e st lg he
    have hact : (autoOf T cert).action e.state 3 = some (.reduce 2) := by
      rcases he with h | h <;> rw [h] <;> decide
    have hgo : (autoOf T cert).goto e.state 2 = some 3 := by
      rcases he with h | h <;> rw [h] <;> decide
    have hp : G.prods[2]? = some ⟨2, []⟩ := by decide
    have hstep : Abs.step G (autoOf T cert) ⟨e :: st, [3], lg⟩ =
        .cont ⟨⟨3, .node 2 []⟩ :: e :: st, [3], lg ++ [(2, [])]⟩ := by
      simp [Abs.step, Abs.la, hact, hp, hgo]
    simp only [Abs.run, hstep]
    exact ih _ _ _ (Or.inr rfl)

/-- `check` accepts the tables, yet the run on the non-sentence `b` never finishes. -/
theorem check_does_not_imply_termination :
    check G 4 3 T cert = .ok () ∧ ∀ n, Abs.run G (autoOf T cert) n (Abs.init [3]) = .timeout :=
  ⟨check_ok, fun n => loops n _ _ _ (Or.inl rfl)⟩

end Lox.LR.TermCounter
