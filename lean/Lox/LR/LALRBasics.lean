import Lox.LR.LALR
import Lox.LR.Complete
/-! Basic lemmas about the notions of `Lox/LR/LALR.lean`: `Derives`, `First`, `Path`, and the
auxiliary notion `Justd` (an item of a certificate has a derivation INSIDE the certificate). -/
namespace Lox.LR

/-! ### `Derives` -/

theorem Derives.trans {G : Grammar} {α β γ : List Sym} (h1 : Derives G α β) (h2 : Derives G β γ) :
    Derives G α γ := by
  induction h1 with
  | refl => exact h2
  | step hq _ ih => exact .step hq (ih h2)

theorem Derives.append_left {G : Grammar} {α β : List Sym} (γ : List Sym) (h : Derives G α β) :
    Derives G (γ ++ α) (γ ++ β) := by
  induction h with
  | refl => exact .refl _
  | @step α₁ α₂ β q qr hq _ ih =>
    have e : γ ++ (α₁ ++ Sym.n qr.lhs :: α₂) = (γ ++ α₁) ++ Sym.n qr.lhs :: α₂ := by
      simp [List.append_assoc]
    rw [e]
    refine .step hq ?_
    simpa [List.append_assoc] using ih

theorem Derives.append_right {G : Grammar} {α β : List Sym} (γ : List Sym) (h : Derives G α β) :
    Derives G (α ++ γ) (β ++ γ) := by
  induction h with
  | refl => exact .refl _
  | @step α₁ α₂ β q qr hq _ ih =>
    have e : (α₁ ++ Sym.n qr.lhs :: α₂) ++ γ = α₁ ++ Sym.n qr.lhs :: (α₂ ++ γ) := by
      simp [List.append_assoc]
    rw [e]
    refine .step hq ?_
    simpa [List.append_assoc] using ih

theorem Derives.append {G : Grammar} {α α' β β' : List Sym} (h1 : Derives G α α')
    (h2 : Derives G β β') : Derives G (α ++ β) (α' ++ β') :=
  (h1.append_right β).trans (h2.append_left α')

/-- One production step. -/
theorem Derives.prod {G : Grammar} {q : Nat} {qr : Prod} (hq : G.prods[q]? = some qr) :
    Derives G [.n qr.lhs] qr.rhs := by
  have := Derives.step (α₁ := []) (α₂ := []) hq (Derives.refl _)
  simpa using this

theorem Derives.cons_nonterm {G : Grammar} {q : Nat} {qr : Prod} (hq : G.prods[q]? = some qr)
    (rest : List Sym) : Derives G (.n qr.lhs :: rest) (qr.rhs ++ rest) := by
  have := (Derives.prod hq).append_right rest
  simpa using this

/-- A derivation tree gives a derivation of the sentential form to the token string. -/
theorem Der.derives {G : Grammar} {α : List Sym} {w : List Nat} {ts : List Tree}
    (h : Der G α w ts) : Derives G α (w.map Sym.t) := by
  induction h with
  | nil => exact .refl _
  | @term a α w ts _ ih =>
    have := ih.append_left [Sym.t a]
    simpa using this
  | @nonterm q pr α w1 w2 ts1 ts2 hq _ _ ih1 ih2 =>
    have h1 := Derives.cons_nonterm hq α
    have h2 := ih1.append ih2
    have := h1.trans h2
    simpa using this

theorem Der.append_inv {G : Grammar} : ∀ (α : List Sym) {β : List Sym} {w : List Nat}
    {ts : List Tree}, Der G (α ++ β) w ts →
    ∃ w1 w2 t1 t2, w = w1 ++ w2 ∧ Der G α w1 t1 ∧ Der G β w2 t2
  | [], β, w, ts, h => ⟨[], w, [], ts, rfl, .nil, h⟩
  | X :: α, β, w, ts, h => by
    generalize hαβ : X :: α ++ β = αβ at h
    cases h with
    | nil => cases hαβ
    | @term a α' w' ts' h' =>
      cases hαβ
      obtain ⟨w1, w2, t1, t2, rfl, h1, h2⟩ := Der.append_inv α h'
      exact ⟨a :: w1, w2, _, t2, rfl, .term h1, h2⟩
    | @nonterm q pr α' u1 u2 ts1 ts2 hq h1 h2 =>
      cases hαβ
      obtain ⟨w1, w2, t1, t2, rfl, h3, h4⟩ := Der.append_inv α h2
      exact ⟨u1 ++ w1, w2, _, t2, by simp, .nonterm hq h1 h3, h4⟩

/-- A derivation of sentential forms followed by a derivation tree of the result folds into a
derivation tree of the source. -/
theorem Derives.der {G : Grammar} {α β : List Sym} (h : Derives G α β) :
    ∀ {w : List Nat} {ts : List Tree}, Der G β w ts → ∃ ts', Der G α w ts' := by
  induction h with
  | refl => exact fun hd => ⟨_, hd⟩
  | @step α₁ α₂ β q qr hq _ ih =>
    intro w ts hd
    obtain ⟨ts1, h1⟩ := ih hd
    rw [List.append_assoc] at h1
    obtain ⟨w1, w23, t1, t23, rfl, ha, h23⟩ := Der.append_inv α₁ h1
    obtain ⟨w2, w3, t2, t3, rfl, hb, hc⟩ := Der.append_inv qr.rhs h23
    exact ⟨_, Der.append ha (Der.nonterm hq hb hc)⟩

/-- The Der-based reading of FIRST: `α` derives a TOKEN STRING that starts with `b`, or derives the
empty token string and `b = a`. -/
def FirstDer (G : Grammar) (α : List Sym) (a b : Nat) : Prop :=
  (∃ w ts, Der G α (b :: w) ts) ∨ ((∃ ts, Der G α [] ts) ∧ b = a)

/-- If `α` derives a token string, `FIRST(α a)` is inhabited. -/
theorem First.of_der {G : Grammar} {α : List Sym} {w : List Nat} {ts : List Tree} (a : Nat)
    (h : Der G α w ts) : First G α a (w.headD a) := by
  have hd := h.derives
  cases w with
  | nil => exact .inr ⟨by simpa using hd, rfl⟩
  | cons x xs => exact .inl ⟨xs.map Sym.t, by simpa using hd⟩

theorem First.of_firstDer {G : Grammar} {α : List Sym} {a b : Nat} (h : FirstDer G α a b) :
    First G α a b := by
  rcases h with ⟨w, ts, hd⟩ | ⟨⟨ts, hd⟩, rfl⟩
  · exact First.of_der a hd
  · exact First.of_der b hd

/-- The nonterminals of a sentential form all derive token strings. -/
def AllProductive (G : Grammar) (α : List Sym) : Prop := ∀ B, Sym.n B ∈ α → ∃ w ts, Der G [.n B] w ts

theorem AllProductive.der {G : Grammar} : ∀ {α : List Sym}, AllProductive G α → ∃ w ts, Der G α w ts
  | [], _ => ⟨[], [], .nil⟩
  | .t x :: rest, h => by
    obtain ⟨w, ts, hd⟩ := AllProductive.der (α := rest) (fun B hB => h B (List.mem_cons_of_mem _ hB))
    exact ⟨_, _, .term hd⟩
  | .n C :: rest, h => by
    obtain ⟨w1, ts1, h1⟩ := h C List.mem_cons_self
    obtain ⟨w2, ts2, h2⟩ :=
      AllProductive.der (α := rest) (fun B hB => h B (List.mem_cons_of_mem _ hB))
    have := Der.append h1 h2
    exact ⟨_, _, by simpa using this⟩

theorem Derives.allProductive {G : Grammar} (hprod : Productive G) {α β : List Sym}
    (h : Derives G α β) : AllProductive G α → AllProductive G β := by
  induction h with
  | refl => exact id
  | @step α₁ α₂ β q qr hq _ ih =>
    intro hα
    apply ih
    intro B hB
    simp only [List.mem_append] at hB
    rcases hB with (hB | hB) | hB
    · exact hα B (by simp [hB])
    · exact (hprod q qr hq).2 B hB
    · exact hα B (by simp [hB])

/-- In a productive grammar the sentential-form FIRST of the definition and the Der-based FIRST
coincide (on sequences whose nonterminals are productive, e.g. suffixes of right-hand sides). -/
theorem first_iff_firstDer {G : Grammar} (hprod : Productive G) {α : List Sym}
    (hα : AllProductive G α) (a b : Nat) : First G α a b ↔ FirstDer G α a b := by
  refine ⟨fun h => ?_, First.of_firstDer⟩
  rcases h with ⟨δ, hd⟩ | ⟨hd, rfl⟩
  · have hδ : AllProductive G δ := fun B hB =>
      hd.allProductive hprod hα B (List.mem_cons_of_mem _ hB)
    obtain ⟨w, ts, hw⟩ := hδ.der
    obtain ⟨ts', h'⟩ := hd.der (.term hw)
    exact .inl ⟨w, ts', h'⟩
  · obtain ⟨ts', h'⟩ := hd.der .nil
    exact .inr ⟨⟨ts', h'⟩, rfl⟩

/-! ### `Path` -/

theorem Path.det {A : Auto} {s : Nat} {γ : List Sym} {s1 : Nat} (h1 : Path A s γ s1) :
    ∀ {s2 : Nat}, Path A s γ s2 → s1 = s2 := by
  induction h1 with
  | nil =>
    intro s2 h2
    generalize hγ : ([] : List Sym) = γ at h2
    cases h2 with
    | nil => rfl
    | snoc _ _ => simp at hγ
  | @snoc s' s'' γ X hp htr ih =>
    intro s2 h2
    generalize hγ : γ ++ [X] = γ2 at h2
    cases h2 with
    | nil => simp at hγ
    | @snoc t' t'' γ' X' hp' htr' =>
      obtain ⟨e1, e2⟩ := List.append_inj' hγ rfl
      cases e2
      subst e1
      have := ih hp'
      subst this
      rw [htr] at htr'
      exact Option.some.inj htr'

/-- Decomposition of a non-empty path at its last edge. -/
theorem Path.snoc_inv {A : Auto} {s : Nat} {γ : List Sym} {X : Sym} {s2 : Nat}
    (h : Path A s (γ ++ [X]) s2) : ∃ s1, Path A s γ s1 ∧ trans A s1 X = some s2 := by
  generalize hγ : γ ++ [X] = γ2 at h
  cases h with
  | nil => simp at hγ
  | @snoc t' t'' γ' X' hp' htr' =>
    obtain ⟨e1, e2⟩ := List.append_inj' hγ rfl
    cases e2
    subst e1
    exact ⟨t', hp', htr'⟩

theorem Path.nil_inv {A : Auto} {s s2 : Nat} (h : Path A s [] s2) : s2 = s := by
  generalize hγ : ([] : List Sym) = γ at h
  cases h with
  | nil => rfl
  | snoc _ _ => simp at hγ

/-! ### Justified inside a certificate -/

/-- `Justd G A s it`: the item `it` of state `s` is obtained from the start item of state 0 by goto
steps along the edges of `A` and closure steps, all intermediate items being items of `A`. -/
inductive Justd (G : Grammar) (A : Auto) : Nat → Item → Prop where
  | start : (⟨0, 0, eof⟩ : Item) ∈ A.items 0 → Justd G A 0 ⟨0, 0, eof⟩
  | goto {s' s p d a : Nat} {pr : Prod} {X : Sym} : Justd G A s' ⟨p, d, a⟩ →
      G.prods[p]? = some pr → pr.rhs[d]? = some X → trans A s' X = some s →
      (⟨p, d + 1, a⟩ : Item) ∈ A.items s → Justd G A s ⟨p, d + 1, a⟩
  | closure {s p d a : Nat} {pr : Prod} {B q : Nat} {qr : Prod} {b : Nat} :
      Justd G A s ⟨p, d, a⟩ → G.prods[p]? = some pr → pr.rhs[d]? = some (.n B) →
      G.prods[q]? = some qr → qr.lhs = B → First G (pr.rhs.drop (d + 1)) a b →
      (⟨q, 0, b⟩ : Item) ∈ A.items s → Justd G A s ⟨q, 0, b⟩

theorem Justd.mem {G : Grammar} {A : Auto} {s : Nat} {it : Item} (h : Justd G A s it) :
    it ∈ A.items s := by
  cases h <;> assumption

/-- A justified item is an LALR(1) item of its state. -/
theorem Justd.lalr {G : Grammar} {A : Auto} {s : Nat} {it : Item} (h : Justd G A s it) :
    LALRItem G A s it := by
  induction h with
  | start _ => exact ⟨[], .nil 0, .start⟩
  | goto _ hp hX htr _ ih =>
    obtain ⟨γ, hpath, hit⟩ := ih
    exact ⟨_, .snoc hpath htr, .goto hit hp hX⟩
  | closure _ hp hX hq hl hf _ ih =>
    obtain ⟨γ, hpath, hit⟩ := ih
    exact ⟨γ, hpath, .closure hit hp hX hq hl hf⟩

theorem LR1Item.lr0 {G : Grammar} {γ : List Sym} {it : Item} (h : LR1Item G γ it) :
    LR0Item G γ it.p it.d := by
  induction h with
  | start => exact .start
  | goto _ hp hX ih => exact .goto ih hp hX
  | closure _ hp hX hq hl _ ih => exact .closure ih hp hX hq hl

/-- Every shift/goto edge is called for by an item of its source state. -/
def EdgesBacked (G : Grammar) (A : Auto) : Prop :=
  ∀ s X s', trans A s X = some s' →
    ∃ it ∈ A.items s, ∃ pr, G.prods[it.p]? = some pr ∧ pr.rhs[it.d]? = some X

/-- Every entry of the action table is called for by an item of the certificate (a reduce entry on
`a` by the completed item with lookahead `a`). -/
def ActionsBacked (G : Grammar) (A : Auto) : Prop :=
  ∀ s a act, A.action s a = some act → Cand G A (fun s it => it ∈ A.items s) s a act

/-- Every entry of the goto table is called for by an item with that rule after the dot. -/
def GotosBacked (G : Grammar) (A : Auto) : Prop :=
  ∀ s B s', A.goto s B = some s' →
    ∃ it ∈ A.items s, ∃ pr, G.prods[it.p]? = some pr ∧ pr.rhs[it.d]? = some (.n B)

theorem edges_of_backed {G : Grammar} {A : Auto} (ha : ActionsBacked G A) (hg : GotosBacked G A) :
    EdgesBacked G A := by
  intro s X s' htr
  cases X with
  | n B => exact hg s B s' htr
  | t x =>
    simp only [trans] at htr
    cases hact : A.action s x with
    | none => simp [hact] at htr
    | some act =>
      cases act with
      | reduce p => simp [hact] at htr
      | accept => simp [hact] at htr
      | shift s'' =>
        have hc := ha s x _ hact
        cases hc with
        | shift hmem hp hX _ => exact ⟨_, hmem, _, hp, hX⟩

/-- Completeness side of the item sets alone (no statement about the action table): the start item,
closed under goto along the edges and under closure w.r.t. the semantic FIRST. -/
structure Closed (G : Grammar) (A : Auto) : Prop where
  start : (⟨0, 0, eof⟩ : Item) ∈ A.items 0
  step : ∀ s it pr X, it ∈ A.items s → G.prods[it.p]? = some pr → pr.rhs[it.d]? = some X →
    ∃ s', trans A s X = some s' ∧ (⟨it.p, it.d + 1, it.a⟩ : Item) ∈ A.items s'
  closure : ∀ s it pr B q qr b, it ∈ A.items s → G.prods[it.p]? = some pr →
    pr.rhs[it.d]? = some (.n B) → G.prods[q]? = some qr → qr.lhs = B →
    First G (pr.rhs.drop (it.d + 1)) it.a b → (⟨q, 0, b⟩ : Item) ∈ A.items s

/-- Under `Closed`, every LR(1) item valid for `γ` is in the state reached along `γ`. -/
theorem LR1Item.in_state {G : Grammar} {A : Auto} (hc : Closed G A) {γ : List Sym} {it : Item}
    (h : LR1Item G γ it) : ∃ s, Path A 0 γ s ∧ it ∈ A.items s := by
  induction h with
  | start => exact ⟨0, .nil 0, hc.start⟩
  | goto _ hp hX ih =>
    obtain ⟨s, hpath, hmem⟩ := ih
    obtain ⟨s', htr, hmem'⟩ := hc.step s _ _ _ hmem hp hX
    exact ⟨s', .snoc hpath htr, hmem'⟩
  | closure _ hp hX hq hl hf ih =>
    obtain ⟨s, hpath, hmem⟩ := ih
    exact ⟨s, hpath, hc.closure s _ _ _ _ _ _ hmem hp hX hq hl hf⟩

/-- Under `Closed`, every LALR(1) item of state `s` is in the certificate. -/
theorem LALRItem.mem {G : Grammar} {A : Auto} (hc : Closed G A) {s : Nat} {it : Item}
    (h : LALRItem G A s it) : it ∈ A.items s := by
  obtain ⟨γ, hpath, hit⟩ := h
  obtain ⟨s', hpath', hmem⟩ := hit.in_state hc
  rw [hpath.det hpath']
  exact hmem

end Lox.LR
