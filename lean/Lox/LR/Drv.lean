import Lox.Drv.Common
import Lox.LR.Model
import Lox.LR.Sugar
import Lox.LR.DrvValidate
/-! Driver ops of the LR vertical.

`lr.parse <withBounds 0|1> <fuel> | _rules | _termCounts | _actions | _goto | kinds | tokens`
  answer: `<acc|rej|timeout|panic> r=<ReadToken calls> ; <event> ; <event> …`
  events, oldest first: `A <value>` for every user action call (value = rendered result),
  `B <value> <begin> <end>` for every `_onBounds` call. -/
namespace Lox.LR
open Lox.Drv

def parseArr (s : String) : Option (Array Int) := (parseInts s).map List.toArray

def showOutcome : Outcome → String
  | .accept => "acc"
  | .reject => "rej"
  | .timeout => "timeout"
  | .panic _ => "panic"

def showEvent (kinds : Array Nat) (rules : Array Int) : Event → Option String
  | .act p kids =>
    if Kind.ofCode (kinds[p]?.getD 0) == .user then
      some ("A " ++ (interp kinds rules (.node p kids)).render)
    else none
  | .bounds _ v b e => some ("B " ++ (interp kinds rules v).render ++ " " ++ toString b ++ " " ++ toString e)

def handleParse (payload : String) : Option String := do
  match payload.splitOn "|" with
  | [hd, rules, tcs, acts, gotos, kinds, toks] =>
    let hd ← parseNats hd
    let (wb, fuel) ← match hd with
      | [wb, fuel] => some (wb, fuel)
      | _ => none
    let T : Tables := { rules := ← parseArr rules, termCounts := ← parseArr tcs,
                        actions := ← parseArr acts, gotos := ← parseArr gotos }
    let kinds := (← parseNats kinds).toArray
    let toks := (← parseNats toks).toArray
    let (o, s) := parse T toks (wb == 1) fuel
    let evs := s.log.reverse.filterMap (showEvent kinds T.rules)
    match o with
    | .accept | .reject => some (" ; ".intercalate ((showOutcome o ++ " r=" ++ toString s.reads) :: evs))
    | _ => some (showOutcome o)
  | _ => none

def handle (op payload : String) : Option String :=
  match op with
  | "lr.parse" => handleParse payload
  | "lr.validate" => handleValidate payload   -- Lox/LR/DrvValidate.lean
  | "lr.errfree" => handleErrFree payload     -- Lox/LR/DrvValidate.lean
  | "lr.validate_safe" => handleValidateSafe payload
  | _ => none

end Lox.LR
