import Lox.Drv.Common
/-! Driver ops of the LR vertical: `handle op payload` answers one protocol line, `none` = unknown op. -/
namespace Lox.LR

def handle (_op _payload : String) : Option String := none

end Lox.LR
