import Lox.LR.Sound
/-! The reduction log of the abstract machine is the post-order of the values on its stack —
an invariant of the machine itself (no completeness conditions needed), so "actions = post-order
of the returned tree" also holds for tables whose conflicts were resolved by precedence. -/
namespace Lox.LR
namespace Abs

/-- Values on the stack above the bottom entry, bottom-most first. -/
def stackVals (st : List Entry) : List Tree := (st.dropLast.map (·.val)).reverse

def LogInv (c : Config) : Prop := c.log = postList (stackVals c.stack)

theorem logInv_init (w : List Nat) : LogInv (init w) := by
  simp [LogInv, init, stackVals, postList]

theorem dropLast_take_drop {α} (l : List α) (k : Nat) (h : l.drop k ≠ []) :
    l.dropLast = l.take k ++ (l.drop k).dropLast := by
  conv => lhs; rw [← List.take_append_drop k l]
  rw [List.dropLast_append_of_ne_nil h]

theorem logInv_step {G : Grammar} {A : Auto} {c c' : Config} (h : step G A c = .cont c')
    (hi : LogInv c) : LogInv c' := by
  obtain ⟨stack, input, log⟩ := c
  cases stack with
  | nil => simp [step] at h
  | cons e st0 =>
    simp only [step] at h
    cases hact : A.action e.state (la input) with
    | none => simp [hact] at h
    | some act =>
      cases act with
      | accept => simp [hact] at h
      | shift s' =>
        simp only [hact, Out.cont.injEq] at h
        subst h
        simp only [LogInv] at hi ⊢
        rw [hi]
        simp [stackVals, postList_append, postList, Tree.post]
      | reduce p =>
        simp only [hact] at h
        cases hp : G.prods[p]? with
        | none => simp [hp] at h
        | some pr =>
          simp only [hp] at h
          cases hd : (e :: st0).drop pr.rhs.length with
          | nil => simp [hd] at h
          | cons e' rest =>
            simp only [hd] at h
            cases hgo : A.goto e'.state pr.lhs with
            | none => simp [hgo] at h
            | some s'' =>
              simp only [hgo, Out.cont.injEq] at h
              subst h
              simp only [LogInv] at hi ⊢
              rw [hi]
              have hne : (e :: st0).drop pr.rhs.length ≠ [] := by rw [hd]; simp
              have h1 := dropLast_take_drop (e :: st0) pr.rhs.length hne
              rw [hd] at h1
              simp only [stackVals]
              rw [h1]
              simp [postList_append, postList, Tree.post, List.dropLast_cons_of_ne_nil,
                List.append_assoc]

theorem logInv_reaches {G : Grammar} {A : Auto} {c c' : Config} (h : Reaches G A c c')
    (hi : LogInv c) : LogInv c' := by
  induction h with
  | refl => exact hi
  | step hs _ ih => exact ih (logInv_step hs hi)

/-- At an accepting step the stack is the start symbol's entry on top of the bottom entry. -/
theorem acc_shape {G : Grammar} {A : Auto} (hs : Safe G A) {c : Config} {t}
    (h : step G A c = .acc t) {syms w} (hinv : StackInv G A c.stack syms w) :
    ∃ e b, c.stack = [e, b] ∧ e.val = t := by
  obtain ⟨stack, input, log⟩ := c
  cases stack with
  | nil => simp [step] at h
  | cons e st0 =>
    simp only [step] at h
    cases hact : A.action e.state (la input) with
    | none => simp [hact] at h
    | some act =>
      cases act with
      | shift s' => simp [hact] at h
      | reduce p =>
        simp only [hact] at h
        split at h
        · simp at h
        · split at h
          · simp at h
          · split at h <;> simp at h
      | accept =>
        simp only [hact, Out.acc.injEq] at h
        obtain ⟨_, a', hitem⟩ := hs.acc _ _ hact
        obtain ⟨S', hp0⟩ := hs.prod0
        obtain ⟨hle, _, _, a'', h0⟩ := walk hs 1 hinv 0 a' _ (by simpa using hitem) hp0
        cases hinv with
        | base v0 => simp at hle
        | @push e1 st1 syms1 w1 X s' u v hinv' htr hder =>
          have hz : e1.state = 0 := hs.startOnly _ _ (by simpa using h0)
          obtain ⟨hst, _, _⟩ := StackInv.bottom_of_zero hs hinv' hz
          subst hst
          exact ⟨_, e1, rfl, by simpa using h⟩

/-- Soundness of the log: an accepting run has performed exactly the post-order reductions of the
tree it returns (needs only `Safe`). -/
theorem sound_log {G : Grammar} {A : Auto} (hs : Safe G A) {w : List Nat} {n t lg}
    (h : run G A n (init w) = .acc t lg) : lg = t.post := by
  obtain ⟨c', hr, hst, hlg⟩ := reaches_of_run_acc n _ h
  obtain ⟨syms', u, hinv, _⟩ := reaches_inv hs hr (StackInv.base (G := G) (A := A) (.leaf 0))
  have hli := logInv_reaches hr (logInv_init w)
  obtain ⟨e, b, hstack, hval⟩ := acc_shape hs hst hinv
  simp only [LogInv, hstack] at hli
  rw [← hlg, hli, ← hval]
  simp [stackVals, postList]

end Abs
end Lox.LR
