import Lox.LR.RuntimeProofsRecover
/-! C09-1 (d): runs without a successful recovery are plain shift/reduce runs whose only `Error`
values wrap lexer ERROR tokens; after a successful recovery the injected `Error` is tracked until
it is delivered to an action. -/
namespace Lox.LR.Rt

/-! ## Zero recoveries = plain run -/

theorem PlainReach.reach {T : Tables} {inp : Array Nat} {wb : Bool} {fuel : Nat} {a b : PState}
    (h : PlainReach T inp wb fuel a b) : Reach T inp wb fuel a b := by
  induction h with
  | refl => exact .refl _
  | step _ h _ ih => exact .step h ih

/-- A property preserved by every plain continuing iteration holds along a plain run. -/
theorem PlainReach.inv {T : Tables} {inp : Array Nat} {wb : Bool} {fuel : Nat} {P : PState → Prop}
    (hstep : ∀ s s', P s → isRecoverStep T s = false → Lox.LR.step T inp wb fuel s = .cont s' → P s')
    {a b : PState} (h : PlainReach T inp wb fuel a b) (ha : P a) : P b := by
  induction h with
  | refl => exact ha
  | step hp h _ ih => exact ih (hstep _ _ ha hp h)

/-- A run whose ghost counter is 0 never saw `_recover()` return `true`: it is a plain run up to
its last iteration. -/
theorem runLoopG_zero {T : Tables} {inp : Array Nat} {wb : Bool} {fuel : Nat} :
    ∀ (n : Nat) (s : PState), (runLoopG T inp wb fuel n s).2.2 = 0 →
      ∃ sl, PlainReach T inp wb fuel s sl ∧
        (((runLoopG T inp wb fuel n s).1 = .timeout ∧ (runLoopG T inp wb fuel n s).2.1 = sl) ∨
         step T inp wb fuel sl =
           .done (runLoopG T inp wb fuel n s).1 (runLoopG T inp wb fuel n s).2.1)
  | 0, s, _ => ⟨s, .refl s, .inl ⟨rfl, rfl⟩⟩
  | n + 1, s, h0 => by
    unfold runLoopG at h0 ⊢
    cases h : step T inp wb fuel s with
    | cont s' =>
      simp only [h] at h0 ⊢
      have hr : isRecoverStep T s = false := by
        cases hh : isRecoverStep T s with
        | false => rfl
        | true => simp [hh] at h0
      have h0' : (runLoopG T inp wb fuel n s').2.2 = 0 := by omega
      obtain ⟨sl, hp, hsl⟩ := runLoopG_zero n s' h0'
      exact ⟨sl, .step hr h hp, hsl⟩
    | done o s' => exact ⟨s, .refl s, .inr h⟩

/-- A plain continuing iteration is a shift or a reduce. -/
theorem plain_step {T : Tables} {inp : Array Nat} {wb : Bool} {fuel : Nat} {s s' : PState}
    (hp : isRecoverStep T s = false) (h : step T inp wb fuel s = .cont s') :
    (∃ a ti, (if wb = true then symTokIdx s.lasym else some 0) = some ti ∧
      readToken T inp (shiftState s a ti) = .ok s') ∨
    (∃ prod n ns, n ≤ s.stack.length ∧ s' = reduceState s wb prod n ns) := by
  cases step_cont h with
  | recover htop hf _ => rw [isRecoverStep_miss htop hf] at hp; cases hp
  | shift _ _ _ _ hti hr => exact .inl ⟨_, _, hti, hr⟩
  | reduce _ _ _ _ _ _ _ hl _ _ => exact .inr ⟨_, _, _, hl, rfl⟩

/-! ## `Error` values of a plain run wrap lexer ERROR tokens -/

theorem errsInL_of_forall {P : Nat → Bool} : ∀ {l : List Val},
    (∀ v ∈ l, errsIn P v = true) → errsInL P l = true
  | [], _ => rfl
  | v :: vs, h => by
    simp only [errsInL, Bool.and_eq_true]
    exact ⟨h v List.mem_cons_self, errsInL_of_forall (fun x hx => h x (List.mem_cons_of_mem _ hx))⟩

theorem errsInL_forall {P : Nat → Bool} : ∀ {l : List Val},
    errsInL P l = true → ∀ v ∈ l, errsIn P v = true
  | [], _, _, hv => by cases hv
  | v :: vs, h, x, hx => by
    simp only [errsInL, Bool.and_eq_true] at h
    rcases List.mem_cons.mp hx with rfl | hx
    · exact h.1
    · exact errsInL_forall h.2 x hx

mutual
theorem errsIn_mono {P Q : Nat → Bool} (hPQ : ∀ i, P i = true → Q i = true) :
    ∀ (v : Val), errsIn P v = true → errsIn Q v = true
  | .nil, _ => rfl
  | .tok _ _, _ => rfl
  | .err i _ _, h => hPQ i h
  | .node _ kids, h => by
    simp only [errsIn] at h ⊢
    exact errsInL_mono hPQ kids h
theorem errsInL_mono {P Q : Nat → Bool} (hPQ : ∀ i, P i = true → Q i = true) :
    ∀ (l : List Val), errsInL P l = true → errsInL Q l = true
  | [], _ => rfl
  | v :: vs, h => by
    simp only [errsInL, Bool.and_eq_true] at h ⊢
    exact ⟨errsIn_mono hPQ v h.1, errsInL_mono hPQ vs h.2⟩
end

theorem makeError_spec {T : Tables} {s : PState} {v : Val} (h : makeError T s = .ok v) :
    ∃ i ty ks, s.lasym = .tok i ty ∧ v = .err i ty ks := by
  unfold makeError at h
  split at h
  · rename_i i ty hl
    split at h
    · cases h
    · split at h
      · cases h
      · cases h; exact ⟨i, ty, _, hl, rfl⟩
  · cases h

theorem lexRead_error {inp : Array Nat} {pos : Nat} (h : (lexRead inp pos).2 = tERROR) :
    (lexRead inp pos).1 = .tok pos 1 ∧ inp[pos]? = some 1 := by
  unfold lexRead at h ⊢
  cases hi : inp[pos]? with
  | none => simp only [hi] at h; cases h
  | some ty =>
    simp only [hi] at h ⊢
    have : ty = 1 := by
      have : (ty : Int) = 1 := h
      omega
    subst this
    exact ⟨rfl, rfl⟩

theorem readToken_ErrsInv {T : Tables} {inp : Array Nat} {s s' : PState}
    (hs : ErrsInv (lexErrAt inp) s) (h : readToken T inp s = .ok s') :
    ErrsInv (lexErrAt inp) s' := by
  obtain ⟨h1, h2, h3, h4⟩ := hs
  rw [readToken_eq] at h
  split at h
  · rename_i hq
    cases h
    exact ⟨h2 hq, fun hc => absurd rfl hc, h3, h4⟩
  · rename_i hq
    have hq' : s.qla = -1 := Decidable.not_not.mp hq
    split at h
    · rename_i hE
      split at h
      · cases h
      · rename_i e he
        cases h
        obtain ⟨i, ty, ks, hl, rfl⟩ := makeError_spec he
        obtain ⟨hl1, hl2⟩ := lexRead_error hE
        have : (lexRead inp s.pos).1 = .tok i ty := hl
        rw [hl1] at this
        cases this
        refine ⟨?_, fun hc => absurd hq' hc, h3, h4⟩
        show lexErrAt inp s.pos = true
        simp [lexErrAt, hl2]
    · cases h
      refine ⟨?_, fun hc => absurd hq' hc, h3, h4⟩
      show errsIn _ (lexRead inp s.pos).1 = true
      unfold lexRead; split <;> rfl

theorem Reads.ErrsInv {T : Tables} {inp : Array Nat} {a b : PState} (h : Reads T inp a b)
    (ha : ErrsInv (lexErrAt inp) a) : ErrsInv (lexErrAt inp) b := by
  induction h with
  | refl => exact ha
  | step h _ ih => exact ih (readToken_ErrsInv ha h)

theorem shiftState_ErrsInv {P : Nat → Bool} {s : PState} (hs : ErrsInv P s) (a : Int) (ti : Nat) :
    ErrsInv P (shiftState s a ti) := by
  obtain ⟨h1, h2, h3, h4⟩ := hs
  refine ⟨h1, h2, ?_, h4⟩
  intro e he
  rcases List.mem_cons.mp he with rfl | he
  · exact h1
  · exact h3 e he

theorem reduceState_ErrsInv {P : Nat → Bool} {s : PState} (hs : ErrsInv P s) (wb : Bool) (prod : Int)
    (n : Nat) (ns : Int) : ErrsInv P (reduceState s wb prod n ns) := by
  obtain ⟨h1, h2, h3, h4⟩ := hs
  have hk : errsInL P ((s.stack.take n).reverse.map (·.sym)) = true := by
    apply errsInL_of_forall
    intro v hv
    obtain ⟨e, he, rfl⟩ := List.mem_map.mp hv
    exact h3 e (List.mem_of_mem_take (List.mem_reverse.mp he))
  refine ⟨h1, h2, ?_, ?_⟩
  · intro e he
    rcases List.mem_cons.mp he with rfl | he
    · exact hk
    · exact h3 e (List.mem_of_mem_drop he)
  · intro ev hev
    simp only [reduceState] at hev
    split at hev
    · rcases List.mem_cons.mp hev with rfl | hev
      · exact hk
      · rcases List.mem_cons.mp hev with rfl | hev
        · exact hk
        · exact h4 ev hev
    · rcases List.mem_cons.mp hev with rfl | hev
      · exact hk
      · exact h4 ev hev

theorem plain_step_ErrsInv {T : Tables} {inp : Array Nat} {wb : Bool} {fuel : Nat} {s s' : PState}
    (hs : ErrsInv (lexErrAt inp) s) (hp : isRecoverStep T s = false)
    (h : step T inp wb fuel s = .cont s') : ErrsInv (lexErrAt inp) s' := by
  rcases plain_step hp h with ⟨a, ti, -, hr⟩ | ⟨prod, n, ns, -, rfl⟩
  · exact readToken_ErrsInv (shiftState_ErrsInv hs a ti) hr
  · exact reduceState_ErrsInv hs wb prod n ns

theorem step_done_ErrsInv {T : Tables} {inp : Array Nat} {wb : Bool} {fuel : Nat} {s s' : PState}
    {o : Outcome} (hs : ErrsInv (lexErrAt inp) s) (h : step T inp wb fuel s = .done o s') :
    ErrsInv (lexErrAt inp) s' := by
  rcases step_done h with ⟨-, rfl, -⟩ | ⟨-, top, -, -, hr⟩ | ⟨-, rfl, -⟩ |
    ⟨w, -, rfl | ⟨top, a, ti, -, -, rfl⟩⟩
  · exact hs
  · obtain ⟨s1, h1, -, rfl | rfl⟩ := recover_fail hr
    · exact h1.ErrsInv hs
    · obtain ⟨a1, a2, -, a4⟩ := h1.ErrsInv hs
      exact ⟨a1, a2, fun e he => (by cases he), a4⟩
  · exact hs
  · exact hs
  · exact shiftState_ErrsInv hs a ti

theorem initState_ErrsInv (P : Nat → Bool) : ErrsInv P initState := by
  refine ⟨rfl, fun hc => absurd rfl hc, ?_, ?_⟩
  · intro e he
    rcases List.mem_cons.mp he with rfl | he
    · rfl
    · cases he
  · intro ev hev; cases hev

/-- **no_silent_accept (runtime part).** If `_recover()` never returned `true` during the run,
then every `Error` value in the final state – lookaheads, stack, every argument of every action
call in the log – wraps a lexer ERROR token of the input. -/
theorem parseG_zero_ErrsInv {T : Tables} {inp : Array Nat} {wb : Bool} {fuel : Nat}
    (h0 : (parseG T inp wb fuel).2.2 = 0) : ErrsInv (lexErrAt inp) (parseG T inp wb fuel).2.1 := by
  unfold parseG at h0 ⊢
  cases h : readToken T inp initState with
  | error w => exact initState_ErrsInv _
  | ok s1 =>
    simp only [h] at h0 ⊢
    have h1 := readToken_ErrsInv (initState_ErrsInv _) h
    obtain ⟨sl, hp, hsl⟩ := runLoopG_zero fuel s1 h0
    have hl : ErrsInv (lexErrAt inp) sl :=
      hp.inv (fun _ _ hs hpl hst => plain_step_ErrsInv hs hpl hst) h1
    rcases hsl with ⟨-, h2⟩ | h2
    · rw [h2]; exact hl
    · exact step_done_ErrsInv hl h2

/-! ## Tracking the injected `Error` up to its delivery -/

theorem recover_Pending {T : Tables} {inp : Array Nat} {fuel : Nat} {s s' : PState}
    (h : recover T inp fuel s = .ok s') : Pending s' := by
  obtain ⟨hla, ⟨i, ty, ex, hsym, -⟩, -⟩ := recover_result h
  exact ⟨hla, by rw [hsym]; rfl⟩

theorem Delivered_mono {l l' : List Event} (h : ∀ ev ∈ l, ev ∈ l') (hd : Delivered l) :
    Delivered l' := by
  obtain ⟨p, kids, hm, hk⟩ := hd
  exact ⟨p, kids, h _ hm, hk⟩

theorem reduceState_log_mem {s : PState} {wb : Bool} {prod : Int} {n : Nat} {ns : Int} :
    (∀ ev ∈ s.log, ev ∈ (reduceState s wb prod n ns).log) ∧
    Event.act prod.toNat ((s.stack.take n).reverse.map (·.sym)) ∈ (reduceState s wb prod n ns).log := by
  simp only [reduceState]
  split
  · exact ⟨fun ev hev => List.mem_cons_of_mem _ (List.mem_cons_of_mem _ hev),
      List.mem_cons_of_mem _ List.mem_cons_self⟩
  · exact ⟨fun ev hev => List.mem_cons_of_mem _ hev, List.mem_cons_self⟩

/-- Once an `Error` has been injected (or is on the stack, or has been delivered) this stays so:
it can only leave the lookahead by being shifted, and the stack by becoming an argument of an
action call (a later `_recover()` that pops it injects a fresh one). -/
theorem step_ErrTrack {T : Tables} {inp : Array Nat} {wb : Bool} {fuel : Nat} {s s' : PState}
    (hs : ErrTrack s ∨ isRecoverStep T s = true) (h : step T inp wb fuel s = .cont s') :
    ErrTrack s' := by
  cases step_cont h with
  | recover _ _ hr => exact .inl (recover_Pending hr)
  | @shift top action ti _ htop hf _ _ _ hr =>
    have hfr := readToken_frame hr
    rcases hs with hs | hs
    · rcases hs with ⟨-, hsym⟩ | ⟨e, he, hsym⟩ | hd
      · refine .inr (.inl ⟨{ state := action, sym := s.lasym, bounds := { b := ti, e := ti } },
          ?_, hsym⟩)
        rw [hfr.stack]; exact List.mem_cons_self
      · refine .inr (.inl ⟨e, ?_, hsym⟩)
        rw [hfr.stack]; exact List.mem_cons_of_mem _ he
      · refine .inr (.inr ?_)
        rw [hfr.log]; exact hd
    · rw [isRecoverStep_hit htop hf] at hs; cases hs
  | @reduce top action tc rule top' ns htop hf =>
    rcases hs with hs | hs
    · rcases hs with hp | ⟨e, he, hsym⟩ | hd
      · exact .inl hp
      · rw [← List.take_append_drop tc.toNat s.stack] at he
        rcases List.mem_append.mp he with he | he
        · refine .inr (.inr ⟨_, _, reduceState_log_mem.2, e.sym, ?_, hsym⟩)
          exact List.mem_map.mpr ⟨e, List.mem_reverse.mpr he, rfl⟩
        · exact .inr (.inl ⟨e, List.mem_cons_of_mem _ he, hsym⟩)
      · exact .inr (.inr (Delivered_mono reduceState_log_mem.1 hd))
    · rw [isRecoverStep_hit htop hf] at hs; cases hs

/-- If the run accepts after at least one successful recovery, then in the accepting state the
injected `Error` is still the lookahead, or sits on the stack, or was delivered to an action. -/
theorem runLoopG_ErrTrack {T : Tables} {inp : Array Nat} {wb : Bool} {fuel : Nat} :
    ∀ (n : Nat) (s : PState), (runLoopG T inp wb fuel n s).1 = .accept →
      (ErrTrack s ∨ 0 < (runLoopG T inp wb fuel n s).2.2) →
      ErrTrack (runLoopG T inp wb fuel n s).2.1
  | 0, s, ha, _ => by simp [runLoopG] at ha
  | n + 1, s, ha, hs => by
    unfold runLoopG at ha hs ⊢
    cases h : step T inp wb fuel s with
    | cont s' =>
      simp only [h] at ha hs ⊢
      apply runLoopG_ErrTrack n s' ha
      rcases hs with hs | hs
      · exact .inl (step_ErrTrack (.inl hs) h)
      · cases hr : isRecoverStep T s with
        | true => exact .inl (step_ErrTrack (.inr hr) h)
        | false =>
          simp only [hr, Bool.false_eq_true, if_false, Nat.add_zero] at hs
          exact .inr hs
    | done o s' =>
      simp only [h] at ha hs ⊢
      rcases hs with hs | hs
      · rcases step_done h with ⟨-, rfl, -⟩ | ⟨ho, -⟩ | ⟨ho, -⟩ | ⟨w, ho, -⟩
        · exact hs
        · rw [ho] at ha; cases ha
        · rw [ho] at ha; cases ha
        · rw [ho] at ha; cases ha
      · exact absurd hs (Nat.lt_irrefl 0)

/-- The accepting state: the action found is `accept`. -/
theorem runLoopG_accept_final {T : Tables} {inp : Array Nat} {wb : Bool} {fuel : Nat} :
    ∀ (n : Nat) (s : PState), (runLoopG T inp wb fuel n s).1 = .accept →
      ∃ top, topState (runLoopG T inp wb fuel n s).2.1.stack = some top ∧
        find T.actions top (runLoopG T inp wb fuel n s).2.1.la = .hit acceptCode
  | 0, s, ha => by simp [runLoopG] at ha
  | n + 1, s, ha => by
    unfold runLoopG at ha ⊢
    cases h : step T inp wb fuel s with
    | cont s' =>
      simp only [h] at ha ⊢
      exact runLoopG_accept_final n s' ha
    | done o s' =>
      simp only [h] at ha ⊢
      rcases step_done h with ⟨-, rfl, hacc⟩ | ⟨ho, -⟩ | ⟨ho, -⟩ | ⟨w, ho, -⟩
      · exact hacc
      · rw [ho] at ha; cases ha
      · rw [ho] at ha; cases ha
      · rw [ho] at ha; cases ha

/-- **error_delivered (runtime part).** `parse` accepted after at least one successful
recovery. If `accept` is only entered on EOF (table-level, true of LR tables) and no `Error`
value is left on the accepting stack (run-level; on validated tables the accepting stack is
`[S-node, bottom]`), then some action was called with an `Error` argument. -/
theorem parseG_error_delivered {T : Tables} {inp : Array Nat} {wb : Bool} {fuel : Nat}
    (hacc : (parseG T inp wb fuel).1 = .accept) (hrec : 0 < (parseG T inp wb fuel).2.2)
    (hT : AcceptOnlyEOF T)
    (hstk : ∀ e ∈ (parseG T inp wb fuel).2.1.stack, e.sym.isErr = false) :
    Delivered (parseG T inp wb fuel).2.1.log := by
  unfold parseG at hacc hrec hstk ⊢
  cases h : readToken T inp initState with
  | error w => simp only [h] at hacc; cases hacc
  | ok s1 =>
    simp only [h] at hacc hrec hstk ⊢
    have ht := runLoopG_ErrTrack fuel s1 hacc (.inr hrec)
    obtain ⟨top, -, hf⟩ := runLoopG_accept_final fuel s1 hacc
    rcases ht with ⟨hla, -⟩ | ⟨e, he, hsym⟩ | hd
    · have := hT _ _ hf
      rw [hla] at this; cases this
    · rw [hstk e he] at hsym; cases hsym
    · exact hd

/-- **error_tracked.** If `parse` accepts after at least one successful recovery then, in the
accepting state, the injected `Error` is still the lookahead, or sits on the stack, or was
delivered to an action. -/
theorem parseG_ErrTrack {T : Tables} {inp : Array Nat} {wb : Bool} {fuel : Nat}
    (hacc : (parseG T inp wb fuel).1 = .accept) (hrec : 0 < (parseG T inp wb fuel).2.2) :
    ErrTrack (parseG T inp wb fuel).2.1 := by
  unfold parseG at hacc hrec ⊢
  cases h : readToken T inp initState with
  | error w => simp only [h] at hacc; cases hacc
  | ok s1 =>
    simp only [h] at hacc hrec ⊢
    exact runLoopG_ErrTrack fuel s1 hacc (.inr hrec)

mutual
theorem leaves_no_err : ∀ (v : Val), errsIn (fun _ => false) v = true →
    ∀ x ∈ leaves v, x.isErr = false
  | .nil, _, x, hx => by cases hx
  | .tok _ _, _, x, hx => by rw [leaves, List.mem_singleton] at hx; rw [hx]; rfl
  | .err _ _ _, h, _, _ => by simp [errsIn] at h
  | .node _ kids, h, x, hx => by
    rw [errsIn] at h; rw [leaves] at hx
    exact leavesL_no_err kids h x hx
theorem leavesL_no_err : ∀ (l : List Val), errsInL (fun _ => false) l = true →
    ∀ x ∈ leavesL l, x.isErr = false
  | [], _, x, hx => by cases hx
  | v :: vs, h, x, hx => by
    simp only [errsInL, Bool.and_eq_true] at h
    rw [leavesL] at hx
    rcases List.mem_append.mp hx with hx | hx
    · exact leaves_no_err v h.1 x hx
    · exact leavesL_no_err vs h.2 x hx
end

/-! ## The queued lookahead is a real token when the lexer delivers no ERROR token -/

theorem readToken_noErr {T : Tables} {inp : Array Nat} {s s1 : PState}
    (hinp : ∀ i : Nat, inp[i]? ≠ some 1) (h : readToken T inp s = .ok s1) (hq : s.qla ≠ tERROR) :
    s1.la ≠ tERROR ∧ s1.qla ≠ tERROR := by
  rw [readToken_eq] at h
  split at h
  · cases h; exact ⟨hq, show (-1 : Int) ≠ tERROR by decide⟩
  · split at h
    · rename_i hE
      exact absurd (lexRead_error hE).2 (hinp _)
    · rename_i hE
      cases h; exact ⟨hE, hq⟩

theorem Reads.noErr {T : Tables} {inp : Array Nat} {a b : PState} (hinp : ∀ i : Nat, inp[i]? ≠ some 1)
    (h : Reads T inp a b) (hl : a.la ≠ tERROR) (hq : a.qla ≠ tERROR) :
    b.la ≠ tERROR ∧ b.qla ≠ tERROR := by
  induction h with
  | refl => exact ⟨hl, hq⟩
  | step h _ ih =>
    have := readToken_noErr hinp h hq
    exact ih this.1 this.2

theorem Reads.qla_noErr {T : Tables} {inp : Array Nat} {a b : PState}
    (h : Reads T inp a b) (hq : a.qla ≠ tERROR) : b.qla ≠ tERROR := by
  induction h with
  | refl => exact hq
  | @step s s1 s2 h _ ih =>
    apply ih
    rw [readToken_eq] at h
    split at h
    · cases h; show (-1 : Int) ≠ tERROR; decide
    · split at h
      · split at h
        · cases h
        · cases h; exact hq
      · cases h; exact hq

/-- When the lexer delivers no ERROR token, the lookahead queued by a successful `_recover()` is
never ERROR. -/
theorem recover_qla_real {T : Tables} {inp : Array Nat} {fuel : Nat} {s s' : PState}
    (hinp : ∀ i : Nat, inp[i]? ≠ some 1) (hq : s.qla ≠ tERROR) (h : recover T inp fuel s = .ok s') :
    s'.qla ≠ tERROR := by
  obtain ⟨errSym, s0, s1, st, -, h0, hl0, h1, -, rfl, -⟩ := recover_ok h
  exact (h1.noErr hinp hl0 (h0.qla_noErr hq)).1

end Lox.LR.Rt
