import Lox.LR.VerdictE2E
import Lox.Props.C04_verdict
/-! Consequences of `ConflictOK` (the conclusions of the validator `conflictCheckB`, which hold on
the output of the generator model for ALL well-formed grammars: `conflictOK_of_construct`) about
the action cells `createActions` builds, the cells `resolveConflicts` leaves, and what `EmitParser`
writes into `_actions`. Helper lemmas of `Lox/Props/C04_e2e.lean`. -/
namespace Lox.LR
open Lox.Dec (ProdInfo Action resolveOne resolveCell hasConflicts)

/-! ### Congruence of the spec notions in the item sets -/

theorem Settled.congr {G : Grammar} {info : Nat → ProdInfo} {A : Auto} {I J : Nat → Item → Prop}
    {s a : Nat} (h : ∀ it, I s it ↔ J s it) : Settled G info A I s a ↔ Settled G info A J s a := by
  have key : ∀ {I J : Nat → Item → Prop}, (∀ it, I s it ↔ J s it) →
      Settled G info A I s a → Settled G info A J s a := by
    intro I J h ⟨t, rp, h1, h2, h3, h4⟩
    refine ⟨t, rp, fun act => ?_, fun q hq => h2 q (hq.mono_at fun it => (h it).mpr),
      fun q q' hq hq' => h3 q q' (hq.mono_at fun it => (h it).mpr)
        (hq'.mono_at fun it => (h it).mpr), h4⟩
    rw [← h1 act]
    exact ⟨Cand.mono_at fun it => (h it).mpr, Cand.mono_at fun it => (h it).mp⟩
  exact ⟨key h, key fun it => (h it).symm⟩

theorem Unsettled.congr {G : Grammar} {info : Nat → ProdInfo} {A : Auto} {I J : Nat → Item → Prop}
    {s a : Nat} (h : ∀ it, I s it ↔ J s it) :
    Unsettled G info A I s a ↔ Unsettled G info A J s a := by
  unfold Unsettled
  rw [Conflict.congr h, Settled.congr h]

/-- A conflict cell belongs to a state that holds an item. -/
theorem Conflict.has_item {G : Grammar} {A : Auto} {I : Nat → Item → Prop} {s a : Nat}
    (h : Conflict G A I s a) : ∃ it, I s it := by
  obtain ⟨x, _, hx, _, _⟩ := h
  cases hx with
  | shift hmem _ _ _ => exact ⟨_, hmem⟩
  | reduce hmem _ _ => exact ⟨_, hmem⟩
  | accept hmem _ => exact ⟨_, hmem⟩

section
variable {G : Grammar} {nT nR : Nat} {tr : TransTab} {cert : Array (List Item)}

/-- The cell `createActions` builds for `(s, a)` lists the candidate actions of the LALR(1) item
set of `s` BY DEFINITION. -/
theorem ConflictOK.cellOf (h : ConflictOK G nT nR tr cert) (s a : Nat) :
    ∃ cell, Gen.cellOn G nT (trTerm tr s) (itemsOf cert s) a = .ok cell ∧
      CellOf G (skelAuto tr cert) (LALRItem G (skelAuto tr cert)) s a cell ∧
      (cell ≠ [] ↔ a ∈ Gen.cellTerminals G nT (trTerm tr s) (itemsOf cert s)) := by
  obtain ⟨cell, hco, hcell, hne⟩ := h.skel.cellOn_cellOf s a
  exact ⟨cell, hco, hcell.congr (h.items_exact s), hne⟩

/-- A cell is unsettled by definition iff ANY listing of its candidates has at least two entries
and `resolveConflict` does not resolve it. -/
theorem CellOf.unsettled_iff {A : Auto} {I : Nat → Item → Prop} {s a : Nat} {cell : List Action}
    (hc : CellOf G A I s a cell) (info : Nat → ProdInfo) :
    Unsettled G info A I s a ↔ 1 < cell.length ∧ (resolveOne info cell).2 = false := by
  unfold Unsettled
  rw [← hc.conflict_iff, ← hc.resolved_iff info]
  cases (resolveOne info cell).2 <;> simp

/-- … iff more than one action is left after `resolveConflict`. -/
theorem CellOf.unsettled_iff_left {A : Auto} {I : Nat → Item → Prop} {s a : Nat}
    {cell : List Action} (hc : CellOf G A I s a cell) (info : Nat → ProdInfo) :
    Unsettled G info A I s a ↔ 1 < (resolveOne info cell).1.length := by
  rw [hc.unsettled_iff info, Lox.Props.C04.resolveOne_length]
  cases (resolveOne info cell).2 <;> simp

/-- The verdict by definition, with `resolveOne` on any listing of the candidates. -/
theorem ConflictOK.verdict_cells (h : ConflictOK G nT nR tr cert) (info : Nat → ProdInfo) :
    verdictB G nT info tr cert = true ↔
      ∃ s a cell, CellOf G (skelAuto tr cert) (LALRItem G (skelAuto tr cert)) s a cell ∧
        1 < (resolveOne info cell).1.length := by
  rw [verdictB_iff h info]
  constructor
  · rintro ⟨s, a, hu⟩
    obtain ⟨cell, _, hcell, _⟩ := h.cellOf s a
    exact ⟨s, a, cell, hcell, (hcell.unsettled_iff_left info).mp hu⟩
  · rintro ⟨s, a, cell, hcell, hlen⟩
    exact ⟨s, a, (hcell.unsettled_iff_left info).mpr hlen⟩

/-- In a productive grammar the skeleton is the LR(0) automaton and the item sets are the textbook
LALR(1) sets (`skeleton_is_lr0_automaton`, from `ConflictOK` instead of a validator run). -/
theorem ConflictOK.lr0 (ok : ConflictOK G nT nR tr cert) (hpr : Productive G) :
    (∀ γ p d, LR0Item G γ p d → ∃ s, Path (skelAuto tr cert) 0 γ s) ∧
    (∀ γ s, Path (skelAuto tr cert) 0 γ s → ∀ p d,
      HasCore (itemsOf cert s) p d ↔ LR0Item G γ p d) ∧
    (∀ γ γ' s s', Path (skelAuto tr cert) 0 γ s → Path (skelAuto tr cert) 0 γ' s' →
      (s = s' ↔ SameLR0 G γ γ')) ∧
    (∀ γ s, Path (skelAuto tr cert) 0 γ s → ∀ it, it ∈ itemsOf cert s ↔ LALRSet G γ it) := by
  have hcl := ok.skel.closed
  have hs := ok.skel.safe
  have he := ok.skel.edgesBacked
  have hn : ∀ s it, it ∈ (skelAuto tr cert).items s → s < cert.size := fun s it hit => mem_itemsOf hit
  refine ⟨fun γ p d hlr => ?_, fun γ s hpath p d => cores_eq_lr0 hcl hs ok.justd hpr hpath p d,
    fun γ γ' s s' hpath hpath' => ⟨fun e p d => ?_, fun hsame => ?_⟩,
    fun γ s hpath it => items_eq_lalrSet hcl hs ok.justd he ok.kernels hn hpr hpath it⟩
  · obtain ⟨s, hpath, _⟩ := hlr.in_state hcl hpr
    exact ⟨s, hpath⟩
  · subst e
    rw [← cores_eq_lr0 hcl hs ok.justd hpr hpath, ← cores_eq_lr0 hcl hs ok.justd hpr hpath']
  · exact same_state hcl hs ok.justd he ok.kernels hn hpr hpath' hpath hsame

/-- When the verdict is "no conflict", every cell that exists holds exactly one action after
`resolveConflicts`, one of the candidates; every other candidate was removed by the documented
rule. -/
theorem accepted_cell (info : Nat → ProdInfo)
    (hv : verdictB G nT info tr cert = false) {s : Nat} (hs : s < cert.size) (a : Nat)
    {cell : List Action} (hco : Gen.cellOn G nT (trTerm tr s) (itemsOf cert s) a = .ok cell)
    (ha : a ∈ Gen.cellTerminals G nT (trTerm tr s) (itemsOf cert s)) :
    ∃ x, (resolveCell info cell).1 = [x] ∧ x ∈ cell ∧
      ∀ y ∈ cell, y = x ∨ (resolveOne info cell).2 = true := by
  have hmem : cell ∈ tableCells G nT tr cert := mem_tableCells.mpr ⟨s, hs, a, ha, hco⟩
  obtain ⟨x, hx, hxc⟩ := Lox.Props.C04.accepted_table_deterministic info _ hv cell hmem
  refine ⟨x, hx, hxc, fun y hy => ?_⟩
  cases hr : (resolveOne info cell).2 with
  | true => exact .inr rfl
  | false =>
    left
    have hun := Lox.Dec.unresolved_unchanged info cell hr
    unfold resolveCell at hx
    split at hx
    · simp only at hx
      rw [hx] at hy
      simpa using hy
    · simp only at hx
      rw [hun] at hx
      rw [hx] at hy
      simpa using hy

end

end Lox.LR

namespace Lox.LR.Emit
open Lox.LR Lox.LR.Gen Lox.LR.Cons
open Lox.Dec (ProdInfo Action resolveOne resolveCell)

section
variable {info : Nat → ProdInfo} {G : Grammar} {nT : Nat} {tr : Nat → Option Nat} {I : List Item}

/-- `ActionMap.Get` after `resolveConflicts`: the resolved cell of a terminal that has one. -/
theorem lookupCell_cellsOf_some {cells : List (Nat × List Action)}
    (h : cellsOf info G nT tr I = some cells) {a : Nat} {c : List Action}
    (ha : a ∈ cellTerminals G nT tr I) (hc : cellOn G nT tr I a = .ok c) :
    lookupCell a cells = some (resolveCell info c).1 := by
  unfold cellsOf at h
  cases hao : actionsOf G nT tr I with
  | none => simp [hao] at h
  | some cells0 =>
    simp only [hao, Option.map_some, Option.some.injEq] at h
    subst h
    rw [lookupCell_map (fun c => (resolveCell info c).1),
      (lookupCell_actionsOf hao a c).mpr ⟨ha, hc⟩]
    rfl

/-- … and no cell for any other terminal. -/
theorem lookupCell_cellsOf_none {cells : List (Nat × List Action)}
    (h : cellsOf info G nT tr I = some cells) {a : Nat} (ha : a ∉ cellTerminals G nT tr I) :
    lookupCell a cells = none := by
  unfold cellsOf at h
  cases hao : actionsOf G nT tr I with
  | none => simp [hao] at h
  | some cells0 =>
    simp only [hao, Option.map_some, Option.some.injEq] at h
    subst h
    rw [lookupCell_map (fun c => (resolveCell info c).1)]
    cases hl : lookupCell a cells0 with
    | none => rfl
    | some c => exact absurd ((lookupCell_actionsOf hao a c).mp hl).1 ha

end

end Lox.LR.Emit
