import Lox.LR.Abstract
import Lox.Dec.Resolve
/-! Executable model of the generator's own LALR(1) lookahead machinery
(`/repo/internal/parsergen/lr1`): the pure functions that decide which lookaheads an item set
carries and which actions a state gets.

| Go                                             | model                                   |
|------------------------------------------------|-----------------------------------------|
| `first.go`   `firstSets` (fixpoint loop)       | `stepProd`, `round`, `iter`, `firstSets`|
| `first.go`   `first`, `First`                  | `firstSym`, `firstSeq`, `firstOfSyms`   |
| `closure.go` `Closure` (rounds over `pending`) | `expand`, `closureRound`, `closureLoop`, `closure?` |
| `goto.go`    `Goto`                            | `advance`, `goto?`                      |
| `next.go`    `Next`                            | `next` (canonical order, see there)     |
| `item.go`    `Item.IsKernel`, `SortItems`      | `isKernel`, `itemLt`, `sortItems`       |
| `item_set.go` `ItemSet.LR0Key`                 | `lr0Key`                                |
| `construct.go` `createActions` + `action.go`   | `want`, `cellOn`, `actionsOf`           |

Conventions (as in `Model.lean` / `Abstract.lean`): terminals and rules are numbers, terminal 0 is
EOF, production 0 is `S' → start`; an item is `Lox.LR.Item` (`p`, `d`, `a`). Go's `set.Set[T]` is a
duplicate-free list here (iteration order of a Go set is unspecified; every answer that leaves the
model is put in canonical order). The pseudo-terminal `Epsilon` of `first.go` is the `Bool`
component of an `Entry`. Go panics (index out of range, `TransitionMap.Get`, `AddShift`,
`AddAccept`) are the `none` answers of the `…Go` functions. Core Lean only. -/
namespace Lox.LR.Gen
open Lox.LR

/-! ## FIRST (`first.go`) -/

/-- A FIRST set: the terminals and whether `Epsilon` is a member. -/
abbrev Entry := List Nat × Bool

/-- `ruleFirst`: one entry per rule (`map[*Rule]*set.Set[*Terminal]`, keyed by rule number). -/
abbrev Tab := Array Entry

/-- `ruleFirst[rule]`; a rule that is not in the map has the empty set (the `nil` branch of
`first`). -/
def tget (F : Tab) (B : Nat) : Entry := F[B]?.getD ([], false)

/-- `first(ruleFirst, s)`: a terminal is its own FIRST set, a rule is looked up. -/
def firstSym (F : Tab) : Sym → Entry
  | .t a => ([a], false)
  | .n B => tget F B

/-- `set.Add`. -/
def addT (a : Nat) (l : List Nat) : List Nat := if a ∈ l then l else l ++ [a]

/-- Add every element of the second list to the first. -/
def union (l : List Nat) : List Nat → List Nat
  | [] => l
  | a :: r => union (addT a l) r

/-- The walk over a symbol string shared by `First` (over `syms`) and by the inner loop of
`firstSets` (over `prod.Terms`): collect the non-ε members of the FIRST set of each symbol while
the symbols so far all contain ε; the flag says whether the walk fell off the end (`addEpsilon` /
the final `firstSet.Add(Epsilon)`). -/
def firstSeq (F : Tab) : List Sym → Entry
  | [] => ([], true)
  | s :: r =>
    if (firstSym F s).2 then (union (firstSym F s).1 (firstSeq F r).1, (firstSeq F r).2)
    else ((firstSym F s).1, false)

/-- Number of rules that own a production (`len(g.Rules)` for the purposes of FIRST: a rule without
productions has the empty FIRST set either way). -/
def numRules (G : Grammar) : Nat := G.prods.toList.foldl (fun m pr => max m (pr.lhs + 1)) 0

/-- The body of `for _, prod := range g.Prods` in `firstSets`: the walk over `prod.Terms`, its
results added to `ruleFirst[prod.Rule]`; the flag is what the iteration contributes to `changed`.
(The Go loop adds to the set while it walks; what it reads back from the set being modified are
only elements it has just added to that same set, so walking first and adding afterwards yields
the same set.) -/
def stepProd (F : Tab) (pr : Prod) : Tab × Bool :=
  if pr.lhs < F.size then
    let cur := tget F pr.lhs
    let e := firstSeq F pr.rhs
    let new : Entry := (union cur.1 e.1, cur.2 || e.2)
    (F.setIfInBounds pr.lhs new, new != cur)
  else (F, false)

/-- One pass over all productions. -/
def round (G : Grammar) (F : Tab) : Tab × Bool :=
  G.prods.toList.foldl (fun st pr => ((stepProd st.1 pr).1, st.2 || (stepProd st.1 pr).2)) (F, false)

/-- `for changed := true; changed; { … }` with fuel; the flag says that a pass without change was
reached (the loop exited by itself). -/
def iter (G : Grammar) : Nat → Tab → Tab × Bool
  | 0, F => (F, false)
  | n + 1, F => if (round G F).2 then iter G n (round G F).1 else ((round G F).1, true)

def firstInit (G : Grammar) : Tab := Array.replicate (numRules G) ([], false)

/-- (#rules × (#terminals + 1)) + 1 passes: every pass but the last adds a fact. -/
def firstFuel (G : Grammar) (nT : Nat) : Nat := numRules G * (nT + 1) + 1

/-- `firstSets(g)`. `nT` = `len(g.Terminals)` (used for the fuel only). -/
def firstSets (G : Grammar) (nT : Nat) : Tab := (iter G (firstFuel G nT) (firstInit G)).1

/-- The loop of `firstSets` stopped by itself within the fuel. -/
def firstConverged (G : Grammar) (nT : Nat) : Bool := (iter G (firstFuel G nT) (firstInit G)).2

/-- `First(g, syms)`. -/
def firstOfSyms (G : Grammar) (nT : Nat) (α : List Sym) : Entry := firstSeq (firstSets G nT) α

/-- Every terminal on a right-hand side is below `nT`. -/
def termsBelowB (G : Grammar) (nT : Nat) : Bool :=
  G.prods.toList.all fun pr => pr.rhs.all fun s => match s with
    | .t a => decide (a < nT)
    | .n _ => true

/-- A bound that always works: one more than the largest terminal of a right-hand side. -/
def termBound (G : Grammar) : Nat :=
  G.prods.toList.foldl (fun m pr => pr.rhs.foldl (fun m s => match s with
    | .t a => max m (a + 1)
    | .n _ => m) m) 0

/-- FIRST(α a) as the list of lookaheads `Closure` iterates over: `First(g, append(beta, a))`. -/
def firstLA (F : Tab) (β : List Sym) (a : Nat) : List Nat := (firstSeq F (β ++ [.t a])).1

/-! ## Canonical order (`SortItems`, sorted keys) -/

/-- Insert into a strictly increasing list (no duplicates). -/
def sinsert {α : Type} (lt : α → α → Bool) (a : α) : List α → List α
  | [] => [a]
  | b :: r => if lt a b then a :: b :: r else if lt b a then b :: sinsert lt a r else b :: r

def ssort {α : Type} (lt : α → α → Bool) (l : List α) : List α := l.foldr (sinsert lt) []

/-- The order of `SortItems` (item.go): by production, dot, lookahead. -/
def itemLt (x y : Item) : Bool :=
  x.p < y.p || (x.p == y.p && (x.d < y.d || (x.d == y.d && x.a < y.a)))

/-- `ItemSet.Items()`: the elements of the set in `SortItems` order. -/
def sortItems (I : List Item) : List Item := ssort itemLt I

def pairLt (x y : Nat × Nat) : Bool := x.1 < y.1 || (x.1 == y.1 && x.2 < y.2)

/-- Terminals before rules, each by number. (`Next` sorts by NAME; names are not part of
`Lox.LR.Grammar`, the order of `Next` only decides in which order states are numbered.) -/
def symLt : Sym → Sym → Bool
  | .t a, .t b => a < b
  | .t _, .n _ => true
  | .n _, .t _ => false
  | .n a, .n b => a < b

/-! ## Closure (`closure.go`) -/

/-- `ruleB.Prods`: the productions of rule `B`, by index. -/
def prodsOf (G : Grammar) (B : Nat) : List Nat :=
  (List.range G.prods.size).filter fun q => match G.prods[q]? with
    | some pr => pr.lhs == B
    | none => false

/-- The symbol after the dot. -/
def afterDot (G : Grammar) (it : Item) : Option Sym :=
  match G.prods[it.p]? with
  | some pr => pr.rhs[it.d]?
  | none => none

/-- What one pending item `[A → α·Bβ, a]` asks for: `[B → ·γ, x]` for every production of `B` and
every `x ∈ FIRST(βa)` (the body of `for _, item := range pendingItems`). -/
def expand (G : Grammar) (F : Tab) (it : Item) : List Item :=
  match G.prods[it.p]? with
  | none => []
  | some pr =>
    match pr.rhs[it.d]? with
    | some (.n B) =>
      (prodsOf G B).flatMap fun q => (firstLA F (pr.rhs.drop (it.d + 1)) it.a).map fun x => ⟨q, 0, x⟩
    | _ => []

/-- `if result.Add(newItem) { pending.Add(newItem) }` on the pair (result, pending). -/
def addNew (st : List Item × List Item) (x : Item) : List Item × List Item :=
  if x ∈ st.1 then st else (x :: st.1, x :: st.2)

/-- One pass of `for !pending.Empty()`: all items of `pending` are expanded, what is new goes to
`result` and to the next `pending`. -/
def closureRound (G : Grammar) (F : Tab) (R P : List Item) : List Item × List Item :=
  (P.flatMap (expand G F)).foldl addNew (R, [])

/-- The loop with fuel; `none` = fuel exhausted. -/
def closureLoop (G : Grammar) (F : Tab) : Nat → List Item → List Item → Option (List Item)
  | 0, _, _ => none
  | n + 1, R, P =>
    if P.isEmpty then some R
    else closureLoop G F n (closureRound G F R P).1 (closureRound G F R P).2

/-- Every pass but the first and the last adds one of the `#prods × #terminals` items
`[q, 0, x]`. -/
def closureFuel (G : Grammar) (nT : Nat) : Nat := G.prods.size * nT + 2

/-- `Closure(g, i)` over a given FIRST table. `result.AddSet(i); pending.AddSet(i)`, then the loop. -/
def closureWith (G : Grammar) (F : Tab) (fuel : Nat) (I : List Item) : Option (List Item) :=
  closureLoop G F fuel (I.foldl addNew ([], [])).1 (I.foldl addNew ([], [])).2

/-- `Closure(g, i)`; `none` only if the fuel ran out (never for well-formed arguments:
`closure?_isSome`). -/
def closure? (G : Grammar) (nT : Nat) (I : List Item) : Option (List Item) :=
  closureWith G (firstSets G nT) (closureFuel G nT) I

def closure (G : Grammar) (nT : Nat) (I : List Item) : List Item := (closure? G nT I).getD []

/-- Would the Go code panic on this item when `Closure` processes it? (`g.Prods[item.Prod]`,
`prod.Terms[item.Dot]`, `g.Terminals[item.Lookahead]`: index out of range.) -/
def itemPanics (G : Grammar) (nT : Nat) (it : Item) : Bool :=
  match G.prods[it.p]? with
  | none => true
  | some pr =>
    if it.d = pr.rhs.length then false
    else match pr.rhs[it.d]? with
      | none => true
      | some (.t _) => false
      | some (.n _) => decide (nT ≤ it.a)

/-- `Closure` including the panics of the Go code (`none`). -/
def closureGo (G : Grammar) (nT : Nat) (I : List Item) : Option (List Item) :=
  if I.any (itemPanics G nT) then none else closure? G nT I

/-! ## Goto (`goto.go`) -/

/-- The items of `from` with `sym` after the dot, advanced over it. -/
def advance (G : Grammar) (I : List Item) (X : Sym) : List Item :=
  I.filterMap fun it => if afterDot G it = some X then some ⟨it.p, it.d + 1, it.a⟩ else none

/-- `Goto(g, from, sym)`. -/
def goto? (G : Grammar) (nT : Nat) (I : List Item) (X : Sym) : Option (List Item) :=
  closure? G nT (advance G I X)

def goto (G : Grammar) (nT : Nat) (I : List Item) (X : Sym) : List Item := (goto? G nT I X).getD []

/-- The panics of `Goto` itself: `g.Prods[i.Prod]`, `prod.Terms[i.Dot]` with the dot beyond the
end. -/
def gotoItemPanics (G : Grammar) (it : Item) : Bool :=
  match G.prods[it.p]? with
  | none => true
  | some pr => decide (pr.rhs.length < it.d)

def gotoGo (G : Grammar) (nT : Nat) (I : List Item) (X : Sym) : Option (List Item) :=
  if I.any (gotoItemPanics G) then none else closureGo G nT (advance G I X)

/-! ## Next (`next.go`) -/

/-- The symbols after a dot, without duplicates, in the order `symLt`. -/
def next (G : Grammar) (I : List Item) : List Sym :=
  I.foldr (fun it acc => match afterDot G it with
    | some X => sinsert symLt X acc
    | none => acc) []

/-- `Next` including its only panic: `g.Prods[i.Prod]` out of range (a dot beyond the end is
skipped by `i.Dot >= len(prod.Terms)`). -/
def nextGo (G : Grammar) (I : List Item) : Option (List Sym) :=
  if I.any (fun it => (G.prods[it.p]?).isNone) then none else some (next G I)

/-! ## LR0Key (`item_set.go`) -/

/-- `Item.IsKernel`. -/
def isKernel (it : Item) : Bool := it.p == 0 || it.d != 0

/-- `ItemSet.LR0Key`: the (production, dot) pairs of the kernel items, each once, in `SortItems`
order (the Go key is this list written as big-endian `uint32`s). -/
def lr0Key (I : List Item) : List (Nat × Nat) :=
  I.foldr (fun it acc => if isKernel it then sinsert pairLt (it.p, it.d) acc else acc) []

/-! ## createActions (`construct.go`) -/

open Lox.Dec (Action Call Panic buildCell)

/-- What `createActions` does for one item. -/
inductive Want where
  | nothing                       -- a rule after the dot
  | panic                         -- index out of range / `TransitionMap.Get`: no transition
  | call (a : Nat) (c : Call)     -- a call on the action cell of terminal `a`
  deriving DecidableEq, Repr

/-- The body of `for _, item := range state.Items()` in `createActions`; `tr` is
`t.Transitions(state)` restricted to terminals. -/
def want (G : Grammar) (nT : Nat) (tr : Nat → Option Nat) (it : Item) : Want :=
  match G.prods[it.p]? with
  | none => .panic
  | some pr =>
    if it.d = pr.rhs.length then
      if nT ≤ it.a then .panic
      else if it.p = 0 then .call it.a .accept else .call it.a (.reduce it.p)
    else match pr.rhs[it.d]? with
      | none => .panic
      | some (.n _) => .nothing
      | some (.t x) =>
        match tr x with
        | some s => .call x (.shift s it.p)
        | none => .panic

/-- The calls on the cell of terminal `a`, in the order `createActions` makes them. -/
def callsOn (G : Grammar) (nT : Nat) (tr : Nat → Option Nat) (I : List Item) (a : Nat) : List Call :=
  (sortItems I).filterMap fun it => match want G nT tr it with
    | .call b c => if b = a then some c else none
    | _ => none

/-- The action cell (state, `a`) after `createActions`: the candidate actions before
`resolveConflicts`. -/
def cellOn (G : Grammar) (nT : Nat) (tr : Nat → Option Nat) (I : List Item) (a : Nat) :
    Except Panic (List Action) :=
  buildCell (callsOn G nT tr I a)

/-- The terminals that get a cell, increasing. -/
def cellTerminals (G : Grammar) (nT : Nat) (tr : Nat → Option Nat) (I : List Item) : List Nat :=
  I.foldr (fun it acc => match want G nT tr it with
    | .call b _ => sinsert (fun x y : Nat => decide (x < y)) b acc
    | _ => acc) []

/-- All cells of a state; `none` = the Go code panics. -/
def actionsOf (G : Grammar) (nT : Nat) (tr : Nat → Option Nat) (I : List Item) :
    Option (List (Nat × List Action)) :=
  if I.any (fun it => want G nT tr it == .panic) then none
  else (cellTerminals G nT tr I).mapM fun a => match cellOn G nT tr I a with
    | .ok c => some (a, c)
    | .error _ => none

end Lox.LR.Gen
