import Lox.LR.ConstructBasics
import Lox.LR.ConflictVerdict
/-! The loop invariant of the model of `ConstructLALR` (`Lox/LR/ConstructModel.lean`):
`Inv` (structure of the table, keys, closedness of every state, where transitions lead, and
SOUNDNESS: every item of a state is an LALR(1) item of that state by definition) is established
by `initState` and preserved by every `stepSym`; `Ext` records what a step may change. -/
namespace Lox.LR.Cons
open Lox.LR Lox.LR.Gen

/-- The automaton skeleton of a table: edges = the recorded transitions, items = the states. -/
def skelOf (st : CState) : Auto := skelAuto st.transTab st.cert

theorem trans_skelOf (st : CState) (s : Nat) (X : Sym) :
    trans (skelOf st) s X = lookupSym X (st.trans[s]?.getD []) := by
  unfold skelOf
  rw [trans_skel]
  simp [rowOfT, CState.transTab]

theorem items_skelOf (st : CState) (s : Nat) : (skelOf st).items s = st.states[s]?.getD [] := by
  simp [skelOf, skelAuto, itemsOf, CState.cert]

/-! ### Monotonicity of paths in the edges -/

def TransSub (A A' : Auto) : Prop := ∀ s X t, trans A s X = some t → trans A' s X = some t

theorem Path.mono {A A' : Auto} (h : TransSub A A') {s : Nat} {γ : List Sym} {t : Nat}
    (hp : Path A s γ t) : Path A' s γ t := by
  induction hp with
  | nil => exact .nil _
  | snoc _ htr ih => exact .snoc ih (h _ _ _ htr)

theorem LALRItem.mono {G : Grammar} {A A' : Auto} (h : TransSub A A') {s : Nat} {it : Item}
    (hi : LALRItem G A s it) : LALRItem G A' s it := by
  obtain ⟨γ, hp, hl⟩ := hi
  exact ⟨γ, Path.mono h hp, hl⟩

/-! ### Kernel cores -/

/-- `pd` is a kernel core of `Goto(I, X)` (semantically: of the closure of the advanced items). -/
def KC (G : Grammar) (I : List Item) (X : Sym) (pd : Nat × Nat) : Prop :=
  ∃ x, ClosureOf G (advance G I X) x ∧ isKernel x = true ∧ (x.p, x.d) = pd

/-- `pd` is a kernel core of the item list `J` (the members of `lr0Key J`). -/
def KJ (J : List Item) (pd : Nat × Nat) : Prop := ∃ y ∈ J, isKernel y = true ∧ (y.p, y.d) = pd

theorem lr0Key_eq_of_KJ {I J : List Item} (h : ∀ pd, KJ I pd ↔ KJ J pd) : lr0Key I = lr0Key J :=
  lr0Key_eq_iff.mpr h

theorem KJ_of_lr0Key_eq {I J : List Item} (h : lr0Key I = lr0Key J) (pd : Nat × Nat) :
    KJ I pd ↔ KJ J pd := lr0Key_eq_iff.mp h pd

theorem isKernel_core (x : Item) (a : Nat) : isKernel ⟨x.p, x.d, a⟩ = isKernel x := rfl

theorem KJ_congr {J J' : List Item} (h1 : ∀ x ∈ J, x ∈ J') (h2 : CoresSub J' J) (pd : Nat × Nat) :
    KJ J pd ↔ KJ J' pd := by
  constructor
  · rintro ⟨y, hy, hk, he⟩
    exact ⟨y, h1 y hy, hk, he⟩
  · rintro ⟨y, hy, hk, he⟩
    obtain ⟨a, ha⟩ := h2 y hy
    exact ⟨⟨y.p, y.d, a⟩, ha, hk, he⟩

/-- Cores of a closure, for an arbitrary target predicate closed under the closure rule. -/
theorem closureOf_cores_gen {G : Grammar} {nT : Nat} (ht : TermsBelow G nT) {K : List Item}
    (P : Item → Prop) (hP : ∀ it new, P it → ClosureRule G it new → P new)
    (hK : ∀ x ∈ K, ∃ a, P ⟨x.p, x.d, a⟩) {x : Item} (hx : ClosureOf G K x) :
    ∃ a, P ⟨x.p, x.d, a⟩ := by
  induction hx with
  | base hi => exact hK _ hi
  | @step it new _ hr ih =>
    obtain ⟨a', ha'⟩ := ih
    obtain ⟨b', hb'⟩ := closureRule_core ht hr a'
    have hd : new.d = 0 := by
      obtain ⟨_, _, _, _, _, _, _, hd, _⟩ := hr
      exact hd
    rw [hd]
    exact ⟨b', hP _ _ ha' hb'⟩

theorem KC_mono {G : Grammar} {nT : Nat} (ht : TermsBelow G nT) {I I' : List Item}
    (h : CoresSub I I') (X : Sym) (pd : Nat × Nat) (hk : KC G I X pd) : KC G I' X pd := by
  obtain ⟨x, hx, hker, he⟩ := hk
  have := closureOf_cores_gen ht (K := advance G I X) (ClosureOf G (advance G I' X))
    (fun it new h1 h2 => .step h1 h2)
    (fun y hy => by
      obtain ⟨a, ha⟩ := advance_cores h X y hy
      exact ⟨a, .base ha⟩) hx
  obtain ⟨a, ha⟩ := this
  exact ⟨⟨x.p, x.d, a⟩, ha, hker, he⟩

theorem KC_congr {G : Grammar} {nT : Nat} (ht : TermsBelow G nT) {I I' : List Item}
    (h1 : CoresSub I I') (h2 : CoresSub I' I) (X : Sym) (pd : Nat × Nat) :
    KC G I X pd ↔ KC G I' X pd :=
  ⟨KC_mono ht h1 X pd, KC_mono ht h2 X pd⟩

/-! ### What `Goto` returns -/

theorem gotoGo_some {G : Grammar} {nT : Nat} {I T : List Item} {X : Sym}
    (h : gotoGo G nT I X = some T) : goto? G nT I X = some T := by
  unfold gotoGo at h
  split at h
  · cases h
  · unfold closureGo at h
    split at h
    · cases h
    · exact h

theorem closureGo_some {G : Grammar} {nT : Nat} {I T : List Item}
    (h : closureGo G nT I = some T) : closure? G nT I = some T := by
  unfold closureGo at h
  split at h
  · cases h
  · exact h

structure GotoSpec (G : Grammar) (I : List Item) (X : Sym) (T : List Item) : Prop where
  mem : ∀ x, x ∈ T ↔ ClosureOf G (advance G I X) x
  closed : ClosedSet G T

theorem goto_spec' {G : Grammar} {nT : Nat} (ht : TermsBelow G nT) {I T : List Item} {X : Sym}
    (h : goto? G nT I X = some T) : GotoSpec G I X T := by
  have spec := closureLoop_spec (exactTab_firstSets ht) _
    (loopInv_init G (firstSets G nT) (advance G I X)) h
  exact ⟨spec, fun it hit new hr => (spec new).mpr (.step ((spec it).mp hit) hr)⟩

theorem GotoSpec.kc {G : Grammar} {I T : List Item} {X : Sym} (h : GotoSpec G I X T)
    (pd : Nat × Nat) : KC G I X pd ↔ KJ T pd := by
  constructor
  · rintro ⟨x, hx, hk, he⟩
    exact ⟨x, (h.mem x).mpr hx, hk, he⟩
  · rintro ⟨x, hx, hk, he⟩
    exact ⟨x, (h.mem x).mp hx, hk, he⟩

/-- If a closed list `J` has the kernel cores of `Goto(I, X) = T`, it has all its cores. -/
theorem GotoSpec.coresSub {G : Grammar} {nT : Nat} (ht : TermsBelow G nT) {I T J : List Item}
    {X : Sym} (h : GotoSpec G I X T) (hJ : ClosedSet G J) (hk : ∀ pd, KJ T pd → KJ J pd) :
    CoresSub T J := by
  intro x hx
  refine closureOf_cores ht (K := advance G I X) ?_ hJ ((h.mem x).mp hx)
  intro y hy
  obtain ⟨it, _, _, rfl⟩ := mem_advance.mp hy
  have hyT : (⟨it.p, it.d + 1, it.a⟩ : Item) ∈ T := (h.mem _).mpr (.base hy)
  obtain ⟨⟨zp, zd, za⟩, hz, _, he⟩ := hk (it.p, it.d + 1) ⟨_, hyT, by simp [isKernel], rfl⟩
  cases he
  exact ⟨za, hz⟩

theorem closedSet_union {G : Grammar} {J T M : List Item} (hJ : ClosedSet G J) (hT : ClosedSet G T)
    (hM : ∀ x, x ∈ M ↔ x ∈ J ∨ x ∈ T) : ClosedSet G M := by
  intro it hit new hr
  rcases (hM it).mp hit with h | h
  · exact (hM new).mpr (.inl (hJ it h new hr))
  · exact (hM new).mpr (.inr (hT it h new hr))

end Lox.LR.Cons
