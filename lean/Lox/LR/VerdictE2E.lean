import Lox.LR.ConstructEdges
import Lox.LR.EmitProofsCheck
/-! The output of the model of `ConstructLALR` (`Cons.construct`: states + transitions) satisfies,
for ALL well-formed grammars, everything the per-run validator `conflictCheckB`
(`Lox/LR/ConflictCheck.lean`) establishes about a run: `ConflictOK` (`conflictOK_of_construct`).
Hence the verdict the model computes (`Emit.hasConflictsP` = `verdictB` on the model's own table) is
the verdict BY DEFINITION (`verdictB_iff`) without any validator run.

Pieces: `Built` (`EmitProofsAuto.lean`: invariant, well-formedness, closedness), `EdgesCalled`
(`ConstructEdges.lean`), the validator's FIRST table (`EmitProofsFirst.lean`: `firstFix_closed`,
`firstFix_sound`), and `justd_of_closed`: in a closed automaton every LALR(1) item has a derivation
INSIDE the item sets (`Justd`). -/
namespace Lox.LR.Emit
open Lox.LR Lox.LR.Gen Lox.LR.Cons Lox.LR.FixFirst
open Lox.Dec (Action ProdInfo)

/-! ### ⊆ for free: in a closed automaton every LALR(1) item is justified inside it -/

theorem justd_of_closed {G : Grammar} {A : Auto} (hc : Closed G A) {γ : List Sym} {it : Item}
    (h : LR1Item G γ it) : ∀ {s : Nat}, Path A 0 γ s → Justd G A s it := by
  induction h with
  | start =>
    intro s hp
    have := hp.nil_inv
    subst this
    exact .start hc.start
  | @goto γ p d a pr X h0 hpr hX ih =>
    intro s hp
    obtain ⟨s1, hp1, htr⟩ := hp.snoc_inv
    have hj := ih hp1
    obtain ⟨s2, htr2, hmem⟩ := hc.step s1 _ pr X hj.mem hpr hX
    rw [htr] at htr2
    cases htr2
    exact .goto hj hpr hX htr hmem
  | @closure γ p d a pr B q qr b h0 hpr hX hq hl hf ih =>
    intro s hp
    have hj := ih hp
    exact .closure hj hpr hX hq hl hf (hc.closure s _ pr B q qr b hj.mem hpr hX hq hl hf)

/-! ### The validator's conditions hold on the model's own output -/

theorem rowOfT_transTab (st : CState) (s : Nat) : rowOfT st.transTab s = st.trans[s]?.getD [] := by
  simp [rowOfT, CState.transTab]

theorem size_cert (st : CState) : st.cert.size = st.states.length := by
  simp [CState.cert]

/-- Well-formedness of the grammar, as propositions (what `wfGrammarB` decides). -/
structure GrammarWf (G : Grammar) (nT nR : Nat) : Prop where
  prod0 : prod0B G = true
  syms : SymsInRange G nT nR
  noStart : NoStart G
  noEof : ∀ (p : Nat) (pr : Prod), G.prods[p]? = some pr → Sym.t 0 ∉ pr.rhs

theorem grammarWf_of_bools {G : Grammar} {nT nR : Nat} (hp0 : prod0B G = true)
    (hns : noStartB G = true) (hsyms : symsInRangeB G nT nR = true) (hne : noEofB G = true) :
    GrammarWf G nT nR :=
  ⟨hp0, symsInRangeB_spec hsyms, noStartB_spec hns, fun _ _ hp => noEofB_spec hne hp⟩

section
variable {G : Grammar} {nT nR : Nat} {ord : List Sym} {st : CState}

theorem built_of_wf (hw : GrammarWf G nT nR) (hO : OrdOK nT nR ord)
    (hst : construct G nT ord = some st) : Built G nT st := by
  obtain ⟨S', h0⟩ := prod0B_spec hw.prod0
  exact built_of_construct (SymsInRange.termsBelow hw.syms) (SymsInRange.ordCovers hw.syms hO) h0
    rfl hst

/-- The predecessor condition of a recorded transition (cf. `RunS.backB`). -/
theorem Built.backB (hb : Built G nT st) (hns : NoStart G) {s : Nat} {X : Sym} {t : Nat}
    (htr : lookupSym X (st.trans[s]?.getD []) = some t) : Lox.LR.backB G st.cert s X t = true := by
  obtain ⟨I, J, hI, hJ, hback⟩ := hb.back htr
  have ht0 : t ≠ 0 := fun e => hb.noInto0 hns s X (e ▸ htr)
  have htlt : t < st.states.length := (List.getElem?_eq_some_iff.mp hJ).1
  simp only [Lox.LR.backB, Bool.and_eq_true, bne_iff_ne, ne_eq, decide_eq_true_eq, List.all_eq_true,
    Bool.or_eq_true, beq_iff_eq]
  refine ⟨⟨ht0, by simpa [CState.cert] using htlt⟩, ?_⟩
  intro it hit
  rw [itemsOf_cert, hJ] at hit
  by_cases hd : it.d = 0
  · exact .inl hd
  · right
    obtain ⟨pr, hp, hX, a', hmem⟩ := hback it hit (by omega)
    simp only [hp, Bool.and_eq_true, beq_iff_eq]
    exact ⟨hX, hasCore_iff.mpr ⟨a', by rw [itemsOf_cert, hI]; exact hmem⟩⟩

/-- What `itemCB` checks, for an item of the model's table. -/
theorem Built.itemCOK (hb : Built G nT st) (hw : GrammarWf G nT nR) {s : Nat} {it : Item}
    (hit : it ∈ itemsOf st.cert s) :
    ∃ pr, G.prods[it.p]? = some pr ∧
      ItemCOK G nT (firstFix G nT nR) st.transTab st.cert s it pr := by
  rw [itemsOf_cert] at hit
  cases hs : st.states[s]? with
  | none => simp [hs] at hit
  | some I =>
    simp only [hs, Option.getD_some] at hit
    obtain ⟨pr, hp, hdle, hla⟩ := hb.item_wf hs hit
    refine ⟨pr, hp, hla, ?_, ?_, hdle, ?_, ?_, ?_, ?_⟩
    · intro X hX
      obtain ⟨t, J, htr, hJ, hadv⟩ := hb.step hs hit hp hX
      refine ⟨t, by rw [rowOfT_transTab]; exact htr, ?_⟩
      rw [itemsOf_cert, hJ]
      exact hadv
    · intro B q qr b hX hq hl hf
      rw [itemsOf_cert, hs]
      exact hb.closure hs hit hp hX hq hl (firstFix_sound G nT nR hf)
    · intro hd hp0
      obtain ⟨t, htr, _⟩ := hb.gotoDef hs hit hd hp0 hp
      exact ⟨t, by rw [rowOfT_transTab]; exact htr⟩
    · exact fun hp0 hd => hb.startOnly hw.noStart hs hit hp0 hd
    · intro hs0
      subst hs0
      exact hb.s0 hw.noStart hs hit
    · exact fun hp0 => hb.p0_la hw.noStart hs hit hp0

/-- What `edgeCB` checks, for a transition of the model's table. -/
theorem Built.edgeOK (hb : Built G nT st) (hw : GrammarWf G nT nR) (hec : EdgesCalled G st)
    {s : Nat} {X : Sym} {t : Nat} (htr : lookupSym X (rowOfT st.transTab s) = some t) :
    EdgeOK G st.cert s X t := by
  rw [rowOfT_transTab] at htr
  obtain ⟨I, hI, it, hit, had⟩ := hec s X t htr
  obtain ⟨pr, hp, hX⟩ := afterDot_eq.mp had
  refine ⟨?_, hb.backB hw.noStart htr, it, by rw [itemsOf_cert, hI]; exact hit, pr, hp, hX⟩
  rintro rfl
  exact hw.noEof _ _ hp (List.mem_of_getElem? hX)

/-- **The ⊇ half and the shape conditions** of `conflictCheckB` hold on the model's output. -/
theorem skelOK_of_construct (hw : GrammarWf G nT nR) (hO : OrdOK nT nR ord)
    (hst : construct G nT ord = some st) : SkelOK G nT nR st.transTab st.cert := by
  have hb := built_of_wf hw hO hst
  have hec : EdgesCalled G st := construct_edgesCalled (SymsInRange.termsBelow hw.syms) hst
  refine ⟨hw.prod0, firstFix_closed hw.syms, ?_, ?_, fun s it hit => hb.itemCOK hw hit,
    fun s X t htr => hb.edgeOK hw hec htr⟩
  · simp [CState.transTab, CState.cert, hb.inv.lenT]
  · obtain ⟨I0, hI0, hmem⟩ := hb.inv.start
    rw [itemsOf_cert, hI0]
    exact hmem

/-- **Completeness of the validator's conditions on the generator model.** For every well-formed
grammar and every name order that lists each symbol once, the table `construct` returns satisfies
everything `conflictCheckB` establishes: closed (⊇), every item justified inside the item sets (⊆),
distinct kernels. -/
theorem conflictOK_of_construct (hw : GrammarWf G nT nR) (hO : OrdOK nT nR ord)
    (hst : construct G nT ord = some st) : ConflictOK G nT nR st.transTab st.cert := by
  have hb := built_of_wf hw hO hst
  have hsk := skelOK_of_construct hw hO hst
  refine ⟨hsk, ?_, ?_⟩
  · intro s it hit
    rw [itemsOf_cert] at hit
    cases hs : st.states[s]? with
    | none => simp [hs] at hit
    | some I =>
      simp only [hs, Option.getD_some] at hit
      obtain ⟨γ, hpath, hl⟩ := hb.lr1 hs hit
      exact justd_of_closed hsk.closed hl hpath
  · have := kernelsDistinct_of_inv hb.inv
    rw [← size_cert] at this
    exact this

/-- The verdict of the model is the verdict by definition. -/
theorem hasConflictsP_iff (hw : GrammarWf G nT nR) (hO : OrdOK nT nR ord)
    (hst : construct G nT ord = some st) (info : Nat → ProdInfo) :
    hasConflictsP info G nT st = true ↔
      ∃ s a, Unsettled G info (skelOf st) (LALRItem G (skelOf st)) s a :=
  verdictB_iff (conflictOK_of_construct hw hO hst) info

end

end Lox.LR.Emit
