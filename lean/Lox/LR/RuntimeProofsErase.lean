import Lox.LR.RuntimeProofs
/-! C16-1: erasing `_Bounds`/`_onBounds` commutes with the whole runtime ("its presence changes
nothing else about the parse"). -/
namespace Lox.LR.Rt

/-! ## Erasure commutes with everything except the bookkeeping itself -/

theorem topState_map_eraseB (st : List Entry) : topState (st.map Entry.eraseB) = topState st := by
  cases st <;> rfl

theorem makeError_eraseB (T : Tables) (s : PState) : makeError T (eraseB s) = makeError T s := by
  unfold makeError
  simp only [eraseB, topState_map_eraseB]

theorem afterLex_eraseB (inp : Array Nat) (s : PState) :
    afterLex inp (eraseB s) = eraseB (afterLex inp s) := rfl

theorem readToken_eraseB (T : Tables) (inp : Array Nat) (s : PState) :
    readToken T inp (eraseB s) = (readToken T inp s).map eraseB := by
  rw [readToken_eq, readToken_eq]
  show (if s.qla ≠ -1 then _ else if (lexRead inp s.pos).2 = tERROR then _ else _) = _
  split
  · rfl
  · split
    · rw [afterLex_eraseB, makeError_eraseB]
      cases makeError T (afterLex inp s) <;> rfl
    · rfl

theorem skipErrors_eraseB (T : Tables) (inp : Array Nat) : ∀ (n : Nat) (s : PState),
    skipErrors T inp n (eraseB s) = (skipErrors T inp n s).map (Option.map eraseB)
  | 0, _ => rfl
  | n + 1, s => by
    unfold skipErrors
    show (if s.la = tERROR then _ else _) = _
    split
    · rw [readToken_eraseB]
      cases h : readToken T inp s with
      | error w => rfl
      | ok s1 => exact skipErrors_eraseB T inp n s1
    · rfl

theorem searchStack_eraseB (T : Tables) (la : Int) (fuel : Nat) : ∀ (st : List Entry),
    searchStack T la fuel (st.map Entry.eraseB) =
      (searchStack T la fuel st).map (Option.map (List.map Entry.eraseB))
  | [] => rfl
  | e :: rest => by
    simp only [List.map_cons, searchStack]
    have he : e.eraseB.state = e.state := rfl
    rw [he]
    cases simulate T la fuel e.state with
    | found => rfl
    | notFound => exact searchStack_eraseB T la fuel rest
    | oob => rfl
    | timeout => rfl

theorem recoverLoop_eraseB (T : Tables) (inp : Array Nat) (errSym : Val) (fuel : Nat) :
    ∀ (n : Nat) (s : PState), recoverLoop T inp errSym fuel n (eraseB s) =
      (recoverLoop T inp errSym fuel n s).mapS eraseB
  | 0, _ => rfl
  | n + 1, s => by
    unfold recoverLoop
    have h1 : (eraseB s).stack = s.stack.map Entry.eraseB := rfl
    have h2 : (eraseB s).la = s.la := rfl
    rw [h1, h2, searchStack_eraseB]
    cases h : searchStack T s.la fuel s.stack with
    | error w =>
      simp only [Except.map]
      split <;> simp_all [Rec.mapS]
    | ok o =>
      cases o with
      | some st => rfl
      | none =>
        simp only [Except.map, Option.map]
        split
        · rfl
        · rw [readToken_eraseB]
          cases h' : readToken T inp s with
          | error w => rfl
          | ok s1 => exact recoverLoop_eraseB T inp errSym fuel n s1

theorem errSymOf_eraseB (T : Tables) (s : PState) : errSymOf T (eraseB s) = errSymOf T s := by
  unfold errSymOf
  rw [makeError_eraseB]
  rfl

theorem recoverBody_eraseB (T : Tables) (inp : Array Nat) (fuel : Nat) (s : PState) (errSym : Val) :
    recoverBody T inp fuel (eraseB s) errSym = (recoverBody T inp fuel s errSym).mapS eraseB := by
  unfold recoverBody
  rw [skipErrors_eraseB]
  cases h1 : skipErrors T inp fuel s with
  | error w => rfl
  | ok o =>
    cases o with
    | none => rfl
    | some s1 =>
      simp only [Except.map, Option.map]
      have hr : (eraseB s1).recovering = s1.recovering := rfl
      have hl : (eraseB s1).la = s1.la := rfl
      rw [hr, hl]
      cases s1.recovering
      · simp only [Bool.false_eq_true, if_false]
        exact recoverLoop_eraseB T inp errSym fuel fuel s1
      · simp only [if_true]
        by_cases hE : s1.la = tEOF
        · simp only [hE, if_true]; rfl
        · simp only [hE, if_false]
          rw [readToken_eraseB]
          cases h2 : readToken T inp s1 with
          | error w => rfl
          | ok s2 =>
            simp only [Except.map]
            rw [skipErrors_eraseB]
            cases h3 : skipErrors T inp fuel s2 with
            | error w => rfl
            | ok o =>
              cases o with
              | none => rfl
              | some s3 => exact recoverLoop_eraseB T inp errSym fuel fuel s3

theorem recover_eraseB (T : Tables) (inp : Array Nat) (fuel : Nat) (s : PState) :
    recover T inp fuel (eraseB s) = (recover T inp fuel s).mapS eraseB := by
  rw [recover_eq, recover_eq, errSymOf_eraseB]
  cases errSymOf T s with
  | error w => rfl
  | ok e => exact recoverBody_eraseB T inp fuel s e

theorem eraseB_idem (s : PState) : eraseB (eraseB s) = eraseB s := by
  simp only [eraseB, List.map_map, List.filter_filter, Bool.and_self]
  rfl

theorem readToken_congr (T : Tables) (inp : Array Nat) {s1 s2 : PState}
    (h : eraseB s1 = eraseB s2) :
    (readToken T inp s1).map eraseB = (readToken T inp s2).map eraseB := by
  rw [← readToken_eraseB, ← readToken_eraseB, h]

theorem shiftTail_congr (T : Tables) (inp : Array Nat) {sL sR : PState}
    (h : eraseB sL = eraseB sR) :
    StepR.mapS eraseB (match readToken T inp sL with
      | .error w => .done (.panic w) sL
      | .ok s2 => .cont s2) =
    StepR.mapS eraseB (match readToken T inp sR with
      | .error w => .done (.panic w) sR
      | .ok s2 => .cont s2) := by
  have hR := readToken_congr T inp h
  cases hL : readToken T inp sL <;> cases hR' : readToken T inp sR <;>
    simp_all [Except.map, StepR.mapS]

theorem kids_map_eraseB (n : Nat) (st : List Entry) :
    List.map (fun x => x.sym) (List.take n (List.map Entry.eraseB st)).reverse =
      List.map (fun x => x.sym) (List.take n st).reverse := by
  rw [← List.map_take, ← List.map_reverse, List.map_map]
  rfl

theorem reducePush_eraseB (s : PState) (st : Int) (v v' v'' : Val) (bL bR : Bounds) (rest : List Entry)
    (cL cR : Prop) [Decidable cL] [Decidable cR] (p : Nat) (k : List Val) (b e b' e' : Nat) :
    eraseB { eraseB s with
        stack := { state := st, sym := v, bounds := bL } :: rest.map Entry.eraseB,
        log := if cL then Event.bounds p v' b e :: Event.act p k :: (eraseB s).log
               else Event.act p k :: (eraseB s).log } =
    eraseB { s with
        stack := { state := st, sym := v, bounds := bR } :: rest,
        log := if cR then Event.bounds p v'' b' e' :: Event.act p k :: s.log
               else Event.act p k :: s.log } := by
  have hl : ∀ (c : Prop) [Decidable c] (w : Val) (x y : Nat) (l : List Event),
      List.filter (fun ev => !ev.isBounds)
        (if c then Event.bounds p w x y :: Event.act p k :: l else Event.act p k :: l) =
      Event.act p k :: List.filter (fun ev => !ev.isBounds) l := by
    intro c _ w x y l
    split <;> simp [List.filter, Event.isBounds]
  simp only [eraseB, hl, List.map_cons, List.map_map, List.filter_filter, Bool.and_self]
  rfl

theorem symTokIdx_isSome {v : Val} (h : v.isLeaf = true) : ∃ i, symTokIdx v = some i := by
  cases v <;> simp_all [Val.isLeaf, symTokIdx]

/-- One iteration of `parse` with or without `_onBounds`, from a state or from its erasure:
the results agree up to erasure. The only asymmetry, the `latok` type assertions of the shift
branch, cannot fail when `_lasym` is a `Token` or an `Error`. -/
theorem step_eraseB (T : Tables) (inp : Array Nat) (wb wb' : Bool) (fuel : Nat) (s : PState)
    (hs : s.lasym.isLeaf = true) :
    (step T inp wb fuel (eraseB s)).mapS eraseB = (step T inp wb' fuel s).mapS eraseB := by
  unfold step
  have h1 : (eraseB s).stack = s.stack.map Entry.eraseB := rfl
  have h2 : (eraseB s).la = s.la := rfl
  have h3 : (eraseB s).lasym = s.lasym := rfl
  rw [h1, h2, h3, topState_map_eraseB]
  cases htop : topState s.stack with
  | none => simp only [StepR.mapS, eraseB_idem]
  | some top =>
    dsimp only
    cases hf : find T.actions top s.la with
    | oob => simp only [StepR.mapS, eraseB_idem]
    | miss =>
      dsimp only
      rw [recover_eraseB]
      cases recover T inp fuel s <;> simp only [Rec.mapS, StepR.mapS, eraseB_idem]
    | hit action =>
      dsimp only
      by_cases hacc : action = acceptCode
      · simp only [hacc, if_true, StepR.mapS, eraseB_idem]
      · simp only [hacc, if_false]
        by_cases hsh : action ≥ 0
        · simp only [hsh, if_true]
          have hti : ∀ b : Bool, ∃ t, (if b = true then symTokIdx s.lasym else some 0) = some t := by
            intro b
            cases b
            · exact ⟨0, rfl⟩
            · exact symTokIdx_isSome hs
          obtain ⟨t1, ht1⟩ := hti wb
          obtain ⟨t2, ht2⟩ := hti wb'
          rw [ht1, ht2]
          dsimp only
          have hE : ∀ (t t' : Nat), eraseB { eraseB s with
                stack := { state := action, sym := s.lasym, bounds := { b := t, e := t } } ::
                  s.stack.map Entry.eraseB,
                recovering := if s.la ≠ tERROR then false else s.recovering } =
              eraseB { s with
                stack := { state := action, sym := s.lasym, bounds := { b := t', e := t' } } :: s.stack,
                recovering := if s.la ≠ tERROR then false else s.recovering } := by
            intro t t'
            simp only [eraseB, List.map_cons, List.map_map, List.filter_filter, Bool.and_self]
            rfl
          exact shiftTail_congr T inp (hE t1 t2)
        · simp only [hsh, if_false]
          cases htc : geti T.termCounts (-action) with
          | none => simp only [StepR.mapS, eraseB_idem]
          | some tc =>
            cases hr : geti T.rules (-action) with
            | none => simp only [StepR.mapS, eraseB_idem]
            | some rule =>
              dsimp only
              rw [List.length_map]
              by_cases hp : tc < 0 ∨ s.stack.length < tc.toNat
              · simp only [hp, if_true, StepR.mapS, eraseB_idem]
              · simp only [hp, if_false]
                rw [← List.map_drop, topState_map_eraseB]
                cases htop' : topState (s.stack.drop tc.toNat) with
                | none => simp only [StepR.mapS, eraseB_idem]
                | some top' =>
                  dsimp only
                  rw [kids_map_eraseB]
                  cases find T.gotos top' rule with
                  | oob => simp only [StepR.mapS, eraseB_idem]
                  | miss => exact congrArg StepR.cont (reducePush_eraseB ..)
                  | hit ns => exact congrArg StepR.cont (reducePush_eraseB ..)

theorem step_congr_eraseB (T : Tables) (inp : Array Nat) (wb wb' : Bool) (fuel : Nat)
    {s1 s2 : PState} (h : eraseB s1 = eraseB s2) (hs : s1.lasym.isLeaf = true) :
    (step T inp wb fuel s1).mapS eraseB = (step T inp wb' fuel s2).mapS eraseB := by
  have hs2 : s2.lasym.isLeaf = true := by
    have hl : (eraseB s1).lasym = (eraseB s2).lasym := congrArg _ h
    change s1.lasym = s2.lasym at hl
    rw [← hl]; exact hs
  rw [← step_eraseB T inp wb wb fuel s1 hs, ← step_eraseB T inp wb wb' fuel s2 hs2, h]

/-- The loop of `parse` from two states equal up to erasure, with or without `_onBounds`:
same outcome, final states equal up to erasure. -/
theorem runLoop_eraseB (T : Tables) (inp : Array Nat) (wb wb' : Bool) (fuel : Nat) :
    ∀ (n : Nat) {s1 s2 : PState}, eraseB s1 = eraseB s2 → LaOK s1 →
      (runLoop T inp wb fuel n s1).1 = (runLoop T inp wb' fuel n s2).1 ∧
      eraseB (runLoop T inp wb fuel n s1).2 = eraseB (runLoop T inp wb' fuel n s2).2
  | 0, _, _, h, _ => ⟨rfl, h⟩
  | n + 1, s1, s2, h, hs => by
    have hc := step_congr_eraseB T inp wb wb' fuel h hs.1
    unfold runLoop
    cases h1 : step T inp wb fuel s1 with
    | cont a =>
      cases h2 : step T inp wb' fuel s2 with
      | cont b =>
        rw [h1, h2] at hc
        simp only [StepR.mapS, StepR.cont.injEq] at hc
        exact runLoop_eraseB T inp wb wb' fuel n hc (step_LaOK hs h1)
      | done o b => rw [h1, h2] at hc; cases hc
    | done o a =>
      cases h2 : step T inp wb' fuel s2 with
      | cont b => rw [h1, h2] at hc; cases hc
      | done o' b =>
        rw [h1, h2] at hc
        simp only [StepR.mapS, StepR.done.injEq] at hc
        exact hc

/-- `parse` with and without `_onBounds`: same outcome, final states equal up to erasure. -/
theorem parse_eraseB (T : Tables) (inp : Array Nat) (fuel : Nat) :
    (parse T inp true fuel).1 = (parse T inp false fuel).1 ∧
    eraseB (parse T inp true fuel).2 = eraseB (parse T inp false fuel).2 := by
  rw [parse_eq, parse_eq]
  cases h : readToken T inp initState with
  | error w => exact ⟨rfl, rfl⟩
  | ok s1 => exact runLoop_eraseB T inp true false fuel fuel rfl (init_LaOK h)

/-! ## Without `_onBounds` the log holds no `.bounds` event -/

theorem step_NoBoundsEv {T : Tables} {inp : Array Nat} {fuel : Nat} {s s' : PState}
    (hs : NoBoundsEv s) (h : step T inp false fuel s = .cont s') : NoBoundsEv s' := by
  cases step_cont h with
  | recover _ _ hr =>
    obtain ⟨errSym, s0, s1, st, -, h0, -, h1, -, rfl, -⟩ := recover_ok hr
    show ∀ ev ∈ s1.log, _
    rw [(h0.trans h1).frame.log]; exact hs
  | shift _ _ _ _ _ hr =>
    unfold NoBoundsEv
    rw [(readToken_frame hr).log]; exact hs
  | reduce =>
    intro ev hev
    simp only [reduceState, Bool.false_eq_true, false_and, if_false, List.mem_cons] at hev
    rcases hev with rfl | hev
    · rfl
    · exact hs ev hev

theorem step_done_log {T : Tables} {inp : Array Nat} {wb : Bool} {fuel : Nat} {s s' : PState}
    {o : Outcome} (h : step T inp wb fuel s = .done o s') : s'.log = s.log := by
  rcases step_done h with ⟨-, rfl, -⟩ | ⟨-, top, -, -, hr⟩ | ⟨-, rfl, -⟩ | ⟨w, -, rfl | ⟨top, a, ti, -, -, rfl⟩⟩
  · rfl
  · obtain ⟨s1, h1, -, rfl | rfl⟩ := recover_fail hr
    · exact h1.frame.log
    · exact h1.frame.log
  · rfl
  · rfl
  · rfl

theorem runLoop_NoBoundsEv {T : Tables} {inp : Array Nat} {fuel : Nat} :
    ∀ (n : Nat) {s : PState}, NoBoundsEv s → NoBoundsEv (runLoop T inp false fuel n s).2
  | 0, _, hs => hs
  | n + 1, s, hs => by
    unfold runLoop
    cases h : step T inp false fuel s with
    | cont s' => exact runLoop_NoBoundsEv n (step_NoBoundsEv hs h)
    | done o s' =>
      show ∀ ev ∈ s'.log, _
      rw [step_done_log h]; exact hs

/-- Without `_onBounds` no `.bounds` event is ever logged. -/
theorem parse_NoBoundsEv (T : Tables) (inp : Array Nat) (fuel : Nat) :
    NoBoundsEv (parse T inp false fuel).2 := by
  rw [parse_eq]
  cases h : readToken T inp initState with
  | error w => intro ev hev; cases hev
  | ok s1 =>
    apply runLoop_NoBoundsEv
    unfold NoBoundsEv
    rw [(readToken_frame h).log]
    intro ev hev; cases hev

theorem actEvents_eq_self {l : List Event} (h : ∀ ev ∈ l, ev.isBounds = false) : actEvents l = l := by
  unfold actEvents
  rw [List.filter_eq_self]
  intro ev hev
  rw [h ev hev]; rfl

end Lox.LR.Rt
