import Lox.LR.LALRExact
import Lox.LR.RuntimeSoundFirst
/-! The correct-prefix property (C09): on tables that pass `check` and `justify`, for a productive
grammar, whatever the LR machine has consumed is a prefix of a sentence. Grammar level
(`LR0Item.extends`), abstract machine (`Abs.consumed_viable`), concrete `parse`
(`Rt.consumed_viable`, `Rt.plain_consumed`). Theorems: `Lox/Props/C09_prefix.lean`. -/
namespace Lox.LR

/-! ### Grammar level: a viable prefix extends to a sentence -/

theorem LR0Item.prod_exists {G : Grammar} (h0 : ∃ S', G.prods[0]? = some ⟨S', [.n (startSym G)]⟩)
    {γ : List Sym} {p d : Nat} (h : LR0Item G γ p d) : ∃ pr, G.prods[p]? = some pr := by
  cases h with
  | start => obtain ⟨S', h⟩ := h0; exact ⟨_, h⟩
  | goto _ hp _ => exact ⟨_, hp⟩
  | closure _ _ _ hq _ => exact ⟨_, hq⟩

/-- If the LR(0) item `(p, d)` is valid for `γ`, `γ` derives `u` and the rest of `rhs p` derives
`x`, then `u x` is a prefix of a sentence. -/
theorem LR0Item.completable {G : Grammar} (hprod : Productive G)
    (h0 : ∃ S', G.prods[0]? = some ⟨S', [.n (startSym G)]⟩) {γ : List Sym} {p d : Nat}
    (h : LR0Item G γ p d) : ∀ pr, G.prods[p]? = some pr → ∀ u tsu x tsx, Der G γ u tsu →
      Der G (pr.rhs.drop d) x tsx → ∃ v t, Der G [.n (startSym G)] (u ++ x ++ v) [t] := by
  induction h with
  | start =>
    intro pr hp u tsu x tsx hu hx
    obtain ⟨S', h⟩ := h0
    rw [h] at hp
    cases hp
    cases hu
    have hlen := hx.length_eq
    simp only [List.drop_zero, List.length_cons, List.length_nil] at hlen hx
    match tsx, hlen, hx with
    | [t], _, hx => exact ⟨[], t, by simpa using hx⟩
  | @goto γ p d pr' X _ hp' hX ih =>
    intro pr hp u tsu x tsx hu hx
    rw [hp'] at hp
    cases hp
    obtain ⟨u1, u2, t1, t2, rfl, h1, h2⟩ := Der.append_inv γ hu
    have hdrop : pr'.rhs.drop d = X :: pr'.rhs.drop (d + 1) := by
      rw [List.drop_eq_getElem?_toList_append, hX]; rfl
    have hx' : Der G (pr'.rhs.drop d) (u2 ++ x) (t2 ++ tsx) := by
      rw [hdrop]
      have := Der.append h2 hx
      simpa using this
    obtain ⟨v, t, hd⟩ := ih pr' hp' u1 t1 _ _ h1 hx'
    exact ⟨v, t, by simpa [List.append_assoc] using hd⟩
  | @closure γ p d pr' B q qr _ hp' hX hq hl ih =>
    intro pr hp u tsu x tsx hu hx
    rw [hq] at hp
    cases hp
    simp only [List.drop_zero] at hx
    have hB : Der G [.n qr.lhs] x [.node q tsx] := by
      have := Der.nonterm (α := []) hq hx .nil
      simpa using this
    obtain ⟨y, tsy, hy⟩ := hprod.der_drop hp' (d + 1)
    have hdrop : pr'.rhs.drop d = .n qr.lhs :: pr'.rhs.drop (d + 1) := by
      rw [List.drop_eq_getElem?_toList_append, hX, hl]; rfl
    have hx' : Der G (pr'.rhs.drop d) (x ++ y) ([.node q tsx] ++ tsy) := by
      rw [hdrop]
      have := Der.append hB hy
      simpa using this
    obtain ⟨v, t, hd⟩ := ih pr' hp' u tsu _ _ hu hx'
    exact ⟨y ++ v, t, by simpa [List.append_assoc] using hd⟩

/-- **A viable prefix extends to a sentence** (productive grammars): if some LR(0) item is valid
for `γ` and `γ` derives the token string `u`, then `u` is a prefix of a sentence. -/
theorem LR0Item.extends {G : Grammar} (hprod : Productive G)
    (h0 : ∃ S', G.prods[0]? = some ⟨S', [.n (startSym G)]⟩) {γ : List Sym} {p d : Nat}
    (h : LR0Item G γ p d) {u : List Nat} {tsu : List Tree} (hu : Der G γ u tsu) :
    ∃ v t, Der G [.n (startSym G)] (u ++ v) [t] := by
  obtain ⟨pr, hp⟩ := h.prod_exists h0
  obtain ⟨x, tsx, hx⟩ := hprod.der_drop hp d
  obtain ⟨v, t, hd⟩ := h.completable hprod h0 pr hp u tsu x tsx hu hx
  exact ⟨x ++ v, t, by simpa [List.append_assoc] using hd⟩

/-! ### Abstract machine -/

namespace Abs

theorem StackInv.path {G : Grammar} {A : Auto} {st : List Entry} {syms : List Sym} {w : List Nat}
    (h : StackInv G A st syms w) : Path A 0 syms.reverse (topState st) := by
  induction h with
  | base v0 => exact .nil 0
  | @push e st syms w X s' u v _ htr _ ih =>
    have : Path A 0 (syms.reverse ++ [X]) s' := .snoc (by simpa using ih) htr
    simpa using this

theorem StackInv.der {G : Grammar} {A : Auto} {st : List Entry} {syms : List Sym} {w : List Nat}
    (h : StackInv G A st syms w) : ∃ ts, Der G syms.reverse w ts := by
  induction h with
  | base v0 => exact ⟨[], .nil⟩
  | push _ _ hder ih =>
    obtain ⟨ts, hd⟩ := ih
    exact ⟨_, by simpa using Der.append hd hder⟩

/-- Whatever a stack satisfying the invariant has consumed is a prefix of a sentence. -/
theorem consumed_viable {G : Grammar} {A : Auto} (hc : Closed G A) (hs : Safe G A)
    (hj : ∀ s it, it ∈ A.items s → Justd G A s it) (he : EdgesBacked G A) (hprod : Productive G)
    {st : List Entry} {syms : List Sym} {u : List Nat} (h : StackInv G A st syms u) :
    ∃ v t, Der G [.n (startSym G)] (u ++ v) [t] := by
  obtain ⟨it, hit⟩ := h.path.items_nonempty hc he
  have hlr0 := core_valid hs hj h.path it hit
  obtain ⟨ts, hd⟩ := h.der
  exact hlr0.extends hprod hs.prod0 hd

/-- **Correct-prefix property of the abstract machine**: in every configuration reached from
`init w`, the part `u` of the input consumed so far is a prefix of a sentence. -/
theorem correct_prefix {G : Grammar} {A : Auto} (hc : Closed G A) (hs : Safe G A)
    (hj : ∀ s it, it ∈ A.items s → Justd G A s it) (he : EdgesBacked G A) (hprod : Productive G)
    {w : List Nat} {c : Config} (h : Reaches G A (init w) c) :
    ∃ u, w = u ++ c.input ∧ ∃ v t, Der G [.n (startSym G)] (u ++ v) [t] := by
  obtain ⟨syms, u, hinv, hin⟩ := reaches_inv hs h (StackInv.base (G := G) (A := A) (.leaf 0))
  exact ⟨u, by simpa [init] using hin, consumed_viable hc hs hj he hprod (by simpa using hinv)⟩

end Abs

/-! ### Abstract machine: immediate error detection -/

namespace Abs

/-- A continuing step is a shift of the lookahead or a reduction that only looks at the lookahead. -/
theorem step_cases {G : Grammar} {A : Auto} {c c1 : Config} (h : step G A c = .cont c1) :
    (∃ s', A.action (topState c.stack) (la c.input) = some (.shift s') ∧
      c1 = ⟨⟨s', .leaf (la c.input)⟩ :: c.stack, c.input.tail, c.log⟩) ∨
    (c1.input = c.input ∧ ∀ i', la i' = la c.input →
      step G A ⟨c.stack, i', c.log⟩ = .cont ⟨c1.stack, i', c1.log⟩) := by
  obtain ⟨stack, input, log⟩ := c
  cases stack with
  | nil => simp [step] at h
  | cons e st0 =>
    simp only [step] at h
    cases hact : A.action e.state (la input) with
    | none => simp [hact] at h
    | some act =>
      cases act with
      | accept => simp [hact] at h
      | shift s' =>
        simp only [hact, Out.cont.injEq] at h
        exact .inl ⟨s', by simpa using hact, h.symm⟩
      | reduce p =>
        simp only [hact] at h
        cases hp : G.prods[p]? with
        | none => simp [hp] at h
        | some pr =>
          simp only [hp] at h
          cases hdrop : (e :: st0).drop pr.rhs.length with
          | nil => simp [hdrop] at h
          | cons e' rest =>
            simp only [hdrop] at h
            cases hgo : A.goto e'.state pr.lhs with
            | none => simp [hgo] at h
            | some s'' =>
              simp only [hgo, Out.cont.injEq] at h
              subst h
              refine .inr ⟨rfl, fun i' hi' => ?_⟩
              simp only [step, hi', hact, hp, hdrop, hgo]

/-- A failing step only looks at the stack and the lookahead. -/
theorem step_fail_indep {G : Grammar} {A : Auto} {st : List Entry} {i i' : List Nat}
    {lg lg' : List (Nat × List Tree)} (h : step G A ⟨st, i, lg⟩ = .fail) (hla : la i' = la i) :
    step G A ⟨st, i', lg'⟩ = .fail := by
  cases st with
  | nil => simp [step]
  | cons e st0 =>
    simp only [step, hla] at h ⊢
    cases hact : A.action e.state (la i) with
    | none => simp
    | some act =>
      cases act with
      | accept => simp [hact] at h
      | shift s' => simp [hact] at h
      | reduce p =>
        simp only [hact] at h ⊢
        cases hp : G.prods[p]? with
        | none => simp
        | some pr =>
          simp only [hp] at h ⊢
          cases hdrop : (e :: st0).drop pr.rhs.length with
          | nil => simp
          | cons e' rest =>
            simp only [hdrop] at h ⊢
            cases hgo : A.goto e'.state pr.lhs with
            | none => simp
            | some s'' => simp [hgo] at h

/-- The run up to `c` consumed a prefix `x` of the input and only ever looked at `x` and the
lookahead: it can be replayed with any other continuation `r` that starts with the same token. -/
theorem Reaches.replay {G : Grammar} {A : Auto} (hs : Safe G A) {c0 c : Config}
    (h : Reaches G A c0 c) :
    ∃ x, c0.input = x ++ c.input ∧ ∀ r, la r = la c.input →
      Reaches G A ⟨c0.stack, x ++ r, c0.log⟩ ⟨c.stack, r, c.log⟩ := by
  induction h with
  | refl c => exact ⟨[], rfl, fun r _ => .refl _⟩
  | @step c0 c1 c2 hst _ ih =>
    obtain ⟨x1, hx1, hrep⟩ := ih
    obtain ⟨st0, in0, lg0⟩ := c0
    rcases step_cases hst with ⟨s', hact, rfl⟩ | ⟨hin, hind⟩
    · simp only at hact hx1 hrep ⊢
      cases in0 with
      | nil => exact absurd (by simpa [la] using hact) (hs.noShiftEof _ s')
      | cons a rest =>
        simp only [List.tail_cons] at hx1 hrep
        refine ⟨a :: x1, by rw [hx1]; rfl, fun r hr => ?_⟩
        refine .step (c' := ⟨⟨s', .leaf a⟩ :: st0, x1 ++ r, lg0⟩) ?_
          (by simpa [la] using hrep r hr)
        cases st0 with
        | nil => simp [Abs.step] at hst
        | cons e st1 =>
          have hact' : A.action e.state a = some (.shift s') := by simpa [la] using hact
          simp [Abs.step, la, hact']
    · simp only at hin hind hx1 hrep ⊢
      refine ⟨x1, by rw [← hin]; exact hx1, fun r hr => ?_⟩
      have hla : la (x1 ++ r) = la in0 := by
        rw [← hin, hx1, la_append, la_append, hr]
      exact .step (hind _ hla) (hrep r hr)

/-- **Immediate error detection**: if the machine fails in `c` (reached from `init w`, `w = u ++
c.input`), then `u` followed by the lookahead of `c` is not a prefix of any sentence followed by
EOF – the offending token is the first one at which the input stops being a prefix of a sentence. -/
theorem error_not_prefix {G : Grammar} {A : Auto} {first} (hv : Valid G A first)
    (hf : FirstOK G first) (hs : Safe G A) {w : List Nat} {c : Config}
    (h : Reaches G A (init w) c) (hfail : step G A c = .fail) :
    ∃ u, w = u ++ c.input ∧ ∀ w' t, Der G [.n (startSym G)] w' [t] →
      ¬ (u ++ [la c.input]) <+: (w' ++ [eof]) := by
  obtain ⟨u, hu, hrep⟩ := h.replay hs
  refine ⟨u, by simpa [init] using hu, fun w' t hd hpre => ?_⟩
  obtain ⟨z, hz⟩ := hpre
  -- the continuation `r` of `w'` after `u`: same lookahead as `c`
  obtain ⟨r, hw', hr⟩ : ∃ r, w' = u ++ r ∧ la r = la c.input := by
    rcases List.eq_nil_or_concat z with rfl | ⟨z', e, rfl⟩
    · have : w' ++ [eof] = u ++ [la c.input] := by simpa using hz.symm
      obtain ⟨e1, e2⟩ := List.append_inj' this rfl
      refine ⟨[], by simpa using e1, ?_⟩
      simp only [List.cons.injEq, and_true] at e2
      rw [← e2]; rfl
    · have : w' ++ [eof] = (u ++ la c.input :: z') ++ [e] := by
        rw [← hz]; simp [List.append_assoc]
      obtain ⟨e1, _⟩ := List.append_inj' this rfl
      exact ⟨la c.input :: z', e1, by simp [la]⟩
  obtain ⟨n, hrun⟩ := complete_run hv hf hd
  have hreach := hrep r hr
  have hfail' : step G A ⟨c.stack, r, c.log⟩ = .fail := step_fail_indep (by simpa using hfail) hr
  have hrun1 : run G A 1 ⟨c.stack, r, c.log⟩ = .fail := by simp [run, hfail']
  obtain ⟨m, hm⟩ := run_of_reaches hreach 1 _ hrun1 (by simp)
  have hinit : (⟨(init w).stack, u ++ r, (init w).log⟩ : Config) = init w' := by
    simp [init, hw']
  rw [hinit] at hm
  have := run_det hm hrun (by simp) (by simp)
  cases this

end Abs

/-! ### Concrete `parse` -/

namespace Rt
open Lox.LR.Abs (StackInv)

/-- The concrete stack invariant with the consumed word made explicit: the leaves of the stack
values, bottom to top (`Error`s read as the terminal ERROR = 1). -/
theorem CInv.toStackInv' {G : Grammar} {A : Auto} {st : List Entry} {syms : List Sym}
    (h : CInv G A st syms) :
    StackInv G A (absStack st) syms ((stackLeaves st).map leafNat) := by
  induction h with
  | @base e h0 h1 =>
    have : absStack [e] = [⟨0, e.sym.toTree⟩] := by simp [absStack, h0]
    rw [this]
    have : (stackLeaves [e]).map leafNat = [] := by
      simp [stackLeaves, leavesL, h1, leaves]
    rw [this]
    exact .base _
  | @push e st syms X s' v b _ _ htr hder ih =>
    have e1 : (stackLeaves ({ state := s', sym := v, bounds := b } :: e :: st)).map leafNat =
        (stackLeaves (e :: st)).map leafNat ++ wordOf v := by
      rw [stackLeaves_cons]; simp [wordOf]
    rw [e1]
    exact .push ih htr hder

section
variable {G : Grammar} {nTerms nRules : Nat} {T : Tables} {cert : Array (List Item)}

/-- **Consumed symbols are a viable prefix** – in EVERY state `parse` can be in at the top of its
loop (also after recoveries; ERROR is then an ordinary terminal of `G`). -/
theorem consumed_viable (hck : CheckOK G nTerms nRules T cert) (hjo : JustifyOK G T cert)
    (hprod : Productive G) {inp : Array Nat} {wb : Bool} {fuel : Nat} {s : PState}
    (h : ParseReach T inp wb fuel s) :
    ∃ v t, Der G [.n (startSym G)] ((stackLeaves s.stack).map leafNat ++ v) [t] := by
  obtain ⟨_, syms, hci⟩ := parseReach_SInv hck.toSafeOK h
  exact Abs.consumed_viable (closed_of_checkOK hck) (safe_of_checkOK hck) hjo.justd hjo.edges hprod
    hci.toStackInv'

theorem isErr_false_of_errsIn {v : Val} (hl : v.isLeaf = true)
    (h : errsIn (fun _ => false) v = true) : v.isErr = false := by
  cases v <;> simp_all [Val.isLeaf, Val.isErr, errsIn]

/-- Along a plain run on an input without lexer ERROR tokens, the consumed symbols are exactly the
input tokens before the lookahead: `inp[0 .. j)` with `j` the index of the lookahead token. -/
theorem plain_consumed (hc : SafeOK G nTerms nRules T cert) {inp : Array Nat} {wb : Bool} {fuel : Nat} {s1 s : PState}
    (hinp1 : ∀ i : Nat, inp[i]? ≠ some 1) (h1 : readToken T inp initState = .ok s1)
    (hreach : PlainReach T inp wb fuel s1 s) :
    (stackLeaves s.stack).map leafNat = inp.toList.take (lidx s.lasym) := by
  have hcov : Cov inp s := (parseReach_SInv hc ⟨s1, h1, hreach.reach⟩).cov
  have herr : ErrsInv (lexErrAt inp) s :=
    hreach.inv (fun _ _ hs hpl hst => plain_step_ErrsInv hs hpl hst)
      (readToken_ErrsInv (initState_ErrsInv _) h1)
  have hm : ∀ i, lexErrAt inp i = true → (fun _ : Nat => false) i = true := by
    intro i hi
    simp only [lexErrAt, beq_iff_eq] at hi
    exact absurd hi (hinp1 i)
  obtain ⟨e1, _, e3, _⟩ := herr
  have hp := hcov.pinv
  have hla : s.lasym.isErr = false :=
    isErr_false_of_errsIn hp.laok.1 (errsIn_mono hm _ e1)
  have hq : s.qla = -1 := by
    by_cases hq : s.qla = -1
    · exact hq
    · have := (hp.qty hq).2.2.1
      rw [hla] at this; cases this
  have hne : ∀ x ∈ stackLeaves s.stack, x.isErr = false := by
    intro x hx
    have hall : errsInL (fun _ => false) (s.stack.reverse.map (·.sym)) = true := by
      apply errsInL_of_forall
      intro v hv
      obtain ⟨e, he, rfl⟩ := List.mem_map.mp hv
      exact errsIn_mono hm _ (e3 e (List.mem_reverse.mp he))
    exact leavesL_no_err _ hall x hx
  have hc := hcov.chain
  have hh := hcov.head
  rw [pending_noq hq] at hc hh
  have hall : ∀ x ∈ stackLeaves s.stack ++ [s.lasym], x.isErr = false := by
    intro x hx
    rcases List.mem_append.mp hx with hx | hx
    · exact hne x hx
    · rw [List.mem_singleton.mp hx]; exact hla
  have hr := chain_tok_range _ 0 hc hall
    (fun x hx => hh x hx (hall x (List.mem_of_mem_head? hx)))
  simp only [List.map_append, List.map_cons, List.map_nil, List.length_append, List.length_cons,
    List.length_nil, Nat.zero_add] at hr
  rw [List.range'_1_concat] at hr
  obtain ⟨hmap, hlast⟩ := List.append_inj' hr rfl
  have hlen : (stackLeaves s.stack).length = lidx s.lasym := by
    simp only [List.cons.injEq, and_true] at hlast
    omega
  -- the lookahead index is at most `|inp|`
  have hj : lidx s.lasym ≤ inp.size := by
    have htok := hp.tokLa
    have hleaf := hp.laok.1
    cases hl : s.lasym with
    | nil => rw [hl] at hleaf; cases hleaf
    | node => rw [hl] at hleaf; cases hleaf
    | err => rw [hl] at hla; cases hla
    | tok i ty =>
      rw [hl] at htok
      rcases htok with h | ⟨h, -⟩
      · exact Nat.le_of_lt (Array.getElem?_eq_some_iff.mp h).1
      · simp [lidx, h]
  apply List.ext_getElem?
  intro i
  by_cases hi : i < lidx s.lasym
  · have hi' : i < (stackLeaves s.stack).length := by omega
    have hisz : i < inp.size := by omega
    have hx : (stackLeaves s.stack)[i] ∈ stackLeaves s.stack := List.getElem_mem hi'
    have hidx' : lidx (stackLeaves s.stack)[i] = i := by
      have := congrArg (fun l => l[i]?) hmap
      simp only [List.getElem?_map, List.getElem?_eq_getElem hi', Option.map_some,
        List.getElem?_range' hi'] at this
      have := Option.some.inj this
      omega
    have hleaf := leavesL_isLeaf _ _ hx
    have hnerr := hne _ hx
    have htok := hcov.tok _ hx
    rw [List.getElem?_map, List.getElem?_eq_getElem hi', List.getElem?_take_of_lt hi,
      Array.getElem?_toList, Array.getElem?_eq_getElem hisz]
    cases hv : (stackLeaves s.stack)[i] with
    | nil => rw [hv] at hleaf; cases hleaf
    | node => rw [hv] at hleaf; cases hleaf
    | err => rw [hv] at hnerr; cases hnerr
    | tok j ty =>
      rw [hv] at hidx' htok
      have hj' : j = i := hidx'
      subst hj'
      rcases htok with h | ⟨h, -⟩
      · rw [Array.getElem?_eq_getElem hisz] at h
        cases h
        simp [leafNat, leafTy]
      · omega
  · rw [List.getElem?_eq_none (by simp; omega), List.getElem?_eq_none (by simp; omega)]

end
end Rt
end Lox.LR
