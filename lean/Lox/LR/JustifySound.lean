import Lox.LR.Justify
import Lox.LR.LALRBasics
import Lox.LR.CheckSound
/-! Soundness of the ⊆ validator `justify` (`Lox/LR/Justify.lean`): `justify_sound` and the
companions `justify_justd`, `justify_edges`, `justify_kernels`, `productiveB_sound`. -/
namespace Lox.LR

theorem mem_prods_toList {G : Grammar} {pr : Prod} (h : pr ∈ G.prods.toList) :
    ∃ q : Nat, G.prods[q]? = some pr := by
  rw [Array.mem_toList_iff] at h
  obtain ⟨q, hq, rfl⟩ := Array.mem_iff_getElem.mp h
  exact ⟨q, Array.getElem?_eq_getElem hq⟩

/-! ### Ranked nullable / FIRST tables -/

theorem nullWit_sound {G : Grammar} {R : RankTab} {r : Nat}
    (ih : ∀ C, 0 < R.nullR C → R.nullR C < r → Derives G [.n C] []) :
    ∀ α, nullWit R r α = true → Derives G α []
  | [], _ => .refl _
  | .t _ :: _, h => by simp [nullWit] at h
  | .n C :: rest, h => by
    simp only [nullWit, Bool.and_eq_true, decide_eq_true_eq] at h
    have h1 := ih C h.1.1 h.1.2
    have h2 := nullWit_sound ih rest h.2
    have := (h1.append_right rest).trans (by simpa using h2)
    simpa using this

theorem rankOKB_null {G : Grammar} {R : RankTab} (h : rankOKB G R = true) :
    ∀ n B, R.nullR B = n → 0 < n → Derives G [.n B] [] := by
  simp only [rankOKB, Bool.and_eq_true, List.all_eq_true, List.mem_range, Bool.or_eq_true,
    beq_iff_eq, List.any_eq_true] at h
  intro n
  induction n using Nat.strongRecOn with
  | _ n ih =>
    intro B hB hn
    have hlt : B < R.null.size := by
      by_cases hlt : B < R.null.size
      · exact hlt
      · have : R.nullR B = 0 := by
          simp [RankTab.nullR, Array.getElem?_eq_none (Nat.le_of_not_lt hlt)]
        omega
    rcases h.1 B hlt with h0 | ⟨pr, hmem, hw⟩
    · omega
    · obtain ⟨q, hq⟩ := mem_prods_toList hmem
      have hd := nullWit_sound (G := G) (fun C h0 hlt => ih (R.nullR C) (by omega) C rfl h0) _ hw.2
      have := (Derives.prod hq).trans hd
      rw [hw.1] at this
      exact this

theorem firstWit_sound {G : Grammar} {R : RankTab} {r b : Nat}
    (hn : ∀ C, 0 < R.nullR C → Derives G [.n C] [])
    (ih : ∀ C, 0 < R.firstR C b → R.firstR C b < r → ∃ δ, Derives G [.n C] (.t b :: δ)) :
    ∀ α, firstWit R r b α = true → ∃ δ, Derives G α (.t b :: δ)
  | [], h => by simp [firstWit] at h
  | .t x :: rest, h => by
    simp only [firstWit, beq_iff_eq] at h
    subst h
    exact ⟨rest, .refl _⟩
  | .n C :: rest, h => by
    simp only [firstWit, Bool.or_eq_true, Bool.and_eq_true, decide_eq_true_eq] at h
    rcases h with h | h
    · obtain ⟨δ, hd⟩ := ih C h.1 h.2
      refine ⟨δ ++ rest, ?_⟩
      have := hd.append_right rest
      simpa using this
    · obtain ⟨δ, hd⟩ := firstWit_sound hn ih rest h.2
      refine ⟨δ, ?_⟩
      have := ((hn C h.1).append_right rest).trans (by simpa using hd)
      simpa using this

theorem rankOKB_first {G : Grammar} {R : RankTab} (h : rankOKB G R = true) :
    ∀ n B b, R.firstR B b = n → 0 < n → ∃ δ, Derives G [.n B] (.t b :: δ) := by
  have hnull := fun C (h0 : 0 < R.nullR C) => rankOKB_null h _ C rfl h0
  simp only [rankOKB, Bool.and_eq_true, List.all_eq_true, List.mem_range, Bool.or_eq_true,
    beq_iff_eq, List.any_eq_true] at h
  intro n
  induction n using Nat.strongRecOn with
  | _ n ih =>
    intro B b hB hn
    have hlt : B < R.first.size := by
      by_cases hlt : B < R.first.size
      · exact hlt
      · have : R.firstR B b = 0 := by
          simp [RankTab.firstR, Array.getElem?_eq_none (Nat.le_of_not_lt hlt)]
        omega
    have hlt2 : b < (R.first[B]?.getD #[]).size := by
      by_cases hlt2 : b < (R.first[B]?.getD #[]).size
      · exact hlt2
      · have : R.firstR B b = 0 := by
          simp [RankTab.firstR, Array.getElem?_eq_none (Nat.le_of_not_lt hlt2)]
        omega
    rcases h.2 B hlt b hlt2 with h0 | ⟨pr, hmem, hw⟩
    · omega
    · obtain ⟨q, hq⟩ := mem_prods_toList hmem
      obtain ⟨δ, hd⟩ := firstWit_sound (G := G) hnull
        (fun C h0 hlt => ih (R.firstR C b) (by omega) C b rfl h0) _ hw.2
      have := (Derives.prod hq).trans hd
      rw [hw.1] at this
      exact ⟨δ, this⟩

/-- The table-based FIRST test is sound w.r.t. the semantic `First`. -/
theorem firstSeqB_sound {G : Grammar} {R : RankTab} (h : rankOKB G R = true) {a b : Nat} :
    ∀ α, firstSeqB R a b α = true → First G α a b
  | [], hb => by
    simp only [firstSeqB, beq_iff_eq] at hb
    exact .inr ⟨.refl _, hb⟩
  | .t x :: rest, hb => by
    simp only [firstSeqB, beq_iff_eq] at hb
    subst hb
    exact .inl ⟨rest, .refl _⟩
  | .n C :: rest, hb => by
    simp only [firstSeqB, Bool.or_eq_true, Bool.and_eq_true, decide_eq_true_eq] at hb
    rcases hb with hb | hb
    · obtain ⟨δ, hd⟩ := rankOKB_first h _ C b rfl hb
      refine .inl ⟨δ ++ rest, ?_⟩
      have := hd.append_right rest
      simpa using this
    · have hnul : Derives G (.n C :: rest) rest := by
        have := (rankOKB_null h _ C rfl hb.1).append_right rest
        simpa using this
      rcases firstSeqB_sound h rest hb.2 with ⟨δ, hd⟩ | ⟨hd, he⟩
      · exact .inl ⟨δ, hnul.trans hd⟩
      · exact .inr ⟨hnul.trans hd, he⟩

/-! ### Items -/

theorem itemsJustB_sound {G : Grammar} {A : Auto} {R : RankTab} {rk : Nat → Item → Nat}
    {jf : Nat → Item → Just} {n : Nat} (hR : rankOKB G R = true)
    (hn : ∀ s it, it ∈ A.items s → s < n) (h : itemsJustB G A R rk jf n = true) :
    ∀ s it, it ∈ A.items s → Justd G A s it := by
  simp only [itemsJustB, List.all_eq_true, List.mem_range] at h
  suffices hm : ∀ m s it, it ∈ A.items s → rk s it = m → Justd G A s it from
    fun s it hit => hm _ s it hit rfl
  intro m
  induction m using Nat.strongRecOn with
  | _ m ih =>
    intro s it hit hrk
    have hj := h s (hn s it hit) it hit
    unfold justItemB at hj
    cases hjf : jf s it with
    | start =>
      simp only [hjf, Bool.and_eq_true, beq_iff_eq, decide_eq_true_eq] at hj
      obtain ⟨rfl, rfl⟩ := hj
      exact .start hit
    | goto s' =>
      simp only [hjf] at hj
      obtain ⟨p, d, a⟩ := it
      cases d with
      | zero => simp at hj
      | succ d =>
        cases hp : G.prods[p]? with
        | none => simp [hp] at hj
        | some pr =>
          simp only [hp, Bool.and_eq_true, decide_eq_true_eq] at hj
          obtain ⟨⟨hX, hmem⟩, hlt⟩ := hj
          cases hx : pr.rhs[d]? with
          | none => simp [hx] at hX
          | some X =>
            simp only [hx, beq_iff_eq] at hX
            have hmem' := hasItem_iff.mp hmem
            have hpar := ih _ (by omega) s' ⟨p, d, a⟩ hmem' rfl
            exact .goto hpar hp hx hX hit
    | clos p' d' a' =>
      simp only [hjf, Bool.and_eq_true, beq_iff_eq, decide_eq_true_eq] at hj
      obtain ⟨⟨⟨hd, hmem⟩, hlt⟩, hrest⟩ := hj
      obtain ⟨p, d, a⟩ := it
      simp only at hd
      subst hd
      have hmem' := hasItem_iff.mp hmem
      have hpar := ih _ (by omega) s ⟨p', d', a'⟩ hmem' rfl
      cases hp' : G.prods[p']? with
      | none => simp [hp'] at hrest
      | some pr' =>
        cases hp : G.prods[p]? with
        | none => simp [hp', hp] at hrest
        | some pr =>
          simp only [hp', hp, Bool.and_eq_true, beq_iff_eq] at hrest
          exact .closure hpar hp' hrest.1 hp rfl (firstSeqB_sound hR _ hrest.2) hit

/-! ### Edges -/

theorem hasNext_spec {G : Grammar} {items : List Item} {X : Sym} (h : hasNext G items X = true) :
    ∃ it ∈ items, ∃ pr, G.prods[it.p]? = some pr ∧ pr.rhs[it.d]? = some X := by
  simp only [hasNext, List.any_eq_true] at h
  obtain ⟨it, hmem, hit⟩ := h
  cases hp : G.prods[it.p]? with
  | none => simp [hp] at hit
  | some pr =>
    simp only [hp, beq_iff_eq] at hit
    exact ⟨it, hmem, pr, hp, hit⟩

theorem edgesB_actions {G : Grammar} {T : Tables} {cert : Array (List Item)}
    (h : edgesB G T cert = true) : ActionsBacked G (autoOf T cert) := by
  simp only [edgesB, List.all_eq_true, List.mem_range] at h
  intro s a act hact
  obtain ⟨hs, v, hf, hdec⟩ := action_eq hact
  have hst := h s hs
  simp only [edgesStateB, Bool.and_eq_true] at hst
  cases hrow : rowOf T.actions (s : Int) with
  | none => simp [hrow] at hst
  | some row =>
    have hall := hst.1
    simp only [hrow, List.all_eq_true, Bool.and_eq_true, decide_eq_true_eq] at hall
    obtain ⟨_, hent⟩ := hall _ (find_hit_mem hrow hf)
    simp only [Int.toNat_natCast] at hent
    cases act with
    | accept =>
      have hv := decodeAct_accept.mp hdec
      simp only [hv, if_true, Bool.and_eq_true, beq_iff_eq] at hent
      have ha : a = 0 := by omega
      exact .accept (hasItem_iff.mp hent.2) ha
    | shift s' =>
      obtain ⟨hna, hv, _⟩ := decodeAct_shift.mp hdec
      simp only [hna, if_false, hv, if_true] at hent
      obtain ⟨it, hmem, pr, hp, hX⟩ := hasNext_spec hent
      refine .shift (p := it.p) (d := it.d) (b := it.a) hmem hp hX ?_
      simp [trans, hact]
    | reduce p =>
      obtain ⟨hna, hv, hp⟩ := decodeAct_reduce.mp hdec
      have hnv : ¬ 0 ≤ v := by omega
      simp only [hna, if_false, hnv, hp] at hent
      cases hpr : G.prods[p]? with
      | none => simp [hpr] at hent
      | some pr =>
        simp only [hpr] at hent
        exact .reduce (hasItem_iff.mp hent) hpr (by omega)

theorem edgesB_gotos {G : Grammar} {T : Tables} {cert : Array (List Item)}
    (h : edgesB G T cert = true) : GotosBacked G (autoOf T cert) := by
  simp only [edgesB, List.all_eq_true, List.mem_range] at h
  intro s B s' htr
  obtain ⟨hs, v, hf, _⟩ := goto_eq htr
  have hst := h s hs
  simp only [edgesStateB, Bool.and_eq_true] at hst
  cases hrow : rowOf T.gotos (s : Int) with
  | none => simp [hrow] at hst
  | some row =>
    have hall := hst.2
    simp only [hrow, List.all_eq_true] at hall
    have hmem := find_hit_mem hrow hf
    have h2 := hasNext_spec (hall _ hmem)
    simp only [Int.toNat_natCast] at h2
    exact h2

/-! ### Kernels -/

theorem mem_kernelCores {items : List Item} {p d : Nat} :
    (p, d) ∈ kernelCores items ↔ HasCore items p d ∧ isKernel ⟨p, d, 0⟩ = true := by
  simp only [kernelCores, List.mem_map, List.mem_filter, HasCore]
  constructor
  · rintro ⟨⟨p', d', a'⟩, ⟨hm, hk⟩, he⟩
    simp only at he
    obtain ⟨rfl, rfl⟩ := he
    exact ⟨⟨a', hm⟩, by simpa [isKernel] using hk⟩
  · rintro ⟨⟨a, hm⟩, hk⟩
    exact ⟨⟨p, d, a⟩, ⟨hm, by simpa [isKernel] using hk⟩, rfl⟩

theorem coresDiffer_spec {k k' : List (Nat × Nat)} (h : coresDiffer k k' = true) :
    ∃ c, (c ∈ k ∧ c ∉ k') ∨ (c ∈ k' ∧ c ∉ k) := by
  simp only [coresDiffer, Bool.or_eq_true, List.any_eq_true, Bool.not_eq_true',
    List.contains_eq_mem, decide_eq_false_iff_not] at h
  rcases h with ⟨c, h1, h2⟩ | ⟨c, h1, h2⟩
  · exact ⟨c, .inl ⟨h1, h2⟩⟩
  · exact ⟨c, .inr ⟨h1, h2⟩⟩

theorem kernelsDistinctB_sound {T : Tables} {cert : Array (List Item)}
    (h : kernelsDistinctB cert = true) : KernelsDistinct (autoOf T cert) cert.size := by
  simp only [kernelsDistinctB, List.all_eq_true, List.mem_range] at h
  have key : ∀ s s', s < cert.size → s' < s →
      ¬ (∀ p d, HasCore (itemsOf cert s) p d ↔ HasCore (itemsOf cert s') p d) := by
    intro s s' hs hlt hsame
    have hs' : s' < cert.size := by omega
    have hd := h s hs s' hlt
    have e1 : (cert.map kernelCores)[s]?.getD [] = kernelCores (itemsOf cert s) := by
      simp [itemsOf, Array.getElem?_eq_getElem hs]
    have e2 : (cert.map kernelCores)[s']?.getD [] = kernelCores (itemsOf cert s') := by
      simp [itemsOf, Array.getElem?_eq_getElem hs']
    rw [e1, e2] at hd
    obtain ⟨⟨p, d⟩, hc | hc⟩ := coresDiffer_spec hd
    · obtain ⟨h1, h2⟩ := hc
      rw [mem_kernelCores] at h1 h2
      exact h2 ⟨(hsame p d).mp h1.1, h1.2⟩
    · obtain ⟨h1, h2⟩ := hc
      rw [mem_kernelCores] at h1 h2
      exact h2 ⟨(hsame p d).mpr h1.1, h1.2⟩
  intro s s' hs hs' hsame
  rcases Nat.lt_trichotomy s s' with hlt | heq | hgt
  · exact absurd (fun p d => (hsame p d).symm) (key s' s hs' hlt)
  · exact heq
  · exact absurd hsame (key s s' hs hgt)

/-! ### The validator -/

/-- What `justify` establishes. -/
structure JustifyOK (G : Grammar) (T : Tables) (cert : Array (List Item)) : Prop where
  justd : ∀ s it, it ∈ itemsOf cert s → Justd G (autoOf T cert) s it
  actions : ActionsBacked G (autoOf T cert)
  gotos : GotosBacked G (autoOf T cert)
  kernels : KernelsDistinct (autoOf T cert) cert.size

theorem JustifyOK.edges {G : Grammar} {T : Tables} {cert : Array (List Item)}
    (h : JustifyOK G T cert) : EdgesBacked G (autoOf T cert) :=
  edges_of_backed h.actions h.gotos

theorem justifyWith_spec {G : Grammar} {T : Tables} {cert : Array (List Item)} {R : RankTab}
    {rk : Nat → Item → Nat} {jf : Nat → Item → Just} (h : justifyWith G T cert R rk jf = true) :
    JustifyOK G T cert := by
  simp only [justifyWith, Bool.and_eq_true] at h
  obtain ⟨⟨⟨h1, h2⟩, h3⟩, h4⟩ := h
  exact ⟨itemsJustB_sound h1 (fun s it hit => mem_itemsOf hit) h2, edgesB_actions h3,
    edgesB_gotos h3, kernelsDistinctB_sound h4⟩

theorem justify_ok_iff {G : Grammar} {nTerms nRules : Nat} {T : Tables} {cert : Array (List Item)} :
    justify G nTerms nRules T cert = .ok () ↔ justifyB G nTerms nRules T cert = true := by
  unfold justify
  by_cases h : justifyB G nTerms nRules T cert = true <;> simp [h]

theorem justifyB_spec {G : Grammar} {nTerms nRules : Nat} {T : Tables} {cert : Array (List Item)}
    (h : justifyB G nTerms nRules T cert = true) : JustifyOK G T cert := by
  unfold justifyB at h
  exact justifyWith_spec h

theorem justify_spec {G : Grammar} {nTerms nRules : Nat} {T : Tables} {cert : Array (List Item)}
    (h : justify G nTerms nRules T cert = .ok ()) : JustifyOK G T cert :=
  justifyB_spec (justify_ok_iff.mp h)

/-- **Soundness of the ⊆ validator**: every item of the certificate is an LALR(1) item of its
state (w.r.t. the automaton skeleton read off the emitted tables). -/
theorem justify_sound {G : Grammar} {nTerms nRules : Nat} {T : Tables} {cert : Array (List Item)}
    (h : justify G nTerms nRules T cert = .ok ()) :
    ∀ s it, it ∈ itemsOf cert s → LALRItem G (autoOf T cert) s it :=
  fun s it hit => ((justify_spec h).justd s it hit).lalr

/-! ### Productive rules -/

theorem prodWit_sound {G : Grammar} {P : Array Nat} {r : Nat}
    (ih : ∀ C, 0 < P[C]?.getD 0 → P[C]?.getD 0 < r → ∃ w ts, Der G [.n C] w ts) :
    ∀ α, prodWit P r α = true → ∃ w ts, Der G α w ts
  | [], _ => ⟨[], [], .nil⟩
  | .t x :: rest, h => by
    simp only [prodWit] at h
    obtain ⟨w, ts, hd⟩ := prodWit_sound ih rest h
    exact ⟨_, _, .term hd⟩
  | .n C :: rest, h => by
    simp only [prodWit, Bool.and_eq_true, decide_eq_true_eq] at h
    obtain ⟨w1, ts1, h1⟩ := ih C h.1.1 h.1.2
    obtain ⟨w2, ts2, h2⟩ := prodWit_sound ih rest h.2
    have := Der.append h1 h2
    exact ⟨_, _, by simpa using this⟩

theorem prodRankOKB_sound {G : Grammar} {P : Array Nat} (h : prodRankOKB G P = true) :
    ∀ n B, P[B]?.getD 0 = n → 0 < n → ∃ w ts, Der G [.n B] w ts := by
  simp only [prodRankOKB, List.all_eq_true, List.mem_range, Bool.or_eq_true, beq_iff_eq,
    List.any_eq_true] at h
  intro n
  induction n using Nat.strongRecOn with
  | _ n ih =>
    intro B hB hn
    have hlt : B < P.size := by
      by_cases hlt : B < P.size
      · exact hlt
      · have : P[B]?.getD 0 = 0 := by simp [Array.getElem?_eq_none (Nat.le_of_not_lt hlt)]
        omega
    rcases h B hlt with h0 | ⟨pr, hmem, hw⟩
    · omega
    · simp only [Bool.and_eq_true, beq_iff_eq] at hw
      obtain ⟨q, hq⟩ := mem_prods_toList hmem
      obtain ⟨w, ts, hd⟩ := prodWit_sound (G := G)
        (fun C h0 hlt => ih (P[C]?.getD 0) (by omega) C rfl h0) _ hw.2
      have := Der.nonterm (α := []) hq hd .nil
      rw [hw.1] at this
      exact ⟨_, _, this⟩

/-- Soundness of the productivity check. -/
theorem productiveB_sound {G : Grammar} {nRules : Nat} (h : productiveB G nRules = true) :
    Productive G := by
  simp only [productiveB, Bool.and_eq_true] at h
  obtain ⟨h1, h2⟩ := h
  have hs := prodRankOKB_sound h1
  simp only [allProductiveB, List.all_eq_true, Bool.and_eq_true, decide_eq_true_eq] at h2
  intro p pr hp
  have hmem : pr ∈ G.prods.toList := by
    rw [Array.mem_toList_iff]; exact Array.mem_of_getElem? hp
  obtain ⟨ha, hb⟩ := h2 pr hmem
  refine ⟨hs _ _ rfl ha, fun B hB => ?_⟩
  have := hb _ hB
  simp only [decide_eq_true_eq] at this
  exact hs _ _ rfl this

end Lox.LR
