import Lox.LR.Model
/-! Abstract LR machine, derivations and the validator conditions `Valid` / `Safe`.

Specification level (read these): `Tree`, `Der`, `startSym`, `Tree.post`.
Machine level (namespace `Lox.LR.Abs`): `Config`, `step`, `Reaches`, `run` – the loop of the generated
`parse` (internal/codegen/emit_parser.go, `parserTemplate`) without error recovery, over an
abstract automaton `Auto` (action / goto functions and an item-set certificate per state).

Conventions as in `Model.lean`: terminal 0 = EOF (read after the end of the input), production 0 is
`S' → start`. Core Lean only. -/
namespace Lox.LR

/-- Derivation trees: `leaf a` for a token of terminal `a`, `node p kids` for production `p`. -/
inductive Tree where
  | leaf (a : Nat)
  | node (p : Nat) (kids : List Tree)
  deriving Repr, Inhabited

/-- `Der G α w ts`: the sentential form `α` derives the token string `w`, with derivation forest `ts`
(one tree per symbol of `α`, in order). -/
inductive Der (G : Grammar) : List Sym → List Nat → List Tree → Prop where
  | nil : Der G [] [] []
  | term {a α w ts} : Der G α w ts → Der G (Sym.t a :: α) (a :: w) (Tree.leaf a :: ts)
  | nonterm {q pr α w1 w2 ts1 ts2} :
      G.prods[q]? = some pr → Der G pr.rhs w1 ts1 → Der G α w2 ts2 →
      Der G (Sym.n pr.lhs :: α) (w1 ++ w2) (Tree.node q ts1 :: ts2)

/-- The start symbol: production 0 is `S' → start`. -/
def startSym (G : Grammar) : Nat :=
  match G.prods[0]? with
  | some pr => match pr.rhs with
    | [Sym.n S] => S
    | _ => 0
  | none => 0

mutual
/-- Post-order listing of the production nodes of a tree: children before the parent, left to
right; each entry is the production with its children subtrees in production order. -/
def Tree.post : Tree → List (Nat × List Tree)
  | .leaf _ => []
  | .node p kids => postList kids ++ [(p, kids)]
def postList : List Tree → List (Nat × List Tree)
  | [] => []
  | t :: ts => t.post ++ postList ts
end

mutual
/-- The token string at the leaves of a tree. -/
def Tree.yield : Tree → List Nat
  | .leaf a => [a]
  | .node _ kids => yieldList kids
def yieldList : List Tree → List Nat
  | [] => []
  | t :: ts => t.yield ++ yieldList ts
end

structure Item where
  p : Nat
  d : Nat
  a : Nat
  deriving DecidableEq, Repr, Inhabited

inductive Act where
  | shift (s : Nat)
  | reduce (p : Nat)
  | accept
  deriving DecidableEq, Repr

/-- An LR automaton with an item certificate per state. -/
structure Auto where
  action : Nat → Nat → Option Act
  goto : Nat → Nat → Option Nat
  items : Nat → List Item

def eof : Nat := 0

/-- The edge relation of the automaton. -/
def trans (A : Auto) (s : Nat) : Sym → Option Nat
  | .t x => match A.action s x with
    | some (.shift s') => some s'
    | _ => none
  | .n B => A.goto s B

namespace Abs

structure Entry where
  state : Nat
  val : Tree

structure Config where
  stack : List Entry                 -- top first
  input : List Nat                   -- remaining tokens; EOF afterwards
  log : List (Nat × List Tree) := [] -- reductions performed, oldest first

/-- The lookahead: next token or EOF. -/
def la (inp : List Nat) : Nat := inp.headD eof

inductive Out where
  | cont (c : Config)
  | acc (t : Tree)
  | fail

def topState (st : List Entry) : Nat := (st.head?.map (·.state)).getD 0

/-- One iteration of the loop of `parse`. A missing action is `fail` (the generated parser would
enter `_recover`); a stack that is too short or a missing goto is `fail` as well. -/
def step (G : Grammar) (A : Auto) (c : Config) : Out :=
  match c.stack with
  | [] => .fail
  | e :: _ =>
    match A.action e.state (la c.input) with
    | none => .fail
    | some .accept => .acc e.val
    | some (.shift s') => .cont ⟨⟨s', .leaf (la c.input)⟩ :: c.stack, c.input.tail, c.log⟩
    | some (.reduce p) =>
      match G.prods[p]? with
      | none => .fail
      | some pr =>
        let k := pr.rhs.length
        let kids := ((c.stack.take k).map (·.val)).reverse
        match c.stack.drop k with
        | [] => .fail
        | e' :: rest =>
          match A.goto e'.state pr.lhs with
          | none => .fail
          | some s' => .cont ⟨⟨s', .node p kids⟩ :: e' :: rest, c.input, c.log ++ [(p, kids)]⟩

inductive Reaches (G : Grammar) (A : Auto) : Config → Config → Prop where
  | refl c : Reaches G A c c
  | step {c c' c''} : step G A c = .cont c' → Reaches G A c' c'' → Reaches G A c c''

inductive Res where
  | acc (t : Tree) (log : List (Nat × List Tree))
  | fail
  | timeout

/-- Run at most `fuel` iterations. -/
def run (G : Grammar) (A : Auto) : Nat → Config → Res
  | 0, _ => .timeout
  | n + 1, c =>
    match step G A c with
    | .cont c' => run G A n c'
    | .acc t => .acc t c.log
    | .fail => .fail

/-- `parse`: bottom entry with state 0, whole input pending. -/
def init (w : List Nat) : Config := ⟨[⟨0, .leaf 0⟩], w, []⟩

/-- Reduce-only run on a LOCAL stack of states `L` (top first) under the fixed lookahead `a`:
`true` iff within the fuel the machine stops reducing (no action / shift / accept / missing goto)
or a reduction needs to look at or below the bottom element of `L`. Used by the termination
check: the consecutive reductions of the real machine are bounded when all local runs from
`[s, q]` (`q → s` an edge) and from `[0]` return `true`. -/
def lrun (G : Grammar) (A : Auto) (a : Nat) : Nat → List Nat → Bool
  | 0, _ => false
  | _ + 1, [] => true
  | n + 1, s :: L =>
    match A.action s a with
    | some (.reduce p) =>
      match G.prods[p]? with
      | none => true
      | some pr =>
        match (s :: L).drop pr.rhs.length with
        | [] => true
        | s' :: r =>
          match A.goto s' pr.lhs with
          | none => true
          | some s'' => lrun G A a n (s'' :: s' :: r)
    | _ => true

end Abs

/-- What a FIRST function must satisfy: `first α a` contains the first token of every string
derived from `α` followed by `a`. -/
structure FirstOK (G : Grammar) (first : List Sym → Nat → List Nat) : Prop where
  complete : ∀ {α w ts} (a : Nat), Der G α w ts → w.headD a ∈ first α a

/-- Completeness side of the validator conditions. -/
structure Valid (G : Grammar) (A : Auto) (first : List Sym → Nat → List Nat) : Prop where
  prod0 : ∃ S', G.prods[0]? = some ⟨S', [.n (startSym G)]⟩
  start : ⟨0, 0, eof⟩ ∈ A.items 0
  shift : ∀ s it pr x, it ∈ A.items s → G.prods[it.p]? = some pr → pr.rhs[it.d]? = some (.t x) →
    ∃ s', A.action s x = some (.shift s') ∧ ⟨it.p, it.d + 1, it.a⟩ ∈ A.items s'
  goto : ∀ s it pr B, it ∈ A.items s → G.prods[it.p]? = some pr → pr.rhs[it.d]? = some (.n B) →
    ∃ s', A.goto s B = some s' ∧ ⟨it.p, it.d + 1, it.a⟩ ∈ A.items s'
  closure : ∀ s it pr B q qr b, it ∈ A.items s → G.prods[it.p]? = some pr →
    pr.rhs[it.d]? = some (.n B) → G.prods[q]? = some qr → qr.lhs = B →
    b ∈ first (pr.rhs.drop (it.d + 1)) it.a → ⟨q, 0, b⟩ ∈ A.items s
  reduce : ∀ s it pr, it ∈ A.items s → G.prods[it.p]? = some pr → it.d = pr.rhs.length →
    it.p ≠ 0 → A.action s it.a = some (.reduce it.p)
  accept : ∀ s, ⟨0, 1, eof⟩ ∈ A.items s → A.action s eof = some .accept
  noStart : ∀ (p : Nat) (pr pr0 : Prod), G.prods[p]? = some pr → G.prods[0]? = some pr0 →
    Sym.n pr0.lhs ∉ pr.rhs

/-- Soundness side of the validator conditions. -/
structure Safe (G : Grammar) (A : Auto) : Prop where
  prod0 : ∃ S', G.prods[0]? = some ⟨S', [.n (startSym G)]⟩
  /-- state 0 holds only dot-0 items -/
  s0 : ∀ it ∈ A.items 0, it.d = 0
  /-- no edge leads into state 0 -/
  noIn : ∀ s X, trans A s X ≠ some 0
  /-- every dot>0 item of a target state has its predecessor in the source state, and the edge
  label is the symbol before the dot -/
  back : ∀ s X s' it, trans A s X = some s' → it ∈ A.items s' → 0 < it.d →
      ∃ pr, G.prods[it.p]? = some pr ∧ pr.rhs[it.d - 1]? = some X ∧
        ∃ a', (⟨it.p, it.d - 1, a'⟩ : Item) ∈ A.items s
  /-- every reduce entry is backed by a completed item -/
  red : ∀ s a p, A.action s a = some (.reduce p) → ∃ pr a', G.prods[p]? = some pr ∧
      (⟨p, pr.rhs.length, a'⟩ : Item) ∈ A.items s
  /-- accept only on EOF and only backed by `S' → S ·` -/
  acc : ∀ s a, A.action s a = some .accept → a = eof ∧ ∃ a', (⟨0, 1, a'⟩ : Item) ∈ A.items s
  /-- `S' → · S` lives only in state 0 -/
  startOnly : ∀ s a, (⟨0, 0, a⟩ : Item) ∈ A.items s → s = 0
  /-- EOF is never shifted -/
  noShiftEof : ∀ s s', A.action s eof ≠ some (.shift s')
  /-- every dot-0 item's rule has a goto (so a reduction never lacks its goto entry) -/
  gotoDef : ∀ s it pr, it ∈ A.items s → it.d = 0 → it.p ≠ 0 → G.prods[it.p]? = some pr →
      ∃ s', A.goto s pr.lhs = some s'

end Lox.LR
