/-! Executable model of the generated parser runtime (`internal/codegen/emit_parser.go`,
`parserTemplate`: `_Find`, `parse`, `_readToken`, `_recover`, `_makeError`, `_act`, `_Bounds`)
over the emitted `int32` arrays `_rules`, `_termCounts`, `_actions`, `_goto`. Core Lean only.

Conventions: terminal 0 = EOF, terminal 1 = ERROR; production 0 = `S' → start`;
`accept = MaxInt32`; a negative action `-p` reduces production `p`, a non-negative one shifts
to that state. Go panics (index out of range, failed type assertion) are explicit outcomes. -/
namespace Lox.LR

inductive Sym where
  | t (a : Nat)
  | n (A : Nat)
  deriving DecidableEq, Repr, Inhabited

structure Prod where
  lhs : Nat
  rhs : List Sym
  deriving DecidableEq, Repr, Inhabited

structure Grammar where
  prods : Array Prod
  deriving Repr, Inhabited

/-- The four emitted arrays. -/
structure Tables where
  rules : Array Int
  termCounts : Array Int
  actions : Array Int
  gotos : Array Int
  deriving Repr, Inhabited

def acceptCode : Int := 2147483647
def tEOF : Int := 0
def tERROR : Int := 1

/-- Result of an array read path: found, not found, or a Go index-out-of-range panic. -/
inductive Look where
  | hit (v : Int)
  | miss
  | oob
  deriving DecidableEq, Repr

/-- `tbl[i]` with a Go `int` index. -/
def geti (tbl : Array Int) (i : Int) : Option Int :=
  if i < 0 then none else tbl[i.toNat]?

/-- The scan loop of `_Find`: `for ; i < end; i += 2 { if table[i] == x { return table[i+1] } }`;
`n` bounds the iterations (`n ≥ (end - i + 1) / 2`). -/
def findScan (tbl : Array Int) (x : Int) : Nat → Int → Int → Look
  | 0, _, _ => .miss
  | n + 1, i, stop =>
    if i < stop then
      match geti tbl i with
      | none => .oob
      | some k =>
        if k = x then
          match geti tbl (i + 1) with
          | none => .oob
          | some v => .hit v
        else findScan tbl x n (i + 2) stop
    else .miss

/-- `_Find(table, y, x)`. -/
def find (tbl : Array Int) (y x : Int) : Look :=
  match geti tbl y with
  | none => .oob
  | some i =>
    match geti tbl i with
    | none => .oob
    | some count => findScan tbl x (count.toNat + 1) (i + 1) (i + 1 + count)

/-- Keys of a row (`_makeError`'s `Expected`). -/
def rowKeysScan (tbl : Array Int) : Nat → Int → Int → Option (List Int)
  | 0, _, _ => some []
  | n + 1, i, stop =>
    if i < stop then
      match geti tbl i with
      | none => none
      | some k => (rowKeysScan tbl n (i + 2) stop).map (k :: ·)
    else some []

def rowKeys (tbl : Array Int) (y : Int) : Option (List Int) :=
  match geti tbl y with
  | none => none
  | some i =>
    match geti tbl i with
    | none => none
    | some count => rowKeysScan tbl (count.toNat + 1) (i + 1) (i + 1 + count)

/-- Values on the parser stack (`_item.Sym`). -/
inductive Val where
  | nil                                              -- `Sym` of the bottom entry
  | tok (idx : Nat) (ty : Nat)                       -- the `idx`-th token the lexer returned
  | err (idx : Nat) (ty : Nat) (expected : List Int) -- `Error{Token, Expected}`
  | node (p : Nat) (kids : List Val)                 -- result of `_act(p)` on these children
  deriving Repr, Inhabited

/-- `_Bounds` with tokens identified by their index in the input. -/
structure Bounds where
  b : Nat := 0
  e : Nat := 0
  empty : Bool := false
  deriving DecidableEq, Repr, Inhabited

structure Entry where
  state : Int
  sym : Val
  bounds : Bounds := {}
  deriving Repr, Inhabited

inductive Event where
  | act (p : Nat) (kids : List Val)          -- `_act(p)` ran with these arguments
  | bounds (p : Nat) (v : Val) (b e : Nat)   -- `_onBounds(res, begin, end)` after reducing `p`
  deriving Repr

structure PState where
  stack : List Entry          -- top first
  la : Int := 0
  lasym : Val := .nil
  qla : Int := -1
  qlasym : Val := .nil
  recovering : Bool := false
  pos : Nat := 0              -- index of the next token the lexer will return
  reads : Nat := 0            -- number of `ReadToken` calls
  log : List Event := []      -- newest first
  deriving Repr, Inhabited

inductive Outcome where
  | accept
  | reject
  | panic (why : String)
  | timeout
  deriving DecidableEq, Repr

/-- The lexer: the input tokens, then EOF forever. -/
def lexRead (inp : Array Nat) (pos : Nat) : Val × Int :=
  match inp[pos]? with
  | some ty => (.tok pos ty, ty)
  | none => (.tok inp.size 0, 0)

def topState (st : List Entry) : Option Int := st.head?.map (·.state)

/-- `_makeError`: needs `_lasym` to hold a `Token`. -/
def makeError (T : Tables) (s : PState) : Except String Val :=
  match s.lasym with
  | .tok i ty =>
    match topState s.stack with
    | none => .error "peek on empty stack"
    | some st =>
      match rowKeys T.actions st with
      | none => .error "index out of range in _makeError"
      | some ks => .ok (.err i ty ks)
  | _ => .error "_lasym.(Token) failed"

/-- `_readToken`. -/
def readToken (T : Tables) (inp : Array Nat) (s : PState) : Except String PState :=
  if s.qla ≠ -1 then
    .ok { s with la := s.qla, lasym := s.qlasym, qla := -1, qlasym := .nil }
  else
    let (sym, ty) := lexRead inp s.pos
    let s := { s with lasym := sym, la := ty, pos := if s.pos < inp.size then s.pos + 1 else s.pos,
                      reads := s.reads + 1 }
    if ty = tERROR then do
      let e ← makeError T s
      .ok { s with lasym := e }
    else .ok s

/-- `for p._la == ERROR { p._readToken() }` -/
def skipErrors (T : Tables) (inp : Array Nat) : Nat → PState → Except String (Option PState)
  | 0, _ => .ok none
  | n + 1, s => if s.la = tERROR then do
      let s ← readToken T inp s
      skipErrors T inp n s
    else .ok (some s)

inductive Sim where
  | found          -- a state that shifts ERROR and then has an action on the lookahead
  | notFound
  | oob
  | timeout

/-- The innermost loop of `_recover` for one stack entry: follow reductions on ERROR without
popping (as written; a missing goto entry ends the simulation), then shift ERROR and probe the lookahead. -/
def simulate (T : Tables) (la : Int) : Nat → Int → Sim
  | 0, _ => .timeout
  | n + 1, state =>
    match find T.actions state tERROR with
    | .oob => .oob
    | .miss => .notFound
    | .hit action =>
      if action < 0 then
        match geti T.rules (-action) with
        | none => .oob
        | some rule =>
          match find T.gotos state rule with
          | .oob => .oob
          | .miss => .notFound   -- `if !ok { break }` (repaired defect D30: the pinned template continued in state 0)
          | .hit st => simulate T la n st
      else
        match find T.actions action la with
        | .oob => .oob
        | .miss => .notFound
        | .hit _ => .found

/-- `for len(p._stack) >= 1 { … p._stack.Pop(1) }`: returns the stack at which recovery succeeds. -/
def searchStack (T : Tables) (la : Int) (fuel : Nat) : List Entry → Except String (Option (List Entry))
  | [] => .ok none
  | e :: rest =>
    match simulate T la fuel e.state with
    | .found => .ok (some (e :: rest))
    | .notFound => searchStack T la fuel rest
    | .oob => .error "index out of range in _recover"
    | .timeout => .error "TIMEOUT"

inductive Rec where
  | ok (s : PState)
  | fail (s : PState)
  | panic (why : String)
  | timeout

/-- The outer `for` of `_recover`: try the whole stack, else drop the lookahead and retry. -/
def recoverLoop (T : Tables) (inp : Array Nat) (errSym : Val) (fuel : Nat) : Nat → PState → Rec
  | 0, _ => .timeout
  | n + 1, s =>
    match searchStack T s.la fuel s.stack with
    | .error "TIMEOUT" => .timeout
    | .error w => .panic w
    | .ok (some st) =>
      .ok { s with stack := st, qla := s.la, qlasym := s.lasym, la := tERROR, lasym := errSym,
                   recovering := true }
    | .ok none =>
      if s.la = tEOF then .fail { s with stack := [] }
      else
        match readToken T inp s with
        | .error w => .panic w
        | .ok s' => recoverLoop T inp errSym fuel n s'

/-- `_recover()`. -/
def recover (T : Tables) (inp : Array Nat) (fuel : Nat) (s : PState) : Rec :=
  let errSymE : Except String Val := match s.lasym with
    | .err i ty ex => .ok (.err i ty ex)
    | _ => makeError T s
  match errSymE with
  | .error w => .panic w
  | .ok errSym =>
    match skipErrors T inp fuel s with
    | .error w => .panic w
    | .ok none => .timeout
    | .ok (some s) =>
      let dropped : Except String (Option (Option PState)) :=
        if s.recovering then
          if s.la = tEOF then .ok (some none)
          else match readToken T inp s with
            | .error w => .error w
            | .ok s => match skipErrors T inp fuel s with
              | .error w => .error w
              | .ok none => .ok none
              | .ok (some s) => .ok (some (some s))
        else .ok (some (some s))
      match dropped with
      | .error w => .panic w
      | .ok none => .timeout
      | .ok (some none) => .fail s
      | .ok (some (some s)) => recoverLoop T inp errSym fuel fuel s

/-- Token carried by a shifted symbol (`latok`), for `_Bounds`. -/
def symTokIdx : Val → Option Nat
  | .tok i _ => some i
  | .err i _ _ => some i
  | _ => none

/-- Trim leading/trailing empty bounds of the popped entries (bottom-most first) and combine. -/
def combineBounds (bs : List Bounds) : Bounds :=
  let bs := bs.dropWhile (·.empty)
  let bs := (bs.reverse.dropWhile (·.empty)).reverse
  match bs.head?, bs.getLast? with
  | some f, some l => { b := f.b, e := l.e, empty := false }
  | _, _ => { empty := true }

inductive StepR where
  | cont (s : PState)
  | done (o : Outcome) (s : PState)

/-- One iteration of the `for` loop of `parse`. `bounds` = the parser type defines `_onBounds`. -/
def step (T : Tables) (inp : Array Nat) (withBounds : Bool) (fuel : Nat) (s : PState) : StepR :=
  match topState s.stack with
  | none => .done (.panic "peek on empty stack") s
  | some top =>
    match find T.actions top s.la with
    | .oob => .done (.panic "index out of range in _Find(_actions)") s
    | .miss =>
      match recover T inp fuel s with
      | .ok s' => .cont s'
      | .fail s' => .done .reject s'
      | .panic w => .done (.panic w) s
      | .timeout => .done .timeout s
    | .hit action =>
      if action = acceptCode then .done .accept s
      else if action ≥ 0 then
        -- shift
        match (if withBounds then symTokIdx s.lasym else some 0) with
        | none => .done (.panic "_lasym.(Error) failed") s
        | some ti =>
          let e : Entry := { state := action, sym := s.lasym, bounds := { b := ti, e := ti } }
          let s1 := { s with stack := e :: s.stack,
                             recovering := if s.la ≠ tERROR then false else s.recovering }
          match readToken T inp s1 with
          | .error w => .done (.panic w) s1
          | .ok s2 => .cont s2
      else
        -- reduce
        let prod := -action
        match geti T.termCounts prod, geti T.rules prod with
        | some tc, some rule =>
          let n := tc.toNat
          if tc < 0 ∨ s.stack.length < n then .done (.panic "peek/pop beyond stack") s
          else
            let popped := (s.stack.take n).reverse
            let kids := popped.map (·.sym)
            let res := Val.node prod.toNat kids
            let bnds := combineBounds (popped.map (·.bounds))
            let log := Event.act prod.toNat kids :: s.log
            let log := if withBounds ∧ ¬ bnds.empty then Event.bounds prod.toNat res bnds.b bnds.e :: log else log
            let rest := s.stack.drop n
            match topState rest with
            | none => .done (.panic "peek on empty stack") s
            | some top' =>
              match find T.gotos top' rule with
              | .oob => .done (.panic "index out of range in _Find(_goto)") s
              | .miss => .cont { s with stack := { state := 0, sym := res, bounds := bnds } :: rest, log := log }
              | .hit ns => .cont { s with stack := { state := ns, sym := res, bounds := bnds } :: rest, log := log }
        | _, _ => .done (.panic "index out of range in _termCounts/_rules") s

def runLoop (T : Tables) (inp : Array Nat) (withBounds : Bool) (fuel : Nat) : Nat → PState → Outcome × PState
  | 0, s => (.timeout, s)
  | n + 1, s =>
    match step T inp withBounds fuel s with
    | .cont s' => runLoop T inp withBounds fuel n s'
    | .done o s' => (o, s')

/-- `parse(lex)`: push the bottom entry, read the first token, loop. -/
def parse (T : Tables) (inp : Array Nat) (withBounds : Bool) (fuel : Nat) : Outcome × PState :=
  let s0 : PState := { stack := [{ state := 0, sym := .nil }] }
  match readToken T inp s0 with
  | .error w => (.panic w, s0)
  | .ok s1 => runLoop T inp withBounds fuel fuel s1

end Lox.LR
