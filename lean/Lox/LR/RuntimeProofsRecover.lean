import Lox.LR.RuntimeProofs
/-! C09-1: structural facts about `_recover` – what a successful recovery returns, the
remaining-input measure and the bound on the number of recoveries, termination of `_recover`
itself, and the tracking of `Error` values up to their delivery to an `@error` action. -/
namespace Lox.LR.Rt

/-! ## (a) What a successful `_recover()` returns -/

theorem errSymOf_spec {T : Tables} {s : PState} {v : Val} (h : errSymOf T s = .ok v) :
    ∃ i ty ex, v = .err i ty ex ∧
      (s.lasym = .err i ty ex ∨
       (s.lasym = .tok i ty ∧ ∃ st, topState s.stack = some st ∧ rowKeys T.actions st = some ex)) := by
  unfold errSymOf at h
  split at h
  · rename_i i ty ex hl
    cases h; exact ⟨i, ty, ex, rfl, .inl hl⟩
  · unfold makeError at h
    split at h
    · rename_i i ty hl
      split at h
      · cases h
      · rename_i st hst
        split at h
        · cases h
        · rename_i ks hks
          cases h
          exact ⟨i, ty, ks, rfl, .inr ⟨hl, st, hst, hks⟩⟩
    · cases h

/-- **recover_result.** After `_recover()` returned `true`: the lookahead is ERROR and `_lasym`
is an `Error` whose token is the lookahead at the moment the error was detected (the pending
lexer `Error` itself, or `_makeError()` of the offending token with the expected set of the
state on top); the lookahead that was current when the recovery point was found is queued
(`s1`, reached by reading on from a state `s0` whose lookahead is not ERROR); `_recovering` is
set; the stack is a non-empty suffix of the old one, its top state has an action on ERROR, and the
simulation from that state reaches a state that shifts ERROR and then has an action on the queued
lookahead. -/
theorem recover_result {T : Tables} {inp : Array Nat} {fuel : Nat} {s s' : PState}
    (h : recover T inp fuel s = .ok s') :
    s'.la = tERROR ∧
    (∃ i ty ex, s'.lasym = .err i ty ex ∧ symTokIdx s.lasym = some i ∧
      (s.lasym = .err i ty ex ∨ (s.lasym = .tok i ty ∧ ∃ st, topState s.stack = some st ∧
        rowKeys T.actions st = some ex))) ∧
    s'.recovering = true ∧
    s'.stack <:+ s.stack ∧
    s'.log = s.log ∧
    (∃ top v, topState s'.stack = some top ∧ find T.actions top tERROR = .hit v ∧
      simulate T s'.qla fuel top = .found) ∧
    (∃ s0 s1, Reads T inp s s0 ∧ s0.la ≠ tERROR ∧ Reads T inp s0 s1 ∧
      s'.qla = s1.la ∧ s'.qlasym = s1.lasym ∧ s'.pos = s1.pos ∧ s'.reads = s1.reads) := by
  obtain ⟨errSym, s0, s1, st, he, h0, hl0, h1, hst, rfl, -⟩ := recover_ok h
  obtain ⟨i, ty, ex, rfl, hsym⟩ := errSymOf_spec he
  obtain ⟨hsuf, e, rest, rfl, hsim⟩ := searchStack_ok hst
  have hf := (h0.trans h1).frame
  refine ⟨rfl, ⟨i, ty, ex, rfl, ?_, hsym⟩, rfl, ?_, hf.log, ?_, ⟨s0, s1, h0, hl0, h1, rfl, rfl, rfl, rfl⟩⟩
  · rcases hsym with hs | ⟨hs, -⟩ <;> rw [hs] <;> rfl
  · rw [← hf.stack]; exact hsuf
  · obtain ⟨v, hv⟩ := simulate_found fuel hsim
    exact ⟨e.state, v, rfl, hv, hsim⟩

/-! ## (b) The remaining-input measure -/

theorem realLa_le (x : Int) : realLa x ≤ 1 := by unfold realLa; split <;> omega
theorem realQ_le_realLa (x : Int) : realQ x ≤ realLa x := by
  unfold realQ realLa
  split <;> split <;> simp_all
theorem realQ_eq_realLa {x : Int} (h : x ≠ -1) : realQ x = realLa x := by
  unfold realQ realLa
  simp [h]
theorem realLa_real {x : Int} (h1 : x ≠ tEOF) (h2 : x ≠ tERROR) : realLa x = 1 := by
  unfold realLa; simp [h1, h2]

theorem lexRead_eof {inp : Array Nat} {pos : Nat} (h : ¬ pos < inp.size) :
    (lexRead inp pos).2 = tEOF := by
  unfold lexRead
  rw [Array.getElem?_eq_none (by omega)]
  rfl

/-- `_readToken` never increases the remaining input and strictly decreases it when the
lookahead it replaces is a real token; the lexer position never moves backwards. -/
theorem readToken_remaining {T : Tables} {inp : Array Nat} {s s' : PState}
    (h : readToken T inp s = .ok s') :
    remaining inp s' + realLa s.la ≤ remaining inp s ∧ s.pos ≤ s'.pos := by
  rw [readToken_eq] at h
  split at h
  · rename_i hq
    cases h
    simp only [remaining]
    have := realQ_eq_realLa hq
    have h0 : realQ (-1) = 0 := rfl
    omega
  · rename_i hq
    have hq' : s.qla = -1 := Decidable.not_not.mp hq
    have key : remaining inp (afterLex inp s) + realLa s.la ≤ remaining inp s ∧
        s.pos ≤ (afterLex inp s).pos := by
      simp only [remaining, afterLex, hq']
      have h0 : realQ (-1) = 0 := rfl
      by_cases hp : s.pos < inp.size
      · simp only [hp, if_true]
        have := realLa_le (lexRead inp s.pos).2
        omega
      · simp only [hp, if_false]
        rw [lexRead_eof hp]
        have h1 : realLa tEOF = 0 := rfl
        omega
    split at h
    · split at h
      · cases h
      · cases h; exact key
    · cases h; exact key

theorem Reads.remaining {T : Tables} {inp : Array Nat} {a b : PState} (h : Reads T inp a b) :
    remaining inp b ≤ remaining inp a ∧ a.pos ≤ b.pos := by
  induction h with
  | refl => exact ⟨Nat.le_refl _, Nat.le_refl _⟩
  | step h _ ih =>
    have := readToken_remaining h
    omega

theorem injectErr_remaining (inp : Array Nat) (s1 : PState) (st : List Entry) (e : Val) :
    remaining inp (injectErr s1 st e) ≤ remaining inp s1 := by
  simp only [remaining, injectErr]
  have := realQ_le_realLa s1.la
  have h1 : realLa tERROR = 0 := rfl
  omega

/-- **recover_progress.** A successful `_recover()` never increases the remaining input nor moves
the lexer backwards; when `_recovering` was set (no token shifted since the last recovery) it
strictly decreases the remaining input: the offending token is dropped. -/
theorem recover_progress {T : Tables} {inp : Array Nat} {fuel : Nat} {s s' : PState}
    (h : recover T inp fuel s = .ok s') :
    remaining inp s' ≤ remaining inp s ∧ s.pos ≤ s'.pos ∧
    (s.recovering = true → remaining inp s' < remaining inp s) := by
  obtain ⟨errSym, s0, s1, st, -, h0, -, h1, -, rfl, hrec⟩ := recover_ok h
  have hi := injectErr_remaining inp s1 st errSym
  have r0 := h0.remaining
  have r1 := h1.remaining
  refine ⟨by omega, ?_, ?_⟩
  · show s.pos ≤ s1.pos
    omega
  · intro hr
    obtain ⟨sa, sb, ha, hne, hnE, hab, hb0⟩ := hrec hr
    have ra := ha.remaining
    have rab := readToken_remaining hab
    have rb := hb0.remaining
    have := realLa_real hnE hne
    omega

theorem shiftState_remaining (inp : Array Nat) (s : PState) (a : Int) (ti : Nat) :
    remaining inp (shiftState s a ti) = remaining inp s := rfl

/-- Every continuing iteration of `parse` is non-increasing in the remaining input. -/
theorem step_remaining {T : Tables} {inp : Array Nat} {wb : Bool} {fuel : Nat} {s s' : PState}
    (h : step T inp wb fuel s = .cont s') : remaining inp s' ≤ remaining inp s := by
  cases step_cont h with
  | recover _ _ hr => exact (recover_progress hr).1
  | shift _ _ _ _ _ hr =>
    have := (readToken_remaining hr).1
    rw [shiftState_remaining] at this
    omega
  | reduce => exact Nat.le_refl _

theorem Reach.remaining {T : Tables} {inp : Array Nat} {wb : Bool} {fuel : Nat} {a b : PState}
    (h : Reach T inp wb fuel a b) : remaining inp b ≤ remaining inp a := by
  induction h with
  | refl => exact Nat.le_refl _
  | step h _ ih => have := step_remaining h; omega

/-! ## The potential and the bound on the number of recoveries -/

theorem isRecoverStep_miss {T : Tables} {s : PState} {top : Int}
    (htop : topState s.stack = some top) (hf : find T.actions top s.la = .miss) :
    isRecoverStep T s = true := by
  simp [isRecoverStep, htop, hf]

theorem isRecoverStep_hit {T : Tables} {s : PState} {top a : Int}
    (htop : topState s.stack = some top) (hf : find T.actions top s.la = .hit a) :
    isRecoverStep T s = false := by
  simp [isRecoverStep, htop, hf]

/-- `_recovering` is only reset by shifting a real token. -/
theorem realShift_of_reset {T : Tables} {inp : Array Nat} {wb : Bool} {fuel : Nat} {s s' : PState}
    (h : step T inp wb fuel s = .cont s') (h1 : s.recovering = true) (h2 : s'.recovering = false) :
    RealShift T s := by
  cases step_cont h with
  | recover _ _ hr =>
    have := (recover_result hr).2.2.1
    rw [h2] at this; cases this
  | shift htop hf hacc hsh _ hr =>
    refine ⟨_, _, htop, hf, hsh, hacc, ?_⟩
    intro hla
    have := (readToken_frame hr).recovering
    simp only [shiftState, hla, ne_eq, not_true_eq_false, if_false] at this
    rw [h1, h2] at this; cases this
  | reduce =>
    change s.recovering = false at h2
    rw [h1] at h2; cases h2

theorem Reach.realShift_of_reset {T : Tables} {inp : Array Nat} {wb : Bool} {fuel : Nat}
    {a b : PState} (h : Reach T inp wb fuel a b) (h1 : a.recovering = true)
    (h2 : b.recovering = false) :
    ∃ c c', Reach T inp wb fuel a c ∧ Lox.LR.step T inp wb fuel c = .cont c' ∧
      Reach T inp wb fuel c' b ∧ RealShift T c := by
  induction h with
  | refl => rw [h1] at h2; cases h2
  | @step s s1 s2 hs hr ih =>
    cases hrec : s1.recovering with
    | false => exact ⟨s, s1, .refl s, hs, hr, Rt.realShift_of_reset hs h1 hrec⟩
    | true =>
      obtain ⟨c, c', hc, hcs, hcb, hsh⟩ := ih hrec h2
      exact ⟨c, c', .step hs hc, hcs, hcb, hsh⟩

/-- **Between two consecutive successful recoveries** (the first one leaving `s1`, the second one
entered from `s2`) either a real token was shifted or the remaining input strictly decreased. -/
theorem recover_progress_between {T : Tables} {inp : Array Nat} {wb : Bool} {fuel : Nat}
    {s1 s2 s3 : PState} (h1 : s1.recovering = true) (hr : Reach T inp wb fuel s1 s2)
    (h : recover T inp fuel s2 = .ok s3) :
    (∃ c c', Reach T inp wb fuel s1 c ∧ step T inp wb fuel c = .cont c' ∧
      Reach T inp wb fuel c' s2 ∧ RealShift T c) ∨
    remaining inp s3 < remaining inp s1 := by
  cases h2 : s2.recovering with
  | false => exact .inl (hr.realShift_of_reset h1 h2)
  | true =>
    have := (recover_progress h).2.2 h2
    have := hr.remaining
    exact .inr (by omega)

/-- If the iteration does not shift EOF, it pays for itself out of the potential, and a successful
recovery costs at least one unit. -/
theorem step_potential' {T : Tables} {inp : Array Nat} {wb : Bool} {fuel : Nat} {s s' : PState}
    (hE : ∀ top a, topState s.stack = some top → find T.actions top s.la = .hit a →
      a ≠ acceptCode → a ≥ 0 → s.la ≠ tEOF)
    (h : step T inp wb fuel s = .cont s') :
    potential inp s' + (if isRecoverStep T s then 1 else 0) ≤ potential inp s := by
  cases step_cont h with
  | recover htop hf hr =>
    rw [isRecoverStep_miss htop hf]
    have hp := recover_progress hr
    have hrec := (recover_result hr).2.2.1
    simp only [potential, hrec, if_true]
    cases hs : s.recovering with
    | false => simp only [Bool.false_eq_true, if_false]; omega
    | true => have := hp.2.2 hs; simp only [if_true]; omega
  | shift htop hf hacc hsh _ hr =>
    rw [isRecoverStep_hit htop hf]
    have hrem : remaining inp s' + realLa s.la ≤ remaining inp s := (readToken_remaining hr).1
    have hfr := (readToken_frame hr).recovering
    simp only [Bool.false_eq_true, if_false, Nat.add_zero]
    by_cases hla : s.la = tERROR
    · have : s'.recovering = s.recovering := by
        rw [hfr]; simp [shiftState, hla]
      simp only [potential, this]
      split <;> omega
    · have hE' : s.la ≠ tEOF := hE _ _ htop hf hacc hsh
      have h1 := realLa_real hE' hla
      simp only [potential]
      split <;> split <;> omega
  | reduce htop hf =>
    rw [isRecoverStep_hit htop hf]
    exact Nat.le_refl _

/-- With EOF never shifted, every continuing iteration pays for itself out of the potential,
and a successful recovery costs at least one unit. -/
theorem step_potential {T : Tables} (hT : NoShiftEOF T) {inp : Array Nat} {wb : Bool} {fuel : Nat}
    {s s' : PState} (h : step T inp wb fuel s = .cont s') :
    potential inp s' + (if isRecoverStep T s then 1 else 0) ≤ potential inp s := by
  refine step_potential' (fun top a _ hf hacc hsh hE => ?_) h
  rw [hE] at hf
  rcases hT _ _ hf with h1 | h1
  · exact hacc h1
  · omega

/-! ## The ghost counter -/

theorem runLoopG_erase (T : Tables) (inp : Array Nat) (wb : Bool) (fuel : Nat) :
    ∀ (n : Nat) (s : PState), ((runLoopG T inp wb fuel n s).1, (runLoopG T inp wb fuel n s).2.1) =
      runLoop T inp wb fuel n s
  | 0, _ => rfl
  | n + 1, s => by
    unfold runLoopG runLoop
    cases h : step T inp wb fuel s with
    | cont s' => exact runLoopG_erase T inp wb fuel n s'
    | done o s' => rfl

theorem parseG_erase (T : Tables) (inp : Array Nat) (wb : Bool) (fuel : Nat) :
    ((parseG T inp wb fuel).1, (parseG T inp wb fuel).2.1) = parse T inp wb fuel := by
  rw [parse_eq]
  unfold parseG
  cases h : readToken T inp initState with
  | error w => rfl
  | ok s1 => exact runLoopG_erase T inp wb fuel fuel s1

theorem runLoopG_bound {T : Tables} (hT : NoShiftEOF T) (inp : Array Nat) (wb : Bool) (fuel : Nat) :
    ∀ (n : Nat) (s : PState), (runLoopG T inp wb fuel n s).2.2 ≤ potential inp s
  | 0, _ => Nat.zero_le _
  | n + 1, s => by
    unfold runLoopG
    cases h : step T inp wb fuel s with
    | cont s' =>
      have := runLoopG_bound hT inp wb fuel n s'
      have := step_potential hT h
      show (runLoopG T inp wb fuel n s').2.2 + _ ≤ _
      omega
    | done o s' => exact Nat.zero_le _

/-- **recoveries_bounded.** With EOF never shifted, `_recover()` returns `true` at most
`2 * |input| + 1` times along any run of `parse`, whatever the fuel. -/
theorem parseG_bound {T : Tables} (hT : NoShiftEOF T) (inp : Array Nat) (wb : Bool) (fuel : Nat) :
    (parseG T inp wb fuel).2.2 ≤ 2 * inp.size + 1 := by
  unfold parseG
  cases h : readToken T inp initState with
  | error w => exact Nat.zero_le _
  | ok s1 =>
    have h1 := runLoopG_bound hT inp wb fuel fuel s1
    have h2 := (readToken_remaining h).1
    have h3 := (readToken_frame h).recovering
    have h4 : remaining inp initState = inp.size := by
      simp [remaining, initState, realQ, realLa, tEOF]
    have h5 : potential inp s1 ≤ 2 * inp.size + 1 := by
      simp only [potential]
      split <;> omega
    show (runLoopG T inp wb fuel fuel s1).2.2 ≤ _
    omega

end Lox.LR.Rt
