import Lox.Drv.Common
import Lox.LR.DrvGenModel
import Lox.Dec.DrvResolve
import Lox.LR.EmitModel
/-! Driver op of the model of `EmitParser` (`Lox/LR/EmitModel.lean`); Go side:
`/verif/harness/drv/ops_emit.go`, family `emit`.

`lr.emit <nTerms> <nRules> | <prods> | <ord> [| <prodinfo>]`
* grammar and `ord` as in `lr.construct` (productions `lhs s1 s2 …` separated by `;`, terminal `k`
  written `k`, rule `A` written `-(A+1)`; `ord` = all symbols in the order of their names);
* `prodinfo` (optional): `rule prec right` per production, separated by `;` (as in
  `lr.conflict_check`); absent or empty = no production carries a precedence.

Answer: `<rules> | <termCounts> | <actions> | <gotos>` – the four `int32` arrays `_rules`,
`_termCounts`, `_actions`, `_goto` of the emitted `parser.gen.go` as space separated integers
(the model runs `construct`, then `emitParserP`); `panic` where the model returns `none` (a Go
panic or exhausted fuel); `conflicts` when the model's `HasConflicts` is set (lox refuses such a
grammar before `EmitParser` runs); `bad-grammar` if a terminal of the grammar is not below
`nTerms`. -/
namespace Lox.LR.Emit
open Lox.Drv Lox.LR Lox.LR.Gen Lox.LR.Cons

def showTables (T : Tables) : String :=
  showInts T.rules.toList ++ " | " ++ showInts T.termCounts.toList ++ " | " ++
    showInts T.actions.toList ++ " | " ++ showInts T.gotos.toList

def handleEmit (op payload : String) : Option String :=
  match op with
  | "lr.emit" => do
    let secs := payload.splitOn "|"
    let (hd, prods, ord, infoS) ← match secs with
      | [hd, prods, ord] => some (hd, prods, ord, "")
      | [hd, prods, ord, infoS] => some (hd, prods, ord, infoS)
      | _ => none
    let (G, nT) ← parseGrammar hd prods
    let ord := (← parseInts ord).map parseSym
    let infos ← Lox.Dec.parseInfos infoS
    let info : Nat → Lox.Dec.ProdInfo := fun i => infos.getD i ⟨0, 0, false⟩
    if !termsBelowB G nT then some "bad-grammar"
    else match construct G nT ord with
      | none => some "panic"
      | some st =>
        if hasConflictsP info G nT st then some "conflicts"
        else match emitParserP info G nT ord st with
          | none => some "panic"
          | some T => some (showTables T)
  | _ => none

end Lox.LR.Emit
