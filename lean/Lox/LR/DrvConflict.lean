import Lox.Drv.Common
import Lox.LR.DrvValidate
import Lox.Dec.DrvResolve
import Lox.LR.ConflictCheck
/-! Driver op of the table-free validator (`Lox/LR/ConflictCheck.lean`); Go side:
`/verif/harness/drv/ops_conflict.go`, family `conflict`.

`lr.conflict_check <nTerms> <nRules> | <prods> | <prodinfo> | <transitions> | <cert> | <flag>`
* `prods`, `cert`: as in `lr.validate` (productions `lhs s1 s2 …` separated by `;`, terminal `k`
  written `k`, rule `A` written `-(A+1)`; item sets `p d a p d a …` separated by `;`, one per state
  in `ParserTable.States` order);
* `prodinfo`: `rule prec right` per production, separated by `;` (as in `dec.resolve`);
* `transitions`: triples `s X t` separated by `;`: state `s` has a transition on symbol `X`
  (encoded like a grammar symbol) to state `t` (`ParserTable.Transitions(s).Inputs()/Get`);
* `flag`: `ParserTable.HasConflicts` of the real run, `0` or `1`;
* an optional seventh section (the name order of the symbols, used by the harness to replay a line)
  is ignored.

Answer: `ok conflicts` / `ok clean` when all checks pass (`conflictCheckB`, sound by
`Lox.Props.C04.conflict_check_sound`) and the verdict computed from the definition
(`verdictB` = `Lox.Props.C04.verdict_exact`) equals the flag; `fail <reason>` otherwise. -/
namespace Lox.LR
open Lox.Drv

def parseTriples : List (List Int) → Option (List (Nat × Sym × Nat))
  | [] => some []
  | [] :: r => parseTriples r
  | [s, x, t] :: r =>
    if s < 0 ∨ t < 0 then none else (parseTriples r).map ((s.toNat, parseSym x, t.toNat) :: ·)
  | _ => none

/-- The transition rows: one per state (at least `n`), entries in the order given. -/
def mkTransTab (n : Nat) (ts : List (Nat × Sym × Nat)) : TransTab :=
  let size := ts.foldl (fun m e => max m (e.1 + 1)) n
  ts.foldl (fun tr e => tr.modify e.1 (· ++ [(e.2.1, e.2.2)])) (Array.replicate size [])

def parseConflict (payload : String) :
    Option (Grammar × Nat × Nat × (Nat → Lox.Dec.ProdInfo) × TransTab × Array (List Item) × Bool) := do
  match (payload.splitOn "|").take 6, (payload.splitOn "|").length with
  | [hd, prods, infos, trs, cert, flag], n =>
    if n > 7 then none else
    let (nTerms, nRules) ← match ← parseNats hd with
      | [a, b] => some (a, b)
      | _ => none
    let prods ← (← parseSections prods ';').mapM parseProd
    let infos ← Lox.Dec.parseInfos infos
    let cert ← (← parseSections cert ';').mapM parseItems
    let ts ← parseTriples (← parseSections trs ';')
    let flag ← match ← parseNats flag with
      | [0] => some false
      | [1] => some true
      | _ => none
    some (⟨prods.toArray⟩, nTerms, nRules, fun i => infos.getD i ⟨0, 0, false⟩,
      mkTransTab cert.length ts, cert.toArray, flag)
  | _, _ => none

def handleConflict (op payload : String) : Option String :=
  match op with
  | "lr.conflict_check" => do
    let (G, nTerms, nRules, info, tr, cert, flag) ← parseConflict payload
    match conflictVerdict G nTerms nRules info tr cert flag with
    | .ok true => some "ok conflicts"
    | .ok false => some "ok clean"
    | .error e => some ("fail " ++ e)
  | _ => none

end Lox.LR
