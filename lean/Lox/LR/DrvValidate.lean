import Lox.Drv.Common
import Lox.LR.Check
/-! Driver op of the LR validator (dispatched from `Lox/LR/Drv.lean`).

`lr.validate <nTerms> <nRules> | <prods> | _rules | _termCounts | _actions | _goto | <cert>`
  prods: productions separated by `;`, each `lhs s1 s2 …` (lhs = rule index; a terminal `k` is
  written `k`, rule `A` is written `-(A+1)`; a negative lhs is decoded the same way); production 0
  is `S' → start`. cert: one section per state separated by `;`, each a flat list `p d a p d a …`
  of items (production, dot, lookahead terminal).
  answer: `ok` or `fail <reason>`: `ok` = `Lox.LR.check` (sound by `Lox.LR.check_sound`) and the
  termination check `Lox.LR.termB` (sound by `Lox.LR.termB_spec`) both pass.

`lr.validate_safe` (same payload): the soundness half only (`Lox.LR.checkSafe`, sound by
  `Lox.LR.checkSafe_sound`) plus `termB` – for tables whose conflicts were resolved by precedence.

`lr.errfree <nStates> | _actions`
  answer: `yes` if no state has an action on ERROR (terminal 1) (`Lox.LR.noErrorB`), else `no`. -/
namespace Lox.LR
open Lox.Drv

def parseSym (k : Int) : Sym := if 0 ≤ k then .t k.toNat else .n (-(k + 1)).toNat

def parseProd : List Int → Option Prod
  | [] => none
  | l :: r => some ⟨if 0 ≤ l then l.toNat else (-(l + 1)).toNat, r.map parseSym⟩

def parseItems : List Int → Option (List Item)
  | [] => some []
  | p :: d :: a :: r =>
    if p < 0 ∨ d < 0 ∨ a < 0 then none
    else (parseItems r).map (⟨p.toNat, d.toNat, a.toNat⟩ :: ·)
  | _ => none

def parseValidate (payload : String) :
    Option (Grammar × Nat × Nat × Tables × Array (List Item)) := do
  match payload.splitOn "|" with
  | [hd, prods, rules, tcs, acts, gotos, cert] =>
    let (nTerms, nRules) ← match ← parseNats hd with
      | [a, b] => some (a, b)
      | _ => none
    let prods ← (← parseSections prods ';').mapM parseProd
    let arr := fun (s : String) => (parseInts s).map List.toArray
    let T : Tables := { rules := ← arr rules, termCounts := ← arr tcs,
                        actions := ← arr acts, gotos := ← arr gotos }
    let cert ← (← parseSections cert ';').mapM parseItems
    some (⟨prods.toArray⟩, nTerms, nRules, T, cert.toArray)
  | _ => none

def handleValidate (payload : String) : Option String := do
  let (G, nTerms, nRules, T, cert) ← parseValidate payload
  match check G nTerms nRules T cert with
  | .ok () => if termB G T cert then some "ok" else some "fail termination check"
  | .error e => some ("fail " ++ e)

def handleValidateSafe (payload : String) : Option String := do
  let (G, nTerms, nRules, T, cert) ← parseValidate payload
  match checkSafe G nTerms nRules T cert with
  | .ok () => if termB G T cert then some "ok" else some "fail termination check"
  | .error e => some ("fail " ++ e)

def handleErrFree (payload : String) : Option String := do
  match payload.splitOn "|" with
  | [hd, acts] =>
    let n ← match ← parseNats hd with
      | [n] => some n
      | _ => none
    let T : Tables := { rules := #[], termCounts := #[], actions := (← parseInts acts).toArray,
                        gotos := #[] }
    some (if noErrorB T n then "yes" else "no")
  | _ => none

end Lox.LR
