import Lox.LR.RuntimeSound
/-! On validated tables (`SafeOK`) the generated `parse` never panics, error recovery included:
every `Peek`/`Pop`/`_Find`/`_rules[…]`/`_termCounts[…]` index is in range and the type assertions
on `_lasym` hold, in the main loop, in `_readToken`/`_makeError` and in `_recover` (stack search
and reduce simulation). -/
namespace Lox.LR.Rt

section
variable {G : Grammar} {nTerms nRules : Nat} {T : Tables} {cert : Array (List Item)}

/-- `st` is a state of the validated automaton. -/
def InR (cert : Array (List Item)) (st : Int) : Prop := 0 ≤ st ∧ st.toNat < cert.size

theorem InR.cast {st : Int} (h : InR cert st) : ((st.toNat : Nat) : Int) = st := by
  have := h.1; omega

theorem find_actions_inR (hc : SafeOK G nTerms nRules T cert) {st : Int} (h : InR cert st) (a : Int) :
    (∃ v, find T.actions st a = .hit v) ∨ find T.actions st a = .miss := by
  have := find_actions_cases hc h.2 a
  rwa [h.cast] at this

theorem find_gotos_inR (hc : SafeOK G nTerms nRules T cert) {st : Int} (h : InR cert st) (a : Int) :
    (∃ v, find T.gotos st a = .hit v) ∨ find T.gotos st a = .miss := by
  obtain ⟨row, hrow, _, _⟩ := (hc.states _ h.2).grow
  rw [h.cast] at hrow
  rw [find_eq hrow]
  simp only [lookRow]
  cases lookupI a row with
  | none => exact .inr rfl
  | some v => exact .inl ⟨v, rfl⟩

theorem rowKeys_inR (hc : SafeOK G nTerms nRules T cert) {st : Int} (h : InR cert st) :
    ∃ ks, rowKeys T.actions st = some ks := by
  obtain ⟨row, hrow, _, _⟩ := (hc.states _ h.2).arow
  rw [h.cast] at hrow
  exact ⟨_, rowKeys_of_rowOf hrow⟩

theorem act_entry (hc : SafeOK G nTerms nRules T cert) {st k v : Int} (h : InR cert st)
    (hf : find T.actions st k = .hit v) : ActEntryOK G nTerms cert st.toNat k v := by
  obtain ⟨row, hrow, _, hall⟩ := (hc.states _ h.2).arow
  rw [← h.cast] at hf
  exact actEntryB_spec (hall _ (find_hit_mem hrow hf))

theorem goto_entry (hc : SafeOK G nTerms nRules T cert) {st k v : Int} (h : InR cert st)
    (hf : find T.gotos st k = .hit v) : InR cert v := by
  obtain ⟨row, hrow, _, hall⟩ := (hc.states _ h.2).grow
  rw [← h.cast] at hf
  obtain ⟨-, -, h0, hb⟩ := gotoEntryB_spec (hall _ (find_hit_mem hrow hf))
  exact ⟨h0, (backB_spec hb).2.1⟩

theorem inR_zero (hc : SafeOK G nTerms nRules T cert) : InR cert 0 := ⟨Int.le_refl 0, hc.nonempty⟩

/-- A shift entry leads to a state of the automaton (and is never the accept code on a key ≠ EOF). -/
theorem shift_entry (hc : SafeOK G nTerms nRules T cert) {st k v : Int} (h : InR cert st)
    (hf : find T.actions st k = .hit v) (hv : 0 ≤ v) (hk : k ≠ 0) : v ≠ acceptCode ∧ InR cert v := by
  have ok := act_entry hc h hf
  have hna : v ≠ acceptCode := fun ha => hk (ok.acc ha).1
  exact ⟨hna, hv, (backB_spec (ok.shift hna hv).2).2.1⟩

/-- A reduce entry names a production with `_rules` defined. -/
theorem reduce_entry (hc : SafeOK G nTerms nRules T cert) {st k v : Int} (h : InR cert st)
    (hf : find T.actions st k = .hit v) (hv : v < 0) :
    ∃ pr, G.prods[(-v).toNat]? = some pr ∧ geti T.rules (-v) = some (pr.lhs : Int) ∧
      geti T.termCounts (-v) = some (pr.rhs.length : Int) := by
  have ok := act_entry hc h hf
  have hna : v ≠ acceptCode := by unfold acceptCode; omega
  obtain ⟨pr, hpr, -⟩ := ok.red hna hv
  obtain ⟨h1, h2⟩ := prodsB_spec hc.prods hpr
  have hcast : -v = (((-v).toNat : Nat) : Int) := by omega
  refine ⟨pr, hpr, ?_, ?_⟩
  · rw [hcast, geti_natCast]; exact h1
  · rw [hcast, geti_natCast]; exact h2

/-! ## `_recover` -/

/-- The reduce simulation of `_recover` never indexes out of range. -/
theorem simulate_no_oob (hc : SafeOK G nTerms nRules T cert) (la : Int) :
    ∀ (n : Nat) {st : Int}, InR cert st → simulate T la n st ≠ .oob
  | 0, _, _ => by simp [simulate]
  | n + 1, st, h => by
    unfold simulate
    rcases find_actions_inR hc h tERROR with ⟨action, hf⟩ | hf
    · rw [hf]
      dsimp only
      by_cases hneg : action < 0
      · simp only [hneg, if_true]
        obtain ⟨pr, -, hru, -⟩ := reduce_entry hc h hf hneg
        rw [hru]
        dsimp only
        rcases find_gotos_inR hc h (pr.lhs : Int) with ⟨st', hg⟩ | hg
        · rw [hg]; exact simulate_no_oob hc la n (goto_entry hc h hg)
        · rw [hg]; intro hc'; cases hc'
      · simp only [hneg, if_false]
        obtain ⟨-, hin⟩ := shift_entry hc h hf (by omega) (by decide)
        rcases find_actions_inR hc hin la with ⟨v, hv⟩ | hv
        · rw [hv]; intro hc'; cases hc'
        · rw [hv]; intro hc'; cases hc'
    · rw [hf]; intro hc'; cases hc'

theorem searchStack_no_panic (hc : SafeOK G nTerms nRules T cert) {la : Int} {fuel : Nat} :
    ∀ {st : List Entry}, (∀ e ∈ st, InR cert e.state) → ∀ w, searchStack T la fuel st = .error w →
      w = "TIMEOUT"
  | [], _, w, h => by simp [searchStack] at h
  | e :: rest, hin, w, h => by
    unfold searchStack at h
    cases hs : simulate T la fuel e.state with
    | found => rw [hs] at h; cases h
    | notFound =>
      rw [hs] at h
      exact searchStack_no_panic hc (fun x hx => hin x (List.mem_cons_of_mem _ hx)) w h
    | oob => exact absurd hs (simulate_no_oob hc la fuel (hin e List.mem_cons_self))
    | timeout => rw [hs] at h; cases h; rfl

/-- `_makeError()` succeeds when `_lasym` is a `Token` and the top state exists. -/
theorem makeError_ok (hc : SafeOK G nTerms nRules T cert) {s : PState} {i ty : Nat} {top : Int}
    (hl : s.lasym = .tok i ty) (htop : topState s.stack = some top) (hin : InR cert top) :
    ∃ v, makeError T s = .ok v := by
  obtain ⟨ks, hks⟩ := rowKeys_inR hc hin
  exact ⟨.err i ty ks, by simp [makeError, hl, htop, hks]⟩

/-- `_readToken()` does not panic when the top state exists. -/
theorem readToken_ok (hc : SafeOK G nTerms nRules T cert) {inp : Array Nat} {s : PState} {top : Int}
    (htop : topState s.stack = some top) (hin : InR cert top) :
    ∃ s', readToken T inp s = .ok s' := by
  rw [readToken_eq]
  split
  · exact ⟨_, rfl⟩
  · split
    · obtain ⟨hfst, -, -⟩ := lexRead_fst inp s.pos
      obtain ⟨v, hv⟩ := makeError_ok hc (s := afterLex inp s) hfst htop hin
      rw [hv]; exact ⟨_, rfl⟩
    · exact ⟨_, rfl⟩

/-- The stack part of the invariant that `_recover` relies on: non-empty, all states exist. -/
def StackR (cert : Array (List Item)) (st : List Entry) : Prop :=
  (∃ top, topState st = some top) ∧ ∀ e ∈ st, InR cert e.state

theorem StackR.top {st : List Entry} (h : StackR cert st) :
    ∃ top, topState st = some top ∧ InR cert top := by
  obtain ⟨⟨top, htop⟩, hall⟩ := h
  refine ⟨top, htop, ?_⟩
  cases st with
  | nil => cases htop
  | cons e r =>
    have : top = e.state := by simpa [topState] using htop.symm
    rw [this]; exact hall e List.mem_cons_self

theorem skipErrors_no_panic (hc : SafeOK G nTerms nRules T cert) {inp : Array Nat} :
    ∀ (n : Nat) {s : PState}, StackR cert s.stack → ∀ w, skipErrors T inp n s ≠ .error w
  | 0, _, _, w => by simp [skipErrors]
  | n + 1, s, hst, w => by
    unfold skipErrors
    split
    · obtain ⟨top, htop, hin⟩ := hst.top
      obtain ⟨s1, h1⟩ := readToken_ok hc (inp := inp) htop hin
      simp only [h1, bind, Except.bind]
      apply skipErrors_no_panic hc n
      rw [(readToken_frame h1).stack]; exact hst
    · intro h; cases h

theorem recoverLoop_no_panic (hc : SafeOK G nTerms nRules T cert) {inp : Array Nat} {errSym : Val}
    {fuel : Nat} :
    ∀ (n : Nat) {s : PState}, StackR cert s.stack → ∀ w, recoverLoop T inp errSym fuel n s ≠ .panic w
  | 0, _, _, w => by simp [recoverLoop]
  | n + 1, s, hst, w => by
    unfold recoverLoop
    split
    · intro h; cases h
    · rename_i w' hne hs
      exact absurd (searchStack_no_panic hc hst.2 w' hs) (by
        intro hw; subst hw; exact hne rfl)
    · intro h; cases h
    · split
      · intro h; cases h
      · obtain ⟨top, htop, hin⟩ := hst.top
        obtain ⟨s1, h1⟩ := readToken_ok hc (inp := inp) htop hin
        simp only [h1]
        apply recoverLoop_no_panic hc n
        rw [(readToken_frame h1).stack]; exact hst

theorem skipErrors_stack {T : Tables} {inp : Array Nat} {n : Nat} {s s' : PState}
    (h : skipErrors T inp n s = .ok (some s')) : s'.stack = s.stack :=
  (skipErrors_ok n h).1.frame.stack

/-- `_recover()` does not panic. -/
theorem recover_no_panic (hc : SafeOK G nTerms nRules T cert) {inp : Array Nat} {fuel : Nat}
    {s : PState} (hst : StackR cert s.stack) (hla : s.lasym.isLeaf = true) :
    ∀ w, recover T inp fuel s ≠ .panic w := by
  intro w
  rw [recover_eq]
  have herr : ∃ e, errSymOf T s = .ok e := by
    unfold errSymOf
    cases hl : s.lasym with
    | nil => rw [hl] at hla; cases hla
    | node => rw [hl] at hla; cases hla
    | err i ty ex => exact ⟨_, rfl⟩
    | tok i ty =>
      obtain ⟨top, htop, hin⟩ := hst.top
      exact makeError_ok hc hl htop hin
  obtain ⟨e, he⟩ := herr
  rw [he]
  dsimp only
  unfold recoverBody
  cases hs1 : skipErrors T inp fuel s with
  | error w' => exact absurd hs1 (skipErrors_no_panic hc fuel hst w')
  | ok o =>
    cases o with
    | none => intro h; cases h
    | some s1 =>
      dsimp only
      have hst1 : StackR cert s1.stack := by rw [skipErrors_stack hs1]; exact hst
      cases hrec : s1.recovering with
      | false =>
        simp only [Bool.false_eq_true, if_false]
        exact recoverLoop_no_panic hc fuel hst1 w
      | true =>
        simp only [if_true]
        by_cases hE : s1.la = tEOF
        · simp only [hE, if_true]; intro h; cases h
        · simp only [hE, if_false]
          obtain ⟨top, htop, hin⟩ := hst1.top
          obtain ⟨s2, h2⟩ := readToken_ok hc (inp := inp) htop hin
          simp only [h2]
          have hst2 : StackR cert s2.stack := by rw [(readToken_frame h2).stack]; exact hst1
          cases hs3 : skipErrors T inp fuel s2 with
          | error w' => exact absurd hs3 (skipErrors_no_panic hc fuel hst2 w')
          | ok o =>
            cases o with
            | none => intro h; cases h
            | some s3 =>
              dsimp only
              have hst3 : StackR cert s3.stack := by rw [skipErrors_stack hs3]; exact hst2
              exact recoverLoop_no_panic hc fuel hst3 w

theorem SInv.stackR (hc : SafeOK G nTerms nRules T cert) {inp : Array Nat} {s : PState}
    (hs : SInv G (autoOf T cert) inp s) : StackR cert s.stack := by
  obtain ⟨-, syms, hci⟩ := hs
  refine ⟨?_, fun e he => hci.states_lt hc e he⟩
  cases hst : s.stack with
  | nil => exact absurd hst hci.ne_nil
  | cons e r => exact ⟨e.state, rfl⟩

/-- One iteration of `parse` does not panic on validated tables. -/
theorem step_no_panic (hc : SafeOK G nTerms nRules T cert) {inp : Array Nat} {wb : Bool}
    {fuel : Nat} {s : PState} (hs : SInv G (autoOf T cert) inp s) :
    ∀ w s', step T inp wb fuel s ≠ .done (.panic w) s' := by
  intro w s'
  have hst := hs.stackR hc
  obtain ⟨hcov, syms, hci⟩ := hs
  obtain ⟨top, htop, hin⟩ := hst.top
  unfold step
  rw [htop]
  dsimp only
  rcases find_actions_inR hc hin s.la with ⟨action, hf⟩ | hf
  · rw [hf]
    dsimp only
    by_cases hacc : action = acceptCode
    · simp only [hacc, if_true]; intro h; cases h
    · simp only [hacc, if_false]
      by_cases hsh : action ≥ 0
      · simp only [hsh, if_true]
        obtain ⟨ti, hti⟩ : ∃ ti, (if wb = true then symTokIdx s.lasym else some 0) = some ti := by
          cases wb
          · exact ⟨0, rfl⟩
          · cases hl : s.lasym with
            | nil => have := hcov.pinv.laok.1; rw [hl] at this; cases this
            | node => have := hcov.pinv.laok.1; rw [hl] at this; cases this
            | tok i ty => exact ⟨i, rfl⟩
            | err i ty ex => exact ⟨i, rfl⟩
        rw [hti]
        dsimp only
        obtain ⟨hci', -⟩ := hci.shift hc hcov.pinv htop hf hacc hsh ti
        have hin' : InR cert action := by
          have := hci'.states_lt hc _ (List.mem_cons_self)
          exact this
        obtain ⟨s2, h2⟩ := readToken_ok hc (inp := inp) (s := shiftState s action ti)
          (top := action) rfl hin'
        have h2' := h2
        simp only [shiftState] at h2'
        rw [h2']
        intro h; cases h
      · simp only [hsh, if_false]
        obtain ⟨pr, hpr, hru, htc⟩ := reduce_entry hc hin hf (by omega)
        rw [htc, hru]
        dsimp only
        -- the stack is deep enough and the goto entry exists
        have hs' := safe_of_safeOK hc
        obtain ⟨e, st, hstk, -, hlt, hact⟩ := action_of_top hc hci hcov.pinv htop hf
        have hdec : decodeAct action = .reduce (-action).toNat :=
          decodeAct_reduce.mpr ⟨hacc, by omega, rfl⟩
        rw [hdec] at hact
        have hp0 : (-action).toNat ≠ 0 := fun h0 => autoOf_no_reduce0 _ _ (h0 ▸ hact)
        obtain ⟨w0, hw0⟩ := hci.toStackInv
        have hact' : (autoOf T cert).action (Abs.topState (absStack s.stack)) (leafNat s.lasym) =
            some (.reduce (-action).toNat) := by
          rw [hstk]; simpa [absStack, Abs.topState] using hact
        obtain ⟨pr', e', rest, s'', hpr', hdrop, hlen, hgoto⟩ :=
          Abs.reduce_progress hs' hw0 hact' hp0
        have : pr' = pr := by rw [hpr] at hpr'; exact (Option.some.inj hpr').symm
        subst this
        have hlen' : pr'.rhs.length < s.stack.length := by simpa [absStack] using hlen
        have hnp : ¬ (((pr'.rhs.length : Nat) : Int) < 0 ∨
            s.stack.length < ((pr'.rhs.length : Nat) : Int).toNat) := by
          simp only [Int.toNat_natCast]; omega
        rw [if_neg hnp]
        simp only [Int.toNat_natCast]
        cases hd : s.stack.drop pr'.rhs.length with
        | nil =>
          have := congrArg List.length hd
          simp only [List.length_drop, List.length_nil] at this; omega
        | cons ec rc =>
          simp only [topState, List.head?_cons, Option.map_some]
          have hinc : InR cert ec.state :=
            hst.2 ec (List.mem_of_mem_drop (by rw [hd]; exact List.mem_cons_self))
          -- the goto entry exists
          have hdrop' : (absStack s.stack).drop pr'.rhs.length = absStack (s.stack.drop pr'.rhs.length) := by
            simp [absStack, List.map_drop]
          rw [hdrop', hd] at hdrop
          have he' : e'.state = ec.state.toNat := by
            have := (List.cons.inj hdrop).1
            rw [← this]
          rw [he'] at hgoto
          obtain ⟨-, v, hfv, -⟩ := goto_eq hgoto
          rw [hinc.cast] at hfv
          rw [hfv]
          intro h; cases h
  · rw [hf]
    dsimp only
    cases hr : recover T inp fuel s with
    | ok s1 => intro h; cases h
    | fail s1 => intro h; cases h
    | timeout => intro h; cases h
    | panic w' => exact absurd hr (recover_no_panic hc hst hcov.pinv.laok.1 w')

/-- **parse_no_panic.** On validated tables the generated `parse` never panics, whatever the
input (lexer ERROR tokens included) and however often it recovers. -/
theorem parse_no_panic (hc : SafeOK G nTerms nRules T cert) (inp : Array Nat) (wb : Bool)
    (fuel : Nat) : ∀ w, (parse T inp wb fuel).1 ≠ .panic w := by
  intro w
  rw [parse_eq]
  have h0 : StackR cert initState.stack :=
    ⟨⟨0, rfl⟩, fun e he => by rw [List.mem_singleton.mp he]; exact inR_zero hc⟩
  obtain ⟨top, htop, hin⟩ := h0.top
  obtain ⟨s1, h1⟩ := readToken_ok hc (inp := inp) htop hin
  rw [h1]
  dsimp only
  obtain ⟨sl, hr, hsl⟩ := runLoop_spec (T := T) (inp := inp) (wb := wb) (fuel := fuel) fuel s1
  have hinv : SInv G (autoOf T cert) inp sl := parseReach_SInv hc ⟨s1, h1, hr⟩
  rcases hsl with ⟨ht, -⟩ | hd
  · rw [ht]; intro h; cases h
  · intro hp
    rw [hp] at hd
    exact step_no_panic hc hinv _ _ hd

end

end Lox.LR.Rt
