import Lox.LR.EmitProofsTable
import Lox.LR.GenModelProofsActions
import Lox.LR.ConflictVerdict
/-! The `_actions` row of one state (`Lox.LR.Emit.actionRow`) in terms of the textbook candidate
actions of its item set (`Lox.LR.Gen.CandOf`), for a state whose cells each hold exactly one action
(no conflict), and the `_goto` row in terms of the recorded transitions. -/
namespace Lox.LR.Emit
open Lox.LR Lox.LR.Gen Lox.LR.Cons
open Lox.Dec (Action ProdInfo resolveCell resolveOne decideSR)
open Lox.Table

/-! ### Without precedences `resolveConflicts` changes nothing -/

theorem decideSR_noPrec (ps : List Nat) (rp : Nat) : decideSR noPrec ps rp = none := by
  unfold decideSR
  cases ps with
  | nil => rfl
  | cons p0 rest =>
    simp [noPrec]

theorem resolveOne_noPrec (acts : List Action) : (resolveOne noPrec acts).1 = acts := by
  unfold resolveOne
  split
  · simp [decideSR_noPrec]
  · simp [decideSR_noPrec]
  · rfl

theorem resolveCell_noPrec (cell : List Action) : (resolveCell noPrec cell).1 = cell := by
  unfold resolveCell
  split
  · rfl
  · exact resolveOne_noPrec cell

theorem cellsOf_noPrec (G : Grammar) (nT : Nat) (tr : Nat → Option Nat) (I : List Item) :
    cellsOf noPrec G nT tr I = actionsOf G nT tr I := by
  unfold cellsOf
  cases actionsOf G nT tr I with
  | none => rfl
  | some cells =>
    simp only [Option.map_some, Option.some.injEq]
    induction cells with
    | nil => rfl
    | cons c r ih =>
      simp only [List.map_cons, resolveCell_noPrec] at ih ⊢
      rw [ih]

theorem itemsOf_cert (st : CState) (s : Nat) : itemsOf st.cert s = st.states[s]?.getD [] := by
  simp [itemsOf, CState.cert]

/-! ### Association lists of cells -/

theorem lookupCell_mem {a : Nat} {c : List Action} :
    ∀ {cells : List (Nat × List Action)}, lookupCell a cells = some c → (a, c) ∈ cells
  | [], h => by simp [lookupCell] at h
  | (b, c') :: r, h => by
    simp only [lookupCell] at h
    split at h
    · next e => cases h; subst e; simp
    · exact List.mem_cons_of_mem _ (lookupCell_mem h)

theorem lookupCell_of_mem {a : Nat} {c : List Action} :
    ∀ {cells : List (Nat × List Action)}, (cells.map (·.1)).Nodup → (a, c) ∈ cells →
      lookupCell a cells = some c
  | [], _, h => by cases h
  | (b, c') :: r, hn, h => by
    simp only [List.map_cons, List.nodup_cons] at hn
    simp only [lookupCell]
    rcases List.mem_cons.mp h with e | h
    · cases e; simp
    · have hne : b ≠ a := by
        rintro rfl
        exact hn.1 (List.mem_map.mpr ⟨(b, c), h, rfl⟩)
      rw [if_neg hne]
      exact lookupCell_of_mem hn.2 h

theorem lookupCell_none {a : Nat} :
    ∀ {cells : List (Nat × List Action)}, lookupCell a cells = none → a ∉ cells.map (·.1)
  | [], _ => by simp
  | (b, c') :: r, h => by
    simp only [lookupCell] at h
    split at h
    · cases h
    · next hne =>
      simp only [List.map_cons, List.mem_cons, not_or]
      exact ⟨fun e => hne e.symm, lookupCell_none h⟩

/-! ### The cells of a state -/

section
variable {G : Grammar} {nT : Nat} {tr : Nat → Option Nat} {I : List Item}

/-- What `actionsOf` returns: one entry per terminal of `cellTerminals`, carrying `cellOn`. -/
theorem actionsOf_spec {cells : List (Nat × List Action)} (h : actionsOf G nT tr I = some cells) :
    cells.map (·.1) = cellTerminals G nT tr I ∧
    ∀ a c, (a, c) ∈ cells → cellOn G nT tr I a = .ok c := by
  unfold actionsOf at h
  split at h
  · cases h
  · constructor
    · have hk : ∀ (a : Nat) (y : Nat × List Action),
          (match cellOn G nT tr I a with
            | .ok c => some (a, c)
            | .error _ => none) = some y → y.1 = id a := by
        intro a y hy
        cases hc : cellOn G nT tr I a with
        | error e => simp [hc] at hy
        | ok c => simp only [hc, Option.some.injEq] at hy; subst hy; rfl
      have := mapM_some_map _ (fun y : Nat × List Action => y.1) id hk h
      simpa using this
    · intro a c hm
      obtain ⟨a', _, ha'⟩ := mapM_some_mem _ h hm
      cases hc : cellOn G nT tr I a' with
      | error e => simp [hc] at ha'
      | ok c' =>
        simp only [hc, Option.some.injEq] at ha'
        cases ha'
        exact hc

theorem nodup_cellTerminals (G : Grammar) (nT : Nat) (tr : Nat → Option Nat) (I : List Item) :
    (cellTerminals G nT tr I).Nodup := by
  apply nodup_of_sorted natLt_order
  unfold cellTerminals
  induction I with
  | nil => simp [SSorted]
  | cons it r ih =>
    simp only [List.foldr_cons]
    split
    · exact sorted_sinsert natLt_order ih
    · exact ih

theorem lookupCell_actionsOf {cells : List (Nat × List Action)}
    (h : actionsOf G nT tr I = some cells) (a : Nat) :
    (∀ c, lookupCell a cells = some c ↔ a ∈ cellTerminals G nT tr I ∧ cellOn G nT tr I a = .ok c) := by
  obtain ⟨hk, hc⟩ := actionsOf_spec h
  have hn : (cells.map (·.1)).Nodup := by rw [hk]; exact nodup_cellTerminals G nT tr I
  intro c
  constructor
  · intro hl
    have hm := lookupCell_mem hl
    refine ⟨?_, hc a c hm⟩
    rw [← hk]
    exact List.mem_map.mpr ⟨(a, c), hm, rfl⟩
  · rintro ⟨ha, hcell⟩
    rw [← hk] at ha
    obtain ⟨⟨a', c'⟩, hm, rfl⟩ := List.mem_map.mp ha
    have := hc a' c' hm
    simp only at hcell
    rw [this] at hcell
    cases hcell
    exact lookupCell_of_mem hn hm

/-- A candidate action puts its terminal among the terminals that get a cell. -/
theorem cand_cellTerminals (hI : ∀ it ∈ I, it.a < nT)
    (htr : ∀ it ∈ I, ∀ x, afterDot G it = some (.t x) → tr x ≠ none) {a : Nat} {c : Gen.Cand}
    (hc : CandOf G I a c) : a ∈ cellTerminals G nT tr I := by
  rw [mem_cellTerminals]
  cases c with
  | accept =>
    obtain ⟨pr0, h0, hit⟩ := hc
    exact ⟨_, hit, .accept, want_accept.mpr ⟨pr0, h0, rfl, hI _ hit, rfl, rfl⟩⟩
  | reduce p =>
    obtain ⟨hp0, pr, hpr, hit⟩ := hc
    exact ⟨_, hit, .reduce p, want_reduce.mpr ⟨pr, hpr, rfl, hI _ hit, hp0, rfl, rfl⟩⟩
  | shift =>
    obtain ⟨it, hit, ha⟩ := hc
    cases hs : tr a with
    | none => exact absurd hs (htr it hit a ha)
    | some s => exact ⟨it, hit, .shift s it.p, want_shift.mpr ⟨ha, hs, rfl⟩⟩

/-- A terminal that gets a cell is a lookahead of an item or stands after a dot. -/
theorem cellTerminals_cases {a : Nat} (h : a ∈ cellTerminals G nT tr I) :
    (∃ it ∈ I, it.a = a ∧ it.a < nT) ∨ (∃ it ∈ I, afterDot G it = some (.t a)) := by
  obtain ⟨it, hit, c, hw⟩ := mem_cellTerminals.mp h
  cases c with
  | shift s p => exact .inr ⟨it, hit, (want_shift.mp hw).1⟩
  | reduce p =>
    obtain ⟨_, _, _, hlt, _, _, rfl⟩ := want_reduce.mp hw
    exact .inl ⟨it, hit, rfl, hlt⟩
  | accept =>
    obtain ⟨_, _, _, hlt, _, rfl⟩ := want_accept.mp hw
    exact .inl ⟨it, hit, rfl, hlt⟩

end

/-! ### The `_actions` row of a conflict-free state -/

/-- The facts about one state that the row lemmas need (no Go panic in `createActions`, name order
well formed). -/
structure StateWf (G : Grammar) (nT : Nat) (ord : List Sym) (tr : Nat → Option Nat)
    (I : List Item) : Prop where
  la : ∀ it ∈ I, it.a < nT
  trs : ∀ it ∈ I, ∀ x, afterDot G it = some (.t x) → tr x ≠ none
  below : ∀ it ∈ I, ∀ x, afterDot G it = some (.t x) → x < nT
  ordNodup : ord.Nodup
  ordTerms : ∀ a, a < nT → Sym.t a ∈ ord

/-- … and every cell holds exactly one action. -/
structure StateOK (G : Grammar) (nT : Nat) (ord : List Sym) (tr : Nat → Option Nat)
    (I : List Item) : Prop extends StateWf G nT ord tr I where
  single : ∃ cells, actionsOf G nT tr I = some cells ∧ ∀ e ∈ cells, e.2.length = 1

theorem mem_termsOf {ord : List Sym} {a : Nat} : a ∈ termsOf ord ↔ Sym.t a ∈ ord := by
  unfold termsOf
  rw [List.mem_filterMap]
  constructor
  · rintro ⟨X, hX, h⟩
    cases X with
    | t b => simp at h; subst h; exact hX
    | n B => simp at h
  · intro h
    exact ⟨.t a, h, rfl⟩

theorem mem_rulesOf {ord : List Sym} {B : Nat} : B ∈ rulesOf ord ↔ Sym.n B ∈ ord := by
  unfold rulesOf
  rw [List.mem_filterMap]
  constructor
  · rintro ⟨X, hX, h⟩
    cases X with
    | t b => simp at h
    | n C => simp at h; subst h; exact hX
  · intro h
    exact ⟨.n B, h, rfl⟩

theorem nodup_filterMap_inj {α β : Type} (f : α → Option β)
    (hinj : ∀ x y b, f x = some b → f y = some b → x = y) :
    ∀ {l : List α}, l.Nodup → (l.filterMap f).Nodup
  | [], _ => by simp
  | a :: l, h => by
    rw [List.nodup_cons] at h
    rw [List.filterMap_cons]
    cases hfa : f a with
    | none => exact nodup_filterMap_inj f hinj h.2
    | some b =>
      simp only
      rw [List.nodup_cons]
      refine ⟨?_, nodup_filterMap_inj f hinj h.2⟩
      intro hb
      obtain ⟨y, hy, hfy⟩ := List.mem_filterMap.mp hb
      have := hinj a y b hfa hfy
      subst this
      exact h.1 hy

theorem nodup_termsOf {ord : List Sym} (h : ord.Nodup) : (termsOf ord).Nodup := by
  unfold termsOf
  apply nodup_filterMap_inj _ _ h
  intro x y b hx hy
  cases x <;> cases y <;> simp at hx hy
  subst hx hy; rfl

theorem nodup_rulesOf {ord : List Sym} (h : ord.Nodup) : (rulesOf ord).Nodup := by
  unfold rulesOf
  apply nodup_filterMap_inj _ _ h
  intro x y b hx hy
  cases x <;> cases y <;> simp at hx hy
  subst hx hy; rfl

/-- First match in a key/value list with distinct keys is membership. -/
theorem firstMatch_iff_mem {ps : List (Int × Int)} (hd : (ps.map (·.1)).Nodup) (k v : Int) :
    firstMatch ps k = some v ↔ (k, v) ∈ ps := by
  constructor
  · exact firstMatch_mem
  · intro h
    apply firstMatch_of_mem _ h
    exact hd

section
variable {G : Grammar} {nT : Nat} {ord : List Sym} {tr : Nat → Option Nat} {I : List Item}

/-- **The `_actions` row of a conflict-free state.** Its keys are pairwise different; an entry
`(k, v)` is there iff `k` is a terminal whose cell is the single action `act` with `v` its code. -/
theorem actionRow_spec (hs : StateOK G nT ord tr I) {row : List (Int × Int)}
    (h : actionRow noPrec G nT ord tr I = some row) :
    (row.map (·.1)).Nodup ∧
    ∀ k v, (k, v) ∈ row ↔ ∃ (a : Nat) (act : Action), k = (a : Int) ∧ a ∈ cellTerminals G nT tr I ∧
      cellOn G nT tr I a = .ok [act] ∧ v = actCode act := by
  unfold actionRow at h
  rw [cellsOf_noPrec] at h
  obtain ⟨cells, hc, hsingle⟩ := hs.single
  simp only [hc] at h
  have hlk := lookupCell_actionsOf hc
  -- keys
  have hkeys : row.map (·.1) = (cellTerms ord cells).map fun (a : Nat) => (a : Int) := by
    apply mapM_some_map _ _ _ _ h
    intro a y hy
    unfold firstCode at hy
    split at hy
    · simp only [Option.some.injEq] at hy; subst hy; rfl
    · cases hy
  have hnd : (cellTerms ord cells).Nodup := by
    unfold cellTerms
    exact (nodup_termsOf hs.ordNodup).filter _
  refine ⟨?_, ?_⟩
  · rw [hkeys]
    rw [List.Nodup, List.pairwise_map]
    exact hnd.imp fun hne e => hne (by exact_mod_cast e)
  · intro k v
    constructor
    · intro hm
      obtain ⟨a, ha, hfa⟩ := mapM_some_mem _ h hm
      unfold firstCode at hfa
      split at hfa
      · next act rest hl =>
        simp only [Option.some.injEq] at hfa
        cases hfa
        obtain ⟨hat, hcell⟩ := (hlk a _).mp hl
        have hlen := hsingle (a, act :: rest) (lookupCell_mem hl)
        simp only [List.length_cons] at hlen
        have : rest = [] := List.eq_nil_of_length_eq_zero (by omega)
        subst this
        exact ⟨a, act, rfl, hat, hcell, rfl⟩
      · cases hfa
    · rintro ⟨a, act, rfl, hat, hcell, rfl⟩
      have hl : lookupCell a cells = some [act] := (hlk a _).mpr ⟨hat, hcell⟩
      have halt : a < nT := by
        rcases cellTerminals_cases hat with ⟨it, hit, rfl, hlt⟩ | ⟨it, hit, had⟩
        · exact hlt
        · exact hs.below it hit a had
      have hin : a ∈ cellTerms ord cells := by
        unfold cellTerms
        rw [List.mem_filter]
        exact ⟨mem_termsOf.mpr (hs.ordTerms a halt), by simp [hl]⟩
      obtain ⟨y, hy, hfy⟩ := mapM_some_of_mem _ h hin
      unfold firstCode at hfy
      rw [hl] at hfy
      simp only [Option.some.injEq] at hfy
      subst hfy
      exact hy

/-- A candidate action of a conflict-free state is THE action of its cell. -/
theorem cand_single (hs : StateOK G nT ord tr I) {a : Nat} {c : Gen.Cand} (hc : CandOf G I a c) :
    ∃ act, cellOn G nT tr I a = .ok [act] ∧ kindOf act = c ∧ a ∈ cellTerminals G nT tr I ∧
      (∀ s ps, act = .shift s ps → tr a = some s) := by
  obtain ⟨cell, hcell, _, hkinds, hsh⟩ := cellOn_spec hs.la hs.trs a
  have hat := cand_cellTerminals hs.la hs.trs hc
  have hkm := (hkinds c).mpr hc
  obtain ⟨act, hact, hk⟩ := List.mem_map.mp hkm
  obtain ⟨cells, hao, hsingle⟩ := hs.single
  have hl := (lookupCell_actionsOf hao a cell).mpr ⟨hat, hcell⟩
  have hlen := hsingle (a, cell) (lookupCell_mem hl)
  simp only at hlen
  match cell, hlen, hact, hcell, hsh with
  | [x], _, hact, hcell, hsh =>
    simp only [List.mem_singleton] at hact
    subst hact
    exact ⟨act, hcell, hk, hat, fun s ps e => (hsh s ps (by simp [e])).1⟩

/-- The single action of a cell is a candidate. -/
theorem single_cand (hs : StateOK G nT ord tr I) {a : Nat} {act : Action}
    (hcell : cellOn G nT tr I a = .ok [act]) :
    CandOf G I a (kindOf act) ∧ (∀ s ps, act = .shift s ps → tr a = some s) := by
  obtain ⟨cell, hcell', _, hkinds, hsh⟩ := cellOn_spec hs.la hs.trs a
  rw [hcell] at hcell'
  cases hcell'
  exact ⟨(hkinds _).mp (by simp), fun s ps e => (hsh s ps (by simp [e])).1⟩

/-- **The `_actions` row of any state** (conflicts or not, with or without precedences): for a
terminal listed in `ord`, the first-match lookup yields the code of the FIRST action of its cell
after resolution, and nothing when the terminal has no cell. -/
theorem actionRow_lookup {info : Nat → ProdInfo} (hn : ord.Nodup) {row : List (Int × Int)}
    (h : actionRow info G nT ord tr I = some row) :
    ∃ cells, cellsOf info G nT tr I = some cells ∧ (row.map (·.1)).Nodup ∧
      (∀ k ∈ row.map (·.1), ∃ a : Nat, k = (a : Int) ∧ Sym.t a ∈ ord) ∧
      ∀ a, Sym.t a ∈ ord → firstMatch row (a : Int) =
        match lookupCell a cells with
        | some (act :: _) => some (actCode act)
        | _ => none := by
  unfold actionRow at h
  cases hc : cellsOf info G nT tr I with
  | none => simp [hc] at h
  | some cells =>
    simp only [hc] at h
    have hkeys : row.map (·.1) = (cellTerms ord cells).map fun (a : Nat) => (a : Int) := by
      apply mapM_some_map _ _ _ _ h
      intro a y hy
      unfold firstCode at hy
      split at hy
      · simp only [Option.some.injEq] at hy; subst hy; rfl
      · cases hy
    have hnd : (cellTerms ord cells).Nodup := by
      unfold cellTerms
      exact (nodup_termsOf hn).filter _
    have hndk : (row.map (·.1)).Nodup := by
      rw [hkeys, List.Nodup, List.pairwise_map]
      exact hnd.imp fun hne e => hne (by exact_mod_cast e)
    refine ⟨cells, rfl, hndk, ?_, ?_⟩
    · intro k hk
      rw [hkeys] at hk
      obtain ⟨a, ha, rfl⟩ := List.mem_map.mp hk
      unfold cellTerms at ha
      exact ⟨a, rfl, mem_termsOf.mp (List.mem_filter.mp ha).1⟩
    · intro a ha
      by_cases hin : a ∈ cellTerms ord cells
      · obtain ⟨y, hy, hfy⟩ := mapM_some_of_mem _ h hin
        unfold firstCode at hfy
        split at hfy
        · next act rest hl =>
          simp only [Option.some.injEq] at hfy
          subst hfy
          rw [hl]
          exact (firstMatch_iff_mem hndk _ _).mpr hy
        · cases hfy
      · have hl : lookupCell a cells = none := by
          unfold cellTerms at hin
          rw [List.mem_filter] at hin
          cases hl : lookupCell a cells with
          | none => rfl
          | some c => exact absurd ⟨mem_termsOf.mpr ha, by simp [hl]⟩ hin
        rw [hl]
        simp only
        rw [firstMatch_none, hkeys]
        intro hm
        obtain ⟨a', ha', e⟩ := List.mem_map.mp hm
        have : a' = a := by exact_mod_cast e
        subst this
        exact hin ha'

/-- An action of a cell is a candidate (and a shift goes where the transition goes). -/
theorem mem_cand (hs : StateWf G nT ord tr I) {a : Nat} {cell : List Action}
    (hcell : cellOn G nT tr I a = .ok cell) {act : Action} (hact : act ∈ cell) :
    CandOf G I a (kindOf act) ∧ (∀ s ps, act = .shift s ps → tr a = some s) := by
  obtain ⟨cell', hcell', _, hkinds, hsh⟩ := cellOn_spec hs.la hs.trs a
  rw [hcell] at hcell'
  cases hcell'
  exact ⟨(hkinds _).mp (List.mem_map.mpr ⟨act, hact, rfl⟩),
    fun s ps e => (hsh s ps (e ▸ hact)).1⟩

/-! ### `resolveConflicts` only deletes actions -/

theorem resolveOne_subset (info : Nat → ProdInfo) (acts : List Action) :
    ∀ x ∈ (resolveOne info acts).1, x ∈ acts := by
  unfold resolveOne
  split
  · next t ps rp =>
    cases decideSR info ps rp with
    | none => simp
    | some k => cases k <;> simp [Lox.Dec.keepOf]
  · next rp t ps =>
    cases decideSR info ps rp with
    | none => simp
    | some k => cases k <;> simp [Lox.Dec.keepOf]
  · simp

theorem resolveCell_subset (info : Nat → ProdInfo) (cell : List Action) :
    ∀ x ∈ (resolveCell info cell).1, x ∈ cell := by
  unfold resolveCell
  split
  · simp
  · exact resolveOne_subset info cell

theorem lookupCell_map (f : List Action → List Action) (a : Nat) :
    ∀ cells : List (Nat × List Action),
      lookupCell a (cells.map fun c => (c.1, f c.2)) = (lookupCell a cells).map f
  | [] => rfl
  | (b, c) :: r => by
    simp only [List.map_cons, lookupCell]
    split
    · rfl
    · exact lookupCell_map f a r

/-- **Every entry of the `_actions` row of any state** (conflicts or not, any precedences) is the
code of an action that `createActions` put into the cell of its terminal. -/
theorem actionRow_entries {info : Nat → ProdInfo} {row : List (Int × Int)}
    (h : actionRow info G nT ord tr I = some row) {k v : Int} (hm : (k, v) ∈ row) :
    ∃ (a : Nat) (act : Action) (cell : List Action), k = (a : Int) ∧
      a ∈ cellTerminals G nT tr I ∧ cellOn G nT tr I a = .ok cell ∧ act ∈ cell ∧
      v = actCode act := by
  unfold actionRow cellsOf at h
  cases hc : actionsOf G nT tr I with
  | none => simp [hc] at h
  | some cells =>
    simp only [hc, Option.map_some] at h
    obtain ⟨a, _, hfa⟩ := mapM_some_mem _ h hm
    unfold firstCode at hfa
    split at hfa
    · next act rest hl =>
      simp only [Option.some.injEq] at hfa
      cases hfa
      rw [lookupCell_map (fun c => (resolveCell info c).1)] at hl
      cases hl0 : lookupCell a cells with
      | none => simp [hl0] at hl
      | some c =>
        simp only [hl0, Option.map_some, Option.some.injEq] at hl
        obtain ⟨hat, hcell⟩ := (lookupCell_actionsOf hc a c).mp hl0
        refine ⟨a, act, c, rfl, hat, hcell, ?_, rfl⟩
        exact resolveCell_subset info c act (by rw [hl]; simp)
    · cases hfa

end

end Lox.LR.Emit
