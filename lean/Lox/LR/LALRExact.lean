import Lox.LR.JustifySound
/-! Exactness lemmas: `check` (nothing missing) + `justify` (nothing invented) ⇒ the certificate is
the family of LALR(1) item sets and the emitted tables are the LALR(1) tables. The property
theorems are in `Lox/Props/C04_exact.lean`. -/
namespace Lox.LR

/-! ### The closed FIRST table of `check` contains the semantic FIRST -/

theorem nullSeq_append (F : FirstTab) (x y : List Sym) :
    nullSeq F (x ++ y) = (nullSeq F x && nullSeq F y) := by
  induction x with
  | nil => simp [nullSeq]
  | cons X x ih =>
    cases X with
    | t a => simp [nullSeq]
    | n B => simp [nullSeq, ih, Bool.and_assoc]

theorem mem_firstSeq_append (F : FirstTab) (b : Nat) (x y : List Sym) :
    b ∈ firstSeq F (x ++ y) ↔ b ∈ firstSeq F x ∨ (nullSeq F x = true ∧ b ∈ firstSeq F y) := by
  induction x with
  | nil => simp [firstSeq, nullSeq]
  | cons X x ih =>
    cases X with
    | t a => simp [firstSeq, nullSeq]
    | n B =>
      by_cases hB : F.nullB B = true
      · simp [firstSeq, nullSeq, hB, ih, or_assoc]
      · simp [firstSeq, nullSeq, hB]

/-- A derivation step never adds to what the closed table predicts. -/
theorem derives_first_mono {G : Grammar} {F : FirstTab} (hc : closedB G F = true) {α β : List Sym}
    (h : Derives G α β) :
    (nullSeq F β = true → nullSeq F α = true) ∧ ∀ b, b ∈ firstSeq F β → b ∈ firstSeq F α := by
  induction h with
  | refl => exact ⟨id, fun _ h => h⟩
  | @step α₁ α₂ β q qr hq _ ih =>
    have hmem : qr ∈ G.prods.toList := by
      rw [Array.mem_toList_iff]; exact Array.mem_of_getElem? hq
    have hcl := (List.all_eq_true.mp hc) qr hmem
    simp only [Bool.and_eq_true, Bool.or_eq_true, Bool.not_eq_true', List.all_eq_true,
      decide_eq_true_eq] at hcl
    obtain ⟨hn, hf⟩ := hcl
    have hnl : nullSeq F qr.rhs = true → F.nullB qr.lhs = true := by
      intro h
      rcases hn with hn | hn
      · rw [h] at hn; cases hn
      · exact hn
    constructor
    · intro hβ
      have := ih.1 hβ
      simp only [nullSeq_append, Bool.and_eq_true] at this
      obtain ⟨⟨h1, h2⟩, h3⟩ := this
      simp [nullSeq_append, nullSeq, h1, hnl h2, h3]
    · intro b hb
      have := ih.2 b hb
      rw [List.append_assoc, mem_firstSeq_append, mem_firstSeq_append] at this
      rw [mem_firstSeq_append]
      rcases this with h1 | ⟨h1, h2 | ⟨h2, h3⟩⟩
      · exact .inl h1
      · exact .inr ⟨h1, by simp [firstSeq, hf b h2]⟩
      · exact .inr ⟨h1, by simp [firstSeq, hnl h2, h3]⟩

/-- The closed table of `check` is complete for the semantic (sentential-form) FIRST. -/
theorem first_complete {G : Grammar} {F : FirstTab} (hc : closedB G F = true) {α : List Sym}
    {a b : Nat} (h : First G α a b) : b ∈ firstOf F α a := by
  rcases h with ⟨δ, hd⟩ | ⟨hd, rfl⟩
  · have := (derives_first_mono hc hd).2 b (by simp [firstSeq])
    simp [firstOf, this]
  · have := (derives_first_mono hc hd).1 rfl
    simp [firstOf, this]

/-! ### `check` ⇒ `Closed` -/

theorem closed_of_valid {G : Grammar} {A : Auto} {F : FirstTab} (hv : Valid G A (firstOf F))
    (hc : closedB G F = true) : Closed G A where
  start := hv.start
  step := by
    intro s it pr X hit hp hX
    cases X with
    | t x =>
      obtain ⟨s', hact, hmem⟩ := hv.shift s it pr x hit hp hX
      exact ⟨s', by simp [trans, hact], hmem⟩
    | n B =>
      obtain ⟨s', hgo, hmem⟩ := hv.goto s it pr B hit hp hX
      exact ⟨s', by simpa [trans] using hgo, hmem⟩
  closure := by
    intro s it pr B q qr b hit hp hX hq hl hf
    exact hv.closure s it pr B q qr b hit hp hX hq hl (first_complete hc hf)

theorem closed_of_checkOK {G : Grammar} {nTerms nRules : Nat} {T : Tables}
    {cert : Array (List Item)} (h : CheckOK G nTerms nRules T cert) : Closed G (autoOf T cert) :=
  closed_of_valid (valid_of_checkOK h) h.closed

/-! ### The LR(0) items valid for a path are the cores of the state it reaches -/

theorem core_valid_zero {G : Grammar} {A : Auto} (hs : Safe G A) {z : Nat} {it : Item}
    (h : Justd G A z it) : z = 0 → LR0Item G [] it.p it.d := by
  induction h with
  | start _ => intro _; exact .start
  | goto _ _ _ _ hmem _ =>
    intro hz
    subst hz
    have := hs.s0 _ hmem
    simp at this
  | closure _ hp hX hq hl _ _ ih => intro hz; exact .closure (ih hz) hp hX hq hl

theorem core_valid_succ {G : Grammar} {A : Auto} (hs : Safe G A) {γ : List Sym} {X : Sym}
    {s1 s2 : Nat} {it : Item} (h : Justd G A s2 it) :
    trans A s1 X = some s2 → (∀ it', it' ∈ A.items s1 → LR0Item G γ it'.p it'.d) →
    LR0Item G (γ ++ [X]) it.p it.d := by
  induction h with
  | start _ => intro htr _; exact absurd htr (hs.noIn s1 X)
  | @goto s' s p d a pr X' _ hpp hX' _ hmem _ =>
    intro htr ihp
    obtain ⟨pr', hp', hXX, a', hprev⟩ := hs.back _ _ _ _ htr hmem (by simp)
    simp only [Nat.add_sub_cancel] at hXX hprev
    exact .goto (ihp _ hprev) hp' hXX
  | closure _ hp' hX hq hl _ _ ih => intro htr ihp; exact .closure (ih htr ihp) hp' hX hq hl

/-- Every core of the state reached along `γ` is an LR(0) item valid for `γ` – for EVERY `γ` that
reaches the state (this is where the LALR merge is harmless). -/
theorem core_valid {G : Grammar} {A : Auto} (hs : Safe G A)
    (hj : ∀ s it, it ∈ A.items s → Justd G A s it) {γ : List Sym} {s : Nat}
    (hpath : Path A 0 γ s) : ∀ it, it ∈ A.items s → LR0Item G γ it.p it.d := by
  induction hpath with
  | nil => exact fun it hit => core_valid_zero hs (hj 0 it hit) rfl
  | snoc _ htr ihp => exact fun it hit => core_valid_succ hs (hj _ it hit) htr ihp

/-- A sequence of productive symbols derives a token string. -/
theorem der_of_productive {G : Grammar} :
    ∀ (α : List Sym), (∀ B, Sym.n B ∈ α → ∃ w ts, Der G [.n B] w ts) → ∃ w ts, Der G α w ts
  | [], _ => ⟨[], [], .nil⟩
  | .t x :: rest, h => by
    obtain ⟨w, ts, hd⟩ := der_of_productive rest (fun B hB => h B (List.mem_cons_of_mem _ hB))
    exact ⟨_, _, .term hd⟩
  | .n C :: rest, h => by
    obtain ⟨w1, ts1, h1⟩ := h C List.mem_cons_self
    obtain ⟨w2, ts2, h2⟩ := der_of_productive rest (fun B hB => h B (List.mem_cons_of_mem _ hB))
    have := Der.append h1 h2
    exact ⟨_, _, by simpa using this⟩

/-- In a productive grammar every suffix of a right-hand side derives a token string. -/
theorem Productive.der_drop {G : Grammar} (hprod : Productive G) {p : Nat} {pr : Prod}
    (hp : G.prods[p]? = some pr) (k : Nat) : ∃ w ts, Der G (pr.rhs.drop k) w ts :=
  der_of_productive _ fun B hB => (hprod p pr hp).2 B (List.mem_of_mem_drop hB)

/-- Under `Closed`, in a productive grammar every LR(0) item valid for `γ` is a core of the state
reached along `γ`. (Productivity is needed: the generator's closure adds `[B → ·δ, b]` only for
`b ∈ FIRST(βa)`, which is empty when `β` derives nothing.) -/
theorem LR0Item.in_state {G : Grammar} {A : Auto} (hc : Closed G A) (hprod : Productive G)
    {γ : List Sym} {p d : Nat} (h : LR0Item G γ p d) :
    ∃ s, Path A 0 γ s ∧ HasCore (A.items s) p d := by
  induction h with
  | start => exact ⟨0, .nil 0, eof, hc.start⟩
  | goto _ hp hX ih =>
    obtain ⟨s, hpath, a, hmem⟩ := ih
    obtain ⟨s', htr, hmem'⟩ := hc.step s _ _ _ hmem hp hX
    exact ⟨s', .snoc hpath htr, a, hmem'⟩
  | @closure γ p d pr B q qr _ hp hX hq hl ih =>
    obtain ⟨s, hpath, a, hmem⟩ := ih
    obtain ⟨w, ts, hd⟩ := hprod.der_drop hp (d + 1)
    exact ⟨s, hpath, _, hc.closure s _ _ _ _ _ _ hmem hp hX hq hl (First.of_der a hd)⟩

/-- Every state reached from state 0 has an item. -/
theorem Path.items_nonempty {G : Grammar} {A : Auto} (hc : Closed G A) (he : EdgesBacked G A)
    {γ : List Sym} {s : Nat} (hpath : Path A 0 γ s) : ∃ it, it ∈ A.items s := by
  cases hpath with
  | nil => exact ⟨_, hc.start⟩
  | snoc hp htr =>
    obtain ⟨it, hmem, pr, hpr, hX⟩ := he _ _ _ htr
    obtain ⟨s', htr', hmem'⟩ := hc.step _ it pr _ hmem hpr hX
    rw [htr] at htr'
    cases htr'
    exact ⟨_, hmem'⟩

/-- The cores of the state reached along `γ` are exactly the LR(0) items valid for `γ`. -/
theorem cores_eq_lr0 {G : Grammar} {A : Auto} (hc : Closed G A) (hs : Safe G A)
    (hj : ∀ s it, it ∈ A.items s → Justd G A s it) (hprod : Productive G) {γ : List Sym} {s : Nat}
    (hpath : Path A 0 γ s) (p d : Nat) : HasCore (A.items s) p d ↔ LR0Item G γ p d := by
  constructor
  · rintro ⟨a, hmem⟩
    exact core_valid hs hj hpath _ hmem
  · intro h
    obtain ⟨s', hpath', hcore⟩ := h.in_state hc hprod
    rw [hpath.det hpath']
    exact hcore

/-- Two viable prefixes with the same LR(0) item set reach the same state. -/
theorem same_state {G : Grammar} {A : Auto} {n : Nat} (hc : Closed G A) (hs : Safe G A)
    (hj : ∀ s it, it ∈ A.items s → Justd G A s it) (he : EdgesBacked G A)
    (hk : KernelsDistinct A n) (hn : ∀ s it, it ∈ A.items s → s < n) (hprod : Productive G)
    {γ γ' : List Sym} {s s' : Nat} (hpath : Path A 0 γ s) (hpath' : Path A 0 γ' s')
    (hsame : SameLR0 G γ' γ) : s' = s := by
  obtain ⟨it, hit⟩ := hpath.items_nonempty hc he
  obtain ⟨it', hit'⟩ := hpath'.items_nonempty hc he
  refine hk s' s (hn _ _ hit') (hn _ _ hit) fun p d => ?_
  rw [cores_eq_lr0 hc hs hj hprod hpath', cores_eq_lr0 hc hs hj hprod hpath]
  exact hsame p d

/-- **The certificate is the family of LALR(1) item sets, textbook form.** -/
theorem items_eq_lalrSet {G : Grammar} {A : Auto} {n : Nat} (hc : Closed G A) (hs : Safe G A)
    (hj : ∀ s it, it ∈ A.items s → Justd G A s it) (he : EdgesBacked G A)
    (hk : KernelsDistinct A n) (hn : ∀ s it, it ∈ A.items s → s < n) (hprod : Productive G)
    {γ : List Sym} {s : Nat} (hpath : Path A 0 γ s) (it : Item) :
    it ∈ A.items s ↔ LALRSet G γ it := by
  constructor
  · intro hit
    obtain ⟨γ', hpath', hlr1⟩ := (hj s it hit).lalr
    refine ⟨γ', fun p d => ?_, hlr1⟩
    rw [← cores_eq_lr0 hc hs hj hprod hpath', ← cores_eq_lr0 hc hs hj hprod hpath]
  · rintro ⟨γ', hsame, hlr1⟩
    obtain ⟨s', hpath', hmem⟩ := hlr1.in_state hc
    rw [← same_state hc hs hj he hk hn hprod hpath hpath' hsame]
    exact hmem

/-! ### The action table -/

/-- Under `Valid`, every action the item sets call for is in the table. -/
theorem action_of_cand {G : Grammar} {A : Auto} {first} (hv : Valid G A first) {s a : Nat}
    {act : Act} (h : Cand G A (fun s it => it ∈ A.items s) s a act) :
    A.action s a = some act := by
  cases h with
  | @shift p d b pr s' hmem hp hX htr =>
    obtain ⟨s'', hact, _⟩ := hv.shift s _ pr a hmem hp hX
    simp only [trans, hact, Option.some.injEq] at htr
    rw [hact, htr]
  | @reduce p pr hmem hp hp0 => exact hv.reduce s _ pr hmem hp rfl hp0
  | accept hmem ha => subst ha; exact hv.accept s hmem

theorem Cand.mono {G : Grammar} {A : Auto} {I J : Nat → Item → Prop}
    (hIJ : ∀ s it, I s it → J s it) {s a : Nat} {act : Act} (h : Cand G A I s a act) :
    Cand G A J s a act := by
  cases h with
  | shift hmem hp hX htr => exact .shift (hIJ _ _ hmem) hp hX htr
  | reduce hmem hp hp0 => exact .reduce (hIJ _ _ hmem) hp hp0
  | accept hmem ha => exact .accept (hIJ _ _ hmem) ha

end Lox.LR
