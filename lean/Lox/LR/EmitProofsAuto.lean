import Lox.LR.ConstructTerm
import Lox.LR.CheckSound
/-! Shape facts about the automaton the model of `ConstructLALR` returns (`Cons.construct`), for ALL
grammars with `S' → start` as production 0 and `S'` on no right-hand side: what the validator
`Lox.LR.check` calls `Safe` (no edge into state 0, state 0 holds only dot-0 items, `S' → ·S` only in
state 0, predecessors of dot>0 items, a goto for the rule of every dot-0 item) plus the lookahead of
production-0 items. All of it follows from the loop invariant `Cons.Inv` (soundness: every item is
an LALR(1) item by definition; targets of transitions have the kernel of `Goto`) and closedness. -/
namespace Lox.LR.Emit
open Lox.LR Lox.LR.Gen Lox.LR.Cons

/-- `S'` (the left-hand side of production 0) occurs on no right-hand side. -/
def NoStart (G : Grammar) : Prop :=
  ∀ (p : Nat) (pr pr0 : Prod), G.prods[p]? = some pr → G.prods[0]? = some pr0 →
    Sym.n pr0.lhs ∉ pr.rhs

/-! ### Inversions of `LR1Item` -/

section
variable {G : Grammar}

/-- Items of production 0 carry the lookahead EOF, and `S' → ·S` is valid only for the empty
prefix. -/
theorem lr1_p0 (hns : NoStart G) {γ : List Sym} {it : Item} (h : LR1Item G γ it) :
    it.p = 0 → it.a = 0 ∧ (it.d = 0 → γ = []) := by
  induction h with
  | start => intro _; exact ⟨rfl, fun _ => rfl⟩
  | goto _ _ _ ih =>
    intro hp
    exact ⟨(ih hp).1, fun hd => by simp at hd⟩
  | @closure γ p d a pr B q qr b _ hp hX hq hl _ _ =>
    intro hq0
    simp only at hq0
    subst hq0
    exfalso
    have := hns p pr qr hp hq
    rw [hl] at this
    exact this (List.mem_of_getElem? hX)

/-- A dot-0 item of a production other than 0 was put there by the closure rule. -/
theorem lr1_dot0 {γ : List Sym} {q b : Nat} (h : LR1Item G γ ⟨q, 0, b⟩) (hq : q ≠ 0) :
    ∃ p d a pr qr, LR1Item G γ ⟨p, d, a⟩ ∧ G.prods[p]? = some pr ∧ G.prods[q]? = some qr ∧
      pr.rhs[d]? = some (.n qr.lhs) := by
  generalize hit : (⟨q, 0, b⟩ : Item) = it at h
  cases h with
  | start => cases hit; exact absurd rfl hq
  | goto _ _ _ => cases hit
  | @closure _ p d a pr B q' qr b' h0 hp hX hq' hl _ =>
    cases hit
    subst hl
    exact ⟨p, d, a, pr, qr, h0, hp, hq', hX⟩

/-- An item with the dot not at the start is valid only for a non-empty prefix, and it came by a
goto step. -/
theorem lr1_dotpos {γ : List Sym} {it : Item} (h : LR1Item G γ it) (hd : 0 < it.d) :
    ∃ γ' X, γ = γ' ++ [X] := by
  cases h with
  | start => simp at hd
  | @goto γ' _ _ _ _ X _ _ _ => exact ⟨γ', X, rfl⟩
  | closure _ _ _ _ _ _ => simp at hd

end

/-! ### What is known about the table `construct` returns -/

/-- The invariant, well-formedness and closedness of the final table. -/
structure Built (G : Grammar) (nT : Nat) (st : CState) : Prop where
  inv : Inv G st
  wf : Wf G nT st
  closed : Closed G (skelOf st)

section
variable {G : Grammar} {nT : Nat} {ord : List Sym}

theorem loop_tinv (ht : TermsBelow G nT) :
    ∀ (n : Nat) {st st' : CState}, TInv G nT st → loop G nT ord n st = some st' → TInv G nT st'
  | 0, _, _, _, h => by simp [Cons.loop] at h
  | n + 1, st, st', ht0, h => by
    simp only [Cons.loop] at h
    split at h
    · cases h; exact ht0
    · obtain ⟨st1, h1, ht1, _, _⟩ := RInv.procRound (ord := ord) ht ht0
      simp only [h1] at h
      exact loop_tinv ht n ht1 h

/-- `construct` can only succeed when there is a terminal (EOF). -/
theorem nT_pos_of_initState {st0 : CState} {pr0 : Prod} {S : Nat}
    (hp0 : G.prods[0]? = some pr0) (hrhs : pr0.rhs = [.n S]) (h : initState G nT = some st0) :
    0 < nT := by
  unfold initState closureGo at h
  by_cases hn : nT = 0
  · subst hn
    have : ([(⟨0, 0, 0⟩ : Item)].any (itemPanics G 0)) = true := by
      simp [itemPanics, hp0, hrhs]
    simp [this] at h
  · omega

theorem initState_tinv (ht : TermsBelow G nT) {st0 : CState} {pr0 : Prod} {S : Nat}
    (hp0 : G.prods[0]? = some pr0) (hrhs : pr0.rhs = [.n S]) (h : initState G nT = some st0) :
    TInv G nT st0 := by
  have hnT := nT_pos_of_initState hp0 hrhs h
  obtain ⟨hinv, _, _⟩ := initState_inv ht h
  refine ⟨hinv, ?_⟩
  unfold initState at h
  cases hI0 : closureGo G nT [⟨0, 0, 0⟩] with
  | none => simp [hI0] at h
  | some I0 =>
    simp only [hI0, Option.some.injEq] at h
    subst h
    have hwf0 : ∀ x ∈ [(⟨0, 0, 0⟩ : Item)], WfItem G nT x := by
      intro x hx
      simp only [List.mem_singleton] at hx
      subst hx
      exact ⟨pr0, hp0, Nat.zero_le _, hnT⟩
    have hcl := closureGo_some hI0
    have spec := closureLoop_spec (exactTab_firstSets ht) _
      (loopInv_init G (firstSets G nT) [⟨0, 0, 0⟩]) hcl
    constructor
    · intro i I hi
      cases i with
      | zero =>
        simp only [List.getElem?_cons_zero, Option.some.injEq] at hi
        subst hi
        exact ⟨closure_nodup hcl, fun x hx => wf_closureOf ht hwf0 ((spec x).mp hx)⟩
      | succ n => simp at hi
    · intro k hk; exact hk

theorem built_of_construct (ht : TermsBelow G nT) (hord : OrdCovers G ord) {pr0 : Prod} {S : Nat}
    (hp0 : G.prods[0]? = some pr0) (hrhs : pr0.rhs = [.n S]) {st : CState}
    (h : construct G nT ord = some st) : Built G nT st := by
  have hinv := construct_inv ht h
  obtain ⟨hb, hp⟩ := construct_between ht hord h
  refine ⟨hinv, ?_, closed_of_between ht hb hp⟩
  unfold construct constructWith at h
  cases hi : initState G nT with
  | none => simp [hi] at h
  | some st0 =>
    simp only [hi] at h
    exact (loop_tinv ht _ (initState_tinv ht hp0 hrhs hi) h).wf

end

/-! ### Shape facts -/

section
variable {G : Grammar} {nT : Nat} {st : CState}

theorem Built.item_wf (hb : Built G nT st) {s : Nat} {I : List Item} (hs : st.states[s]? = some I)
    {it : Item} (hit : it ∈ I) : ∃ pr, G.prods[it.p]? = some pr ∧ it.d ≤ pr.rhs.length ∧ it.a < nT :=
  (hb.wf.items s I hs).2 it hit

theorem Built.lr1 (hb : Built G nT st) {s : Nat} {I : List Item} (hs : st.states[s]? = some I)
    {it : Item} (hit : it ∈ I) : ∃ γ, Path (skelOf st) 0 γ s ∧ LR1Item G γ it :=
  hb.inv.sound s I it hs hit

/-- Items of production 0 carry the lookahead EOF. -/
theorem Built.p0_la (hb : Built G nT st) (hns : NoStart G) {s : Nat} {I : List Item}
    (hs : st.states[s]? = some I) {it : Item} (hit : it ∈ I) (hp : it.p = 0) : it.a = 0 := by
  obtain ⟨γ, _, hl⟩ := hb.lr1 hs hit
  exact (lr1_p0 hns hl hp).1

/-- `S' → ·S` lives only in state 0. -/
theorem Built.startOnly (hb : Built G nT st) (hns : NoStart G) {s : Nat} {I : List Item}
    (hs : st.states[s]? = some I) {it : Item} (hit : it ∈ I) (hp : it.p = 0) (hd : it.d = 0) :
    s = 0 := by
  obtain ⟨γ, hpath, hl⟩ := hb.lr1 hs hit
  have := (lr1_p0 hns hl hp).2 hd
  subst this
  exact hpath.nil_inv

/-- A kernel core of `Goto(I, X)` other than a production-0 core is an advanced item of `I`. -/
theorem kc_advance {I : List Item} {X : Sym} {p d : Nat} (h : KC G I X (p, d)) (hd : 0 < d) :
    ∃ it ∈ I, afterDot G it = some X ∧ it.p = p ∧ it.d + 1 = d := by
  obtain ⟨x, hx, _, he⟩ := h
  have hp' : x.p = p := congrArg Prod.fst he
  have hd' : x.d = d := congrArg Prod.snd he
  subst hp' hd'
  cases hx with
  | base hm =>
    obtain ⟨it, hit, had, rfl⟩ := mem_advance.mp hm
    exact ⟨it, hit, had, rfl, rfl⟩
  | step _ hr =>
    obtain ⟨_, _, _, _, _, _, _, hd0, _⟩ := hr
    omega

/-- The core `(0, 0)` is never a kernel core of a `Goto`. -/
theorem kc_not_start (hns : NoStart G) {I : List Item} {X : Sym} : ¬ KC G I X (0, 0) := by
  rintro ⟨x, hx, _, he⟩
  have hp : x.p = 0 := congrArg Prod.fst he
  have hd : x.d = 0 := congrArg Prod.snd he
  cases hx with
  | base hm =>
    obtain ⟨it, _, _, rfl⟩ := mem_advance.mp hm
    simp at hd
  | @step it0 _ _ hr =>
    obtain ⟨pr, B, qr, hpr, hX, hq, hl, _, _⟩ := hr
    rw [hp] at hq
    have := hns it0.p pr qr hpr hq
    rw [hl] at this
    exact this (List.mem_of_getElem? hX)

/-- No transition leads into state 0. -/
theorem Built.noInto0 (hb : Built G nT st) (hns : NoStart G) (s : Nat) (X : Sym) :
    lookupSym X (st.trans[s]?.getD []) ≠ some 0 := by
  intro h
  obtain ⟨I, J, _, hJ, hk⟩ := hb.inv.tgt s X 0 h
  obtain ⟨I0, hI0, hmem⟩ := hb.inv.start
  rw [hI0] at hJ
  cases hJ
  exact kc_not_start hns ((hk (0, 0)).mpr ⟨⟨0, 0, 0⟩, hmem, rfl, rfl⟩)

/-- State 0 holds only dot-0 items. -/
theorem Built.s0 (hb : Built G nT st) (hns : NoStart G) {I : List Item}
    (hs : st.states[0]? = some I) {it : Item} (hit : it ∈ I) : it.d = 0 := by
  obtain ⟨γ, hpath, hl⟩ := hb.lr1 hs hit
  by_cases hd : it.d = 0
  · exact hd
  · exfalso
    obtain ⟨γ', X, rfl⟩ := lr1_dotpos hl (by omega)
    obtain ⟨s1, _, htr⟩ := hpath.snoc_inv
    rw [trans_skelOf] at htr
    exact hb.noInto0 hns s1 X htr

/-- Predecessors: the target of a transition exists, and each of its dot>0 items has the edge
symbol before the dot and its predecessor core in the source state. -/
theorem Built.back (hb : Built G nT st) {s : Nat} {X : Sym} {t : Nat}
    (h : lookupSym X (st.trans[s]?.getD []) = some t) :
    ∃ I J, st.states[s]? = some I ∧ st.states[t]? = some J ∧
      ∀ it ∈ J, 0 < it.d → ∃ pr, G.prods[it.p]? = some pr ∧ pr.rhs[it.d - 1]? = some X ∧
        ∃ a', (⟨it.p, it.d - 1, a'⟩ : Item) ∈ I := by
  obtain ⟨I, J, hI, hJ, hk⟩ := hb.inv.tgt s X t h
  refine ⟨I, J, hI, hJ, ?_⟩
  intro it hit hd
  have hkj : KJ J (it.p, it.d) := ⟨it, hit, by simp [isKernel]; omega, rfl⟩
  obtain ⟨it0, hit0, had, hp, hd'⟩ := kc_advance ((hk _).mpr hkj) hd
  obtain ⟨pr, hpr, hX⟩ := afterDot_eq.mp had
  refine ⟨pr, by rw [← hp]; exact hpr, ?_, it0.a, ?_⟩
  · have : it.d - 1 = it0.d := by omega
    rw [this]; exact hX
  · have : it.d - 1 = it0.d := by omega
    rw [this, ← hp]
    exact hit0

/-- Goto along the recorded transitions. -/
theorem Built.step (hb : Built G nT st) {s : Nat} {I : List Item} (hs : st.states[s]? = some I)
    {it : Item} (hit : it ∈ I) {pr : Prod} (hp : G.prods[it.p]? = some pr) {X : Sym}
    (hX : pr.rhs[it.d]? = some X) :
    ∃ t J, lookupSym X (st.trans[s]?.getD []) = some t ∧ st.states[t]? = some J ∧
      (⟨it.p, it.d + 1, it.a⟩ : Item) ∈ J := by
  have hm : it ∈ (skelOf st).items s := by rw [items_skelOf, hs]; exact hit
  obtain ⟨t, htr, hmem⟩ := hb.closed.step s it pr X hm hp hX
  rw [trans_skelOf] at htr
  rw [items_skelOf] at hmem
  cases hJ : st.states[t]? with
  | none => simp [hJ] at hmem
  | some J =>
    simp only [hJ, Option.getD_some] at hmem
    exact ⟨t, J, htr, hJ, hmem⟩

/-- Closure w.r.t. the semantic FIRST. -/
theorem Built.closure (hb : Built G nT st) {s : Nat} {I : List Item} (hs : st.states[s]? = some I)
    {it : Item} (hit : it ∈ I) {pr : Prod} (hp : G.prods[it.p]? = some pr) {B : Nat}
    (hX : pr.rhs[it.d]? = some (.n B)) {q : Nat} {qr : Prod} (hq : G.prods[q]? = some qr)
    (hl : qr.lhs = B) {b : Nat} (hf : First G (pr.rhs.drop (it.d + 1)) it.a b) :
    (⟨q, 0, b⟩ : Item) ∈ I := by
  have hm : it ∈ (skelOf st).items s := by rw [items_skelOf, hs]; exact hit
  have := hb.closed.closure s it pr B q qr b hm hp hX hq hl hf
  rw [items_skelOf, hs] at this
  exact this

/-- The rule of every dot-0 item (other than `S' → ·S`) stands after a dot in the same state, so
it has a goto. -/
theorem Built.gotoDef (hb : Built G nT st) {s : Nat} {I : List Item} (hs : st.states[s]? = some I)
    {it : Item} (hit : it ∈ I) (hd : it.d = 0) (hp : it.p ≠ 0) {qr : Prod}
    (hq : G.prods[it.p]? = some qr) :
    ∃ t, lookupSym (.n qr.lhs) (st.trans[s]?.getD []) = some t ∧
      ∃ (p : Nat) (pr : Prod) (d : Nat), G.prods[p]? = some pr ∧ pr.rhs[d]? = some (Sym.n qr.lhs) := by
  obtain ⟨γ, hpath, hl⟩ := hb.lr1 hs hit
  obtain ⟨q, d0, b⟩ := it
  simp only at hd hp hq
  subst hd
  obtain ⟨p, d, a, pr, qr', hpar, hpr, hq', hX⟩ := lr1_dot0 hl hp
  rw [hq] at hq'
  cases hq'
  -- the parent is an LALR(1) item of `s`, hence in the state
  have hmem : (⟨p, d, a⟩ : Item) ∈ (skelOf st).items s := LALRItem.mem hb.closed ⟨γ, hpath, hpar⟩
  rw [items_skelOf, hs] at hmem
  obtain ⟨t, _, htr, _, _⟩ := hb.step hs hmem hpr hX
  exact ⟨t, htr, p, pr, d, hpr, hX⟩

end

end Lox.LR.Emit
