import Lox.LR.VerdictE2ECells
import Lox.LR.EmitProofsTotal
/-! `conflictFreeB` (the model's "every cell `createActions` builds holds exactly one action", the
hypothesis of `Lox.Props.C01.generator_valid`) on the table of the generator model is equivalent to
"no cell of the LALR(1) automaton BY DEFINITION has two different candidate actions"
(`conflictFreeB_iff`), for all well-formed grammars. -/
namespace Lox.LR.Emit
open Lox.LR Lox.LR.Gen Lox.LR.Cons
open Lox.Dec (Action ProdInfo)

theorem want_ne_panic {G : Grammar} {nT : Nat} {tr : Nat → Option Nat} {it : Item} {pr : Prod}
    (hp : G.prods[it.p]? = some pr) (hd : it.d ≤ pr.rhs.length) (hla : it.a < nT)
    (htr : ∀ x, pr.rhs[it.d]? = some (.t x) → tr x ≠ none) : want G nT tr it ≠ .panic := by
  unfold want
  simp only [hp]
  split
  · split
    · omega
    · split <;> simp
  · next hne =>
    cases hX : pr.rhs[it.d]? with
    | none =>
      have := List.getElem?_eq_none_iff.mp hX
      omega
    | some X =>
      cases X with
      | n B => simp
      | t x =>
        cases hx : tr x with
        | none => exact absurd hx (htr x hX)
        | some s => simp [hx]

section
variable {G : Grammar} {nT nR : Nat} {tr : TransTab} {cert : Array (List Item)}

/-- `createActions` does not panic on a state of a table that satisfies `SkelOK`. -/
theorem actionsOf_some_of_skelOK (h : SkelOK G nT nR tr cert) (s : Nat) :
    ∃ cells, actionsOf G nT (trTerm tr s) (itemsOf cert s) = some cells := by
  unfold actionsOf
  have hany : (itemsOf cert s).any (fun it => want G nT (trTerm tr s) it == .panic) = false := by
    rw [List.any_eq_false]
    intro it hit
    obtain ⟨pr, hp, hok⟩ := h.items s it hit
    have : want G nT (trTerm tr s) it ≠ .panic := by
      refine want_ne_panic hp hok.dot hok.la fun x hX => ?_
      obtain ⟨s', hl, _⟩ := hok.step _ hX
      simp [trTerm, hl]
    simpa using this
  rw [hany]
  simp only [Bool.false_eq_true, if_false]
  apply mapM_isSome
  intro a _
  obtain ⟨cell, hcell, _⟩ := cellOn_spec (h.la_lt s) (h.tr_some s) a
  exact ⟨(a, cell), by simp [hcell]⟩

end

section
variable {G : Grammar} {nT nR : Nat} {ord : List Sym} {st : CState}

/-- **Conflict-free in the model = conflict-free by definition.** -/
theorem conflictFreeB_iff (hw : GrammarWf G nT nR) (hO : OrdOK nT nR ord)
    (hst : construct G nT ord = some st) :
    conflictFreeB G nT st = true ↔
      ∀ s a, ¬ Conflict G (skelOf st) (LALRItem G (skelOf st)) s a := by
  have ok := conflictOK_of_construct hw hO hst
  constructor
  · intro h s a hc
    obtain ⟨cell, hco, hcell, hne⟩ := ok.cellOf s a
    have hlen := hcell.conflict_iff.mpr hc
    obtain ⟨it, hit⟩ := hc.has_item
    have hs : s < st.states.length := by
      rw [← size_cert]
      exact mem_itemsOf ((ok.items_exact s it).mpr hit)
    obtain ⟨cells, hcells, hsingle⟩ := conflictFreeB_state h hs
    have ha := hne.mp (by intro e; rw [e] at hlen; simp at hlen)
    rw [itemsOf_cert] at hco ha
    have hl := (lookupCell_actionsOf hcells a cell).mpr ⟨ha, hco⟩
    have := hsingle (a, cell) (lookupCell_mem hl)
    simp only at this
    omega
  · intro h
    unfold conflictFreeB
    rw [List.all_eq_true]
    intro s _
    obtain ⟨cells, hcells⟩ := actionsOf_some_of_skelOK ok.skel s
    rw [itemsOf_cert] at hcells
    simp only [hcells, List.all_eq_true, beq_iff_eq]
    rintro ⟨a, c⟩ he
    obtain ⟨hk, hc⟩ := actionsOf_spec hcells
    have hat : a ∈ cellTerminals G nT (trTerm st.transTab s) (st.states[s]?.getD []) := by
      rw [← hk]
      exact List.mem_map.mpr ⟨(a, c), he, rfl⟩
    have hco := hc a c he
    obtain ⟨cell, hco', hcell, hne⟩ := ok.cellOf s a
    rw [itemsOf_cert] at hco' hne
    rw [hco] at hco'
    cases hco'
    have h0 : c ≠ [] := hne.mpr hat
    have h1 : ¬ 1 < c.length := fun hl => h s a (hcell.conflict_iff.mp hl)
    have : c.length ≠ 0 := fun e => h0 (List.length_eq_zero_iff.mp e)
    simp only
    omega

end

end Lox.LR.Emit
