import Lox.LR.Desugar
/-! # Specification: the documented reading of `?`, `*`, `*!`, `+`, `@list` (docs/markdown/parser_reference.md)

`SDer SG ts w`: the sequence of terms `ts` of the sugar grammar `SG` derives the token string `w`
(terminal numbers: EOF = 0, ERROR = 1, i-th declared token = i + 2). No helper rules, no numbering:
this is the statement the desugaring is measured against (`Lox.Props.C01.sugar_lang`). -/
namespace Lox.LR

inductive SDer (SG : SGrammar) : List STerm → List Nat → Prop where
  /-- the empty sequence derives the empty string -/
  | nil : SDer SG [] []
  /-- a sequence derives the concatenation of what its terms derive -/
  | cons {t t' ts w1 w2} : SDer SG [t] w1 → SDer SG (t' :: ts) w2 → SDer SG (t :: t' :: ts) (w1 ++ w2)
  /-- a token derives itself -/
  | tok (a : Nat) : SDer SG [.atom (.tok a)] [a + 2]
  /-- `@error` is the terminal ERROR -/
  | err : SDer SG [.atom .err] [1]
  /-- a rule derives what one of its productions derives -/
  | rule {A r p w} : SG.rules[A]? = some r → p ∈ r.prods → SDer SG p.terms w →
      SDer SG [.atom (.rule A)] w
  /-- `x?`: zero or one `x` -/
  | optNone (x : Atom) : SDer SG [.opt x] []
  | optSome {x w} : SDer SG [.atom x] w → SDer SG [.opt x] w
  /-- `x*`: zero or more `x` -/
  | star {x} (ws : List (List Nat)) : (∀ v ∈ ws, SDer SG [.atom x] v) → SDer SG [.star x] ws.flatten
  /-- `x*!`: the same language as `x*` (the `!` only filters the VALUE, see C03) -/
  | starF {x} (ws : List (List Nat)) : (∀ v ∈ ws, SDer SG [.atom x] v) → SDer SG [.starF x] ws.flatten
  /-- `x+`: one or more `x` -/
  | plus {x} (ws : List (List Nat)) : ws ≠ [] → (∀ v ∈ ws, SDer SG [.atom x] v) →
      SDer SG [.plus x] ws.flatten
  /-- `@list(x, s)`: `x (s x)*` -/
  | list {x s} (v : List Nat) (ws : List (List Nat × List Nat)) : SDer SG [.atom x] v →
      (∀ p ∈ ws, SDer SG [.atom s] p.1) → (∀ p ∈ ws, SDer SG [.atom x] p.2) →
      SDer SG [.list x s] (v ++ (ws.map fun p => p.1 ++ p.2).flatten)
  /-- `@list(x, s)?`: that, or nothing -/
  | listOptNone (x s : Atom) : SDer SG [.listOpt x s] []
  | listOptSome {x s w} : SDer SG [.list x s] w → SDer SG [.listOpt x s] w

end Lox.LR
