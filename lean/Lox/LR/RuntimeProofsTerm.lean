import Lox.LR.RuntimeProofs
/-! C09-1 (c): `_recover()` itself terminates – the ERROR skipping and the token dropping are
bounded by the input, the stack search by the stack; the inner simulation (reductions on ERROR
followed without popping) terminates when the graph `st ↦ goto(st, lhs(reduce(st, ERROR)))` has a
ranking function. -/
namespace Lox.LR.Rt

theorem readToken_nu {T : Tables} {inp : Array Nat} {s s' : PState}
    (h : readToken T inp s = .ok s') :
    nu inp s' + 1 ≤ nu inp s ∨ (nu inp s' ≤ nu inp s ∧ s'.la = tEOF) := by
  rw [readToken_eq] at h
  split at h
  · rename_i hq
    cases h
    left
    simp only [nu, hq, ne_eq, not_true_eq_false, not_false_eq_true, if_true, if_false]
    omega
  · rename_i hq
    have hq' : s.qla = -1 := Decidable.not_not.mp hq
    have key : nu inp (afterLex inp s) + 1 ≤ nu inp s ∨
        (nu inp (afterLex inp s) ≤ nu inp s ∧ (afterLex inp s).la = tEOF) := by
      simp only [nu, afterLex, hq']
      by_cases hp : s.pos < inp.size
      · left; simp only [hp, if_true]; omega
      · right
        simp only [hp, if_false]
        refine ⟨Nat.le_refl _, ?_⟩
        unfold lexRead
        rw [Array.getElem?_eq_none (by omega)]
        rfl
    split at h
    · split at h
      · cases h
      · cases h; exact key
    · cases h; exact key

theorem readToken_nu_le {T : Tables} {inp : Array Nat} {s s' : PState}
    (h : readToken T inp s = .ok s') : nu inp s' ≤ nu inp s := by
  rcases readToken_nu h with h | h <;> omega

theorem Reads.nu_le {T : Tables} {inp : Array Nat} {a b : PState} (h : Reads T inp a b) :
    nu inp b ≤ nu inp a := by
  induction h with
  | refl => exact Nat.le_refl _
  | step h _ ih => have := readToken_nu_le h; omega

/-- `for p._la == ERROR { p._readToken() }` ends within `nu + 2` iterations. -/
theorem skipErrors_terminates {T : Tables} {inp : Array Nat} :
    ∀ (n : Nat) (s : PState), (nu inp s + 2 ≤ n ∨ (s.la ≠ tERROR ∧ 1 ≤ n)) →
      skipErrors T inp n s ≠ .ok none
  | 0, s, h => by omega
  | n + 1, s, h => by
    unfold skipErrors
    split
    · rename_i hla
      have h' : nu inp s + 2 ≤ n + 1 := by
        rcases h with h | h
        · exact h
        · exact absurd hla h.1
      cases hr : readToken T inp s with
      | error w => simp [bind, Except.bind]
      | ok s1 =>
        simp only [bind, Except.bind]
        apply skipErrors_terminates n s1
        rcases readToken_nu hr with h1 | ⟨h1, h2⟩
        · left; omega
        · right
          refine ⟨?_, by omega⟩
          rw [h2]; decide
    · intro hc; cases hc

theorem searchStack_no_timeout {T : Tables} {la : Int} {fuel : Nat} :
    ∀ (st : List Entry), (∀ e ∈ st, simulate T la fuel e.state ≠ .timeout) →
      searchStack T la fuel st ≠ .error "TIMEOUT"
  | [], _ => by simp [searchStack]
  | e :: rest, hsim => by
    unfold searchStack
    cases hs : simulate T la fuel e.state with
    | found => simp
    | notFound =>
      exact searchStack_no_timeout rest (fun x hx => hsim x (List.mem_cons_of_mem _ hx))
    | oob => simp
    | timeout => exact absurd hs (hsim e List.mem_cons_self)

/-- The outer loop of `_recover` ends within `nu + 2` iterations (it stops at EOF). -/
theorem recoverLoop_terminates {T : Tables} {inp : Array Nat} {errSym : Val} {fuel : Nat}
    {stk : List Entry} (hsim : ∀ la, ∀ e ∈ stk, simulate T la fuel e.state ≠ .timeout) :
    ∀ (n : Nat) (s : PState), s.stack = stk → (nu inp s + 2 ≤ n ∨ (s.la = tEOF ∧ 1 ≤ n)) →
      recoverLoop T inp errSym fuel n s ≠ .timeout
  | 0, s, _, h => by omega
  | n + 1, s, hstk, h => by
    unfold recoverLoop
    split
    · rename_i hs
      exact absurd hs (searchStack_no_timeout s.stack (by rw [hstk]; exact hsim s.la))
    · intro hc; cases hc
    · intro hc; cases hc
    · split
      · intro hc; cases hc
      · rename_i hla
        have h' : nu inp s + 2 ≤ n + 1 := by
          rcases h with h | h
          · exact h
          · exact absurd h.1 hla
        split
        · intro hc; cases hc
        · rename_i s1 hr
          apply recoverLoop_terminates hsim n s1 (by rw [(readToken_frame hr).stack]; exact hstk)
          rcases readToken_nu hr with h1 | ⟨h1, h2⟩
          · left; omega
          · right; exact ⟨h2, by omega⟩

/-- **recover_terminates** (stack-restricted form). `_recover()` does not run out of fuel when the
fuel covers the rest of the input (+3) and the inner simulation, started from any state on the
stack, terminates within the same fuel. -/
theorem recover_terminates' {T : Tables} {inp : Array Nat} {fuel : Nat} {s : PState}
    (hsim : ∀ la, ∀ e ∈ s.stack, simulate T la fuel e.state ≠ .timeout)
    (hfuel : inp.size - s.pos + 3 ≤ fuel) :
    recover T inp fuel s ≠ .timeout := by
  have hnu : nu inp s + 2 ≤ fuel := by
    unfold nu; split <;> omega
  rw [recover_eq]
  cases he : errSymOf T s with
  | error w => intro hc; cases hc
  | ok errSym =>
    dsimp only
    unfold recoverBody
    have h1 := skipErrors_terminates (T := T) (inp := inp) fuel s (.inl hnu)
    cases hs1 : skipErrors T inp fuel s with
    | error w => intro hc; cases hc
    | ok o =>
      cases o with
      | none => exact absurd hs1 h1
      | some s1 =>
        dsimp only
        have hr1 := (skipErrors_ok fuel hs1).1
        have hn1 : nu inp s1 ≤ nu inp s := hr1.nu_le
        have hst1 : s1.stack = s.stack := hr1.frame.stack
        cases hrec : s1.recovering with
        | false =>
          simp only [Bool.false_eq_true, if_false]
          exact recoverLoop_terminates hsim fuel s1 hst1 (.inl (by omega))
        | true =>
          simp only [if_true]
          by_cases hE : s1.la = tEOF
          · simp only [hE, if_true]; intro hc; cases hc
          · simp only [hE, if_false]
            cases hr : readToken T inp s1 with
            | error w => intro hc; cases hc
            | ok s2 =>
              dsimp only
              have hn2 := readToken_nu_le hr
              have hst2 : s2.stack = s.stack := (readToken_frame hr).stack.trans hst1
              have h3 := skipErrors_terminates (T := T) (inp := inp) fuel s2 (.inl (by omega))
              cases hs3 : skipErrors T inp fuel s2 with
              | error w => intro hc; cases hc
              | ok o =>
                cases o with
                | none => exact absurd hs3 h3
                | some s3 =>
                  dsimp only
                  have hr3 := (skipErrors_ok fuel hs3).1
                  have hn3 : nu inp s3 ≤ nu inp s2 := hr3.nu_le
                  exact recoverLoop_terminates hsim fuel s3 (hr3.frame.stack.trans hst2)
                    (.inl (by omega))

/-- **recover_terminates.** `_recover()` does not run out of fuel when the fuel covers the rest
of the input (+3) and the inner simulation terminates within the same fuel. -/
theorem recover_terminates {T : Tables} {inp : Array Nat} {fuel : Nat} {s : PState}
    (hsim : ∀ la st, simulate T la fuel st ≠ .timeout) (hfuel : inp.size - s.pos + 3 ≤ fuel) :
    recover T inp fuel s ≠ .timeout :=
  recover_terminates' (fun la e _ => hsim la e.state) hfuel

/-! ## The inner simulation -/

/-- The inner loop of `_recover` terminates within `rank st + 1` iterations when `rank` strictly
decreases along the edges it follows. -/
theorem simulate_rank {T : Tables} {la : Int} (rank : Int → Nat)
    (hr : ∀ st st', simNext T st = some st' → rank st' < rank st) :
    ∀ (n : Nat) (st : Int), rank st < n → simulate T la n st ≠ .timeout
  | 0, st, h => by omega
  | n + 1, st, h => by
    unfold simulate
    cases hf : find T.actions st tERROR with
    | oob => intro hc; cases hc
    | miss => intro hc; cases hc
    | hit action =>
      dsimp only
      by_cases hneg : action < 0
      · simp only [hneg, if_true]
        cases hg : geti T.rules (-action) with
        | none => intro hc; cases hc
        | some rule =>
          dsimp only
          cases hgo : find T.gotos st rule with
          | oob => intro hc; cases hc
          | miss => intro hc; cases hc
          | hit st' =>
            have : simNext T st = some st' := by simp [simNext, hf, hneg, hg, hgo]
            have := hr _ _ this
            exact simulate_rank rank hr n st' (by omega)
      · simp only [hneg, if_false]
        split <;> (intro hc; cases hc)

theorem find_oob_of_geti_none {tbl : Array Int} {y x : Int} (h : geti tbl y = none) :
    find tbl y x = .oob := by
  unfold find; rw [h]

theorem simNext_out_of_range {T : Tables} {st : Int} (h : st < 0 ∨ (T.actions.size : Int) ≤ st) :
    simNext T st = none := by
  have : geti T.actions st = none := by
    unfold geti
    split
    · rfl
    · rw [Array.getElem?_eq_none]; omega
  unfold simNext
  rw [find_oob_of_geti_none this]

/-- Soundness of the checker `simRankOK` (run over all indices of `_actions`). -/
theorem simRankOK_sound {T : Tables} {rank : Int → Nat}
    (h : simRankOK T rank T.actions.size = true) :
    ∀ st st', simNext T st = some st' → rank st' < rank st := by
  intro st st' hs
  by_cases hrange : st < 0 ∨ (T.actions.size : Int) ≤ st
  · rw [simNext_out_of_range hrange] at hs; cases hs
  · have hk : st.toNat < T.actions.size := by omega
    have hst : ((st.toNat : Nat) : Int) = st := by omega
    have := List.all_eq_true.mp h st.toNat (List.mem_range.mpr hk)
    rw [hst, hs] at this
    exact of_decide_eq_true this

/-- **recover_terminates, closed form.** With a checked ranking of the simulation graph bounded
by `B`, `_recover()` never runs out of fuel once `fuel ≥ max (B + 1) (remaining input + 3)`. -/
theorem recover_terminates_of_rank {T : Tables} {inp : Array Nat} {fuel : Nat} {s : PState}
    (rank : Int → Nat) (B : Nat) (hB : ∀ st, rank st ≤ B)
    (hOK : simRankOK T rank T.actions.size = true)
    (hfuel1 : B + 1 ≤ fuel) (hfuel2 : inp.size - s.pos + 3 ≤ fuel) :
    recover T inp fuel s ≠ .timeout :=
  recover_terminates
    (fun la st => simulate_rank rank (simRankOK_sound hOK) fuel st (by have := hB st; omega)) hfuel2

/-! ## Fuel monotonicity: more fuel does not change a result that was not a timeout -/

theorem simulate_mono {T : Tables} {la : Int} : ∀ (n : Nat) {m : Nat} {st : Int},
    simulate T la n st ≠ .timeout → n ≤ m → simulate T la m st = simulate T la n st
  | 0, _, _, h, _ => by simp [simulate] at h
  | n + 1, m, st, h, hle => by
    obtain ⟨m', rfl⟩ : ∃ m', m = m' + 1 := ⟨m - 1, by omega⟩
    unfold simulate at h ⊢
    cases hf : find T.actions st tERROR with
    | oob => rfl
    | miss => rfl
    | hit action =>
      simp only [hf] at h ⊢
      by_cases hneg : action < 0
      · simp only [hneg, if_true] at h ⊢
        cases hg : geti T.rules (-action) with
        | none => rfl
        | some rule =>
          simp only [hg] at h ⊢
          cases hgo : find T.gotos st rule with
          | oob => rfl
          | miss => rfl
          | hit st' => simp only [hgo] at h ⊢; exact simulate_mono n h (by omega)
      · simp only [hneg, if_false]

theorem searchStack_mono {T : Tables} {la : Int} {n m : Nat} (hle : n ≤ m) :
    ∀ (st : List Entry), searchStack T la n st ≠ .error "TIMEOUT" →
      searchStack T la m st = searchStack T la n st
  | [], _ => rfl
  | e :: rest, h => by
    unfold searchStack at h ⊢
    have hs : simulate T la n e.state ≠ .timeout := by
      intro hc; rw [hc] at h; exact h rfl
    rw [simulate_mono n hs hle]
    cases hsim : simulate T la n e.state with
    | found => rfl
    | notFound =>
      rw [hsim] at h
      exact searchStack_mono hle rest h
    | oob => rfl
    | timeout => exact absurd hsim hs

theorem skipErrors_mono {T : Tables} {inp : Array Nat} : ∀ (n : Nat) {m : Nat} {s : PState},
    skipErrors T inp n s ≠ .ok none → n ≤ m → skipErrors T inp m s = skipErrors T inp n s
  | 0, _, _, h, _ => by simp [skipErrors] at h
  | n + 1, m, s, h, hle => by
    obtain ⟨m', rfl⟩ : ∃ m', m = m' + 1 := ⟨m - 1, by omega⟩
    unfold skipErrors at h ⊢
    split
    · rename_i hla
      simp only [hla, if_true] at h
      cases hr : readToken T inp s with
      | error w => rfl
      | ok s1 =>
        simp only [hr, bind, Except.bind] at h ⊢
        exact skipErrors_mono n h (by omega)
    · rfl

theorem recoverLoop_mono {T : Tables} {inp : Array Nat} {errSym : Val} {fuel fuel' : Nat}
    (hf : fuel ≤ fuel') : ∀ (n : Nat) {m : Nat} {s : PState},
    recoverLoop T inp errSym fuel n s ≠ .timeout → n ≤ m →
      recoverLoop T inp errSym fuel' m s = recoverLoop T inp errSym fuel n s
  | 0, _, _, h, _ => by simp [recoverLoop] at h
  | n + 1, m, s, h, hle => by
    obtain ⟨m', rfl⟩ : ∃ m', m = m' + 1 := ⟨m - 1, by omega⟩
    unfold recoverLoop at h ⊢
    have hs : searchStack T s.la fuel s.stack ≠ .error "TIMEOUT" := by
      intro hc; rw [hc] at h; exact h rfl
    rw [searchStack_mono hf s.stack hs]
    cases hss : searchStack T s.la fuel s.stack with
    | error w =>
      by_cases hw : w = "TIMEOUT"
      · subst hw; rfl
      · split <;> simp_all
    | ok o =>
      cases o with
      | some st => rfl
      | none =>
        simp only [hss] at h ⊢
        split
        · rfl
        · cases hr : readToken T inp s with
          | error w => rfl
          | ok s1 =>
            rename_i hla
            simp only [hla, if_false, hr] at h ⊢
            exact recoverLoop_mono hf n h (by omega)

/-- `_recover()` with more fuel returns the same result, unless it had run out of fuel. -/
theorem recover_mono {T : Tables} {inp : Array Nat} {fuel fuel' : Nat} {s : PState}
    (h : recover T inp fuel s ≠ .timeout) (hf : fuel ≤ fuel') :
    recover T inp fuel' s = recover T inp fuel s := by
  rw [recover_eq] at h ⊢
  rw [recover_eq]
  cases he : errSymOf T s with
  | error w => rfl
  | ok e =>
    simp only [he] at h ⊢
    unfold recoverBody at h ⊢
    have h1 : skipErrors T inp fuel s ≠ .ok none := by
      intro hc; rw [hc] at h; exact h rfl
    rw [skipErrors_mono fuel h1 hf]
    cases hs1 : skipErrors T inp fuel s with
    | error w => rfl
    | ok o =>
      cases o with
      | none => exact absurd hs1 h1
      | some s1 =>
        simp only [hs1] at h ⊢
        cases hrec : s1.recovering with
        | false =>
          simp only [hrec, Bool.false_eq_true, if_false] at h ⊢
          exact recoverLoop_mono hf fuel h hf
        | true =>
          simp only [hrec, if_true] at h ⊢
          by_cases hE : s1.la = tEOF
          · simp only [hE, if_true]
          · simp only [hE, if_false] at h ⊢
            cases hr : readToken T inp s1 with
            | error w => rfl
            | ok s2 =>
              simp only [hr] at h ⊢
              have h3 : skipErrors T inp fuel s2 ≠ .ok none := by
                intro hc; rw [hc] at h; exact h rfl
              rw [skipErrors_mono fuel h3 hf]
              cases hs3 : skipErrors T inp fuel s2 with
              | error w => rfl
              | ok o =>
                cases o with
                | none => exact absurd hs3 h3
                | some s3 =>
                  simp only [hs3] at h ⊢
                  exact recoverLoop_mono hf fuel h hf

/-- One iteration of `parse` with more fuel for `_recover`. -/
theorem step_mono {T : Tables} {inp : Array Nat} {wb : Bool} {fuel fuel' : Nat} {s : PState}
    (h : recover T inp fuel s ≠ .timeout) (hf : fuel ≤ fuel') :
    step T inp wb fuel' s = step T inp wb fuel s := by
  unfold step
  rw [recover_mono h hf]

/-- The loop of `parse` with more fuel for `_recover`, when `_recover` never times out on the
states satisfying an invariant of the loop. -/
theorem runLoop_mono_inv {T : Tables} {inp : Array Nat} {wb : Bool} {fuel fuel' : Nat}
    (Inv : PState → Prop)
    (hstep : ∀ s s', Inv s → step T inp wb fuel s = .cont s' → Inv s')
    (h : ∀ s, Inv s → recover T inp fuel s ≠ .timeout) (hf : fuel ≤ fuel') :
    ∀ (n : Nat) (s : PState), Inv s → runLoop T inp wb fuel' n s = runLoop T inp wb fuel n s
  | 0, _, _ => rfl
  | n + 1, s, hs => by
    unfold runLoop
    rw [step_mono (h s hs) hf]
    cases hst : step T inp wb fuel s with
    | cont s' => exact runLoop_mono_inv Inv hstep h hf n s' (hstep s s' hs hst)
    | done o s' => rfl

/-- The loop of `parse` with more fuel for `_recover` (when `_recover` never times out). -/
theorem runLoop_mono {T : Tables} {inp : Array Nat} {wb : Bool} {fuel fuel' : Nat}
    (h : ∀ s, recover T inp fuel s ≠ .timeout) (hf : fuel ≤ fuel') :
    ∀ (n : Nat) (s : PState), runLoop T inp wb fuel' n s = runLoop T inp wb fuel n s :=
  fun n s => runLoop_mono_inv (fun _ => True) (fun _ _ _ _ => trivial) (fun s _ => h s) hf n s trivial

end Lox.LR.Rt
