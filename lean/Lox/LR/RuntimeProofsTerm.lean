import Lox.LR.RuntimeProofs
/-! C09-1 (c): `_recover()` itself terminates – the ERROR skipping and the token dropping are
bounded by the input, the stack search by the stack; the inner simulation (reductions on ERROR
followed without popping) terminates when the graph `st ↦ goto(st, lhs(reduce(st, ERROR)))` has a
ranking function. -/
namespace Lox.LR.Rt

theorem readToken_nu {T : Tables} {inp : Array Nat} {s s' : PState}
    (h : readToken T inp s = .ok s') :
    nu inp s' + 1 ≤ nu inp s ∨ (nu inp s' ≤ nu inp s ∧ s'.la = tEOF) := by
  rw [readToken_eq] at h
  split at h
  · rename_i hq
    cases h
    left
    simp only [nu, hq, ne_eq, not_true_eq_false, not_false_eq_true, if_true, if_false]
    omega
  · rename_i hq
    have hq' : s.qla = -1 := Decidable.not_not.mp hq
    have key : nu inp (afterLex inp s) + 1 ≤ nu inp s ∨
        (nu inp (afterLex inp s) ≤ nu inp s ∧ (afterLex inp s).la = tEOF) := by
      simp only [nu, afterLex, hq']
      by_cases hp : s.pos < inp.size
      · left; simp only [hp, if_true]; omega
      · right
        simp only [hp, if_false]
        refine ⟨Nat.le_refl _, ?_⟩
        unfold lexRead
        rw [Array.getElem?_eq_none (by omega)]
        rfl
    split at h
    · split at h
      · cases h
      · cases h; exact key
    · cases h; exact key

theorem readToken_nu_le {T : Tables} {inp : Array Nat} {s s' : PState}
    (h : readToken T inp s = .ok s') : nu inp s' ≤ nu inp s := by
  rcases readToken_nu h with h | h <;> omega

theorem Reads.nu_le {T : Tables} {inp : Array Nat} {a b : PState} (h : Reads T inp a b) :
    nu inp b ≤ nu inp a := by
  induction h with
  | refl => exact Nat.le_refl _
  | step h _ ih => have := readToken_nu_le h; omega

/-- `for p._la == ERROR { p._readToken() }` ends within `nu + 2` iterations. -/
theorem skipErrors_terminates {T : Tables} {inp : Array Nat} :
    ∀ (n : Nat) (s : PState), (nu inp s + 2 ≤ n ∨ (s.la ≠ tERROR ∧ 1 ≤ n)) →
      skipErrors T inp n s ≠ .ok none
  | 0, s, h => by omega
  | n + 1, s, h => by
    unfold skipErrors
    split
    · rename_i hla
      have h' : nu inp s + 2 ≤ n + 1 := by
        rcases h with h | h
        · exact h
        · exact absurd hla h.1
      cases hr : readToken T inp s with
      | error w => simp [bind, Except.bind]
      | ok s1 =>
        simp only [bind, Except.bind]
        apply skipErrors_terminates n s1
        rcases readToken_nu hr with h1 | ⟨h1, h2⟩
        · left; omega
        · right
          refine ⟨?_, by omega⟩
          rw [h2]; decide
    · intro hc; cases hc

theorem searchStack_no_timeout {T : Tables} {la : Int} {fuel : Nat}
    (hsim : ∀ st, simulate T la fuel st ≠ .timeout) :
    ∀ (st : List Entry), searchStack T la fuel st ≠ .error "TIMEOUT"
  | [] => by simp [searchStack]
  | e :: rest => by
    unfold searchStack
    cases hs : simulate T la fuel e.state with
    | found => simp
    | notFound => exact searchStack_no_timeout hsim rest
    | oob => simp
    | timeout => exact absurd hs (hsim _)

/-- The outer loop of `_recover` ends within `nu + 2` iterations (it stops at EOF). -/
theorem recoverLoop_terminates {T : Tables} {inp : Array Nat} {errSym : Val} {fuel : Nat}
    (hsim : ∀ la st, simulate T la fuel st ≠ .timeout) :
    ∀ (n : Nat) (s : PState), (nu inp s + 2 ≤ n ∨ (s.la = tEOF ∧ 1 ≤ n)) →
      recoverLoop T inp errSym fuel n s ≠ .timeout
  | 0, s, h => by omega
  | n + 1, s, h => by
    unfold recoverLoop
    split
    · rename_i hs
      exact absurd hs (searchStack_no_timeout (hsim s.la) s.stack)
    · intro hc; cases hc
    · intro hc; cases hc
    · split
      · intro hc; cases hc
      · rename_i hla
        have h' : nu inp s + 2 ≤ n + 1 := by
          rcases h with h | h
          · exact h
          · exact absurd h.1 hla
        split
        · intro hc; cases hc
        · rename_i s1 hr
          apply recoverLoop_terminates hsim n s1
          rcases readToken_nu hr with h1 | ⟨h1, h2⟩
          · left; omega
          · right; exact ⟨h2, by omega⟩

/-- **recover_terminates.** `_recover()` does not run out of fuel when the fuel covers the rest
of the input (+3) and the inner simulation terminates within the same fuel. -/
theorem recover_terminates {T : Tables} {inp : Array Nat} {fuel : Nat} {s : PState}
    (hsim : ∀ la st, simulate T la fuel st ≠ .timeout) (hfuel : inp.size - s.pos + 3 ≤ fuel) :
    recover T inp fuel s ≠ .timeout := by
  have hnu : nu inp s + 2 ≤ fuel := by
    unfold nu; split <;> omega
  rw [recover_eq]
  cases he : errSymOf T s with
  | error w => intro hc; cases hc
  | ok errSym =>
    dsimp only
    unfold recoverBody
    have h1 := skipErrors_terminates (T := T) (inp := inp) fuel s (.inl hnu)
    cases hs1 : skipErrors T inp fuel s with
    | error w => intro hc; cases hc
    | ok o =>
      cases o with
      | none => exact absurd hs1 h1
      | some s1 =>
        dsimp only
        have hn1 : nu inp s1 ≤ nu inp s := (skipErrors_ok fuel hs1).1.nu_le
        cases hrec : s1.recovering with
        | false =>
          simp only [Bool.false_eq_true, if_false]
          exact recoverLoop_terminates hsim fuel s1 (.inl (by omega))
        | true =>
          simp only [if_true]
          by_cases hE : s1.la = tEOF
          · simp only [hE, if_true]; intro hc; cases hc
          · simp only [hE, if_false]
            cases hr : readToken T inp s1 with
            | error w => intro hc; cases hc
            | ok s2 =>
              dsimp only
              have hn2 := readToken_nu_le hr
              have h3 := skipErrors_terminates (T := T) (inp := inp) fuel s2 (.inl (by omega))
              cases hs3 : skipErrors T inp fuel s2 with
              | error w => intro hc; cases hc
              | ok o =>
                cases o with
                | none => exact absurd hs3 h3
                | some s3 =>
                  dsimp only
                  have hn3 : nu inp s3 ≤ nu inp s2 := (skipErrors_ok fuel hs3).1.nu_le
                  exact recoverLoop_terminates hsim fuel s3 (.inl (by omega))

/-! ## The inner simulation -/

/-- The inner loop of `_recover` terminates within `rank st + 1` iterations when `rank` strictly
decreases along the edges it follows. -/
theorem simulate_rank {T : Tables} {la : Int} (rank : Int → Nat)
    (hr : ∀ st st', simNext T st = some st' → rank st' < rank st) :
    ∀ (n : Nat) (st : Int), rank st < n → simulate T la n st ≠ .timeout
  | 0, st, h => by omega
  | n + 1, st, h => by
    unfold simulate
    cases hf : find T.actions st tERROR with
    | oob => intro hc; cases hc
    | miss => intro hc; cases hc
    | hit action =>
      dsimp only
      by_cases hneg : action < 0
      · simp only [hneg, if_true]
        cases hg : geti T.rules (-action) with
        | none => intro hc; cases hc
        | some rule =>
          dsimp only
          cases hgo : find T.gotos st rule with
          | oob => intro hc; cases hc
          | miss =>
            have : simNext T st = some 0 := by simp [simNext, hf, hneg, hg, hgo]
            have := hr _ _ this
            exact simulate_rank rank hr n 0 (by omega)
          | hit st' =>
            have : simNext T st = some st' := by simp [simNext, hf, hneg, hg, hgo]
            have := hr _ _ this
            exact simulate_rank rank hr n st' (by omega)
      · simp only [hneg, if_false]
        split <;> (intro hc; cases hc)

theorem find_oob_of_geti_none {tbl : Array Int} {y x : Int} (h : geti tbl y = none) :
    find tbl y x = .oob := by
  unfold find; rw [h]

theorem simNext_out_of_range {T : Tables} {st : Int} (h : st < 0 ∨ (T.actions.size : Int) ≤ st) :
    simNext T st = none := by
  have : geti T.actions st = none := by
    unfold geti
    split
    · rfl
    · rw [Array.getElem?_eq_none]; omega
  unfold simNext
  rw [find_oob_of_geti_none this]

/-- Soundness of the checker `simRankOK` (run over all indices of `_actions`). -/
theorem simRankOK_sound {T : Tables} {rank : Int → Nat}
    (h : simRankOK T rank T.actions.size = true) :
    ∀ st st', simNext T st = some st' → rank st' < rank st := by
  intro st st' hs
  by_cases hrange : st < 0 ∨ (T.actions.size : Int) ≤ st
  · rw [simNext_out_of_range hrange] at hs; cases hs
  · have hk : st.toNat < T.actions.size := by omega
    have hst : ((st.toNat : Nat) : Int) = st := by omega
    have := List.all_eq_true.mp h st.toNat (List.mem_range.mpr hk)
    rw [hst, hs] at this
    exact of_decide_eq_true this

/-- **recover_terminates, closed form.** With a checked ranking of the simulation graph bounded
by `B`, `_recover()` never runs out of fuel once `fuel ≥ max (B + 1) (remaining input + 3)`. -/
theorem recover_terminates_of_rank {T : Tables} {inp : Array Nat} {fuel : Nat} {s : PState}
    (rank : Int → Nat) (B : Nat) (hB : ∀ st, rank st ≤ B)
    (hOK : simRankOK T rank T.actions.size = true)
    (hfuel1 : B + 1 ≤ fuel) (hfuel2 : inp.size - s.pos + 3 ≤ fuel) :
    recover T inp fuel s ≠ .timeout :=
  recover_terminates
    (fun la st => simulate_rank rank (simRankOK_sound hOK) fuel st (by have := hB st; omega)) hfuel2

end Lox.LR.Rt
