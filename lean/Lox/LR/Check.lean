import Lox.LR.Abstract
/-! The LR validator: an executable check on (grammar, emitted arrays, item-set certificate) whose
`ok` answer implies `Valid`, `Safe` and `FirstOK` for the automaton read off the arrays with
`Lox.LR.find` (= the generated `_Find`). Soundness theorem: `Lox.LR.check_sound` in
`Lox/LR/CheckSound.lean`. Core Lean only (linked into the driver). -/
namespace Lox.LR

/-! ### Rows of the emitted tables -/

/-- All `(key, value)` pairs the scan loop of `_Find` can see, in scan order. Mirrors
`findScan` (same fuel, same bounds); `none` if a read would be out of range. -/
def rowScan (tbl : Array Int) : Nat → Int → Int → Option (List (Int × Int))
  | 0, _, _ => some []
  | n + 1, i, stop =>
    if i < stop then
      match geti tbl i, geti tbl (i + 1) with
      | some k, some v => (rowScan tbl n (i + 2) stop).map ((k, v) :: ·)
      | _, _ => none
    else some []

/-- The row `_Find(table, y, ·)` scans. -/
def rowOf (tbl : Array Int) (y : Int) : Option (List (Int × Int)) :=
  match geti tbl y with
  | none => none
  | some i =>
    match geti tbl i with
    | none => none
    | some count => rowScan tbl (count.toNat + 1) (i + 1) (i + 1 + count)

/-- First-match lookup in a row. -/
def lookupI (x : Int) : List (Int × Int) → Option Int
  | [] => none
  | (k, v) :: r => if k = x then some v else lookupI x r

/-! ### The automaton read off the arrays -/

/-- Meaning of an `_actions` entry in `parse`: `accept`, `>= 0` shift, `< 0` reduce. -/
def decodeAct (v : Int) : Act :=
  if v = acceptCode then .accept else if 0 ≤ v then .shift v.toNat else .reduce (-v).toNat

/-- The automaton of the emitted tables: lookups are the generated `_Find` on `_actions` / `_goto`
(restricted to the states that exist), the items are the certificate. -/
def autoOf (T : Tables) (cert : Array (List Item)) : Auto where
  action s a :=
    if s < cert.size then
      match find T.actions (s : Int) (a : Int) with
      | .hit v => some (decodeAct v)
      | _ => none
    else none
  goto s B :=
    if s < cert.size then
      match find T.gotos (s : Int) (B : Int) with
      | .hit v => some v.toNat
      | _ => none
    else none
  items s := cert[s]?.getD []

/-! ### nullable / FIRST -/

structure FirstTab where
  nullable : Array Bool
  first : Array (List Nat)
  deriving Repr, Inhabited

def FirstTab.nullB (F : FirstTab) (B : Nat) : Bool := F.nullable[B]?.getD false
def FirstTab.firstNT (F : FirstTab) (B : Nat) : List Nat := F.first[B]?.getD []

def nullSeq (F : FirstTab) : List Sym → Bool
  | [] => true
  | .t _ :: _ => false
  | .n B :: r => F.nullB B && nullSeq F r

def firstSeq (F : FirstTab) : List Sym → List Nat
  | [] => []
  | .t x :: _ => [x]
  | .n B :: r => F.firstNT B ++ (if F.nullB B then firstSeq F r else [])

/-- `FIRST(α a)`. -/
def firstOf (F : FirstTab) (α : List Sym) (a : Nat) : List Nat :=
  firstSeq F α ++ (if nullSeq F α then [a] else [])

/-- The table is closed under the nullable / FIRST equations of every production. -/
def closedB (G : Grammar) (F : FirstTab) : Bool :=
  G.prods.toList.all fun pr =>
    (!nullSeq F pr.rhs || F.nullB pr.lhs) &&
    (firstSeq F pr.rhs).all fun x => decide (x ∈ F.firstNT pr.lhs)

/-- One round of the (untrusted) fixpoint iteration. -/
def firstRound (G : Grammar) (F : FirstTab) : FirstTab × Bool :=
  G.prods.foldl (init := (F, false)) fun (F, ch) pr =>
    let (F, ch) :=
      if nullSeq F pr.rhs && !F.nullB pr.lhs then
        ({ F with nullable := F.nullable.setIfInBounds pr.lhs true }, true)
      else (F, ch)
    let cur := F.firstNT pr.lhs
    let add := ((firstSeq F pr.rhs).filter fun x => !cur.contains x).eraseDups
    if add.isEmpty then (F, ch)
    else ({ F with first := F.first.modify pr.lhs (· ++ add) }, true)

def firstIter (G : Grammar) : Nat → FirstTab → FirstTab
  | 0, F => F
  | n + 1, F =>
    let (F', ch) := firstRound G F
    if ch then firstIter G n F' else F'

/-- nullable / FIRST by fixpoint iteration with fuel. Untrusted: `closedB` is checked afterwards. -/
def firstFix (G : Grammar) (nTerms nRules : Nat) : FirstTab :=
  firstIter G (nRules * (nTerms + 2) + 2)
    { nullable := Array.replicate nRules false, first := Array.replicate nRules [] }

/-! ### The conditions -/

def hasItem (items : List Item) (it : Item) : Bool := decide (it ∈ items)

/-- Some item of this production and dot (any lookahead). -/
def hasCore (items : List Item) (p d : Nat) : Bool := items.any fun j => j.p == p && j.d == d

/-- Index of the dot-0 items of a state: for production `q` the lookaheads `b` with
`(q, 0, b)` in the state. -/
def dot0Of (items : List Item) (nProds : Nat) : Array (List Nat) :=
  Array.ofFn (n := nProds) fun q =>
    (items.filter fun it => it.p == q.val && it.d == 0).map (·.a)

def itemsOf (cert : Array (List Item)) (s : Nat) : List Item := cert[s]?.getD []

/-- Production 0 is `S' → start`. -/
def prod0B (G : Grammar) : Bool :=
  match G.prods[0]? with
  | some pr => match pr.rhs with
    | [.n _] => true
    | _ => false
  | none => false

/-- `S'` does not occur on any right-hand side. -/
def noStartB (G : Grammar) : Bool :=
  match G.prods[0]? with
  | some pr0 => G.prods.toList.all fun pr => !pr.rhs.contains (.n pr0.lhs)
  | none => false

/-- Per item conditions of state `s` (completeness side + `gotoDef`). -/
def itemB (G : Grammar) (F : FirstTab) (T : Tables) (cert : Array (List Item)) (s : Nat)
    (d0 : Array (List Nat)) (it : Item) : Bool :=
  match G.prods[it.p]? with
  | none => false
  | some pr =>
    (match pr.rhs[it.d]? with
    | some (.t x) =>
      match find T.actions (s : Int) (x : Int) with
      | .hit v => v != acceptCode && decide (0 ≤ v) &&
          hasItem (itemsOf cert v.toNat) ⟨it.p, it.d + 1, it.a⟩
      | _ => false
    | some (.n B) =>
      (match find T.gotos (s : Int) (B : Int) with
      | .hit v => hasItem (itemsOf cert v.toNat) ⟨it.p, it.d + 1, it.a⟩
      | _ => false) &&
      (let fs := firstOf F (pr.rhs.drop (it.d + 1)) it.a
       (List.range G.prods.size).all fun q =>
        match G.prods[q]? with
        | some qr => qr.lhs != B || fs.all fun b => decide (b ∈ d0[q]?.getD [])
        | none => true)
    | none =>
      it.d == pr.rhs.length &&
      (if it.p = 0 then
        it.a == 0 && (match find T.actions (s : Int) 0 with
          | .hit v => v == acceptCode
          | _ => false)
      else
        match find T.actions (s : Int) (it.a : Int) with
        | .hit v => v == -(it.p : Int)
        | _ => false)) &&
    -- every dot-0 item's rule has a goto
    (it.d != 0 || it.p == 0 ||
      match find T.gotos (s : Int) (pr.lhs : Int) with
      | .hit _ => true
      | _ => false) &&
    -- `S' → · S` only in state 0; state 0 has only dot-0 items
    (!(it.p == 0 && it.d == 0) || s == 0) && (s != 0 || it.d == 0)

/-- Predecessor condition for an edge `s --X--> s'`. -/
def backB (G : Grammar) (cert : Array (List Item)) (s : Nat) (X : Sym) (s' : Nat) : Bool :=
  s' != 0 && decide (s' < cert.size) &&
  (itemsOf cert s').all fun it =>
    it.d == 0 ||
    match G.prods[it.p]? with
    | none => false
    | some pr => pr.rhs[it.d - 1]? == some X && hasCore (itemsOf cert s) it.p (it.d - 1)

/-- Conditions on one `_actions` row entry `(k, v)` of state `s`. -/
def actEntryB (G : Grammar) (nTerms : Nat) (cert : Array (List Item)) (s : Nat) (k v : Int) :
    Bool :=
  decide (0 ≤ k) && decide (k.toNat < nTerms) &&
  (if v = acceptCode then
    k == 0 && hasCore (itemsOf cert s) 0 1
  else if 0 ≤ v then
    k != 0 && backB G cert s (.t k.toNat) v.toNat
  else
    match G.prods[(-v).toNat]? with
    | none => false
    | some pr => hasCore (itemsOf cert s) (-v).toNat pr.rhs.length)

/-- Conditions on one `_goto` row entry `(k, v)` of state `s`. -/
def gotoEntryB (G : Grammar) (nRules : Nat) (cert : Array (List Item)) (s : Nat) (k v : Int) :
    Bool :=
  decide (0 ≤ k) && decide (k.toNat < nRules) && decide (0 ≤ v) &&
  backB G cert s (.n k.toNat) v.toNat

def nodupKeys : List (Int × Int) → Bool
  | [] => true
  | (k, _) :: r => r.all (fun e => e.1 != k) && nodupKeys r

/-- Everything checked for state `s`. -/
def stateB (G : Grammar) (nTerms nRules : Nat) (F : FirstTab) (T : Tables)
    (cert : Array (List Item)) (s : Nat) : Bool :=
  let items := itemsOf cert s
  let d0 := dot0Of items G.prods.size
  items.all (fun it => decide (it.a < nTerms) && itemB G F T cert s d0 it) &&
  (match rowOf T.actions (s : Int) with
  | none => false
  | some row => nodupKeys row && row.all fun e => actEntryB G nTerms cert s e.1 e.2) &&
  (match rowOf T.gotos (s : Int) with
  | none => false
  | some row => nodupKeys row && row.all fun e => gotoEntryB G nRules cert s e.1 e.2)

/-- `_rules[p] = lhs p`, `_termCounts[p] = |rhs p|`, symbols in range. -/
def prodsB (G : Grammar) (nTerms nRules : Nat) (T : Tables) : Bool :=
  T.rules.size == G.prods.size && T.termCounts.size == G.prods.size &&
  (List.range G.prods.size).all fun p =>
    match G.prods[p]? with
    | none => false
    | some pr =>
      T.rules[p]? == some (pr.lhs : Int) && T.termCounts[p]? == some (pr.rhs.length : Int) &&
      decide (pr.lhs < nRules) &&
      pr.rhs.all fun
        | .t x => decide (x < nTerms)
        | .n B => decide (B < nRules)

/-- The whole check as a Boolean. -/
def checkB (G : Grammar) (nTerms nRules : Nat) (T : Tables) (cert : Array (List Item)) : Bool :=
  let F := firstFix G nTerms nRules
  prod0B G && noStartB G && prodsB G nTerms nRules T && closedB G F &&
  hasItem (itemsOf cert 0) ⟨0, 0, 0⟩ &&
  (List.range cert.size).all fun s => stateB G nTerms nRules F T cert s

/-! ### The soundness half alone (`Safe`), for tables whose conflicts were resolved by precedence

For grammars with `@left/@right` the generator deletes actions, so the completeness conditions
(`Valid`) cannot hold; `Safe` still does, and gives: whatever is accepted is a sentence, with the
returned tree as a derivation tree. -/

def itemSafeB (G : Grammar) (T : Tables) (s : Nat) (it : Item) : Bool :=
  match G.prods[it.p]? with
  | none => false
  | some pr =>
    (it.d != 0 || it.p == 0 ||
      match find T.gotos (s : Int) (pr.lhs : Int) with
      | .hit _ => true
      | _ => false) &&
    (!(it.p == 0 && it.d == 0) || s == 0) && (s != 0 || it.d == 0)

def stateSafeB (G : Grammar) (nTerms nRules : Nat) (T : Tables) (cert : Array (List Item))
    (s : Nat) : Bool :=
  (itemsOf cert s).all (fun it => itemSafeB G T s it) &&
  (match rowOf T.actions (s : Int) with
  | none => false
  | some row => nodupKeys row && row.all fun e => actEntryB G nTerms cert s e.1 e.2) &&
  (match rowOf T.gotos (s : Int) with
  | none => false
  | some row => nodupKeys row && row.all fun e => gotoEntryB G nRules cert s e.1 e.2)

def checkSafeB (G : Grammar) (nTerms nRules : Nat) (T : Tables) (cert : Array (List Item)) :
    Bool :=
  prod0B G && prodsB G nTerms nRules T && decide (0 < cert.size) &&
  (List.range cert.size).all fun s => stateSafeB G nTerms nRules T cert s

/-- The soundness-only validator (sound by `Lox.LR.checkSafe_sound`). -/
def checkSafe (G : Grammar) (nTerms nRules : Nat) (T : Tables) (cert : Array (List Item)) :
    Except String Unit :=
  if checkSafeB G nTerms nRules T cert then .ok ()
  else
    .error (match (List.range cert.size).find? fun s => !stateSafeB G nTerms nRules T cert s with
      | some s => "safe: state " ++ toString s
      | none => "safe: grammar/_rules/_termCounts")

/-- No state has an action on the ERROR terminal (the grammar does not use `@error`), so the
generated `_recover` can never resume. -/
def NoErrorActions (T : Tables) (nStates : Nat) : Prop :=
  ∀ s, s < nStates → find T.actions (s : Int) tERROR = .miss

/-- Decision procedure for `NoErrorActions` (sound by `noErrorB_spec`). -/
def noErrorB (T : Tables) (nStates : Nat) : Bool :=
  (List.range nStates).all fun s => find T.actions (s : Int) tERROR == .miss

/-! ### Termination check -/

def keysOfRow (tbl : Array Int) (s : Nat) : List Nat :=
  ((rowOf tbl (s : Int)).getD []).map fun e => e.1.toNat

/-- Targets of the edges leaving state `q` (shift entries of `_actions`, all entries of `_goto`). -/
def targetsOf (T : Tables) (q : Nat) : List Nat :=
  (((rowOf T.actions (q : Int)).getD []).filterMap fun e =>
    if e.2 ≠ acceptCode ∧ 0 ≤ e.2 then some e.2.toNat else none) ++
  ((rowOf T.gotos (q : Int)).getD []).map fun e => e.2.toNat

def termFuel (G : Grammar) (cert : Array (List Item)) : Nat := cert.size + G.prods.size + 16

/-- Every local reduce-only run (from `[0]` and from `[s, q]` for every edge `q → s`, under every
lookahead that has an action in the top state) leaves its local stack within `termFuel` steps.
Together with `check` this bounds the number of consecutive reductions of the parser on EVERY
input (`Lox.LR.terminates`). -/
def termB (G : Grammar) (T : Tables) (cert : Array (List Item)) : Bool :=
  let A := autoOf T cert
  let F := termFuel G cert
  ((keysOfRow T.actions 0).all fun a => Abs.lrun G A a F [0]) &&
  (List.range cert.size).all fun q =>
    (targetsOf T q).all fun s =>
      (keysOfRow T.actions s).all fun a => Abs.lrun G A a F [s, q]

/-- Untrusted: name the first failing condition. -/
def diagnose (G : Grammar) (nTerms nRules : Nat) (T : Tables) (cert : Array (List Item)) :
    String :=
  let F := firstFix G nTerms nRules
  if !prod0B G then "production 0 is not S' -> start"
  else if !noStartB G then "S' occurs on a right-hand side"
  else if !prodsB G nTerms nRules T then "_rules/_termCounts/symbol ranges"
  else if !closedB G F then "FIRST table not closed"
  else if !hasItem (itemsOf cert 0) ⟨0, 0, 0⟩ then "start item missing in state 0"
  else
    match (List.range cert.size).find? fun s => !stateB G nTerms nRules F T cert s with
    | none => "unknown"
    | some s =>
      let items := itemsOf cert s
      let d0 := dot0Of items G.prods.size
      let st := "state " ++ toString s ++ ": "
      match items.find? fun it => !(decide (it.a < nTerms) && itemB G F T cert s d0 it) with
      | some it => st ++ "item " ++ toString it.p ++ " " ++ toString it.d ++ " " ++ toString it.a
      | none =>
        match rowOf T.actions (s : Int) with
        | none => st ++ "action row out of range"
        | some row =>
          if !nodupKeys row then st ++ "duplicate key in action row"
          else match row.find? fun e => !actEntryB G nTerms cert s e.1 e.2 with
          | some e => st ++ "action entry " ++ toString e.1 ++ " " ++ toString e.2
          | none =>
            match rowOf T.gotos (s : Int) with
            | none => st ++ "goto row out of range"
            | some row =>
              if !nodupKeys row then st ++ "duplicate key in goto row"
              else match row.find? fun e => !gotoEntryB G nRules cert s e.1 e.2 with
              | some e => st ++ "goto entry " ++ toString e.1 ++ " " ++ toString e.2
              | none => st ++ "unknown"

/-- The validator. -/
def check (G : Grammar) (nTerms nRules : Nat) (T : Tables) (cert : Array (List Item)) :
    Except String Unit :=
  if checkB G nTerms nRules T cert then .ok () else .error (diagnose G nTerms nRules T cert)

end Lox.LR
