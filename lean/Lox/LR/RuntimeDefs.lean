import Lox.LR.Model
/-! Ghost functions, erasure maps and invariants over the executable runtime model
`Lox/LR/Model.lean` (= `parserTemplate` of `internal/codegen/emit_parser.go`). Core Lean only.
Nothing here changes the model; the lemmas live in `RuntimeProofs*.lean`, the property theorems
in `Lox/Props/C16.lean` and `Lox/Props/C09.lean`. -/
namespace Lox.LR.Rt

/-! ## Values -/

/-- `tok`/`err` values: what `_lasym` can hold (`Token` or `Error`). -/
def _root_.Lox.LR.Val.isLeaf : Val → Bool
  | .tok _ _ => true
  | .err _ _ _ => true
  | _ => false

/-- An `Error` value. -/
def _root_.Lox.LR.Val.isErr : Val → Bool
  | .err _ _ _ => true
  | _ => false

mutual
/-- Indices (in the input) of the tokens at the leaves of a value: the token span a stack entry
derives. A `tok i _` leaf and an `err i _ _` leaf (`Error.Token`) contribute `i`. -/
def yieldIdx : Val → List Nat
  | .nil => []
  | .tok i _ => [i]
  | .err i _ _ => [i]
  | .node _ kids => yieldIdxs kids
def yieldIdxs : List Val → List Nat
  | [] => []
  | v :: vs => yieldIdx v ++ yieldIdxs vs
end

/-- The lookahead invariant: `_lasym` holds a `Token` or an `Error`, and so does `_qlasym` while a
queued lookahead is pending. Under it the type assertions of the `emit_bounds` shift branch
(`p._lasym.(Token)` / `p._lasym.(Error)`) cannot fail. -/
def LaOK (s : PState) : Prop :=
  s.lasym.isLeaf = true ∧ (s.qla ≠ -1 → s.qlasym.isLeaf = true)

/-! ## Erasure of `_Bounds` and `_onBounds` (C16 "its presence changes nothing else") -/

def _root_.Lox.LR.Entry.eraseB (e : Entry) : Entry := { e with bounds := {} }

def _root_.Lox.LR.Event.isBounds : Event → Bool
  | .bounds _ _ _ _ => true
  | .act _ _ => false

/-- Drop every entry's bounds and every `_onBounds` call from the log. -/
def eraseB (s : PState) : PState :=
  { s with stack := s.stack.map Entry.eraseB, log := s.log.filter (fun ev => !ev.isBounds) }

def _root_.Lox.LR.StepR.mapS (f : PState → PState) : StepR → StepR
  | .cont s => .cont (f s)
  | .done o s => .done o (f s)

def _root_.Lox.LR.Rec.mapS (f : PState → PState) : Rec → Rec
  | .ok s => .ok (f s)
  | .fail s => .fail (f s)
  | .panic w => .panic w
  | .timeout => .timeout

/-- The `.act` events of a log (same order). -/
def actEvents (l : List Event) : List Event := l.filter (fun ev => !ev.isBounds)

/-- No `_onBounds` call in the log. -/
def NoBoundsEv (s : PState) : Prop := ∀ ev ∈ s.log, ev.isBounds = false

/-! ## Bounds invariant (C16) -/

/-- `b` describes the token span `ys`: `Empty` iff the span is empty, otherwise `Begin`/`End` are
its first and last token. -/
def BOK (b : Bounds) (ys : List Nat) : Prop :=
  (b.empty = true ↔ ys = []) ∧ (b.empty = false → ys.head? = some b.b ∧ ys.getLast? = some b.e)

def EntryOK (e : Entry) : Prop := BOK e.bounds (yieldIdx e.sym)

/-- Every entry except the bottom one (`p._stack.Push(_item{})`, whose zero `_Bounds` is never
read because it is never popped) satisfies `EntryOK`. -/
def StackOK (st : List Entry) : Prop := ∀ e ∈ st.dropLast, EntryOK e

/-- Concatenated yields of a list of entries (bottom-most first). -/
def ysOf (es : List Entry) : List Nat := yieldIdxs (es.map (·.sym))

/-- Chronological log discipline of `_onBounds`: each `_act` is followed by its `_onBounds` call
exactly when the reduction's span is non-empty, with the action's result and the first/last
token of the span; no other `_onBounds` call exists. -/
inductive LogWF : List Event → Prop where
  | nil : LogWF []
  | actE {p kids rest} : yieldIdx (.node p kids) = [] → LogWF rest → LogWF (.act p kids :: rest)
  | actB {p kids b e rest} : (yieldIdx (.node p kids)).head? = some b →
      (yieldIdx (.node p kids)).getLast? = some e → LogWF rest →
      LogWF (.act p kids :: .bounds p (.node p kids) b e :: rest)

/-! ## `_readToken` / `_recover` in pieces -/

/-- The state after the lexer was consulted (before a lexer ERROR token is wrapped). -/
def afterLex (inp : Array Nat) (s : PState) : PState :=
  { s with lasym := (lexRead inp s.pos).1, la := (lexRead inp s.pos).2,
           pos := if s.pos < inp.size then s.pos + 1 else s.pos, reads := s.reads + 1 }

/-- The `Error` value `_recover` will inject (`errSym`): the pending `Error` if the lookahead is a
lexer ERROR token, else `_makeError()`. -/
def errSymOf (T : Tables) (s : PState) : Except String Val :=
  match s.lasym with
  | .err i ty ex => .ok (.err i ty ex)
  | _ => makeError T s

/-- The part of `_recover` after `errSym` is known. -/
def recoverBody (T : Tables) (inp : Array Nat) (fuel : Nat) (s : PState) (errSym : Val) : Rec :=
  match skipErrors T inp fuel s with
  | .error w => .panic w
  | .ok none => .timeout
  | .ok (some s) =>
    let dropped : Except String (Option (Option PState)) :=
      if s.recovering then
        if s.la = tEOF then .ok (some none)
        else match readToken T inp s with
          | .error w => .error w
          | .ok s => match skipErrors T inp fuel s with
            | .error w => .error w
            | .ok none => .ok none
            | .ok (some s) => .ok (some (some s))
      else .ok (some (some s))
    match dropped with
    | .error w => .panic w
    | .ok none => .timeout
    | .ok (some none) => .fail s
    | .ok (some (some s)) => recoverLoop T inp errSym fuel fuel s

/-- The state `_recover` returns `true` with: stack cut back to `st`, the current lookahead queued,
ERROR with `errSym` as the new lookahead. -/
def injectErr (s1 : PState) (st : List Entry) (errSym : Val) : PState :=
  { s1 with stack := st, qla := s1.la, qlasym := s1.lasym, la := tERROR, lasym := errSym,
            recovering := true }

/-- Zero or more successful `_readToken()` calls. -/
inductive Reads (T : Tables) (inp : Array Nat) : PState → PState → Prop where
  | refl (s) : Reads T inp s s
  | step {s s1 s2} : readToken T inp s = .ok s1 → Reads T inp s1 s2 → Reads T inp s s2

/-- What `_readToken` leaves alone. -/
structure Frame (s s' : PState) : Prop where
  stack : s'.stack = s.stack
  log : s'.log = s.log
  recovering : s'.recovering = s.recovering

/-- The state `parse` starts from: `p._qla = -1; p._stack.Push(_item{})`. -/
def initState : PState := { stack := [{ state := 0, sym := .nil }] }

/-! ## One iteration of `parse`, relationally -/

/-- The state right after the `Push` of the shift branch (before `_readToken`). -/
def shiftState (s : PState) (action : Int) (ti : Nat) : PState :=
  { s with stack := { state := action, sym := s.lasym, bounds := { b := ti, e := ti } } :: s.stack,
           recovering := if s.la ≠ tERROR then false else s.recovering }

/-- The state after the reduce branch popped `n` entries for production `prod` and pushed the
result with state `ns`. -/
def reduceState (s : PState) (wb : Bool) (prod : Int) (n : Nat) (ns : Int) : PState :=
  let popped := (s.stack.take n).reverse
  let kids := popped.map (·.sym)
  let res := Val.node prod.toNat kids
  let bnds := combineBounds (popped.map (·.bounds))
  let log := Event.act prod.toNat kids :: s.log
  let log := if wb ∧ ¬ bnds.empty then Event.bounds prod.toNat res bnds.b bnds.e :: log else log
  { s with stack := { state := ns, sym := res, bounds := bnds } :: s.stack.drop n, log := log }

/-- `step … s = .cont s'`, by cases (`RuntimeProofs.step_cont`). -/
inductive Step (T : Tables) (inp : Array Nat) (wb : Bool) (fuel : Nat) (s : PState) : PState → Prop where
  | recover {top s'} : topState s.stack = some top → find T.actions top s.la = .miss →
      recover T inp fuel s = .ok s' → Step T inp wb fuel s s'
  | shift {top action ti s'} : topState s.stack = some top →
      find T.actions top s.la = .hit action → action ≠ acceptCode → action ≥ 0 →
      (if wb then symTokIdx s.lasym else some 0) = some ti →
      readToken T inp (shiftState s action ti) = .ok s' → Step T inp wb fuel s s'
  | reduce {top action tc rule top' ns} : topState s.stack = some top →
      find T.actions top s.la = .hit action → action ≠ acceptCode → action < 0 →
      geti T.termCounts (-action) = some tc → geti T.rules (-action) = some rule →
      0 ≤ tc → tc.toNat ≤ s.stack.length → topState (s.stack.drop tc.toNat) = some top' →
      (find T.gotos top' rule = .hit ns ∨ (find T.gotos top' rule = .miss ∧ ns = 0)) →
      Step T inp wb fuel s (reduceState s wb (-action) tc.toNat ns)

/-- Zero or more continuing iterations of the loop of `parse`. -/
inductive Reach (T : Tables) (inp : Array Nat) (wb : Bool) (fuel : Nat) : PState → PState → Prop where
  | refl (s) : Reach T inp wb fuel s s
  | step {s s1 s2} : step T inp wb fuel s = .cont s1 → Reach T inp wb fuel s1 s2 →
      Reach T inp wb fuel s s2

/-- The states `parse` can be in at the top of its loop. -/
def ParseReach (T : Tables) (inp : Array Nat) (wb : Bool) (fuel : Nat) (s : PState) : Prop :=
  ∃ s1, readToken T inp initState = .ok s1 ∧ Reach T inp wb fuel s1 s

/-! ## C09: remaining-input measure, ghost counters, error tracking -/

/-- 1 for a lookahead that is a real input token (neither EOF nor ERROR). -/
def realLa (x : Int) : Nat := if x = tEOF ∨ x = tERROR then 0 else 1

/-- 1 for a pending queued lookahead that is a real input token. -/
def realQ (x : Int) : Nat := if x = -1 ∨ x = tEOF ∨ x = tERROR then 0 else 1

/-- Remaining input: tokens the lexer has not delivered yet, plus the queued and the current
lookahead when they are real tokens. -/
def remaining (inp : Array Nat) (s : PState) : Nat :=
  (inp.size - s.pos) + realQ s.qla + realLa s.la

/-- The potential that bounds the number of recoveries. -/
def potential (inp : Array Nat) (s : PState) : Nat :=
  2 * remaining inp s + (if s.recovering then 0 else 1)

/-- EOF is never shifted (true of every LR table: EOF only occurs as a lookahead). -/
def NoShiftEOF (T : Tables) : Prop :=
  ∀ st v, find T.actions st tEOF = .hit v → v = acceptCode ∨ v < 0

/-- `accept` is only entered on the EOF lookahead. -/
def AcceptOnlyEOF (T : Tables) : Prop :=
  ∀ st la, find T.actions st la = .hit acceptCode → la = tEOF

/-- The iteration from `s` calls `_recover()`. -/
def isRecoverStep (T : Tables) (s : PState) : Bool :=
  match topState s.stack with
  | some top =>
    match find T.actions top s.la with
    | .miss => true
    | _ => false
  | none => false

/-- `runLoop` with a ghost counter: the number of `_recover()` calls that returned `true`. -/
def runLoopG (T : Tables) (inp : Array Nat) (withBounds : Bool) (fuel : Nat) :
    Nat → PState → Outcome × PState × Nat
  | 0, s => (.timeout, s, 0)
  | n + 1, s =>
    match step T inp withBounds fuel s with
    | .cont s' =>
      let r := runLoopG T inp withBounds fuel n s'
      (r.1, r.2.1, r.2.2 + (if isRecoverStep T s then 1 else 0))
    | .done o s' => (o, s', 0)

/-- `parse` with the ghost counter. -/
def parseG (T : Tables) (inp : Array Nat) (withBounds : Bool) (fuel : Nat) : Outcome × PState × Nat :=
  match readToken T inp initState with
  | .error w => (.panic w, initState, 0)
  | .ok s1 => runLoopG T inp withBounds fuel fuel s1

/-- Zero or more continuing iterations none of which calls `_recover()`. -/
inductive PlainReach (T : Tables) (inp : Array Nat) (wb : Bool) (fuel : Nat) : PState → PState → Prop where
  | refl (s) : PlainReach T inp wb fuel s s
  | step {s s1 s2} : isRecoverStep T s = false → step T inp wb fuel s = .cont s1 →
      PlainReach T inp wb fuel s1 s2 → PlainReach T inp wb fuel s s2

mutual
/-- Every `Error` leaf of the value carries a token index satisfying `P`. -/
def errsIn (P : Nat → Bool) : Val → Bool
  | .nil => true
  | .tok _ _ => true
  | .err i _ _ => P i
  | .node _ kids => errsInL P kids
def errsInL (P : Nat → Bool) : List Val → Bool
  | [] => true
  | v :: vs => errsIn P v && errsInL P vs
end

def _root_.Lox.LR.Event.errsIn (P : Nat → Bool) : Event → Bool
  | .act _ kids => errsInL P kids
  | .bounds _ v _ _ => Rt.errsIn P v

/-- The `i`-th input token is a lexer ERROR token. -/
def lexErrAt (inp : Array Nat) (i : Nat) : Bool := inp[i]? == some 1

/-- Every `Error` value anywhere in the state (lookaheads, stack, log) satisfies `P`. -/
def ErrsInv (P : Nat → Bool) (s : PState) : Prop :=
  errsIn P s.lasym = true ∧ (s.qla ≠ -1 → errsIn P s.qlasym = true) ∧
  (∀ e ∈ s.stack, errsIn P e.sym = true) ∧ (∀ ev ∈ s.log, ev.errsIn P = true)

/-- The injected ERROR lookahead has not been consumed yet. -/
def Pending (s : PState) : Prop := s.la = tERROR ∧ s.lasym.isErr = true

/-- An `Error` value sits on the stack. -/
def ErrOnStack (s : PState) : Prop := ∃ e ∈ s.stack, e.sym.isErr = true

/-- Some action was called with an `Error` argument (an `@error` term of its production). -/
def Delivered (l : List Event) : Prop :=
  ∃ p kids, Event.act p kids ∈ l ∧ ∃ k ∈ kids, k.isErr = true

def ErrTrack (s : PState) : Prop := Pending s ∨ ErrOnStack s ∨ Delivered s.log

/-! ## C09: termination of `_recover` -/

/-- Tokens the lexer side can still deliver before it answers EOF forever. -/
def nu (inp : Array Nat) (s : PState) : Nat := (inp.size - s.pos) + (if s.qla ≠ -1 then 1 else 0)

/-- The iteration shifts a real (non-ERROR) token. -/
def RealShift (T : Tables) (s : PState) : Prop :=
  ∃ top a, topState s.stack = some top ∧ find T.actions top s.la = .hit a ∧ a ≥ 0 ∧
    a ≠ acceptCode ∧ s.la ≠ tERROR

/-- The edge followed by the inner loop of `_recover` when the action on ERROR is a reduction:
`state, ok = _Find(_goto, state, rule)` WITHOUT popping (no edge when the goto entry is missing: the loop is left). -/
def simNext (T : Tables) (st : Int) : Option Int :=
  match find T.actions st tERROR with
  | .hit action =>
    if action < 0 then
      match geti T.rules (-action) with
      | none => none
      | some rule =>
        match find T.gotos st rule with
        | .oob => none
        | .miss => none
        | .hit st' => some st'
    else none
  | _ => none

/-- Checker: `rank` strictly decreases along every `simNext` edge leaving a state `< n`. -/
def simRankOK (T : Tables) (rank : Int → Nat) (n : Nat) : Bool :=
  (List.range n).all fun k =>
    match simNext T (k : Int) with
    | some st' => decide (rank st' < rank (k : Int))
    | none => true

/-- Length of the `simNext` chain from `st` (capped by the fuel): the canonical ranking. -/
def simChain (T : Tables) : Nat → Int → Nat
  | 0, _ => 0
  | n + 1, st =>
    match simNext T st with
    | some st' => simChain T n st' + 1
    | none => 0

/-- Checker run on every emitted table: the reduce simulation of `_recover` cannot loop from any
of the `nStates` states (the canonical ranking strictly decreases along its edges). -/
def recoveryOKB (T : Tables) (nStates : Nat) : Bool :=
  simRankOK T (simChain T (nStates + 1)) nStates

/-! ## C09: the consumed symbols are the input with stretches replaced by `@error` -/

mutual
/-- The `Token`/`Error` leaves of a value, left to right. -/
def leaves : Val → List Val
  | .nil => []
  | .tok i ty => [.tok i ty]
  | .err i ty ex => [.err i ty ex]
  | .node _ kids => leavesL kids
def leavesL : List Val → List Val
  | [] => []
  | v :: vs => leaves v ++ leavesL vs
end

/-- Index (in the input) of the token a leaf carries. -/
def lidx : Val → Nat
  | .tok i _ => i
  | .err i _ _ => i
  | _ => 0

/-- The terminal the parser sees in a leaf: the token type, or ERROR for an `Error`. -/
def leafTy : Val → Int
  | .tok _ ty => ty
  | .err _ _ _ => tERROR
  | _ => -1

/-- The token carried by a leaf is the `i`-th token the lexer returns: `inp[i]`, or EOF at
`i = |inp|`. -/
def TokOK (inp : Array Nat) : Val → Prop
  | .tok i ty => inp[i]? = some ty ∨ (i = inp.size ∧ ty = 0)
  | .err i ty _ => inp[i]? = some ty ∨ (i = inp.size ∧ ty = 0)
  | _ => True

/-- Two consecutive consumed symbols `x y`: token indices never decrease; a `Token` is strictly
before its successor; two consecutive `Token`s are adjacent in the input. (So an input token can
only be missing next to an `Error`: it belongs to the stretch that `Error` replaces.) -/
def LinkR (x y : Val) : Prop :=
  lidx x ≤ lidx y ∧ (x.isErr = false → lidx x < lidx y) ∧
    (x.isErr = false → y.isErr = false → lidx y = lidx x + 1)

/-- Every two consecutive elements are `LinkR`-related. -/
def Chain : List Val → Prop
  | [] => True
  | [_] => True
  | x :: y :: r => LinkR x y ∧ Chain (y :: r)

/-- Leaves of the stack, bottom to top: the symbols consumed so far. -/
def stackLeaves (st : List Entry) : List Val := leavesL (st.reverse.map (·.sym))

/-- The lookahead and the queued lookahead (when pending). -/
def pending (s : PState) : List Val := s.lasym :: (if s.qla ≠ -1 then [s.qlasym] else [])

/-- The last symbol obtained from the lexer side. -/
def lastRead (s : PState) : Val := if s.qla ≠ -1 then s.qlasym else s.lasym

/-- The lexer position is just after the last symbol read (EOF is re-read forever). -/
def PosOK (inp : Array Nat) (s : PState) : Prop :=
  (lidx (lastRead s) < inp.size ∧ s.pos = lidx (lastRead s) + 1) ∨
  (lidx (lastRead s) = inp.size ∧ s.pos = inp.size)

/-- `y` is the symbol the lexer returns right after `x` (EOF is returned again after EOF). -/
def AdvR (inp : Array Nat) (x y : Val) : Prop :=
  lidx y = lidx x + 1 ∨ (lidx x = inp.size ∧ lidx y = inp.size)

/-- Invariant of the lookahead part of the state. -/
structure PInv (inp : Array Nat) (s : PState) : Prop where
  laok : LaOK s
  laty : s.la = leafTy s.lasym
  qty : s.qla ≠ -1 → s.qla = leafTy s.qlasym ∧ s.la = tERROR ∧ s.lasym.isErr = true ∧
          lidx s.lasym ≤ lidx s.qlasym
  tokLa : TokOK inp s.lasym
  tokQ : s.qla ≠ -1 → TokOK inp s.qlasym
  pos : PosOK inp s

/-- **Coverage invariant.** The consumed symbols followed by the pending lookaheads form a chain
that starts at token 0, consists of input tokens, and ends where the lexer stands. -/
structure Cov (inp : Array Nat) (s : PState) : Prop where
  pinv : PInv inp s
  chain : Chain (stackLeaves s.stack ++ pending s)
  head : ∀ x, (stackLeaves s.stack ++ pending s).head? = some x → x.isErr = false → lidx x = 0
  tok : ∀ x ∈ stackLeaves s.stack, TokOK inp x

/-! ## Checkers for the table-level hypotheses of C09 -/

/-- `P key value` holds for every pair the scan loop of `_Find` can return from. Mirrors
`findScan`. -/
def rowAll (tbl : Array Int) (P : Int → Int → Bool) : Nat → Int → Int → Bool
  | 0, _, _ => true
  | n + 1, i, stop =>
    if i < stop then
      match geti tbl i with
      | none => true
      | some k =>
        (match geti tbl (i + 1) with
          | none => true
          | some v => P k v) && rowAll tbl P n (i + 2) stop
    else true

/-- `P key value` holds for every `(key, value)` that `_Find(tbl, y, key)` can return. -/
def findAll (tbl : Array Int) (P : Int → Int → Bool) (y : Int) : Bool :=
  match geti tbl y with
  | none => true
  | some i =>
    match geti tbl i with
    | none => true
    | some count => rowAll tbl P (count.toNat + 1) (i + 1) (i + 1 + count)

/-- Checker for `NoShiftEOF`. -/
def noShiftEOFB (T : Tables) : Bool :=
  (List.range T.actions.size).all fun k =>
    findAll T.actions (fun key v => key != tEOF || v == acceptCode || decide (v < 0)) (k : Int)

/-- Checker for `AcceptOnlyEOF`. -/
def acceptOnlyEOFB (T : Tables) : Bool :=
  (List.range T.actions.size).all fun k =>
    findAll T.actions (fun key v => v != acceptCode || key == tEOF) (k : Int)

end Lox.LR.Rt
