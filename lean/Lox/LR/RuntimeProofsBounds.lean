import Lox.LR.RuntimeProofs
/-! C16-2 (`bounds_inv`) and C16-3 (`on_bounds_calls`): the `_Bounds` of every stack entry are the
first and last token of its span, and `_onBounds` is called right after the action exactly for
reductions with a non-empty span. -/
namespace Lox.LR.Rt

/-! ## Trimming -/

theorem mem_takeWhile_imp' {α : Type} {p : α → Bool} : ∀ {l : List α} {x : α},
    x ∈ l.takeWhile p → p x = true
  | [], _, h => by cases h
  | a :: l, x, h => by
    rw [List.takeWhile_cons] at h
    split at h
    · rcases List.mem_cons.mp h with rfl | h
      · assumption
      · exact mem_takeWhile_imp' h
    · cases h

/-- Trimming `p`-elements from both ends: what is cut off satisfies `p`, what remains is empty or
starts and ends with a non-`p` element. -/
theorem trim_decomp {α : Type} (p : α → Bool) (l : List α) :
    ∃ pre post, l = pre ++ ((l.dropWhile p).reverse.dropWhile p).reverse ++ post ∧
      (∀ x ∈ pre, p x = true) ∧ (∀ x ∈ post, p x = true) ∧
      (∀ x, (((l.dropWhile p).reverse.dropWhile p).reverse).head? = some x → p x = false) ∧
      (∀ x, (((l.dropWhile p).reverse.dropWhile p).reverse).getLast? = some x → p x = false) := by
  have h1 : (l.dropWhile p) =
      ((l.dropWhile p).reverse.dropWhile p).reverse ++ ((l.dropWhile p).reverse.takeWhile p).reverse := by
    rw [← List.reverse_append, List.takeWhile_append_dropWhile, List.reverse_reverse]
  refine ⟨l.takeWhile p, ((l.dropWhile p).reverse.takeWhile p).reverse, ?_, ?_, ?_, ?_, ?_⟩
  · rw [List.append_assoc, ← h1, List.takeWhile_append_dropWhile]
  · intro x hx; exact mem_takeWhile_imp' hx
  · intro x hx; exact mem_takeWhile_imp' (List.mem_reverse.mp hx)
  · intro x hx
    have h2 := List.head?_dropWhile_not p l
    rw [h1, List.head?_append, hx] at h2
    exact h2
  · intro x hx
    rw [List.getLast?_reverse] at hx
    have h2 := List.head?_dropWhile_not p (l.dropWhile p).reverse
    rw [hx] at h2
    exact h2

/-! ## Yields -/

theorem yieldIdxs_append : ∀ (a b : List Val), yieldIdxs (a ++ b) = yieldIdxs a ++ yieldIdxs b
  | [], _ => rfl
  | v :: a, b => by
    simp only [List.cons_append, yieldIdxs, yieldIdxs_append a b, List.append_assoc]

theorem yieldIdxs_eq_flatMap : ∀ (kids : List Val), yieldIdxs kids = kids.flatMap yieldIdx
  | [] => rfl
  | v :: vs => by simp only [yieldIdxs, List.flatMap_cons, yieldIdxs_eq_flatMap vs]

theorem yieldIdx_node (p : Nat) (kids : List Val) :
    yieldIdx (.node p kids) = kids.flatMap yieldIdx := by
  rw [yieldIdx, yieldIdxs_eq_flatMap]

theorem ysOf_append (a b : List Entry) : ysOf (a ++ b) = ysOf a ++ ysOf b := by
  simp only [ysOf, List.map_append, yieldIdxs_append]

theorem ysOf_cons (e : Entry) (es : List Entry) : ysOf (e :: es) = yieldIdx e.sym ++ ysOf es := rfl

theorem ysOf_all_empty : ∀ {es : List Entry}, (∀ e ∈ es, EntryOK e) →
    (∀ e ∈ es, e.bounds.empty = true) → ysOf es = []
  | [], _, _ => rfl
  | e :: es, h, hp => by
    rw [ysOf_cons, ysOf_all_empty (fun x hx => h x (List.mem_cons_of_mem _ hx))
      (fun x hx => hp x (List.mem_cons_of_mem _ hx)), List.append_nil]
    exact (h e List.mem_cons_self).1.mp (hp e List.mem_cons_self)

theorem BOK_leaf (i : Nat) : BOK { b := i, e := i } [i] :=
  ⟨⟨fun h => (by cases h), fun h => (by cases h)⟩, fun _ => ⟨rfl, rfl⟩⟩

/-- The `_Bounds` computed by the reduce branch describe the concatenated spans of the popped
entries, provided each popped entry's `_Bounds` describe its own span. -/
theorem combineBounds_BOK (es : List Entry) (h : ∀ e ∈ es, EntryOK e) :
    BOK (combineBounds (es.map (·.bounds))) (ysOf es) := by
  obtain ⟨pre, post, hd, hpre, hpost, hhead, hlast⟩ :=
    trim_decomp (fun e : Entry => e.bounds.empty) es
  generalize hmid : ((es.dropWhile (fun e : Entry => e.bounds.empty)).reverse.dropWhile
    (fun e : Entry => e.bounds.empty)).reverse = mid at hd hhead hlast
  have hcb : combineBounds (es.map (·.bounds)) =
      match (mid.map (·.bounds)).head?, (mid.map (·.bounds)).getLast? with
      | some f, some l => { b := f.b, e := l.e, empty := false }
      | _, _ => { empty := true } := by
    unfold combineBounds
    simp only [List.dropWhile_map, ← List.map_reverse]
    rw [← hmid]
    rfl
  have hmem : ∀ e ∈ mid, EntryOK e := by
    intro e he; apply h; rw [hd]; simp [he]
  have hys : ysOf es = ysOf mid := by
    rw [hd, ysOf_append, ysOf_append,
      ysOf_all_empty (fun e he => h e (by rw [hd]; simp [he])) hpre,
      ysOf_all_empty (fun e he => h e (by rw [hd]; simp [he])) hpost]
    simp
  rw [hcb, hys, List.head?_map, List.getLast?_map]
  cases hm : mid with
  | nil => exact ⟨⟨fun _ => rfl, fun _ => rfl⟩, fun hc => (by cases hc)⟩
  | cons f tl =>
    have hf : f.bounds.empty = false := hhead f (by rw [hm]; rfl)
    have hfo : EntryOK f := hmem f (by rw [hm]; exact List.mem_cons_self)
    have hne : f :: tl ≠ [] := List.cons_ne_nil _ _
    have hl : (f :: tl).getLast? = some ((f :: tl).getLast hne) := List.getLast?_eq_some_getLast hne
    generalize (f :: tl).getLast hne = l at hl
    have hlm : l ∈ mid := by rw [hm]; exact List.mem_of_getLast? hl
    have hle : l.bounds.empty = false := hlast l (by rw [hm]; exact hl)
    have hlo : EntryOK l := hmem l hlm
    rw [hl]
    simp only [List.head?_cons, Option.map_some]
    have hfy := hfo.2 hf
    have hly := hlo.2 hle
    have hfne : yieldIdx f.sym ≠ [] := fun hc => by
      have := hfo.1.mpr hc; rw [hf] at this; cases this
    obtain ⟨ini, hini⟩ := List.getLast?_eq_some_iff.mp hl
    refine ⟨⟨fun hc => (by cases hc), fun hc => ?_⟩, fun _ => ⟨?_, ?_⟩⟩
    · rw [ysOf_cons] at hc
      exact absurd (List.append_eq_nil_iff.mp hc).1 hfne
    · rw [ysOf_cons, List.head?_append, hfy.1]; rfl
    · rw [hini, ysOf_append, ysOf_cons, List.getLast?_append]
      simp only [ysOf, List.map_nil, yieldIdxs, List.append_nil, hly.2]
      rfl

/-! ## `StackOK` -/

theorem StackOK_cons {e : Entry} {rest : List Entry} (hne : rest ≠ []) (he : EntryOK e)
    (hr : StackOK rest) : StackOK (e :: rest) := by
  intro x hx
  rw [List.dropLast_cons_of_ne_nil hne] at hx
  rcases List.mem_cons.mp hx with rfl | hx
  · exact he
  · exact hr x hx

theorem StackOK_suffix {st st' : List Entry} (h : st' <:+ st) (hs : StackOK st) : StackOK st' := by
  obtain ⟨pre, rfl⟩ := h
  by_cases hne : st' = []
  · subst hne; intro x hx; cases hx
  · intro x hx
    apply hs
    rw [List.dropLast_append_of_ne_nil hne]
    exact List.mem_append_right _ hx

theorem StackOK_nil : StackOK [] := fun _ h => by cases h

/-- Entries popped by a reduction that leaves the stack non-empty are all above the bottom. -/
theorem popped_EntryOK {st : List Entry} {n : Nat} (hs : StackOK st) (hd : st.drop n ≠ []) :
    ∀ e ∈ (st.take n).reverse, EntryOK e := by
  intro e he
  apply hs
  have hlen : n < st.length := by
    have := List.length_pos_iff.mpr hd
    rw [List.length_drop] at this
    omega
  rw [List.dropLast_eq_take]
  have : st.take n = (st.take (st.length - 1)).take n := by
    rw [List.take_take]; congr 1; omega
  rw [List.mem_reverse, this] at he
  exact List.mem_of_mem_take he

theorem ne_nil_of_topState {st : List Entry} {t : Int} (h : topState st = some t) : st ≠ [] := by
  intro hc; subst hc; cases h

theorem yieldIdx_of_symTokIdx {v : Val} {i : Nat} (h : symTokIdx v = some i) : yieldIdx v = [i] := by
  cases v <;> simp_all [symTokIdx, yieldIdx]

/-! ## `LogWF` -/

theorem LogWF.append {a b : List Event} (ha : LogWF a) (hb : LogWF b) : LogWF (a ++ b) := by
  induction ha with
  | nil => exact hb
  | actE h _ ih => exact .actE h ih
  | actB h1 h2 _ ih => exact .actB h1 h2 ih

/-- The invariant of C16-2/C16-3. -/
def BInv (s : PState) : Prop := StackOK s.stack ∧ LogWF s.log.reverse

theorem BInv_of_frame {s s' : PState} (h : Frame s s') (hs : BInv s) : BInv s' := by
  unfold BInv
  rw [h.stack, h.log]; exact hs

theorem shiftState_BInv {s : PState} {a : Int} {ti : Nat} {top : Int}
    (htop : topState s.stack = some top) (hti : symTokIdx s.lasym = some ti) (hs : BInv s) :
    BInv (shiftState s a ti) := by
  refine ⟨StackOK_cons (ne_nil_of_topState htop) ?_ hs.1, hs.2⟩
  show BOK _ (yieldIdx s.lasym)
  rw [yieldIdx_of_symTokIdx hti]
  exact BOK_leaf ti

theorem reduceState_BInv {s : PState} {prod : Int} {n : Nat} {ns : Int} {top' : Int}
    (htop' : topState (s.stack.drop n) = some top') (hs : BInv s) :
    BInv (reduceState s true prod n ns) := by
  have hne := ne_nil_of_topState htop'
  have hpop := popped_EntryOK hs.1 hne
  have hb := combineBounds_BOK _ hpop
  have hy : yieldIdx (.node prod.toNat ((s.stack.take n).reverse.map (·.sym))) =
      ysOf (s.stack.take n).reverse := rfl
  refine ⟨StackOK_cons hne ?_ (StackOK_suffix (List.drop_suffix _ _) hs.1), ?_⟩
  · exact hb
  · show LogWF (List.reverse (if true = true ∧ ¬ _ then _ else _))
    cases hemp : (combineBounds ((s.stack.take n).reverse.map (·.bounds))).empty with
    | true =>
      simp only [not_true_eq_false, and_false, if_false, List.reverse_cons]
      exact hs.2.append (.actE (hy ▸ hb.1.mp hemp) .nil)
    | false =>
      simp only [Bool.false_eq_true, not_false_eq_true, and_self, if_true, List.reverse_cons,
        List.append_assoc, List.cons_append, List.nil_append]
      have := hb.2 hemp
      exact hs.2.append (.actB (hy ▸ this.1) (hy ▸ this.2) .nil)

/-- One iteration of `parse` (with `_onBounds`) preserves the bounds/log invariant. -/
theorem step_BInv {T : Tables} {inp : Array Nat} {fuel : Nat} {s s' : PState}
    (hs : BInv s) (h : step T inp true fuel s = .cont s') : BInv s' := by
  cases step_cont h with
  | recover _ _ hr =>
    obtain ⟨errSym, s0, s1, st, -, h0, -, h1, hst, rfl, -⟩ := recover_ok hr
    have hf := (h0.trans h1).frame
    have h1' := BInv_of_frame hf hs
    exact ⟨StackOK_suffix (searchStack_ok hst).1 h1'.1, h1'.2⟩
  | shift htop _ _ _ hti hr =>
    exact BInv_of_frame (readToken_frame hr) (shiftState_BInv htop hti hs)
  | reduce _ _ _ _ _ _ _ _ htop' _ => exact reduceState_BInv htop' hs

/-- … and so does the final iteration. -/
theorem step_done_BInv {T : Tables} {inp : Array Nat} {fuel : Nat} {s s' : PState} {o : Outcome}
    (hs : BInv s) (h : step T inp true fuel s = .done o s') : BInv s' := by
  rcases step_done h with ⟨-, rfl, -⟩ | ⟨-, top, -, -, hr⟩ | ⟨-, rfl, -⟩ |
    ⟨w, -, rfl | ⟨top, a, ti, htop, hti, rfl⟩⟩
  · exact hs
  · obtain ⟨s1, h1, -, rfl | rfl⟩ := recover_fail hr
    · exact BInv_of_frame h1.frame hs
    · exact ⟨StackOK_nil, (BInv_of_frame h1.frame hs).2⟩
  · exact hs
  · exact hs
  · exact shiftState_BInv htop hti hs

theorem init_BInv {T : Tables} {inp : Array Nat} {s1 : PState}
    (h : readToken T inp initState = .ok s1) : BInv s1 :=
  BInv_of_frame (readToken_frame h) ⟨fun _ hx => (by cases hx), .nil⟩

/-- C16-2/3 invariant in every state at the top of the loop of `parse` (with `_onBounds`). -/
theorem parseReach_BInv {T : Tables} {inp : Array Nat} {fuel : Nat} {s : PState}
    (h : ParseReach T inp true fuel s) : BInv s := by
  obtain ⟨s1, h1, hr⟩ := h
  exact hr.inv (fun _ _ hp hs => step_BInv hp hs) (init_BInv h1)

theorem runLoop_BInv {T : Tables} {inp : Array Nat} {fuel : Nat} (n : Nat) {s : PState}
    (hs : BInv s) : BInv (runLoop T inp true fuel n s).2 := by
  obtain ⟨sl, hr, hsl⟩ := runLoop_spec (T := T) (inp := inp) (wb := true) (fuel := fuel) n s
  have hl : BInv sl := hr.inv (fun _ _ hp hs => step_BInv hp hs) hs
  rcases hsl with ⟨-, h2⟩ | h2
  · rw [h2]; exact hl
  · exact step_done_BInv hl h2

/-- … and in the state `parse` returns with. -/
theorem parse_BInv (T : Tables) (inp : Array Nat) (fuel : Nat) : BInv (parse T inp true fuel).2 := by
  rw [parse_eq]
  cases h : readToken T inp initState with
  | error w => exact ⟨fun _ hx => (by cases hx), .nil⟩
  | ok s1 => exact runLoop_BInv fuel (init_BInv h)

/-! ## Reading `LogWF` -/

theorem LogWF.head_not_bounds {l : List Event} (h : LogWF l) :
    ∀ ev, l.head? = some ev → ev.isBounds = false := by
  intro ev hev
  cases h with
  | nil => cases hev
  | actE => cases hev; rfl
  | actB => cases hev; rfl

/-- Every `_act` is immediately followed by its `_onBounds` call when the span is non-empty, and
by no `_onBounds` call at all when it is empty. -/
theorem LogWF.act_follow {L : List Event} (h : LogWF L) :
    ∀ (pre post : List Event) (p : Nat) (kids : List Val), L = pre ++ .act p kids :: post →
      (yieldIdx (.node p kids) ≠ [] → ∃ b e post', post = .bounds p (.node p kids) b e :: post' ∧
          (yieldIdx (.node p kids)).head? = some b ∧ (yieldIdx (.node p kids)).getLast? = some e) ∧
      (yieldIdx (.node p kids) = [] → ∀ ev, post.head? = some ev → ev.isBounds = false) := by
  induction h with
  | nil => intro pre post p kids hL; cases pre <;> cases hL
  | @actE p0 k0 rest hy hrest ih =>
    intro pre post p kids hL
    cases pre with
    | nil =>
      simp only [List.nil_append, List.cons.injEq, Event.act.injEq] at hL
      obtain ⟨⟨rfl, rfl⟩, rfl⟩ := hL
      exact ⟨fun hne => absurd hy hne, fun _ => hrest.head_not_bounds⟩
    | cons x pre' =>
      simp only [List.cons_append, List.cons.injEq] at hL
      exact ih pre' post p kids hL.2
  | @actB p0 k0 b0 e0 rest h1 h2 hrest ih =>
    intro pre post p kids hL
    cases pre with
    | nil =>
      simp only [List.nil_append, List.cons.injEq, Event.act.injEq] at hL
      obtain ⟨⟨rfl, rfl⟩, rfl⟩ := hL
      refine ⟨fun _ => ⟨b0, e0, rest, rfl, h1, h2⟩, fun hc => ?_⟩
      rw [hc] at h1; cases h1
    | cons x pre' =>
      cases pre' with
      | nil =>
        simp only [List.cons_append, List.nil_append, List.cons.injEq] at hL
        cases hL.2.1
      | cons y pre'' =>
        simp only [List.cons_append, List.cons.injEq] at hL
        exact ih pre'' post p kids hL.2.2

/-- Every `_onBounds` call directly follows the `_act` of the same reduction and carries its
result and the first/last token of its span. -/
theorem LogWF.bounds_pred {L : List Event} (h : LogWF L) :
    ∀ (pre post : List Event) (p : Nat) (v : Val) (b e : Nat), L = pre ++ .bounds p v b e :: post →
      ∃ pre' kids, pre = pre' ++ [.act p kids] ∧ v = .node p kids ∧
        (yieldIdx v).head? = some b ∧ (yieldIdx v).getLast? = some e := by
  induction h with
  | nil => intro pre post p v b e hL; cases pre <;> cases hL
  | @actE p0 k0 rest hy hrest ih =>
    intro pre post p v b e hL
    cases pre with
    | nil => simp only [List.nil_append, List.cons.injEq] at hL; cases hL.1
    | cons x pre' =>
      simp only [List.cons_append, List.cons.injEq] at hL
      obtain ⟨pre'', kids, rfl, hv⟩ := ih pre' post p v b e hL.2
      exact ⟨x :: pre'', kids, rfl, hv⟩
  | @actB p0 k0 b0 e0 rest h1 h2 hrest ih =>
    intro pre post p v b e hL
    cases pre with
    | nil => simp only [List.nil_append, List.cons.injEq] at hL; cases hL.1
    | cons x pre' =>
      cases pre' with
      | nil =>
        simp only [List.cons_append, List.nil_append, List.cons.injEq, Event.bounds.injEq] at hL
        obtain ⟨rfl, ⟨rfl, rfl, rfl, rfl⟩, rfl⟩ := hL
        exact ⟨[], k0, rfl, rfl, h1, h2⟩
      | cons y pre'' =>
        simp only [List.cons_append, List.cons.injEq] at hL
        obtain ⟨pre3, kids, rfl, hv⟩ := ih pre'' post p v b e hL.2.2
        exact ⟨x :: y :: pre3, kids, rfl, hv⟩

end Lox.LR.Rt
