import Lox.Drv.Common
import Lox.LR.DrvValidate
import Lox.LR.Justify
/-! Driver op of the ⊆ validator (`Lox/LR/Justify.lean`).

`lr.justify <same payload as lr.validate>`
  answer: `ok productive` / `ok unproductive:<rule>` / `fail <reason>`.
  `ok` = `Lox.LR.justify` passes (sound by `Lox.LR.justify_sound`: every item of the certificate is
  an LALR(1) item, every `_actions`/`_goto` entry is called for by an item – a reduce on `a` by the
  completed item with lookahead `a` –, distinct states have distinct LR(0) kernels); the second word reports `Lox.LR.productiveB` (sound by
  `Lox.LR.productiveB_sound`): `productive` = every nonterminal occurring in the grammar derives a
  token string, otherwise the first rule index that does not. -/
namespace Lox.LR
open Lox.Drv

def handleJustifyPayload (payload : String) : Option String := do
  let (G, nTerms, nRules, T, cert) ← parseValidate payload
  match justify G nTerms nRules T cert with
  | .ok () =>
    if productiveB G nRules then some "ok productive"
    else
      match firstUnproductive G nRules with
      | some B => some ("ok unproductive:" ++ toString B)
      | none => some "ok unproductive:?"
  | .error e => some ("fail " ++ e)

def handleJustify (op payload : String) : Option String :=
  match op with
  | "lr.justify" => handleJustifyPayload payload
  | _ => none

end Lox.LR
