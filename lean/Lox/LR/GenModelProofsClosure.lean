import Lox.LR.GenModelProofs
/-! Closure and Goto of the generator model (`Lox/LR/GenModel.lean`): specification and proofs.

Specification (read these): `ClosureRule` (the LR(1) closure rule with the SEMANTIC first sets),
`ClosureOf` (the least set containing `I` and closed under the rule), `ClosedSet`.
Main results: `closureLoop_spec` (what the loop returns is exactly `ClosureOf`),
`closureLoop_isSome` (the fuel suffices), `mem_advance`. Core Lean only. -/
namespace Lox.LR.Gen
open Lox.LR

/-! ## Specification -/

/-- The LR(1) closure rule: from `[A → α·Bβ, a]`, for a production `q` of `B` and a terminal `b`
that can stand first in a sentential form derived from `β a`, the item `[B → ·γ, b]`. -/
def ClosureRule (G : Grammar) (it new : Item) : Prop :=
  ∃ (pr : Prod) (B : Nat) (qr : Prod), G.prods[it.p]? = some pr ∧ pr.rhs[it.d]? = some (.n B) ∧
    G.prods[new.p]? = some qr ∧ qr.lhs = B ∧ new.d = 0 ∧
    SFirst G (pr.rhs.drop (it.d + 1) ++ [.t it.a]) new.a

/-- The least item set containing `I` and closed under the closure rule. -/
inductive ClosureOf (G : Grammar) (I : List Item) : Item → Prop where
  | base {it : Item} : it ∈ I → ClosureOf G I it
  | step {it new : Item} : ClosureOf G I it → ClosureRule G it new → ClosureOf G I new

/-- `C` is closed under the closure rule. -/
def ClosedSet (G : Grammar) (C : List Item) : Prop :=
  ∀ it ∈ C, ∀ new, ClosureRule G it new → new ∈ C

/-- The FIRST table is exact (what `firstSets_exact` gives for `firstSets G nT`). -/
def ExactTab (G : Grammar) (F : Tab) : Prop :=
  ∀ (α : List Sym) (b : Nat), b ∈ (firstSeq F α).1 ↔ SFirst G α b

theorem exactTab_firstSets {G : Grammar} {nT : Nat} (ht : TermsBelow G nT) :
    ExactTab G (firstSets G nT) :=
  fun α b => (firstSets_exact ht α).1 b

/-! ## `expand` is the closure rule -/

theorem mem_prodsOf {G : Grammar} {B q : Nat} :
    q ∈ prodsOf G B ↔ ∃ qr : Prod, G.prods[q]? = some qr ∧ qr.lhs = B := by
  unfold prodsOf
  rw [List.mem_filter, List.mem_range]
  constructor
  · rintro ⟨hlt, h⟩
    cases hq : G.prods[q]? with
    | none => simp [hq] at h
    | some qr =>
      simp only [hq, beq_iff_eq] at h
      exact ⟨qr, rfl, h⟩
  · rintro ⟨qr, hq, hB⟩
    refine ⟨?_, by simp [hq, hB]⟩
    rcases Nat.lt_or_ge q G.prods.size with h | h
    · exact h
    · have : G.prods[q]? = none := by simp; omega
      rw [this] at hq
      cases hq

theorem mem_expand {G : Grammar} {F : Tab} (hF : ExactTab G F) {it new : Item} :
    new ∈ expand G F it ↔ ClosureRule G it new := by
  unfold expand ClosureRule
  cases hp : G.prods[it.p]? with
  | none => simp
  | some pr =>
    simp only
    cases hd : pr.rhs[it.d]? with
    | none => simp [hd]
    | some s =>
      cases s with
      | t a => simp [hd]
      | n B =>
        simp only [List.mem_flatMap, List.mem_map, firstLA]
        constructor
        · rintro ⟨q, hq, x, hx, rfl⟩
          obtain ⟨qr, hqr, hB⟩ := mem_prodsOf.mp hq
          exact ⟨pr, B, qr, rfl, hd, hqr, hB, rfl, (hF _ _).mp hx⟩
        · rintro ⟨pr', B', qr, hpr, hB', hqr, hl, hd0, hf⟩
          cases hpr
          rw [hd] at hB'
          injection hB' with hB'
          injection hB' with hB'
          subst hB'
          refine ⟨new.p, mem_prodsOf.mpr ⟨qr, hqr, hl⟩, new.a, (hF _ _).mpr hf, ?_⟩
          cases new
          simp only at hd0
          simp [hd0]

/-! ## The fold `addNew` -/

theorem foldl_addNew (cands : List Item) (R N : List Item) :
    (∀ x, x ∈ (cands.foldl addNew (R, N)).1 ↔ x ∈ R ∨ x ∈ cands) ∧
    (∀ x, x ∈ (cands.foldl addNew (R, N)).2 ↔ x ∈ N ∨ (x ∈ cands ∧ x ∉ R)) ∧
    (R.Nodup → (cands.foldl addNew (R, N)).1.Nodup) ∧
    (cands.foldl addNew (R, N)).1.length + N.length = R.length + (cands.foldl addNew (R, N)).2.length := by
  induction cands generalizing R N with
  | nil => simp
  | cons c cands ih =>
    simp only [List.foldl_cons]
    by_cases hc : c ∈ R
    · have hstep : addNew (R, N) c = (R, N) := by simp [addNew, hc]
      rw [hstep]
      obtain ⟨h1, h2, h3, h4⟩ := ih R N
      refine ⟨?_, ?_, h3, h4⟩
      · intro x
        rw [h1 x]
        constructor
        · rintro (h | h)
          · exact Or.inl h
          · exact Or.inr (by simp [h])
        · rintro (h | h)
          · exact Or.inl h
          · rcases List.mem_cons.mp h with rfl | h
            · exact Or.inl hc
            · exact Or.inr h
      · intro x
        rw [h2 x]
        constructor
        · rintro (h | ⟨h, hn⟩)
          · exact Or.inl h
          · exact Or.inr ⟨by simp [h], hn⟩
        · rintro (h | ⟨h, hn⟩)
          · exact Or.inl h
          · rcases List.mem_cons.mp h with rfl | h
            · exact absurd hc hn
            · exact Or.inr ⟨h, hn⟩
    · have hstep : addNew (R, N) c = (c :: R, c :: N) := by simp [addNew, hc]
      rw [hstep]
      obtain ⟨h1, h2, h3, h4⟩ := ih (c :: R) (c :: N)
      refine ⟨?_, ?_, ?_, ?_⟩
      · intro x
        rw [h1 x]
        simp only [List.mem_cons]
        constructor
        · rintro ((rfl | h) | h)
          · exact Or.inr (Or.inl rfl)
          · exact Or.inl h
          · exact Or.inr (Or.inr h)
        · rintro (h | rfl | h)
          · exact Or.inl (Or.inr h)
          · exact Or.inl (Or.inl rfl)
          · exact Or.inr h
      · intro x
        rw [h2 x]
        simp only [List.mem_cons, not_or]
        constructor
        · rintro ((rfl | h) | ⟨h, hn1, hn2⟩)
          · exact Or.inr ⟨Or.inl rfl, hc⟩
          · exact Or.inl h
          · exact Or.inr ⟨Or.inr h, hn2⟩
        · rintro (h | ⟨rfl | h, hn⟩)
          · exact Or.inl (Or.inr h)
          · exact Or.inl (Or.inl rfl)
          · by_cases hxc : x = c
            · exact Or.inl (Or.inl hxc)
            · exact Or.inr ⟨h, hxc, hn⟩
      · intro hR
        exact h3 (List.nodup_cons.mpr ⟨hc, hR⟩)
      · simp only [List.length_cons] at h4
        omega

/-! ## The loop computes `ClosureOf` -/

/-- Invariant of the loop on (result, pending). -/
structure LoopInv (G : Grammar) (F : Tab) (I R P : List Item) : Prop where
  base : ∀ x ∈ I, x ∈ R
  pend : ∀ x ∈ P, x ∈ R
  done : ∀ it ∈ R, it ∉ P → ∀ new ∈ expand G F it, new ∈ R
  just : ∀ x ∈ R, ClosureOf G I x

theorem loopInv_round {G : Grammar} {F : Tab} (hF : ExactTab G F) {I R P : List Item}
    (h : LoopInv G F I R P) :
    LoopInv G F I (closureRound G F R P).1 (closureRound G F R P).2 := by
  unfold closureRound
  obtain ⟨h1, h2, _, _⟩ := foldl_addNew (P.flatMap (expand G F)) R []
  constructor
  · intro x hx
    exact (h1 x).mpr (Or.inl (h.base x hx))
  · intro x hx
    rcases (h2 x).mp hx with h' | ⟨h', _⟩
    · simp at h'
    · exact (h1 x).mpr (Or.inr h')
  · intro it hit hnp new hnew
    have hitR : it ∈ R := by
      rcases (h1 it).mp hit with h' | h'
      · exact h'
      · by_cases hn : it ∈ R
        · exact hn
        · exact absurd ((h2 it).mpr (Or.inr ⟨h', hn⟩)) hnp
    by_cases hP : it ∈ P
    · exact (h1 new).mpr (Or.inr (List.mem_flatMap.mpr ⟨it, hP, hnew⟩))
    · exact (h1 new).mpr (Or.inl (h.done it hitR hP new hnew))
  · intro x hx
    rcases (h1 x).mp hx with h' | h'
    · exact h.just x h'
    · obtain ⟨it, hit, hnew⟩ := List.mem_flatMap.mp h'
      exact .step (h.just it (h.pend it hit)) ((mem_expand hF).mp hnew)

theorem loopInv_init (G : Grammar) (F : Tab) (I : List Item) :
    LoopInv G F I (I.foldl addNew ([], [])).1 (I.foldl addNew ([], [])).2 := by
  obtain ⟨h1, h2, _, _⟩ := foldl_addNew I [] []
  constructor
  · intro x hx; exact (h1 x).mpr (Or.inr hx)
  · intro x hx
    rcases (h2 x).mp hx with h' | ⟨h', _⟩
    · simp at h'
    · exact (h1 x).mpr (Or.inr h')
  · intro it hit hnp
    exfalso
    rcases (h1 it).mp hit with h' | h'
    · simp at h'
    · exact hnp ((h2 it).mpr (Or.inr ⟨h', by simp⟩))
  · intro x hx
    rcases (h1 x).mp hx with h' | h'
    · simp at h'
    · exact .base h'

/-- What the loop returns is exactly the least closed set. -/
theorem closureLoop_spec {G : Grammar} {F : Tab} (hF : ExactTab G F) {I : List Item} (n : Nat)
    {R P C : List Item} (h : LoopInv G F I R P) (hr : closureLoop G F n R P = some C) :
    ∀ x, x ∈ C ↔ ClosureOf G I x := by
  induction n generalizing R P with
  | zero => simp [closureLoop] at hr
  | succ n ih =>
    simp only [closureLoop] at hr
    split at hr
    · rename_i hP
      cases hr
      have hP : P = [] := by simpa using hP
      subst hP
      intro x
      constructor
      · exact h.just x
      · intro hx
        induction hx with
        | base hi => exact h.base _ hi
        | step _ hrule ih' => exact h.done _ ih' (by simp) _ ((mem_expand hF).mpr hrule)
    · exact ih (loopInv_round hF h) hr

/-! ## The fuel suffices -/

/-- The items `[q, 0, x]` the loop can add. -/
def newItems (nP nT : Nat) : List Item :=
  (List.range nP).flatMap fun q => (List.range nT).map fun x => ⟨q, 0, x⟩

theorem length_newItems (nP nT : Nat) : (newItems nP nT).length = nP * nT := by
  unfold newItems
  induction nP with
  | zero => simp
  | succ n ih =>
    rw [List.range_succ, List.flatMap_append, List.length_append, ih]
    simp [Nat.succ_mul]

theorem mem_newItems {nP nT : Nat} {x : Item} :
    x ∈ newItems nP nT ↔ x.p < nP ∧ x.d = 0 ∧ x.a < nT := by
  unfold newItems
  simp only [List.mem_flatMap, List.mem_range, List.mem_map]
  constructor
  · rintro ⟨q, hq, a, ha, rfl⟩
    exact ⟨hq, rfl, ha⟩
  · rintro ⟨h1, h2, h3⟩
    refine ⟨x.p, h1, x.a, h3, ?_⟩
    cases x
    simp only at h2
    simp [h2]

theorem expand_in_newItems {G : Grammar} {nT : Nat} {F : Tab} (ht : TermsBelow G nT)
    (hw : WFTab nT F) {it new : Item} (ha : it.a < nT) (h : new ∈ expand G F it) :
    new ∈ newItems G.prods.size nT := by
  unfold expand at h
  cases hp : G.prods[it.p]? with
  | none => simp [hp] at h
  | some pr =>
    simp only [hp] at h
    cases hd : pr.rhs[it.d]? with
    | none => simp [hd] at h
    | some s =>
      cases s with
      | t a => simp [hd] at h
      | n B =>
        simp only [hd, List.mem_flatMap, List.mem_map, firstLA] at h
        obtain ⟨q, hq, x, hx, rfl⟩ := h
        rw [mem_newItems]
        refine ⟨?_, rfl, ?_⟩
        · unfold prodsOf at hq
          exact List.mem_range.mp (List.mem_filter.mp hq).1
        · apply firstSeq_below hw _ x hx
          intro b hb
          rcases List.mem_append.mp hb with hb | hb
          · exact ht pr (mem_prods_iff.mpr ⟨it.p, hp⟩) b (List.mem_of_mem_drop hb)
          · simp at hb
            rw [hb]; exact ha

/-- Size invariant: `R` is duplicate-free, its lookaheads are terminals, and it lies in
`R0 ∪ newItems`. -/
structure SizeInv (G : Grammar) (nT : Nat) (R0 R : List Item) : Prop where
  nodup : R.Nodup
  below : ∀ x ∈ R, x.a < nT
  sub : ∀ x ∈ R, x ∈ R0 ∨ x ∈ newItems G.prods.size nT

theorem sizeInv_bound {G : Grammar} {nT : Nat} {R0 R : List Item} (h : SizeInv G nT R0 R) :
    R.length ≤ R0.length + G.prods.size * nT := by
  have := List.Nodup.length_le_of_subset h.nodup (l₂ := R0 ++ newItems G.prods.size nT)
    (fun x hx => List.mem_append.mpr (h.sub x hx))
  simpa [length_newItems] using this

theorem sizeInv_round {G : Grammar} {nT : Nat} {F : Tab} (ht : TermsBelow G nT) (hw : WFTab nT F)
    {R0 R P : List Item} (h : SizeInv G nT R0 R) (hP : ∀ x ∈ P, x ∈ R) :
    SizeInv G nT R0 (closureRound G F R P).1 ∧
      (closureRound G F R P).1.length = R.length + (closureRound G F R P).2.length := by
  unfold closureRound
  obtain ⟨h1, _, h3, h4⟩ := foldl_addNew (P.flatMap (expand G F)) R []
  have hcand : ∀ x ∈ P.flatMap (expand G F), x ∈ newItems G.prods.size nT := by
    intro x hx
    obtain ⟨it, hit, hnew⟩ := List.mem_flatMap.mp hx
    exact expand_in_newItems ht hw (h.below it (hP it hit)) hnew
  refine ⟨⟨h3 h.nodup, ?_, ?_⟩, by simpa using h4⟩
  · intro x hx
    rcases (h1 x).mp hx with h' | h'
    · exact h.below x h'
    · exact (mem_newItems.mp (hcand x h')).2.2
  · intro x hx
    rcases (h1 x).mp hx with h' | h'
    · exact h.sub x h'
    · exact Or.inr (hcand x h')

theorem closureLoop_isSome {G : Grammar} {nT : Nat} {F : Tab} (ht : TermsBelow G nT)
    (hw : WFTab nT F) {R0 : List Item} (n : Nat) {R P : List Item} (h : SizeInv G nT R0 R)
    (hP : ∀ x ∈ P, x ∈ R) (hn : R0.length + G.prods.size * nT + 2 ≤ R.length + n) :
    ∃ C, closureLoop G F n R P = some C := by
  induction n generalizing R P with
  | zero =>
    have := sizeInv_bound h
    omega
  | succ n ih =>
    simp only [closureLoop]
    split
    · exact ⟨R, rfl⟩
    · obtain ⟨hinv, hlen⟩ := sizeInv_round (F := F) ht hw h hP
      have hP' : ∀ x ∈ (closureRound G F R P).2, x ∈ (closureRound G F R P).1 := by
        unfold closureRound
        obtain ⟨h1, h2, _, _⟩ := foldl_addNew (P.flatMap (expand G F)) R []
        intro x hx
        rcases (h2 x).mp hx with h' | ⟨h', _⟩
        · simp at h'
        · exact (h1 x).mpr (Or.inr h')
      by_cases hemp : (closureRound G F R P).2 = []
      · -- nothing was added: the next pass sees an empty `pending`
        have hb := sizeInv_bound h
        cases n with
        | zero => omega
        | succ k =>
          refine ⟨(closureRound G F R P).1, ?_⟩
          simp [closureLoop, hemp]
      · have hpos : 0 < (closureRound G F R P).2.length := List.length_pos_iff.mpr hemp
        exact ih hinv hP' (by omega)

/-! ## Goto -/

theorem mem_advance {G : Grammar} {I : List Item} {X : Sym} {x : Item} :
    x ∈ advance G I X ↔ ∃ it ∈ I, afterDot G it = some X ∧ x = ⟨it.p, it.d + 1, it.a⟩ := by
  unfold advance
  simp only [List.mem_filterMap]
  constructor
  · rintro ⟨it, hit, h⟩
    split at h
    · rename_i ha
      cases h
      exact ⟨it, hit, ha, rfl⟩
    · cases h
  · rintro ⟨it, hit, ha, rfl⟩
    exact ⟨it, hit, by simp [ha]⟩

end Lox.LR.Gen
