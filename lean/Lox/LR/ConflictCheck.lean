import Lox.LR.Justify
import Lox.LR.GenModel
/-! A validator for the OUTPUT OF `ConstructLALR` that needs no emitted tables – so it also speaks
about the grammars lox REFUSES ("grammar has conflicts").

Input: the grammar, the generator's item sets per state (`cert`, as `certLine` prints
`ParserTable.States[i].Items()`) and the generator's TRANSITIONS per state (`TransTab`, read from
`ParserTable.Transitions(state).Inputs()/Get`). The automaton skeleton the definition
(`Lox/LR/LALR.lean`: `LALRItem`, `Cand`, `Conflict`) is applied to is `skelAuto tr cert`: its edges
are exactly the given transitions.

Checks (`conflictCheckB`):
* ⊇ (`closedSkelB`): start item in state 0; every symbol after a dot has a transition and the
  advanced item is in the target; closure w.r.t. a FIRST table that is closed under the FIRST
  equations (`firstFix` / `closedB` of `Check.lean`, which contains the semantic FIRST:
  `first_complete`); plus the shape conditions of `Safe` (edges lead to states whose dot>0 items
  have the edge symbol before the dot and a predecessor in the source, no edge into state 0, no
  edge on EOF, `S' → ·S` only in state 0, production-0 items carry EOF) and every edge is called
  for by an item;
* ⊆ (`justSkelWith`): the ranked justification of `Justify.lean` (`rankOKB`, `itemsJustB` – both
  are generic in the automaton) on the skeleton;
* kernels distinct (`kernelsDistinctB`).

Verdict (`verdictB`): `Lox.Dec.hasConflicts` (model of the loop at the end of `resolveConflicts`)
on the cells `Lox.LR.Gen.cellOn` (model of `createActions`) builds from the certificate.

Soundness: `Lox/LR/ConflictCheckSound.lean` (`conflict_check_sound`), property theorems
`Lox/Props/C04_verdict.lean`. Core Lean only (linked into the driver). -/
namespace Lox.LR

/-- The transitions of every state: `(symbol, target)` pairs (`TransitionMap`). -/
abbrev TransTab := Array (List (Sym × Nat))

/-- `TransitionMap.Get` as a first-match lookup; `none` = "no transition for input". -/
def lookupSym (X : Sym) : List (Sym × Nat) → Option Nat
  | [] => none
  | (Y, s) :: r => if Y = X then some s else lookupSym X r

def rowOfT (tr : TransTab) (s : Nat) : List (Sym × Nat) := tr[s]?.getD []

/-- The automaton skeleton given by the transitions: only shift actions (one per terminal
transition) and gotos; the items are the certificate. `trans (skelAuto tr cert) s X` is the lookup
of `X` in the transitions of `s` (`trans_skel`). -/
def skelAuto (tr : TransTab) (cert : Array (List Item)) : Auto where
  action s a := (lookupSym (.t a) (rowOfT tr s)).map Act.shift
  goto s B := lookupSym (.n B) (rowOfT tr s)
  items s := itemsOf cert s

/-! ### ⊇: closedness and shape -/

/-- goto: the symbol `X` after the dot has a transition, the advanced item is in its target. -/
def gotoCB (tr : TransTab) (cert : Array (List Item)) (s : Nat) (it : Item) (X : Sym) : Bool :=
  match lookupSym X (rowOfT tr s) with
  | some s' => hasItem (itemsOf cert s') ⟨it.p, it.d + 1, it.a⟩
  | none => false

/-- closure: for `[A → α·Bβ, a]` every `[B → ·γ, b]` with `b ∈ FIRST(βa)` (table `F`) is among the
dot-0 items `d0` of the state. -/
def closureCB (G : Grammar) (F : FirstTab) (d0 : Array (List Nat)) (pr : Prod) (it : Item)
    (B : Nat) : Bool :=
  let fs := firstOf F (pr.rhs.drop (it.d + 1)) it.a
  (List.range G.prods.size).all fun q =>
    match G.prods[q]? with
    | some qr => qr.lhs != B || fs.all fun b => decide (b ∈ d0[q]?.getD [])
    | none => true

/-- shape (`Safe`): a dot-0 item's rule has a goto; `S' → ·S` only in state 0; state 0 has only
dot-0 items; items of production 0 carry EOF. -/
def shapeCB (tr : TransTab) (s : Nat) (it : Item) (pr : Prod) : Bool :=
  (it.d != 0 || it.p == 0 || (lookupSym (.n pr.lhs) (rowOfT tr s)).isSome) &&
  (!(it.p == 0 && it.d == 0) || s == 0) && (s != 0 || it.d == 0) && (it.p != 0 || it.a == 0)

/-- Conditions on one item of state `s`. -/
def itemCB (G : Grammar) (nTerms : Nat) (F : FirstTab) (tr : TransTab) (cert : Array (List Item))
    (s : Nat) (d0 : Array (List Nat)) (it : Item) : Bool :=
  decide (it.a < nTerms) &&
  match G.prods[it.p]? with
  | none => false
  | some pr =>
    (match pr.rhs[it.d]? with
    | some (.t x) => gotoCB tr cert s it (.t x)
    | some (.n B) => gotoCB tr cert s it (.n B) && closureCB G F d0 pr it B
    | none => it.d == pr.rhs.length) &&
    shapeCB tr s it pr

/-- Conditions on one transition `s --X--> s'`. -/
def edgeCB (G : Grammar) (cert : Array (List Item)) (s : Nat) (X : Sym) (s' : Nat) : Bool :=
  X != .t 0 && backB G cert s X s' && hasNext G (itemsOf cert s) X

def skelStateB (G : Grammar) (nTerms : Nat) (F : FirstTab) (tr : TransTab)
    (cert : Array (List Item)) (s : Nat) : Bool :=
  let items := itemsOf cert s
  let d0 := dot0Of items G.prods.size
  items.all (fun it => itemCB G nTerms F tr cert s d0 it) &&
  (rowOfT tr s).all fun e => edgeCB G cert s e.1 e.2

/-- The ⊇ half and the shape conditions. -/
def closedSkelB (G : Grammar) (nTerms nRules : Nat) (tr : TransTab) (cert : Array (List Item)) :
    Bool :=
  let F := firstFix G nTerms nRules
  prod0B G && closedB G F && tr.size == cert.size && hasItem (itemsOf cert 0) ⟨0, 0, 0⟩ &&
  (List.range cert.size).all fun s => skelStateB G nTerms F tr cert s

/-! ### ⊆ and kernels -/

/-- The trusted ⊆ check for given (arbitrary) ranks and parents. -/
def justSkelWith (G : Grammar) (tr : TransTab) (cert : Array (List Item)) (R : RankTab)
    (rk : Nat → Item → Nat) (jf : Nat → Item → Just) : Bool :=
  rankOKB G R && itemsJustB G (skelAuto tr cert) R rk jf cert.size && kernelsDistinctB cert

def justSkelB (G : Grammar) (nTerms nRules : Nat) (tr : TransTab) (cert : Array (List Item)) :
    Bool :=
  let R := rankTabs G nTerms nRules
  let (rk, jf) := Jst.searchRanks G nRules (skelAuto tr cert) cert R
  justSkelWith G tr cert R rk jf

/-- All checks. -/
def conflictCheckB (G : Grammar) (nTerms nRules : Nat) (tr : TransTab) (cert : Array (List Item)) :
    Bool :=
  closedSkelB G nTerms nRules tr cert && justSkelB G nTerms nRules tr cert

/-! ### The verdict computed from the certificate -/

/-- `t.Transitions(state).Get(terminal)`. -/
def trTerm (tr : TransTab) (s : Nat) (x : Nat) : Option Nat := lookupSym (.t x) (rowOfT tr s)

/-- The action cells `createActions` builds for state `s` (model: `Gen.cellOn`), one per terminal
that gets a cell (`Gen.cellTerminals`). -/
def stateCells (G : Grammar) (nTerms : Nat) (tr : TransTab) (cert : Array (List Item)) (s : Nat) :
    List (List Lox.Dec.Action) :=
  (Gen.cellTerminals G nTerms (trTerm tr s) (itemsOf cert s)).filterMap fun a =>
    match Gen.cellOn G nTerms (trTerm tr s) (itemsOf cert s) a with
    | .ok c => some c
    | .error _ => none

def tableCells (G : Grammar) (nTerms : Nat) (tr : TransTab) (cert : Array (List Item)) :
    List (List Lox.Dec.Action) :=
  (List.range cert.size).flatMap fun s => stateCells G nTerms tr cert s

/-- `ParserTable.HasConflicts` as computed from the certificate: `createActions` then the loop of
`resolveConflicts`. -/
def verdictB (G : Grammar) (nTerms : Nat) (info : Nat → Lox.Dec.ProdInfo) (tr : TransTab)
    (cert : Array (List Item)) : Bool :=
  Lox.Dec.hasConflicts info (tableCells G nTerms tr cert)

/-- `createActions` would panic on some state (never when the checks pass). -/
def actionsPanicB (G : Grammar) (nTerms : Nat) (tr : TransTab) (cert : Array (List Item)) : Bool :=
  (List.range cert.size).any fun s =>
    (Gen.actionsOf G nTerms (trTerm tr s) (itemsOf cert s)).isNone

/-! ### Diagnosis (untrusted) and the validator -/

def diagnoseConflictCheck (G : Grammar) (nTerms nRules : Nat) (tr : TransTab)
    (cert : Array (List Item)) : String :=
  let F := firstFix G nTerms nRules
  if !prod0B G then "production 0 is not S' -> start"
  else if !closedB G F then "FIRST table not closed"
  else if !(tr.size == cert.size) then "transition rows and states differ in number"
  else if !hasItem (itemsOf cert 0) ⟨0, 0, 0⟩ then "start item missing in state 0"
  else
    match (List.range cert.size).find? fun s => !skelStateB G nTerms F tr cert s with
    | some s =>
      let items := itemsOf cert s
      let d0 := dot0Of items G.prods.size
      let st := "closed: state " ++ toString s ++ ": "
      (match items.find? fun it => !itemCB G nTerms F tr cert s d0 it with
      | some it => st ++ "item " ++ toString it.p ++ " " ++ toString it.d ++ " " ++ toString it.a
      | none =>
        match (rowOfT tr s).find? fun e => !edgeCB G cert s e.1 e.2 with
        | some e => st ++ "transition to " ++ toString e.2
        | none => st ++ "unknown")
    | none =>
      let R := rankTabs G nTerms nRules
      let A := skelAuto tr cert
      let (rk, jf) := Jst.searchRanks G nRules A cert R
      if !rankOKB G R then "justify: ranked FIRST table"
      else
        match (List.range cert.size).find? fun s =>
            !(A.items s).all fun it => justItemB G A R rk jf s it with
        | some s =>
          (match (A.items s).find? fun it => !justItemB G A R rk jf s it with
          | some it => "justify: state " ++ toString s ++ ": unjustified item " ++ toString it.p ++
              " " ++ toString it.d ++ " " ++ toString it.a
          | none => "justify: state " ++ toString s)
        | none => "two states with the same LR(0) kernel"

/-- The validator: `.ok verdict` when all checks pass (`verdict` = the conflict flag by
definition, `Lox.Props.C04.verdict_exact`), otherwise the first failing condition. -/
def conflictCheck (G : Grammar) (nTerms nRules : Nat) (info : Nat → Lox.Dec.ProdInfo)
    (tr : TransTab) (cert : Array (List Item)) : Except String Bool :=
  if conflictCheckB G nTerms nRules tr cert then .ok (verdictB G nTerms info tr cert)
  else .error (diagnoseConflictCheck G nTerms nRules tr cert)

/-- What the driver answers for `lr.conflict_check`: the verdict by definition when all checks
pass AND it equals the generator's own `ParserTable.HasConflicts` flag; an error otherwise. -/
def conflictVerdict (G : Grammar) (nTerms nRules : Nat) (info : Nat → Lox.Dec.ProdInfo)
    (tr : TransTab) (cert : Array (List Item)) (flag : Bool) : Except String Bool :=
  match conflictCheck G nTerms nRules info tr cert with
  | .error e => .error e
  | .ok v =>
    if v == flag then .ok v
    else .error ("HasConflicts flag is " ++ toString flag ++ ", the verdict by definition is " ++
      toString v)

end Lox.LR
