import Lox.LR.DesugarProofs
import Lox.LR.EmitProofsCheck
/-! Tables emitted for a grammar that does not use a terminal hold no action on it: lookaheads of
LALR(1) items are EOF or terminals of right-hand sides. Applied to the ERROR terminal this gives
`NoErrorActions` for every grammar without `@error` (`Lox.Props.C01.generator_no_error_actions`,
`sugar_generator_no_error_actions`). Helper lemmas, plus the specification-level predicate
`SGrammar.errorFree` ("the sugar grammar does not use `@error`"). -/
namespace Lox.LR
open Lox.LR.Gen Lox.LR.Cons Lox.LR.Emit

/-! ### Lookaheads come from right-hand sides -/

/-- The terminal `a` stands on some right-hand side of the grammar. -/
def TermUsed (G : Grammar) (a : Nat) : Prop :=
  ∃ (q : Nat) (qr : Prod), G.prods[q]? = some qr ∧ Sym.t a ∈ qr.rhs

theorem derives_mem {G : Grammar} {α β : List Sym} (h : Derives G α β) :
    ∀ X ∈ β, X ∈ α ∨ ∃ (q : Nat) (qr : Prod), G.prods[q]? = some qr ∧ X ∈ qr.rhs := by
  induction h with
  | refl α => exact fun X hX => .inl hX
  | @step α₁ α₂ β q qr hq _ ih =>
    intro X hX
    rcases ih X hX with h | h
    · simp only [List.mem_append] at h
      rcases h with (h | h) | h
      · exact .inl (by simp [h])
      · exact .inr ⟨q, qr, hq, h⟩
      · exact .inl (by simp [h])
    · exact .inr h

/-- The lookahead of a valid LR(1) item is EOF or a terminal that stands on a right-hand side. -/
theorem lr1_la {G : Grammar} {γ : List Sym} {it : Item} (h : LR1Item G γ it) :
    it.a = eof ∨ TermUsed G it.a := by
  induction h with
  | start => exact .inl rfl
  | goto _ _ _ ih => exact ih
  | @closure γ p d a pr B q qr b _ hp _ _ _ hf ih =>
    rcases hf with ⟨δ, hd⟩ | ⟨_, rfl⟩
    · rcases derives_mem hd (.t b) (by simp) with hm | ⟨q', qr', hq', hm⟩
      · exact .inr ⟨p, pr, hp, List.mem_of_mem_drop hm⟩
      · exact .inr ⟨q', qr', hq', hm⟩
    · exact ih

/-- **No action on an unused terminal.** In the tables emitted (any precedences) for the parser
table of `construct`, a terminal `a ≠ EOF` that stands on no right-hand side has no entry in any
`_actions` row. -/
theorem emitted_unused_miss {info : Nat → Lox.Dec.ProdInfo} {G : Grammar} {nT : Nat}
    {ord : List Sym} {st : CState} {T : Tables} (hb : Built G nT st)
    (he : Emitted info G nT ord st T) {a : Nat} (ha0 : a ≠ 0) (hu : ¬ TermUsed G a) {s : Nat}
    (hs : s < st.states.length) : find T.actions (s : Int) (a : Int) = .miss := by
  obtain ⟨row, hrow, _, hfind⟩ := he.arow s hs
  have hnone : Lox.Table.firstMatch row (a : Int) = none := by
    rw [Lox.Table.firstMatch_none]
    intro hm
    obtain ⟨⟨k, v⟩, hkv, hk⟩ := List.mem_map.mp hm
    simp only at hk
    subst hk
    obtain ⟨a', act, cell, hka, hct, _, _, _⟩ := actionRow_entries hrow hkv
    have haa : a' = a := by exact_mod_cast hka.symm
    subst haa
    have hI : st.states[s]? = some (st.states[s]?.getD []) := by
      rw [List.getElem?_eq_getElem hs]; rfl
    rcases cellTerminals_cases hct with ⟨it, hit, hia, _⟩ | ⟨it, hit, had⟩
    · obtain ⟨γ, _, hl⟩ := hb.lr1 hI hit
      rcases lr1_la hl with h0 | hused
      · rw [hia] at h0; exact ha0 h0
      · rw [hia] at hused; exact hu hused
    · obtain ⟨pr, hp, hX⟩ := afterDot_eq.mp had
      exact hu ⟨it.p, pr, hp, List.mem_of_getElem? hX⟩
  rw [hfind, hnone]
  rfl

/-! ### Sugar grammars without `@error` -/

namespace SGrammar

/-- The sugar grammar does not use `@error` (no term mentions the atom `err`). Decidable. -/
def errorFree (SG : SGrammar) : Bool :=
  SG.allTerms.all fun t => t.atoms.all fun x => x != .err

variable {SG : SGrammar}

theorem visit_mem {H : List HKey} {k h : HKey} (hm : h ∈ visit SG H k) :
    h ∈ H ∨ h = k ∨ k.dep = some h := by
  unfold visit at hm
  split at hm
  · exact .inl hm
  · dsimp only at hm
    split at hm
    · simp only [List.mem_append, List.mem_singleton] at hm
      rcases hm with hm | rfl
      · exact .inl hm
      · exact .inr (.inl rfl)
    · rename_i d hd
      split at hm
      · simp only [List.mem_append, List.mem_singleton] at hm
        rcases hm with hm | rfl
        · exact .inl hm
        · exact .inr (.inl rfl)
      · simp only [List.mem_append, List.mem_singleton] at hm
        rcases hm with (hm | rfl) | rfl
        · exact .inl hm
        · exact .inr (.inl rfl)
        · exact .inr (.inr hd)

/-- Every helper was created for a term of the list (as its own helper or the helper that one
refers to). -/
theorem fold_mem (l : List STerm) (H : List HKey) {h : HKey}
    (hm : h ∈ l.foldl (visitTerm SG) H) :
    h ∈ H ∨ ∃ t ∈ l, ∃ k, t.key = some k ∧ (h = k ∨ k.dep = some h) := by
  induction l generalizing H with
  | nil => exact .inl hm
  | cons t l ih =>
    simp only [List.foldl_cons] at hm
    rcases ih _ hm with h1 | ⟨t', ht', k, hk, hh⟩
    · unfold visitTerm at h1
      split at h1
      · exact .inl h1
      · rename_i k hk
        rcases visit_mem h1 with h2 | h2
        · exact .inl h2
        · exact .inr ⟨t, by simp, k, hk, h2⟩
    · exact .inr ⟨t', by simp [ht'], k, hk, hh⟩

theorem key_atoms {t : STerm} {k : HKey} (hk : t.key = some k) : k.x ∈ t.atoms ∧ k.sep ∈ t.atoms := by
  cases t <;> simp only [STerm.key, Option.some.injEq, reduceCtorEq] at hk <;> subst hk <;>
    simp [STerm.atoms]

theorem dep_atoms {k d : HKey} (h : k.dep = some d) : d.x = k.x ∧ (d.sep = k.x ∨ d.sep = k.sep) := by
  obtain ⟨kind, x, sep⟩ := k
  cases kind <;> simp [HKey.dep] at h <;> subst h <;> simp

/-- The atoms of every helper are atoms of a term of the grammar. -/
theorem helper_atoms {h : HKey} (hm : h ∈ SG.helpers) :
    ∃ t ∈ SG.allTerms, h.x ∈ t.atoms ∧ h.sep ∈ t.atoms := by
  rcases fold_mem SG.allTerms [] hm with h0 | ⟨t, ht, k, hk, hh⟩
  · simp at h0
  · obtain ⟨h1, h2⟩ := key_atoms hk
    refine ⟨t, ht, ?_⟩
    rcases hh with rfl | hd
    · exact ⟨h1, h2⟩
    · obtain ⟨e1, e2⟩ := dep_atoms hd
      rw [e1]
      rcases e2 with e2 | e2 <;> rw [e2] <;> simp [h1, h2]

theorem symOfAtom_ne_err {x : Atom} (hx : x ≠ .err) : symOfAtom x ≠ .t 1 := by
  cases x with
  | tok a => simp [symOfAtom]
  | rule A => simp [symOfAtom]
  | err => exact absurd rfl hx

/-- The desugared form of a sugar grammar without `@error` does not use the ERROR terminal. -/
theorem errorFree_unused (he : SG.errorFree = true) : ¬ TermUsed (desugar SG).1 1 := by
  rintro ⟨q, qr, hq, hm⟩
  simp only [errorFree, List.all_eq_true, bne_iff_ne, ne_eq] at he
  have hqm : qr ∈ SG.prodList := by
    rw [← desugar_prods]; rw [Array.mem_toList_iff]; exact Array.mem_of_getElem? hq
  rcases mem_prodList.1 hqm with rfl | ⟨A, r, p, hr, hp, rfl⟩ | ⟨i, k, hi, hb⟩
  · simp at hm
  · obtain ⟨t, ht, e⟩ := List.mem_map.1 hm
    have hall := he t (term_mem_allTerms hr hp ht)
    cases t with
    | atom x =>
      have hx : x ≠ .err := hall x (by simp [STerm.atoms])
      exact symOfAtom_ne_err hx e
    | opt x => simp [symOf] at e
    | star x => simp [symOf] at e
    | starF x => simp [symOf] at e
    | plus x => simp [symOf] at e
    | list x s => simp [symOf] at e
    | listOpt x s => simp [symOf] at e
  · obtain ⟨t, ht, hx, hs⟩ := helper_atoms (List.mem_of_getElem? hi)
    have h1 := symOfAtom_ne_err (he t ht _ hx)
    have h2 := symOfAtom_ne_err (he t ht _ hs)
    obtain ⟨kind, x, sep⟩ := k
    cases kind <;> simp only [helperBody, List.mem_cons, List.not_mem_nil, or_false] at hb <;>
      rcases hb with rfl | rfl <;>
      simp only [List.mem_cons, List.not_mem_nil, or_false, reduceCtorEq, false_or] at hm <;>
      first
        | exact hm
        | exact h1 hm.symm
        | (rcases hm with hm | hm <;> first | exact h1 hm.symm | exact h2 hm.symm)

end SGrammar
end Lox.LR
