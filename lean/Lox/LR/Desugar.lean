import Lox.LR.Sugar
/-! Sugar grammars and their desugaring, as performed by the AST passes of the front end
(`internal/ast`): `ParserTerm.normalize` (parser_term.go) rewrites `x?`, `x*`, `x*!`, `x+`,
`@list(x,sep)`, `@list(x,sep)?` into references to helper rules named `<x>?`, `<x>*`, `<x>*!`,
`<x>+`, `<x>+!`, `@list(<x>,<sep>)`, `@list(<x>,<sep>)?`; `ParserRule.RunPass(CreateNames)` numbers
rules (`lr1.Grammar.AddRule`), `ParserProd.RunPass(GenerateGrammar)` numbers productions
(`lr1.Grammar.AddProd`), `Spec.RunPass(GenerateGrammar)` sets the start rule (`SetStart`).

What is modelled (single unit, the first rule carries `@start`):
* terminals: EOF = 0, ERROR = 1, the i-th declared token = i + 2 (`lr1.NewGrammar`, token rules are
  created in declaration order);
* rules: `S'` = 0, the user rules 1 … n in textual order (CreateNames pass), then the helper rules in
  the order `normalize` creates them: the Normalize pass visits rules, productions and terms in
  textual order; `generate` first looks the helper NAME up (`ctx.Lookup(name)`), and only if it is
  absent creates the rule, appends it to the unit, gives it its index (CreateNames) and then
  normalises the helper's own body – which for `x*`, `x*!`, `@list(..)?` creates the helper `x+`,
  `x+!`, `@list(..)` right after it, unless that one exists already;
* productions: `S' → start` = 0, the user productions in textual order, then two productions per
  helper rule in creation order (the GenerateGrammar pass walks the unit's statements, to which the
  helpers were appended);
* kinds: what the `_act` template does for the production (`codegen.RuleGenerated` classifies the
  rule BY NAME: suffix `*`, `*!`, `+`, `+!`, `?`, prefix `@list`; then the number of terms), with the
  numbering of `prodKinds` in harness/drv/genpkg.go = `Lox.LR.Kind.ofCode`.

Helper sharing is by NAME in the Go code. The model keeps this: two helper keys are the same helper
iff kind, child name and separator name agree (`HKey.nm`). Rendered names are injective in that
triple because rule and token names are identifiers (no `? * + ! @ ( ) ,`). The name of `@error` is
`ERROR`; a parser rule of that name would share its helpers with `@error` (defect D23, repaired:
the front end now reserves `ERROR`/`EOF` for rule names too; the model reproduces the sharing when
fed such a grammar, and `SGrammar.wf` excludes it). Core Lean only. -/
namespace Lox.LR

/-- A simple term: what may stand under a cardinality and as a `@list` parameter. -/
inductive Atom where
  | tok (a : Nat)     -- the a-th declared token (terminal a + 2)
  | rule (A : Nat)    -- the A-th user rule (rule A + 1)
  | err               -- `@error` (terminal 1)
  deriving DecidableEq, Repr, Inhabited

/-- A term of a production as the parser of `.lox` files builds it (`on_parser_term_card`,
`on_parser_list`): cardinalities apply to simple terms only; `@list` takes only `?`. -/
inductive STerm where
  | atom (x : Atom)
  | opt (x : Atom)              -- x?
  | star (x : Atom)             -- x*
  | starF (x : Atom)            -- x*!
  | plus (x : Atom)             -- x+
  | list (x sep : Atom)         -- @list(x, sep)
  | listOpt (x sep : Atom)      -- @list(x, sep)?
  deriving DecidableEq, Repr, Inhabited

structure SProd where
  terms : List STerm
  deriving DecidableEq, Repr, Inhabited

structure SRule where
  name : String
  prods : List SProd
  deriving DecidableEq, Repr, Inhabited

/-- A sugar grammar: declared token names, user rules; the first rule is `@start`. -/
structure SGrammar where
  tokens : List String
  rules : List SRule
  deriving Repr, Inhabited

/-- Kind of a helper rule. `plusF` (`x+!`) has no surface syntax; it is created by `x*!`. -/
inductive HK where
  | opt | star | starF | plus | plusF | list | listOpt
  deriving DecidableEq, Repr, Inhabited

/-- A helper rule: kind, element, separator (`sep = x` for the kinds without separator). -/
structure HKey where
  kind : HK
  x : Atom
  sep : Atom
  deriving DecidableEq, Repr, Inhabited

def STerm.key : STerm → Option HKey
  | .atom _ => none
  | .opt x => some ⟨.opt, x, x⟩
  | .star x => some ⟨.star, x, x⟩
  | .starF x => some ⟨.starF, x, x⟩
  | .plus x => some ⟨.plus, x, x⟩
  | .list x s => some ⟨.list, x, s⟩
  | .listOpt x s => some ⟨.listOpt, x, s⟩

/-- The helper a helper's own body refers to (`x* = x+ | ε`, `x*! = x+! | ε`,
`@list(x,s)? = @list(x,s) | ε`). -/
def HKey.dep (k : HKey) : Option HKey :=
  match k.kind with
  | .star => some ⟨.plus, k.x, k.x⟩
  | .starF => some ⟨.plusF, k.x, k.x⟩
  | .listOpt => some ⟨.list, k.x, k.sep⟩
  | _ => none

namespace SGrammar

/-- `Symbol.TermName()` of a simple term. -/
def atomName (SG : SGrammar) : Atom → String
  | .tok a => SG.tokens[a]?.getD "?"
  | .rule A => (SG.rules[A]?.map (·.name)).getD "?"
  | .err => "ERROR"

end SGrammar

/-- The identity of a helper as the front end sees it (its name, kept structured). -/
def HKey.nm (SG : SGrammar) (k : HKey) : HK × String × String :=
  (k.kind, SG.atomName k.x, SG.atomName k.sep)

/-- The helper rule's name. -/
def HKey.name (SG : SGrammar) (k : HKey) : String :=
  let x := SG.atomName k.x
  let l := "@list(" ++ x ++ "," ++ SG.atomName k.sep ++ ")"
  match k.kind with
  | .opt => x ++ "?"
  | .star => x ++ "*"
  | .starF => x ++ "*!"
  | .plus => x ++ "+"
  | .plusF => x ++ "+!"
  | .list => l
  | .listOpt => l ++ "?"

/-- `ctx.Lookup(name)` among the helpers created so far: position of the helper of that name. -/
def lookupH (SG : SGrammar) (k : HKey) : List HKey → Option Nat
  | [] => none
  | h :: H => if h.nm SG = k.nm SG then some 0 else (lookupH SG k H).map (· + 1)

/-- `generate` in `ParserTerm.normalize`: nothing if a helper of that name exists; otherwise the
helper is appended and its own body is normalised, which may append the helper it depends on. -/
def visit (SG : SGrammar) (H : List HKey) (k : HKey) : List HKey :=
  if (lookupH SG k H).isSome then H
  else
    let H' := H ++ [k]
    match k.dep with
    | none => H'
    | some d => if (lookupH SG d H').isSome then H' else H' ++ [d]

def visitTerm (SG : SGrammar) (H : List HKey) (t : STerm) : List HKey :=
  match t.key with
  | none => H
  | some k => visit SG H k

namespace SGrammar

/-- All terms in the order the Normalize pass reaches them. -/
def allTerms (SG : SGrammar) : List STerm :=
  SG.rules.flatMap fun r => r.prods.flatMap fun p => p.terms

/-- The helper rules in creation order. -/
def helpers (SG : SGrammar) : List HKey :=
  SG.allTerms.foldl (visitTerm SG) []

def nUser (SG : SGrammar) : Nat := SG.rules.length

/-- Rule index of the helper of that name. -/
def ruleIdx (SG : SGrammar) (k : HKey) : Nat :=
  SG.nUser + 1 + ((lookupH SG k SG.helpers).getD SG.helpers.length)

def symOfAtom : Atom → Sym
  | .tok a => .t (a + 2)
  | .rule A => .n (A + 1)
  | .err => .t 1

/-- `ParserTerm.Symbol` after the Normalize pass. -/
def symOf (SG : SGrammar) : STerm → Sym
  | .atom x => symOfAtom x
  | .opt x => .n (SG.ruleIdx ⟨.opt, x, x⟩)
  | .star x => .n (SG.ruleIdx ⟨.star, x, x⟩)
  | .starF x => .n (SG.ruleIdx ⟨.starF, x, x⟩)
  | .plus x => .n (SG.ruleIdx ⟨.plus, x, x⟩)
  | .list x s => .n (SG.ruleIdx ⟨.list, x, s⟩)
  | .listOpt x s => .n (SG.ruleIdx ⟨.listOpt, x, s⟩)

/-- The productions of the user rules, in textual order; `i` = number of rules before `rs`. -/
def userProdsFrom (SG : SGrammar) : Nat → List SRule → List Prod
  | _, [] => []
  | i, r :: rs => r.prods.map (fun p => ⟨i + 1, p.terms.map SG.symOf⟩) ++ userProdsFrom SG (i + 1) rs

def userProds (SG : SGrammar) : List Prod := SG.userProdsFrom 0 SG.rules

/-- The two productions of a helper rule with index `self`. -/
def helperBody (SG : SGrammar) (self : Nat) (k : HKey) : List Prod :=
  let X := symOfAtom k.x
  match k.kind with
  | .opt => [⟨self, [X]⟩, ⟨self, []⟩]
  | .star => [⟨self, [.n (SG.ruleIdx ⟨.plus, k.x, k.x⟩)]⟩, ⟨self, []⟩]
  | .starF => [⟨self, [.n (SG.ruleIdx ⟨.plusF, k.x, k.x⟩)]⟩, ⟨self, []⟩]
  | .listOpt => [⟨self, [.n (SG.ruleIdx ⟨.list, k.x, k.sep⟩)]⟩, ⟨self, []⟩]
  | .plus => [⟨self, [.n self, X]⟩, ⟨self, [X]⟩]
  | .plusF => [⟨self, [.n self, X]⟩, ⟨self, [X]⟩]
  | .list => [⟨self, [.n self, symOfAtom k.sep, X]⟩, ⟨self, [X]⟩]

/-- The productions of the helper rules `ks`, the first of which has rule index `i`. -/
def helperProdsFrom (SG : SGrammar) : Nat → List HKey → List Prod
  | _, [] => []
  | i, k :: ks => SG.helperBody i k ++ helperProdsFrom SG (i + 1) ks

def helperProds (SG : SGrammar) : List Prod := SG.helperProdsFrom (SG.nUser + 1) SG.helpers

/-- Kind codes (`Kind.ofCode`) of the two productions of a helper. -/
def helperKinds (k : HKey) : List Nat :=
  match k.kind with
  | .opt => [7, 8]
  | .star => [9, 10]
  | .starF => [9, 10]
  | .plus => [2, 1]
  | .plusF => [4, 3]
  | .list => [6, 5]
  | .listOpt => [7, 12]

def prodList (SG : SGrammar) : List Prod :=
  ⟨0, [.n 1]⟩ :: (SG.userProds ++ SG.helperProds)

def kindList (SG : SGrammar) : List Nat :=
  11 :: (SG.userProds.map (fun _ => 0) ++ SG.helpers.flatMap helperKinds)

def nameList (SG : SGrammar) : List String :=
  "S'" :: (SG.rules.map (·.name) ++ SG.helpers.map (HKey.name SG))

/-- Number of terminals of the `lr1.Grammar`. -/
def nTerms (SG : SGrammar) : Nat := SG.tokens.length + 2

/-- Number of rules of the `lr1.Grammar`. -/
def nRules (SG : SGrammar) : Nat := SG.nUser + 1 + SG.helpers.length

end SGrammar

/-- The `lr1.Grammar` the front end hands to the LALR construction, the kind of every production
and the rule names. -/
def desugar (SG : SGrammar) : Grammar × Array Nat × Array String :=
  (⟨SG.prodList.toArray⟩, SG.kindList.toArray, SG.nameList.toArray)

/-- Kind code of production `p` of the desugared grammar. -/
def kindOf (SG : SGrammar) (p : Nat) : Nat := (desugar SG).2.1[p]?.getD 0

/-! ### Well-formedness (what the front end checks, as far as the model needs it) -/

def Atom.inRange (SG : SGrammar) : Atom → Bool
  | .tok a => a < SG.tokens.length
  | .rule A => A < SG.rules.length
  | .err => true

def STerm.atoms : STerm → List Atom
  | .atom x | .opt x | .star x | .starF x | .plus x => [x]
  | .list x s | .listOpt x s => [x, s]

/-- `@list` parameters must be tokens or rules (`ParserTerm.postCheck`). -/
def STerm.listParamsOK : STerm → Bool
  | .list x s | .listOpt x s => x != .err && s != .err
  | _ => true

namespace SGrammar

/-- All names that must be pairwise different for helper names to identify helper keys: token
names, rule names and `ERROR` (the name of `@error`). -/
def allNames (SG : SGrammar) : List String :=
  SG.tokens ++ (SG.rules.map (·.name) ++ ["ERROR"])

/-- Hypothesis of the language theorem: there is a start rule, every reference is defined, and
names are pairwise different and different from `ERROR`. -/
def wf (SG : SGrammar) : Bool :=
  !SG.rules.isEmpty && SG.allTerms.all (fun t => t.atoms.all (Atom.inRange SG)) && SG.allNames.Nodup

/-- What the front end accepts (of the specifications the harness can render): `wf`, the names
`EOF` and `ERROR` are reserved for tokens (`reservedTokenNames`, lexer_token_rule.go) and for parser
rules (parser_rule.go, CreateNames), and `@list` parameters are not `@error`. -/
def accepted (SG : SGrammar) : Bool :=
  SG.wf && SG.allTerms.all (fun t => t.listParamsOK) && !SG.allNames.contains "EOF"

end SGrammar

end Lox.LR
