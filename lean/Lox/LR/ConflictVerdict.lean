import Lox.LR.ConflictCheckSound
import Lox.LR.ConflictSpec
import Lox.LR.GenModelProofsActions
import Lox.Props.C04
/-! The verdict computed from a validated certificate (`verdictB`: model of `createActions` +
the loop of `resolveConflicts`) is the verdict BY DEFINITION: `verdictB_iff`. Spec notions:
`Lox/LR/ConflictSpec.lean` (`Contrib`, `Settled`, `Unsettled`, `CellOf`). -/
namespace Lox.LR
open Lox.Dec (ProdInfo Action resolveOne SRPairOfOneRule hasConflicts)

/-! ### Cells that list the candidates -/

theorem Cand.mono_at {G : Grammar} {A : Auto} {I J : Nat → Item → Prop} {s a : Nat}
    (hIJ : ∀ it, I s it → J s it) {act : Act} (h : Cand G A I s a act) : Cand G A J s a act := by
  cases h with
  | shift hmem hp hX htr => exact .shift (hIJ _ hmem) hp hX htr
  | reduce hmem hp hp0 => exact .reduce (hIJ _ hmem) hp hp0
  | accept hmem ha => exact .accept (hIJ _ hmem) ha

theorem Contrib.mono_at {G : Grammar} {I J : Nat → Item → Prop} {s a q : Nat}
    (hIJ : ∀ it, I s it → J s it) (h : Contrib G I s a q) : Contrib G J s a q := by
  obtain ⟨d, b, pr, hm, hp, hX⟩ := h
  exact ⟨d, b, pr, hIJ _ hm, hp, hX⟩

theorem CellOf.congr {G : Grammar} {A : Auto} {I J : Nat → Item → Prop} {s a : Nat}
    {cell : List Action} (h : ∀ it, I s it ↔ J s it) (hc : CellOf G A I s a cell) :
    CellOf G A J s a cell where
  nodup := hc.nodup
  cand act := (hc.cand act).trans
    ⟨Cand.mono_at fun it => (h it).mp, Cand.mono_at fun it => (h it).mpr⟩
  prods t ps hm q := (hc.prods t ps hm q).trans
    ⟨Contrib.mono_at fun it => (h it).mp, Contrib.mono_at fun it => (h it).mpr⟩

theorem Conflict.congr {G : Grammar} {A : Auto} {I J : Nat → Item → Prop} {s a : Nat}
    (h : ∀ it, I s it ↔ J s it) : Conflict G A I s a ↔ Conflict G A J s a := by
  constructor
  · rintro ⟨x, y, hx, hy, hne⟩
    exact ⟨x, y, hx.mono_at fun it => (h it).mp, hy.mono_at fun it => (h it).mp, hne⟩
  · rintro ⟨x, y, hx, hy, hne⟩
    exact ⟨x, y, hx.mono_at fun it => (h it).mpr, hy.mono_at fun it => (h it).mpr, hne⟩

/-- More than one action in the cell ⇔ conflict by definition. -/
theorem CellOf.conflict_iff {G : Grammar} {A : Auto} {I : Nat → Item → Prop} {s a : Nat}
    {cell : List Action} (hc : CellOf G A I s a cell) :
    1 < cell.length ↔ Conflict G A I s a := by
  have := Gen.length_gt_one_iff hc.nodup
  rw [List.length_map] at this
  rw [this]
  constructor
  · rintro ⟨x, y, hx, hy, hne⟩
    exact ⟨x, y, (hc.cand x).mp hx, (hc.cand y).mp hy, hne⟩
  · rintro ⟨x, y, hx, hy, hne⟩
    exact ⟨x, y, (hc.cand x).mpr hx, (hc.cand y).mpr hy, hne⟩

theorem nodup_pair {α : Type} {l : List α} {a b : α} (hn : l.Nodup)
    (hm : ∀ x, x ∈ l ↔ x = a ∨ x = b) (hab : a ≠ b) : l = [a, b] ∨ l = [b, a] := by
  match l, hn, hm with
  | [], _, hm => exact absurd ((hm a).mpr (.inl rfl)) (by simp)
  | [x], _, hm =>
    have h1 := (hm a).mpr (.inl rfl)
    have h2 := (hm b).mpr (.inr rfl)
    simp only [List.mem_singleton] at h1 h2
    exact absurd (h1.trans h2.symm) hab
  | [x, y], hn, hm =>
    have hxy : x ≠ y := by
      intro e; subst e; simp at hn
    have hx := (hm x).mp (by simp)
    have hy := (hm y).mp (by simp)
    rcases hx with rfl | rfl <;> rcases hy with rfl | rfl
    · exact absurd rfl hxy
    · exact .inl rfl
    · exact .inr rfl
    · exact absurd rfl hxy
  | x :: y :: z :: r, hn, hm =>
    have hx := (hm x).mp (by simp)
    have hy := (hm y).mp (by simp)
    have hz := (hm z).mp (by simp)
    simp only [List.nodup_cons, List.mem_cons, not_or] at hn
    obtain ⟨⟨hxy, hxz, _⟩, ⟨hyz, _⟩, _⟩ := hn
    rcases hx with rfl | rfl <;> rcases hy with rfl | rfl <;> rcases hz with rfl | rfl <;>
      first | exact absurd rfl hxy | exact absurd rfl hxz | exact absurd rfl hyz

theorem map_eq_pair {α β : Type} {f : α → β} {l : List α} {u v : β} (h : l.map f = [u, v]) :
    ∃ x y, l = [x, y] ∧ f x = u ∧ f y = v := by
  match l, h with
  | [x, y], h =>
    simp only [List.map_cons, List.map_nil, List.cons.injEq, and_true] at h
    exact ⟨x, y, rfl, h.1, h.2⟩

theorem actOf_eq_shift {x : Action} {t : Nat} : actOf x = .shift t ↔ ∃ ps, x = .shift t ps := by
  cases x <;> simp [actOf]

theorem actOf_eq_reduce {x : Action} {p : Nat} : actOf x = .reduce p ↔ x = .reduce p := by
  cases x <;> simp [actOf]

theorem actOf_eq_accept {x : Action} : actOf x = .accept ↔ x = .accept := by
  cases x <;> simp [actOf]

/-- `resolveConflict` resolves the cell ⇔ the documented rule settles it. -/
theorem CellOf.resolved_iff {G : Grammar} {A : Auto} {I : Nat → Item → Prop} {s a : Nat}
    {cell : List Action} (hc : CellOf G A I s a cell) (info : Nat → ProdInfo) :
    (resolveOne info cell).2 = true ↔ Settled G info A I s a := by
  rw [Lox.Props.C04.resolved_iff]
  constructor
  · rintro ⟨t, ps, rp, hcell, hne, hrule, hprec, hpos, hrp⟩
    have hmem : Action.shift t ps ∈ cell := by rcases hcell with rfl | rfl <;> simp
    have hprods := hc.prods t ps hmem
    have hmap : ∀ act, act ∈ cell.map actOf ↔ (act = .shift t ∨ act = .reduce rp) := by
      intro act
      rcases hcell with rfl | rfl
      · simp [actOf]
      · simp [actOf, or_comm]
    refine ⟨t, rp, fun act => (hc.cand act).symm.trans (hmap act), fun q hq => ?_,
      fun q q' hq hq' => ?_, hrp⟩
    · exact ⟨hrule q ((hprods q).mpr hq), hpos q ((hprods q).mpr hq)⟩
    · exact hprec q ((hprods q).mpr hq) q' ((hprods q').mpr hq')
  · rintro ⟨t, rp, hcand, hr, hp, hrp⟩
    have hm : ∀ x, x ∈ cell.map actOf ↔ x = Act.shift t ∨ x = Act.reduce rp :=
      fun x => (hc.cand x).trans (hcand x)
    -- the shift candidate has a contributor
    have hcontrib : ∃ q, Contrib G I s a q := by
      have := (hcand (.shift t)).mpr (.inl rfl)
      cases this with
      | shift hmem hp' hX _ => exact ⟨_, _, _, _, hmem, hp', hX⟩
    have build : ∀ ps, Action.shift t ps ∈ cell →
        ps ≠ [] ∧ (∀ q ∈ ps, (info q).rule = (info rp).rule) ∧
        (∀ q ∈ ps, ∀ q' ∈ ps, (info q).prec = (info q').prec) ∧
        (∀ q ∈ ps, 0 < (info q).prec) := by
      intro ps hmem
      have hprods := hc.prods t ps hmem
      obtain ⟨q0, hq0⟩ := hcontrib
      refine ⟨?_, fun q hq => (hr q ((hprods q).mp hq)).1,
        fun q hq q' hq' => hp q q' ((hprods q).mp hq) ((hprods q').mp hq'),
        fun q hq => (hr q ((hprods q).mp hq)).2⟩
      intro e
      have := (hprods q0).mpr hq0
      rw [e] at this
      cases this
    rcases nodup_pair hc.nodup hm (by simp) with h | h
    · obtain ⟨x, y, rfl, hx, hy⟩ := map_eq_pair h
      obtain ⟨ps, rfl⟩ := actOf_eq_shift.mp hx
      have := actOf_eq_reduce.mp hy
      subst this
      obtain ⟨b1, b2, b3, b4⟩ := build ps (by simp)
      exact ⟨t, ps, rp, .inl rfl, b1, b2, b3, b4, hrp⟩
    · obtain ⟨x, y, rfl, hx, hy⟩ := map_eq_pair h
      obtain ⟨ps, rfl⟩ := actOf_eq_shift.mp hy
      have := actOf_eq_reduce.mp hx
      subst this
      obtain ⟨b1, b2, b3, b4⟩ := build ps (by simp)
      exact ⟨t, ps, rp, .inr rfl, b1, b2, b3, b4, hrp⟩

/-! ### The cells `createActions` builds from a validated certificate -/

theorem afterDot_eq {G : Grammar} {it : Item} {X : Sym} :
    Gen.afterDot G it = some X ↔ ∃ pr, G.prods[it.p]? = some pr ∧ pr.rhs[it.d]? = some X := by
  unfold Gen.afterDot
  cases hp : G.prods[it.p]? with
  | none => simp
  | some pr => simp

theorem mem_cellTerminals {G : Grammar} {nT : Nat} {tr : Nat → Option Nat} {I : List Item}
    {a : Nat} : a ∈ Gen.cellTerminals G nT tr I ↔
      ∃ it ∈ I, ∃ c, Gen.want G nT tr it = .call a c := by
  unfold Gen.cellTerminals
  induction I with
  | nil => simp
  | cons it r ih =>
    simp only [List.foldr_cons, List.mem_cons, exists_eq_or_imp]
    cases hw : Gen.want G nT tr it with
    | nothing => simp [ih]
    | panic => simp [ih]
    | call b c =>
      simp only [Gen.mem_sinsert Gen.natLt_order, ih, Gen.Want.call.injEq]
      constructor
      · rintro (rfl | h)
        · exact .inl ⟨c, rfl, rfl⟩
        · exact .inr h
      · rintro (⟨c', rfl, _⟩ | h)
        · exact .inl rfl
        · exact .inr h

/-- `Gen.kindOf` factors through `actOf`. -/
def kOf : Act → Gen.Cand
  | .shift _ => .shift
  | .reduce p => .reduce p
  | .accept => .accept

theorem kindOf_eq (x : Action) : Gen.kindOf x = kOf (actOf x) := by cases x <;> rfl

section
variable {G : Grammar} {nTerms nRules : Nat} {tr : TransTab} {cert : Array (List Item)}

theorem SkelOK.la_lt (h : SkelOK G nTerms nRules tr cert) (s : Nat) :
    ∀ it ∈ itemsOf cert s, it.a < nTerms := by
  intro it hit
  obtain ⟨pr, _, hok⟩ := h.items s it hit
  exact hok.la

theorem SkelOK.tr_some (h : SkelOK G nTerms nRules tr cert) (s : Nat) :
    ∀ it ∈ itemsOf cert s, ∀ x, Gen.afterDot G it = some (.t x) → trTerm tr s x ≠ none := by
  intro it hit x hx
  obtain ⟨pr, hp, hX⟩ := afterDot_eq.mp hx
  obtain ⟨pr', hp', hok⟩ := h.items s it hit
  rw [hp] at hp'; cases hp'
  obtain ⟨s', hl, _⟩ := hok.step _ hX
  simp [trTerm, hl]

/-- The cell of `(s, a)` built from a validated certificate lists the candidate actions of the
certificate's item set, and it is non-empty exactly for the terminals that get a cell. -/
theorem SkelOK.cellOn_cellOf (h : SkelOK G nTerms nRules tr cert) (s a : Nat) :
    ∃ cell, Gen.cellOn G nTerms (trTerm tr s) (itemsOf cert s) a = .ok cell ∧
      CellOf G (skelAuto tr cert) (fun s it => it ∈ itemsOf cert s) s a cell ∧
      (cell ≠ [] ↔ a ∈ Gen.cellTerminals G nTerms (trTerm tr s) (itemsOf cert s)) := by
  have hI := h.la_lt s
  have htr := h.tr_some s
  obtain ⟨cell, hcell, hnd, hkinds, hsh⟩ := Gen.cellOn_spec hI htr a
  obtain ⟨S', hp0⟩ := prod0B_spec h.prod0
  -- a kind is in the cell iff some member has it
  have hkmem : ∀ k, k ∈ cell.map Gen.kindOf ↔ ∃ x ∈ cell, Gen.kindOf x = k := by
    intro k; simp [List.mem_map]
  have hshift_iff : (∃ it ∈ itemsOf cert s, Gen.afterDot G it = some (.t a)) ↔
      ∃ t ps, Action.shift t ps ∈ cell := by
    rw [show (∃ it ∈ itemsOf cert s, Gen.afterDot G it = some (.t a)) ↔
      Gen.CandOf G (itemsOf cert s) a .shift from Iff.rfl, ← hkinds, hkmem]
    constructor
    · rintro ⟨x, hx, hk⟩
      cases x <;> simp [Gen.kindOf] at hk
      exact ⟨_, _, hx⟩
    · rintro ⟨t, ps, hx⟩
      exact ⟨_, hx, rfl⟩
  refine ⟨cell, hcell, ⟨?_, ?_, ?_⟩, ?_⟩
  · -- nodup
    have e : cell.map Gen.kindOf = (cell.map actOf).map kOf := by
      rw [List.map_map]
      exact List.map_congr_left fun x _ => kindOf_eq x
    rw [e] at hnd
    rw [List.Nodup, List.pairwise_map] at hnd
    exact hnd.imp (fun hne e => hne (congrArg kOf e))
  · -- candidates
    intro act
    rw [List.mem_map]
    cases act with
    | shift t =>
      constructor
      · rintro ⟨x, hx, he⟩
        obtain ⟨ps, rfl⟩ := actOf_eq_shift.mp he
        obtain ⟨⟨p, d, b⟩, hit, had⟩ := hshift_iff.mpr ⟨t, ps, hx⟩
        obtain ⟨pr, hp, hX⟩ := afterDot_eq.mp had
        refine .shift (p := p) (d := d) (b := b) hit hp hX ?_
        rw [trans_skel]
        exact (hsh t ps hx).1
      · intro hc
        cases hc with
        | @shift p d b pr s' hmem hp hX htr' =>
          obtain ⟨t', ps, hx⟩ := hshift_iff.mp ⟨⟨p, d, b⟩, hmem, afterDot_eq.mpr ⟨pr, hp, hX⟩⟩
          have h1 := (hsh t' ps hx).1
          rw [trans_skel] at htr'
          have : t' = t := by
            simp only [trTerm] at h1
            rw [h1] at htr'
            exact Option.some.inj htr'
          subst this
          exact ⟨_, hx, rfl⟩
    | reduce p =>
      have hk := hkinds (.reduce p)
      rw [hkmem] at hk
      constructor
      · rintro ⟨x, hx, he⟩
        have := actOf_eq_reduce.mp he
        subst this
        obtain ⟨hp0', pr, hp, hmem⟩ := hk.mp ⟨_, hx, rfl⟩
        exact .reduce hmem hp hp0'
      · intro hc
        cases hc with
        | reduce hmem hp hp0' =>
          obtain ⟨x, hx, hkx⟩ := hk.mpr ⟨hp0', _, hp, hmem⟩
          cases x <;> simp [Gen.kindOf] at hkx
          subst hkx
          exact ⟨_, hx, rfl⟩
    | accept =>
      have hk := hkinds .accept
      rw [hkmem] at hk
      constructor
      · rintro ⟨x, hx, he⟩
        have := actOf_eq_accept.mp he
        subst this
        obtain ⟨pr0, hpr0, hmem⟩ := hk.mp ⟨_, hx, rfl⟩
        rw [hp0] at hpr0
        cases hpr0
        obtain ⟨pr, _, hok⟩ := h.items s _ hmem
        have ha : a = 0 := hok.shape.p0 rfl
        subst ha
        exact .accept hmem rfl
      · intro hc
        cases hc with
        | accept hmem ha =>
          subst ha
          obtain ⟨x, hx, hkx⟩ := hk.mpr ⟨_, hp0, hmem⟩
          cases x <;> simp [Gen.kindOf] at hkx
          exact ⟨_, hx, rfl⟩
  · -- contributing productions
    intro t ps hx q
    rw [(hsh t ps hx).2, List.mem_filterMap]
    constructor
    · rintro ⟨c, hc, hcp⟩
      cases c <;> simp [Gen.callProd] at hcp
      subst hcp
      obtain ⟨⟨p, d, b⟩, hit, hw⟩ := Gen.mem_callsOn.mp hc
      obtain ⟨had, _, hq⟩ := Gen.want_shift.mp hw
      simp only at hq
      subst hq
      obtain ⟨pr, hp, hX⟩ := afterDot_eq.mp had
      exact ⟨d, b, pr, hit, hp, hX⟩
    · rintro ⟨d, b, pr, hit, hp, hX⟩
      have had : Gen.afterDot G ⟨q, d, b⟩ = some (.t a) := afterDot_eq.mpr ⟨pr, hp, hX⟩
      cases ht : trTerm tr s a with
      | none => exact absurd ht (htr _ hit a had)
      | some t' =>
        exact ⟨.shift t' q, Gen.mem_callsOn.mpr ⟨_, hit, Gen.want_shift.mpr ⟨had, ht, rfl⟩⟩, rfl⟩
  · -- non-empty iff the terminal gets a cell
    rw [mem_cellTerminals]
    constructor
    · intro hne
      obtain ⟨x, hx⟩ := List.exists_mem_of_ne_nil _ hne
      have hk := (hkinds (Gen.kindOf x)).mp (List.mem_map.mpr ⟨x, hx, rfl⟩)
      cases x with
      | accept =>
        obtain ⟨pr0, hpr0, hmem⟩ := hk
        exact ⟨_, hmem, .accept, Gen.want_accept.mpr ⟨pr0, hpr0, rfl, hI _ hmem, rfl, rfl⟩⟩
      | reduce p =>
        obtain ⟨hp0', pr, hp, hmem⟩ := hk
        exact ⟨_, hmem, .reduce p, Gen.want_reduce.mpr ⟨pr, hp, rfl, hI _ hmem, hp0', rfl, rfl⟩⟩
      | shift t ps =>
        obtain ⟨it, hit, had⟩ := hk
        cases ht : trTerm tr s a with
        | none => exact absurd ht (htr _ hit a had)
        | some t' => exact ⟨it, hit, .shift t' it.p, Gen.want_shift.mpr ⟨had, ht, rfl⟩⟩
    · rintro ⟨it, hit, c, hw⟩ hnil
      have : ∃ k, Gen.CandOf G (itemsOf cert s) a k := by
        cases c with
        | shift t p =>
          exact ⟨.shift, it, hit, (Gen.want_shift.mp hw).1⟩
        | reduce p =>
          obtain ⟨pr, hp, hd, _, hp0', hpe, hb⟩ := Gen.want_reduce.mp hw
          obtain ⟨p', d', a'⟩ := it
          simp only at hp hd hp0' hpe hb
          subst hd hb
          exact ⟨.reduce p', hp0', pr, hp, hit⟩
        | accept =>
          obtain ⟨pr, hp, hd, _, hp0', hb⟩ := Gen.want_accept.mp hw
          obtain ⟨p', d', a'⟩ := it
          simp only at hp hd hp0' hb
          subst hd hb hp0'
          exact ⟨.accept, pr, hp, hit⟩
      obtain ⟨k, hk⟩ := this
      have := (hkinds k).mpr hk
      rw [hnil] at this
      simp at this

theorem mem_tableCells {cell : List Action} :
    cell ∈ tableCells G nTerms tr cert ↔ ∃ s, s < cert.size ∧
      ∃ a ∈ Gen.cellTerminals G nTerms (trTerm tr s) (itemsOf cert s),
        Gen.cellOn G nTerms (trTerm tr s) (itemsOf cert s) a = .ok cell := by
  simp only [tableCells, stateCells, List.mem_flatMap, List.mem_range, List.mem_filterMap]
  constructor
  · rintro ⟨s, hs, a, ha, hc⟩
    refine ⟨s, hs, a, ha, ?_⟩
    cases hco : Gen.cellOn G nTerms (trTerm tr s) (itemsOf cert s) a with
    | error e => simp [hco] at hc
    | ok c => simp only [hco, Option.some.injEq] at hc; rw [hc]
  · rintro ⟨s, hs, a, ha, hc⟩
    exact ⟨s, hs, a, ha, by simp [hc]⟩

/-- **The computed verdict is the verdict by definition.** On a certificate and transitions that
pass the checks, `verdictB` (model of `createActions` followed by the loop of `resolveConflicts`:
`ParserTable.HasConflicts`) is `true` iff some cell of the LALR(1) automaton by definition has two
different candidate actions that the documented precedence rule does not settle. -/
theorem verdictB_iff (h : ConflictOK G nTerms nRules tr cert) (info : Nat → ProdInfo) :
    verdictB G nTerms info tr cert = true ↔
      ∃ s a, Unsettled G info (skelAuto tr cert) (LALRItem G (skelAuto tr cert)) s a := by
  have hex : ∀ s it, (fun s it => it ∈ itemsOf cert s) s it ↔ LALRItem G (skelAuto tr cert) s it :=
    fun s it => h.items_exact s it
  unfold verdictB hasConflicts
  rw [List.any_eq_true]
  constructor
  · rintro ⟨cell, hmem, hc⟩
    obtain ⟨s, _, a, ha, hco⟩ := mem_tableCells.mp hmem
    obtain ⟨cell', hco', hcell, hne⟩ := h.skel.cellOn_cellOf s a
    rw [hco] at hco'
    cases hco'
    have hcl := hcell.congr (hex s)
    simp only [Bool.and_eq_true, bne_iff_ne, ne_eq, Bool.not_eq_true', ] at hc
    have hlen : 1 < cell.length := by
      have h0 : cell.length ≠ 0 := fun e => hne.mpr ha (List.length_eq_zero_iff.mp e)
      omega
    refine ⟨s, a, hcl.conflict_iff.mp hlen, fun hs => ?_⟩
    have := (hcl.resolved_iff info).mpr hs
    rw [this] at hc
    exact absurd hc.2 (by simp)
  · rintro ⟨s, a, hconf, hns⟩
    obtain ⟨cell, hco, hcell, hne⟩ := h.skel.cellOn_cellOf s a
    have hcl := hcell.congr (hex s)
    have hlen := hcl.conflict_iff.mpr hconf
    have hs : s < cert.size := by
      obtain ⟨x, y, hx, _, _⟩ := hconf
      have hit : ∃ it, it ∈ itemsOf cert s := by
        cases hx with
        | shift hmem _ _ _ => exact ⟨_, (hex s _).mpr hmem⟩
        | reduce hmem _ _ => exact ⟨_, (hex s _).mpr hmem⟩
        | accept hmem _ => exact ⟨_, (hex s _).mpr hmem⟩
      obtain ⟨it, hit⟩ := hit
      exact mem_itemsOf hit
    have ha := hne.mp (by intro e; rw [e] at hlen; simp at hlen)
    refine ⟨cell, mem_tableCells.mpr ⟨s, hs, a, ha, hco⟩, ?_⟩
    have hres : (resolveOne info cell).2 = false := by
      cases hr : (resolveOne info cell).2 with
      | false => rfl
      | true => exact absurd ((hcl.resolved_iff info).mp hr) hns
    simp only [Bool.and_eq_true, bne_iff_ne, ne_eq, hres, Bool.not_false, and_true]
    omega

end

end Lox.LR
