import Lox.LR.Check
import Lox.LR.Sound
/-! Soundness of the validator: `check … = .ok ()` implies `Valid`, `Safe`, `FirstOK` for the
automaton read off the emitted arrays. -/
namespace Lox.LR

/-! ### `_Find` as a first-match lookup in the decoded row -/

def lookRow (row : List (Int × Int)) (x : Int) : Look :=
  match lookupI x row with
  | some v => .hit v
  | none => .miss

theorem findScan_eq (tbl : Array Int) (x : Int) :
    ∀ (n : Nat) (i stop : Int) (row : List (Int × Int)), rowScan tbl n i stop = some row →
      findScan tbl x n i stop = lookRow row x := by
  intro n
  induction n with
  | zero => intro i stop row h; simp [rowScan] at h; subst h; rfl
  | succ n ih =>
    intro i stop row h
    simp only [rowScan] at h
    simp only [findScan]
    by_cases hlt : i < stop
    · simp only [hlt, if_true] at h ⊢
      cases hk : geti tbl i with
      | none => simp [hk] at h
      | some k =>
        cases hv : geti tbl (i + 1) with
        | none => simp [hk, hv] at h
        | some v =>
          simp only [hk, hv, Option.map_eq_some_iff] at h
          obtain ⟨r, hr, hrow⟩ := h
          subst hrow
          by_cases hkx : k = x
          · simp [hkx, lookRow, lookupI]
          · have := ih (i + 2) stop r hr
            simp [hkx, lookRow, lookupI, this]
    · simp only [hlt, if_false] at h ⊢
      simp at h; subst h; rfl

theorem find_eq {tbl : Array Int} {y : Int} {row} (h : rowOf tbl y = some row) (x : Int) :
    find tbl y x = lookRow row x := by
  simp only [rowOf] at h
  simp only [find]
  cases hy : geti tbl y with
  | none => simp [hy] at h
  | some i =>
    simp only [hy] at h ⊢
    cases hc : geti tbl i with
    | none => simp [hc] at h
    | some count =>
      simp only [hc] at h ⊢
      exact findScan_eq tbl x _ _ _ row h

theorem lookupI_mem {x v : Int} : ∀ {row : List (Int × Int)}, lookupI x row = some v →
    (x, v) ∈ row := by
  intro row
  induction row with
  | nil => simp [lookupI]
  | cons e r ih =>
    obtain ⟨k, w⟩ := e
    simp only [lookupI]
    by_cases hk : k = x
    · simp [hk]; intro h; exact Or.inl h.symm
    · simp [hk]; intro h; exact Or.inr (ih h)

theorem find_hit_mem {tbl : Array Int} {y : Int} {row} (h : rowOf tbl y = some row) {x v : Int}
    (hf : find tbl y x = .hit v) : (x, v) ∈ row := by
  rw [find_eq h] at hf
  simp only [lookRow] at hf
  cases hl : lookupI x row with
  | none => simp [hl] at hf
  | some v' =>
    simp [hl] at hf
    subst hf
    exact lookupI_mem hl

/-! ### Decoding of action entries -/

theorem decodeAct_accept {v : Int} : decodeAct v = .accept ↔ v = acceptCode := by
  unfold decodeAct
  by_cases h : v = acceptCode
  · simp [h]
  · by_cases h2 : 0 ≤ v <;> simp [h, h2]

theorem decodeAct_shift {v : Int} {s : Nat} : decodeAct v = .shift s ↔
    v ≠ acceptCode ∧ 0 ≤ v ∧ v.toNat = s := by
  unfold decodeAct
  by_cases h : v = acceptCode
  · simp [h]
  · by_cases h2 : 0 ≤ v <;> simp [h, h2]

theorem decodeAct_reduce {v : Int} {p : Nat} : decodeAct v = .reduce p ↔
    v ≠ acceptCode ∧ v < 0 ∧ (-v).toNat = p := by
  unfold decodeAct
  by_cases h : v = acceptCode
  · simp [h]
  · by_cases h2 : 0 ≤ v
    · simp [h, h2]; omega
    · simp [h, h2]; omega

/-! ### nullable / FIRST -/

theorem first_core {G : Grammar} {F : FirstTab} (hc : closedB G F = true) {α w ts}
    (hd : Der G α w ts) :
    (w = [] → nullSeq F α = true) ∧ (∀ x xs, w = x :: xs → x ∈ firstSeq F α) := by
  induction hd with
  | nil => exact ⟨fun _ => rfl, fun x xs h => by simp at h⟩
  | @term a α w ts _ _ =>
    refine ⟨fun h => by simp at h, fun x xs h => ?_⟩
    simp at h
    simp [firstSeq, h.1]
  | @nonterm q pr α w1 w2 ts1 ts2 hq _ _ ih1 ih2 =>
    have hmem : pr ∈ G.prods.toList := by
      rw [Array.mem_toList_iff]; exact Array.mem_of_getElem? hq
    have hcl := (List.all_eq_true.mp hc) pr hmem
    simp only [Bool.and_eq_true, Bool.or_eq_true, Bool.not_eq_true', List.all_eq_true,
      decide_eq_true_eq] at hcl
    obtain ⟨hn, hf⟩ := hcl
    constructor
    · intro h
      have h1 : w1 = [] := (List.append_eq_nil_iff.mp h).1
      have h2 : w2 = [] := (List.append_eq_nil_iff.mp h).2
      have hnr := ih1.1 h1
      have hnl : F.nullB pr.lhs = true := by
        rcases hn with hn | hn
        · rw [hnr] at hn; exact absurd hn (by simp)
        · exact hn
      simp [nullSeq, hnl, ih2.1 h2]
    · intro x xs h
      cases w1 with
      | nil =>
        simp at h
        have hnr := ih1.1 rfl
        have hnl : F.nullB pr.lhs = true := by
          rcases hn with hn | hn
          · rw [hnr] at hn; exact absurd hn (by simp)
          · exact hn
        have := ih2.2 x xs h
        simp [firstSeq, hnl, this]
      | cons y ys =>
        simp at h
        have := ih1.2 y ys rfl
        have := hf y this
        simp [firstSeq, ← h.1, this]

theorem closed_firstOK {G : Grammar} {F : FirstTab} (hc : closedB G F = true) :
    FirstOK G (firstOf F) := by
  constructor
  intro α w ts a hd
  obtain ⟨h1, h2⟩ := first_core hc hd
  cases w with
  | nil => simp [firstOf, h1 rfl]
  | cons x xs => simp [firstOf, h2 x xs rfl]

/-! ### Small lemmas on the item tests -/

theorem hasItem_iff {items : List Item} {it : Item} : hasItem items it = true ↔ it ∈ items := by
  simp [hasItem]

theorem hasCore_iff {items : List Item} {p d : Nat} :
    hasCore items p d = true ↔ ∃ a, (⟨p, d, a⟩ : Item) ∈ items := by
  simp only [hasCore, List.any_eq_true, Bool.and_eq_true, beq_iff_eq]
  constructor
  · rintro ⟨⟨p', d', a'⟩, hm, hp, hd⟩
    simp at hp hd; subst hp hd
    exact ⟨a', hm⟩
  · rintro ⟨a, hm⟩
    exact ⟨_, hm, rfl, rfl⟩

theorem dot0Of_mem {items : List Item} {n q b : Nat}
    (h : b ∈ (dot0Of items n)[q]?.getD []) : (⟨q, 0, b⟩ : Item) ∈ items := by
  simp only [dot0Of, Array.getElem?_ofFn] at h
  by_cases hq : q < n
  · simp only [hq, dite_true, Option.getD_some, List.mem_map, List.mem_filter, Bool.and_eq_true,
      beq_iff_eq] at h
    obtain ⟨⟨p', d', a'⟩, ⟨hm, hp, hd⟩, ha⟩ := h
    simp at hp hd ha; subst hp hd ha
    exact hm
  · simp [hq] at h

theorem mem_itemsOf {cert : Array (List Item)} {s : Nat} {it : Item} (h : it ∈ itemsOf cert s) :
    s < cert.size := by
  simp only [itemsOf] at h
  by_cases hs : s < cert.size
  · exact hs
  · simp [Array.getElem?_eq_none (Nat.le_of_not_lt hs)] at h

theorem prod0B_spec {G : Grammar} (h : prod0B G = true) :
    ∃ S', G.prods[0]? = some ⟨S', [.n (startSym G)]⟩ := by
  simp only [prod0B] at h
  cases hp : G.prods[0]? with
  | none => simp [hp] at h
  | some pr =>
    obtain ⟨l, rhs⟩ := pr
    simp only [hp] at h
    match rhs, h with
    | [.n S], _ =>
      refine ⟨l, ?_⟩
      simp [startSym, hp]

end Lox.LR

namespace Lox.LR

/-! ### Unpacking `checkB` -/

structure StateOK (G : Grammar) (nTerms nRules : Nat) (F : FirstTab) (T : Tables)
    (cert : Array (List Item)) (s : Nat) : Prop where
  items : ∀ it ∈ itemsOf cert s, it.a < nTerms ∧
    itemB G F T cert s (dot0Of (itemsOf cert s) G.prods.size) it = true
  arow : ∃ row, rowOf T.actions (s : Int) = some row ∧ nodupKeys row = true ∧
    ∀ e ∈ row, actEntryB G nTerms cert s e.1 e.2 = true
  grow : ∃ row, rowOf T.gotos (s : Int) = some row ∧ nodupKeys row = true ∧
    ∀ e ∈ row, gotoEntryB G nRules cert s e.1 e.2 = true

theorem stateB_spec {G nTerms nRules F T cert s}
    (h : stateB G nTerms nRules F T cert s = true) : StateOK G nTerms nRules F T cert s := by
  simp only [stateB, Bool.and_eq_true, List.all_eq_true, decide_eq_true_eq] at h
  obtain ⟨⟨h1, h2⟩, h3⟩ := h
  refine ⟨h1, ?_, ?_⟩
  · cases hr : rowOf T.actions (s : Int) with
    | none => simp [hr] at h2
    | some row =>
      simp only [hr, Bool.and_eq_true, List.all_eq_true] at h2
      exact ⟨row, rfl, h2.1, h2.2⟩
  · cases hr : rowOf T.gotos (s : Int) with
    | none => simp [hr] at h3
    | some row =>
      simp only [hr, Bool.and_eq_true, List.all_eq_true] at h3
      exact ⟨row, rfl, h3.1, h3.2⟩

structure CheckOK (G : Grammar) (nTerms nRules : Nat) (T : Tables) (cert : Array (List Item)) :
    Prop where
  prod0 : prod0B G = true
  noStart : noStartB G = true
  prods : prodsB G nTerms nRules T = true
  closed : closedB G (firstFix G nTerms nRules) = true
  start : (⟨0, 0, 0⟩ : Item) ∈ itemsOf cert 0
  states : ∀ s, s < cert.size → StateOK G nTerms nRules (firstFix G nTerms nRules) T cert s

theorem checkB_spec {G nTerms nRules T cert} (h : checkB G nTerms nRules T cert = true) :
    CheckOK G nTerms nRules T cert := by
  simp only [checkB, Bool.and_eq_true, List.all_eq_true, List.mem_range] at h
  obtain ⟨⟨⟨⟨⟨h1, h2⟩, h3⟩, h4⟩, h5⟩, h6⟩ := h
  exact ⟨h1, h2, h3, h4, hasItem_iff.mp h5, fun s hs => stateB_spec (h6 s hs)⟩

theorem check_ok_iff {G nTerms nRules T cert} :
    check G nTerms nRules T cert = .ok () ↔ checkB G nTerms nRules T cert = true := by
  unfold check
  by_cases h : checkB G nTerms nRules T cert = true <;> simp [h]

/-! ### The automaton's lookups in terms of rows -/

section
variable {G : Grammar} {nTerms nRules : Nat} {T : Tables} {cert : Array (List Item)}

theorem action_eq {s a : Nat} {act : Act} (h : (autoOf T cert).action s a = some act) :
    s < cert.size ∧ ∃ v, find T.actions (s : Int) (a : Int) = .hit v ∧ decodeAct v = act := by
  simp only [autoOf] at h
  by_cases hs : s < cert.size
  · simp only [hs, if_true] at h
    cases hf : find T.actions (s : Int) (a : Int) with
    | hit v => simp [hf] at h; exact ⟨hs, v, rfl, h⟩
    | miss => simp [hf] at h
    | oob => simp [hf] at h
  · simp [hs] at h

theorem goto_eq {s B s' : Nat} (h : (autoOf T cert).goto s B = some s') :
    s < cert.size ∧ ∃ v, find T.gotos (s : Int) (B : Int) = .hit v ∧ v.toNat = s' := by
  simp only [autoOf] at h
  by_cases hs : s < cert.size
  · simp only [hs, if_true] at h
    cases hf : find T.gotos (s : Int) (B : Int) with
    | hit v => simp [hf] at h; exact ⟨hs, v, rfl, h⟩
    | miss => simp [hf] at h
    | oob => simp [hf] at h
  · simp [hs] at h

theorem action_of_find {s a : Nat} {v : Int} (hs : s < cert.size)
    (h : find T.actions (s : Int) (a : Int) = .hit v) :
    (autoOf T cert).action s a = some (decodeAct v) := by
  simp [autoOf, hs, h]

theorem goto_of_find {s B : Nat} {v : Int} (hs : s < cert.size)
    (h : find T.gotos (s : Int) (B : Int) = .hit v) :
    (autoOf T cert).goto s B = some v.toNat := by
  simp [autoOf, hs, h]

end

end Lox.LR

namespace Lox.LR

/-- What `itemB` establishes for one item. -/
structure ItemOK (G : Grammar) (F : FirstTab) (T : Tables) (cert : Array (List Item)) (s : Nat)
    (d0 : Array (List Nat)) (it : Item) (pr : Prod) : Prop where
  shift : ∀ x, pr.rhs[it.d]? = some (.t x) → ∃ v, find T.actions (s : Int) (x : Int) = .hit v ∧
    v ≠ acceptCode ∧ 0 ≤ v ∧ (⟨it.p, it.d + 1, it.a⟩ : Item) ∈ itemsOf cert v.toNat
  goto : ∀ B, pr.rhs[it.d]? = some (.n B) → ∃ v, find T.gotos (s : Int) (B : Int) = .hit v ∧
    (⟨it.p, it.d + 1, it.a⟩ : Item) ∈ itemsOf cert v.toNat
  closure : ∀ (B q : Nat) (qr : Prod) (b : Nat), pr.rhs[it.d]? = some (.n B) →
    G.prods[q]? = some qr → qr.lhs = B →
    b ∈ firstOf F (pr.rhs.drop (it.d + 1)) it.a → b ∈ d0[q]?.getD []
  reduce : pr.rhs[it.d]? = none → it.p ≠ 0 →
    find T.actions (s : Int) (it.a : Int) = .hit (-(it.p : Int))
  accept : pr.rhs[it.d]? = none → it.p = 0 →
    it.a = 0 ∧ find T.actions (s : Int) 0 = .hit acceptCode
  gotoDef : it.d = 0 → it.p ≠ 0 → ∃ v, find T.gotos (s : Int) (pr.lhs : Int) = .hit v
  startOnly : it.p = 0 → it.d = 0 → s = 0
  s0 : s = 0 → it.d = 0

theorem itemB_spec {G F T cert s d0 it} (h : itemB G F T cert s d0 it = true) :
    ∃ pr, G.prods[it.p]? = some pr ∧ ItemOK G F T cert s d0 it pr := by
  unfold itemB at h
  cases hp : G.prods[it.p]? with
  | none => simp [hp] at h
  | some pr =>
    refine ⟨pr, rfl, ?_⟩
    simp only [hp, Bool.and_eq_true, Bool.or_eq_true] at h
    obtain ⟨⟨⟨h1, h2⟩, h3⟩, h4⟩ := h
    have hgd : it.d = 0 → it.p ≠ 0 → ∃ v, find T.gotos (s : Int) (pr.lhs : Int) = .hit v := by
      intro hd hp0
      rcases h2 with (h2 | h2) | h2
      · simp [hd] at h2
      · simp at h2; exact absurd h2 hp0
      · cases hf : find T.gotos (s : Int) (pr.lhs : Int) with
        | hit v => exact ⟨v, rfl⟩
        | miss => simp [hf] at h2
        | oob => simp [hf] at h2
    have hso : it.p = 0 → it.d = 0 → s = 0 := by
      intro a b
      rcases h3 with h3 | h3
      · simp [a, b] at h3
      · simpa using h3
    have hs0 : s = 0 → it.d = 0 := by
      intro a
      rcases h4 with h4 | h4
      · simp [a] at h4
      · simpa using h4
    cases hx : pr.rhs[it.d]? with
    | none =>
      simp only [hx, Bool.and_eq_true, beq_iff_eq] at h1
      refine ⟨(by intro x h; rw [hx] at h; cases h), (by intro x h; rw [hx] at h; cases h), (by intro B q qr b h; rw [hx] at h; cases h), ?_, ?_, hgd, hso, hs0⟩
      · intro _ hp0
        simp only [hp0, if_false] at h1
        cases hf : find T.actions (s : Int) (it.a : Int) with
        | hit v => simp [hf] at h1; rw [h1.2]
        | miss => simp [hf] at h1
        | oob => simp [hf] at h1
      · intro _ hp0
        simp only [hp0, if_true, Bool.and_eq_true, beq_iff_eq] at h1
        refine ⟨h1.2.1, ?_⟩
        cases hf : find T.actions (s : Int) 0 with
        | hit v => simp [hf] at h1; rw [h1.2.2]
        | miss => simp [hf] at h1
        | oob => simp [hf] at h1
    | some X =>
      cases X with
      | t x =>
        simp only [hx] at h1
        refine ⟨?_, (by intro x h; rw [hx] at h; cases h), (by intro B q qr b h; rw [hx] at h; cases h), (by intro h; rw [hx] at h; cases h), (by intro h; rw [hx] at h; cases h), hgd, hso, hs0⟩
        intro x' hx'
        rw [hx] at hx'; cases hx'
        cases hf : find T.actions (s : Int) (x : Int) with
        | hit v =>
          simp only [hf, Bool.and_eq_true, bne_iff_ne, ne_eq, decide_eq_true_eq] at h1
          exact ⟨v, rfl, h1.1.1, h1.1.2, hasItem_iff.mp h1.2⟩
        | miss => simp [hf] at h1
        | oob => simp [hf] at h1
      | n B =>
        simp only [hx, Bool.and_eq_true, List.all_eq_true, List.mem_range] at h1
        obtain ⟨h1a, h1b⟩ := h1
        refine ⟨(by intro x h; rw [hx] at h; cases h), ?_, ?_, (by intro h; rw [hx] at h; cases h), (by intro h; rw [hx] at h; cases h), hgd, hso, hs0⟩
        · intro B' hB'
          rw [hx] at hB'; cases hB'
          cases hf : find T.gotos (s : Int) (B : Int) with
          | hit v => simp only [hf] at h1a; exact ⟨v, rfl, hasItem_iff.mp h1a⟩
          | miss => simp [hf] at h1a
          | oob => simp [hf] at h1a
        · intro B' q qr b hB' hq hl hb
          rw [hx] at hB'; cases hB'
          have hqlt : q < G.prods.size := by
            rcases Array.getElem?_eq_some_iff.mp hq with ⟨hlt, _⟩; exact hlt
          have := h1b q hqlt
          simp only [hq, Bool.or_eq_true, bne_iff_ne, ne_eq, List.all_eq_true,
            decide_eq_true_eq] at this
          rcases this with this | this
          · exact absurd hl this
          · exact this b hb

end Lox.LR

namespace Lox.LR

theorem backB_spec {G : Grammar} {cert : Array (List Item)} {s : Nat} {X : Sym} {s' : Nat}
    (h : backB G cert s X s' = true) :
    s' ≠ 0 ∧ s' < cert.size ∧ ∀ it ∈ itemsOf cert s', 0 < it.d →
      ∃ pr, G.prods[it.p]? = some pr ∧ pr.rhs[it.d - 1]? = some X ∧
        ∃ a', (⟨it.p, it.d - 1, a'⟩ : Item) ∈ itemsOf cert s := by
  simp only [backB, Bool.and_eq_true, bne_iff_ne, ne_eq, decide_eq_true_eq, List.all_eq_true,
    Bool.or_eq_true, beq_iff_eq] at h
  obtain ⟨⟨h1, h2⟩, h3⟩ := h
  refine ⟨h1, h2, ?_⟩
  intro it hit hd
  rcases h3 it hit with h | h
  · omega
  · cases hp : G.prods[it.p]? with
    | none => simp [hp] at h
    | some pr =>
      simp only [hp, Bool.and_eq_true, beq_iff_eq] at h
      exact ⟨pr, rfl, h.1, hasCore_iff.mp h.2⟩

structure ActEntryOK (G : Grammar) (nTerms : Nat) (cert : Array (List Item)) (s : Nat)
    (k v : Int) : Prop where
  key : 0 ≤ k ∧ k.toNat < nTerms
  acc : v = acceptCode → k = 0 ∧ ∃ a', (⟨0, 1, a'⟩ : Item) ∈ itemsOf cert s
  shift : v ≠ acceptCode → 0 ≤ v → k ≠ 0 ∧ backB G cert s (.t k.toNat) v.toNat = true
  red : v ≠ acceptCode → v < 0 → ∃ pr, G.prods[(-v).toNat]? = some pr ∧
    ∃ a', (⟨(-v).toNat, pr.rhs.length, a'⟩ : Item) ∈ itemsOf cert s

theorem actEntryB_spec {G : Grammar} {nTerms : Nat} {cert : Array (List Item)} {s : Nat}
    {k v : Int} (h : actEntryB G nTerms cert s k v = true) : ActEntryOK G nTerms cert s k v := by
  simp only [actEntryB, Bool.and_eq_true, decide_eq_true_eq] at h
  obtain ⟨⟨h1, h2⟩, h3⟩ := h
  by_cases ha : v = acceptCode
  · simp only [ha, if_true, Bool.and_eq_true, beq_iff_eq] at h3
    exact ⟨⟨h1, h2⟩, fun _ => ⟨h3.1, hasCore_iff.mp h3.2⟩, fun hne => absurd ha hne,
      fun hne => absurd ha hne⟩
  · simp only [ha, if_false] at h3
    by_cases hv : 0 ≤ v
    · simp only [hv, if_true, Bool.and_eq_true, bne_iff_ne, ne_eq] at h3
      exact ⟨⟨h1, h2⟩, fun hh => absurd hh ha, fun _ _ => h3, fun _ hlt => by omega⟩
    · simp only [hv, if_false] at h3
      refine ⟨⟨h1, h2⟩, fun hh => absurd hh ha, fun _ hh => absurd hh hv, fun _ _ => ?_⟩
      cases hp : G.prods[(-v).toNat]? with
      | none => simp [hp] at h3
      | some pr =>
        simp only [hp] at h3
        exact ⟨pr, rfl, hasCore_iff.mp h3⟩

theorem gotoEntryB_spec {G : Grammar} {nRules : Nat} {cert : Array (List Item)} {s : Nat}
    {k v : Int} (h : gotoEntryB G nRules cert s k v = true) :
    0 ≤ k ∧ k.toNat < nRules ∧ 0 ≤ v ∧ backB G cert s (.n k.toNat) v.toNat = true := by
  simp only [gotoEntryB, Bool.and_eq_true, decide_eq_true_eq] at h
  obtain ⟨⟨⟨h1, h2⟩, h3⟩, h4⟩ := h
  exact ⟨h1, h2, h3, h4⟩

end Lox.LR

namespace Lox.LR

section
variable {G : Grammar} {nTerms nRules : Nat} {T : Tables} {cert : Array (List Item)}

theorem noStartB_spec (h : noStartB G = true) :
    ∀ (p : Nat) (pr pr0 : Prod), G.prods[p]? = some pr → G.prods[0]? = some pr0 →
      Sym.n pr0.lhs ∉ pr.rhs := by
  intro p pr pr0 hp h0
  simp only [noStartB, h0, List.all_eq_true, Bool.not_eq_true', List.contains_eq_mem,
    decide_eq_false_iff_not] at h
  exact h pr (by rw [Array.mem_toList_iff]; exact Array.mem_of_getElem? hp)

/-- What `itemSafeB` establishes for one item. -/
structure ItemSafeOK (G : Grammar) (T : Tables) (s : Nat) (it : Item) (pr : Prod) : Prop where
  gotoDef : it.d = 0 → it.p ≠ 0 → ∃ v, find T.gotos (s : Int) (pr.lhs : Int) = .hit v
  startOnly : it.p = 0 → it.d = 0 → s = 0
  s0 : s = 0 → it.d = 0

theorem itemSafeB_spec {s : Nat} {it : Item} (h : itemSafeB G T s it = true) :
    ∃ pr, G.prods[it.p]? = some pr ∧ ItemSafeOK G T s it pr := by
  unfold itemSafeB at h
  cases hp : G.prods[it.p]? with
  | none => simp [hp] at h
  | some pr =>
    refine ⟨pr, rfl, ?_⟩
    simp only [hp, Bool.and_eq_true, Bool.or_eq_true] at h
    obtain ⟨⟨h2, h3⟩, h4⟩ := h
    refine ⟨?_, ?_, ?_⟩
    · intro hd hp0
      rcases h2 with (h2 | h2) | h2
      · simp [hd] at h2
      · simp at h2; exact absurd h2 hp0
      · cases hf : find T.gotos (s : Int) (pr.lhs : Int) with
        | hit v => exact ⟨v, rfl⟩
        | miss => simp [hf] at h2
        | oob => simp [hf] at h2
    · intro a b
      rcases h3 with h3 | h3
      · simp [a, b] at h3
      · simpa using h3
    · intro a
      rcases h4 with h4 | h4
      · simp [a] at h4
      · simpa using h4

structure StateSafeOK (G : Grammar) (nTerms nRules : Nat) (T : Tables)
    (cert : Array (List Item)) (s : Nat) : Prop where
  items : ∀ it ∈ itemsOf cert s, ∃ pr, G.prods[it.p]? = some pr ∧ ItemSafeOK G T s it pr
  arow : ∃ row, rowOf T.actions (s : Int) = some row ∧ nodupKeys row = true ∧
    ∀ e ∈ row, actEntryB G nTerms cert s e.1 e.2 = true
  grow : ∃ row, rowOf T.gotos (s : Int) = some row ∧ nodupKeys row = true ∧
    ∀ e ∈ row, gotoEntryB G nRules cert s e.1 e.2 = true

/-- What `checkSafeB` establishes (also a consequence of `checkB`). -/
structure SafeOK (G : Grammar) (nTerms nRules : Nat) (T : Tables) (cert : Array (List Item)) :
    Prop where
  prod0 : prod0B G = true
  prods : prodsB G nTerms nRules T = true
  nonempty : 0 < cert.size
  states : ∀ s, s < cert.size → StateSafeOK G nTerms nRules T cert s

theorem stateSafeB_spec {s : Nat} (h : stateSafeB G nTerms nRules T cert s = true) :
    StateSafeOK G nTerms nRules T cert s := by
  simp only [stateSafeB, Bool.and_eq_true, List.all_eq_true] at h
  obtain ⟨⟨h1, h2⟩, h3⟩ := h
  refine ⟨fun it hit => itemSafeB_spec (h1 it hit), ?_, ?_⟩
  · cases hr : rowOf T.actions (s : Int) with
    | none => simp [hr] at h2
    | some row =>
      simp only [hr, Bool.and_eq_true, List.all_eq_true] at h2
      exact ⟨row, rfl, h2.1, h2.2⟩
  · cases hr : rowOf T.gotos (s : Int) with
    | none => simp [hr] at h3
    | some row =>
      simp only [hr, Bool.and_eq_true, List.all_eq_true] at h3
      exact ⟨row, rfl, h3.1, h3.2⟩

theorem checkSafeB_spec (h : checkSafeB G nTerms nRules T cert = true) :
    SafeOK G nTerms nRules T cert := by
  simp only [checkSafeB, Bool.and_eq_true, List.all_eq_true, List.mem_range,
    decide_eq_true_eq] at h
  obtain ⟨⟨⟨h1, h2⟩, h3⟩, h4⟩ := h
  exact ⟨h1, h2, h3, fun s hs => stateSafeB_spec (h4 s hs)⟩

theorem checkSafe_ok_iff :
    checkSafe G nTerms nRules T cert = .ok () ↔ checkSafeB G nTerms nRules T cert = true := by
  unfold checkSafe
  by_cases h : checkSafeB G nTerms nRules T cert = true <;> simp [h]

theorem CheckOK.toSafeOK (h : CheckOK G nTerms nRules T cert) : SafeOK G nTerms nRules T cert where
  prod0 := h.prod0
  prods := h.prods
  nonempty := mem_itemsOf h.start
  states := fun s hs =>
    { items := fun it hit => by
        obtain ⟨pr, hp, ok⟩ := itemB_spec ((h.states s hs).items it hit).2
        exact ⟨pr, hp, ⟨ok.gotoDef, ok.startOnly, ok.s0⟩⟩
      arow := (h.states s hs).arow
      grow := (h.states s hs).grow }

theorem valid_of_checkOK (h : CheckOK G nTerms nRules T cert) :
    Valid G (autoOf T cert) (firstOf (firstFix G nTerms nRules)) where
  prod0 := prod0B_spec h.prod0
  start := h.start
  shift := by
    intro s it pr x hit hp hx
    have hs := mem_itemsOf hit
    obtain ⟨pr', hp', ok⟩ := itemB_spec ((h.states s hs).items it hit).2
    rw [hp] at hp'; cases hp'
    obtain ⟨v, hf, hna, hv, hmem⟩ := ok.shift x hx
    refine ⟨v.toNat, ?_, hmem⟩
    rw [action_of_find hs hf]
    exact congrArg some (decodeAct_shift.mpr ⟨hna, hv, rfl⟩)
  goto := by
    intro s it pr B hit hp hx
    have hs := mem_itemsOf hit
    obtain ⟨pr', hp', ok⟩ := itemB_spec ((h.states s hs).items it hit).2
    rw [hp] at hp'; cases hp'
    obtain ⟨v, hf, hmem⟩ := ok.goto B hx
    exact ⟨v.toNat, goto_of_find hs hf, hmem⟩
  closure := by
    intro s it pr B q qr b hit hp hx hq hl hb
    have hs := mem_itemsOf hit
    obtain ⟨pr', hp', ok⟩ := itemB_spec ((h.states s hs).items it hit).2
    rw [hp] at hp'; cases hp'
    exact dot0Of_mem (ok.closure B q qr b hx hq hl hb)
  reduce := by
    intro s it pr hit hp hd hp0
    have hs := mem_itemsOf hit
    obtain ⟨pr', hp', ok⟩ := itemB_spec ((h.states s hs).items it hit).2
    rw [hp] at hp'; cases hp'
    have hx : pr.rhs[it.d]? = none := by rw [hd]; simp
    have hf := ok.reduce hx hp0
    rw [action_of_find hs hf]
    refine congrArg some (decodeAct_reduce.mpr ⟨?_, by omega, by simp⟩)
    simp only [acceptCode]; omega
  accept := by
    intro s hit
    have hs := mem_itemsOf hit
    obtain ⟨pr', hp', ok⟩ := itemB_spec ((h.states s hs).items _ hit).2
    obtain ⟨S', hp0⟩ := prod0B_spec h.prod0
    simp only at hp'
    rw [hp0] at hp'; cases hp'
    have hf := (ok.accept (by simp) rfl).2
    have := action_of_find (a := 0) hs (by simpa using hf)
    simpa [eof, decodeAct] using this
  noStart := noStartB_spec h.noStart

theorem safe_of_safeOK (h : SafeOK G nTerms nRules T cert) : Safe G (autoOf T cert) where
  prod0 := prod0B_spec h.prod0
  s0 := by
    intro it hit
    have hs := mem_itemsOf hit
    obtain ⟨pr', _, ok⟩ := (h.states 0 hs).items it hit
    exact ok.s0 rfl
  noIn := by
    intro s X htr
    cases X with
    | t x =>
      simp only [trans] at htr
      cases hact : (autoOf T cert).action s x with
      | none => simp [hact] at htr
      | some act =>
        cases act with
        | shift s' =>
          simp only [hact, Option.some.injEq] at htr
          subst htr
          obtain ⟨hs, v, hf, hdec⟩ := action_eq hact
          obtain ⟨row, hrow, _, hall⟩ := (h.states s hs).arow
          have ok := actEntryB_spec (hall _ (find_hit_mem hrow hf))
          obtain ⟨hna, hv, hto⟩ := decodeAct_shift.mp hdec
          have := (backB_spec (ok.shift hna hv).2).1
          exact this hto
        | reduce p => simp [hact] at htr
        | accept => simp [hact] at htr
    | n B =>
      simp only [trans] at htr
      obtain ⟨hs, v, hf, hto⟩ := goto_eq htr
      obtain ⟨row, hrow, _, hall⟩ := (h.states s hs).grow
      have ok := gotoEntryB_spec (hall _ (find_hit_mem hrow hf))
      exact (backB_spec ok.2.2.2).1 hto
  back := by
    intro s X s' it htr hit hd
    cases X with
    | t x =>
      simp only [trans] at htr
      cases hact : (autoOf T cert).action s x with
      | none => simp [hact] at htr
      | some act =>
        cases act with
        | shift s'' =>
          simp only [hact, Option.some.injEq] at htr
          subst htr
          obtain ⟨hs, v, hf, hdec⟩ := action_eq hact
          obtain ⟨row, hrow, _, hall⟩ := (h.states s hs).arow
          have ok := actEntryB_spec (hall _ (find_hit_mem hrow hf))
          obtain ⟨hna, hv, hto⟩ := decodeAct_shift.mp hdec
          have hb := (backB_spec (ok.shift hna hv).2).2.2
          simp only [Int.toNat_natCast, hto] at hb
          exact hb it hit hd
        | reduce p => simp [hact] at htr
        | accept => simp [hact] at htr
    | n B =>
      simp only [trans] at htr
      obtain ⟨hs, v, hf, hto⟩ := goto_eq htr
      obtain ⟨row, hrow, _, hall⟩ := (h.states s hs).grow
      have ok := gotoEntryB_spec (hall _ (find_hit_mem hrow hf))
      have hb := (backB_spec ok.2.2.2).2.2
      simp only [Int.toNat_natCast, hto] at hb
      exact hb it hit hd
  red := by
    intro s a p hact
    obtain ⟨hs, v, hf, hdec⟩ := action_eq hact
    obtain ⟨row, hrow, _, hall⟩ := (h.states s hs).arow
    have ok := actEntryB_spec (hall _ (find_hit_mem hrow hf))
    obtain ⟨hna, hv, hto⟩ := decodeAct_reduce.mp hdec
    obtain ⟨pr, hp, a', hmem⟩ := ok.red hna hv
    rw [hto] at hp hmem
    exact ⟨pr, a', hp, hmem⟩
  acc := by
    intro s a hact
    obtain ⟨hs, v, hf, hdec⟩ := action_eq hact
    obtain ⟨row, hrow, _, hall⟩ := (h.states s hs).arow
    have ok := actEntryB_spec (hall _ (find_hit_mem hrow hf))
    obtain ⟨hk, hmem⟩ := ok.acc (decodeAct_accept.mp hdec)
    refine ⟨?_, hmem⟩
    simp only [eof]; omega
  startOnly := by
    intro s a hit
    have hs := mem_itemsOf hit
    obtain ⟨pr', _, ok⟩ := (h.states s hs).items _ hit
    exact ok.startOnly rfl rfl
  noShiftEof := by
    intro s s' hact
    obtain ⟨hs, v, hf, hdec⟩ := action_eq hact
    obtain ⟨row, hrow, _, hall⟩ := (h.states s hs).arow
    have ok := actEntryB_spec (hall _ (find_hit_mem hrow hf))
    obtain ⟨hna, hv, _⟩ := decodeAct_shift.mp hdec
    exact (ok.shift hna hv).1 (by simp [eof])
  gotoDef := by
    intro s it pr hit hd hp0 hp
    have hs := mem_itemsOf hit
    obtain ⟨pr', hp', ok⟩ := (h.states s hs).items it hit
    rw [hp] at hp'; cases hp'
    obtain ⟨v, hf⟩ := ok.gotoDef hd hp0
    exact ⟨v.toNat, goto_of_find hs hf⟩

theorem safe_of_checkOK (h : CheckOK G nTerms nRules T cert) : Safe G (autoOf T cert) :=
  safe_of_safeOK h.toSafeOK

/-- Soundness of the soundness-only validator. -/
theorem checkSafe_sound (h : checkSafe G nTerms nRules T cert = .ok ()) :
    Safe G (autoOf T cert) :=
  safe_of_safeOK (checkSafeB_spec (checkSafe_ok_iff.mp h))

/-- Soundness of the validator. -/
theorem check_sound (h : check G nTerms nRules T cert = .ok ()) :
    Valid G (autoOf T cert) (firstOf (firstFix G nTerms nRules)) ∧ Safe G (autoOf T cert) ∧
      FirstOK G (firstOf (firstFix G nTerms nRules)) := by
  have hc := checkB_spec (check_ok_iff.mp h)
  exact ⟨valid_of_checkOK hc, safe_of_checkOK hc, closed_firstOK hc.closed⟩

end

end Lox.LR
