import Lox.LR.ConstructModel
import Lox.LR.ConflictCheckSound
import Lox.LR.GenModelProofsClosure
import Lox.LR.GenModelProofsKey
/-! Helper lemmas for the model of the `ConstructLALR` worklist (`Lox/LR/ConstructModel.lean`):
the table operations (`findKey`, `modAt`, `setTrans`, `mergeInto`), the bridge between the two
formulations of derivations / FIRST (`Lox.LR.Gen.Derives`/`SFirst` of the generator model and
`Lox.LR.Derives`/`First` of the definition of the LALR(1) automaton), and what cores a closure
has. -/
namespace Lox.LR.Cons
open Lox.LR Lox.LR.Gen

/-! ### Table operations -/

theorem findKey_some {k : Key} : ∀ {l : List Key} {i : Nat}, findKey k l = some i → l[i]? = some k
  | [], _, h => by simp [findKey] at h
  | k' :: r, i, h => by
    simp only [findKey] at h
    split at h
    · next e => cases h; simp [e]
    · cases hr : findKey k r with
      | none => simp [hr] at h
      | some j =>
        simp only [hr, Option.map_some, Option.some.injEq] at h
        subst h
        simpa using findKey_some hr

theorem findKey_none {k : Key} : ∀ {l : List Key}, findKey k l = none → k ∉ l
  | [], _ => by simp
  | k' :: r, h => by
    simp only [findKey] at h
    split at h
    · cases h
    · next hne =>
      cases hr : findKey k r with
      | none =>
        simp only [List.mem_cons, not_or]
        exact ⟨fun e => hne e.symm, findKey_none hr⟩
      | some j => simp [hr] at h

theorem findKey_isSome_of_mem {k : Key} {l : List Key} (h : k ∈ l) : ∃ i, findKey k l = some i := by
  cases hf : findKey k l with
  | none => exact absurd h (findKey_none hf)
  | some i => exact ⟨i, rfl⟩

/-- With distinct keys the index of a key is unique. -/
theorem findKey_unique {k : Key} {l : List Key} (hn : l.Nodup) {i j : Nat}
    (hi : l[i]? = some k) (hj : l[j]? = some k) : i = j := by
  obtain ⟨hil, hie⟩ := List.getElem?_eq_some_iff.mp hi
  obtain ⟨hjl, hje⟩ := List.getElem?_eq_some_iff.mp hj
  have hp := List.pairwise_iff_getElem.mp hn
  rcases Nat.lt_trichotomy i j with h | h | h
  · exact absurd (hie.trans hje.symm) (hp i j hil hjl h)
  · exact h
  · exact absurd (hje.trans hie.symm) (hp j i hjl hil h)

theorem length_modAt {α : Type} (l : List α) (i : Nat) (f : α → α) :
    (modAt l i f).length = l.length := by
  unfold modAt
  split <;> simp

theorem getElem?_modAt {α : Type} (l : List α) (i : Nat) (f : α → α) (j : Nat) :
    (modAt l i f)[j]? = if i = j then l[j]?.map f else l[j]? := by
  unfold modAt
  cases hi : l[i]? with
  | none =>
    by_cases e : i = j
    · subst e; simp [hi]
    · simp [e]
  | some x =>
    simp only [List.getElem?_set]
    by_cases e : i = j
    · subst e
      obtain ⟨hlt, rfl⟩ := List.getElem?_eq_some_iff.mp hi
      simp [hlt]
    · simp [e]

theorem lookupSym_setTrans (row : List (Sym × Nat)) (X : Sym) (j : Nat) (Y : Sym) :
    lookupSym Y (setTrans row X j) = if X = Y then some j else lookupSym Y row := by
  unfold setTrans
  by_cases e : X = Y
  · subst e; simp [lookupSym]
  · simp only [lookupSym, e, if_false]
    induction row with
    | nil => simp [lookupSym]
    | cons a r ih =>
      obtain ⟨Z, t⟩ := a
      simp only [List.filter_cons]
      by_cases hz : Z = X
      · subst hz
        simp [lookupSym, e, ih]
      · have : (Z != X) = true := by simpa using hz
        simp only [this, if_true, lookupSym]
        split
        · rfl
        · exact ih

/-- `mergeInto`: members, the `changed` flag, duplicate-freeness, size. -/
theorem mergeInto_spec (old add : List Item) :
    (∀ x, x ∈ (mergeInto old add).1 ↔ x ∈ old ∨ x ∈ add) ∧
    ((mergeInto old add).2 = false → (mergeInto old add).1 = old) ∧
    ((mergeInto old add).2 = true → old.length < (mergeInto old add).1.length) ∧
    (old.Nodup → (mergeInto old add).1.Nodup) ∧
    old.length ≤ (mergeInto old add).1.length := by
  unfold mergeInto
  suffices h : ∀ (add : List Item) (acc : List Item × Bool),
      let r := add.foldl (fun acc x => if x ∈ acc.1 then acc else (acc.1 ++ [x], true)) acc
      (∀ x, x ∈ r.1 ↔ x ∈ acc.1 ∨ x ∈ add) ∧
      (r.2 = false → r.1 = acc.1 ∧ acc.2 = false) ∧
      (r.2 = true → acc.2 = true ∨ acc.1.length < r.1.length) ∧
      (acc.1.Nodup → r.1.Nodup) ∧ acc.1.length ≤ r.1.length by
    obtain ⟨h1, h2, h3, h4, h5⟩ := h add (old, false)
    refine ⟨h1, fun e => (h2 e).1, fun e => ?_, h4, h5⟩
    rcases h3 e with h | h
    · cases h
    · exact h
  intro add
  induction add with
  | nil =>
    intro acc
    exact ⟨fun x => by simp, fun e => ⟨rfl, e⟩, fun e => .inl e, fun h => h, Nat.le_refl _⟩
  | cons a r ih =>
    intro acc
    simp only [List.foldl_cons]
    by_cases ha : a ∈ acc.1
    · simp only [ha, if_true]
      obtain ⟨h1, h2, h3, h4, h5⟩ := ih acc
      refine ⟨fun x => ?_, h2, h3, h4, h5⟩
      rw [h1 x]
      constructor
      · rintro (h | h)
        · exact .inl h
        · exact .inr (List.mem_cons_of_mem _ h)
      · rintro (h | h)
        · exact .inl h
        · rcases List.mem_cons.mp h with rfl | h
          · exact .inl ha
          · exact .inr h
    · simp only [ha, if_false]
      obtain ⟨h1, h2, h3, h4, h5⟩ := ih (acc.1 ++ [a], true)
      simp only [List.length_append, List.length_singleton] at h3 h5
      refine ⟨fun x => ?_, fun e => ?_, fun _ => .inr (by omega), fun hn => ?_, by omega⟩
      · simp only [h1 x, List.mem_append, List.mem_cons, List.not_mem_nil, or_false, or_assoc]
      · exact absurd (h2 e).2 (by simp)
      · apply h4
        rw [List.nodup_append]
        exact ⟨hn, by simp, fun x hx y hy => by
          simp only [List.mem_singleton] at hy
          subst hy
          intro e; subst e; exact ha hx⟩

/-! ### `Closure` returns a duplicate-free list -/

theorem closureLoop_nodup {G : Grammar} {F : Tab} (n : Nat) {R P C : List Item} (hR : R.Nodup)
    (h : closureLoop G F n R P = some C) : C.Nodup := by
  induction n generalizing R P with
  | zero => simp [closureLoop] at h
  | succ n ih =>
    simp only [closureLoop] at h
    split at h
    · cases h; exact hR
    · refine ih ?_ h
      unfold closureRound
      exact (foldl_addNew (P.flatMap (expand G F)) R []).2.2.1 hR

theorem closure_nodup {G : Grammar} {nT : Nat} {I C : List Item} (h : closure? G nT I = some C) :
    C.Nodup := by
  unfold closure? closureWith at h
  exact closureLoop_nodup _ ((foldl_addNew I [] []).2.2.1 (by simp)) h

theorem goto_nodup {G : Grammar} {nT : Nat} {I C : List Item} {X : Sym}
    (h : goto? G nT I X = some C) : C.Nodup := closure_nodup h

/-! ### The two formulations of derivations and FIRST -/

theorem derives_of_gen {G : Grammar} {α β : List Sym} (h : Gen.Derives G α β) :
    Lox.LR.Derives G α β := by
  induction h with
  | refl => exact .refl _
  | step hs _ ih =>
    cases hs with
    | mk u v hq => exact .step hq ih

theorem gen_of_derives {G : Grammar} {α β : List Sym} (h : Lox.LR.Derives G α β) :
    Gen.Derives G α β := by
  induction h with
  | refl => exact .refl _
  | step hq _ ih => exact .step (.mk _ _ hq) ih

/-- The lookahead condition of the generator's closure rule is the `First` of the definition. -/
theorem sfirst_iff_first {G : Grammar} {nT : Nat} (ht : TermsBelow G nT) (β : List Sym) (a b : Nat) :
    SFirst G (β ++ [.t a]) b ↔ First G β a b := by
  have hex := firstSets_exact ht
  constructor
  · intro h
    have hb : b ∈ firstLA (firstSets G nT) β a := by
      unfold firstLA
      exact ((hex (β ++ [.t a])).1 b).mpr h
    rcases mem_firstLA.mp hb with h1 | ⟨h1, rfl⟩
    · obtain ⟨δ, hd⟩ := ((hex β).1 b).mp h1
      exact .inl ⟨δ, derives_of_gen hd⟩
    · exact .inr ⟨derives_of_gen ((hex β).2.mp h1), rfl⟩
  · rintro (⟨δ, hd⟩ | ⟨hd, rfl⟩)
    · refine ⟨δ ++ [.t a], ?_⟩
      have := (gen_of_derives hd).append_right [.t a]
      simpa using this
    · refine ⟨[], ?_⟩
      have := (gen_of_derives hd).append_right [.t b]
      simpa using this

/-- A closure step does not depend on the lookahead of the parent as far as the CORE of the
child is concerned. -/
theorem closureRule_core {G : Grammar} {nT : Nat} (ht : TermsBelow G nT) {it new : Item}
    (h : ClosureRule G it new) (a' : Nat) :
    ∃ b', ClosureRule G ⟨it.p, it.d, a'⟩ ⟨new.p, 0, b'⟩ := by
  obtain ⟨pr, B, qr, hp, hX, hq, hl, _, hf⟩ := h
  have hex := firstSets_exact ht
  have hb : new.a ∈ firstLA (firstSets G nT) (pr.rhs.drop (it.d + 1)) it.a := by
    unfold firstLA
    exact ((hex _).1 _).mpr hf
  rcases mem_firstLA.mp hb with h1 | ⟨h1, _⟩
  · refine ⟨new.a, pr, B, qr, hp, hX, hq, hl, rfl, ?_⟩
    have h2 : new.a ∈ firstLA (firstSets G nT) (pr.rhs.drop (it.d + 1)) a' :=
      mem_firstLA.mpr (.inl h1)
    unfold firstLA at h2
    exact ((hex _).1 _).mp h2
  · refine ⟨a', pr, B, qr, hp, hX, hq, hl, rfl, ?_⟩
    have h2 : a' ∈ firstLA (firstSets G nT) (pr.rhs.drop (it.d + 1)) a' :=
      mem_firstLA.mpr (.inr ⟨h1, rfl⟩)
    unfold firstLA at h2
    exact ((hex _).1 _).mp h2

/-- `J` has every core of `I`. -/
def CoresSub (I J : List Item) : Prop := ∀ x ∈ I, ∃ a, (⟨x.p, x.d, a⟩ : Item) ∈ J

theorem CoresSub.refl (I : List Item) : CoresSub I I := fun x hx => ⟨x.a, hx⟩

theorem CoresSub.trans {I J K : List Item} (h1 : CoresSub I J) (h2 : CoresSub J K) :
    CoresSub I K := by
  intro x hx
  obtain ⟨a, ha⟩ := h1 x hx
  have := h2 ⟨x.p, x.d, a⟩ ha
  exact this

theorem CoresSub.of_subset {I J : List Item} (h : ∀ x ∈ I, x ∈ J) : CoresSub I J :=
  fun x hx => ⟨x.a, h x hx⟩

/-- The cores of a closure are determined by the cores of its argument: if the closed set `J` has
every core of `K`, it has every core of the closure of `K`. -/
theorem closureOf_cores {G : Grammar} {nT : Nat} (ht : TermsBelow G nT) {K J : List Item}
    (hK : CoresSub K J) (hJ : ClosedSet G J) {x : Item} (hx : ClosureOf G K x) :
    ∃ a, (⟨x.p, x.d, a⟩ : Item) ∈ J := by
  induction hx with
  | base hi => exact hK _ hi
  | @step it new _ hr ih =>
    obtain ⟨a', ha'⟩ := ih
    obtain ⟨b', hb'⟩ := closureRule_core ht hr a'
    have hd : new.d = 0 := by
      obtain ⟨_, _, _, _, _, _, _, hd, _⟩ := hr
      exact hd
    rw [hd]
    exact ⟨b', hJ _ ha' _ hb'⟩

theorem advance_cores {G : Grammar} {I J : List Item} (h : CoresSub I J) (X : Sym) :
    CoresSub (advance G I X) (advance G J X) := by
  intro x hx
  obtain ⟨it, hit, had, rfl⟩ := mem_advance.mp hx
  obtain ⟨a, ha⟩ := h it hit
  refine ⟨a, mem_advance.mpr ⟨⟨it.p, it.d, a⟩, ha, ?_, rfl⟩⟩
  simpa [afterDot] using had

end Lox.LR.Cons
